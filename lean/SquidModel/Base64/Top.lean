/-
The statements the property theorems are assembled from: one-shot / chunked decoding, the
characterisation of accepted input, and the Basic credentials path.
-/
import SquidModel.Base64.Sound
import SquidModel.Base64.Encode
import SquidModel.Base64.Basic

namespace SquidModel.Base64

theorem decodeAll_eq_some (lim : Nat) (s x : Bytes) :
    decodeAll lim s = some x ↔
      (decodeUpdate lim decodeInit s).2.2 = .ok ∧ decodeFinal (decodeUpdate lim decodeInit s).1 = true ∧ (decodeUpdate lim decodeInit s).2.1 = x := by
  simp only [decodeAll, decodeChunks, decodeChunksFrom]
  generalize decodeUpdate lim decodeInit s = r
  obtain ⟨c, o, k⟩ := r
  cases k <;> simp

/-- chunking of the decoder input is irrelevant -/
theorem decodeChunksFrom_flatten (lim : Nat) (ys : List Bytes) : ∀ ctx, decodeChunksFrom lim ctx ys = decodeChunksFrom lim ctx [ys.flatten] := by
  induction ys with
  | nil => intro ctx; simp [decodeChunksFrom, decodeUpdate]
  | cons s rest ih =>
    intro ctx
    simp only [List.flatten_cons]
    rw [decodeChunksFrom]
    generalize hr : decodeUpdate lim ctx s = r
    obtain ⟨c1, o1, k⟩ := r
    cases k with
    | ok =>
      simp only
      rw [ih c1]
      simp only [decodeChunksFrom, update_append_ok lim s rest.flatten ctx c1 o1 hr]
      generalize decodeUpdate lim c1 rest.flatten = r2
      obtain ⟨c2, o2, k2⟩ := r2
      cases k2 <;> simp
    | bad =>
      simp only [decodeChunksFrom, update_append_fail lim s rest.flatten ctx c1 o1 .bad hr (by simp)]
    | assertFail =>
      simp only [decodeChunksFrom, update_append_fail lim s rest.flatten ctx c1 o1 .assertFail hr (by simp)]

theorem decodeChunks_flatten (lim : Nat) (ys : List Bytes) : decodeChunks lim ys = decodeAll lim ys.flatten :=
  decodeChunksFrom_flatten lim ys decodeInit

/-- one-shot decoding of encode_raw output, white space allowed anywhere -/
theorem decodeAll_canonical (lim : Nat) (hlim : 2 ≤ lim) (s x : Bytes) (h : strip s = encodeRaw x) : decodeAll lim s = some x := by
  rw [decodeAll_eq_some, ← update_strip, h]
  obtain ⟨ctx', hd, hb, _⟩ := decode_encodeRaw lim hlim x 0
  have : decodeInit = ⟨0, 0, 0⟩ := rfl
  rw [this, hd]
  simp [decodeFinal, hb]

theorem strip_noWs_id (t : Bytes) (h : NoWs t) : strip t = t := by
  induction t with
  | nil => rfl
  | cons c cs ih =>
    have hc : isWs c = false := by
      simp only [isWs, beq_eq_false_iff_ne]; exact h c (List.mem_cons_self)
    simp only [strip, List.filter_cons, hc, Bool.not_false, ↓reduceIte]
    congr 1
    exact ih (noWs_tail h)

theorem table_alpha_ne_ws (x : Nat) : tableAt (alpha x) ≠ -2 := by
  rw [table_alpha]; omega

theorem noWs_encodeRaw (x : Bytes) : NoWs (encodeRaw x) := by
  induction x using encodeRaw.induct with
  | case1 a b c rest ih =>
    intro d hd
    simp only [encodeRaw, List.mem_cons] at hd
    rcases hd with rfl | rfl | rfl | rfl | hd
    · exact table_alpha_ne_ws _
    · exact table_alpha_ne_ws _
    · exact table_alpha_ne_ws _
    · exact table_alpha_ne_ws _
    · exact ih d hd
  | case2 a b =>
    intro d hd
    simp only [encodeRaw, List.mem_cons, List.not_mem_nil, or_false] at hd
    rcases hd with rfl | rfl | rfl | rfl
    · exact table_alpha_ne_ws _
    · exact table_alpha_ne_ws _
    · exact table_alpha_ne_ws _
    · decide
  | case3 a =>
    intro d hd
    simp only [encodeRaw, List.mem_cons, List.not_mem_nil, or_false] at hd
    rcases hd with rfl | rfl | rfl | rfl
    · exact table_alpha_ne_ws _
    · exact table_alpha_ne_ws _
    · decide
    · decide
  | case4 => intro d hd; simp [encodeRaw] at hd

/-- accepted, and not ending in three pad characters: the text is the canonical encoding of the result -/
theorem decodeAll_sound (lim : Nat) (hlim1 : 1 ≤ lim) (hlim3 : lim ≤ 3) (s x : Bytes) (h : decodeAll lim s = some x)
    (hs : lim ≤ 2 ∨ ¬ ([61, 61, 61] <:+ strip s)) :
    strip s = encodeRaw x := by
  rw [decodeAll_eq_some, ← update_strip] at h
  obtain ⟨hk, hf, hx⟩ := h
  generalize hr : decodeUpdate lim decodeInit (strip s) = r at hk hf hx
  obtain ⟨c, o, k⟩ := r
  simp only at hk hf hx
  subst hk hx
  exact sound_aux lim hlim1 hlim3 _ (strip s) (Nat.le_refl _) (noWs_strip s) hs 0 c o hr (by simpa [decodeFinal] using hf)

/-- the whole class of the known finding: full groups followed by "A===" are accepted -/
theorem triple_pad_accepted (lim : Nat) (hlim : 3 ≤ lim) (x : Bytes) : decodeAll lim (encodeRaw x ++ [65, 61, 61, 61]) = some x ∨ x.length % 3 ≠ 0 := by
  by_cases hl : x.length % 3 = 0
  · left
    have key : ∀ (y : Bytes) (w : Nat), y.length % 3 = 0 → ∃ w', decodeUpdate lim ⟨w, 0, 0⟩ (encodeRaw y ++ [65, 61, 61, 61]) =
        (⟨w', 0, 3⟩, y, .ok) := by
      intro y
      induction y using encodeRaw.induct with
      | case1 a b c rest ih =>
        intro w hy
        obtain ⟨w1, hg⟩ := decode_group lim w a b c (encodeRaw rest ++ [65, 61, 61, 61])
        obtain ⟨w2, h2⟩ := ih w1 (by simp only [List.length_cons] at hy; omega)
        refine ⟨w2, ?_⟩
        have : encodeRaw (a :: b :: c :: rest) ++ [65, 61, 61, 61] = encodeRaw [a, b, c] ++ (encodeRaw rest ++ [65, 61, 61, 61]) := by
          simp [encodeRaw]
        rw [this, hg, h2]
      | case2 a b => intro w hy; simp at hy
      | case3 a => intro w hy; simp at hy
      | case4 =>
        intro w _
        have t65 : tableAt 65 = ((0 : Nat) : Int) := by decide
        simp only [encodeRaw, List.nil_append]
        rw [decodeUpdate_cons, step0 t65 (by decide)]
        simp only
        have z6 : wstep w 0 % 2 ^ 6 = 0 := by simp only [wstep]; omega
        have z4 : wstep w 0 % 2 ^ 4 = 0 := by simp only [wstep]; omega
        have z2 : wstep w 0 % 2 ^ 2 = 0 := by simp only [wstep]; omega
        rw [decodeUpdate_cons, padstep lim _ 6 0 (by decide) (by decide) (by omega) (by decide) z6]
        simp only
        rw [decodeUpdate_cons, padstep lim _ 4 1 (by decide) (by decide) (by omega) (by decide) z4]
        simp only
        rw [decodeUpdate_cons, padstep lim _ 2 2 (by decide) (by decide) (by omega) (by decide) z2]
        simp only [decodeUpdate]
        exact ⟨_, rfl⟩
    obtain ⟨w', hk⟩ := key x 0 hl
    rw [decodeAll_eq_some]
    have : decodeInit = ⟨0, 0, 0⟩ := rfl
    rw [this, hk]
    simp [decodeFinal]
  · right; exact hl

/-! ### Basic credentials -/
namespace Basic

theorem cstr_no_nul (s : Bytes) : (0 : UInt8) ∉ cstr s := by
  induction s with
  | nil => simp [cstr]
  | cons c cs ih =>
    by_cases hc : c = 0
    · simp [cstr, hc]
    · simp only [cstr, List.takeWhile_cons, ne_eq, hc, not_false_eq_true, decide_true, ↓reduceIte, List.mem_cons, not_or]
      exact ⟨fun h => hc h.symm, ih⟩

theorem cstr_of_no_nul (s : Bytes) (h : (0 : UInt8) ∉ s) : cstr s = s := by
  induction s with
  | nil => rfl
  | cons c cs ih =>
    simp only [List.mem_cons, not_or] at h
    have hc : c ≠ 0 := fun h0 => h.1 h0.symm
    simp only [cstr, List.takeWhile_cons, ne_eq, hc, not_false_eq_true, decide_true, ↓reduceIte, List.cons.injEq, true_and]
    exact ih h.2

/-- what decodeCleartext returns: the C-string view of the decoded payload, free of CR and LF -/
theorem decodeCleartext_some (lim : Nat) (hdr clear : Bytes) :
    decodeCleartext lim hdr = some clear ↔
      decodeAll lim (payload hdr) = some clear ∧ (0 : UInt8) ∉ clear ∧ (13 : UInt8) ∉ clear ∧ (10 : UInt8) ∉ clear := by
  simp only [decodeCleartext, decodeAll_eq_some]
  generalize decodeUpdate lim decodeInit (payload hdr) = r
  obtain ⟨c, o, k⟩ := r
  simp only
  by_cases hok : k = .ok ∧ decodeFinal c = true
  · simp only [hok, and_self, ↓reduceIte, true_and]
    by_cases hnul : o.contains 0 = true
    · simp only [hnul, ↓reduceIte]
      constructor
      · intro h; cases h
      · rintro ⟨rfl, h0, _, _⟩
        exact absurd (by simpa using hnul) h0
    · have h0 : (0 : UInt8) ∉ o := by simpa using hnul
      simp only [hnul, Bool.false_eq_true, ↓reduceIte, cstr_of_no_nul o h0]
      by_cases hany : o.any (fun c => c == 13 || c == 10) = true
      · simp only [hany, ↓reduceIte]
        constructor
        · intro h; cases h
        · rintro ⟨rfl, _, h13, h10⟩
          simp only [List.any_eq_true, Bool.or_eq_true, beq_iff_eq] at hany
          obtain ⟨d, hd, rfl | rfl⟩ := hany
          · exact absurd hd h13
          · exact absurd hd h10
      · simp only [hany, Bool.false_eq_true, ↓reduceIte, Option.some.injEq]
        simp only [List.any_eq_true, Bool.or_eq_true, beq_iff_eq, not_exists, not_and, not_or] at hany
        constructor
        · intro h
          subst h
          exact ⟨rfl, h0, fun h => (hany 13 h).1 rfl, fun h => (hany 10 h).2 rfl⟩
        · rintro ⟨rfl, _, _, _⟩; rfl
  · have : ¬ (k = UpdRes.ok ∧ decodeFinal c = true) := hok
    simp only [this, ↓reduceIte]
    constructor
    · intro h; cases h
    · rintro ⟨⟨h1, h2, _⟩, _⟩
      exact absurd ⟨h1, h2⟩ hok

theorem toLower_not_ctl (c : UInt8) (h0 : c ≠ 0) (h10 : c ≠ 10) (h13 : c ≠ 13) :
    toLower c ≠ 0 ∧ toLower c ≠ 10 ∧ toLower c ≠ 13 := by
  have := forall_octet (fun c => c == 0 || c == 10 || c == 13 || (toLower c != 0 && toLower c != 10 && toLower c != 13))
    (by decide +kernel) c
  simp only [Bool.or_eq_true, beq_iff_eq, Bool.and_eq_true, bne_iff_ne, ne_eq] at this
  rcases this with ((h | h) | h) | h
  · exact absurd h h0
  · exact absurd h h10
  · exact absurd h h13
  · exact ⟨h.1.1, h.1.2, h.2⟩

theorem toLower_not_colon (c : UInt8) (h : c ≠ 58) : toLower c ≠ 58 := by
  have := forall_octet (fun c => c == 58 || toLower c != 58) (by decide +kernel) c
  simp only [Bool.or_eq_true, beq_iff_eq, bne_iff_ne, ne_eq] at this
  rcases this with h1 | h1
  · exact absurd h1 h
  · exact h1

/-- the buffer arithmetic of decodeCleartext -/
theorem clearMem_safe (lim : Nat) (hdr : Bytes) :
    (clearMem lim hdr).written ≤ decodeLength (payload hdr).length ∧ (clearMem lim hdr).written + 1 ≤ (clearMem lim hdr).size ∧
    ∀ k, (clearMem lim hdr).nulAt = some k → k < (clearMem lim hdr).size := by
  have hb := (update_inv lim (payload hdr) decodeInit dinv_init).2
  have hl := decodeLength_eq (payload hdr).length
  have e : Gen.Base64.cleartextExtra = 1 := by decide
  have h0 : decodeInit.bits = 0 := rfl
  rw [h0] at hb
  simp only [clearMem, e]
  refine ⟨by omega, by omega, ?_⟩
  intro k hk
  by_cases hc : (decodeUpdate lim decodeInit (payload hdr)).2.2 = UpdRes.ok ∧ decodeFinal (decodeUpdate lim decodeInit (payload hdr)).1 = true
  · rw [if_pos hc] at hk
    simp only [Option.some.injEq] at hk; omega
  · rw [if_neg hc] at hk
    cases hk

theorem mem_takeWhile' (p : UInt8 → Bool) (l : Bytes) (b : UInt8) (h : b ∈ l.takeWhile p) : p b = true ∧ b ∈ l := by
  induction l with
  | nil => simp at h
  | cons c cs ih =>
    by_cases hc : p c = true
    · simp only [List.takeWhile_cons, hc, ↓reduceIte, List.mem_cons] at h
      rcases h with rfl | h
      · exact ⟨hc, by simp⟩
      · exact ⟨(ih h).1, List.mem_cons_of_mem _ (ih h).2⟩
    · simp [hc] at h

theorem dropWhile_colon_split (l : Bytes) (h : (58 : UInt8) ∈ l) :
    l.dropWhile (· ≠ 58) = 58 :: (l.dropWhile (· ≠ 58)).drop 1 := by
  induction l with
  | nil => simp at h
  | cons c cs ih =>
    by_cases hc : c = 58
    · subst hc; simp
    · have hc' : decide (c ≠ 58) = true := by simpa using hc
      simp only [List.mem_cons] at h
      have hm : (58 : UInt8) ∈ cs := by
        rcases h with h | h
        · exact absurd h.symm hc
        · exact h
      simp only [List.dropWhile_cons, hc', ↓reduceIte]
      exact ih hm

theorem takeWhile_colon (user rest : Bytes) (hu : (58 : UInt8) ∉ user) :
    (user ++ 58 :: rest).takeWhile (· ≠ 58) = user ∧ (user ++ 58 :: rest).dropWhile (· ≠ 58) = 58 :: rest := by
  induction user with
  | nil => simp
  | cons c cs ih =>
    simp only [List.mem_cons, not_or] at hu
    have hc : decide (c ≠ 58) = true := by
      have : c ≠ 58 := fun h => hu.1 h.symm
      simpa using this
    obtain ⟨i1, i2⟩ := ih hu.2
    simp only [List.cons_append, List.takeWhile_cons, List.dropWhile_cons, hc, ↓reduceIte, i1, i2, and_self]

theorem takeWhile_no_colon (user : Bytes) (hu : (58 : UInt8) ∉ user) : user.takeWhile (· ≠ 58) = user := by
  induction user with
  | nil => rfl
  | cons c cs ih =>
    simp only [List.mem_cons, not_or] at hu
    have hc : decide (c ≠ 58) = true := by
      have : c ≠ 58 := fun h => hu.1 h.symm
      simpa using this
    simp only [List.takeWhile_cons, hc, ↓reduceIte, ih hu.2]

/-- The usual header shape: a scheme token of visible characters, one space, base64 text. -/
theorem payload_of_header (scheme b64 : Bytes) (hs : ∀ c ∈ scheme, isGraph c = true)
    (hb : ∀ c ∈ b64, isGraph c = true) : payload (scheme ++ 32 :: b64) = b64 := by
  have h1 : (scheme ++ 32 :: b64).dropWhile isGraph = 32 :: b64 := by
    induction scheme with
    | nil => simp [isGraph]
    | cons c cs ih =>
      have := hs c (by simp)
      simp only [List.cons_append, List.dropWhile_cons, this, ↓reduceIte]
      exact ih (fun d hd => hs d (List.mem_cons_of_mem _ hd))
  have hsp : ∀ c, isGraph c = true → isSpace c = false ∧ c ≠ 10 := by
    intro c
    have := forall_octet (fun c => !isGraph c || (!isSpace c && c != 10)) (by decide +kernel) c
    intro hg
    simpa [hg] using this
  have h2 : (32 :: b64).dropWhile isSpace = b64 := by
    cases b64 with
    | nil => simp [isSpace]
    | cons c cs =>
      have hc := (hsp c (hb c (by simp))).1
      have h32 : isSpace 32 = true := by decide
      simp only [List.dropWhile_cons, h32, ↓reduceIte, hc, Bool.false_eq_true]
  have h3 : ∀ l : Bytes, (∀ c ∈ l, c ≠ 10) → l.takeWhile (· == 10) = [] ∧ l.dropWhile (· == 10) = l ∧ l.takeWhile (· ≠ 10) = l := by
    intro l hl
    induction l with
    | nil => simp
    | cons c cs ih =>
      have hc := hl c (by simp)
      obtain ⟨i1, i2, i3⟩ := ih (fun d hd => hl d (List.mem_cons_of_mem _ hd))
      have e1 : (c == 10) = false := by simpa using hc
      have e2 : decide (c ≠ 10) = true := by simpa using hc
      simp only [List.takeWhile_cons, List.dropWhile_cons, e1, e2, Bool.false_eq_true, ↓reduceIte, i3, and_self]
  obtain ⟨t1, t2, t3⟩ := h3 b64 (fun c hc => (hsp c (hb c hc)).2)
  simp only [payload, h1, h2, strtokLF, t1, t2, t3, List.nil_append]
  cases b64 <;> rfl


/-- the two implementations: lim = 2 (lib/base64.cc) or lim = 3 (libnettle) -/
def Impl (lim : Nat) : Prop := lim = Gen.Base64.localPadLimit ∨ lim = Gen.Base64.nettlePadLimit

theorem impl_bounds {lim : Nat} (h : Impl lim) : 2 ≤ lim ∧ lim ≤ 3 := by
  rcases h with h | h
  · rw [h, local_lim]; omega
  · rw [h, nettle_lim]; omega

/-- provenance of accepted credentials: the payload is canonical base64 of a text free of NUL/CR/LF, and the
result is its split at the first colon -/
theorem basic_sound_gen (lim : Nat) (hlim1 : 1 ≤ lim) (hlim3 : lim ≤ 3) (cs : Bool) (hdr : Bytes) (c : Creds)
    (h : Basic.decode lim cs hdr = some c) (hpad : lim ≤ 2 ∨ ¬ ([61, 61, 61] <:+ strip (payload hdr))) :
    ∃ x, strip (payload hdr) = encodeRaw x ∧ (0 : UInt8) ∉ x ∧ (13 : UInt8) ∉ x ∧ (10 : UInt8) ∉ x ∧
      c.user = (if cs then x.takeWhile (· ≠ 58) else (x.takeWhile (· ≠ 58)).map toLower) ∧
      (∀ p, c.pass = some p → x = x.takeWhile (· ≠ 58) ++ 58 :: p) ∧
      (c.pass = none → (58 : UInt8) ∉ x ∨ x = x.takeWhile (· ≠ 58) ++ [58]) := by
  simp only [Basic.decode] at h
  generalize hcl : decodeCleartext lim hdr = r at h
  cases r with
  | none => simp at h
  | some x =>
    obtain ⟨hd, h0, h13, h10⟩ := (decodeCleartext_some lim hdr x).mp hcl
    refine ⟨x, decodeAll_sound lim hlim1 hlim3 _ _ hd hpad, h0, h13, h10, ?_, ?_, ?_⟩
    · simp only at h
      by_cases hsep : x.contains 58 = true
      · simp only [hsep, ↓reduceIte] at h
        generalize (x.dropWhile (· ≠ 58)).drop 1 = p at h
        cases p <;> (simp only [Option.some.injEq] at h; subst h; rfl)
      · simp only [hsep, Bool.false_eq_true, ↓reduceIte, Option.some.injEq] at h
        subst h; rfl
    · intro p hp
      simp only at h
      by_cases hsep : x.contains 58 = true
      · simp only [hsep, ↓reduceIte] at h
        have hsplit := dropWhile_colon_split x (by simpa using hsep)
        generalize hq : (x.dropWhile (· ≠ 58)).drop 1 = q at h hsplit
        have hpq : p = q := by
          cases q with
          | nil => simp only [Option.some.injEq] at h; subst h; simp at hp
          | cons q0 qs => simp only [Option.some.injEq] at h; subst h; simpa using hp.symm
        subst hpq
        conv => lhs; rw [← List.takeWhile_append_dropWhile (p := (· ≠ 58)) (l := x)]
        rw [hsplit]
      · simp only [hsep, Bool.false_eq_true, ↓reduceIte, Option.some.injEq] at h
        subst h; simp at hp
    · intro hp
      simp only at h
      by_cases hsep : x.contains 58 = true
      · right
        simp only [hsep, ↓reduceIte] at h
        have hsplit := dropWhile_colon_split x (by simpa using hsep)
        generalize hq : (x.dropWhile (· ≠ 58)).drop 1 = q at h hsplit
        cases q with
        | nil =>
          conv => lhs; rw [← List.takeWhile_append_dropWhile (p := (· ≠ 58)) (l := x)]
          rw [hsplit]
        | cons q0 qs => simp only [Option.some.injEq] at h; subst h; simp at hp
      · left; simpa using hsep

end Basic
end SquidModel.Base64
