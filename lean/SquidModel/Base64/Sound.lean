/-
Soundness of the decoder: what it accepts is canonical RFC 4648 text (with the white space
removed), except for the dangling-sextet-with-three-pads case, which it accepts.
-/
import SquidModel.Base64.Decode

namespace SquidModel.Base64

def NoWs (t : Bytes) : Prop := ∀ c ∈ t, tableAt c ≠ -2

theorem noWs_strip (s : Bytes) : NoWs (strip s) := by
  intro c hc
  simp only [strip, List.mem_filter, isWs, Bool.not_eq_true', beq_eq_false_iff_ne] at hc
  exact hc.2

theorem noWs_tail {c : UInt8} {t : Bytes} (h : NoWs (c :: t)) : NoWs t :=
  fun d hd => h d (List.mem_cons_of_mem _ hd)

/-- once a pad character has been seen, only pad characters can follow, each taking two bits -/
theorem pad_tail (lim : Nat) (hlim : lim ≤ 3) (t : Bytes) : ∀ ctx ctx' out, 1 ≤ ctx.padding → ctx.padding ≤ lim → DInv ctx → NoWs t →
    decodeUpdate lim ctx t = (ctx', out, .ok) →
    out = [] ∧ t = List.replicate t.length 61 ∧ ctx'.padding = ctx.padding + t.length ∧ ctx'.bits + 2 * t.length = ctx.bits ∧
      ctx'.padding ≤ lim := by
  induction t with
  | nil =>
    intro ctx ctx' out _ _ _ _ h
    simp only [decodeUpdate, Prod.mk.injEq] at h
    obtain ⟨rfl, rfl, _⟩ := h
    simp [*]
  | cons c cs ih =>
    intro ctx ctx' out hp1 hp3 hinv hws h
    rw [decodeUpdate_cons] at h
    rcases char_cases c with hc | hc | hc | ⟨v, hv, hc⟩
    · simp [single_invalid hc] at h
    · exact absurd hc (hws c (List.mem_cons_self))
    · rw [single_pad hc] at h
      by_cases hb : ctx.bits = 0 ∨ ctx.padding ≥ lim
      · simp [hb] at h
      · by_cases hz : ctx.word % 2 ^ ctx.bits ≠ 0
        · simp [hb, hz] at h
        · simp only [hb, hz, ↓reduceIte] at h
          have hb0 : ctx.bits ≠ 0 := fun h0 => hb (Or.inl h0)
          have hp2 : ctx.padding < lim := by
            have : ¬ ctx.padding ≥ lim := fun h0 => hb (Or.inr h0)
            omega
          obtain ⟨h2, h6⟩ := hinv
          have e1 : (ctx.padding + 1) % 256 = ctx.padding + 1 := by omega
          have e2 : (ctx.bits + 256 - 2) % 256 = ctx.bits - 2 := by omega
          rw [e1, e2] at h
          have := ih _ ctx' out (by simp) (by simp; omega) (by simp only [DInv]; omega) (noWs_tail hws) h
          obtain ⟨r1, r2, r3, r4, r5⟩ := this
          simp only at r3 r4
          refine ⟨r1, ?_, ?_, ?_, r5⟩
          · rw [List.length_cons, List.replicate_succ, ← r2, (table_pad c).mp hc]
          · simp only [List.length_cons]; omega
          · simp only [List.length_cons]; omega
    · rw [single_data hc hv] at h
      have : ctx.padding ≠ 0 := by omega
      simp [this] at h

/-- first character of a group -/
theorem pos0 {lim : Nat} {c : UInt8} {cs : Bytes} {w : Nat} {ctx' : DecCtx} {out : Bytes}
    (h : decodeUpdate lim ⟨w, 0, 0⟩ (c :: cs) = (ctx', out, .ok)) (hws : tableAt c ≠ -2) :
    ∃ v : Nat, v < 64 ∧ tableAt c = (v : Int) ∧ decodeUpdate lim ⟨wstep w v, 6, 0⟩ cs = (ctx', out, .ok) := by
  rw [decodeUpdate_cons] at h
  rcases char_cases c with hc | hc | hc | ⟨v, hv, hc⟩
  · simp [single_invalid hc] at h
  · exact absurd hc hws
  · simp [single_pad hc] at h
  · rw [step0 hc hv] at h
    exact ⟨v, hv, hc, h⟩

/-- later characters of a group (bits = 6, 4, 2): a pad character over zero pending bits, or data giving a byte -/
theorem posk {lim : Nat} {c : UInt8} {cs : Bytes} {w b : Nat} {ctx' : DecCtx} {out : Bytes} (hlim : 1 ≤ lim) (hb2 : 2 ≤ b) (hb6 : b ≤ 6)
    (h : decodeUpdate lim ⟨w, b, 0⟩ (c :: cs) = (ctx', out, .ok)) (hws : tableAt c ≠ -2) :
    (c = 61 ∧ w % 2 ^ b = 0 ∧ decodeUpdate lim ⟨w, b - 2, 1⟩ cs = (ctx', out, .ok)) ∨
    (∃ v : Nat, v < 64 ∧ tableAt c = (v : Int) ∧ ∃ out', out = UInt8.ofNat (wstep w v / 2 ^ (b - 2)) :: out' ∧
      decodeUpdate lim ⟨wstep w v, b - 2, 0⟩ cs = (ctx', out', .ok)) := by
  rw [decodeUpdate_cons] at h
  rcases char_cases c with hc | hc | hc | ⟨v, hv, hc⟩
  · simp [single_invalid hc] at h
  · exact absurd hc hws
  · left
    rw [single_pad hc] at h
    have h1 : ¬ (b = 0 ∨ 0 ≥ lim) := by omega
    by_cases hz : w % 2 ^ b ≠ 0
    · simp [hz] at h
    · simp only [h1, hz, ↓reduceIte] at h
      simp only [ne_eq, Decidable.not_not] at hz
      have e2 : (b + 256 - 2) % 256 = b - 2 := by omega
      simp only [e2, Nat.zero_add, Nat.reduceMod] at h
      exact ⟨(table_pad c).mp hc, hz, h⟩
  · right
    rw [single_data hc hv] at h
    have e1 : (b + 6) % 256 = b + 6 := by omega
    have e2 : b + 6 ≥ 8 := by omega
    have e3 : b + 6 - 8 = b - 2 := by omega
    simp only [ne_eq, not_true_eq_false, ↓reduceIte, e1, e2, e3] at h
    generalize hr : decodeUpdate lim ⟨(w * 64 + v) % 65536, b - 2, 0⟩ cs = r at h
    obtain ⟨c2, o2, k2⟩ := r
    simp only [Prod.mk.injEq] at h
    obtain ⟨rfl, rfl, rfl⟩ := h
    exact ⟨v, hv, hc, o2, rfl, hr⟩

theorem final_nil {lim : Nat} {ctx ctx' : DecCtx} {out : Bytes} (h : decodeUpdate lim ctx [] = (ctx', out, .ok)) : ctx' = ctx ∧ out = [] := by
  simp only [decodeUpdate, Prod.mk.injEq] at h
  exact ⟨h.1.symm, h.2.1.symm⟩

/-- the sextets are those of the recovered bytes -/
theorem quad_sextets (w v1 v2 v3 v4 : Nat) (l1 : v1 < 64) (l2 : v2 < 64) (l3 : v3 < 64) (l4 : v4 < 64) :
    let b0 := (wstep (wstep w v1) v2 / 16) % 256
    let b1 := (wstep (wstep (wstep w v1) v2) v3 / 4) % 256
    let b2 := (wstep (wstep (wstep (wstep w v1) v2) v3) v4) % 256
    (b0 / 4) % 64 = v1 ∧ (b0 * 16 + b1 / 16) % 64 = v2 ∧ (b1 * 4 + b2 / 64) % 64 = v3 ∧ b2 % 64 = v4 := by
  simp only [wstep]
  omega

theorem tri_sextets (w v1 v2 v3 : Nat) (l1 : v1 < 64) (l2 : v2 < 64) (l3 : v3 < 64)
    (hz : wstep (wstep (wstep w v1) v2) v3 % 4 = 0) :
    let b0 := (wstep (wstep w v1) v2 / 16) % 256
    let b1 := (wstep (wstep (wstep w v1) v2) v3 / 4) % 256
    (b0 / 4) % 64 = v1 ∧ (b0 * 16 + b1 / 16) % 64 = v2 ∧ (b1 * 4) % 64 = v3 := by
  simp only [wstep] at hz ⊢
  omega

theorem duo_sextets (w v1 v2 : Nat) (l1 : v1 < 64) (l2 : v2 < 64) (hz : wstep (wstep w v1) v2 % 16 = 0) :
    let b0 := (wstep (wstep w v1) v2 / 16) % 256
    (b0 / 4) % 64 = v1 ∧ (b0 * 16) % 64 = v2 := by
  simp only [wstep] at hz ⊢
  omega

theorem toNat_ofNat_mod (n : Nat) : (UInt8.ofNat n).toNat = n % 256 := by
  rw [UInt8.toNat_ofNat']

/-- Accepted input without white space is the encode_raw image of the decoded bytes — outright when at
most two pad characters are let through (lim ≤ 2, lib/base64.cc), and for text that does not end in
three pad characters otherwise (lim = 3, libnettle). -/
theorem sound_aux (lim : Nat) (hlim1 : 1 ≤ lim) (hlim3 : lim ≤ 3) : ∀ n (t : Bytes), t.length ≤ n → NoWs t →
    (lim ≤ 2 ∨ ¬ ([61, 61, 61] <:+ t)) →
    ∀ w ctx' out, decodeUpdate lim ⟨w, 0, 0⟩ t = (ctx', out, .ok) → ctx'.bits = 0 → t = encodeRaw out := by
  intro n
  induction n with
  | zero =>
    intro t hl _ _ w ctx' out h _
    have : t = [] := List.eq_nil_of_length_eq_zero (by omega)
    subst this
    obtain ⟨_, rfl⟩ := final_nil h
    rfl
  | succ n ih =>
    intro t hl hws hsuf w ctx' out hA hbits
    rcases t with _ | ⟨c1, t1⟩
    · obtain ⟨_, rfl⟩ := final_nil hA
      rfl
    obtain ⟨v1, l1, h1, hB⟩ := pos0 hA (hws c1 (by simp))
    rcases t1 with _ | ⟨c2, t2⟩
    · obtain ⟨rfl, _⟩ := final_nil hB
      simp at hbits
    have hws2 : NoWs t2 := noWs_tail (noWs_tail hws)
    rcases posk hlim1 (by decide) (by decide) hB (hws c2 (by simp)) with ⟨rfl, hz, hC⟩ | ⟨v2, l2, h2, out1, rfl, hC⟩
    · -- "x=": only pads may follow; reaching bits = 0 needs two more: three pads in total
      have := pad_tail lim hlim3 t2 _ ctx' out (by simp) (by simpa using hlim1) (by simp [DInv]) hws2 hC
      obtain ⟨_, r2, r3, r4, r5⟩ := this
      simp only [hbits, Nat.zero_add] at r4
      have hlen : t2.length = 2 := by omega
      rw [hlen] at r2 r3
      simp only at r3
      rcases hsuf with hl2 | hsuf
      · omega
      · exfalso; apply hsuf
        rw [r2]
        exact ⟨[c1], rfl⟩
    simp only [Nat.reduceSub, Nat.reducePow] at hC ⊢
    rcases t2 with _ | ⟨c3, t3⟩
    · obtain ⟨rfl, _⟩ := final_nil hC
      simp at hbits
    have hws3 : NoWs t3 := noWs_tail hws2
    rcases posk hlim1 (by decide) (by decide) hC (hws c3 (by simp)) with ⟨rfl, hz, hD⟩ | ⟨v3, l3, h3, out2, rfl, hD⟩
    · -- "xx=" then exactly one more pad
      have := pad_tail lim hlim3 t3 _ ctx' out1 (by simp) (by simpa using hlim1) (by simp [DInv]) hws3 hD
      obtain ⟨r1, r2, _, r4, _⟩ := this
      simp only [hbits, Nat.zero_add] at r4
      have hlen : t3.length = 1 := by omega
      rw [hlen] at r2
      subst r1
      rw [r2]
      have q := duo_sextets w v1 v2 l1 l2 (by simpa using hz)
      simp only at q
      simp only [encodeRaw, List.replicate]
      rw [alpha_of_data h1 (x := (UInt8.ofNat (wstep (wstep w v1) v2 / 16)).toNat >>> 2)
            (by rw [toNat_ofNat_mod, Nat.shiftRight_eq_div_pow]; exact q.1),
          alpha_of_data h2 (x := (UInt8.ofNat (wstep (wstep w v1) v2 / 16)).toNat <<< 4)
            (by rw [toNat_ofNat_mod, Nat.shiftLeft_eq]; exact q.2)]
    simp only [Nat.reduceSub, Nat.reducePow] at hD ⊢
    rcases t3 with _ | ⟨c4, t4⟩
    · obtain ⟨rfl, _⟩ := final_nil hD
      simp at hbits
    have hws4 : NoWs t4 := noWs_tail hws3
    rcases posk hlim1 (by decide) (by decide) hD (hws c4 (by simp)) with ⟨rfl, hz, hE⟩ | ⟨v4, l4, h4, out3, rfl, hE⟩
    · -- "xxx=": nothing may follow
      have := pad_tail lim hlim3 t4 _ ctx' out2 (by simp) (by simpa using hlim1) (by simp [DInv]) hws4 hE
      obtain ⟨r1, r2, _, r4, _⟩ := this
      simp only [hbits, Nat.zero_add, Nat.sub_self] at r4
      have hlen : t4.length = 0 := by omega
      have : t4 = [] := List.eq_nil_of_length_eq_zero hlen
      subst this
      subst r1
      have q := tri_sextets w v1 v2 v3 l1 l2 l3 (by simpa using hz)
      simp only at q
      simp only [encodeRaw]
      rw [alpha_of_data h1 (x := (UInt8.ofNat (wstep (wstep w v1) v2 / 16)).toNat >>> 2)
            (by rw [toNat_ofNat_mod, Nat.shiftRight_eq_div_pow]; exact q.1),
          alpha_of_data h2 (by rw [enc_or1, toNat_ofNat_mod, toNat_ofNat_mod]; exact q.2.1),
          alpha_of_data h3 (x := (UInt8.ofNat (wstep (wstep (wstep w v1) v2) v3 / 4)).toNat <<< 2)
            (by rw [toNat_ofNat_mod, Nat.shiftLeft_eq]; exact q.2.2)]
    · -- a full group, then the rest
      have hsuf4 : lim ≤ 2 ∨ ¬ ([61, 61, 61] <:+ t4) := by
        rcases hsuf with hl2 | hsuf
        · exact Or.inl hl2
        · right
          intro hs
          apply hsuf
          obtain ⟨p, hp⟩ := hs
          exact ⟨c1 :: c2 :: c3 :: c4 :: p, by simp [hp]⟩
      simp only [Nat.sub_self, Nat.pow_zero, Nat.div_one] at hE ⊢
      have hrec := ih t4 (by simp only [List.length_cons] at hl; omega) hws4 hsuf4 _ ctx' out3 hE hbits
      have q := quad_sextets w v1 v2 v3 v4 l1 l2 l3 l4
      simp only at q
      simp only [encodeRaw]
      rw [alpha_of_data h1 (x := (UInt8.ofNat (wstep (wstep w v1) v2 / 16)).toNat >>> 2)
            (by rw [toNat_ofNat_mod, Nat.shiftRight_eq_div_pow]; exact q.1),
          alpha_of_data h2 (by rw [enc_or1, toNat_ofNat_mod, toNat_ofNat_mod]; exact q.2.1),
          alpha_of_data h3 (by rw [enc_or2, toNat_ofNat_mod, toNat_ofNat_mod]; exact q.2.2.1),
          alpha_of_data h4 (by rw [toNat_ofNat_mod]; exact q.2.2.2), ← hrec]

end SquidModel.Base64
