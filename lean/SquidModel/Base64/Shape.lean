/-
Facts about the regenerated tables and constants that the proofs rest on; re-decided by the
kernel against `Gen.Base64` on every run.
-/
import SquidModel.Base64.Codec
import SquidModel.Base.Finite

namespace SquidModel.Base64

/-- alphabet[v] -/
def alphaAt (v : Nat) : UInt8 := Gen.Base64.encodeTable.getD v 0

/-- every table entry is one of the three markers or a sextet: the assert of base64_decode_single cannot fire -/
def classOk (n : Nat) : Bool :=
  let d := tableAt (UInt8.ofNat n)
  d == -1 || d == -2 || d == -3 || (0 ≤ d && d < 64)

theorem class_table : allBelow 256 classOk = true := by decide +kernel

theorem table_class (c : UInt8) :
    tableAt c = -1 ∨ tableAt c = -2 ∨ tableAt c = -3 ∨ (0 ≤ tableAt c ∧ tableAt c < 64) := by
  have h := allBelow_spec class_table c.toNat c.toNat_lt
  simp only [classOk, UInt8.ofNat_toNat, Bool.or_eq_true, beq_iff_eq, Bool.and_eq_true, decide_eq_true_eq] at h
  omega

/-- decoding an alphabet character gives back its index -/
theorem alpha_table_all : allBelow 64 (fun v => tableAt (alphaAt v) == (v : Int)) = true := by decide +kernel

theorem table_alphaAt {v : Nat} (h : v < 64) : tableAt (alphaAt v) = (v : Int) := by
  have := allBelow_spec alpha_table_all v h
  simpa using this

/-- the data characters are exactly the alphabet -/
def dataOk (n : Nat) : Bool :=
  let c := UInt8.ofNat n
  let d := tableAt c
  if 0 ≤ d then alphaAt d.toNat == c else true

theorem data_table_all : allBelow 256 dataOk = true := by decide +kernel

theorem alphaAt_table {c : UInt8} (h : 0 ≤ tableAt c) : alphaAt (tableAt c).toNat = c := by
  have := allBelow_spec data_table_all c.toNat c.toNat_lt
  simp only [dataOk, UInt8.ofNat_toNat, h, ↓reduceIte, beq_iff_eq] at this
  exact this

/-- '=' is the only padding character, and it is one -/
theorem pad_only_all : allBelow 256 (fun n => if tableAt (UInt8.ofNat n) = -3 then n == 61 else n != 61) = true := by decide +kernel

theorem table_pad (c : UInt8) : tableAt c = -3 ↔ c = 61 := by
  have h := allBelow_spec pad_only_all c.toNat c.toNat_lt
  simp only [UInt8.ofNat_toNat] at h
  constructor
  · intro hc
    simp only [hc, ↓reduceIte, beq_iff_eq] at h
    exact UInt8.toNat_inj.mp (by simpa using h)
  · intro hc
    subst hc
    decide

/-- the libnettle this build links has the same tables and length macros as lib/base64.cc -/
theorem nettle_same_decode_table : Gen.Base64.nettleDecodeTable = Gen.Base64.decodeTable := by decide +kernel
theorem nettle_same_alphabet : Gen.Base64.nettleEncodeTable = Gen.Base64.encodeTable := by decide +kernel
theorem nettle_same_macros : Gen.Base64.nettleMacrosAgree = true := by decide

theorem local_lim : Gen.Base64.localPadLimit = 2 := by decide
theorem nettle_lim : Gen.Base64.nettlePadLimit = 3 := by decide

theorem decodeLength_eq (n : Nat) : decodeLength n = ((n + 1) * 6) / 8 := by
  simp [decodeLength, Gen.Base64.decLenAdd, Gen.Base64.decLenMul, Gen.Base64.decLenDiv]
theorem encodeLength_eq (n : Nat) : encodeLength n = (n * 8 + 4) / 6 := by
  simp [encodeLength, Gen.Base64.encLenMul, Gen.Base64.encLenAdd, Gen.Base64.encLenDiv]
theorem encodeFinalLength_eq : encodeFinalLength = 3 := by
  simp [encodeFinalLength, Gen.Base64.encFinalLength]
theorem encodeRawLength_eq (n : Nat) : encodeRawLength n = ((n + 2) / 3) * 4 := by
  simp [encodeRawLength, Gen.Base64.rawLenAdd, Gen.Base64.rawLenDiv, Gen.Base64.rawLenMul]

end SquidModel.Base64
