/-
Lemmas for the C01 response relay model (SquidModel.Relay.Response): the server-side invariant (what is in the store is what
the origin's framing defines), append-only growth of the store, and the client-side invariant over arbitrary interleavings.
-/
import SquidModel.Relay.Response

namespace SquidModel.Relay.Response
open SquidModel SquidModel.Chunked

/-! ## the chunked decoder only ever appends to its output -/

theorem offer_out_ext (relaxed : Bool) (capOf : Nat → Nat) :
    ∀ (f : Nat) (r : Run), ∃ t, (offer relaxed capOf f r).out = r.out ++ t := by
  intro f
  induction f with
  | zero => intro r; exact ⟨[], by simp [offer]⟩
  | succ f ih =>
    intro r
    unfold offer
    split
    · exact ⟨_, rfl⟩
    · rename_i done c _
      dsimp only
      split
      · exact ⟨c.out, rfl⟩
      · split
        · exact ⟨c.out, rfl⟩
        · split
          · obtain ⟨t, ht⟩ := ih { st := c.st, inBuf := c.buf, out := r.out ++ c.out, verdict := .more, calls := r.calls + 1 }
            exact ⟨c.out ++ t, by rw [ht]; simp⟩
          · exact ⟨c.out, rfl⟩

theorem feed_out_ext (relaxed : Bool) (capOf : Nat → Nat) (r : Run) (seg : Bytes) :
    ∃ t, (feed relaxed capOf r seg).out = r.out ++ t := by
  unfold feed
  split
  · obtain ⟨t, ht⟩ := offer_out_ext relaxed capOf (r.inBuf.length + seg.length + 1) { r with inBuf := r.inBuf ++ seg }
    exact ⟨t, ht⟩
  · exact ⟨[], by simp⟩


/-! ## static fields -/

theorem finish_te (s : Srv) : (finish s).te = s.te := rfl
theorem finish_fr (s : Srv) : (finish s).fr = s.fr := rfl

theorem writeBody_static (P : Params) (s : Srv) (seg : Bytes) :
    (writeBody P s seg).te = s.te ∧ (writeBody P s seg).fr = s.fr ∧ (writeBody P s seg).input = s.input ∧
    (writeBody P s seg).fin = s.fin ∧ (writeBody P s seg).eof = s.eof ∧ (writeBody P s seg).dec = s.dec ∧ (writeBody P s seg).seen = s.seen := by
  unfold writeBody
  split <;> (try split) <;> simp

theorem decodeBody_static (P : Params) (s : Srv) (seg : Bytes) :
    (decodeBody P s seg).te = s.te ∧ (decodeBody P s seg).fr = s.fr ∧ (decodeBody P s seg).input = s.input ∧ (decodeBody P s seg).eof = s.eof := by
  unfold decodeBody
  dsimp only
  split <;> simp [finish]

theorem processBody_static (P : Params) (s : Srv) (seg : Bytes) :
    (processBody P s seg).te = s.te ∧ (processBody P s seg).fr = s.fr ∧ (processBody P s seg).input = s.input ++ [seg] ∧ (processBody P s seg).eof = s.eof := by
  unfold processBody
  dsimp only
  have hw := writeBody_static P { s with input := s.input ++ [seg] } seg
  have hd := decodeBody_static P { s with input := s.input ++ [seg] } seg
  split <;> split <;> (try split) <;> simp_all [finish]

theorem srvStep_static (P : Params) (s : Srv) (e : SEv) : (srvStep P s e).te = s.te ∧ (srvStep P s e).fr = s.fr := by
  unfold srvStep
  split
  · exact ⟨rfl, rfl⟩
  · cases e with
    | data seg => exact ⟨(processBody_static P _ seg).1, (processBody_static P _ seg).2.1⟩
    | eof => exact ⟨(processBody_static P _ []).1, (processBody_static P _ []).2.1⟩
    | error => exact ⟨rfl, rfl⟩

/-- once the entry was completed nothing changes any more -/
theorem srvStep_of_fin (P : Params) (s : Srv) (e : SEv) (h : s.fin.isSome = true) : srvStep P s e = s := by
  unfold srvStep; simp [h]


/-! ## server-side invariant -/

/-- the run of the decoder model on everything processReplyBody() was given -/
abbrev decOf (P : Params) (input : List Bytes) : Run := feedAll P.relaxed (fun _ => P.cap) input

theorem decOf_snoc (P : Params) (input : List Bytes) (seg : Bytes) :
    decOf P (input ++ [seg]) = feed P.relaxed (fun _ => P.cap) (decOf P input) seg := by
  simp [decOf, feedAll, List.foldl_append]

theorem payload_snoc (s : Srv) (seg : Bytes) : ({ s with input := s.input ++ [seg] } : Srv).input.flatten = s.input.flatten ++ seg := by
  simp

structure SInv (P : Params) (s : Srv) : Prop where
  te_dec : s.te = true → s.dec = decOf P s.input
  te_stored : s.te = true → s.fin = none → s.stored = s.dec.out
  te_pre : s.te = true → s.stored <+: s.dec.out
  te_whole : s.te = true → s.whole = true → s.dec.verdict = .done ∧ s.stored = s.dec.out
  cl_inv : ∀ n, s.te = false → s.fr = .cl n →
    s.stored = (payload s).take n ∧ s.seen = (payload s).length ∧ s.truncated = s.seen - n
  cl_whole : ∀ n, s.te = false → s.fr = .cl n → s.whole = true → n ≤ (payload s).length
  close_inv : s.te = false → s.fr = .close → s.stored = payload s
  close_whole : s.te = false → s.fr = .close → s.whole = true → s.eof = true
  none_inv : s.te = false → s.fr = .none → s.stored = (if P.dropExtras then [] else payload s)
  fin_ok : s.fin = some .ok → s.whole = true
  fin_bad : s.fin = some .badLength → s.whole = false

theorem sinv_init (P : Params) (fr : OFr) (te : Bool) : SInv P (Srv.init fr te) := by
  constructor <;> simp [Srv.init, payload, decOf, feedAll, Run.init]

theorem sinv_finish {P : Params} {s : Srv} (h : SInv P s) (hf : s.fin = none) : SInv P (finish s) := by
  constructor
  · exact h.te_dec
  · intro _ hfin; simp [finish] at hfin
  · exact h.te_pre
  · exact h.te_whole
  · exact h.cl_inv
  · exact h.cl_whole
  · exact h.close_inv
  · exact h.close_whole
  · exact h.none_inv
  · intro hfin
    simp only [finish] at hfin
    by_cases hw : s.whole = true
    · exact hw
    · simp [hw] at hfin
  · intro hfin
    simp only [finish] at hfin
    by_cases hw : s.whole = true
    · simp [hw] at hfin
    · show s.whole = false
      simpa using hw

end SquidModel.Relay.Response
