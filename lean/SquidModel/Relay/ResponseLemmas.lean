/-
Lemmas for the C01 response relay model (SquidModel.Relay.Response): the server-side invariant (what is in the store is what
the origin's framing defines), append-only growth of the store, and the client-side invariant over arbitrary interleavings.
-/
import SquidModel.Relay.Response

namespace SquidModel.Relay.Response
open SquidModel SquidModel.Chunked

/-! ## the chunked decoder only ever appends to its output -/

theorem offer_out_ext (relaxed : Bool) (capOf : Nat → Nat) :
    ∀ (f : Nat) (r : Run), ∃ t, (offer relaxed capOf f r).out = r.out ++ t := by
  intro f
  induction f with
  | zero => intro r; exact ⟨[], by simp [offer]⟩
  | succ f ih =>
    intro r
    unfold offer
    split
    · exact ⟨_, rfl⟩
    · rename_i done c _
      dsimp only
      split
      · exact ⟨c.out, rfl⟩
      · split
        · exact ⟨c.out, rfl⟩
        · split
          · obtain ⟨t, ht⟩ := ih { st := c.st, inBuf := c.buf, out := r.out ++ c.out, verdict := .more, calls := r.calls + 1 }
            exact ⟨c.out ++ t, by rw [ht]; simp⟩
          · exact ⟨c.out, rfl⟩

theorem feed_out_ext (relaxed : Bool) (capOf : Nat → Nat) (r : Run) (seg : Bytes) :
    ∃ t, (feed relaxed capOf r seg).out = r.out ++ t := by
  unfold feed
  split
  · obtain ⟨t, ht⟩ := offer_out_ext relaxed capOf (r.inBuf.length + seg.length + 1) { r with inBuf := r.inBuf ++ seg }
    exact ⟨t, ht⟩
  · exact ⟨[], by simp⟩


/-! ## static fields -/

theorem finish_te (s : Srv) : (finish s).te = s.te := rfl
theorem finish_fr (s : Srv) : (finish s).fr = s.fr := rfl

theorem writeBody_static (P : Params) (s : Srv) (seg : Bytes) :
    (writeBody P s seg).te = s.te ∧ (writeBody P s seg).fr = s.fr ∧ (writeBody P s seg).input = s.input ∧
    (writeBody P s seg).fin = s.fin ∧ (writeBody P s seg).eof = s.eof ∧ (writeBody P s seg).dec = s.dec ∧ (writeBody P s seg).seen = s.seen := by
  unfold writeBody
  split <;> (try split) <;> simp

theorem decodeBody_static (P : Params) (s : Srv) (seg : Bytes) :
    (decodeBody P s seg).te = s.te ∧ (decodeBody P s seg).fr = s.fr ∧ (decodeBody P s seg).input = s.input ∧ (decodeBody P s seg).eof = s.eof := by
  unfold decodeBody
  dsimp only
  split <;> simp [finish]

theorem processBody_static (P : Params) (s : Srv) (seg : Bytes) :
    (processBody P s seg).te = s.te ∧ (processBody P s seg).fr = s.fr ∧ (processBody P s seg).input = s.input ++ [seg] ∧ (processBody P s seg).eof = s.eof := by
  unfold processBody
  dsimp only
  have hw := writeBody_static P { s with input := s.input ++ [seg] } seg
  have hd := decodeBody_static P { s with input := s.input ++ [seg] } seg
  split <;> split <;> (try split) <;> simp_all [finish]

theorem srvStep_static (P : Params) (s : Srv) (e : SEv) : (srvStep P s e).te = s.te ∧ (srvStep P s e).fr = s.fr := by
  unfold srvStep
  split
  · exact ⟨rfl, rfl⟩
  · cases e with
    | data seg => exact ⟨(processBody_static P _ seg).1, (processBody_static P _ seg).2.1⟩
    | eof => exact ⟨(processBody_static P _ []).1, (processBody_static P _ []).2.1⟩
    | error => exact ⟨rfl, rfl⟩

/-- once the entry was completed nothing changes any more -/
theorem srvStep_of_fin (P : Params) (s : Srv) (e : SEv) (h : s.fin.isSome = true) : srvStep P s e = s := by
  unfold srvStep; simp [h]


/-! ## server-side invariant -/

/-- the run of the decoder model on everything processReplyBody() was given -/
abbrev decOf (P : Params) (input : List Bytes) : Run := feedAll P.relaxed (fun _ => P.cap) input

theorem decOf_snoc (P : Params) (input : List Bytes) (seg : Bytes) :
    decOf P (input ++ [seg]) = feed P.relaxed (fun _ => P.cap) (decOf P input) seg := by
  simp [decOf, feedAll, List.foldl_append]

theorem payload_snoc (s : Srv) (seg : Bytes) : ({ s with input := s.input ++ [seg] } : Srv).input.flatten = s.input.flatten ++ seg := by
  simp

structure SInv (P : Params) (s : Srv) : Prop where
  te_dec : s.te = true → s.dec = decOf P s.input
  te_stored : s.te = true → s.fin = none → s.stored = s.dec.out
  te_pre : s.te = true → s.stored <+: s.dec.out
  te_whole : s.te = true → s.whole = true → s.dec.verdict = .done ∧ s.stored = s.dec.out
  cl_inv : ∀ n, s.te = false → s.fr = .cl n →
    s.stored = (payload s).take n ∧ s.seen = (payload s).length ∧ s.truncated = s.seen - n
  cl_whole : ∀ n, s.te = false → s.fr = .cl n → s.whole = true → n ≤ (payload s).length
  close_inv : s.te = false → s.fr = .close → s.stored = payload s
  close_whole : s.te = false → s.fr = .close → s.whole = true → s.eof = true
  none_inv : s.te = false → s.fr = .none → s.stored = (if P.dropExtras then [] else payload s)
  fin_ok : s.fin = some .ok → s.whole = true
  fin_bad : s.fin = some .badLength → s.whole = false
  nte_chunked : s.te = false → s.fr = .chunked → s.stored = []

theorem sinv_init (P : Params) (fr : OFr) (te : Bool) : SInv P (Srv.init fr te) := by
  constructor <;> simp [Srv.init, payload, decOf, feedAll, Run.init]

theorem sinv_finish {P : Params} {s : Srv} (h : SInv P s) : SInv P (finish s) := by
  constructor
  · exact h.te_dec
  · intro _ hfin; simp [finish] at hfin
  · exact h.te_pre
  · exact h.te_whole
  · exact h.cl_inv
  · exact h.cl_whole
  · exact h.close_inv
  · exact h.close_whole
  · exact h.none_inv
  · intro hfin
    simp only [finish] at hfin
    by_cases hw : s.whole = true
    · exact hw
    · simp [hw] at hfin
  · intro hfin
    simp only [finish] at hfin
    by_cases hw : s.whole = true
    · simp [hw] at hfin
    · show s.whole = false
      simpa using hw
  · exact h.nte_chunked

theorem take_take_sub (seg : Bytes) (pl n extras : Nat) (he : extras = pl + seg.length - (pl - n) - n) :
    seg.take (seg.length - extras) = seg.take (n - pl) := by
  rw [List.take_eq_take_iff]
  omega

/-- writeReplyBody() keeps the invariant (replies that do not go through the decoder) -/
theorem sinv_writeBody {P : Params} {s : Srv} (h : SInv P s) (hte : s.te = false) (hfin : s.fin = none) (seg : Bytes) (e : Bool)
    (he : s.eof = true → e = true) :
    SInv P (writeBody P { s with input := s.input ++ [seg], seen := s.seen + seg.length, eof := e } seg) := by
  have hst := writeBody_static P { s with input := s.input ++ [seg], seen := s.seen + seg.length, eof := e } seg
  obtain ⟨h1, h2, h3, h4, h5, h6, h7⟩ := hst
  have hpl : payload (writeBody P { s with input := s.input ++ [seg], seen := s.seen + seg.length, eof := e } seg) = payload s ++ seg := by
    simp [payload, h3]
  constructor
  · intro ht; rw [h1] at ht; simp [hte] at ht
  · intro ht; rw [h1] at ht; simp [hte] at ht
  · intro ht; rw [h1] at ht; simp [hte] at ht
  · intro ht; rw [h1] at ht; simp [hte] at ht
  · intro n _ hfr
    rw [h2] at hfr
    simp only at hfr
    obtain ⟨hs, hseen, htr⟩ := h.cl_inv n hte hfr
    rw [hpl]
    unfold writeBody
    simp only [hfr]
    refine ⟨?_, ?_, ?_⟩
    · simp only [List.take_append, hs]
      congr 1
      rw [hseen] at htr
      apply take_take_sub seg (payload s).length n
      rw [htr, hseen]
    · simp [hseen]
    · omega
  · intro n _ hfr hw
    rw [h2] at hfr
    simp only at hfr
    obtain ⟨hs, hseen, htr⟩ := h.cl_inv n hte hfr
    rw [hpl]
    unfold writeBody at hw
    simp only [hfr, Bool.or_eq_true, decide_eq_true_eq] at hw
    rcases hw with hw | hw
    · have := h.cl_whole n hte hfr hw
      simp; omega
    · simp; omega
  · intro _ hfr
    rw [h2] at hfr
    simp only at hfr
    rw [hpl]
    unfold writeBody
    simp only [hfr]
    rw [h.close_inv hte hfr]
  · intro _ hfr hw
    rw [h2] at hfr
    simp only at hfr
    rw [h5]
    unfold writeBody at hw
    simp only [hfr, Bool.or_eq_true] at hw
    rcases hw with hw | hw
    · exact he (h.close_whole hte hfr hw)
    · exact hw
  · intro _ hfr
    rw [h2] at hfr
    simp only at hfr
    rw [hpl]
    unfold writeBody
    simp only [hfr]
    have := h.none_inv hte hfr
    cases hd : P.dropExtras <;> simp [hd] at this ⊢ <;> simp [this]
  · intro hf; rw [h4] at hf; simp [hfin] at hf
  · intro hf; rw [h4] at hf; simp [hfin] at hf
  · intro _ hfr
    rw [h2] at hfr
    simp only at hfr
    unfold writeBody
    simp only [hfr]
    exact h.nte_chunked hte hfr

theorem feed_of_not_more (relaxed : Bool) (capOf : Nat → Nat) (r : Run) (seg : Bytes) (h : r.verdict ≠ .more) :
    feed relaxed capOf r seg = r := by
  unfold feed; simp [h]

/-- decodeAndWriteReplyBody() keeps the invariant -/
theorem sinv_decodeBody {P : Params} {s : Srv} (h : SInv P s) (hte : s.te = true) (hfin : s.fin = none) (seg : Bytes) (e : Bool) :
    SInv P (decodeBody P { s with input := s.input ++ [seg], seen := s.seen + seg.length, eof := e } seg) := by
  have hdec := h.te_dec hte
  have hsto := h.te_stored hte hfin
  have hd : feed P.relaxed (fun _ => P.cap) s.dec seg = decOf P (s.input ++ [seg]) := by rw [decOf_snoc, hdec]
  obtain ⟨t, ht⟩ := feed_out_ext P.relaxed (fun _ => P.cap) s.dec seg
  have hwhole : s.whole = true → feed P.relaxed (fun _ => P.cap) s.dec seg = s.dec ∧ s.dec.verdict = .done := by
    intro hw
    have := (h.te_whole hte hw).1
    exact ⟨feed_of_not_more _ _ _ _ (by rw [this]; simp), this⟩
  unfold decodeBody
  dsimp only
  split
  · -- rejected
    rename_i rj hv
    constructor
    · intro _; simpa [finish] using hd
    · intro _ hf; simp [finish] at hf
    · intro _; simp only [finish]; rw [ht, hsto]; exact List.prefix_append _ _
    · intro _ hw
      simp only [finish] at hw
      obtain ⟨h1, h2⟩ := hwhole hw
      rw [h1, h2] at hv; simp at hv
    · intro n ht'; simp [finish, hte] at ht'
    · intro n ht'; simp [finish, hte] at ht'
    · intro ht'; simp [finish, hte] at ht'
    · intro ht'; simp [finish, hte] at ht'
    · intro ht'; simp [finish, hte] at ht'
    · intro hf
      simp only [finish] at hf ⊢
      by_cases hw : s.whole = true
      · exact hw
      · simp [hw] at hf
    · intro hf
      simp only [finish] at hf ⊢
      by_cases hw : s.whole = true
      · simp [hw] at hf
      · simpa using hw
    · intro ht'; simp [finish, hte] at ht'
  · -- last-chunk seen
    rename_i hv
    constructor
    · intro _; simpa using hd
    · intro _ _; rfl
    · intro _; exact List.prefix_refl _
    · intro _ _; exact ⟨hv, rfl⟩
    · intro n ht'; simp [hte] at ht'
    · intro n ht'; simp [hte] at ht'
    · intro ht'; simp [hte] at ht'
    · intro ht'; simp [hte] at ht'
    · intro ht'; simp [hte] at ht'
    · intro hf; simp [hfin] at hf
    · intro hf; simp [hfin] at hf
    · intro ht'; simp [hte] at ht'
  · -- more data wanted (or trailers too large)
    rename_i hnr hnd
    constructor
    · intro _; simpa using hd
    · intro _ _; rfl
    · intro _; exact List.prefix_refl _
    · intro _ hw
      simp only at hw
      obtain ⟨h1, h2⟩ := hwhole hw
      rw [h1] at hnd
      exact absurd h2 hnd
    · intro n ht'; simp [hte] at ht'
    · intro n ht'; simp [hte] at ht'
    · intro ht'; simp [hte] at ht'
    · intro ht'; simp [hte] at ht'
    · intro ht'; simp [hte] at ht'
    · intro hf; simp [hfin] at hf
    · intro hf; simp [hfin] at hf
    · intro ht'; simp [hte] at ht'

theorem sinv_processBody {P : Params} {s : Srv} (h : SInv P s) (hfin : s.fin = none) (seg : Bytes) (e : Bool)
    (he : s.eof = true → e = true) :
    SInv P (processBody P { s with seen := s.seen + seg.length, eof := e } seg) := by
  unfold processBody
  dsimp only
  by_cases hte : s.te = true
  · have hd := sinv_decodeBody h hte hfin seg e
    rw [if_pos hte]
    split
    · exact hd
    · split
      · exact sinv_finish hd
      · exact hd
  · have hte' : s.te = false := by simpa using hte
    have hw := sinv_writeBody h hte' hfin seg e he
    rw [if_neg hte]
    split
    · exact hw
    · split
      · exact sinv_finish hw
      · exact hw

theorem sinv_srvStep {P : Params} {s : Srv} (h : SInv P s) (e : SEv) : SInv P (srvStep P s e) := by
  unfold srvStep
  split
  · exact h
  · rename_i hf
    have hfin : s.fin = none := by
      cases hs : s.fin with
      | none => rfl
      | some v => simp [hs] at hf
    cases e with
    | data seg =>
      have := sinv_processBody h hfin seg s.eof (fun x => x)
      simpa using this
    | eof =>
      have := sinv_processBody h hfin [] true (fun _ => rfl)
      simpa using this
    | error =>
      have : SInv P { s with failed := true } := by
        constructor
        · exact h.te_dec
        · exact h.te_stored
        · exact h.te_pre
        · exact h.te_whole
        · exact h.cl_inv
        · exact h.cl_whole
        · exact h.close_inv
        · exact h.close_whole
        · exact h.none_inv
        · exact h.fin_ok
        · exact h.fin_bad
        · exact h.nte_chunked
      exact sinv_finish this

theorem body_stored_of_chunked_no_te {P : Params} {s : Srv} (h : SInv P s) (hte : s.te = false) (hfr : s.fr = .chunked) :
    s.stored = [] := h.nte_chunked hte hfr

/-- the store is append-only -/
theorem srvStep_stored_ext {P : Params} {s : Srv} (h : SInv P s) (e : SEv) : ∃ t, (srvStep P s e).stored = s.stored ++ t := by
  unfold srvStep
  split
  · exact ⟨[], by simp⟩
  · rename_i hf
    have hfin : s.fin = none := by
      cases hs : s.fin with
      | none => rfl
      | some v => simp [hs] at hf
    have key : ∀ (seg : Bytes) (e : Bool), ∃ t, (processBody P { s with seen := s.seen + seg.length, eof := e } seg).stored = s.stored ++ t := by
      intro seg e
      unfold processBody
      dsimp only
      have hfs : ∀ x : Srv, (finish x).stored = x.stored := fun _ => rfl
      by_cases hte : s.te = true
      · rw [if_pos hte]
        have : ∃ t, (decodeBody P { s with input := s.input ++ [seg], seen := s.seen + seg.length, eof := e } seg).stored = s.stored ++ t := by
          obtain ⟨t, ht⟩ := feed_out_ext P.relaxed (fun _ => P.cap) s.dec seg
          have hsto := h.te_stored hte hfin
          unfold decodeBody
          dsimp only
          split
          · exact ⟨[], by simp [finish]⟩
          · exact ⟨t, by simp [ht, hsto]⟩
          · exact ⟨t, by simp [ht, hsto]⟩
        split
        · exact this
        · split
          · rw [hfs]; exact this
          · exact this
      · rw [if_neg hte]
        have : ∃ t, (writeBody P { s with input := s.input ++ [seg], seen := s.seen + seg.length, eof := e } seg).stored = s.stored ++ t := by
          unfold writeBody
          dsimp only
          split
          · exact ⟨_, rfl⟩
          · exact ⟨_, rfl⟩
          · split
            · exact ⟨[], by simp⟩
            · exact ⟨_, rfl⟩
          · exact ⟨[], by simp⟩
        split
        · exact this
        · split
          · rw [hfs]; exact this
          · exact this
    cases e with
    | data seg => simpa using key seg s.eof
    | eof => simpa using key [] true
    | error => exact ⟨[], by simp [finish]⟩


/-! ## client side -/

/-- static coupling of the two sides (what buildReplyHeader() derives from the stored reply) -/
structure WF (x : Sys) : Prop where
  cl_cl : ∀ n, x.c.fr = .cl n → x.s.fr = .cl n ∧ x.s.te = false
  close_ka : x.c.fr = .close → x.c.keepalive = false
  head_none : x.c.headOnly = true → x.c.fr = .none

/-- the Content-Range end test of socketState() is out of play -/
def crOff (P : Params) (c : Cli) : Prop := c.crLen = none ∨ crApplies P c = false

structure CCore (P : Params) (x : Sys) : Prop where
  off_le : x.c.offset ≤ x.s.stored.length
  body_eq : x.c.pieces.flatten = x.s.stored.take x.c.offset
  pieces_ok : ∀ p ∈ x.c.pieces, p ≠ [] ∧ p.length ≤ max P.reqBuf 1
  last_ok : x.c.lastChunk = true → x.s.fin = some .ok ∧ x.c.offset = x.s.stored.length ∧ x.c.fr = .chunked
  complete_ok : x.c.complete = true → x.c.headOnly = false → x.s.fin.isSome = true ∧ x.c.offset = x.s.stored.length
  complete_last : x.c.complete = true → x.c.headOnly = false → x.c.fr = .chunked → x.s.fin ≠ some .badLength → x.c.lastChunk = true
  head_ok : x.c.headOnly = true → x.c.pieces = [] ∧ x.c.offset = 0 ∧ x.c.lastChunk = false ∧ x.c.complete = true

structure CInv (P : Params) (x : Sys) : Prop extends CCore P x where
  running : x.c.ended = none → x.c.headOnly = false → x.c.complete = false ∧ x.c.lastChunk = false
  ended_ok : x.c.ended.isSome = true → crOff P x.c → (x.c.msgComplete = true ∨ x.s.fin = some .badLength)
  keep_ok : x.c.ended = some .keep → crOff P x.c → x.c.msgComplete = true

theorem cinv_init (P : Params) (s : Srv) (fr : CFr) (ka : Bool) (cr : Option Nat) : CInv P ⟨s, Cli.init fr ka cr⟩ := by
  refine ⟨?_, ?_, ?_, ?_⟩
  · constructor <;> simp [Cli.init]
  all_goals simp [Cli.init]

theorem cinv_initHead (P : Params) (s : Srv) (ka : Bool) : CInv P ⟨s, Cli.initHead ka⟩ := by
  refine ⟨?_, ?_, ?_, ?_⟩
  · constructor <;> simp [Cli.initHead]
  all_goals simp [Cli.initHead]


theorem stored_len_cl {P : Params} {s : Srv} (hs : SInv P s) (n : Nat) (hfr : s.fr = .cl n) (hte : s.te = false) :
    s.stored.length ≤ n ∧ (s.fin = some .ok → s.stored.length = n) := by
  obtain ⟨h1, _, _⟩ := hs.cl_inv n hte hfr
  constructor
  · rw [h1, List.length_take]; omega
  · intro hf
    have := hs.cl_whole n hte hfr (hs.fin_ok hf)
    rw [h1, List.length_take]; omega

theorem replyStatus_complete_sound {P : Params} {s : Srv} {c : Cli} (wf : WF ⟨s, c⟩) (hs : SInv P s)
    (hoff : c.offset ≤ s.stored.length)
    (hcl : c.complete = true → c.headOnly = false → c.fr = .chunked → s.fin ≠ some .badLength → c.lastChunk = true)
    (h : replyStatus s c = .complete) :
    (∀ n, c.fr = .cl n → c.offset = n) ∧ (c.fr = .chunked → c.lastChunk = true) := by
  unfold replyStatus at h
  split at h
  · split at h
    · simp at h
    · rename_i hnb
      split at h
      · simp at h
      · rename_i htd
        have htd' : transferDone s c = true := by simpa using htd
        constructor
        · intro n hfr
          have hle := (stored_len_cl hs n (wf.cl_cl n hfr).1 (wf.cl_cl n hfr).2).1
          simp only [expectedSize, hfr] at h
          split at h
          · simp at h
          · omega
        · intro hfr
          have hho : c.headOnly = false := by
            cases hh : c.headOnly
            · rfl
            · have := wf.head_none hh; simp [hfr] at this
          unfold transferDone at htd'
          simp only [hho, Bool.false_eq_true, ↓reduceIte, hfr] at htd'
          cases hc : c.complete
          · simp [hc] at htd'
          · exact hcl hc hho hfr hnb
  · simp at h

theorem replyStatus_unplanned_sound {P : Params} {s : Srv} {c : Cli} (wf : WF ⟨s, c⟩) (hs : SInv P s)
    (h : replyStatus s c = .unplanned) : s.fin = some .badLength := by
  unfold replyStatus at h
  split at h
  · split at h
    · assumption
    · rename_i hnb
      split at h
      · simp at h
      · rename_i htd
        have htd' : transferDone s c = true := by simpa using htd
        exfalso
        cases hfr : c.fr with
        | none => simp [expectedSize, hfr] at h
        | chunked => simp [expectedSize, hfr] at h
        | close => simp [expectedSize, hfr] at h
        | cl n =>
          simp only [expectedSize, hfr] at h
          split at h
          · rename_i hlt
            have hho : c.headOnly = false := by
              cases hh : c.headOnly
              · rfl
              · have := wf.head_none hh; simp [hfr] at this
            obtain ⟨hsfr, hste⟩ := wf.cl_cl n hfr
            obtain ⟨_, hok⟩ := stored_len_cl hs n hsfr hste
            unfold transferDone at htd'
            simp only [hho, Bool.false_eq_true, ↓reduceIte, hfr] at htd'
            cases hf : s.fin with
            | none => simp [hf] at htd'; omega
            | some v =>
              cases v with
              | ok => simp [hf] at htd'; have := hok hf; omega
              | badLength => exact hnb hf
          · simp at h
  · simp at h

theorem replyStatus_not_failed {s : Srv} {c : Cli}
    (hco : c.complete = true → c.headOnly = false → s.fin.isSome = true ∧ c.offset = s.stored.length) :
    replyStatus s c ≠ .failed := by
  intro h
  unfold replyStatus at h
  split at h
  · rename_i hor
    split at h
    · simp at h
    · split at h
      · rename_i hntd
        have hntd' : transferDone s c = false := by simpa using hntd
        have hc : c.complete = true := by simpa [hntd'] using hor
        unfold transferDone at hntd'
        cases hho : c.headOnly
        · obtain ⟨hf, ho⟩ := hco hc hho
          simp [hho, hc, hf, ho] at hntd'
        · simp [hho] at hntd'
      · split at h <;> (try split at h) <;> simp at h
  · simp at h

theorem replyStatus_of_complete {s : Srv} {c : Cli} (hc : c.complete = true) : replyStatus s c ≠ .none := by
  unfold replyStatus
  simp only [hc, Bool.or_true, ↓reduceIte]
  split
  · simp
  · split
    · simp
    · split <;> (try split) <;> simp


theorem afterWrite_fields (P : Params) (s : Srv) (c : Cli) :
    (afterWrite P s c).fr = c.fr ∧ (afterWrite P s c).keepalive = c.keepalive ∧ (afterWrite P s c).crLen = c.crLen ∧
    (afterWrite P s c).headOnly = c.headOnly ∧ (afterWrite P s c).offset = c.offset ∧ (afterWrite P s c).pieces = c.pieces ∧
    (afterWrite P s c).complete = c.complete ∧ (afterWrite P s c).lastChunk = c.lastChunk := by
  unfold afterWrite
  split <;> simp

theorem socketState_eq_of_crOff (P : Params) (s : Srv) (c : Cli) (h : crOff P c) : socketState P s c = replyStatus s c := by
  unfold socketState
  split
  · rename_i hn
    rcases h with h | h
    · simp [h, hn]
    · simp only [h, Bool.false_eq_true, ↓reduceIte]
      split <;> simp [hn]
  · rename_i x hx
    cases hr : replyStatus s c <;> simp_all

theorem ccore_afterWrite {P : Params} {s : Srv} {c : Cli} (h : CCore P ⟨s, c⟩) : CCore P ⟨s, afterWrite P s c⟩ := by
  obtain ⟨f1, f2, f3, f4, f5, f6, f8, f9⟩ := afterWrite_fields P s c
  constructor
  · show (afterWrite P s c).offset ≤ _; rw [f5]; exact h.off_le
  · show (afterWrite P s c).pieces.flatten = s.stored.take (afterWrite P s c).offset; rw [f5, f6]; exact h.body_eq
  · show ∀ p ∈ (afterWrite P s c).pieces, _; rw [f6]; exact h.pieces_ok
  · show (afterWrite P s c).lastChunk = true → s.fin = some .ok ∧ (afterWrite P s c).offset = s.stored.length ∧ (afterWrite P s c).fr = .chunked
    rw [f9, f5, f1]; exact h.last_ok
  · show (afterWrite P s c).complete = true → (afterWrite P s c).headOnly = false → s.fin.isSome = true ∧ (afterWrite P s c).offset = s.stored.length
    rw [f8, f4, f5]; exact h.complete_ok
  · show (afterWrite P s c).complete = true → (afterWrite P s c).headOnly = false → (afterWrite P s c).fr = .chunked → s.fin ≠ some .badLength → (afterWrite P s c).lastChunk = true
    rw [f8, f4, f1, f9]; exact h.complete_last
  · show (afterWrite P s c).headOnly = true → (afterWrite P s c).pieces = [] ∧ (afterWrite P s c).offset = 0 ∧ (afterWrite P s c).lastChunk = false ∧ (afterWrite P s c).complete = true
    rw [f4, f6, f5, f9, f8]; exact h.head_ok


theorem crOff_afterWrite (P : Params) (s : Srv) (c : Cli) : crOff P (afterWrite P s c) ↔ crOff P c := by
  obtain ⟨f1, _, f3, _⟩ := afterWrite_fields P s c
  simp [crOff, crApplies, f1, f3]

theorem cinv_afterWrite {P : Params} {s : Srv} {c : Cli} (wf : WF ⟨s, c⟩) (hs : SInv P s) (h : CCore P ⟨s, c⟩)
    (hnone : c.ended = none) (hrun : c.headOnly = false → c.complete = false → c.lastChunk = false) :
    CInv P ⟨s, afterWrite P s c⟩ := by
  obtain ⟨f1, f2, f3, f4, f5, f6, f8, f9⟩ := afterWrite_fields P s c
  have hsound := replyStatus_complete_sound wf hs h.off_le h.complete_last
  have hunpl := replyStatus_unplanned_sound (P := P) wf hs
  have hnf := replyStatus_not_failed (s := s) (c := c) h.complete_ok
  -- the message is complete whenever replyStatus says so
  have hmsg : replyStatus s c = .complete → socketState P s c = .complete → (afterWrite P s c).msgComplete = true := by
    intro hr hss
    obtain ⟨h1, h2⟩ := hsound hr
    unfold Cli.msgComplete
    rw [f1, f5, f9]
    cases hfr : c.fr with
    | none => rfl
    | cl n => simp [h1 n hfr]
    | chunked => simp [h2 hfr]
    | close =>
      have hka := wf.close_ka hfr
      simp only at hka
      simp [afterWrite, hss, hka]
  refine ⟨ccore_afterWrite h, ?_, ?_, ?_⟩
  · intro he hho
    show (afterWrite P s c).complete = false ∧ (afterWrite P s c).lastChunk = false
    rw [f4] at hho
    rw [f8, f9]
    cases hc : c.complete
    · exact ⟨rfl, hrun hho hc⟩
    · exfalso
      have hne := replyStatus_of_complete (s := s) hc
      have : socketState P s c = replyStatus s c := by
        unfold socketState
        cases hr : replyStatus s c <;> simp_all
      unfold afterWrite at he
      rw [this] at he
      cases hr : replyStatus s c <;> simp_all
  · intro he hcr
    rw [crOff_afterWrite] at hcr
    have hss := socketState_eq_of_crOff P s c hcr
    show (afterWrite P s c).msgComplete = true ∨ s.fin = some .badLength
    cases hr : replyStatus s c with
    | none =>
      exfalso
      have : afterWrite P s c = c := by unfold afterWrite; rw [hss, hr]
      rw [this, hnone] at he; simp at he
    | complete => exact Or.inl (hmsg hr (by rw [hss, hr]))
    | unplanned => exact Or.inr (hunpl hr)
    | failed => exact absurd hr hnf
  · intro he hcr
    rw [crOff_afterWrite] at hcr
    have hss := socketState_eq_of_crOff P s c hcr
    show (afterWrite P s c).msgComplete = true
    cases hr : replyStatus s c with
    | none =>
      exfalso
      have : afterWrite P s c = c := by unfold afterWrite; rw [hss, hr]
      rw [this, hnone] at he; simp at he
    | complete => exact hmsg hr (by rw [hss, hr])
    | unplanned =>
      exfalso
      have : (afterWrite P s c).ended = some .close := by unfold afterWrite; rw [hss, hr]
      rw [this] at he; simp at he
    | failed => exact absurd hr hnf


theorem wireOf_snoc (fr : CFr) (pieces : List Bytes) (p : Bytes) :
    wireOf fr (pieces ++ [p]) false = wireOf fr pieces false ++ (if fr = .chunked then packChunk p else p) := by
  unfold wireOf
  by_cases h : fr = .chunked <;> simp [h]

theorem wireOf_last (pieces : List Bytes) : wireOf .chunked pieces true = wireOf .chunked pieces false ++ lastChunkBytes := by
  simp [wireOf]

theorem take_length_take (l : Bytes) (k : Nat) : l.take (l.take k).length = l.take k := by
  rw [List.take_eq_take_iff, List.length_take]; omega

/-- one store answer keeps the client-side invariant -/
theorem cinv_cliStep {P : Params} {s : Srv} {c : Cli} (wf : WF ⟨s, c⟩) (hs : SInv P s) (h : CInv P ⟨s, c⟩) (k : Nat) :
    CInv P ⟨s, cliStep P s c k⟩ := by
  unfold cliStep
  split
  · exact h
  · rename_i hen
    have hnone : c.ended = none := by
      cases he : c.ended with
      | none => rfl
      | some v => simp [he] at hen
    split
    · -- HEAD: the header is the message
      rename_i hho
      exact cinv_afterWrite wf hs h.toCCore hnone (fun hh => by rw [hho] at hh; simp at hh)
    · rename_i hho
      have hho' : c.headOnly = false := by simpa using hho
      obtain ⟨hcf, hlf⟩ := h.running hnone hho'
      dsimp only
      split
      · -- data
        rename_i hav
        have hoff := h.off_le
        simp only at hoff
        have hlt : c.offset < s.stored.length := by
          rcases Nat.lt_or_ge c.offset s.stored.length with h1 | h1
          · exact h1
          · exact absurd (List.drop_eq_nil_of_le h1) hav
        let p : Bytes := (s.stored.drop c.offset).take (min (max k 1) (max P.reqBuf 1))
        have hplen : p.length = min (min (max k 1) (max P.reqBuf 1)) (s.stored.length - c.offset) := by simp [p, List.length_take]
        have hcore : CCore P ⟨s, { c with offset := c.offset + p.length, pieces := c.pieces ++ [p] }⟩ := by
          constructor
          · show c.offset + p.length ≤ s.stored.length
            omega
          · show (c.pieces ++ [p]).flatten = s.stored.take (c.offset + p.length)
            have hb := h.body_eq
            simp only at hb
            rw [List.take_add, List.flatten_append, hb]
            simp only [List.flatten_cons, List.flatten_nil, List.append_nil]
            congr 1
            exact (take_length_take _ _).symm
          · intro q hq
            simp only [List.mem_append, List.mem_singleton] at hq
            rcases hq with hq | hq
            · exact h.pieces_ok q hq
            · subst hq
              constructor
              · intro hnil
                have : p.length = 0 := by rw [hnil]; rfl
                omega
              · omega
          · intro hl; simp only at hl; rw [hlf] at hl; simp at hl
          · intro hc; simp only at hc; rw [hcf] at hc; simp at hc
          · intro hc; simp only at hc; rw [hcf] at hc; simp at hc
          · intro hh; simp only at hh; rw [hho'] at hh; simp at hh
        refine cinv_afterWrite ?_ hs hcore hnone (fun _ _ => hlf)
        exact ⟨wf.cl_cl, wf.close_ka, wf.head_none⟩
      · rename_i hav
        have hav' : s.stored.drop c.offset = [] := by simpa using hav
        have hoff := h.off_le
        simp only at hoff
        have hlen : c.offset = s.stored.length := by
          have := List.drop_eq_nil_iff.mp hav'
          omega
        split
        · exact h
        · rename_i hfs
          have hfs' : s.fin.isSome = true := by
            cases hf : s.fin <;> simp [hf] at hfs ⊢
          split
          · -- the last-chunk is sent
            rename_i hml
            have hml' : c.fr = .chunked ∧ s.fin ≠ some .badLength := by simpa using hml
            have hfok : s.fin = some .ok := by
              cases hf : s.fin with
              | none => simp [hf] at hfs'
              | some v => cases v with
                | ok => rfl
                | badLength => exact absurd hf hml'.2
            have hcore : CCore P ⟨s, { c with complete := true, lastChunk := true }⟩ := by
              constructor
              · exact h.off_le
              · exact h.body_eq
              · exact h.pieces_ok
              · intro _; exact ⟨hfok, hlen, hml'.1⟩
              · intro _ _; exact ⟨hfs', hlen⟩
              · intro _ _ _ _; rfl
              · intro hh; simp only at hh; rw [hho'] at hh; simp at hh
            refine cinv_afterWrite ?_ hs hcore hnone (fun _ hc => by simp at hc)
            exact ⟨wf.cl_cl, wf.close_ka, wf.head_none⟩
          · rename_i hml
            have hcore : CCore P ⟨s, { c with complete := true }⟩ := by
              constructor
              · exact h.off_le
              · exact h.body_eq
              · exact h.pieces_ok
              · intro hl; simp only at hl; rw [hlf] at hl; simp at hl
              · intro _ _; exact ⟨hfs', hlen⟩
              · intro _ _ hfr hnb
                exfalso
                apply hml
                simp only at hfr
                simp [hfr, hnb]
              · intro hh; simp only at hh; rw [hho'] at hh; simp at hh
            refine cinv_afterWrite ?_ hs hcore hnone (fun _ hc => by simp at hc)
            exact ⟨wf.cl_cl, wf.close_ka, wf.head_none⟩


/-- a server-side step keeps the client-side invariant -/
theorem cinv_srvStep {P : Params} {s : Srv} {c : Cli} (hs : SInv P s) (h : CInv P ⟨s, c⟩) (e : SEv) :
    CInv P ⟨srvStep P s e, c⟩ := by
  cases hf : s.fin with
  | some v => rw [srvStep_of_fin P s e (by simp [hf])]; exact h
  | none =>
    obtain ⟨t, ht⟩ := srvStep_stored_ext hs e
    have hl : c.lastChunk = false := by
      cases hl : c.lastChunk
      · rfl
      · have := (h.last_ok hl).1; simp [hf] at this
    have hc : c.complete = true → c.headOnly = false → False := by
      intro h1 h2
      have := (h.complete_ok h1 h2).1; simp [hf] at this
    have hoff := h.off_le
    simp only at hoff
    refine ⟨⟨?_, ?_, h.pieces_ok, ?_, ?_, ?_, h.head_ok⟩, h.running, ?_, h.keep_ok⟩
    · show c.offset ≤ (srvStep P s e).stored.length
      rw [ht, List.length_append]; omega
    · show c.pieces.flatten = (srvStep P s e).stored.take c.offset
      rw [ht, List.take_append_of_le_length hoff]; exact h.body_eq
    · intro h1; simp only at h1; rw [hl] at h1; simp at h1
    · intro h1 h2; exact absurd (hc h1 h2) id
    · intro h1 h2; exact absurd (hc h1 h2) id
    · intro he hcr
      rcases h.ended_ok he hcr with h1 | h1
      · exact Or.inl h1
      · simp [hf] at h1

theorem wf_srvStep {P : Params} {s : Srv} {c : Cli} (wf : WF ⟨s, c⟩) (e : SEv) : WF ⟨srvStep P s e, c⟩ := by
  obtain ⟨h1, h2⟩ := srvStep_static P s e
  refine ⟨?_, wf.close_ka, wf.head_none⟩
  intro n hn
  show (srvStep P s e).fr = .cl n ∧ (srvStep P s e).te = false
  rw [h1, h2]; exact wf.cl_cl n hn

theorem cliStep_static (P : Params) (s : Srv) (c : Cli) (k : Nat) :
    (cliStep P s c k).fr = c.fr ∧ (cliStep P s c k).keepalive = c.keepalive ∧ (cliStep P s c k).crLen = c.crLen ∧
    (cliStep P s c k).headOnly = c.headOnly := by
  unfold cliStep
  have ha := fun c' => afterWrite_fields P s c'
  split
  · simp
  · split
    · exact ⟨(ha _).1, (ha _).2.1, (ha _).2.2.1, (ha _).2.2.2.1⟩
    · dsimp only
      split
      · exact ⟨(ha _).1, (ha _).2.1, (ha _).2.2.1, (ha _).2.2.2.1⟩
      · split
        · simp
        · split
          · exact ⟨(ha _).1, (ha _).2.1, (ha _).2.2.1, (ha _).2.2.2.1⟩
          · exact ⟨(ha _).1, (ha _).2.1, (ha _).2.2.1, (ha _).2.2.2.1⟩

theorem wf_cliStep {P : Params} {s : Srv} {c : Cli} (wf : WF ⟨s, c⟩) (k : Nat) : WF ⟨s, cliStep P s c k⟩ := by
  obtain ⟨h1, h2, _, h4⟩ := cliStep_static P s c k
  refine ⟨?_, ?_, ?_⟩
  · intro n hn; simp only at hn; rw [h1] at hn; exact wf.cl_cl n hn
  · intro hn; simp only at hn ⊢; rw [h1] at hn; rw [h2]; exact wf.close_ka hn
  · intro hn; simp only at hn ⊢; rw [h4] at hn; rw [h1]; exact wf.head_none hn

/-- everything that holds at every point of every run -/
structure Good (P : Params) (x : Sys) : Prop where
  wf : WF x
  srv : SInv P x.s
  cli : CInv P x

theorem good_step {P : Params} {x : Sys} (h : Good P x) (e : Ev) : Good P (step P x e) := by
  cases e with
  | srv e => exact ⟨wf_srvStep h.wf e, sinv_srvStep h.srv e, cinv_srvStep h.srv h.cli e⟩
  | pull k => exact ⟨wf_cliStep h.wf k, h.srv, cinv_cliStep h.wf h.srv h.cli k⟩

theorem good_run {P : Params} {x : Sys} (h : Good P x) (evs : List Ev) : Good P (run P x evs) := by
  induction evs generalizing x with
  | nil => exact h
  | cons e es ih => exact ih (good_step h e)

end SquidModel.Relay.Response
