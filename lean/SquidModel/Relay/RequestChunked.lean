/-
C02, chunked request bodies: the pipe's calling pattern of the decoder (one bounded parse() call per event, with whatever space the
pipe has at that moment, possibly none; new client octets may arrive while the decoder waits for space) reaches the same verdict and
the same output as one decoder call with unlimited space on everything the client sent — the reference run of the C24 theorems.
-/
import SquidModel.Relay.RequestLemmas
import SquidModel.Chunked.FeedLemmas
import SquidModel.Chunked.Valid

namespace SquidModel.Relay.Request
open SquidModel SquidModel.Chunked SquidModel.Gen

/-- one bounded parse() call followed by the unlimited loop from where it stopped = the unlimited loop at once -/
theorem parse_then_U (relaxed : Bool) (st : St) (buf : Bytes) (space : Nat) (o : Bytes) (hne : buf ≠ []) :
    obsOf o (parseU relaxed st buf) =
      match parse relaxed st buf space with
      | .threw e out => obsOf o (.threw e out)
      | .ret true c => obsOf o (.ret true c)
      | .ret false c => if c.st.stage = .done then obsOf o (.ret false c) else obsOf (o ++ c.out) (parseU relaxed c.st c.buf) := by
  have hemp : buf.isEmpty = false := by
    cases buf with
    | nil => exact absurd rfl hne
    | cons a t => rfl
  rw [parse_eq]
  simp only [parseU, hemp, Bool.false_eq_true, if_false]
  generalize hc0 : (⟨norm st, buf, [], space⟩ : Cfg) = c0
  have hz : c0.z = ⟨norm st, buf, [], 0⟩ := by subst hc0; simp [Cfg.z, Cfg.fr]
  have hlen : c0.buf.length < buf.length + 1 := by subst hc0; simp
  have hn0 : c0.z.st.stage ≠ .none := by rw [hz]; exact norm_ne_none st
  rw [← hz]
  -- resuming from a configuration `c` in which the bounded call stopped
  have resume : ∀ c : Cfg, c.st.stage ≠ .none → c.buf ≠ [] →
      obsOf o (parseLoopU relaxed (c.buf.length + 1) c.z) =
        obsOf (o ++ c.out) (if c.buf.isEmpty then Outcome.ret false ⟨c.st, c.buf, [], 0⟩ else parseLoopU relaxed (c.buf.length + 1) ⟨norm c.st, c.buf, [], 0⟩) := by
    intro c hn hb
    have : c.buf.isEmpty = false := by
      cases hcb : c.buf with
      | nil => exact absurd hcb hb
      | cons a t => rfl
    simp only [this, Bool.false_eq_true, if_false, norm_of_ne hn]
    exact obsOf_resume relaxed o c _
  rcases parseLoop_vs_U relaxed (buf.length + 1) c0 hlen with h | ⟨c', h1, h2, h3, h4⟩
  · rw [← h]
    cases hp : parseLoop relaxed (buf.length + 1) c0 with
    | threw e out => simp [Outcome.fr, obsOf]
    | ret d c =>
      cases d with
      | true => simp [Outcome.fr, obsOf, Cfg.fr]
      | false =>
        simp only
        by_cases hd : c.st.stage = .done
        · simp [hd, Outcome.fr, obsOf, Cfg.fr]
        · simp only [hd, if_false]
          have hU : parseLoopU relaxed (buf.length + 1) c0.z = .ret false c.z := by
            rw [← h, hp]; rfl
          have hnn : c.st.stage ≠ .none := by
            have := parseLoopU_nn (relaxed := relaxed) _ _ _ _ hn0 hU
            simpa [Cfg.z, Cfg.fr] using this
          by_cases hb : c.buf = []
          · simp [Outcome.fr, obsOf, Cfg.fr, hb, hd]
          · have hidem := parseLoopU_idem (relaxed := relaxed) (c := c0.z) (c' := c.z) (by simpa [Cfg.z, Cfg.fr] using hlen) hU
              (by simpa [Cfg.z, Cfg.fr] using hd) (c.buf.length + 1) (by simp [Cfg.z, Cfg.fr])
            have := resume c hnn hb
            rw [hidem] at this
            rw [← this]
            simp [Outcome.fr, obsOf, Cfg.fr, Cfg.z, hd]
  · rw [h1]
    have hd : c'.st.stage ≠ .done := by rw [h2.1]; simp
    have hnn : c'.st.stage ≠ .none := by rw [h2.1]; simp
    simp only [hd, if_false]
    rw [h4 (c'.buf.length + 1) (by omega)]
    exact resume c' hnn h2.2.2


/-- two observations agree on what matters: verdict, output, and — while more data is wanted — where the parser stands -/
def Weq (a b : Obs) : Prop := a.verdict = b.verdict ∧ a.out = b.out ∧ (a.verdict = .more → a.pos = b.pos)

theorem Weq.refl (a : Obs) : Weq a a := ⟨rfl, rfl, fun _ => rfl⟩
theorem Weq.symm {a b : Obs} (h : Weq a b) : Weq b a := ⟨h.1.symm, h.2.1.symm, fun hv => (h.2.2 (h.1 ▸ hv)).symm⟩
theorem Weq.trans {a b c : Obs} (h1 : Weq a b) (h2 : Weq b c) : Weq a c :=
  ⟨h1.1.trans h2.1, h1.2.1.trans h2.2.1, fun hv => (h1.2.2 hv).trans (h2.2.2 (h1.1 ▸ hv))⟩
theorem Weq.of_eq {a b : Obs} (h : a = b) : Weq a b := h ▸ Weq.refl a

/-- the verdict class of an outcome -/
theorem verdict_obsOf (o : Bytes) (x : Outcome) :
    (obsOf o x).verdict = match x with
      | .threw e _ => .reject e
      | .ret true _ => .done
      | .ret false c => if c.st.stage = .done then .tooLarge else .more := by
  cases x with
  | threw e out => rfl
  | ret d c => cases d <;> simp [obsOf]

/-- appending the same octets to two unlimited runs that agree keeps them agreeing (the tree's decoder: no parse checkpoint
between chunk extensions) -/
theorem weq_append (hx : ChunkedSets.extCommit = false) (relaxed : Bool) (st1 st2 : St) (h1 : st1.stage ≠ .done) (h2 : st2.stage ≠ .done)
    (b1 b2 o1 o2 m : Bytes)
    (h : Weq (obsOf o1 (parseU relaxed st1 b1)) (obsOf o2 (parseU relaxed st2 b2))) :
    Weq (obsOf o1 (parseU relaxed st1 (b1 ++ m))) (obsOf o2 (parseU relaxed st2 (b2 ++ m))) := by
  have e1 := parseU_ext relaxed st1 h1 b1 m
  have e2 := parseU_ext relaxed st2 h2 b2 m
  obtain ⟨hv, ho, hp⟩ := h
  rw [verdict_obsOf, verdict_obsOf] at hv
  cases hX : parseU relaxed st1 b1 with
  | threw ea oa =>
    rw [hX] at e1 hv ho
    simp only [CallSpec] at e1
    cases hY : parseU relaxed st2 b2 with
    | threw eb ob =>
      rw [hY] at e2 hv ho
      simp only [CallSpec] at e2
      rw [e1, e2]
      simp only at hv
      refine ⟨by simp [obsOf]; exact Verdict.reject.inj hv, by simpa [obsOf] using ho, fun hm => by simp [obsOf] at hm⟩
    | ret d c => rw [hY] at hv; cases d <;> simp at hv <;> (try split at hv) <;> simp at hv
  | ret da ca =>
    rw [hX] at e1 hv ho
    cases hY : parseU relaxed st2 b2 with
    | threw eb ob => rw [hY] at hv; cases da <;> simp at hv <;> (try split at hv) <;> simp at hv
    | ret db cb =>
      rw [hY] at e2 hv ho
      cases da with
      | true =>
        cases db with
        | true =>
          simp only [CallSpec] at e1 e2
          rw [e1, e2]
          refine ⟨by simp [obsOf], by simpa [obsOf] using ho, fun hm => by simp [obsOf] at hm⟩
        | false => simp at hv; split at hv <;> simp at hv
      | false =>
        cases db with
        | true => simp at hv; split at hv <;> simp at hv
        | false =>
          simp only [CallSpec] at e1 e2
          by_cases hda : ca.st.stage = .done
          · have hdb : cb.st.stage = .done := by
              by_cases hdb : cb.st.stage = .done
              · exact hdb
              · simp [hda, hdb] at hv
            simp only [hda, if_true] at e1
            simp only [hdb, if_true] at e2
            obtain ⟨ca', a1, a2, a3⟩ := e1
            obtain ⟨cb', b1', b2', b3'⟩ := e2
            rw [a1, b1']
            refine ⟨by simp [obsOf, a2, b2'], ?_, fun hm => by simp [obsOf, a2] at hm⟩
            simp only [obsOf, a3, b3']
            simpa [obsOf] using ho
          · have hdb : cb.st.stage ≠ .done := by
              intro hdb
              simp [hda, hdb] at hv
            simp only [hda, if_false] at e1
            simp only [hdb, if_false] at e2
            have hpos := hp (by rw [verdict_obsOf, hX]; simp [hda])
            rw [hX, hY] at hpos
            simp only [obsOf, Option.some.injEq, Prod.mk.injEq] at hpos
            rcases e1 with e1 | ⟨q, _⟩
            · rcases e2 with e2 | ⟨q, _⟩
              · apply Weq.of_eq
                have f1 := obsOf_pre o1 [] (parseU relaxed st1 (b1 ++ m))
                have f2 := obsOf_pre o2 [] (parseU relaxed st2 (b2 ++ m))
                have g1 := obsOf_pre o1 ca.out (parseU relaxed ca.st (ca.buf ++ m))
                have g2 := obsOf_pre o2 cb.out (parseU relaxed cb.st (cb.buf ++ m))
                simp only [List.append_nil] at f1 f2
                rw [f1, f2, e1, e2, ← g1, ← g2, hpos.1, hpos.2]
                have : o1 ++ ca.out = o2 ++ cb.out := by simpa [obsOf] using ho
                rw [this]
              · rw [hx] at q; simp at q
            · rw [hx] at q; simp at q


/-- the reference run: one decoder call with unlimited payload space, from the initial state, on the octets `p` -/
abbrev ref (relaxed : Bool) (p : Bytes) : Obs := obsOf [] (parseU relaxed St.init p)

/-- some prefix of what the client sent makes the reference run stop with "trailers too large" -/
def TL (s : Sys) : Prop := ∃ p rest, s.clientAll = p ++ rest ∧ (ref s.relaxed p).verdict = .tooLarge

structure KInv (s : Sys) : Prop where
  live : s.producing = true → TL s ∨ (s.pst.stage ≠ .done ∧ Weq (obsOf s.produced (parseU s.relaxed s.pst s.inBuf)) (ref s.relaxed s.clientAll))
  ended : s.endedOk = true → TL s ∨ ∃ p rest, s.clientAll = p ++ rest ∧ (ref s.relaxed p).verdict = .done ∧ (ref s.relaxed p).out = s.produced

theorem kinv_init (relaxed : Bool) (pipeMax : Nat) : KInv (Sys.init .chunked relaxed pipeMax) := by
  constructor
  · intro _
    right
    exact ⟨by simp [Sys.init, St.init], Weq.refl _⟩
  · intro h; simp [Sys.init] at h

theorem kinv_intake {s : Sys} (hc : s.cfr = .chunked) (hi : Inv s) (hk : KInv s) : KInv (intake s) := by
  unfold intake
  split
  · exact hk
  · rename_i hp
    have hp' : s.producing = true := by simpa using hp
    obtain ⟨hok, hbad⟩ := hi.prod hp'
    have hsz : s.size = none := (hi.ch_size hc).1 hp'
    split
    · rename_i n hcfr; rw [hc] at hcfr; cases hcfr
    · split
      · exact hk
      · rename_i hemp
        have hne : s.inBuf ≠ [] := by
          intro h; simp [h] at hemp
        have hL := parse_then_U s.relaxed s.pst s.inBuf (s.pipeMax - s.buf.length) s.produced hne
        rcases hk.live hp' with htl | ⟨hst, hJ⟩
        · -- after "trailers too large" nothing more is claimed
          have htl' : ∀ t : Sys, t.clientAll = s.clientAll → t.relaxed = s.relaxed → TL t := by
            intro t h1 h2
            obtain ⟨p, rest, a, b⟩ := htl
            exact ⟨p, rest, by rw [h1, a], by rw [h2]; exact b⟩
          split
          · dsimp only
            split
            · exact ⟨fun _ => Or.inl (htl' _ (by simp [postAppend]) (by simp [postAppend])), fun _ => Or.inl (htl' _ (by simp [postAppend]) (by simp [postAppend]))⟩
            · exact ⟨fun _ => Or.inl (htl' _ (by simp [postAppend]) (by simp [postAppend])), fun _ => Or.inl (htl' _ (by simp [postAppend]) (by simp [postAppend]))⟩
          · exact ⟨fun _ => Or.inl (htl' _ rfl rfl), fun _ => Or.inl (htl' _ rfl rfl)⟩
        · split
          · rename_i parsed c hpr
            rw [hpr] at hL
            dsimp only
            cases parsed with
            | true =>
              simp only [↓reduceIte]
              simp only at hL
              rw [hL] at hJ
              constructor
              · intro h; simp at h
              · intro _
                right
                refine ⟨s.clientAll, [], by simp [postAppend], ?_, ?_⟩
                · have := hJ.1
                  simp only [postAppend]
                  rw [← this]; simp [obsOf]
                · have := hJ.2.1
                  simp only [postAppend]
                  rw [← this]; simp [obsOf]
            | false =>
              simp only [Bool.false_eq_true, ↓reduceIte]
              simp only at hL
              by_cases hd : c.st.stage = .done
              · simp only [hd, if_true] at hL
                rw [hL] at hJ
                have htl : ∀ t : Sys, t.clientAll = s.clientAll → t.relaxed = s.relaxed → TL t := by
                  intro t h1 h2
                  refine ⟨s.clientAll, [], by simp [h1], ?_⟩
                  rw [h2, ← hJ.1]; simp [obsOf, hd]
                exact ⟨fun _ => Or.inl (htl _ (by simp [postAppend]) (by simp [postAppend])), fun _ => Or.inl (htl _ (by simp [postAppend]) (by simp [postAppend]))⟩
              · simp only [hd, if_false] at hL
                rw [hL] at hJ
                constructor
                · intro _
                  right
                  simp only [postAppend]
                  exact ⟨hd, hJ⟩
                · intro h
                  simp [postAppend, hok, hsz] at h
          · -- malformed: production aborted
            constructor
            · intro h; simp at h
            · intro h; simp only at h; rw [hok] at h; simp at h


theorem kinv_of_same {s t : Sys} (h : KInv s) (e1 : t.producing = s.producing) (e2 : t.pst = s.pst) (e3 : t.inBuf = s.inBuf)
    (e4 : t.produced = s.produced) (e5 : t.clientAll = s.clientAll) (e6 : t.relaxed = s.relaxed) (e7 : t.endedOk = s.endedOk) : KInv t := by
  constructor
  · intro hp
    rw [e1] at hp
    rcases h.live hp with ⟨p, r, a, b⟩ | ⟨a, b⟩
    · exact Or.inl ⟨p, r, by rw [e5, a], by rw [e6]; exact b⟩
    · right; rw [e2, e3, e4, e5, e6]; exact ⟨a, b⟩
  · intro ho
    rw [e7] at ho
    rcases h.ended ho with ⟨p, r, a, b⟩ | ⟨p, r, a, b, c⟩
    · exact Or.inl ⟨p, r, by rw [e5, a], by rw [e6]; exact b⟩
    · exact Or.inr ⟨p, r, by rw [e5, a], by rw [e6]; exact b, by rw [e6, e4]; exact c⟩

theorem kinv_step (hx : ChunkedSets.extCommit = false) {s : Sys} (hc : s.cfr = .chunked) (hi : Inv s) (hk : KInv s) (e : Ev) :
    KInv (step s e) := by
  cases e with
  | client seg =>
    simp only [step]
    have hi' : Inv { s with inBuf := s.inBuf ++ seg, clientAll := s.clientAll ++ seg } := by
      have := inv_step hi (.client [])
      constructor
      · exact hi.fifo
      · exact hi.put_len
      · intro n hn; simp only at hn ⊢; rw [hi.cl_stream n hn, List.append_assoc]
      · exact hi.cl_size
      · exact hi.cl_short
      · exact hi.ch_size
      · exact hi.prod
      · exact hi.ok_bad
      · exact hi.whole_ok
      · exact hi.last_ok
      · exact hi.done_ok
      · exact hi.abort_ok
      · exact hi.unstarted
    apply kinv_intake (s := { s with inBuf := s.inBuf ++ seg, clientAll := s.clientAll ++ seg }) hc hi'
    constructor
    · intro hp
      rcases hk.live hp with ⟨p, r, a, b⟩ | ⟨a, b⟩
      · exact Or.inl ⟨p, r ++ seg, by simp [a], b⟩
      · right
        refine ⟨a, ?_⟩
        exact weq_append hx s.relaxed s.pst St.init a (by simp [St.init]) s.inBuf s.clientAll s.produced [] seg b
    · intro ho
      rcases hk.ended ho with ⟨p, r, a, b⟩ | ⟨p, r, a, b, c⟩
      · exact Or.inl ⟨p, r ++ seg, by simp [a], b⟩
      · exact Or.inr ⟨p, r ++ seg, by simp [a], b, c⟩
  | space => exact kinv_intake hc hi hk
  | clientGone =>
    simp only [step]
    split
    · constructor
      · intro h; simp at h
      · intro ho
        rcases hk.ended ho with ⟨p, r, a, b⟩ | ⟨p, r, a, b, c⟩
        · exact Or.inl ⟨p, r, a, b⟩
        · exact Or.inr ⟨p, r, a, b, c⟩
    · exact hk
  | start =>
    simp only [step]
    split
    · exact hk
    · exact kinv_of_same hk rfl rfl rfl rfl rfl rfl rfl
  | notify =>
    simp only [step]
    split
    · exact hk
    · split
      · split
        · exact kinv_of_same hk rfl rfl rfl rfl rfl rfl rfl
        · exact kinv_of_same hk rfl rfl rfl rfl rfl rfl rfl
      · split
        · exact kinv_of_same hk rfl rfl rfl rfl rfl rfl rfl
        · exact hk
  | send =>
    simp only [step]
    split
    · exact hk
    · split
      · exact kinv_of_same hk rfl rfl rfl rfl rfl rfl rfl
      · exact kinv_of_same hk rfl rfl rfl rfl rfl rfl rfl

theorem kinv_run (hx : ChunkedSets.extCommit = false) {s : Sys} (hc : s.cfr = .chunked) (hi : Inv s) (hk : KInv s) (evs : List Ev) :
    KInv (run s evs) := by
  induction evs generalizing s with
  | nil => exact hk
  | cons e es ih =>
    exact ih (by rw [(step_static s e).1]; exact hc) (inv_step hi e) (kinv_step hx hc hi hk e)

theorem intake_relaxed (t : Sys) : (intake t).relaxed = t.relaxed := by
  unfold intake
  split
  · rfl
  · split
    · dsimp only; split <;> simp [postAppend]
    · split
      · rfl
      · split
        · dsimp only; split <;> simp [postAppend]
        · rfl

theorem step_relaxed (t : Sys) (e : Ev) : (step t e).relaxed = t.relaxed := by
  cases e with
  | client seg => simp only [step]; rw [intake_relaxed]
  | space => simp only [step]; rw [intake_relaxed]
  | clientGone => simp only [step]; split <;> rfl
  | start => simp only [step]; split <;> rfl
  | notify => simp only [step]; split <;> (try split) <;> (try split) <;> (try split) <;> simp [doneSending]
  | send => simp only [step]; split <;> (try split) <;> simp [doneSending]

theorem run_relaxed (t : Sys) (evs : List Ev) : (run t evs).relaxed = t.relaxed := by
  induction evs generalizing t with
  | nil => rfl
  | cons e es ih => rw [show run t (e :: es) = run (step t e) es from rfl, ih, step_relaxed]

/-- **Chunked requests: successful production = the reference decoder run.** When the production of a chunked request body ended
successfully, some prefix `p` of the client's octets makes one decoder call with unlimited space return "done" with exactly the
produced octets as output (or the reference run stopped with "trailers too large" on some prefix). -/
theorem chunked_production_is_reference (hx : ChunkedSets.extCommit = false) (relaxed : Bool) (pipeMax : Nat) (evs : List Ev)
    (ho : (run (Sys.init .chunked relaxed pipeMax) evs).endedOk = true) :
    let s := run (Sys.init .chunked relaxed pipeMax) evs
    (∃ p rest, s.clientAll = p ++ rest ∧ (ref relaxed p).verdict = .tooLarge) ∨
    (∃ p rest, s.clientAll = p ++ rest ∧ (ref relaxed p).verdict = .done ∧ (ref relaxed p).out = s.produced) := by
  have hk := kinv_run hx (s := Sys.init .chunked relaxed pipeMax) rfl (inv_init _ _ _) (kinv_init relaxed pipeMax) evs
  have hr : (run (Sys.init .chunked relaxed pipeMax) evs).relaxed = relaxed := run_relaxed _ evs
  intro s
  rcases hk.ended ho with ⟨p, r, a, b⟩ | ⟨p, r, a, b, c⟩
  · exact Or.inl ⟨p, r, a, by rw [← hr]; exact b⟩
  · exact Or.inr ⟨p, r, a, by rw [← hr]; exact b, by rw [← hr]; exact c⟩


/-- on a client stream that starts with a grammar-valid encoding of `body`, the reference run on any prefix that ends "done" has
output `body`, and no prefix ends "trailers too large" -/
theorem reference_exact (relaxed : Bool) (body enc extra p rest : Bytes) (henc : Grammar.Encodes relaxed body enc)
    (hall : p ++ rest = enc ++ extra) :
    (ref relaxed p).verdict ≠ .tooLarge ∧ ((ref relaxed p).verdict = .done → (ref relaxed p).out = body) := by
  have hval := parseU_valid relaxed henc extra
  rw [← hall] at hval
  have hext := parseU_ext relaxed St.init (by simp [St.init]) p rest
  cases hX : parseU relaxed St.init p with
  | threw e o => simp [ref, hX, obsOf]
  | ret d c =>
    rw [hX] at hext
    cases d with
    | true =>
      simp only [CallSpec] at hext
      rw [hext] at hval
      simp only [Outcome.ret.injEq, true_and] at hval
      have : c.out = body := by
        have := congrArg Cfg.out hval
        simpa using this
      simp [ref, hX, obsOf, this]
    | false =>
      simp only [CallSpec] at hext
      by_cases hd : c.st.stage = .done
      · simp only [hd, if_true] at hext
        obtain ⟨c'', e1, _, _⟩ := hext
        rw [e1] at hval
        simp at hval
      · simp [ref, hX, obsOf, hd]

end SquidModel.Relay.Request
