/-
The chunked framing that HttpStateData::getMoreRequestBody() writes upstream (`%x CRLF data CRLF` per write, then the last-chunk) is a
chunked encoding in the sense of the C24 grammar (SquidModel.Chunked.Grammar) of the concatenation of the written buffers.
-/
import SquidModel.Relay.RequestLemmas
import SquidModel.Chunked.Grammar

namespace SquidModel.Relay.Request
open SquidModel SquidModel.Chunked.Grammar

theorem hexLower_facts : ∀ d : Fin 16, isHex (hexLower d.val) = true ∧ (hexDigitVal (hexLower d.val)).getD 0 = d.val := by decide

theorem hexLower_isHex (n : Nat) : isHex (hexLower (n % 16)) = true :=
  (hexLower_facts ⟨n % 16, Nat.mod_lt _ (by decide)⟩).1

theorem hexLower_val (n : Nat) : (hexDigitVal (hexLower (n % 16))).getD 0 = n % 16 :=
  (hexLower_facts ⟨n % 16, Nat.mod_lt _ (by decide)⟩).2

theorem hexDigitsAux_value : ∀ (f n : Nat) (acc : Bytes), n ≤ f → hexValue (hexDigitsAux f n acc) 0 = hexValue acc n := by
  intro f
  induction f with
  | zero => intro n acc h; have : n = 0 := by omega
            subst this; simp [hexDigitsAux]
  | succ f ih =>
    intro n acc h
    unfold hexDigitsAux
    split
    · rename_i h0; subst h0; rfl
    · rename_i h0
      rw [ih (n / 16) _ (by have := Nat.div_lt_self (Nat.pos_of_ne_zero h0) (by decide : 1 < 16); omega)]
      simp only [hexValue, hexLower_val]
      congr 1
      omega

theorem hexDigitsAux_hex : ∀ (f n : Nat) (acc : Bytes), (∀ b ∈ acc, isHex b = true) → ∀ b ∈ hexDigitsAux f n acc, isHex b = true := by
  intro f
  induction f with
  | zero => intro n acc h; simpa [hexDigitsAux] using h
  | succ f ih =>
    intro n acc h
    unfold hexDigitsAux
    split
    · exact h
    · apply ih
      intro b hb
      simp only [List.mem_cons] at hb
      rcases hb with hb | hb
      · rw [hb]; exact hexLower_isHex n
      · exact h b hb

theorem hexDigitsAux_suffix : ∀ (f n : Nat) (acc : Bytes), ∃ pre, hexDigitsAux f n acc = pre ++ acc := by
  intro f
  induction f with
  | zero => intro n acc; exact ⟨[], by simp [hexDigitsAux]⟩
  | succ f ih =>
    intro n acc
    unfold hexDigitsAux
    split
    · exact ⟨[], by simp⟩
    · obtain ⟨pre, hpre⟩ := ih (n / 16) (hexLower (n % 16) :: acc)
      exact ⟨pre ++ [hexLower (n % 16)], by rw [hpre]; simp⟩

/-- `%X` prints a chunk-size with the right value -/
theorem hexDigits_isSize (n : Nat) : IsSize (hexDigits n) n := by
  unfold hexDigits
  split
  · rename_i h0; subst h0
    exact ⟨by simp, by decide, by decide⟩
  · rename_i h0
    refine ⟨?_, hexDigitsAux_hex n n [] (by simp), ?_⟩
    · cases n with
      | zero => exact absurd rfl h0
      | succ m =>
        unfold hexDigitsAux
        simp only [Nat.succ_ne_zero, ↓reduceIte]
        obtain ⟨pre, hpre⟩ := hexDigitsAux_suffix m ((m + 1) / 16) [hexLower ((m + 1) % 16)]
        rw [hpre]; simp
    · rw [hexDigitsAux_value n n [] (Nat.le_refl _)]; rfl

theorem hdrRest_crlf : IsHdrRest false [13, 10] := by
  have := IsHdrRest.plain (relaxed := false) [] (by intro b hb; simp at hb)
  simpa using this

theorem trailer_crlf : IsTrailer [13, 10] :=
  ⟨[], IsTrailerLines.nil, by simp, by decide⟩

/-- one `%x CRLF data CRLF` -/
def packChunk (p : Bytes) : Bytes := hexDigits p.length ++ [13, 10] ++ p ++ [13, 10]

def lastChunkBytes : Bytes := [48, 13, 10, 13, 10]

theorem chunks_encode : ∀ (pieces : List Bytes), (∀ p ∈ pieces, p ≠ [] ∧ p.length < 2 ^ 63) →
    ∃ ds size tail, IsSize ds size ∧ size < 2 ^ 63 ∧ After false size pieces.flatten tail ∧
      (pieces.map packChunk).flatten ++ lastChunkBytes = ds ++ tail := by
  intro pieces
  induction pieces with
  | nil =>
    intro _
    refine ⟨[48], 0, [13, 10] ++ [13, 10], ⟨by simp, by decide, by decide⟩, by decide, ?_, by simp [lastChunkBytes]⟩
    exact After.last [13, 10] [13, 10] hdrRest_crlf trailer_crlf
  | cons p rest ih =>
    intro h
    obtain ⟨ds', size', tail', hs', hlt', haft', heq'⟩ := ih (fun q hq => h q (by simp [hq]))
    obtain ⟨hne, hlt⟩ := h p (by simp)
    have hpos : 0 < p.length := by
      cases p with
      | nil => exact absurd rfl hne
      | cons _ _ => simp
    refine ⟨hexDigits p.length, p.length, [13, 10] ++ p ++ [13, 10] ++ ds' ++ tail', hexDigits_isSize _, hlt, ?_, ?_⟩
    · have := After.chunk (relaxed := false) p.length [13, 10] p ds' size' rest.flatten tail' hpos hlt rfl hdrRest_crlf hs' hlt' haft'
      simpa using this
    · simp only [List.map_cons, List.flatten_cons, packChunk, List.append_assoc]
      rw [heq']

/-- a completed chunked upstream message is in the grammar -/
theorem upWire_encodes (s : Sys) (hc : s.upChunked = true) (hl : s.sentLast = true)
    (h : ∀ p ∈ s.pieces, p ≠ [] ∧ p.length < 2 ^ 63) :
    Encodes false s.upBody s.upWire := by
  obtain ⟨ds, size, tail, h1, h2, h3, h4⟩ := chunks_encode s.pieces h
  refine ⟨ds, size, tail, h1, h2, h3, ?_⟩
  unfold Sys.upWire
  simp only [hc, hl, ↓reduceIte]
  exact h4

end SquidModel.Relay.Request
