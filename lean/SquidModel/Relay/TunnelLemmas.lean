import SquidModel.Relay.Tunnel

namespace SquidModel.Relay

theorem take_add_drop_take (l : Bytes) (n k : Nat) : l.take n ++ (l.drop n).take k = l.take (n + k) := by
  induction n generalizing l with
  | zero => simp
  | succ n ih =>
    cases l with
    | nil => simp
    | cons a as =>
      have : n + 1 + k = (n + k) + 1 := by omega
      simp [this, ih]

theorem take_prefix_take (l : Bytes) (n m : Nat) (h : n ≤ m) : l.take n <+: l.take m := by
  have : l.take m = l.take n ++ (l.drop n).take (m - n) := by
    rw [take_add_drop_take]; congr 1; omega
  rw [this]; exact List.prefix_append _ _

theorem inv_init (src : Bytes) : Inv (Dir.init src) := by
  constructor <;> simp [Dir.init]

theorem inv_step (d : Dir) (e : Ev) (h : Inv d) : Inv (step d e) := by
  obtain ⟨le, pfx, exact, lostClosed, eofClosed⟩ := h
  cases e with
  | read k =>
    simp only [step]
    split
    · rename_i hc
      obtain ⟨hp, hso, hk, hle⟩ := hc
      have hpe : d.pending = [] := by simpa using hp
      have hnl : d.lost = false := by
        cases hl : d.lost with
        | false => rfl
        | true => rw [lostClosed hl] at hso; cases hso
      have hne : d.sawEof = false := by
        cases hs : d.sawEof with
        | false => rfl
        | true => rw [(eofClosed hs).1] at hso; cases hso
      have hex := exact hnl
      simp only [hpe, List.append_nil] at hex
      split
      · refine ⟨hle, ?_, ?_, ?_, ?_⟩
        · simp only [hex, take_add_drop_take]; exact List.prefix_refl _
        · intro _; simp only [hex, take_add_drop_take]
        · intro hl; simp only [hnl] at hl; cases hl
        · intro hs; simp only [hne] at hs; cases hs
      · refine ⟨hle, ?_, ?_, ?_, ?_⟩
        · simp only [hpe, List.append_nil, hex]; exact take_prefix_take _ _ _ (by omega)
        · intro hl; cases hl
        · intro _; rfl
        · intro hs; simp only [hne] at hs; cases hs
    · exact ⟨le, pfx, exact, lostClosed, eofClosed⟩
  | writeDone =>
    simp only [step]
    split
    · exact ⟨le, pfx, exact, lostClosed, eofClosed⟩
    · rename_i hp
      refine ⟨le, by simpa using pfx, fun hl => by simpa using exact hl, lostClosed, ?_⟩
      intro hs
      have := (eofClosed hs).2.2
      simp [this] at hp
  | writeError =>
    simp only [step]
    split
    · exact ⟨le, pfx, exact, lostClosed, eofClosed⟩
    · rename_i hp
      refine ⟨le, ?_, fun hl => (by cases hl), fun _ => rfl, ?_⟩
      · simp only [List.append_nil]
        exact List.IsPrefix.trans (List.prefix_append _ _) pfx
      · intro hs
        have := (eofClosed hs).2.2
        simp [this] at hp
  | eof =>
    simp only [step]
    split
    · rename_i hc
      obtain ⟨hp, hso, hcn⟩ := hc
      have hpe : d.pending = [] := by simpa using hp
      exact ⟨le, pfx, exact, fun hl => rfl, fun _ => ⟨rfl, hcn, hpe⟩⟩
    · exact ⟨le, pfx, exact, lostClosed, eofClosed⟩
  | srcError =>
    simp only [step]
    split
    · exact ⟨le, pfx, exact, fun _ => rfl, fun hs => ⟨rfl, (eofClosed hs).2⟩⟩
    · exact ⟨le, pfx, exact, lostClosed, eofClosed⟩
  | sinkClosed =>
    simp only [step]
    split
    · exact ⟨le, pfx, exact, lostClosed, eofClosed⟩
    · exact ⟨le, pfx, exact, lostClosed, eofClosed⟩

theorem inv_run (d : Dir) (evs : List Ev) (h : Inv d) : Inv (run d evs) := by
  induction evs generalizing d with
  | nil => exact h
  | cons e rest ih => exact ih _ (inv_step d e h)

/-- `lost` stays false as long as no write error happened and no read met a closed sink -/
theorem step_src (d : Dir) (e : Ev) : (step d e).src = d.src := by
  cases e <;> simp only [step] <;> (try split) <;> (try split) <;> rfl

theorem run_src (d : Dir) (evs : List Ev) : (run d evs).src = d.src := by
  induction evs generalizing d with
  | nil => rfl
  | cons e rest ih => simp only [run, List.foldl_cons] at ih ⊢; rw [ih, step_src]

end SquidModel.Relay
