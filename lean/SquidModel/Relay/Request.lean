/-
C02 model: the path of a request body through Squid.

  client ──read──▶ ConnStateData (src/client_side.cc) ──put──▶ BodyPipe (src/BodyPipe.cc) ──get──▶ HttpStateData /
         Client (src/http.cc, src/clients/Client.cc) ──write──▶ origin

  * `intake`      = ConnStateData::handleRequestBodyData(): identity bodies go through BodyPipe::putMoreData() (clipped by the
                    unproduced size and by the buffer space; what is not taken stays in inBuf); chunked bodies through
                    handleChunkedRequestBody(): one TeChunkedParser::parse() call (the C24 model `Chunked.parse`) whose payload
                    buffer is the pipe's buffer (BodyPipeCheckout: space = MaxCapacity − content), `remaining()` goes back to
                    inBuf; parsed ⇒ finishDechunkingRequest(true) (clearProducer(atEof): the size becomes thePutSize); an
                    exception ⇒ abortChunkedRequestBody(): stopProducingFor(pipe, false) and the client connection is reset.
  * the pipe      = buffer, thePutSize, theGetSize, theBodySize; postAppend(): reaching the known size clears the producer
                    (production ended successfully); clearProducer(false) = aborted production.
  * `start`       = HttpStateData::sendRequest(): `flags.chunked_request` iff the request's content_length is unknown at that moment
                    (a chunked body that was completely parsed before forwarding started has got its length by then).
  * `send`        = Client::sendMoreRequestBody() + HttpStateData::getMoreRequestBody(): everything the pipe holds becomes one write;
                    with chunked_request it is wrapped as `%x CRLF data CRLF`, followed by `0 CRLF CRLF` iff
                    receivedWholeRequestBody; then sentRequestBody(): exhausted and whole ⇒ doneSendingRequestBody().
  * `notify`      = the pipe's end notifications: noteBodyProductionEnded ⇒ receivedWholeRequestBody (and, when nothing is left
                    to send, doneSendingRequestBody() ⇒ finishingChunkedRequest() writes the last-chunk); noteBodyProducerAborted ⇒
                    handleRequestBodyProducerAborted() ⇒ abortTransaction(): the server connection is closed.
  Writes are atomic in the model (no in-flight write); the "more data" notification precedes the "ended" one as in the code.

Not modelled: request_body_max_size, adaptation (REQMOD), auto-consumption after a consumer abort, retries with a re-sent body,
timeouts, the reply path (C01).
-/
import SquidModel.Chunked.Decoder

namespace SquidModel.Relay.Request
open SquidModel SquidModel.Chunked

inductive CFr
  | cl (n : Nat)
  | chunked
  deriving DecidableEq, Repr

structure Sys where
  cfr : CFr
  relaxed : Bool
  pipeMax : Nat           -- BodyPipe::MaxCapacity
  -- ConnStateData
  inBuf : Bytes           -- unconsumed client octets
  pst : St                -- bodyParser state
  producing : Bool        -- ConnStateData::bodyPipe != nullptr
  -- BodyPipe
  buf : Bytes             -- theBuf
  put : Nat               -- thePutSize
  got : Nat               -- theGetSize
  size : Option Nat       -- theBodySize
  endedOk : Bool          -- the producer was cleared at the end of the body
  endedBad : Bool         -- the producer was cleared before the end (abort)
  -- HttpStateData
  started : Bool          -- sendRequest() ran
  upChunked : Bool        -- flags.chunked_request
  whole : Bool            -- receivedWholeRequestBody
  sentLast : Bool         -- flags.sentLastChunk
  pieces : List Bytes     -- the payload of every body write, in order
  done : Bool             -- sendComplete()
  aborted : Bool          -- abortTransaction(): server connection closed before the request was complete
  -- ghosts
  clientAll : Bytes       -- every body octet the client has sent so far
  produced : Bytes        -- every octet ever appended to the pipe
  deriving Repr

def Sys.init (cfr : CFr) (relaxed : Bool) (pipeMax : Nat) : Sys :=
  { cfr := cfr, relaxed := relaxed, pipeMax := pipeMax, inBuf := [], pst := St.init, producing := true, buf := [], put := 0, got := 0,
    size := (match cfr with | .cl n => some n | .chunked => none), endedOk := false, endedBad := false, started := false,
    upChunked := false, whole := false, sentLast := false, pieces := [], done := false, aborted := false, clientAll := [], produced := [] }

/-- BodyPipe::postAppend(): account for `out`, and clear the producer when the known size is reached -/
def postAppend (s : Sys) (out : Bytes) : Sys :=
  let put := s.put + out.length
  let atEnd := decide (s.size = some put)                         -- !mayNeedMoreData()
  { s with buf := s.buf ++ out, put := put, produced := s.produced ++ out,
           producing := s.producing && !atEnd, endedOk := s.endedOk || atEnd }

/-- ConnStateData::handleRequestBodyData() -/
def intake (s : Sys) : Sys :=
  if !s.producing then s else
  match s.cfr with
  | .cl n =>
    -- BodyPipe::putMoreData(inBuf): min(size, unproducedSize(), potentialSpaceSize())
    let k := min (min s.inBuf.length (n - s.put)) (s.pipeMax - s.buf.length)
    if k = 0 then s else postAppend { s with inBuf := s.inBuf.drop k } (s.inBuf.take k)
  | .chunked =>
    if s.inBuf.isEmpty then s else
    match parse s.relaxed s.pst s.inBuf (s.pipeMax - s.buf.length) with
    | .ret parsed c =>
      let s1 := postAppend { s with inBuf := c.buf, pst := c.st } c.out     -- bpc.checkIn()
      if parsed then { s1 with producing := false, size := some s1.put, endedOk := true }   -- finishDechunkingRequest(true)
      else s1
    | .threw _ _ => { s with producing := false, endedBad := true, inBuf := [] }   -- abortChunkedRequestBody(): reset the client

/-- Client::doneSendingRequestBody() (+ finishingChunkedRequest()) -/
def doneSending (s : Sys) : Sys :=
  { s with sentLast := s.sentLast || s.upChunked, done := true }

inductive Ev
  | client (seg : Bytes)   -- more octets from the client
  | space                  -- noteMoreBodySpaceAvailable(): the consumer made room
  | clientGone             -- the client connection ended
  | start                  -- HttpStateData::sendRequest()
  | notify                 -- delivery of the pipe's end notification
  | send                   -- sendMoreRequestBody() with the write completing
  deriving Repr

def step (s : Sys) : Ev → Sys
  | .client seg => intake { s with inBuf := s.inBuf ++ seg, clientAll := s.clientAll ++ seg }
  | .space => intake s
  | .clientGone => if s.producing then { s with producing := false, endedBad := true } else s
  | .start => if s.started || s.endedBad then s else { s with started := true, upChunked := s.size.isNone }   -- no forwarding after an early abort
  | .notify =>
    if !s.started || s.done || s.aborted then s
    else if s.endedOk then
      let s1 := { s with whole := true }                              -- handleRequestBodyProductionEnded()
      if s.buf.isEmpty then doneSending s1 else s1
    else if s.endedBad then { s with aborted := true }               -- handleRequestBodyProducerAborted() → abortTransaction()
    else s
  | .send =>
    if !s.started || s.done || s.aborted || s.buf.isEmpty then s
    else
      -- getMoreRequestBody(): BodyPipe::getMoreData() takes everything
      let s1 := { s with pieces := s.pieces ++ [s.buf], got := s.got + s.buf.length, buf := [],
                         sentLast := s.sentLast || (s.upChunked && s.whole) }
      if s.whole then doneSending s1 else s1                          -- sentRequestBody(): exhausted() && receivedWholeRequestBody

def run (s : Sys) (evs : List Ev) : Sys := evs.foldl step s

/-- the body octets written upstream -/
def Sys.upBody (s : Sys) : Bytes := s.pieces.flatten

def hexLower (d : Nat) : UInt8 := if d < 10 then UInt8.ofNat (48 + d) else UInt8.ofNat (87 + d)

def hexDigitsAux : Nat → Nat → Bytes → Bytes
  | 0, _, acc => acc
  | f + 1, n, acc => if n = 0 then acc else hexDigitsAux f (n / 16) (hexLower (n % 16) :: acc)

/-- `%x` -/
def hexDigits (n : Nat) : Bytes := if n = 0 then [48] else hexDigitsAux n n []

/-- the octets on the upstream connection after the request header -/
def Sys.upWire (s : Sys) : Bytes :=
  if s.upChunked then
    (s.pieces.map fun p => hexDigits p.length ++ [13, 10] ++ p ++ [13, 10]).flatten ++ (if s.sentLast then [48, 13, 10, 13, 10] else [])
  else s.pieces.flatten

/-- the upstream message is complete by its own framing (Content-Length n for an identity request and for a chunked request
whose length was known when forwarding started; otherwise the last-chunk) -/
def Sys.upComplete (s : Sys) : Bool :=
  if s.upChunked then s.sentLast
  else match s.size with
    | some n => decide (s.upBody.length = n)
    | none => false

end SquidModel.Relay.Request
