/-
Invariant of the C02 request-body relay model (SquidModel.Relay.Request) over arbitrary event histories.
-/
import SquidModel.Relay.Request

namespace SquidModel.Relay.Request
open SquidModel SquidModel.Chunked

structure Inv (s : Sys) : Prop where
  fifo : s.produced = s.pieces.flatten ++ s.buf
  put_len : s.put = s.produced.length
  cl_stream : ∀ n, s.cfr = .cl n → s.clientAll = s.produced ++ s.inBuf
  cl_size : ∀ n, s.cfr = .cl n → s.size = some n ∧ s.put ≤ n
  cl_short : ∀ n, s.cfr = .cl n → 0 < n → (s.producing = true ∨ s.endedBad = true) → s.put < n
  ch_size : s.cfr = .chunked → (s.producing = true → s.size = none) ∧ (s.size.isSome = true → s.endedOk = true)
  prod : s.producing = true → s.endedOk = false ∧ s.endedBad = false
  ok_bad : s.endedOk = true → s.endedBad = false ∧ s.size = some s.put
  whole_ok : s.whole = true → s.endedOk = true
  last_ok : s.sentLast = true → s.whole = true ∧ s.buf = [] ∧ s.upChunked = true
  done_ok : s.done = true → s.whole = true ∧ s.buf = [] ∧ (s.upChunked = true → s.sentLast = true)
  abort_ok : s.aborted = true → s.endedBad = true
  unstarted : s.started = false → s.sentLast = false ∧ s.done = false

theorem inv_init (cfr : CFr) (relaxed : Bool) (pipeMax : Nat) : Inv (Sys.init cfr relaxed pipeMax) := by
  constructor <;> (try simp [Sys.init])
  · intro n h; subst h; simp
  · intro h; subst h; simp

/-- BodyPipe::postAppend() on a producing pipe -/
theorem inv_postAppend {s : Sys} (h : Inv s) (hp : s.producing = true) (out : Bytes)
    (hcl : ∀ n, s.cfr = .cl n → s.put + out.length ≤ n)
    (inBuf' : Bytes) (pst' : St) (hstream : ∀ n, s.cfr = .cl n → s.clientAll = s.produced ++ out ++ inBuf') :
    Inv (postAppend { s with inBuf := inBuf', pst := pst' } out) := by
  obtain ⟨hok, hbad⟩ := h.prod hp
  have hnw : s.whole = false := by
    cases hw : s.whole
    · rfl
    · have := h.whole_ok hw; simp [hok] at this
  have hnl : s.sentLast = false := by
    cases hl : s.sentLast
    · rfl
    · have := (h.last_ok hl).1; simp [hnw] at this
  have hnd : s.done = false := by
    cases hd : s.done
    · rfl
    · have := (h.done_ok hd).1; simp [hnw] at this
  have hna : s.aborted = false := by
    cases ha : s.aborted
    · rfl
    · have := h.abort_ok ha; simp [hbad] at this
  unfold postAppend
  constructor
  · simp [h.fifo]
  · simp [h.put_len]
  · intro n hn
    simp only at hn ⊢
    rw [hstream n hn]
  · intro n hn
    simp only at hn ⊢
    exact ⟨(h.cl_size n hn).1, hcl n hn⟩
  · intro n hn hpos hor
    simp only at hn hor ⊢
    have hs := (h.cl_size n hn).1
    have hle := hcl n hn
    rcases hor with hor | hor
    · simp only [hp, hs, Bool.true_and, Bool.not_eq_true', decide_eq_false_iff_not, Option.some.injEq] at hor
      omega
    · simp [hbad] at hor
  · intro hc
    simp only at hc ⊢
    have h1 := (h.ch_size hc).1 hp
    constructor
    · intro _; exact h1
    · intro hsz; rw [h1] at hsz; simp at hsz
  · intro hpr
    simp only [hp, Bool.true_and, Bool.not_eq_true', decide_eq_false_iff_not] at hpr
    simp [hok, hbad, hpr]
  · intro ho
    simp only [hok, Bool.false_or, decide_eq_true_eq] at ho
    simp [hbad, ho]
  · intro hw; simp only at hw; rw [hnw] at hw; simp at hw
  · intro hl; simp only at hl; rw [hnl] at hl; simp at hl
  · intro hd; simp only at hd; rw [hnd] at hd; simp at hd
  · intro ha; simp only at ha; rw [hna] at ha; simp at ha
  · intro _; exact ⟨hnl, hnd⟩

/-- facts about a pipe whose production has not ended -/
theorem quiet_of_not_ended {s : Sys} (h : Inv s) (hok : s.endedOk = false) :
    s.whole = false ∧ s.sentLast = false ∧ s.done = false := by
  have hnw : s.whole = false := by
    cases hw : s.whole
    · rfl
    · have := h.whole_ok hw; simp [hok] at this
  refine ⟨hnw, ?_, ?_⟩
  · cases hl : s.sentLast
    · rfl
    · have := (h.last_ok hl).1; simp [hnw] at this
  · cases hd : s.done
    · rfl
    · have := (h.done_ok hd).1; simp [hnw] at this

theorem inv_intake {s : Sys} (h : Inv s) : Inv (intake s) := by
  unfold intake
  split
  · exact h
  · rename_i hp
    have hp' : s.producing = true := by simpa using hp
    obtain ⟨hok, hbad⟩ := h.prod hp'
    split
    · -- identity body: putMoreData()
      rename_i n hcfr
      dsimp only
      split
      · exact h
      · have hle := (h.cl_size n hcfr).2
        refine inv_postAppend h hp' _ ?_ _ s.pst ?_
        · intro m hm
          rw [hcfr] at hm
          cases hm
          simp only [List.length_take]
          omega
        · intro m hm
          rw [h.cl_stream m hm, List.append_assoc, List.take_append_drop]
    · -- chunked body: one parse() call into the pipe's buffer
      rename_i hcfr
      split
      · exact h
      · split
        · rename_i parsed c hpr
          have h1 : Inv (postAppend { s with inBuf := c.buf, pst := c.st } c.out) :=
            inv_postAppend h hp' c.out (fun m hm => by rw [hcfr] at hm; cases hm) c.buf c.st (fun m hm => by rw [hcfr] at hm; cases hm)
          have hsz : s.size = none := (h.ch_size hcfr).1 hp'
          have hok1 : (postAppend { s with inBuf := c.buf, pst := c.st } c.out).endedOk = false := by
            simp [postAppend, hok, hsz]
          have hbad1 : (postAppend { s with inBuf := c.buf, pst := c.st } c.out).endedBad = false := by
            simp [postAppend, hbad]
          have hcfr1 : (postAppend { s with inBuf := c.buf, pst := c.st } c.out).cfr = .chunked := by
            simp [postAppend, hcfr]
          dsimp only
          split
          · obtain ⟨q1, q2, q3⟩ := quiet_of_not_ended h1 hok1
            generalize postAppend { s with inBuf := c.buf, pst := c.st } c.out = s1 at h1 hok1 hbad1 hcfr1 q1 q2 q3
            constructor
            · exact h1.fifo
            · exact h1.put_len
            · intro n hn; simp only at hn; rw [hcfr1] at hn; cases hn
            · intro n hn; simp only at hn; rw [hcfr1] at hn; cases hn
            · intro n hn; simp only at hn; rw [hcfr1] at hn; cases hn
            · intro _; simp
            · intro hpr'; simp at hpr'
            · intro _; exact ⟨hbad1, rfl⟩
            · intro hw; simp only at hw; simp [q1] at hw
            · intro hl; simp only at hl; simp [q2] at hl
            · intro hd; simp only at hd; simp [q3] at hd
            · exact h1.abort_ok
            · intro _; exact ⟨q2, q3⟩
          · exact h1
        · -- malformed chunk framing: abortChunkedRequestBody()
          obtain ⟨q1, q2, q3⟩ := quiet_of_not_ended h hok
          have hsz : s.size = none := (h.ch_size hcfr).1 hp'
          constructor
          · exact h.fifo
          · exact h.put_len
          · intro n hn; simp only at hn; rw [hcfr] at hn; cases hn
          · intro n hn; simp only at hn; rw [hcfr] at hn; cases hn
          · intro n hn; simp only at hn; rw [hcfr] at hn; cases hn
          · intro _; simp [hsz]
          · intro hpr'; simp at hpr'
          · intro ho; simp only at ho; rw [hok] at ho; simp at ho
          · intro hw; simp only at hw; simp [q1] at hw
          · intro hl; simp only at hl; simp [q2] at hl
          · intro hd; simp only at hd; simp [q3] at hd
          · intro _; rfl
          · intro _; exact ⟨q2, q3⟩


theorem inv_step {s : Sys} (h : Inv s) (e : Ev) : Inv (step s e) := by
  cases e with
  | client seg =>
    apply inv_intake
    constructor
    · exact h.fifo
    · exact h.put_len
    · intro n hn; simp only at hn ⊢; rw [h.cl_stream n hn, List.append_assoc]
    · exact h.cl_size
    · exact h.cl_short
    · exact h.ch_size
    · exact h.prod
    · exact h.ok_bad
    · exact h.whole_ok
    · exact h.last_ok
    · exact h.done_ok
    · exact h.abort_ok
    · exact h.unstarted
  | space => exact inv_intake h
  | clientGone =>
    simp only [step]
    split
    · rename_i hp
      obtain ⟨hok, hbad⟩ := h.prod hp
      obtain ⟨q1, q2, q3⟩ := quiet_of_not_ended h hok
      constructor
      · exact h.fifo
      · exact h.put_len
      · exact h.cl_stream
      · exact h.cl_size
      · intro n hn hpos _; exact h.cl_short n hn hpos (Or.inl hp)
      · intro hc
        have := (h.ch_size hc).1 hp
        simp only at this ⊢
        simp [this]
      · intro hpr; simp at hpr
      · intro ho; simp only at ho; simp [hok] at ho
      · intro hw; simp only at hw; simp [q1] at hw
      · intro hl; simp only at hl; simp [q2] at hl
      · intro hd; simp only at hd; simp [q3] at hd
      · intro _; rfl
      · intro _; exact ⟨q2, q3⟩
    · exact h
  | start =>
    simp only [step]
    split
    · exact h
    · rename_i hst
      have hst' : s.started = false := by
        cases hs : s.started <;> simp [hs] at hst ⊢
      obtain ⟨u1, u2⟩ := h.unstarted hst'
      constructor
      · exact h.fifo
      · exact h.put_len
      · exact h.cl_stream
      · exact h.cl_size
      · exact h.cl_short
      · exact h.ch_size
      · exact h.prod
      · exact h.ok_bad
      · exact h.whole_ok
      · intro hl; simp only at hl; simp [u1] at hl
      · intro hd; simp only at hd; simp [u2] at hd
      · exact h.abort_ok
      · intro hx; simp at hx
  | notify =>
    simp only [step]
    split
    · exact h
    · rename_i hgo
      have hst : s.started = true := by
        cases hs : s.started <;> simp [hs] at hgo ⊢
      split
      · rename_i hok
        obtain ⟨hnb, hsz⟩ := h.ok_bad hok
        split
        · rename_i hbe
          have hbe' : s.buf = [] := by simpa using hbe
          unfold doneSending
          constructor
          · exact h.fifo
          · exact h.put_len
          · exact h.cl_stream
          · exact h.cl_size
          · exact h.cl_short
          · exact h.ch_size
          · exact h.prod
          · exact h.ok_bad
          · intro _; exact hok
          · intro hl
            simp only [Bool.or_eq_true] at hl
            refine ⟨rfl, hbe', ?_⟩
            rcases hl with hl | hl
            · exact (h.last_ok hl).2.2
            · exact hl
          · intro _
            refine ⟨rfl, hbe', ?_⟩
            intro hu; simp only at hu ⊢; simp [hu]
          · exact h.abort_ok
          · intro hx; simp only at hx; simp [hst] at hx
        · constructor
          · exact h.fifo
          · exact h.put_len
          · exact h.cl_stream
          · exact h.cl_size
          · exact h.cl_short
          · exact h.ch_size
          · exact h.prod
          · exact h.ok_bad
          · intro _; exact hok
          · intro hl; obtain ⟨_, a, b⟩ := h.last_ok hl; exact ⟨rfl, a, b⟩
          · intro hd; obtain ⟨_, a, b⟩ := h.done_ok hd; exact ⟨rfl, a, b⟩
          · exact h.abort_ok
          · intro hx; simp only at hx; simp [hst] at hx
      · split
        · rename_i hbad
          constructor
          · exact h.fifo
          · exact h.put_len
          · exact h.cl_stream
          · exact h.cl_size
          · exact h.cl_short
          · exact h.ch_size
          · exact h.prod
          · exact h.ok_bad
          · exact h.whole_ok
          · exact h.last_ok
          · exact h.done_ok
          · intro _; exact hbad
          · intro hx; simp only at hx; simp [hst] at hx
        · exact h
  | send =>
    simp only [step]
    split
    · exact h
    · rename_i hgo
      have hst : s.started = true := by
        cases hs : s.started <;> simp [hs] at hgo ⊢
      have hcore : Inv { s with pieces := s.pieces ++ [s.buf], got := s.got + s.buf.length, buf := [],
                                sentLast := s.sentLast || (s.upChunked && s.whole) } := by
        constructor
        · simp [h.fifo]
        · exact h.put_len
        · exact h.cl_stream
        · exact h.cl_size
        · exact h.cl_short
        · exact h.ch_size
        · exact h.prod
        · exact h.ok_bad
        · exact h.whole_ok
        · intro hl
          simp only [Bool.or_eq_true, Bool.and_eq_true] at hl
          rcases hl with hl | ⟨hu, hw⟩
          · exact ⟨(h.last_ok hl).1, rfl, (h.last_ok hl).2.2⟩
          · exact ⟨hw, rfl, hu⟩
        · intro hd
          obtain ⟨a, _, c⟩ := h.done_ok hd
          refine ⟨a, rfl, ?_⟩
          intro hu; simp only at hu ⊢; simp [c hu]
        · exact h.abort_ok
        · intro hx; simp only at hx; simp [hst] at hx
      split
      · rename_i hw
        unfold doneSending
        constructor
        · exact hcore.fifo
        · exact hcore.put_len
        · exact hcore.cl_stream
        · exact hcore.cl_size
        · exact hcore.cl_short
        · exact hcore.ch_size
        · exact hcore.prod
        · exact hcore.ok_bad
        · exact hcore.whole_ok
        · intro hl
          simp only [Bool.or_eq_true, Bool.and_eq_true] at hl
          refine ⟨hw, rfl, ?_⟩
          rcases hl with (hl | ⟨hu, _⟩) | hl
          · exact (h.last_ok hl).2.2
          · exact hu
          · exact hl
        · intro _
          refine ⟨hw, rfl, ?_⟩
          intro hu; simp only at hu ⊢; simp [hu]
        · exact hcore.abort_ok
        · intro hx; simp only at hx; simp [hst] at hx
      · exact hcore

theorem inv_run {s : Sys} (h : Inv s) (evs : List Ev) : Inv (run s evs) := by
  induction evs generalizing s with
  | nil => exact h
  | cons e es ih => exact ih (inv_step h e)

/-- the static fields never change -/
theorem step_static (s : Sys) (e : Ev) : (step s e).cfr = s.cfr ∧ (step s e).pipeMax = s.pipeMax := by
  have hi : ∀ t : Sys, (intake t).cfr = t.cfr ∧ (intake t).pipeMax = t.pipeMax := by
    intro t
    unfold intake
    split
    · exact ⟨rfl, rfl⟩
    · split
      · dsimp only; split <;> simp [postAppend]
      · split
        · exact ⟨rfl, rfl⟩
        · split
          · dsimp only; split <;> simp [postAppend]
          · exact ⟨rfl, rfl⟩
  cases e with
  | client seg => exact hi _
  | space => exact hi _
  | clientGone => simp only [step]; split <;> exact ⟨rfl, rfl⟩
  | start => simp only [step]; split <;> exact ⟨rfl, rfl⟩
  | notify => simp only [step]; split <;> (try split) <;> (try split) <;> (try split) <;> simp [doneSending]
  | send => simp only [step]; split <;> (try split) <;> simp [doneSending]

theorem run_static (s : Sys) (evs : List Ev) : (run s evs).cfr = s.cfr ∧ (run s evs).pipeMax = s.pipeMax := by
  induction evs generalizing s with
  | nil => exact ⟨rfl, rfl⟩
  | cons e es ih =>
    obtain ⟨a, b⟩ := ih (step s e)
    obtain ⟨c, d⟩ := step_static s e
    exact ⟨by rw [show run s (e :: es) = run (step s e) es from rfl, a, c], by rw [show run s (e :: es) = run (step s e) es from rfl, b, d]⟩


theorem intake_pieces (t : Sys) : (intake t).pieces = t.pieces := by
  unfold intake
  split
  · rfl
  · split
    · dsimp only; split <;> simp [postAppend]
    · split
      · rfl
      · split
        · dsimp only; split <;> simp [postAppend]
        · rfl

/-- every upstream write carries at least one octet (a zero-size chunk would be read as the last-chunk) -/
theorem pieces_nonempty_step {s : Sys} (h : ∀ p ∈ s.pieces, p ≠ []) (e : Ev) : ∀ p ∈ (step s e).pieces, p ≠ [] := by
  cases e with
  | client seg => simp only [step]; rw [intake_pieces]; exact h
  | space => simp only [step]; rw [intake_pieces]; exact h
  | clientGone => simp only [step]; split <;> exact h
  | start => simp only [step]; split <;> exact h
  | notify => simp only [step]; split <;> (try split) <;> (try split) <;> (try split) <;> simpa [doneSending] using h
  | send =>
    simp only [step]
    split
    · exact h
    · rename_i hgo
      have hne : s.buf ≠ [] := by
        intro hb; simp [hb] at hgo
      have : ∀ p ∈ s.pieces ++ [s.buf], p ≠ [] := by
        intro p hp
        simp only [List.mem_append, List.mem_singleton] at hp
        rcases hp with hp | hp
        · exact h p hp
        · rw [hp]; exact hne
      split <;> simpa [doneSending] using this

theorem pieces_nonempty_run {s : Sys} (h : ∀ p ∈ s.pieces, p ≠ []) (evs : List Ev) : ∀ p ∈ (run s evs).pieces, p ≠ [] := by
  induction evs generalizing s with
  | nil => exact h
  | cons e es ih => exact ih (pieces_nonempty_step h e)


/-! ## consequences of the invariant, for any state -/

theorem up_prefix {s : Sys} (h : Inv s) : s.upBody <+: s.produced := by
  rw [h.fifo]; exact List.prefix_append _ _

theorem prefix_eq_of_length {a b : Bytes} (h : a <+: b) (hl : a.length = b.length) : a = b := by
  obtain ⟨t, ht⟩ := h
  have hl' := congrArg List.length ht
  rw [List.length_append] at hl'
  have : t = [] := by
    cases t with
    | nil => rfl
    | cons x y => simp at hl'; omega
  rw [this, List.append_nil] at ht
  exact ht

theorem cl_facts {s : Sys} (h : Inv s) (n : Nat) (hc : s.cfr = .cl n) :
    s.produced = s.clientAll.take s.put ∧ s.put ≤ n ∧ s.upBody <+: s.clientAll.take n := by
  have hst := h.cl_stream n hc
  have hle := (h.cl_size n hc).2
  have hp : s.produced = s.clientAll.take s.put := by
    rw [hst, h.put_len]; simp
  refine ⟨hp, hle, ?_⟩
  have h2 : s.produced <+: s.clientAll.take n := by
    rw [hp]
    exact List.take_prefix_take_left (by omega)
  exact List.IsPrefix.trans (up_prefix h) h2

theorem last_facts {s : Sys} (h : Inv s) (hl : s.sentLast = true) :
    s.endedOk = true ∧ s.endedBad = false ∧ s.buf = [] ∧ s.upBody = s.produced ∧ s.upChunked = true := by
  obtain ⟨hw, hb, hu⟩ := h.last_ok hl
  have hok := h.whole_ok hw
  refine ⟨hok, (h.ok_bad hok).1, hb, ?_, hu⟩
  have := h.fifo
  rw [hb, List.append_nil] at this
  exact this.symm

theorem complete_cl {s : Sys} (h : Inv s) (n : Nat) (hcfr : s.cfr = .cl n) (hc : s.upComplete = true) :
    n ≤ s.clientAll.length ∧ s.upBody = s.clientAll.take n := by
  obtain ⟨hp, hle, hpre⟩ := cl_facts h n hcfr
  have hsz := (h.cl_size n hcfr).1
  have hlen : s.upBody.length = n := by
    unfold Sys.upComplete at hc
    cases hu : s.upChunked
    · simp only [hu, Bool.false_eq_true, ↓reduceIte] at hc
      rw [hsz] at hc
      simpa using hc
    · simp only [hu, ↓reduceIte] at hc
      obtain ⟨hok, _, _, hub, _⟩ := last_facts h hc
      have := (h.ok_bad hok).2
      rw [hsz] at this
      have hput : s.put = n := by injection this with this; exact this.symm
      rw [hub, ← h.put_len, hput]
  have hlt : s.upBody.length ≤ (s.clientAll.take n).length := hpre.length_le
  rw [List.length_take] at hlt
  refine ⟨by omega, ?_⟩
  apply prefix_eq_of_length hpre
  rw [List.length_take]; omega

theorem complete_chunked {s : Sys} (h : Inv s) (hcfr : s.cfr = .chunked) (hc : s.upComplete = true) :
    s.endedOk = true ∧ s.endedBad = false ∧ s.upBody = s.produced := by
  unfold Sys.upComplete at hc
  cases hu : s.upChunked
  · simp only [hu, Bool.false_eq_true, ↓reduceIte] at hc
    cases hs : s.size with
    | none => rw [hs] at hc; simp at hc
    | some m =>
      rw [hs] at hc
      have hc' : s.upBody.length = m := by simpa using hc
      have hok := (h.ch_size hcfr).2 (by simp [hs])
      obtain ⟨hb, hsz⟩ := h.ok_bad hok
      rw [hs] at hsz
      have hput : s.put = m := by injection hsz with hsz; exact hsz.symm
      refine ⟨hok, hb, ?_⟩
      apply prefix_eq_of_length (up_prefix h)
      rw [← h.put_len, hput, hc']
  · simp only [hu, ↓reduceIte] at hc
    obtain ⟨a, b, _, d, _⟩ := last_facts h hc
    exact ⟨a, b, d⟩

theorem aborted_incomplete {s : Sys} (h : Inv s) (hpos : ∀ n, s.cfr = .cl n → 0 < n) (ha : s.aborted = true) :
    s.upComplete = false := by
  have hbad := h.abort_ok ha
  have hnok : s.endedOk = false := by
    cases ho : s.endedOk
    · rfl
    · have := (h.ok_bad ho).1; rw [hbad] at this; simp at this
  cases hc : s.upComplete
  · rfl
  · exfalso
    cases hcfr : s.cfr with
    | chunked =>
      have := (complete_chunked h hcfr hc).1
      rw [hnok] at this; simp at this
    | cl n =>
      obtain ⟨_, hub⟩ := complete_cl h n hcfr hc
      have hshort := h.cl_short n hcfr (hpos n hcfr) (Or.inr hbad)
      have h1 : s.upBody.length ≤ s.produced.length := (up_prefix h).length_le
      have hsz := (h.cl_size n hcfr).1
      unfold Sys.upComplete at hc
      cases hu : s.upChunked
      · simp only [hu, Bool.false_eq_true, ↓reduceIte] at hc
        rw [hsz] at hc
        have hc' : s.upBody.length = n := by simpa using hc
        rw [← h.put_len] at h1
        omega
      · simp only [hu, ↓reduceIte] at hc
        have := h.whole_ok (h.last_ok hc).1
        rw [hnok] at this; simp at this

theorem done_facts {s : Sys} (h : Inv s) (hd : s.done = true) :
    s.upComplete = true ∧ s.upBody = s.produced ∧ s.endedOk = true := by
  obtain ⟨hw, hb, hl⟩ := h.done_ok hd
  have hok := h.whole_ok hw
  have hub : s.upBody = s.produced := by
    have := h.fifo
    rw [hb, List.append_nil] at this
    exact this.symm
  refine ⟨?_, hub, hok⟩
  unfold Sys.upComplete
  cases hu : s.upChunked
  · simp only [Bool.false_eq_true, ↓reduceIte]
    rw [(h.ok_bad hok).2]
    simp only [decide_eq_true_eq]
    rw [hub, h.put_len]
  · simp only [↓reduceIte]
    exact hl hu

end SquidModel.Relay.Request
