/-
C06 model: one direction of a CONNECT tunnel (src/tunnel.cc), as the strict alternation the code enforces:

  copyClientBytes/copyServerBytes: if pre-read bytes are pending they are taken first (≤ buffer size), else `copyRead`
  asserts `from.len == 0` and reads from the socket; `keepGoingAfterRead`: error ⇒ stop; zero-byte read ⇒ close the source and
  (the direction's buffer being empty) the sink; sink already gone ⇒ close the source, discard; otherwise `copy` writes all `len`
  bytes to the sink; `write*Done`: error ⇒ stop; else `dataSent(len)` and, if the other side is still open, read again.

State of a direction: the byte stream the source will produce (`src` = pre-read bytes followed by socket bytes), how many of
them were taken (`consumed`), the bytes handed to the pending write (`pending`), what the sink has received (`delivered`).
-/
import SquidModel.Base.Bytes

namespace SquidModel.Relay

structure Dir where
  src : Bytes
  consumed : Nat
  pending : Bytes
  delivered : Bytes
  srcOpen : Bool
  sinkOpen : Bool
  sawEof : Bool          -- the source's end of stream was read (after everything before it)
  lost : Bool            -- some taken bytes were discarded (sink gone / write error)
  deriving Repr, DecidableEq

def Dir.init (src : Bytes) : Dir := ⟨src, 0, [], [], true, true, false, false⟩

inductive Ev where
  | read (k : Nat)        -- a read (from the pre-read buffer or the socket) returning k > 0 bytes
  | writeDone             -- the pending write completed
  | writeError            -- the pending write failed (sink closed)
  | eof                   -- zero-byte read from the source
  | srcError              -- read error on the source
  | sinkClosed            -- the sink was closed by the other direction's processing
  deriving Repr, DecidableEq

/-- one event; events that the code cannot see in the current state are ignored (state unchanged) -/
def step (d : Dir) : Ev → Dir
  | .read k =>
    -- reads are issued only when nothing is pending and the source is open
    if d.pending.isEmpty ∧ d.srcOpen ∧ 0 < k ∧ d.consumed + k ≤ d.src.length then
      let chunk := (d.src.drop d.consumed).take k
      if d.sinkOpen then { d with consumed := d.consumed + k, pending := chunk }
      else { d with consumed := d.consumed + k, srcOpen := false, lost := true }   -- "closing from because to is gone"
    else d
  | .writeDone =>
    if d.pending.isEmpty then d
    else { d with delivered := d.delivered ++ d.pending, pending := [] }
  | .writeError =>
    if d.pending.isEmpty then d
    else { d with pending := [], sinkOpen := false, srcOpen := false, lost := true }
  | .eof =>
    if d.pending.isEmpty ∧ d.srcOpen ∧ d.consumed = d.src.length then
      { d with srcOpen := false, sinkOpen := false, sawEof := true }
    else d
  | .srcError => if d.pending.isEmpty then { d with srcOpen := false } else d
  | .sinkClosed =>
    if d.pending.isEmpty then { d with sinkOpen := false } else d   -- finishWritingAndDelete waits for a pending write

def run (d : Dir) (evs : List Ev) : Dir := evs.foldl step d

/-- invariant: nothing is ever invented or reordered; as long as nothing was discarded, delivered ++ pending is exactly what was taken -/
structure Inv (d : Dir) : Prop where
  le : d.consumed ≤ d.src.length
  pfx : (d.delivered ++ d.pending) <+: d.src.take d.consumed
  exact : d.lost = false → d.delivered ++ d.pending = d.src.take d.consumed
  lostClosed : d.lost = true → d.srcOpen = false
  eofClosed : d.sawEof = true → d.srcOpen = false ∧ d.consumed = d.src.length ∧ d.pending = []

end SquidModel.Relay
