/-
C01 model: the path of a response body through Squid, function by function.

  origin ──read──▶ HttpStateData (src/http.cc) ──write──▶ StoreEntry ──copy──▶ store_client / clientReplyContext
         (src/client_side_reply.cc) ──▶ Http::One::Server::handleReply (src/servers/Http1Server.cc) ──▶ Http::Stream
         (src/http/Stream.cc) ──▶ client socket

Server side (`Srv`, one forwarding attempt after the reply header was parsed):
  * `originFraming`   = HttpReply::expectingBody(method, size): HEAD/1xx/204/304 ⇒ no body; chunked ⇒ unknown size with
                        the chunked decoder; Content-Length ⇒ that size; else unknown size, ended by EOF.
  * `writeBody`       = HttpStateData::writeReplyBody() incl. truncateVirginBody(): octets beyond Content-Length are chopped
                        off and counted in payloadTruncated; the whole-ness marks "header-only reply", "Content-Length body
                        bytes", "body ending with expected EOF"; a premature EOF calls markPrematureReplyBodyEofFailure().
  * `decodeBody`      = HttpStateData::decodeAndWriteReplyBody() over the C24 decoder model (`Chunked.feed` = one parse()
                        call sequence on the unparsed rest plus the new octets): last-chunk ⇒ whole; exception ⇒ nothing of this
                        call is stored and serverComplete(); EOF before the last-chunk ⇒ premature.
  * `connDone`        = HttpStateData::persistentConnStatus() ≠ INCOMPLETE_MSG.
  * `finish`          = Client::serverComplete() → completeForwarding() → FwdState::complete()/completed():
                        StoreEntry::completeSuccessfully() iff the reply was marked whole, else completeTruncated()
                        (ENTRY_BAD_LENGTH). A read error takes the same route through FwdState::~FwdState().
  The store is an append-only octet list (`stored` = the body part of the entry, after hdr_sz).

Client side (`Cli`, one client of the entry, reading while the entry grows or after it completed = cache hit):
  * `clientFraming`   = the framing part of clientReplyContext::buildReplyHeader(): known body size ⇒ Content-Length kept;
                        else Transfer-Encoding: chunked iff the client speaks HTTP/1.1 (else close-delimited, no keep-alive).
  * `cliStep`         = one answer of store_client::copy() (at most HTTP_REQBUF_SZ octets, or a zero-length answer once the
                        entry is STORE_OK and everything was copied) pushed through clientReplyContext::sendMoreData()/
                        pushStreamData() to Http::One::Server::handleReply(): `mustSendLastChunk`, Http::Stream::sendBody()/
                        packChunk() (`%X CRLF data CRLF`; a zero-length buffer packs to the last-chunk `0 CRLF CRLF`).
  * `replyStatus`     = clientReplyContext::replyStatus() with checkTransferDone()/storeOKTransferDone()/
                        storeNotOKTransferDone() and ClientHttpRequest::gotEnough().
  * `socketState`     = Http::Stream::socketState(): the Content-Range branch for replies whose ranges Squid does not manage.
  * `afterWrite`      = Http::Stream::writeComplete(): pull again, finish (keep-alive or close), or initiateClose().

Source variants are parameters (`Params`), instantiated from Gen/RelayFlags.lean which the translator reads from the tree.
Not modelled: Comm scheduling and timeouts, delay pools, adaptation (ICAP/eCAP), ENTRY_ABORTED (client gone / store abort),
Range requests served by Squid itself (C15), 1xx control messages, reply_body_max_size, collapsed forwarding.
-/
import SquidModel.Chunked.Feed
import SquidModel.Gen.RelayFlags

namespace SquidModel.Relay.Response
open SquidModel SquidModel.Chunked

/-- source constants and variants the model depends on -/
structure Params where
  relaxed : Bool          -- relaxed_header_parser (affects only BWS inside chunk headers)
  cap : Nat               -- potential space of the MemBuf given to the chunked decoder
  reqBuf : Nat            -- HTTP_REQBUF_SZ
  dropExtras : Bool       -- truncateVirginBody() also chops octets following a bodyless reply
  crFramed : Bool         -- socketState() applies the Content-Range end test to chunked/Content-Length replies too
  deriving Repr

def Params.tree (relaxed : Bool) : Params :=
  ⟨relaxed, Gen.RelayFlags.memBufMax, Gen.RelayFlags.reqBufSz, Gen.RelayFlags.bodylessExtrasDropped, Gen.RelayFlags.contentRangeEndsFramed⟩

/-! ## server side -/

/-- result of `HttpReply::expectingBody(method, size)` -/
inductive OFr
  | none                 -- no body expected
  | chunked
  | cl (n : Nat)
  | close                -- body of unknown size, delimited by EOF
  deriving DecidableEq, Repr

/-- `HttpReply::expectingBody`, the bool -/
def expectsBody (isHead : Bool) (status : Nat) : Bool :=
  !(isHead || status == 204 || status == 304 || status < 200)

def originFraming (isHead : Bool) (status : Nat) (chunked : Bool) (cl : Option Nat) : OFr :=
  if expectsBody isHead status then
    if chunked then .chunked else match cl with | some n => .cl n | none => .close
  else .none

/-- how the StoreEntry was completed -/
inductive StoreEnd
  | ok            -- completeSuccessfully
  | badLength     -- completeTruncated: ENTRY_BAD_LENGTH
  deriving DecidableEq, Repr

structure Srv where
  fr : OFr
  te : Bool               -- flags.chunked: the reply goes through the chunked decoder
  input : List Bytes      -- ghost: what each processReplyBody() call found in inBuf, in order
  seen : Nat              -- payloadSeen
  truncated : Nat         -- payloadTruncated
  dec : Run               -- httpChunkDecoder and the unparsed rest of inBuf
  stored : Bytes          -- body octets written to the StoreEntry
  whole : Bool            -- markedParsedVirginReplyAsWhole
  failed : Bool           -- fwd->fail() was called (premature EOF, read error)
  eof : Bool
  fin : Option StoreEnd
  deriving Repr

def Srv.init (fr : OFr) (te : Bool) : Srv := ⟨fr, te, [], 0, 0, Run.init, [], false, false, false, none⟩

/-- `flags.chunked` as set by processReplyHeader(): the parsed header still has Transfer-Encoding (HttpHeader::parse() deletes
Content-Length and Transfer-Encoding of 1xx and 204 replies: `ProhibitsContentLength`); the fixed variant also wants a body to be expected -/
def serverTe (P : Params) (isHead : Bool) (status : Nat) (chunkedHdr : Bool) : Bool :=
  chunkedHdr && !(status == 204 || status < 200) && (expectsBody isHead status || !P.dropExtras)

inductive SEv
  | data (seg : Bytes)    -- Comm::OK read of seg (the first one is what followed the header in its read; may be empty)
  | eof                   -- Comm::ENDFILE
  | error                 -- read error
  deriving DecidableEq, Repr

/-- `Client::completeForwarding()` + `FwdState::completed()` -/
def finish (s : Srv) : Srv := { s with fin := some (if s.whole then .ok else .badLength) }

/-- `HttpStateData::writeReplyBody()` with `inBuf = seg` -/
def writeBody (P : Params) (s : Srv) (seg : Bytes) : Srv :=
  match s.fr with
  | .cl n =>
    let extras := s.seen - s.truncated - n                       -- truncateVirginBody()
    let trunc := s.truncated + extras
    let isWhole := decide (n = s.seen - trunc)                    -- "http parsed Content-Length body bytes"
    { s with truncated := trunc, stored := s.stored ++ seg.take (seg.length - extras),
             whole := s.whole || isWhole, failed := s.failed || (!isWhole && s.eof) }   -- else if (eof) markPrematureReplyBodyEofFailure()
  | .close =>                                                    -- "http parsed body ending with expected/required EOF"
    { s with stored := s.stored ++ seg, whole := s.whole || s.eof }
  | .none =>                                                     -- "http parsed header-only reply", after storing inBuf
    if P.dropExtras then { s with truncated := s.seen, whole := true }
    else { s with stored := s.stored ++ seg, whole := true }
  | .chunked => s                                                  -- unreachable: te is set for chunked replies

/-- `HttpStateData::decodeAndWriteReplyBody()` with `seg` appended to the unparsed rest -/
def decodeBody (P : Params) (s : Srv) (seg : Bytes) : Srv :=
  let d := feed P.relaxed (fun _ => P.cap) s.dec seg
  match d.verdict with
  | .reject _ => finish { s with dec := d }                       -- returned false: serverComplete()
  | .done => { s with dec := d, stored := d.out, whole := true }  -- lastChunk = 1
  | _ => { s with dec := d, stored := d.out, failed := s.failed || s.eof }   -- else if (eof) markPrematureReplyBodyEofFailure()

/-- `persistentConnStatus() != INCOMPLETE_MSG` -/
def connDone (s : Srv) : Bool :=
  s.eof || (s.te && s.dec.verdict == .done) ||
  match s.fr with
  | .chunked => false
  | .close => false
  | .cl n => !(n > 0 && s.seen < n)
  | .none => true

/-- `HttpStateData::processReplyBody()` -/
def processBody (P : Params) (s : Srv) (seg : Bytes) : Srv :=
  let s0 := { s with input := s.input ++ [seg] }
  let s1 := if s.te then decodeBody P s0 seg else writeBody P s0 seg
  if s1.fin.isSome then s1 else if connDone s1 then finish s1 else s1

def srvStep (P : Params) (s : Srv) (e : SEv) : Srv :=
  if s.fin.isSome then s else
  match e with
  | .data seg => processBody P { s with seen := s.seen + seg.length } seg
  | .eof => processBody P { s with eof := true } []
  | .error => finish { s with failed := true }

/-! ## client side -/

inductive CFr
  | none                 -- bodyless status: header only
  | cl (n : Nat)
  | chunked
  | close
  deriving DecidableEq, Repr

def clientFraming (http11 : Bool) : OFr → CFr
  | .none => .none
  | .cl n => .cl n
  | _ => if http11 then .chunked else .close

/-- `request->flags.proxyKeepalive` after buildReplyHeader(), default configuration -/
def clientKeepalive (persistent http11 : Bool) : OFr → Bool
  | .none => persistent
  | .cl _ => persistent
  | _ => persistent && http11

inductive CEnd
  | keep | close
  deriving DecidableEq, Repr

structure Cli where
  fr : CFr
  keepalive : Bool
  crLen : Option Nat      -- length of the reply's Content-Range spec when the request carries no range Squid manages
  headOnly : Bool         -- http->flags.done_copying: a HEAD request, no body is copied
  offset : Nat            -- http->out.offset
  pieces : List Bytes     -- the body buffers handed to sendBody()/sendStartOfMessage(), in order
  complete : Bool         -- clientReplyContext::flags.complete
  lastChunk : Bool        -- the zero-length buffer was packed too: the last-chunk was written
  ended : Option CEnd
  deriving Repr

def Cli.init (fr : CFr) (keepalive : Bool) (crLen : Option Nat) : Cli := ⟨fr, keepalive, crLen, false, 0, [], false, false, none⟩

/-- a HEAD transaction: `done_copying` and `flags.complete` are set when the header is sent; the header is the whole message -/
def Cli.initHead (keepalive : Bool) : Cli := ⟨.none, keepalive, none, true, 0, [], true, false, none⟩

def hexUpper (d : Nat) : UInt8 := if d < 10 then UInt8.ofNat (48 + d) else UInt8.ofNat (55 + d)

/-- digits of `%X`, most significant first, for a positive number -/
def hexDigitsAux : Nat → Nat → Bytes → Bytes
  | 0, _, acc => acc
  | f + 1, n, acc => if n = 0 then acc else hexDigitsAux f (n / 16) (hexUpper (n % 16) :: acc)

/-- `%X` -/
def hexDigits (n : Nat) : Bytes := if n = 0 then [48] else hexDigitsAux n n []

/-- `Http::Stream::packChunk` -/
def packChunk (p : Bytes) : Bytes := hexDigits p.length ++ [13, 10] ++ p ++ [13, 10]

/-- packChunk() of the zero-length buffer -/
def lastChunkBytes : Bytes := [48, 13, 10, 13, 10]

/-- the octets sendStartOfMessage()/sendBody() put on the socket for the buffers `pieces`: chunked replies pack every buffer
(and the zero-length one when `last`), the others are written as they are -/
def wireOf (fr : CFr) (pieces : List Bytes) (last : Bool) : Bytes :=
  if fr = .chunked then (pieces.map packChunk).flatten ++ (if last then lastChunkBytes else []) else pieces.flatten

/-- what was written to the client socket after the reply header -/
def Cli.wire (c : Cli) : Bytes := wireOf c.fr c.pieces c.lastChunk

inductive SStat
  | none | complete | unplanned | failed
  deriving DecidableEq, Repr

/-- `HttpReply::bodySize()` of the stored reply as the client side uses it: known sizes -/
def expectedSize : CFr → Option Nat
  | .none => some 0
  | .cl n => some n
  | _ => none

/-- `clientReplyContext::checkTransferDone()` -/
def transferDone (s : Srv) (c : Cli) : Bool :=
  if c.headOnly then true                                             -- http->flags.done_copying
  else if c.fr = .chunked && !c.complete then false
  else if s.fin.isSome then decide (c.offset ≥ s.stored.length)       -- storeOKTransferDone()
  else match c.fr with                                                -- storeNotOKTransferDone(): content_length
    | .cl n => decide (c.offset ≥ n)
    | _ => false

/-- `clientReplyContext::replyStatus()` -/
def replyStatus (s : Srv) (c : Cli) : SStat :=
  if transferDone s c || c.complete then
    if s.fin = some .badLength then .unplanned
    else if !transferDone s c then .failed
    else match expectedSize c.fr with
      | some n => if c.offset < n then .unplanned else .complete      -- !gotEnough()
      | none => .complete
  else .none

/-- whether the Content-Range end test of socketState() is consulted for this reply -/
def crApplies (P : Params) (c : Cli) : Bool := P.crFramed || c.fr = .close

/-- `Http::Stream::socketState()` -/
def socketState (P : Params) (s : Srv) (c : Cli) : SStat :=
  match replyStatus s c with
  | .none =>
    match c.crLen with
    | some e => if crApplies P c then (if c.offset = e then .complete else if c.offset > e then .unplanned else .none) else .none
    | none => .none
  | x => x

/-- `Http::Stream::writeComplete()` -/
def afterWrite (P : Params) (s : Srv) (c : Cli) : Cli :=
  match socketState P s c with
  | .none => c
  | .complete => { c with ended := some (if c.keepalive then .keep else .close) }
  | _ => { c with ended := some .close }

/-- one answer of the store to the client's pending copy(); `k` = how much of the available data it carries -/
def cliStep (P : Params) (s : Srv) (c : Cli) (k : Nat) : Cli :=
  if c.ended.isSome then c else
  if c.headOnly then afterWrite P s c else                        -- the header was written: writeComplete()
  let avail := s.stored.drop c.offset
  if avail ≠ [] then
    let p := avail.take (min (max k 1) (max P.reqBuf 1))
    afterWrite P s { c with offset := c.offset + p.length, pieces := c.pieces ++ [p] }   -- sendBody(): packChunk(p) or p itself
  else if s.fin.isNone then c                                    -- STORE_PENDING, nothing new: copy() stays pending
  else
    -- zero-length answer: pushStreamData() sets flags.complete; handleReply(nullptr, {}) decides about the last-chunk
    let c1 := { c with complete := true }
    if c.fr = .chunked && s.fin ≠ some .badLength then            -- mustSendLastChunk
      afterWrite P s { c1 with lastChunk := true }                  -- sendBody(empty): packChunk() writes `0 CRLF CRLF`
    else afterWrite P s c1

/-! ## the whole exchange -/

inductive Ev
  | srv (e : SEv)
  | pull (k : Nat)
  deriving Repr

structure Sys where
  s : Srv
  c : Cli
  deriving Repr

def step (P : Params) (x : Sys) : Ev → Sys
  | .srv e => { x with s := srvStep P x.s e }
  | .pull k => { x with c := cliStep P x.s x.c k }

def run (P : Params) (x : Sys) (evs : List Ev) : Sys := evs.foldl (step P) x

/-- what the origin's message means -/
def payload (s : Srv) : Bytes := s.input.flatten

/-- the body octets the client was given -/
def Cli.body (c : Cli) : Bytes := c.pieces.flatten

/-- the client-side message is complete by its own framing -/
def Cli.msgComplete (c : Cli) : Bool :=
  match c.fr with
  | .none => true
  | .cl n => decide (c.offset = n)
  | .chunked => c.lastChunk
  | .close => c.ended = some .close

end SquidModel.Relay.Response
