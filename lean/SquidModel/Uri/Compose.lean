/-
How `parse` reads a target that is *composed* from parts: `scheme "://" host [":" port] tail`, for host and port texts made of
"plain" octets (nothing that ends the host scan, no `@`, no `:`, host not starting with `[`).  These lemmas carry the
theorems about written ports and about re-parsing the canonical form.
-/
import SquidModel.Uri.Lemmas

namespace SquidModel.Uri
open SquidModel.Gen.UriParse

theorem takeWhile_append_of_all {α : Type} (p : α → Bool) : ∀ (a t : List α), (∀ x ∈ a, p x = true) →
    (a ++ t).takeWhile p = a ++ t.takeWhile p
  | [], t, _ => rfl
  | x :: a, t, h => by
    have hx : p x = true := h x List.mem_cons_self
    simp only [List.cons_append, List.takeWhile_cons, hx, ↓reduceIte]
    rw [takeWhile_append_of_all p a t (fun y hy => h y (List.mem_cons_of_mem _ hy))]

theorem dropWhile_append_of_all {α : Type} (p : α → Bool) : ∀ (a t : List α), (∀ x ∈ a, p x = true) →
    (a ++ t).dropWhile p = t.dropWhile p
  | [], t, _ => rfl
  | x :: a, t, h => by
    have hx : p x = true := h x List.mem_cons_self
    simp only [List.cons_append, List.dropWhile_cons, hx, ↓reduceIte]
    exact dropWhile_append_of_all p a t (fun y hy => h y (List.mem_cons_of_mem _ hy))

/-- an octet that neither ends the host scan nor separates authority components -/
def plainOctet (c : UInt8) : Bool := c != 0 && !isHostDelim c && c != 64 && c != 58

/-- what follows the authority: nothing, or something that ends the host scan -/
def TailOk : Bytes → Prop
  | [] => True
  | c :: _ => c = 0 ∨ isHostDelim c = true

theorem plainOctet_spec {c : UInt8} (h : plainOctet c = true) : c ≠ 0 ∧ isHostDelim c = false ∧ c ≠ 64 ∧ c ≠ 58 := by
  simp only [plainOctet, Bool.and_eq_true, bne_iff_ne, ne_eq, Bool.not_eq_true'] at h
  exact ⟨h.1.1.1, h.1.1.2, h.1.2, h.2⟩

/-- the first stage of the two scans: up to the end of the C string -/
theorem cstr_compose (a t : Bytes) (ha : ∀ c ∈ a, c ≠ 0 ∧ isHostDelim c = false) :
    (a ++ t).takeWhile (· ≠ 0) = a ++ t.takeWhile (· ≠ 0) :=
  takeWhile_append_of_all _ a t (fun c hc => by simpa using (ha c hc).1)

theorem tail_cstr_head {t : Bytes} (ht : TailOk t) :
    t.takeWhile (· ≠ 0) = [] ∨ ∃ d r, t.takeWhile (· ≠ 0) = d :: r ∧ isHostDelim d = true := by
  cases t with
  | nil => exact Or.inl rfl
  | cons c t' =>
    by_cases hc : c = 0
    · subst hc; exact Or.inl (by simp)
    · rcases ht with h0 | hd
      · exact absurd h0 hc
      · exact Or.inr ⟨c, t'.takeWhile (· ≠ 0), by simp [hc], hd⟩

theorem hostScan_compose (a t : Bytes) (ha : ∀ c ∈ a, c ≠ 0 ∧ isHostDelim c = false) (ht : TailOk t) : hostScan (a ++ t) = a := by
  unfold hostScan
  rw [cstr_compose a t ha]
  have hall : ∀ c ∈ a, (fun c => !isHostDelim c) c = true := fun c hc => by simp [(ha c hc).2]
  rcases tail_cstr_head ht with h0 | ⟨d, r, hdr, hd⟩
  · rw [h0, List.append_nil]; exact takeWhile_all _ a hall
  · rw [hdr]; exact takeWhile_append_stop _ a d r hall (by simp [hd])

theorem afterHost_compose (a t : Bytes) (ha : ∀ c ∈ a, c ≠ 0 ∧ isHostDelim c = false) (ht : TailOk t) :
    afterHost (a ++ t) = t.takeWhile (· ≠ 0) := by
  unfold afterHost
  rw [cstr_compose a t ha]
  have hall : ∀ c ∈ a, (fun c => !isHostDelim c) c = true := fun c hc => by simp [(ha c hc).2]
  rcases tail_cstr_head ht with h0 | ⟨d, r, hdr, hd⟩
  · rw [h0, List.append_nil]; exact dropWhile_all _ a hall
  · rw [hdr]; exact dropWhile_append_stop _ a d r hall (by simp [hd])

theorem loginSplit_plain (a : Bytes) (ha : ∀ c ∈ a, c ≠ 64) : loginSplit a = ([], a) := by
  unfold loginSplit splitLast
  have hn : ¬ (64 : UInt8) ∈ a := fun h => ha 64 h rfl
  simp [hn]

theorem count_colon_zero (a : Bytes) (ha : ∀ c ∈ a, c ≠ 58) : a.count 58 = 0 := by
  rw [List.count_eq_zero]
  intro h; exact ha 58 h rfl

theorem splitHostPort_port (h pt : Bytes) (hne : h ≠ []) (hb : h.head? ≠ some 91)
    (hh : ∀ c ∈ h, c ≠ 58) (hp : ∀ c ∈ pt, c ≠ 58) : splitHostPort (h ++ 58 :: pt) = ⟨h, some pt⟩ := by
  cases h with
  | nil => exact absurd rfl hne
  | cons c body =>
    have hc : c ≠ 91 := by simpa using hb
    have hcount : ((c :: body) ++ 58 :: pt).count 58 = 1 := by
      rw [List.count_append, count_colon_zero _ hh, List.count_cons_self, count_colon_zero _ hp]
    have hall : ∀ x ∈ c :: body, (fun x => decide (x ≠ 58)) x = true := fun x hx => by simpa using hh x hx
    have htake : ((c :: body) ++ 58 :: pt).takeWhile (fun x => decide (x ≠ 58)) = c :: body :=
      takeWhile_append_stop _ _ 58 pt hall (by simp)
    have hdrop : ((c :: body) ++ 58 :: pt).dropWhile (fun x => decide (x ≠ 58)) = 58 :: pt :=
      dropWhile_append_stop _ _ 58 pt hall (by simp)
    show splitHostPort (c :: (body ++ 58 :: pt)) = _
    unfold splitHostPort
    simp only [hc, ↓reduceIte]
    rw [show c :: (body ++ 58 :: pt) = (c :: body) ++ 58 :: pt from rfl, hcount, htake, hdrop]
    simp

theorem splitHostPort_noport (h : Bytes) (hb : h.head? ≠ some 91) (hh : ∀ c ∈ h, c ≠ 58) :
    splitHostPort h = ⟨h, none⟩ := by
  cases h with
  | nil => rfl
  | cons c body =>
    have hc : c ≠ 91 := by simpa using hb
    unfold splitHostPort
    simp only [hc, ↓reduceIte, count_colon_zero _ hh]
    simp

theorem bufAtCheck_plain (fh : Bytes) (hb : fh.head? ≠ some 91) : bufAtCheck fh = fh := by
  unfold bufAtCheck; simp [hb]

/-- a host text: not empty, plain octets, not starting with `[` -/
def PlainHost (h : Bytes) : Prop := h ≠ [] ∧ h.head? ≠ some 91 ∧ ∀ c ∈ h, plainOctet c = true

/-- `parseHier` on `host ":" port tail` -/
theorem parseHier_compose_port (cfg : Config) (ip : Bytes → IpClass) (proto : Nat) (image h pt tail : Bytes)
    (hh : PlainHost h) (hp : ∀ c ∈ pt, plainOctet c = true) (ht : TailOk tail) :
    parseHier cfg ip proto image (h ++ 58 :: pt ++ tail) =
      (match convertPort pt with
       | .ok p => finish cfg ip proto image [] h p (urlPath (h ++ 58 :: pt ++ tail))
       | .error e => if e = "unmodelled" then .unmodelled "port-conversion" else .reject e) := by
  rcases hh with ⟨hne, hb, hall⟩
  have hcolon : plainOctet 58 = false := by decide
  have hauth : ∀ c ∈ h ++ 58 :: pt, c ≠ 0 ∧ isHostDelim c = false ∧ c ≠ 64 := by
    intro c hc
    rcases List.mem_append.mp hc with h1 | h1
    · have := plainOctet_spec (hall c h1); exact ⟨this.1, this.2.1, this.2.2.1⟩
    · rcases List.mem_cons.mp h1 with rfl | h2
      · exact ⟨by decide, by decide, by decide⟩
      · have := plainOctet_spec (hp c h2); exact ⟨this.1, this.2.1, this.2.2.1⟩
  -- the host scan sees exactly `h:pt`
  have hscan : hostScan (h ++ 58 :: pt ++ tail) = h ++ 58 :: pt := by
    unfold hostScan
    have h0 : ∀ c ∈ h ++ 58 :: pt, (fun c : UInt8 => decide (c ≠ 0)) c = true := fun c hc => by simpa using (hauth c hc).1
    rw [takeWhile_append_of_all _ _ tail h0]
    have hd : ∀ c ∈ h ++ 58 :: pt, (fun c => !isHostDelim c) c = true := fun c hc => by simp [(hauth c hc).2.1]
    rcases tail_cstr_head ht with ht0 | ⟨d, r, hdr, hdd⟩
    · rw [ht0, List.append_nil]; exact takeWhile_all _ _ hd
    · rw [hdr]; exact takeWhile_append_stop _ _ d r hd (by simp [hdd])
  unfold parseHier
  rw [hscan, loginSplit_plain _ (fun c hc => (hauth c hc).2.2)]
  simp only
  have hsplit := splitHostPort_port h pt hne hb (fun c hc => (plainOctet_spec (hall c hc)).2.2.2)
    (fun c hc => (plainOctet_spec (hp c hc)).2.2.2)
  have hb' : (h ++ 58 :: pt).head? ≠ some 91 := by
    cases h with
    | nil => exact absurd rfl hne
    | cons c body => simpa using hb
  unfold hierAfter
  rw [bufAtCheck_plain _ hb', hsplit]
  have hnonempty : (h ++ 58 :: pt).isEmpty = false := by simp
  simp only [hnonempty, Bool.false_eq_true, ↓reduceIte]
  cases convertPort pt <;> rfl

/-- `parseHier` on `host tail` (no port written) -/
theorem parseHier_compose_noport (cfg : Config) (ip : Bytes → IpClass) (proto : Nat) (image h tail : Bytes)
    (hh : PlainHost h) (ht : TailOk tail) :
    parseHier cfg ip proto image (h ++ tail) =
      finish cfg ip proto image [] h (((defaultPort proto).getD 0 : Nat) : Int) (urlPath (h ++ tail)) := by
  rcases hh with ⟨hne, hb, hall⟩
  unfold parseHier
  rw [hostScan_compose h tail (fun c hc => ⟨(plainOctet_spec (hall c hc)).1, (plainOctet_spec (hall c hc)).2.1⟩) ht, loginSplit_plain _ (fun c hc => (plainOctet_spec (hall c hc)).2.2.1)]
  simp only
  unfold hierAfter
  rw [bufAtCheck_plain _ hb, splitHostPort_noport h hb (fun c hc => (plainOctet_spec (hall c hc)).2.2.2)]
  have hnonempty : h.isEmpty = false := by
    cases h with
    | nil => exact absurd rfl hne
    | cons c body => rfl
  simp only [hnonempty, Bool.false_eq_true, ↓reduceIte]

/-- from `parse` to `parseHier`, given what `uriParseScheme` answers -/
theorem parse_hier (cfg : Config) (ip : Bytes → IpClass) (m : Method) (url b image : Bytes) (proto : Nat)
    (hlen : url.length + cfg.appendDomain.length ≤ MAX_URL - 1) (hm : m ≠ .connect) (hstar : url ≠ [42])
    (hs : parseScheme url = some (proto, image, 47 :: 47 :: b)) (hnone : proto ≠ PROTO_NONE) (hurn : proto ≠ PROTO_URN) :
    parse cfg ip m url = parseHier cfg ip proto image b := by
  unfold parse
  have h1 : ¬ (url.length + cfg.appendDomain.length > MAX_URL - 1) := by omega
  simp only [h1, ↓reduceIte, hstar, and_false, hm, hs, hnone, hurn, and_self]

end SquidModel.Uri
