/-
Model of `AnyP::Uri::parse(method, rawUrl)` (src/anyp/Uri.cc) with `uriParseScheme`, `parseUrn`, `parseHost`, `parsePort`,
`urlAppendDomain`, the setters `host()`/`path()`/`port()` and `AnyP::UriScheme::FindProtocolType/defaultPort/image`
(src/anyp/UriScheme.cc), following the C++ statement by statement.  The static C buffers (`foundHost`, `login`, `urlpath`)
are modelled by the strings they hold; every place where the C code reads a buffer position after moving data in place is
commented with the argument why the string-level reading is the same.

Parameters: the configuration (`check_hostnames`, `allow_underscore`, `uri_whitespace`, `append_domain`) and the
classification `ip : Bytes → IpClass` of `Ip::Address::fromHost` (libc `getaddrinfo(AI_NUMERICHOST)`; see `Uri/Ip.lean`).
-/
import SquidModel.Gen.UriParse
import SquidModel.Pct.Rfc1738
import SquidModel.Uri.Ip

namespace SquidModel.Uri
open SquidModel.Gen.UriParse

/-! ### small C library pieces -/

def isDigit (c : UInt8) : Bool := 48 ≤ c.toNat && c.toNat ≤ 57

/-- value of a string of decimal digits -/
def digitsValue (ds : Bytes) : Nat := ds.foldl (fun a c => a * 10 + (c.toNat - 48)) 0

/-- `xtolower` -/
def lower (b : UInt8) : UInt8 := lowerTable.getD b.toNat b

/-- two's-complement value of the low `bits` bits -/
def wrapSigned (bits : Nat) (x : Int) : Int :=
  let r := x % ((2 : Int) ^ bits)
  if r < (2 : Int) ^ (bits - 1) then r else r - (2 : Int) ^ bits

/-- `strtol` saturation -/
def strtolSat (bits : Nat) (neg : Bool) (v : Nat) : Int :=
  if neg then (if (v : Int) > (2 : Int) ^ (bits - 1) then -((2 : Int) ^ (bits - 1)) else -(v : Int))
  else (if (v : Int) ≥ (2 : Int) ^ (bits - 1) then (2 : Int) ^ (bits - 1) - 1 else (v : Int))

/-- sign and digits as `strtol(s, NULL, 10)` reads them -/
def atoiLex (s : Bytes) : Bool × Bytes :=
  let s1 := s.dropWhile XSPACE.mem
  match s1 with
  | c :: r => if c = 45 then (true, r.takeWhile isDigit) else if c = 43 then (false, r.takeWhile isDigit) else (false, s1.takeWhile isDigit)
  | [] => (false, [])

/-- glibc `atoi(s)` = `(int) strtol(s, NULL, 10)`: leading white space, optional sign, digits; `long` saturation, then
truncation to `int` (what the C standard leaves undefined for out-of-range values is what glibc does) -/
def atoi (s : Bytes) : Int :=
  let (neg, ds) := atoiLex s
  wrapSigned INT_BITS (strtolSat LONG_BITS neg (digitsValue ds))

/-! ### schemes (`AnyP::UriScheme`) -/

def protoOf (id : Nat) : Option Proto := protos.find? fun p => p.id == id

/-- `UriScheme::defaultPort()` -/
def defaultPort (id : Nat) : Option Nat := (protoOf id).bind (·.defaultPort)

/-- `LowercaseSchemeNames_.at(id)` -/
def imageOf (id : Nat) : Bytes := ((protoOf id).map (·.image)).getD []

def protoName (id : Nat) : String := ((protoOf id).map (·.name)).getD "?"

/-- `UriScheme::FindProtocolType(scheme)` for a non-empty scheme -/
def findProtocolType (scheme : Bytes) : Nat :=
  match protos.find? (fun p => p.findable && p.image == scheme.map lower) with
  | some p => p.id
  | none => PROTO_UNKNOWN

/-- `uriParseScheme(tok)`: protocol id, image, rest of the input; `none` = "invalid URI scheme" -/
def parseScheme (url : Bytes) : Option (Nat × Bytes × Bytes) :=
  let str := (url.take 16).takeWhile SCHEME.mem            -- tok.prefix(str, schemeChars, 16)
  match str with
  | [] => none
  | c0 :: _ =>
    match url.drop str.length with
    | d :: rest =>
      if d = 58 ∧ SCHEME_FIRST.mem c0 then                  -- tok.skip(':') && ALPHA[str.at(0)]
        let p := findProtocolType str
        if p = PROTO_UNKNOWN then some (p, str, rest) else some (p, imageOf p, rest)
      else none
    | [] => none

/-! ### results -/

structure Config where
  checkHostnames : Bool
  allowUnderscore : Bool
  uriWhitespace : Nat          -- URI_WHITESPACE_STRIP 0, ALLOW 1, ENCODE 2, CHOP 3, DENY 4
  appendDomain : Bytes         -- [] = not configured
  deriving DecidableEq, Repr

/-- the fields `parse()` sets -/
structure Parsed where
  proto : Nat
  image : Bytes
  userInfo : Bytes
  host : Bytes
  numeric : Bool
  port : Option Nat
  path : Bytes                 -- `path_`
  deriving DecidableEq, Repr

inductive Outcome where
  | reject (cls : String)
  | ok (r : Parsed)
  | unmodelled (why : String)
  deriving DecidableEq, Repr

inductive Method where
  | connect | star | other     -- CONNECT; OPTIONS or TRACE; anything else
  deriving DecidableEq, Repr

/-- `AnyP::Uri::path()` -/
def pathOut (r : Parsed) : Bytes :=
  if r.path.isEmpty ∧ (r.proto = PROTO_HTTP ∨ r.proto = PROTO_HTTPS) then [47] else r.path

/-- `AnyP::Uri::host(src)`: host text and `hostIsNumeric_`; `none` = outside the IP model -/
def setHost (ip : Bytes → IpClass) (src : Bytes) : Option (Bytes × Bool) :=
  match ip src with
  | .addr t => some (t, true)
  | .unknown => none
  | _ => some (src.take (SQUIDHOSTNAMELEN - 1), false)      -- xstrncpy(host_, src, sizeof(host_))

/-! ### `parsePort` / `parseHost` (CONNECT; with portMode = 1 also the other methods) -/

def i64Max : Nat := 9223372036854775807

/-- `parsePort(tok)`: the port and the rest of the input -/
def parsePortTok (s : Bytes) : Except String (Nat × Bytes) :=
  match s with
  | c :: _ =>
    if c = 48 then .error "port-zero"                       -- tok.skip('0')
    else
      let ds := s.takeWhile isDigit
      if ds.isEmpty ∨ digitsValue ds > i64Max then .error "port-syntax"   -- !tok.int64(rawPort, 10, false)
      else if digitsValue ds > 65535 then .error "port-huge"
      else .ok (digitsValue ds, s.dropWhile isDigit)
  | [] => .error "port-syntax"

/-- `parseHost(tok)` -/
def parseHostTok (ip : Bytes → IpClass) (s : Bytes) : Except String (Bytes × Bytes) :=
  match s with
  | c :: r =>
    if c = 91 then                                          -- tok.skip('[')
      let v := r.takeWhile IPV6CHARS.mem
      if v.isEmpty then .error "host-bracket-chars"
      else
        match r.dropWhile IPV6CHARS.mem with
        | d :: r2 =>
          if d ≠ 93 then .error "host-bracket-open"
          else if !v.contains 58 then .error "host-bracket-nocolon"
          else if ip v = .notIp then .error "host-bracket-ip"      -- !ipv6check.fromHost(ipv6ish.c_str())
          else .ok (v, r2)
        | [] => .error "host-bracket-open"
    else
      let v := s.takeWhile REGNAME.mem
      if v.isEmpty then .error "host-empty" else .ok (v, s.dropWhile REGNAME.mem)
  | [] => .error "host-empty"

/-! ### the part of `parse()` after the method-specific splitting -/

/-- `while ((l = strlen(foundHost)) > 0 && foundHost[--l] == '.') foundHost[l] = '\0';` -/
def stripTrailingDots (h : Bytes) : Bytes := (h.reverse.dropWhile (· = 46)).reverse

/-- `strstr(foundHost, "..")` -/
def hasDotDot : Bytes → Bool
  | a :: b :: r => (a = 46 && b = 46) || hasDotDot (b :: r)
  | _ => false

/-- `urlAppendDomain(host)`; `none` = does not fit -/
def appendDomain (cfg : Config) (h : Bytes) : Option Bytes :=
  if !cfg.appendDomain.isEmpty ∧ !h.contains 46 ∧ !h.contains 58 then
    if h.length + cfg.appendDomain.length > SQUIDHOSTNAMELEN - 1 then none else some (h ++ cfg.appendDomain)
  else some h

/-- the `stringHasWhitespace(urlpath)` switch -/
def pathWhitespace (cfg : Config) (p : Bytes) : Option Bytes :=
  if p.any WSPACE.mem then
    if cfg.uriWhitespace = 4 then none                                                  -- URI_WHITESPACE_DENY
    else if cfg.uriWhitespace = 1 then some p                                           -- ALLOW
    else if cfg.uriWhitespace = 2 then some ((Pct.Rfc1738.escape Gen.Rfc1738.UNESCAPED p).take (MAX_URL - 1))   -- ENCODE; xstrncpy
    else if cfg.uriWhitespace = 3 then some (p.takeWhile fun c => !WSPACE.mem c)        -- CHOP: strcspn(urlpath, w_space)
    else some (p.filter fun c => !XSPACE.mem c)                                         -- STRIP (and default)
  else some p

/-- `for (t = foundHost; *t; ++t) *t = xtolower(*t);` and the `stringHasWhitespace(foundHost)` block -/
def lowerStrip (cfg : Config) (foundHost : Bytes) : Bytes :=
  if (foundHost.map lower).any WSPACE.mem ∧ cfg.uriWhitespace = 0 then (foundHost.map lower).filter (fun c => !XSPACE.mem c)
  else foundHost.map lower

/-- `Config.onoff.allow_underscore ? valid_hostname_chars_u : valid_hostname_chars` -/
def hostnameSet (cfg : Config) : CharSet := if cfg.allowUnderscore then HOSTNAME_U else HOSTNAME

/-- from `for (t = foundHost; *t; ++t) *t = xtolower(*t);` to the end of `parse()` -/
def finish (cfg : Config) (ip : Bytes → IpClass) (proto : Nat) (image login foundHost : Bytes) (foundPort : Int)
    (urlpath : Bytes) : Outcome :=
  let h2 := lowerStrip cfg foundHost
  if cfg.checkHostnames ∧ !h2.all (hostnameSet cfg).mem then .reject "host-chars"
  else
    match appendDomain cfg h2 with
    | none => .reject "append-domain"
    | some h3 =>
      let h4 := stripTrailingDots h3
      if hasDotDot h4 ∨ h4.head? = some 46 then .reject "host-dots"
      else if foundPort < 1 ∨ foundPort > 65535 then .reject "port-range"
      else
        match pathWhitespace cfg urlpath with
        | none => .reject "whitespace-denied"
        | some p =>
          match setHost ip h4 with
          | none => .unmodelled "scope-id"
          | some (h, num) =>
            .ok { proto := proto, image := image, userInfo := login, host := h, numeric := num,
                  port := some foundPort.toNat, path := p }

/-! ### CONNECT -/

def parseConnect (cfg : Config) (ip : Bytes → IpClass) (url : Bytes) : Outcome :=
  match parseHostTok ip url with
  | .error c => .reject c
  | .ok (rawHost, rest) =>
    match rest with
    | c :: r2 =>
      if c ≠ 58 then .reject "connect-no-port"
      else
        match parsePortTok r2 with
        | .error e => .reject e
        | .ok (p, r3) =>
          if !r3.isEmpty then .reject "connect-garbage"
          else finish cfg ip PROTO_NONE [] [] rawHost (p : Int) []
    | [] => .reject "connect-no-port"

/-! ### urn: -/

def parseUrn (ip : Bytes → IpClass) (s : Bytes) : Outcome :=
  let nid := (s.take 32).takeWhile NIDCHARS.mem                       -- tok.prefix(nid, nidChars, 32)
  if nid.isEmpty then .reject "urn-nid"
  else
    match s.drop nid.length with
    | c :: nss =>
      if c ≠ 58 then .reject "urn-delimiter"
      else if nid.length < 2 then .reject "urn-short"
      else if !(nid.head?.map ALNUM.mem).getD false then .reject "urn-prefix"
      else if !(nid.getLast?.map ALNUM.mem).getD false then .reject "urn-suffix"
      else
        match setHost ip nid with
        | none => .unmodelled "scope-id"
        | some (h, num) =>
          .ok { proto := PROTO_URN, image := imageOf PROTO_URN, userInfo := [], host := h, numeric := num, port := none, path := nss }
    | [] => .reject "urn-delimiter"

/-! ### scheme://authority/path -/

/-- end of the host scan: `'/'`, `'?'`, `'#'`, NUL (never present here) or `xisspace` -/
def isHostDelim (c : UInt8) : Bool := c = 47 || c = 63 || c = 35 || XSPACE.mem c

/-- `strrchr(s, c)`: the text before and after the last `c` -/
def splitLast (c : UInt8) (s : Bytes) : Option (Bytes × Bytes) :=
  if s.contains c then
    let after := (s.reverse.takeWhile (· ≠ c)).reverse
    some (s.take (s.length - after.length - 1), after)
  else none

/-- host text and port text (the text after the `:` that `t` ends up pointing to) of the `foundHost` buffer -/
structure HostPort where
  host : Bytes
  portText : Option Bytes
  deriving DecidableEq, Repr

/-- the bracket-stripping block and the `strrchr(foundHost, ':')` block.
Bracket case, in the C buffer `[` b₀ b₁ … : the loop copies `inner` = the octets before the first `]` one position down and
writes NUL after them; `++dst` then points at the original position of the `]` (or of the original terminator when there is
no `]`), whose content is untouched, so the scan for `:` runs over the original text after `inner`. -/
def splitHostPort (fh : Bytes) : HostPort :=
  match fh with
  | c :: body =>
    if c = 91 then
      let inner := body.takeWhile (· ≠ 93)
      let tail := ((body.dropWhile (· ≠ 93)).drop 1).dropWhile (· ≠ 58)
      ⟨inner, match tail with | _ :: p => some p | [] => none⟩
    else if fh.count 58 = 1 then                                      -- strrchr == strchr, both non-null
      ⟨fh.takeWhile (· ≠ 58), some ((fh.dropWhile (· ≠ 58)).drop 1)⟩
    else ⟨fh, none⟩
  | [] => ⟨[], none⟩

/-- port conversion of the non-CONNECT branch, as the staged source does it (`Gen.UriParse.portMode`) -/
def convertPort (t : Bytes) : Except String Int :=
  if portMode = 0 then .ok (atoi t)
  else if portMode = 1 then
    match parsePortTok t with
    | .error e => .error e
    | .ok (p, rest) => if rest.isEmpty then .ok (p : Int) else .error "port-garbage"
  else .error "unmodelled"

/-- the host scan: up to `'/'`, `'?'`, `'#'`, white space or the end of the C string `url = B.c_str()` -/
def hostScan (b : Bytes) : Bytes := (b.takeWhile (· ≠ 0)).takeWhile fun c => !isHostDelim c

/-- what the host scan leaves -/
def afterHost (b : Bytes) : Bytes := (b.takeWhile (· ≠ 0)).dropWhile fun c => !isHostDelim c

/-- `urlpath`: everything up to CR, LF or the end of the C string, with `/` put in front when it does not start with one -/
def urlPath (b : Bytes) : Bytes :=
  if (afterHost b).head? = some 47 then (afterHost b).takeWhile fun c => c ≠ 13 ∧ c ≠ 10
  else 47 :: (afterHost b).takeWhile fun c => c ≠ 13 ∧ c ≠ 10

/-- the `strrchr(foundHost, '@')` block: (login, foundHost) -/
def loginSplit (hostRaw : Bytes) : Bytes × Bytes :=
  match splitLast 64 hostRaw with
  | some (l, h) => (Pct.Rfc1738.unescape l, h)                        -- rfc1738_unescape(login)
  | none => ([], hostRaw)

/-- the `foundHost` buffer at the Bug 3183 sanity check: brackets already stripped, port not yet cut off -/
def bufAtCheck (fh : Bytes) : Bytes := if fh.head? = some 91 then (splitHostPort fh).host else fh

/-- from the bracket block to the end of `parse()` -/
def hierAfter (cfg : Config) (ip : Bytes → IpClass) (proto : Nat) (image login fh urlpath : Bytes) : Outcome :=
  if (bufAtCheck fh).isEmpty then .reject "no-host"
  else
    match (splitHostPort fh).portText with
    | none => finish cfg ip proto image login (splitHostPort fh).host (((defaultPort proto).getD 0 : Nat) : Int) urlpath
    | some t =>
      match convertPort t with
      | .ok p => finish cfg ip proto image login (splitHostPort fh).host p urlpath
      | .error e => if e = "unmodelled" then .unmodelled "port-conversion" else .reject e

def parseHier (cfg : Config) (ip : Bytes → IpClass) (proto : Nat) (image b : Bytes) : Outcome :=
  hierAfter cfg ip proto image (loginSplit (hostScan b)).1 (loginSplit (hostScan b)).2 (urlPath b)

/-- `AnyP::Uri::parse(method, rawUrl)` on a freshly constructed `AnyP::Uri` -/
def parse (cfg : Config) (ip : Bytes → IpClass) (m : Method) (url : Bytes) : Outcome :=
  if url.length + cfg.appendDomain.length > MAX_URL - 1 then .reject "too-large"
  else if m = .star ∧ url = [42] then
    .ok { proto := PROTO_HTTP, image := imageOf PROTO_HTTP, userInfo := [], host := [], numeric := false,
          port := defaultPort PROTO_HTTP, path := [42] }
  else if m = .connect then parseConnect cfg ip url
  else
    match parseScheme url with
    | none => .reject "scheme"
    | some (proto, image, rest) =>
      if proto = PROTO_NONE then .reject "no-double-slash"             -- `return false; // invalid scheme`
      else if proto = PROTO_URN then parseUrn ip rest
      else
        match rest with
        | a :: b :: r => if a = 47 ∧ b = 47 then parseHier cfg ip proto image r else .reject "no-double-slash"
        | _ => .reject "no-double-slash"

end SquidModel.Uri
