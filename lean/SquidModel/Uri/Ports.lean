/-
Lemmas about the two port conversions (`atoi`, `parsePort`) and about `uriParseScheme` on a scheme text, used by the theorems
on composed URIs.
-/
import SquidModel.Uri.Compose

namespace SquidModel.Uri
open SquidModel.Gen.UriParse

theorem digit_facts : ∀ c : UInt8, (!isDigit c || (!XSPACE.mem c && c != 45 && c != 43 && plainOctet c)) = true :=
  forall_octet _ (by decide +kernel)

theorem digit_plain {c : UInt8} (h : isDigit c = true) : plainOctet c = true := by
  have := digit_facts c; simp [h] at this; exact this.2

/-- `atoi` on a string of digits whose value fits an `int` is that value -/
theorem atoi_digits (ds : Bytes) (hd : ∀ c ∈ ds, isDigit c = true) (hv : digitsValue ds < 2147483648) :
    atoi ds = (digitsValue ds : Int) := by
  have hlex : atoiLex ds = (false, ds) := by
    unfold atoiLex
    cases ds with
    | nil => rfl
    | cons c r =>
      have hc := hd c List.mem_cons_self
      have hf := digit_facts c
      simp only [hc, Bool.not_true, Bool.false_or, Bool.and_eq_true, Bool.not_eq_true', bne_iff_ne, ne_eq] at hf
      have hdrop : (c :: r).dropWhile XSPACE.mem = c :: r := by simp [List.dropWhile_cons, hf.1.1.1]
      simp only [hdrop, hf.1.1.2, hf.1.2, ↓reduceIte]
      rw [takeWhile_all isDigit (c :: r) hd]
  unfold atoi
  rw [hlex]
  simp only [strtolSat, wrapSigned, INT_BITS, LONG_BITS, Bool.false_eq_true, ↓reduceIte]
  have h1 : ¬ ((digitsValue ds : Int) ≥ (2 : Int) ^ (64 - 1)) := by
    have : ((2 : Int) ^ (64 - 1)) = 9223372036854775808 := by decide
    rw [this]; omega
  simp only [h1, ↓reduceIte]
  have h2 : ((digitsValue ds : Int)) % (2 : Int) ^ 32 = (digitsValue ds : Int) := by
    have : ((2 : Int) ^ 32) = 4294967296 := by decide
    rw [this]; omega
  rw [h2]
  have h3 : (digitsValue ds : Int) < (2 : Int) ^ (32 - 1) := by
    have : ((2 : Int) ^ (32 - 1)) = 2147483648 := by decide
    rw [this]; omega
  simp only [h3, ↓reduceIte]

/-- `uriParseScheme` on `scheme ":" x` for a scheme text of at most 16 scheme characters starting with a letter -/
def SchemeText (s : Bytes) : Prop :=
  s ≠ [] ∧ s.length ≤ 16 ∧ (∀ c ∈ s, SCHEME.mem c = true) ∧ (s.head?.map SCHEME_FIRST.mem) = some true

theorem parseScheme_text (scheme x : Bytes) (hs : SchemeText scheme) :
    parseScheme (scheme ++ 58 :: x) =
      some (if findProtocolType scheme = PROTO_UNKNOWN then (PROTO_UNKNOWN, scheme, x)
            else (findProtocolType scheme, imageOf (findProtocolType scheme), x)) := by
  rcases hs with ⟨hne, hlen, hall, hfirst⟩
  have hcolon : SCHEME.mem 58 = false := by decide
  have hstr : ((scheme ++ 58 :: x).take 16).takeWhile SCHEME.mem = scheme := by
    rw [List.take_append]
    cases hk : 16 - scheme.length with
    | zero =>
      have : List.take 16 scheme = scheme := List.take_of_length_le hlen
      rw [this]; simp only [List.take_zero, List.append_nil]
      exact takeWhile_all _ _ hall
    | succ k =>
      have : List.take 16 scheme = scheme := List.take_of_length_le hlen
      rw [this, List.take_succ_cons]
      exact takeWhile_append_stop _ _ _ _ hall hcolon
  unfold parseScheme
  simp only [hstr]
  cases scheme with
  | nil => exact absurd rfl hne
  | cons c0 rest =>
    have hdrop : ((c0 :: rest) ++ 58 :: x).drop (c0 :: rest).length = 58 :: x := List.drop_left
    have hf : SCHEME_FIRST.mem c0 = true := by simpa using hfirst
    simp only [hdrop, hf, and_self, ↓reduceIte]
    split <;> simp_all

end SquidModel.Uri

namespace SquidModel.Uri
open SquidModel.Gen.UriParse

/-- protocol and image `uriParseScheme` gives a scheme text -/
def schemeProto (s : Bytes) : Nat := findProtocolType s
def schemeImage (s : Bytes) : Bytes := if findProtocolType s = PROTO_UNKNOWN then s else imageOf (findProtocolType s)

theorem parseScheme_text' (scheme x : Bytes) (hs : SchemeText scheme) :
    parseScheme (scheme ++ 58 :: x) = some (schemeProto scheme, schemeImage scheme, x) := by
  rw [parseScheme_text scheme x hs]
  unfold schemeProto schemeImage
  split <;> simp_all

/-- `parse` of `scheme "://" host ":" port tail` -/
theorem parse_composed_port (cfg : Config) (ip : Bytes → IpClass) (m : Method) (scheme host pt tail : Bytes)
    (hm : m ≠ .connect) (hs : SchemeText scheme) (hnone : schemeProto scheme ≠ PROTO_NONE) (hurn : schemeProto scheme ≠ PROTO_URN)
    (hh : PlainHost host) (hp : ∀ c ∈ pt, plainOctet c = true) (ht : TailOk tail)
    (hlen : (scheme ++ 58 :: 47 :: 47 :: (host ++ 58 :: pt ++ tail)).length + cfg.appendDomain.length ≤ MAX_URL - 1) :
    parse cfg ip m (scheme ++ 58 :: 47 :: 47 :: (host ++ 58 :: pt ++ tail)) =
      (match convertPort pt with
       | .ok p => finish cfg ip (schemeProto scheme) (schemeImage scheme) [] host p (urlPath (host ++ 58 :: pt ++ tail))
       | .error e => if e = "unmodelled" then .unmodelled "port-conversion" else .reject e) := by
  have hstar : scheme ++ 58 :: 47 :: 47 :: (host ++ 58 :: pt ++ tail) ≠ [42] := by
    intro h
    have := congrArg List.length h
    simp at this
    omega
  rw [parse_hier cfg ip m _ _ _ _ hlen hm hstar (parseScheme_text' scheme _ hs) hnone hurn]
  exact parseHier_compose_port cfg ip _ _ host pt tail hh hp ht

/-- `parse` of `scheme "://" host tail` -/
theorem parse_composed_noport (cfg : Config) (ip : Bytes → IpClass) (m : Method) (scheme host tail : Bytes)
    (hm : m ≠ .connect) (hs : SchemeText scheme) (hnone : schemeProto scheme ≠ PROTO_NONE) (hurn : schemeProto scheme ≠ PROTO_URN)
    (hh : PlainHost host) (ht : TailOk tail)
    (hlen : (scheme ++ 58 :: 47 :: 47 :: (host ++ tail)).length + cfg.appendDomain.length ≤ MAX_URL - 1) :
    parse cfg ip m (scheme ++ 58 :: 47 :: 47 :: (host ++ tail)) =
      finish cfg ip (schemeProto scheme) (schemeImage scheme) [] host (((defaultPort (schemeProto scheme)).getD 0 : Nat) : Int)
        (urlPath (host ++ tail)) := by
  have hstar : scheme ++ 58 :: 47 :: 47 :: (host ++ tail) ≠ [42] := by
    intro h
    have := congrArg List.length h
    simp at this
    omega
  rw [parse_hier cfg ip m _ _ _ _ hlen hm hstar (parseScheme_text' scheme _ hs) hnone hurn]
  exact parseHier_compose_noport cfg ip _ _ host tail hh ht

end SquidModel.Uri
