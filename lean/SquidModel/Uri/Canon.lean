/-
Model of the canonical forms `AnyP::Uri::authority(requirePort)`, `absolutePath()` and `absolute()` (src/anyp/Uri.cc), computed
on an object on which nothing else was called since `parse()` (the `isEmpty()` caches are empty), and of "parse the canonical
form again".
-/
import SquidModel.Uri.Parse

namespace SquidModel.Uri
open SquidModel.Gen.UriParse

def digitChar (d : Nat) : UInt8 := UInt8.ofNat (48 + d)

/-- decimal digits, most significant first, in front of `acc`; fuel = more than the number of digits -/
def decimalAux : Nat → Nat → Bytes → Bytes
  | 0, _, acc => acc
  | f + 1, n, acc => if n < 10 then digitChar n :: acc else decimalAux f (n / 10) (digitChar (n % 10) :: acc)

/-- `appendf(":%hu", *port())` -/
def decimal (n : Nat) : Bytes := decimalAux (n + 1) n []

/-- `authority(requirePort)` -/
def authority (r : Parsed) (requirePort : Bool) : Bytes :=
  let withPort := r.host ++ (match r.port with | some p => 58 :: decimal p | none => [])
  let http := if r.port.isSome ∧ r.port ≠ defaultPort r.proto then withPort else r.host
  if requirePort then withPort else http

/-- `CharacterSet(UserInfoChars()).remove('%')` -/
def uiChars : CharSet := USERINFO - CharSet.ofBytes [37]

/-- `absolutePath()` -/
def absolutePath (r : Parsed) : Bytes := Pct.encode PATHCHARS (pathOut r)

/-- `absolute()` -/
def absolute (r : Parsed) : Bytes :=
  r.image ++ [58] ++
    (if r.proto ≠ PROTO_URN then
      [47, 47] ++
        (if (r.proto = PROTO_FTP ∨ r.proto = PROTO_UNKNOWN) ∧ !r.userInfo.isEmpty then Pct.encode uiChars r.userInfo ++ [64] else []) ++
        authority r false
     else r.host ++ [58]) ++
    absolutePath r

/-- the canonical form the property talks about: `authority(true)` for CONNECT (what `HttpRequest::effectiveRequestUri()` uses
for that method), `absolute()` otherwise -/
def canonical (m : Method) (r : Parsed) : Bytes :=
  if m = .connect then authority r true else absolute r

/-- parse the canonical form again, same method and configuration -/
def reparse (cfg : Config) (ip : Bytes → IpClass) (m : Method) (r : Parsed) : Outcome :=
  parse cfg ip m (canonical m r)

/-- "the same scheme, host, port and path" -/
def sameTarget (a b : Parsed) : Prop :=
  a.proto = b.proto ∧ a.image = b.image ∧ a.host = b.host ∧ a.port = b.port ∧ pathOut a = pathOut b

instance (a b : Parsed) : Decidable (sameTarget a b) := by unfold sameTarget; infer_instance

end SquidModel.Uri
