/-
Re-parsing the canonical form: lemmas for `reparse_canonical_partial` (Properties/C30.lean).
-/
import SquidModel.Uri.Ports
import SquidModel.Pct.UriLemmas

namespace SquidModel.Uri
open SquidModel.Gen.UriParse

/-! ### `%hu` -/

theorem digitChar_facts : ∀ d : Fin 10, isDigit (digitChar d.val) = true ∧ (digitChar d.val).toNat - 48 = d.val ∧
    (d.val ≠ 0 → digitChar d.val ≠ 48) := by decide

theorem decimalAux_acc : ∀ (f n : Nat) (acc : Bytes), decimalAux f n acc = decimalAux f n [] ++ acc
  | 0, n, acc => by simp [decimalAux]
  | f + 1, n, acc => by
    unfold decimalAux
    split
    · simp
    · rw [decimalAux_acc f (n / 10) (digitChar (n % 10) :: acc), decimalAux_acc f (n / 10) [digitChar (n % 10)]]
      simp

theorem digitsValue_snoc (l : Bytes) (c : UInt8) : digitsValue (l ++ [c]) = digitsValue l * 10 + (c.toNat - 48) := by
  unfold digitsValue
  rw [List.foldl_append]
  rfl

theorem decimalAux_spec : ∀ (f n : Nat), n < f →
    digitsValue (decimalAux f n []) = n ∧ (∀ c ∈ decimalAux f n [], isDigit c = true) ∧ decimalAux f n [] ≠ [] ∧
      (1 ≤ n → (decimalAux f n []).head? ≠ some 48)
  | 0, n, h => by omega
  | f + 1, n, h => by
    unfold decimalAux
    split
    · rename_i hn
      have hf := digitChar_facts ⟨n, hn⟩
      dsimp only at hf
      refine ⟨?_, ?_, by simp, ?_⟩
      · simp only [digitsValue, List.foldl_cons, List.foldl_nil, Nat.zero_mul, Nat.zero_add]
        exact hf.2.1
      · intro c hc
        simp only [List.mem_singleton] at hc
        subst hc
        exact hf.1
      · intro h1
        simp only [List.head?_cons, ne_eq, Option.some.injEq]
        exact hf.2.2 (by simpa using (by omega : n ≠ 0))
    · rename_i hn
      have hlt : n / 10 < f := by omega
      rcases decimalAux_spec f (n / 10) hlt with ⟨hv, hd, hne, hh⟩
      rw [decimalAux_acc]
      have hmod : n % 10 < 10 := Nat.mod_lt _ (by decide)
      have hf := digitChar_facts ⟨n % 10, hmod⟩
      dsimp only at hf
      refine ⟨?_, ?_, by simp [hne], ?_⟩
      · rw [digitsValue_snoc, hv, hf.2.1]
        omega
      · intro c hc
        rcases List.mem_append.mp hc with h1 | h1
        · exact hd c h1
        · simp only [List.mem_singleton] at h1
          subst h1
          exact hf.1
      · intro _
        have h1 : 1 ≤ n / 10 := by omega
        have := hh h1
        cases hx : decimalAux f (n / 10) [] with
        | nil => exact absurd hx hne
        | cons a b =>
          rw [hx] at this
          simpa using this

theorem decimal_spec (n : Nat) :
    digitsValue (decimal n) = n ∧ (∀ c ∈ decimal n, isDigit c = true) ∧ decimal n ≠ [] ∧ (1 ≤ n → (decimal n).head? ≠ some 48) :=
  decimalAux_spec (n + 1) n (by omega)

/-- both port conversions read back what `%hu` printed -/
theorem convertPort_decimal (p : Nat) (h1 : 1 ≤ p) (h2 : p ≤ 65535) (hmode : portMode = 0 ∨ portMode = 1) :
    convertPort (decimal p) = .ok (p : Int) := by
  rcases decimal_spec p with ⟨hv, hd, hne, hh⟩
  unfold convertPort
  rcases hmode with hm | hm
  · simp only [hm, ↓reduceIte]
    rw [atoi_digits (decimal p) hd (by omega), hv]
  · simp only [hm, Nat.one_ne_zero, ↓reduceIte]
    have hpp : parsePortTok (decimal p) = .ok (p, []) := by
      unfold parsePortTok
      cases hx : decimal p with
      | nil => exact absurd hx hne
      | cons c r =>
        have hc : c ≠ 48 := by
          have := hh h1
          rw [hx] at this
          simpa using this
        rw [hx] at hd hv
        simp only [hc, ↓reduceIte, takeWhile_all isDigit (c :: r) hd, dropWhile_all isDigit (c :: r) hd, hv]
        have : ¬ (p > i64Max) := by unfold i64Max; omega
        have h3 : ¬ (p > 65535) := by omega
        simp [this, h3]
    rw [hpp]
    simp

/-! ### octet facts -/

theorem lower_id_facts : ∀ c : UInt8, (UPPER.mem c || lower c == c) = true :=
  forall_octet _ (by decide +kernel)

theorem pathchar_facts : ∀ c : UInt8, (!PATHCHARS.mem c || (c != 0 && c != 13 && c != 10 && !WSPACE.mem c)) = true :=
  forall_octet _ (by decide +kernel)

theorem plain_facts : ∀ c : UInt8, (!plainOctet c || !WSPACE.mem c) = true :=
  forall_octet _ (by decide +kernel)

theorem map_lower_id : ∀ (h : Bytes), NoUpper h → h.map lower = h
  | [], _ => rfl
  | c :: r, hu => by
    have hc := hu c List.mem_cons_self
    have hf := lower_id_facts c
    simp only [hc, Bool.false_or, beq_iff_eq] at hf
    rw [List.map_cons, hf, map_lower_id r (fun x hx => hu x (List.mem_cons_of_mem _ hx))]

theorem lowerStrip_id (cfg : Config) (h : Bytes) (hu : NoUpper h) (hp : ∀ c ∈ h, plainOctet c = true) :
    lowerStrip cfg h = h := by
  unfold lowerStrip
  rw [map_lower_id h hu]
  have : h.any WSPACE.mem = false := by
    rw [List.any_eq_false]
    intro c hc
    have := plain_facts c
    simp only [hp c hc, Bool.not_true, Bool.false_or, Bool.not_eq_true'] at this
    simp [this]
  simp [this]

theorem strip_id (h : Bytes) (hl : h.getLast? ≠ some 46) : stripTrailingDots h = h := by
  unfold stripTrailingDots
  have hh : h.reverse.head? ≠ some 46 := by rwa [List.head?_reverse]
  cases hr : h.reverse with
  | nil => simp [List.reverse_eq_nil_iff.mp hr]
  | cons d r =>
    rw [hr] at hh
    have hd : d ≠ 46 := by simpa using hh
    have : (d :: r).dropWhile (· = 46) = d :: r := by simp [List.dropWhile_cons, hd]
    rw [this, ← hr, List.reverse_reverse]

theorem urlPath_compose (a t : Bytes) (ha : ∀ c ∈ a, c ≠ 0 ∧ isHostDelim c = false) (ht : t.head? = some 47)
    (hp : ∀ c ∈ t, PATHCHARS.mem c = true) : urlPath (a ++ t) = t := by
  have htail : TailOk t := by
    cases t with
    | nil => trivial
    | cons c r =>
      have : c = 47 := by simpa using ht
      subst this
      exact Or.inr (by decide)
  have hfacts : ∀ c ∈ t, c ≠ 0 ∧ c ≠ 13 ∧ c ≠ 10 := by
    intro c hc
    have := pathchar_facts c
    simp only [hp c hc, Bool.not_true, Bool.false_or, Bool.and_eq_true, bne_iff_ne, ne_eq, Bool.not_eq_true'] at this
    exact ⟨this.1.1.1, this.1.1.2, this.1.2⟩
  have h0 : t.takeWhile (· ≠ 0) = t := takeWhile_all _ t (fun c hc => by simpa using (hfacts c hc).1)
  unfold urlPath
  rw [afterHost_compose a t ha htail, h0]
  simp only [ht, ↓reduceIte]
  exact takeWhile_all _ t (fun c hc => by simp [(hfacts c hc).2.1, (hfacts c hc).2.2])

theorem pathWhitespace_pathchars (cfg : Config) (p : Bytes) (hp : ∀ c ∈ p, PATHCHARS.mem c = true) :
    pathWhitespace cfg p = some p := by
  unfold pathWhitespace
  have : p.any WSPACE.mem = false := by
    rw [List.any_eq_false]
    intro c hc
    have := pathchar_facts c
    simp only [hp c hc, Bool.not_true, Bool.false_or, Bool.and_eq_true, Bool.not_eq_true'] at this
    simp [this.2]
  simp [this]

/-! ### `finish` on an already normalised host -/

theorem finish_ok_chars {cfg : Config} {ip : Bytes → IpClass} {proto : Nat} {image login fh : Bytes} {port : Int} {path : Bytes}
    {r : Parsed} (h : finish cfg ip proto image login fh port path = .ok r) (hc : cfg.checkHostnames = true) :
    (lowerStrip cfg fh).all (hostnameSet cfg).mem = true := by
  unfold finish at h
  simp only at h
  generalize lowerStrip cfg fh = h2 at h
  generalize hostnameSet cfg = hs at h
  split at h
  · simp at h
  · rename_i hcond
    simp only [hc, true_and, Bool.not_eq_true', Bool.not_eq_false] at hcond
    cases hx : h2.all hs.mem with
    | true => rfl
    | false => rw [hx] at hcond; simp at hcond

theorem finish_again (cfg : Config) (ip : Bytes → IpClass) (proto : Nat) (image host path : Bytes) (p : Nat)
    (hu : NoUpper host) (hp : ∀ c ∈ host, plainOctet c = true)
    (hchars : cfg.checkHostnames = true → host.all (hostnameSet cfg).mem = true)
    (had : cfg.appendDomain = []) (hlast : host.getLast? ≠ some 46) (hdd : hasDotDot host = false)
    (hhead : host.head? ≠ some 46) (h1 : 1 ≤ p) (h2 : p ≤ 65535) (hpath : ∀ c ∈ path, PATHCHARS.mem c = true)
    (hset : setHost ip host = some (host, false)) :
    finish cfg ip proto image [] host (p : Int) path =
      .ok { proto := proto, image := image, userInfo := [], host := host, numeric := false, port := some p, path := path } := by
  unfold finish
  simp only
  rw [lowerStrip_id cfg host hu hp]
  have hc : ¬ (cfg.checkHostnames = true ∧ (!host.all (hostnameSet cfg).mem) = true) := by
    intro ⟨hc1, hc2⟩
    rw [hchars hc1] at hc2
    simp at hc2
  have hap : appendDomain cfg host = some host := by unfold appendDomain; simp [had]
  have hport : ¬ ((p : Int) < 1 ∨ (p : Int) > 65535) := by omega
  simp only [hc, ↓reduceIte, hap, strip_id host hlast, hdd, hhead, Bool.false_eq_true, or_self, hport,
    pathWhitespace_pathchars cfg path hpath, hset, Int.toNat_natCast]

/-! ### schemes -/

theorem scheme_lower_facts : ∀ c : UInt8, ((!SCHEME.mem c || SCHEME.mem (lower c)) && (!SCHEME_FIRST.mem c || SCHEME_FIRST.mem (lower c))) = true :=
  forall_octet _ (by decide +kernel)

/-- every entry `FindProtocolType` can return is found again under its own image, and is the entry `image()` prints -/
theorem registry_consistent :
    protos.all (fun q => !q.findable || (imageOf q.id == q.image && findProtocolType q.image == q.id && q.id != PROTO_UNKNOWN)) = true := by
  decide

theorem findProtocolType_known {str : Bytes} (h : findProtocolType str ≠ PROTO_UNKNOWN) :
    imageOf (findProtocolType str) = str.map lower ∧
      findProtocolType (imageOf (findProtocolType str)) = findProtocolType str := by
  unfold findProtocolType at h ⊢
  cases hf : protos.find? (fun p => p.findable && p.image == str.map lower) with
  | none => rw [hf] at h; exact absurd rfl h
  | some q =>
    simp only
    have hq := List.find?_some hf
    have hmem := List.mem_of_find?_eq_some hf
    simp only [Bool.and_eq_true, beq_iff_eq] at hq
    have ht := (List.all_eq_true.mp registry_consistent) q hmem
    simp only [hq.1, Bool.not_true, Bool.false_or, Bool.and_eq_true, beq_iff_eq, bne_iff_ne] at ht
    refine ⟨by rw [ht.1.1, hq.2], ?_⟩
    rw [ht.1.1]
    have := ht.1.2
    unfold findProtocolType at this
    exact this

/-- what `uriParseScheme` accepted is read again as the same scheme when `image()` is printed in front of `:` -/
theorem parseScheme_roundtrip {url image rest : Bytes} {proto : Nat} (h : parseScheme url = some (proto, image, rest)) :
    ∀ x, parseScheme (image ++ 58 :: x) = some (proto, image, x) := by
  intro x
  unfold parseScheme at h
  simp only at h
  generalize hstr : ((url.take 16).takeWhile SCHEME.mem) = str at h
  have hall : ∀ c ∈ str, SCHEME.mem c = true := by rw [← hstr]; exact all_takeWhile _ _
  have hlen : str.length ≤ 16 := by
    rw [← hstr]
    have h1 : ((url.take 16).takeWhile SCHEME.mem ++ (url.take 16).dropWhile SCHEME.mem).length = (url.take 16).length := by
      rw [List.takeWhile_append_dropWhile]
    rw [List.length_append] at h1
    have h2 := List.length_take_le 16 url
    omega
  cases str with
  | nil => simp at h
  | cons c0 r0 =>
    simp only at h
    split at h
    · rename_i d rest' hd
      split at h
      · rename_i hcond
        have hst : SchemeText (c0 :: r0) := ⟨by simp, hlen, hall, by simp [hcond.2]⟩
        by_cases hu : findProtocolType (c0 :: r0) = PROTO_UNKNOWN
        · simp only [hu, ↓reduceIte, Option.some.injEq, Prod.mk.injEq] at h
          rcases h with ⟨rfl, rfl, rfl⟩
          rw [parseScheme_text _ x hst]
          simp [hu]
        · simp only [hu, ↓reduceIte, Option.some.injEq, Prod.mk.injEq] at h
          rcases h with ⟨rfl, rfl, rfl⟩
          rcases findProtocolType_known hu with ⟨himg, hfind⟩
          have hst2 : SchemeText (imageOf (findProtocolType (c0 :: r0))) := by
            rw [himg]
            refine ⟨by simp, by simpa using hlen, ?_, ?_⟩
            · intro c hc
              rcases List.mem_map.mp hc with ⟨b, hb, rfl⟩
              have := scheme_lower_facts b
              simp only [hall b hb, Bool.not_true, Bool.false_or, Bool.and_eq_true] at this
              exact this.1
            · have := scheme_lower_facts c0
              simp only [hcond.2, Bool.not_true, Bool.false_or, Bool.and_eq_true] at this
              simp [this.2]
          rw [parseScheme_text _ x hst2, hfind]
          simp [hu]
      · simp at h
    · simp at h


/-- the scheme fields of an accepted non-CONNECT target with a host are what `uriParseScheme` returned -/
theorem parse_scheme_of_ok {cfg : Config} {ip : Bytes → IpClass} {m : Method} {url : Bytes} {r : Parsed}
    (h : parse cfg ip m url = .ok r) (hm : m ≠ .connect) (hhost : r.host ≠ []) (hurn : r.proto ≠ PROTO_URN) :
    (∃ rest, parseScheme url = some (r.proto, r.image, rest)) ∧ r.proto ≠ PROTO_NONE := by
  unfold parse at h
  split at h
  · simp at h
  · split at h
    · simp only [Outcome.ok.injEq] at h
      subst h
      exact absurd rfl hhost
    · split at h
      · simp at h
      · rename_i proto image rest hs
        split at h
        · simp at h
        · rename_i hnn
          split at h
          · exact absurd (parseUrn_ok h).1 hurn
          · split at h
            · split at h
              · rcases parseHier_ok h with ⟨l, fh, p, pa, hf⟩
                rcases finish_ok hf with ⟨_, _, _, _, _, _, _, _, _, hp, hi, _⟩
                exact ⟨⟨_, by rw [hp, hi]; exact hs⟩, by rw [hp]; exact hnn⟩
              · simp at h
            · simp at h

/-! ### the canonical form of a target without user info in it -/

theorem absolute_simple (r : Parsed) (hurn : r.proto ≠ PROTO_URN)
    (hui : (r.proto = PROTO_FTP ∨ r.proto = PROTO_UNKNOWN) → r.userInfo = [])
    (hpath : ∀ c ∈ r.path, PATHCHARS.mem c = true) (hslash : r.path.head? = some 47) :
    absolute r = r.image ++ 58 :: 47 :: 47 :: (authority r false ++ r.path) := by
  have hpo : pathOut r = r.path := by
    unfold pathOut
    cases hx : r.path with
    | nil => rw [hx] at hslash; simp at hslash
    | cons a b => simp
  have habs : absolutePath r = r.path := by
    unfold absolutePath
    rw [hpo, Pct.encode_eq_spec, Pct.encodeSpec_members _ _ hpath]
  have hno : ¬ ((r.proto = PROTO_FTP ∨ r.proto = PROTO_UNKNOWN) ∧ (!r.userInfo.isEmpty) = true) := by
    intro ⟨ha, hb⟩
    rw [hui ha] at hb
    simp at hb
  unfold absolute
  rw [if_pos hurn, if_neg hno, habs]
  simp

theorem pathOut_same (r : Parsed) (ui host : Bytes) (num : Bool) (port : Option Nat) :
    pathOut { proto := r.proto, image := r.image, userInfo := ui, host := host, numeric := num, port := port, path := r.path }
      = pathOut r := rfl

/-! ### CONNECT targets and name hosts -/

theorem regname_facts : ∀ c : UInt8, (!REGNAME.mem c || c != 91) = true :=
  forall_octet _ (by decide +kernel)

theorem parsePortTok_decimal (p : Nat) (h1 : 1 ≤ p) (h2 : p ≤ 65535) : parsePortTok (decimal p) = .ok (p, []) := by
  rcases decimal_spec p with ⟨hv, hd, hne, hh⟩
  unfold parsePortTok
  cases hx : decimal p with
  | nil => exact absurd hx hne
  | cons c r =>
    have hc : c ≠ 48 := by
      have := hh h1
      rw [hx] at this
      simpa using this
    rw [hx] at hd hv
    simp only [hc, ↓reduceIte, takeWhile_all isDigit (c :: r) hd, dropWhile_all isDigit (c :: r) hd, hv]
    have : ¬ (p > i64Max) := by unfold i64Max; omega
    have h3 : ¬ (p > 65535) := by omega
    simp [this, h3]

/-- what an accepting `finish` established about a short name host, when no `append_domain` is configured -/
theorem finish_name_facts {cfg : Config} {ip : Bytes → IpClass} {proto : Nat} {image login fh : Bytes} {port : Int} {path : Bytes}
    {r : Parsed} (hf : finish cfg ip proto image login fh port path = .ok r) (hname : r.numeric = false)
    (hshort : r.host.length < SQUIDHOSTNAMELEN - 1) (had : cfg.appendDomain = []) :
    r.host = stripTrailingDots (lowerStrip cfg fh) ∧ NoUpper r.host ∧ r.host.getLast? ≠ some 46 ∧
      (cfg.checkHostnames = true → r.host.all (hostnameSet cfg).mem = true) ∧ hasDotDot r.host = false ∧
      r.host.head? ≠ some 46 ∧ setHost ip r.host = some (r.host, false) ∧
      ∃ p : Nat, port = (p : Int) ∧ 1 ≤ p ∧ p ≤ 65535 ∧ r.port = some p := by
  rcases finish_ok hf with ⟨h4, p0, harg, hdd, hhead, hp1, hp2, hpw, hset, hproto, himage, hlogin, hport, hpath0⟩
  rw [hname] at hset
  have hhost : r.host = h4 := by
    have := setHost_name hset
    rw [this] at hshort ⊢
    rw [List.length_take] at hshort
    exact List.take_of_length_le (by omega)
  have harg' : hostArg cfg fh = some (stripTrailingDots (lowerStrip cfg fh)) := by
    unfold hostArg appendDomain; simp [had]
  have h4eq : h4 = stripTrailingDots (lowerStrip cfg fh) := by
    rw [harg'] at harg; simpa using harg.symm
  refine ⟨by rw [hhost, h4eq], ?_, ?_, ?_, by rw [hhost]; exact hdd, by rw [hhost]; exact hhead, ?_, ?_⟩
  · rw [hhost]; exact hostArg_noUpper (by rw [had]; intro c hc; simp at hc) harg
  · rw [hhost]; exact hostArg_getLast harg
  · intro hc
    have hall := finish_ok_chars hf hc
    rw [hhost, h4eq, List.all_eq_true]
    intro c hc'
    exact (List.all_eq_true.mp hall) c (stripTrailingDots_subset hc')
  · have h2 := hset
    rw [← hhost] at h2
    exact h2
  · exact ⟨port.toNat, by omega, by omega, by omega, by simpa using hport⟩

end SquidModel.Uri
