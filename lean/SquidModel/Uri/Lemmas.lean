/-
Lemmas about the model of `AnyP::Uri::parse` (Uri/Parse.lean): what an accepting run of `finish` (the common tail of
`parse()`) guarantees, list facts about trailing-dot removal and `strstr("..")`, octet-table facts decided over all 256 octets.
-/
import SquidModel.Uri.Canon
import SquidModel.Base.Finite

namespace SquidModel.Uri
open SquidModel.Gen.UriParse

/-! ### list helpers -/

theorem takeWhile_all {α : Type} (p : α → Bool) : ∀ (l : List α), (∀ x ∈ l, p x = true) → l.takeWhile p = l
  | [], _ => rfl
  | a :: l, h => by
    have ha : p a = true := h a (List.mem_cons_self)
    simp only [List.takeWhile_cons, ha, ↓reduceIte]
    rw [takeWhile_all p l (fun x hx => h x (List.mem_cons_of_mem _ hx))]

theorem dropWhile_all {α : Type} (p : α → Bool) : ∀ (l : List α), (∀ x ∈ l, p x = true) → l.dropWhile p = []
  | [], _ => rfl
  | a :: l, h => by
    have ha : p a = true := h a (List.mem_cons_self)
    simp only [List.dropWhile_cons, ha, ↓reduceIte]
    exact dropWhile_all p l (fun x hx => h x (List.mem_cons_of_mem _ hx))

theorem takeWhile_append_stop {α : Type} (p : α → Bool) : ∀ (l : List α) (d : α) (r : List α),
    (∀ x ∈ l, p x = true) → p d = false → (l ++ d :: r).takeWhile p = l
  | [], d, r, _, hd => by simp [hd]
  | a :: l, d, r, h, hd => by
    have ha : p a = true := h a (List.mem_cons_self)
    simp only [List.cons_append, List.takeWhile_cons, ha, ↓reduceIte]
    rw [takeWhile_append_stop p l d r (fun x hx => h x (List.mem_cons_of_mem _ hx)) hd]

theorem dropWhile_append_stop {α : Type} (p : α → Bool) : ∀ (l : List α) (d : α) (r : List α),
    (∀ x ∈ l, p x = true) → p d = false → (l ++ d :: r).dropWhile p = d :: r
  | [], d, r, _, hd => by simp [hd]
  | a :: l, d, r, h, hd => by
    have ha : p a = true := h a (List.mem_cons_self)
    simp only [List.cons_append, List.dropWhile_cons, ha, ↓reduceIte]
    exact dropWhile_append_stop p l d r (fun x hx => h x (List.mem_cons_of_mem _ hx)) hd

theorem mem_of_mem_takeWhile {α : Type} (p : α → Bool) {x : α} : ∀ {l : List α}, x ∈ l.takeWhile p → x ∈ l
  | [], h => by simp at h
  | a :: l, h => by
    simp only [List.takeWhile_cons] at h
    split at h
    · rcases List.mem_cons.mp h with rfl | h'
      · exact List.mem_cons_self
      · exact List.mem_cons_of_mem _ (mem_of_mem_takeWhile p h')
    · simp at h

theorem mem_of_mem_dropWhile {α : Type} (p : α → Bool) {x : α} : ∀ {l : List α}, x ∈ l.dropWhile p → x ∈ l
  | [], h => by simp at h
  | a :: l, h => by
    simp only [List.dropWhile_cons] at h
    split at h
    · exact List.mem_cons_of_mem _ (mem_of_mem_dropWhile p h)
    · exact h

theorem takeWhile_append_dropWhile' {α : Type} (p : α → Bool) (l : List α) : l.takeWhile p ++ l.dropWhile p = l :=
  List.takeWhile_append_dropWhile

theorem dropWhile_head_false {α : Type} (p : α → Bool) : ∀ (l : List α) (d : α) (r : List α), l.dropWhile p = d :: r → p d = false
  | [], d, r, h => by simp at h
  | a :: l, d, r, h => by
    simp only [List.dropWhile_cons] at h
    split at h
    · exact dropWhile_head_false p l d r h
    · rename_i hp
      have : a = d := (List.cons.inj h).1
      subst this
      simpa using hp

theorem all_takeWhile {α : Type} (p : α → Bool) : ∀ (l : List α), ∀ x ∈ l.takeWhile p, p x = true
  | [], x, h => by simp at h
  | a :: l, x, h => by
    simp only [List.takeWhile_cons] at h
    split at h
    · rename_i hp
      rcases List.mem_cons.mp h with rfl | h'
      · exact hp
      · exact all_takeWhile p l x h'
    · simp at h

/-! ### trailing dots and `..` -/

theorem stripTrailingDots_subset {h : Bytes} {x : UInt8} (hx : x ∈ stripTrailingDots h) : x ∈ h := by
  unfold stripTrailingDots at hx
  have := mem_of_mem_dropWhile _ (List.mem_reverse.mp hx)
  exact List.mem_reverse.mp this

theorem stripTrailingDots_getLast (h : Bytes) : (stripTrailingDots h).getLast? ≠ some 46 := by
  unfold stripTrailingDots
  rw [List.getLast?_reverse]
  cases hd : h.reverse.dropWhile (· = 46) with
  | nil => simp
  | cons d r =>
    have := dropWhile_head_false _ _ _ _ hd
    simp only [List.head?_cons, ne_eq, Option.some.injEq]
    intro hd46
    subst hd46
    simp at this

theorem stripTrailingDots_length_le (h : Bytes) : (stripTrailingDots h).length ≤ h.length := by
  unfold stripTrailingDots
  rw [List.length_reverse]
  have h1 : (h.reverse.takeWhile (· = 46) ++ h.reverse.dropWhile (· = 46)).length = h.reverse.length := by
    rw [List.takeWhile_append_dropWhile]
  rw [List.length_append, List.length_reverse] at h1
  omega

/-! ### octet tables -/

theorem lower_not_upper : ∀ b : UInt8, (!UPPER.mem (lower b)) = true :=
  forall_octet (fun b => !UPPER.mem (lower b)) (by decide +kernel)

/-- "no upper-case letter": no octet that `xtolower` changes -/
def NoUpper (h : Bytes) : Prop := ∀ c ∈ h, UPPER.mem c = false

theorem noUpper_map_lower (h : Bytes) : NoUpper (h.map lower) := by
  intro c hc
  rcases List.mem_map.mp hc with ⟨b, _, rfl⟩
  have := lower_not_upper b
  simpa using this

theorem NoUpper.filter {h : Bytes} (hh : NoUpper h) (p : UInt8 → Bool) : NoUpper (h.filter p) :=
  fun c hc => hh c (List.mem_filter.mp hc).1

theorem NoUpper.append {a b : Bytes} (ha : NoUpper a) (hb : NoUpper b) : NoUpper (a ++ b) := by
  intro c hc
  rcases List.mem_append.mp hc with h | h
  · exact ha c h
  · exact hb c h

theorem NoUpper.strip {h : Bytes} (hh : NoUpper h) : NoUpper (stripTrailingDots h) :=
  fun c hc => hh c (stripTrailingDots_subset hc)

theorem NoUpper.take {h : Bytes} (hh : NoUpper h) (n : Nat) : NoUpper (h.take n) :=
  fun c hc => hh c (List.mem_of_mem_take hc)

/-! ### what an accepting `finish` guarantees -/

/-- the host string handed to `AnyP::Uri::host()` by `finish` -/
def hostArg (cfg : Config) (foundHost : Bytes) : Option Bytes :=
  (appendDomain cfg (lowerStrip cfg foundHost)).map stripTrailingDots

theorem finish_ok {cfg : Config} {ip : Bytes → IpClass} {proto : Nat} {image login fh : Bytes} {port : Int} {path : Bytes}
    {r : Parsed} (h : finish cfg ip proto image login fh port path = .ok r) :
    ∃ h4 p, hostArg cfg fh = some h4 ∧ hasDotDot h4 = false ∧ h4.head? ≠ some 46 ∧
      1 ≤ port ∧ port ≤ 65535 ∧ pathWhitespace cfg path = some p ∧
      setHost ip h4 = some (r.host, r.numeric) ∧
      r.proto = proto ∧ r.image = image ∧ r.userInfo = login ∧ r.port = some port.toNat ∧ r.path = p := by
  unfold finish at h
  simp only at h
  generalize hl : lowerStrip cfg fh = h2 at h
  generalize hostnameSet cfg = hs at h
  split at h
  · simp at h
  · split at h
    · simp at h
    · rename_i h3 hap
      split at h
      · simp at h
      · rename_i hdots
        split at h
        · simp at h
        · rename_i hport
          split at h
          · simp at h
          · rename_i p hp
            split at h
            · simp at h
            · rename_i hh num hset
              simp only [Outcome.ok.injEq] at h
              subst h
              refine ⟨stripTrailingDots h3, p, ?_, ?_, ?_, ?_, ?_, hp, hset, rfl, rfl, rfl, rfl, rfl⟩
              · simp only [hostArg, hl, hap, Option.map_some]
              · simp only [not_or, Bool.not_eq_true] at hdots
                exact hdots.1
              · simp only [not_or] at hdots
                exact hdots.2
              · omega
              · omega

theorem hostArg_noUpper {cfg : Config} {fh h4 : Bytes} (had : NoUpper cfg.appendDomain) (h : hostArg cfg fh = some h4) :
    NoUpper h4 := by
  unfold hostArg at h
  simp only [Option.map_eq_some_iff] at h
  rcases h with ⟨h3, hap, rfl⟩
  apply NoUpper.strip
  have h2 : NoUpper (lowerStrip cfg fh) := by
    unfold lowerStrip
    split
    · exact (noUpper_map_lower fh).filter _
    · exact noUpper_map_lower fh
  unfold appendDomain at hap
  split at hap
  · split at hap
    · simp at hap
    · simp only [Option.some.injEq] at hap
      subst hap
      exact h2.append had
  · simp only [Option.some.injEq] at hap
    subst hap
    exact h2

theorem setHost_noUpper {ip : Bytes → IpClass} {h4 host : Bytes} {num : Bool}
    (hip : ∀ s t, ip s = .addr t → NoUpper t) (hh : NoUpper h4) (h : setHost ip h4 = some (host, num)) : NoUpper host := by
  unfold setHost at h
  split at h
  · rename_i t ht
    simp only [Option.some.injEq, Prod.mk.injEq] at h
    rw [← h.1]
    exact hip _ _ ht
  · simp at h
  · simp only [Option.some.injEq, Prod.mk.injEq] at h
    rw [← h.1]
    exact hh.take _

theorem setHost_name {ip : Bytes → IpClass} {h4 host : Bytes} (h : setHost ip h4 = some (host, false)) :
    host = h4.take (SQUIDHOSTNAMELEN - 1) := by
  unfold setHost at h
  split at h
  · simp at h
  · simp at h
  · simp only [Option.some.injEq, Prod.mk.injEq] at h
    exact h.1.symm

end SquidModel.Uri

namespace SquidModel.Uri
open SquidModel.Gen.UriParse

/-! ### inversion of `parse` -/

theorem parseUrn_ok {ip : Bytes → IpClass} {s : Bytes} {r : Parsed} (h : parseUrn ip s = .ok r) :
    r.proto = PROTO_URN ∧ r.port = none := by
  unfold parseUrn at h
  simp only at h
  split at h
  · simp at h
  · split at h
    · split at h
      · simp at h
      · split at h
        · simp at h
        · split at h
          · simp at h
          · split at h
            · simp at h
            · split at h
              · simp at h
              · simp only [Outcome.ok.injEq] at h
                subst h
                exact ⟨rfl, rfl⟩
    · simp at h

theorem parseConnect_ok {cfg : Config} {ip : Bytes → IpClass} {url : Bytes} {r : Parsed} (h : parseConnect cfg ip url = .ok r) :
    ∃ rawHost rest r2 p, parseHostTok ip url = .ok (rawHost, rest) ∧ rest = 58 :: r2 ∧ parsePortTok r2 = .ok (p, []) ∧
      finish cfg ip PROTO_NONE [] [] rawHost (p : Int) [] = .ok r := by
  unfold parseConnect at h
  split at h
  · simp at h
  · rename_i rawHost rest hh
    split at h
    · rename_i c r2
      split at h
      · simp at h
      · rename_i hc
        split at h
        · simp at h
        · rename_i p r3 hp
          split at h
          · simp at h
          · rename_i hr3
            have : r3 = [] := by
              cases r3 with
              | nil => rfl
              | cons a b => simp at hr3
            subst this
            have hc' : c = 58 := by simpa using hc
            subst hc'
            exact ⟨rawHost, _, r2, p, hh, rfl, hp, h⟩
    · simp at h

/-- the pieces the non-CONNECT branch hands to `finish` -/
theorem hierAfter_ok {cfg : Config} {ip : Bytes → IpClass} {proto : Nat} {image login fh path : Bytes} {r : Parsed}
    (h : hierAfter cfg ip proto image login fh path = .ok r) :
    (bufAtCheck fh).isEmpty = false ∧
    ∃ port, finish cfg ip proto image login (splitHostPort fh).host port path = .ok r ∧
      (((splitHostPort fh).portText = none ∧ port = (((defaultPort proto).getD 0 : Nat) : Int)) ∨
       (∃ t, (splitHostPort fh).portText = some t ∧ convertPort t = .ok port)) := by
  unfold hierAfter at h
  split at h
  · simp at h
  · rename_i hb
    refine ⟨by simpa using hb, ?_⟩
    split at h
    · rename_i hpt
      exact ⟨_, h, Or.inl ⟨hpt, rfl⟩⟩
    · rename_i t hpt
      split at h
      · rename_i p hp
        exact ⟨p, h, Or.inr ⟨t, hpt, hp⟩⟩
      · split at h <;> simp at h

theorem parseHier_ok {cfg : Config} {ip : Bytes → IpClass} {proto : Nat} {image b : Bytes} {r : Parsed}
    (h : parseHier cfg ip proto image b = .ok r) :
    ∃ login fh port path, finish cfg ip proto image login fh port path = .ok r := by
  unfold parseHier at h
  rcases hierAfter_ok h with ⟨_, port, hf, _⟩
  exact ⟨_, _, _, _, hf⟩

/-- the result of the asterisk form -/
def starResult : Parsed :=
  { proto := PROTO_HTTP, image := imageOf PROTO_HTTP, userInfo := [], host := [], numeric := false,
    port := defaultPort PROTO_HTTP, path := [42] }

theorem parse_ok_inv {cfg : Config} {ip : Bytes → IpClass} {m : Method} {url : Bytes} {r : Parsed}
    (h : parse cfg ip m url = .ok r) :
    (m = .star ∧ url = [42] ∧ r = starResult) ∨ (r.proto = PROTO_URN ∧ r.port = none) ∨
      (∃ proto image login fh port path, finish cfg ip proto image login fh port path = .ok r) := by
  unfold parse at h
  split at h
  · simp at h
  · split at h
    · rename_i hs
      simp only [Outcome.ok.injEq] at h
      exact Or.inl ⟨hs.1, hs.2, h.symm⟩
    · split at h
      · rcases parseConnect_ok h with ⟨rawHost, _, _, p, _, _, _, hf⟩
        exact Or.inr (Or.inr ⟨_, _, _, _, _, _, hf⟩)
      · split at h
        · simp at h
        · split at h
          · simp at h
          · split at h
            · exact Or.inr (Or.inl (parseUrn_ok h))
            · split at h
              · split at h
                · rcases parseHier_ok h with ⟨l, fh, p, pa, hf⟩
                  exact Or.inr (Or.inr ⟨_, _, _, _, _, _, hf⟩)
                · simp at h
              · simp at h

end SquidModel.Uri

namespace SquidModel.Uri
open SquidModel.Gen.UriParse

/-! ### host labels -/

theorem hostArg_getLast {cfg : Config} {fh h4 : Bytes} (h : hostArg cfg fh = some h4) : h4.getLast? ≠ some 46 := by
  unfold hostArg at h
  simp only [Option.map_eq_some_iff] at h
  rcases h with ⟨h3, _, rfl⟩
  exact stripTrailingDots_getLast h3

/-- no empty label: not empty, no leading dot, no `..`, no trailing dot -/
def GoodLabels (h : Bytes) : Prop := h ≠ [] ∧ h.head? ≠ some 46 ∧ hasDotDot h = false ∧ h.getLast? ≠ some 46

/-! ### CONNECT: `parseHost` / `parsePort` -/

theorem parse_connect {cfg : Config} {ip : Bytes → IpClass} {url : Bytes} {r : Parsed}
    (h : parse cfg ip .connect url = .ok r) : parseConnect cfg ip url = .ok r := by
  unfold parse at h
  split at h
  · simp at h
  · split at h
    · rename_i hs
      exact absurd hs.1 (by decide)
    · simpa using h

theorem parseHostTok_ok {ip : Bytes → IpClass} {s v rest : Bytes} (h : parseHostTok ip s = .ok (v, rest)) :
    v ≠ [] ∧ (s = v ++ rest ∨ s = 91 :: (v ++ 93 :: rest)) := by
  unfold parseHostTok at h
  split at h
  · rename_i c r
    split at h
    · rename_i hc
      simp only at h
      split at h
      · simp at h
      · rename_i hv
        split at h
        · rename_i d r2 hd
          split at h
          · simp at h
          · rename_i hd93
            split at h
            · simp at h
            · split at h
              · simp at h
              · simp only [Except.ok.injEq, Prod.mk.injEq] at h
                rcases h with ⟨rfl, rfl⟩
                refine ⟨by simpa using hv, Or.inr ?_⟩
                have hd' : d = 93 := by simpa using hd93
                subst hd' hc
                rw [← hd, List.takeWhile_append_dropWhile]
        · simp at h
    · simp only at h
      split at h
      · simp at h
      · rename_i hv
        simp only [Except.ok.injEq, Prod.mk.injEq] at h
        rcases h with ⟨rfl, rfl⟩
        exact ⟨by simpa using hv, Or.inl (List.takeWhile_append_dropWhile).symm⟩
  · simp at h

theorem parsePortTok_ok {s rest : Bytes} {p : Nat} (h : parsePortTok s = .ok (p, rest)) :
    s.takeWhile isDigit ≠ [] ∧ s.head? ≠ some 48 ∧ p = digitsValue (s.takeWhile isDigit) ∧ p ≤ 65535 ∧
      rest = s.dropWhile isDigit := by
  unfold parsePortTok at h
  split at h
  · rename_i c r
    split at h
    · simp at h
    · rename_i hc
      simp only at h
      split at h
      · simp at h
      · rename_i hds
        split at h
        · simp at h
        · rename_i hhuge
          simp only [Except.ok.injEq, Prod.mk.injEq] at h
          rcases h with ⟨rfl, rfl⟩
          simp only [not_or, Bool.not_eq_true, List.isEmpty_eq_false_iff] at hds
          refine ⟨hds.1, ?_, rfl, by omega, rfl⟩
          simp only [List.head?_cons, ne_eq, Option.some.injEq]
          exact hc
  · simp at h

/-- the text after the last `:` is determined by the string -/
theorem last_colon_unique {a b x y : Bytes} (hx : ∀ c ∈ x, c ≠ 58) (hy : ∀ c ∈ y, c ≠ 58)
    (h : a ++ 58 :: x = b ++ 58 :: y) : x = y := by
  have h1 : (a ++ 58 :: x).reverse.takeWhile (fun c => c ≠ 58) = x.reverse := by
    rw [List.reverse_append, List.reverse_cons, List.append_assoc]
    apply takeWhile_append_stop
    · intro c hc; simpa using hx c (List.mem_reverse.mp hc)
    · simp
  have h2 : (b ++ 58 :: y).reverse.takeWhile (fun c => c ≠ 58) = y.reverse := by
    rw [List.reverse_append, List.reverse_cons, List.append_assoc]
    apply takeWhile_append_stop
    · intro c hc; simpa using hy c (List.mem_reverse.mp hc)
    · simp
  rw [h] at h1
  rw [h1] at h2
  have := congrArg List.reverse h2
  simpa using this

theorem isDigit_ne_colon {c : UInt8} (h : isDigit c = true) : c ≠ 58 := by
  intro hc; subst hc; simp [isDigit] at h

end SquidModel.Uri
