/-
What `AnyP::Uri::host(const char *)` learns from `Ip::Address` (src/ip/Address.cc): `fromHost()` →
`lookupHostIP(s, nodns = true)` → `getaddrinfo(s, AI_NUMERICHOST)`, then `isAnyAddr()` and `toHostStr()`.

`getaddrinfo(AI_NUMERICHOST)` is libc, not Squid; the executable definitions below transcribe glibc's `__inet_aton_exact`,
`inet_pton(AF_INET6)`, `inet_pton4` and `inet_ntop` so that the model driver can print the same host text as the real code
(validated on every case of the differential run).  The *theorems* of C30 do not depend on these definitions: they quantify
over an arbitrary classification function `Bytes → IpClass`.

Not modelled: IPv6 scope identifiers (`fe80::1%eth0`, `::1%5`) — their meaning depends on the machine's interfaces;
`classify` answers `unknown` for them.
-/
import SquidModel.Base.Bytes

namespace SquidModel.Uri

/-- outcome of `hostAddr_.fromHost(src)` as `AnyP::Uri::host()` uses it -/
inductive IpClass where
  | notIp                 -- fromHost() failed: the address stays empty (isAnyAddr() is true)
  | any                   -- parsed, but 0.0.0.0 / :: / ::ffff:0.0.0.0: isAnyAddr() is true, the text is kept as a name
  | addr (text : Bytes)   -- parsed: `toHostStr()` text (dotted quad, or bracketed IPv6)
  | unknown               -- outside the model (scope identifier)
  deriving DecidableEq, Repr

namespace Ip

def isDigit (c : UInt8) : Bool := 48 ≤ c.toNat && c.toNat ≤ 57
def isOct (c : UInt8) : Bool := 48 ≤ c.toNat && c.toNat ≤ 55
def hexVal (c : UInt8) : Option Nat :=
  if 48 ≤ c.toNat ∧ c.toNat ≤ 57 then some (c.toNat - 48)
  else if 97 ≤ c.toNat ∧ c.toNat ≤ 102 then some (c.toNat - 87)
  else if 65 ≤ c.toNat ∧ c.toNat ≤ 70 then some (c.toNat - 55)
  else none
def isHex (c : UInt8) : Bool := (hexVal c).isSome

def valueIn (base : Nat) (ds : Bytes) : Nat := ds.foldl (fun a c => a * base + (hexVal c).getD 0) 0

/-- `strtoul(cp, &endp, 0)` on a string that starts with a digit: value and the unparsed rest -/
def strtoul0 (s : Bytes) : Nat × Bytes :=
  match s with
  | [] => (0, [])
  | c :: r =>
    if c = 48 then
      match r with
      | x :: r2 =>
        if (x = 120 ∨ x = 88) ∧ (r2.takeWhile isHex) ≠ [] then
          (valueIn 16 (r2.takeWhile isHex), r2.dropWhile isHex)
        else (valueIn 8 (r.takeWhile isOct), r.dropWhile isOct)
      | [] => (0, [])
    else (valueIn 10 (s.takeWhile isDigit), s.dropWhile isDigit)

/-- the `for (;;)` loop of glibc `inet_aton_end` with the "whole string" requirement of `__inet_aton_exact`:
the dotted parts collected so far, then the final value -/
def atonLoop : Nat → List Nat → Bytes → Option (List Nat × Nat)
  | 0, _, _ => none
  | f + 1, parts, s =>
    match s with
    | [] => none
    | c :: _ =>
      if !isDigit c then none
      else
        let (val, rest) := strtoul0 s
        if val > 0xffffffff then none
        else
          match rest with
          | [] => some (parts, val)
          | d :: r2 =>
            if d = 46 then
              if parts.length ≥ 3 ∨ val > 0xff then none else atonLoop f (parts ++ [val]) r2
            else none

/-- `__inet_aton_exact`: the 32-bit address -/
def inetAton (s : Bytes) : Option Nat :=
  match atonLoop (s.length + 1) [] s with
  | none => none
  | some (parts, val) =>
    let maxv := [0xffffffff, 0xffffff, 0xffff, 0xff].getD parts.length 0
    if val > maxv then none
    else
      let hi := (parts.zipIdx.map fun (p, i) => p <<< (24 - 8 * i)).foldl (· + ·) 0
      some (hi + val)

def decimal (n : Nat) : Bytes := (Nat.toDigits 10 n).map fun c => UInt8.ofNat c.toNat

/-- `inet_ntop(AF_INET)` -/
def ntop4 (a : Nat) : Bytes :=
  decimal (a / 16777216 % 256) ++ [46] ++ decimal (a / 65536 % 256) ++ [46] ++ decimal (a / 256 % 256) ++ [46] ++ decimal (a % 256)

/-- glibc `inet_pton4`: strict dotted decimal, four octets, no leading zeros; result = the four octets -/
def pton4Loop : Bytes → List Nat → Nat → Bool → Option (List Nat)
  | [], done, cur, saw => if saw ∧ done.length = 3 then some (done ++ [cur]) else none
  | ch :: r, done, cur, saw =>
    if isDigit ch then
      let nw := cur * 10 + (ch.toNat - 48)
      if saw ∧ cur = 0 then none
      else if nw > 255 then none
      else if !saw ∧ done.length ≥ 4 then none
      else pton4Loop r done nw true
    else if ch = 46 ∧ saw then
      if done.length = 3 then none else pton4Loop r (done ++ [cur]) 0 false
    else none

def pton4 (s : Bytes) : Option (List Nat) := pton4Loop s [] 0 false

/-- the `while (src < src_endp)` loop of glibc `inet_pton6`: `words` = what `tp` has written (16-bit units), `colonp` = index of
the `::` gap, `val`/`seen` = the hex group being read, `curtok` = start of the current token (for an embedded IPv4 address).
Result: the words written, the gap, and a pending group. -/
def pton6Loop : Bytes → List Nat → Option Nat → Nat → Nat → Bytes → Option (List Nat × Option Nat × Nat × Nat)
  | [], words, colonp, val, seen, _ => some (words, colonp, val, seen)
  | ch :: r, words, colonp, val, seen, curtok =>
    match hexVal ch with
    | some d =>
      if seen = 4 then none
      else
        let v := val * 16 + d
        if v > 0xffff then none else pton6Loop r words colonp v (seen + 1) curtok
    | none =>
      if ch = 58 then
        if seen = 0 then
          if colonp.isSome then none else pton6Loop r words (some words.length) val seen r
        else if r.isEmpty then none
        else if words.length ≥ 8 then none
        else pton6Loop r (words ++ [val]) colonp 0 0 r
      else if ch = 46 ∧ words.length ≤ 6 then
        match pton4 curtok with
        | some [a, b, c, d] => some (words ++ [a * 256 + b, c * 256 + d], colonp, 0, 0)
        | _ => none
      else none

/-- glibc `inet_pton(AF_INET6)`: the eight 16-bit words -/
def pton6 (s : Bytes) : Option (List Nat) :=
  match s with
  | [] => none
  | c :: r =>
    let start : Option Bytes :=
      if c = 58 then
        match r with
        | c2 :: _ => if c2 = 58 then some r else none
        | [] => none
      else some s
    match start with
    | none => none
    | some src =>
      match pton6Loop src [] none 0 0 src with
      | none => none
      | some (words, colonp, val, seen) =>
        let full : Option (List Nat) :=
          if seen > 0 then (if words.length ≥ 8 then none else some (words ++ [val])) else some words
        match full with
        | none => none
        | some w =>
          match colonp with
          | some k =>
            if w.length = 8 then none
            else some (w.take k ++ List.replicate (8 - w.length) 0 ++ w.drop k)
          | none => if w.length = 8 then some w else none

def hexLower (n : Nat) : Bytes := (Nat.toDigits 16 n).map fun c => UInt8.ofNat c.toNat

/-- the scan for the longest run of zero words in glibc `inet_ntop6`: (best base, best len), first longest wins -/
def bestRun (words : List Nat) : Option (Nat × Nat) :=
  let step := fun (st : Option (Nat × Nat) × Option (Nat × Nat)) (iw : Nat × Nat) =>
    let (best, cur) := st
    let (w, i) := iw
    if w = 0 then
      match cur with
      | none => (best, some (i, 1))
      | some (b, l) => (best, some (b, l + 1))
    else
      match cur with
      | none => (best, none)
      | some (b, l) =>
        match best with
        | none => (some (b, l), none)
        | some (_, bl) => if l > bl then (some (b, l), none) else (best, none)
  let (best, cur) := words.zipIdx.foldl step (none, none)
  let best2 :=
    match cur with
    | none => best
    | some (b, l) =>
      match best with
      | none => some (b, l)
      | some (_, bl) => if l > bl then some (b, l) else best
  match best2 with
  | some (b, l) => if l < 2 then none else some (b, l)
  | none => none

/-- the output loop of glibc `inet_ntop6` -/
def ntop6Loop (words : List Nat) (best : Option (Nat × Nat)) : Nat → Nat → Bytes
  | 0, _ => []
  | f + 1, i =>
    if i ≥ 8 then []
    else
      let inBest : Bool := match best with
        | some (b, l) => decide (i ≥ b) && decide (i < b + l)
        | none => false
      if inBest then
        (if (best.map (·.1)) = some i then [58] else []) ++ ntop6Loop words best f (i + 1)
      else
        let sep : Bytes := if i ≠ 0 then [58] else []
        let encapsulated : Bool := i == 6 &&
          (match best with
           | some (b, l) => b == 0 && (l == 6 || (l == 5 && words.getD 5 0 == 0xffff))
           | none => false)
        if encapsulated then
          sep ++ ntop4 (words.getD 6 0 * 65536 + words.getD 7 0)
        else
          sep ++ hexLower (words.getD i 0) ++ ntop6Loop words best f (i + 1)

/-- glibc `inet_ntop(AF_INET6)` -/
def ntop6 (words : List Nat) : Bytes :=
  let best := bestRun words
  ntop6Loop words best 9 0 ++
    (match best with
     | some (b, l) => if b + l = 8 then [58] else []
     | none => [])

/-- `lookupHostIP(s, true)`: IPv4 first (as getaddrinfo does), then IPv6; the result as Squid stores it (IPv4 = v4-mapped) -/
def lookup (s : Bytes) : Option (List Nat) :=
  match inetAton s with
  | some a => some [0, 0, 0, 0, 0, 0xffff, a / 65536, a % 65536]
  | none => pton6 s

/-- `Ip::Address::fromHost(host)`: bracket unwrapping (`tmp[strlen(tmp)-1] = '\0'` drops the last octet, whatever it is) -/
def fromHost (host : Bytes) : Option (List Nat) :=
  match host with
  | c :: start =>
    if c = 91 then
      if start.isEmpty then none else lookup start.dropLast
    else lookup host
  | [] => lookup host

def isV4Mapped (w : List Nat) : Bool := w.take 6 == [0, 0, 0, 0, 0, 0xffff]
def isAny (w : List Nat) : Bool := w == [0, 0, 0, 0, 0, 0, 0, 0] || w == [0, 0, 0, 0, 0, 0xffff, 0, 0]

/-- `toHostStr()` -/
def toHostStr (w : List Nat) : Bytes :=
  if isV4Mapped w then ntop4 (w.getD 6 0 * 65536 + w.getD 7 0) else [91] ++ ntop6 w ++ [93]

/-- the concrete classification used by the model driver -/
def classify (s : Bytes) : IpClass :=
  if s.contains 37 ∧ s.contains 58 then .unknown
  else
    match fromHost s with
    | none => .notIp
    | some w => if isAny w then .any else .addr (toHostStr w)

end Ip
end SquidModel.Uri
