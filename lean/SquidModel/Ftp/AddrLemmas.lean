/-
Lemmas about the address parsers of SquidModel.Ftp.Addr: what an accepted string looks like (inversion of every branch),
number conversion facts, and acceptance of strictly formed strings.
-/
import SquidModel.Ftp.Addr
import SquidModel.Base.Finite

namespace SquidModel.Ftp
open SquidModel.Gen.FtpParsing

/-- the value fits an `int` -/
def FitsInt (v : Int) : Prop := -2147483648 ≤ v ∧ v ≤ 2147483647

theorem cInt_of_fits {v : Int} (h : FitsInt v) : cInt v = v := by
  unfold FitsInt at h
  unfold cInt clampLong wrapInt longMax intBits
  have h1 : ¬ v > 9223372036854775807 := by omega
  have h2 : ¬ v < -9223372036854775807 - 1 := by omega
  simp only [h1, h2, ↓reduceIte]
  omega

theorem cInt_fits (v : Int) : FitsInt (cInt v) := by
  unfold FitsInt cInt wrapInt intBits
  omega

theorem clampLong_of_fits {v : Int} (h : FitsInt v) : clampLong v = v := by
  unfold FitsInt at h
  unfold clampLong longMax
  have h1 : ¬ v > 9223372036854775807 := by omega
  have h2 : ¬ v < -9223372036854775807 - 1 := by omega
  simp only [h1, h2, ↓reduceIte]

theorem narrow_of_fits (isLong : Bool) {v : Int} (h : FitsInt v) : narrow isLong v = v := by
  unfold narrow
  cases isLong
  · simp only [Bool.false_eq_true, ↓reduceIte]; exact cInt_of_fits h
  · simp only [↓reduceIte]; exact clampLong_of_fits h

/-- a saturated value strictly inside the `long` range is the value as written -/
theorem clampLong_inner {v : Int} (h1 : -9223372036854775808 < clampLong v) (h2 : clampLong v < 9223372036854775807) :
    clampLong v = v := by
  unfold clampLong longMax at h1 h2 ⊢
  split
  · rename_i hgt; simp only [hgt, ↓reduceIte] at h2; omega
  · rename_i hgt
    split
    · rename_i hlt; simp only [hgt, hlt, ↓reduceIte] at h1; omega
    · rfl

/-- the six conversions of `scan6` are the six fields as written, each narrowed to the C type -/
theorem scan6_eq {isLong : Bool} {buf : Bytes} {l : List Int} (h : scan6 isLong buf = some l) :
    ∃ w, lexFields 6 buf = some w ∧ l = w.map (narrow isLong) := by
  unfold scan6 at h
  cases hw : lexFields 6 buf with
  | none => rw [hw] at h; simp at h
  | some w => rw [hw] at h; simp at h; exact ⟨w, rfl, h.symm⟩

theorem lexFields_length : ∀ (n : Nat) (s : Bytes) (w : List Int), lexFields n s = some w → w.length = n
  | 0, _, w, h => by simp [lexFields] at h; subst h; rfl
  | 1, s, w, h => by
    unfold lexFields at h
    cases hl : lexInt s with
    | none => rw [hl] at h; simp at h
    | some p => rw [hl] at h; simp at h; subst h; rfl
  | n + 2, s, w, h => by
    unfold lexFields at h
    split at h
    · rename_i v r hl
      cases hr : lexFields (n + 1) r with
      | none => rw [hr] at h; simp at h
      | some w' =>
        rw [hr] at h; simp at h; subst h
        have := lexFields_length (n + 1) r w' hr
        simp [this]
    · simp at h

theorem pasvPort_ok_inv {sanity : Bool} {a : Nat} {p1 p2 : Int} {ip port : Nat}
    (c1 : 0 ≤ p1) (c3 : p1 ≤ 255) (c2 : 0 ≤ p2) (c4 : p2 ≤ 255)
    (h : pasvPort sanity a p1 p2 = .ok ip port) :
    a = ip ∧ (port : Int) = p1 * 256 + p2 ∧ 1 ≤ port ∧ port ≤ 65535 ∧ (sanity = true → 1024 ≤ port) := by
  unfold pasvPort at h
  split at h
  · exact absurd h (by simp)
  · rename_i hp0
    split at h
    · exact absurd h (by simp)
    · rename_i hsan
      simp only [AddrResult.ok.injEq] at h
      obtain ⟨hip, hport⟩ := h
      have hmod : (p1 * 256 + p2).toNat % 65536 = (p1 * 256 + p2).toNat := by
        apply Nat.mod_eq_of_lt; omega
      have hport' : (port : Int) = p1 * 256 + p2 := by
        rw [← hport, hmod]; omega
      refine ⟨hip, hport', by omega, by omega, ?_⟩
      intro hs1
      simp only [hs1, true_and, Int.not_lt, pasvSanityMinPort] at hsan
      omega

theorem pasvAddr_some_inv {ipParse : Bytes → Option Nat} {force : Option Bytes} {addr0 : Nat} {h1 h2 h3 h4 : Int} {a : Nat}
    (h : pasvAddr ipParse force addr0 h1 h2 h3 h4 = some a) :
    (force = none → a = assignIp ipParse addr0 (fmtQuad h1 h2 h3 h4) ∧ isAny a = false) ∧
    (∀ f, force = some f → a = assignIp ipParse addr0 f) := by
  unfold pasvAddr at h
  cases force with
  | some f =>
    simp only [Option.some.injEq] at h
    refine ⟨fun hf => absurd hf (by simp), ?_⟩
    intro f' hf
    simp only [Option.some.injEq] at hf
    subst hf; exact h.symm
  | none =>
    simp only at h
    split at h
    · exact absurd h (by simp)
    · rename_i hany
      simp only [Option.some.injEq] at h
      subst h
      exact ⟨fun _ => ⟨rfl, by simpa using hany⟩, fun f hf => absurd hf (by simp)⟩

/-- Inversion of Ftp::ParseIpPort (any source variant): everything that must hold of an accepted string. -/
theorem parseIpPort_ok_inv {fl : PasvFlags} {ipParse : Bytes → Option Nat} {sanity : Bool} {force : Option Bytes} {addr0 : Nat}
    {buf : Bytes} {ip port : Nat} (h : parseIpPortCore fl ipParse sanity force addr0 buf = .ok ip port) :
    ∃ h1 h2 h3 h4 p1 p2 : Int, lexFields 6 buf = some [h1, h2, h3, h4, p1, p2] ∧
      0 ≤ narrow fl.long p1 ∧ narrow fl.long p1 ≤ 255 ∧ 0 ≤ narrow fl.long p2 ∧ narrow fl.long p2 ≤ 255 ∧
      (port : Int) = narrow fl.long p1 * 256 + narrow fl.long p2 ∧ 1 ≤ port ∧ port ≤ 65535 ∧
      (sanity = true → 1024 ≤ port) ∧
      (force = none → ip = assignIp ipParse addr0 (fmtQuad (narrow fl.long h1) (narrow fl.long h2) (narrow fl.long h3) (narrow fl.long h4)) ∧
        isAny ip = false) ∧
      (∀ f, force = some f → ip = assignIp ipParse addr0 f) ∧
      (fl.hostChecked = true → (0 ≤ narrow fl.long h1 ∧ narrow fl.long h1 ≤ 255) ∧ (0 ≤ narrow fl.long h2 ∧ narrow fl.long h2 ≤ 255) ∧
        (0 ≤ narrow fl.long h3 ∧ narrow fl.long h3 ≤ 255) ∧ (0 ≤ narrow fl.long h4 ∧ narrow fl.long h4 ≤ 255)) := by
  unfold parseIpPortCore at h
  split at h
  · rename_i a1 a2 a3 a4 b1 b2 hs
    obtain ⟨w, hw, hl⟩ := scan6_eq hs
    have hlen := lexFields_length 6 buf w hw
    match w, hlen, hl with
    | [h1, h2, h3, h4, p1, p2], _, hl =>
      simp only [List.map_cons, List.map_nil, List.cons.injEq, and_true] at hl
      obtain ⟨e1, e2, e3, e4, e5, e6⟩ := hl
      subst e1 e2 e3 e4 e5 e6
      refine ⟨h1, h2, h3, h4, p1, p2, hw, ?_⟩
      split at h
      · exact absurd h (by simp)
      · rename_i hc
        simp only [not_or, Int.not_lt, pasvOctetMax] at hc
        obtain ⟨c1, c2, c3, c4⟩ := hc
        have c3' : narrow fl.long p1 ≤ 255 := by omega
        have c4' : narrow fl.long p2 ≤ 255 := by omega
        split at h
        · exact absurd h (by simp)
        · rename_i hh
          split at h
          · exact absurd h (by simp)
          · rename_i a ha
            obtain ⟨hip, r⟩ := pasvPort_ok_inv c1 c3' c2 c4' h
            subst hip
            obtain ⟨q1, q2⟩ := pasvAddr_some_inv ha
            refine ⟨c1, c3', c2, c4', r.1, r.2.1, r.2.2.1, r.2.2.2, q1, q2, ?_⟩
            intro hck
            simp only [hck, true_and, not_or, Int.not_lt] at hh
            omega
  · exact absurd h (by simp)

/-! ### EPRT -/

/-- The fields of an EPRT string as written, read the way Ftp::ParseProtoIpPort walks the string: protocol number,
address text, port number (`none` when there are no digits: strtol then yields 0). -/
def eprtAsWritten (buf : Bytes) : Option (Int × Bytes × Option Int) :=
  match buf with
  | [] => none
  | delim :: s =>
    match lexInt s with
    | none => none
    | some (pw, e) =>
      if e.head? = some delim then
        match splitAtByte delim e.tail with
        | some (ipTxt, rest) => some (pw, ipTxt, (lexInt rest).map (·.1))
        | none => none
      else none

/-- the `port` variable Ftp::ParseProtoIpPort computes from the port field as written -/
def eprtPortC (isLong : Bool) : Option Int → Int
  | some v => narrow isLong v
  | none => 0

theorem strtolC_fst (isLong : Bool) (s : Bytes) : (strtolC isLong s).1 = eprtPortC isLong ((lexInt s).map (·.1)) := by
  unfold strtolC eprtPortC
  cases lexInt s with
  | none => rfl
  | some p => rfl

theorem eprtPort_ok_inv {fl : EprtFlags} {sanity : Bool} {proto : Int} {addr : Nat} {rest : Bytes} {ip port : Nat}
    (h : eprtPort fl sanity proto addr rest = .ok ip port) :
    addr = ip ∧ isAny ip = false ∧ ((proto = 2) ↔ isV4 ip = false) ∧ fl.portMin ≤ (strtolC fl.long rest).1 ∧
      (0 ≤ fl.portMax → (strtolC fl.long rest).1 ≤ fl.portMax) ∧
      (strtolC fl.long rest).2.head? = some 124 ∧ (sanity = true → 1024 ≤ (strtolC fl.long rest).1) ∧
      port = (strtolC fl.long rest).1.toNat % 65536 := by
  unfold eprtPort at h
  split at h
  · exact absurd h (by simp)
  · rename_i hany
    split at h
    · exact absurd h (by simp)
    · rename_i hfam
      split at h
      · exact absurd h (by simp)
      · rename_i hport
        split at h
        · exact absurd h (by simp)
        · rename_i hsan
          simp only [AddrResult.ok.injEq] at h
          obtain ⟨hip, hp⟩ := h
          subst hip
          simp only [not_or, Int.not_lt, ne_eq, Decidable.not_not, not_and] at hport
          refine ⟨rfl, by simpa using hany, ?_, hport.1, ?_, hport.2.2, ?_, hp.symm⟩
          · simp only [ne_eq, Decidable.not_not] at hfam
            rw [hfam]
          · intro hm
            have := hport.2.1 hm
            omega
          · intro hs
            simp only [hs, true_and, Int.not_lt, eprtSanityMinPort] at hsan
            exact hsan

theorem eprtAddr_ok_inv {fl : EprtFlags} {ipParse : Bytes → Option Nat} {sanity : Bool} {addr0 : Nat} {delim : UInt8} {proto : Int}
    {e : Bytes} {ip port : Nat} (h : eprtAddr fl ipParse sanity addr0 delim proto e = .ok ip port) :
    ∃ ipTxt rest, splitAtByte delim e.tail = some (ipTxt, rest) ∧ ipTxt.length < maxIpStrLen ∧
      eprtPort fl sanity proto (assignIp ipParse addr0 ipTxt) rest = .ok ip port := by
  unfold eprtAddr at h
  split at h
  · exact absurd h (by simp)
  · rename_i ipTxt rest hsp
    split at h
    · exact absurd h (by simp)
    · rename_i hlen
      exact ⟨ipTxt, rest, hsp, by omega, h⟩

/-- Inversion of Ftp::ParseProtoIpPort (any source variant): everything that must hold of an accepted string. -/
theorem parseProtoIpPort_ok_inv {fl : EprtFlags} {ipParse : Bytes → Option Nat} {sanity : Bool} {addr0 : Nat} {buf : Bytes} {ip port : Nat}
    (h : parseProtoIpPortCore fl ipParse sanity addr0 buf = .ok ip port) :
    ∃ pw ipTxt po, eprtAsWritten buf = some (pw, ipTxt, po) ∧ (narrow fl.long pw = 1 ∨ narrow fl.long pw = 2) ∧
      ipTxt.length < maxIpStrLen ∧ ip = assignIp ipParse addr0 ipTxt ∧ isAny ip = false ∧
      ((narrow fl.long pw = 2) ↔ isV4 ip = false) ∧ fl.portMin ≤ eprtPortC fl.long po ∧
      (0 ≤ fl.portMax → eprtPortC fl.long po ≤ fl.portMax) ∧ (sanity = true → 1024 ≤ eprtPortC fl.long po) ∧
      port = (eprtPortC fl.long po).toNat % 65536 := by
  unfold parseProtoIpPortCore at h
  split at h
  · exact absurd h (by simp)
  · rename_i delim s
    split at h
    · exact absurd h (by simp)
    · rename_i hc
      simp only [not_or, not_and, ne_eq, Decidable.not_not] at hc
      obtain ⟨hproto, hdelim⟩ := hc
      obtain ⟨ipTxt, rest, hsp, hlen, hp⟩ := eprtAddr_ok_inv h
      obtain ⟨q1, q2, q3, q4, q5, _, q6, q7⟩ := eprtPort_ok_inv hp
      -- the protocol number was converted (otherwise strtol yields 0)
      cases hl : lexInt s with
      | none =>
        simp only [strtolC, hl] at hproto
        exact absurd (hproto (by decide)) (by decide)
      | some pe =>
        obtain ⟨pw, e⟩ := pe
        have hst : strtolC fl.long s = (narrow fl.long pw, e) := by simp only [strtolC, hl]
        rw [hst] at hdelim hsp hp hproto q3
        simp only at hdelim hsp hproto q3
        refine ⟨pw, ipTxt, (lexInt rest).map (·.1), ?_, ?_, hlen, q1.symm, q2, q3, ?_, ?_, ?_, ?_⟩
        · simp only [eprtAsWritten, hl, hdelim, ↓reduceIte, hsp]
        · by_cases h1 : narrow fl.long pw = 1
          · exact Or.inl h1
          · exact Or.inr (hproto h1)
        · rw [← strtolC_fst]; exact q4
        · rw [← strtolC_fst]; exact q5
        · rw [← strtolC_fst]; exact q6
        · rw [← strtolC_fst]; exact q7

/-! ### digit strings: what the lexers make of strictly written numbers -/

/-- value of a digit string -/
def decNat (ds : Bytes) : Nat := ds.foldl (fun a c => a * 10 + (c.toNat - 48)) 0

/-- a non-empty string of decimal digits -/
def IsDec (ds : Bytes) : Prop := ds ≠ [] ∧ ∀ c ∈ ds, isDigit c = true

/-- the next byte (if any) is not a digit -/
def NoDigitAhead (r : Bytes) : Prop := ∀ c r', r = c :: r' → isDigit c = false

theorem digit_not_space : ∀ c : UInt8, (!isDigit c || !isSpace c) = true :=
  forall_octet (fun c => (!isDigit c || !isSpace c)) (by decide +kernel)

theorem digit_not_sign : ∀ c : UInt8, (!isDigit c || (c != 45 && c != 43)) = true :=
  forall_octet (fun c => (!isDigit c || (c != 45 && c != 43))) (by decide +kernel)

theorem digitsVal_append (ds : Bytes) (hd : ∀ c ∈ ds, isDigit c = true) (r : Bytes) (hr : NoDigitAhead r) (acc : Nat) :
    digitsVal (ds ++ r) acc = (ds.foldl (fun a c => a * 10 + (c.toNat - 48)) acc, r) := by
  induction ds generalizing acc with
  | nil =>
    simp only [List.nil_append, List.foldl_nil]
    cases r with
    | nil => rfl
    | cons c r' =>
      have := hr c r' rfl
      simp [digitsVal, this]
  | cons d ds ih =>
    have hdd : isDigit d = true := hd d (by simp)
    simp only [List.cons_append, digitsVal, hdd, ↓reduceIte, List.foldl_cons]
    exact ih (fun c hc => hd c (by simp [hc])) _

theorem lexInt_dec {ds : Bytes} (h : IsDec ds) (r : Bytes) (hr : NoDigitAhead r) :
    lexInt (ds ++ r) = some ((decNat ds : Int), r) := by
  obtain ⟨hne, hd⟩ := h
  cases ds with
  | nil => exact absurd rfl hne
  | cons d ds' =>
    have hdd : isDigit d = true := hd d (by simp)
    have hsp : isSpace d = false := by
      have := digit_not_space d
      simpa [hdd] using this
    have hsg : d ≠ 45 ∧ d ≠ 43 := by
      have := digit_not_sign d
      simpa [hdd] using this
    have hdw : List.dropWhile isSpace (d :: (ds' ++ r)) = d :: (ds' ++ r) := by
      simp [List.dropWhile, hsp]
    have hsign : signOf (d :: (ds' ++ r)) = (false, d :: (ds' ++ r)) := by
      unfold signOf
      split
      · rename_i heq; simp only [List.cons.injEq] at heq; exact absurd heq.1 hsg.1
      · rename_i heq; simp only [List.cons.injEq] at heq; exact absurd heq.1 hsg.2
      · rfl
    have hv := digitsVal_append (d :: ds') hd r hr 0
    simp only [List.cons_append] at hv
    simp only [lexInt, List.cons_append, hdw, hsign, hdd, ↓reduceIte, Bool.false_eq_true, hv]
    rfl

theorem splitAtByte_append {d : UInt8} (t : Bytes) (ht : ∀ c ∈ t, c ≠ d) (r : Bytes) :
    splitAtByte d (t ++ d :: r) = some (t, r) := by
  induction t with
  | nil => simp [splitAtByte]
  | cons c t ih =>
    have hc : (c == d) = false := by simpa using ht c (by simp)
    simp only [List.cons_append, splitAtByte, hc, Bool.false_eq_true, ↓reduceIte]
    rw [ih (fun x hx => ht x (by simp [hx]))]
    rfl

end SquidModel.Ftp
