/-
Lemmas about the address parsers of SquidModel.Ftp.Addr: what an accepted string looks like (inversion of every branch),
number conversion facts, and acceptance of strictly formed strings.
-/
import SquidModel.Ftp.Addr

namespace SquidModel.Ftp
open SquidModel.Gen.FtpParsing

/-- the value fits an `int` -/
def FitsInt (v : Int) : Prop := -2147483648 ≤ v ∧ v ≤ 2147483647

theorem cInt_of_fits {v : Int} (h : FitsInt v) : cInt v = v := by
  unfold FitsInt at h
  unfold cInt clampLong wrapInt longMax intBits
  have h1 : ¬ v > 9223372036854775807 := by omega
  have h2 : ¬ v < -9223372036854775807 - 1 := by omega
  simp only [h1, h2, ↓reduceIte]
  omega

theorem cInt_fits (v : Int) : FitsInt (cInt v) := by
  unfold FitsInt cInt wrapInt intBits
  omega

/-- the six conversions of `scan6` are the six fields as written, each narrowed to `int` -/
theorem scan6_eq {buf : Bytes} {l : List Int} (h : scan6 buf = some l) :
    ∃ w, lexFields 6 buf = some w ∧ l = w.map cInt := by
  unfold scan6 at h
  cases hw : lexFields 6 buf with
  | none => rw [hw] at h; simp at h
  | some w => rw [hw] at h; simp at h; exact ⟨w, rfl, h.symm⟩

theorem lexFields_length : ∀ (n : Nat) (s : Bytes) (w : List Int), lexFields n s = some w → w.length = n
  | 0, _, w, h => by simp [lexFields] at h; subst h; rfl
  | 1, s, w, h => by
    unfold lexFields at h
    cases hl : lexInt s with
    | none => rw [hl] at h; simp at h
    | some p => rw [hl] at h; simp at h; subst h; rfl
  | n + 2, s, w, h => by
    unfold lexFields at h
    split at h
    · rename_i v r hl
      cases hr : lexFields (n + 1) r with
      | none => rw [hr] at h; simp at h
      | some w' =>
        rw [hr] at h; simp at h; subst h
        have := lexFields_length (n + 1) r w' hr
        simp [this]
    · simp at h

/-- Inversion of Ftp::ParseIpPort: everything that must hold of an accepted string. -/
theorem parseIpPort_ok_inv {ipParse : Bytes → Option Nat} {sanity : Bool} {force : Option Bytes} {addr0 : Nat}
    {buf : Bytes} {ip port : Nat} (h : parseIpPort ipParse sanity force addr0 buf = .ok ip port) :
    ∃ h1 h2 h3 h4 p1 p2 : Int, lexFields 6 buf = some [h1, h2, h3, h4, p1, p2] ∧
      0 ≤ cInt p1 ∧ cInt p1 ≤ 255 ∧ 0 ≤ cInt p2 ∧ cInt p2 ≤ 255 ∧
      (port : Int) = cInt p1 * 256 + cInt p2 ∧ 1 ≤ port ∧ port ≤ 65535 ∧
      (sanity = true → 1024 ≤ port) ∧
      (force = none → ip = assignIp ipParse addr0 (fmtQuad (cInt h1) (cInt h2) (cInt h3) (cInt h4)) ∧ isAny ip = false) ∧
      (∀ f, force = some f → ip = assignIp ipParse addr0 f) := by
  unfold parseIpPort at h
  split at h
  · rename_i a1 a2 a3 a4 b1 b2 hs
    obtain ⟨w, hw, hl⟩ := scan6_eq hs
    have hlen := lexFields_length 6 buf w hw
    match w, hlen, hl with
    | [h1, h2, h3, h4, p1, p2], _, hl =>
      simp only [List.map_cons, List.map_nil, List.cons.injEq, and_true] at hl
      obtain ⟨e1, e2, e3, e4, e5, e6⟩ := hl
      subst e1 e2 e3 e4 e5 e6
      refine ⟨h1, h2, h3, h4, p1, p2, hw, ?_⟩
      simp only [pasvOctetMax, pasvSanityMinPort] at h
      by_cases hc : (decide (cInt p1 < 0) || decide (cInt p2 < 0) || decide (cInt p1 > 255) || decide (cInt p2 > 255)) = true
      · rw [if_pos hc] at h; exact absurd h (by simp)
      · rw [if_neg hc] at h
        simp only [Bool.or_eq_true, decide_eq_true_eq, not_or, Int.not_lt] at hc
        obtain ⟨⟨⟨c1, c2⟩, c3⟩, c4⟩ := hc
        have c3' : cInt p1 ≤ 255 := by omega
        have c4' : cInt p2 ≤ 255 := by omega
        -- the tail shared by both ways of obtaining the address
        have tail : ∀ a : Nat,
            (if cInt p1 * 256 + cInt p2 ≤ 0 then AddrResult.reject
              else if (sanity && decide (cInt p1 * 256 + cInt p2 < 1024)) = true then AddrResult.reject
              else AddrResult.ok a ((cInt p1 * 256 + cInt p2).toNat % 65536)) = AddrResult.ok ip port →
            a = ip ∧ (port : Int) = cInt p1 * 256 + cInt p2 ∧ 1 ≤ port ∧ port ≤ 65535 ∧ (sanity = true → 1024 ≤ port) := by
          intro a ht
          by_cases hp0 : cInt p1 * 256 + cInt p2 ≤ 0
          · rw [if_pos hp0] at ht; exact absurd ht (by simp)
          · rw [if_neg hp0] at ht
            by_cases hsan : (sanity && decide (cInt p1 * 256 + cInt p2 < 1024)) = true
            · rw [if_pos hsan] at ht; exact absurd ht (by simp)
            · rw [if_neg hsan] at ht
              simp only [AddrResult.ok.injEq] at ht
              obtain ⟨hip, hport⟩ := ht
              have hmod : (cInt p1 * 256 + cInt p2).toNat % 65536 = (cInt p1 * 256 + cInt p2).toNat := by
                apply Nat.mod_eq_of_lt; omega
              have hport' : (port : Int) = cInt p1 * 256 + cInt p2 := by
                rw [← hport, hmod]; omega
              refine ⟨hip, hport', by omega, by omega, ?_⟩
              intro hs1
              simp only [hs1, Bool.true_and, decide_eq_true_eq, Int.not_lt] at hsan
              omega
        cases force with
        | some f =>
          simp only at h
          obtain ⟨hip, r⟩ := tail _ h
          refine ⟨c1, c3', c2, c4', r.1, r.2.1, r.2.2.1, r.2.2.2, ?_, ?_⟩
          · intro hf; exact absurd hf (by simp)
          · intro f' hf
            simp only [Option.some.injEq] at hf
            subst hf; exact hip.symm
        | none =>
          simp only at h
          by_cases hany : isAny (assignIp ipParse addr0 (fmtQuad (cInt h1) (cInt h2) (cInt h3) (cInt h4))) = true
          · rw [if_pos hany] at h; exact absurd h (by simp)
          · rw [if_neg hany] at h
            simp only at h
            obtain ⟨hip, r⟩ := tail _ h
            refine ⟨c1, c3', c2, c4', r.1, r.2.1, r.2.2.1, r.2.2.2, ?_, ?_⟩
            · intro _
              subst hip
              exact ⟨rfl, by simpa using hany⟩
            · intro f' hf; exact absurd hf (by simp)
  · exact absurd h (by simp)

end SquidModel.Ftp
