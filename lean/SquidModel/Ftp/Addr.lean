/-
Model of src/ftp/Parsing.cc: Ftp::ParseIpPort (PORT command / 227 PASV reply) and Ftp::ParseProtoIpPort (EPRT command),
branch by branch.

An `Ip::Address` value is the 128-bit number held in `sin6_addr` (IPv4 addresses are v4-mapped, as in Ip::Address).
Text-to-address conversion (`Ip::Address::operator=(const char*)` = getaddrinfo(AI_NUMERICHOST)) is a *parameter*
`ipParse` of the model: `none` = lookupHostIP() failed, in which case the C++ leaves `addr` unchanged (`addr0`).
-/
import SquidModel.Ftp.CNum

namespace SquidModel.Ftp
open SquidModel.Gen.FtpParsing

/-- the variant of Ftp::ParseIpPort found in the source (see Gen.FtpParsing.pasvLong / pasvHostChecked) -/
structure PasvFlags where
  long : Bool
  hostChecked : Bool
  deriving DecidableEq, Repr

/-- the variant of Ftp::ParseProtoIpPort found in the source (see Gen.FtpParsing.eprtLong / eprtPortMin / eprtPortMax) -/
structure EprtFlags where
  long : Bool
  portMin : Int
  portMax : Int
  deriving DecidableEq, Repr

/-- the code as pinned: `int` fields, no host range check; `int` numbers, `port < 0` only -/
def PasvFlags.legacy : PasvFlags := ⟨false, false⟩
def EprtFlags.legacy : EprtFlags := ⟨false, 0, -1⟩
/-- the code with notes/fixes/C40-pasv-component-range.diff resp. C40-eprt-number-range.diff -/
def PasvFlags.fixed : PasvFlags := ⟨true, true⟩
def EprtFlags.fixed : EprtFlags := ⟨true, 1, 65535⟩
/-- the code in the staged tree -/
def PasvFlags.current : PasvFlags := ⟨pasvLong, pasvHostChecked⟩
def EprtFlags.current : EprtFlags := ⟨eprtLong, eprtPortMin, eprtPortMax⟩

inductive AddrResult where
  | reject
  | ok (ip : Nat) (port : Nat)
  deriving DecidableEq, Repr

/-- the v4-mapped form `::ffff:a.b.c.d` -/
def v4 (a b c d : Nat) : Nat := 0xffff * 2 ^ 32 + a * 2 ^ 24 + b * 2 ^ 16 + c * 2 ^ 8 + d

/-- Ip::Address::isAnyAddr: `::` or `::ffff:0.0.0.0` -/
def isAny (ip : Nat) : Bool := ip == 0 || ip == 0xffff * 2 ^ 32

/-- Ip::Address::isIPv4: IN6_IS_ADDR_V4MAPPED -/
def isV4 (ip : Nat) : Bool := ip / 2 ^ 32 == 0xffff

/-- decimal digits of a natural number, most significant first (fuel = an upper bound on the number of digits) -/
def natDigits : Nat → Nat → Bytes
  | 0, _ => []
  | fuel + 1, n => if n < 10 then [UInt8.ofNat (48 + n)] else natDigits fuel (n / 10) ++ [UInt8.ofNat (48 + n % 10)]

/-- `%d` -/
def fmtInt (v : Int) : Bytes :=
  if v < 0 then 45 :: natDigits 40 v.natAbs else natDigits 40 v.natAbs

/-- `snprintf(ipBuf, sizeof(ipBuf), "%d.%d.%d.%d", h1, h2, h3, h4)` (four ints never reach the 1024-byte buffer size) -/
def fmtQuad (h1 h2 h3 h4 : Int) : Bytes :=
  fmtInt h1 ++ [46] ++ fmtInt h2 ++ [46] ++ fmtInt h3 ++ [46] ++ fmtInt h4

/-- `addr = text;` — on a failed conversion the address keeps its previous value -/
def assignIp (ipParse : Bytes → Option Nat) (addr0 : Nat) (text : Bytes) : Nat :=
  (ipParse text).getD addr0

/-- how Ftp::ParseIpPort obtains the address: `none` = `return false` -/
def pasvAddr (ipParse : Bytes → Option Nat) (forceIp : Option Bytes) (addr0 : Nat) (h1 h2 h3 h4 : Int) : Option Nat :=
  match forceIp with
  | some f => some (assignIp ipParse addr0 f)             -- addr = forceIp;
  | none =>
    let a := assignIp ipParse addr0 (fmtQuad h1 h2 h3 h4) -- addr = ipBuf;
    if isAny a then none else some a                      -- if (addr.isAnyAddr()) return false;

/-- the port part of Ftp::ParseIpPort -/
def pasvPort (sanity : Bool) (a : Nat) (p1 p2 : Int) : AddrResult :=
  if p1 * 256 + p2 ≤ 0 then .reject                      -- port = ((p1 << 8) + p2); if (port <= 0) return false;
  else if sanity = true ∧ p1 * 256 + p2 < pasvSanityMinPort then .reject
  else .ok a ((p1 * 256 + p2).toNat % 65536)              -- addr.port(unsigned short)

/-- Ftp::ParseIpPort(buf, forceIp, addr) with `Config.Ftp.sanitycheck = sanity`; `addr0` = value of `addr` on entry. -/
def parseIpPortCore (fl : PasvFlags) (ipParse : Bytes → Option Nat) (sanity : Bool) (forceIp : Option Bytes) (addr0 : Nat) (buf : Bytes) : AddrResult :=
  match scan6 fl.long buf with
  | some [h1, h2, h3, h4, p1, p2] =>
    -- if (n != 6 || p1 < 0 || p2 < 0 || p1 > 255 || p2 > 255) return false;
    if p1 < 0 ∨ p2 < 0 ∨ p1 > pasvOctetMax ∨ p2 > pasvOctetMax then .reject else
    -- (fixed variant only) if (h1 < 0 || ... || h4 > 255) return false;
    if fl.hostChecked = true ∧ (h1 < 0 ∨ h2 < 0 ∨ h3 < 0 ∨ h4 < 0 ∨ h1 > 255 ∨ h2 > 255 ∨ h3 > 255 ∨ h4 > 255) then .reject else
    match pasvAddr ipParse forceIp addr0 h1 h2 h3 h4 with
    | none => .reject
    | some a => pasvPort sanity a p1 p2
  | _ => .reject

/-- the function as it is in the staged tree -/
def parseIpPort := parseIpPortCore PasvFlags.current

/-- `strchr(s, delim)`: (bytes before the first `delim`, bytes after it) -/
def splitAtByte (delim : UInt8) : Bytes → Option (Bytes × Bytes)
  | [] => none
  | c :: r =>
    if c == delim then some ([], r)
    else (splitAtByte delim r).map fun (a, b) => (c :: a, b)

/-- Ftp::ParseProtoIpPort after `addr = ip;` -/
def eprtPort (fl : EprtFlags) (sanity : Bool) (proto : Int) (addr : Nat) (rest : Bytes) : AddrResult :=
  if isAny addr = true then .reject else                   -- if (addr.isAnyAddr()) return false;
  if (proto = 2) ≠ (isV4 addr = false) then .reject else   -- if ((proto == 2) != addr.isIPv6()) return false;
  -- const int port = strtol(s, &e, 10); if (port < 0 || *e != '|') return false;
  -- (fixed variant: const long port; if (port <= 0 || port > 65535 || *e != '|') return false;)
  if (strtolC fl.long rest).1 < fl.portMin ∨ (0 ≤ fl.portMax ∧ (strtolC fl.long rest).1 > fl.portMax) ∨
      (strtolC fl.long rest).2.head? ≠ some 124 then .reject else
  if sanity = true ∧ (strtolC fl.long rest).1 < eprtSanityMinPort then .reject else
  .ok addr ((strtolC fl.long rest).1.toNat % 65536)        -- addr.port(unsigned short)

/-- Ftp::ParseProtoIpPort after the protocol number: `e` points at the delimiter that follows it -/
def eprtAddr (fl : EprtFlags) (ipParse : Bytes → Option Nat) (sanity : Bool) (addr0 : Nat) (delim : UInt8) (proto : Int) (e : Bytes) : AddrResult :=
  match splitAtByte delim e.tail with                      -- s = e + 1; e = strchr(s, delim);
  | none => .reject
  | some (ipTxt, rest) =>
    if ipTxt.length ≥ maxIpStrLen then .reject else        -- if (e - s >= sizeof(ip)) return false;
    eprtPort fl sanity proto (assignIp ipParse addr0 ipTxt) rest

/-- Ftp::ParseProtoIpPort(buf, addr); `buf` is a non-empty C string (the caller answers 501 to empty parameters). -/
def parseProtoIpPortCore (fl : EprtFlags) (ipParse : Bytes → Option Nat) (sanity : Bool) (addr0 : Nat) (buf : Bytes) : AddrResult :=
  match buf with
  | [] => .reject
  | delim :: s =>
    -- const int proto = strtol(s, &e, 10); if ((proto != 1 && proto != 2) || *e != delim) return false;
    if ((strtolC fl.long s).1 ≠ 1 ∧ (strtolC fl.long s).1 ≠ 2) ∨ (strtolC fl.long s).2.head? ≠ some delim then .reject else
    eprtAddr fl ipParse sanity addr0 delim (strtolC fl.long s).1 (strtolC fl.long s).2

/-- the function as it is in the staged tree -/
def parseProtoIpPort := parseProtoIpPortCore EprtFlags.current

/-! ### A concrete text-to-address conversion for canonical dotted quads (used by the driver as the fall-back
and by the `decide`d examples): exactly four decimal fields of 1–3 digits, each ≤ 255. -/

def quadField (s : Bytes) : Option (Nat × Bytes) :=
  match s with
  | c :: _ =>
    if isDigit c then
      let (v, r) := digitsVal s 0
      if s.length - r.length ≤ 3 && v ≤ 255 then some (v, r) else none
    else none
  | [] => none

def strictQuad (s : Bytes) : Option Nat :=
  match quadField s with
  | some (a, 46 :: r1) =>
    match quadField r1 with
    | some (b, 46 :: r2) =>
      match quadField r2 with
      | some (c, 46 :: r3) =>
        match quadField r3 with
        | some (d, []) => some (v4 a b c d)
        | _ => none
      | _ => none
    | _ => none
  | _ => none

end SquidModel.Ftp
