/-
Memory-safety facts about the model of ftpListParseParts: the token array bound, token offsets, and the impossibility of
the `oob` outcome (every unchecked index/offset of the C code is within bounds), for every line.
-/
import SquidModel.Ftp.Listing

namespace SquidModel.Ftp
open SquidModel.Gen.FtpParsing

/-- `n_tokens` never exceeds the size of `tokens[MAX_TOKENS]` -/
theorem tokenize_length_le (buf : Bytes) : (tokenize buf).length ≤ maxTokens := by
  unfold tokenize
  exact List.length_take_le _ _

/-- every token lies inside the line and is non-empty -/
theorem tokAux_bounds (L : Nat) : ∀ (s : Bytes) (i : Nat) (cur : Option (Bytes × Nat)),
    i + s.length = L → (∀ t p, cur = some (t, p) → p + t.length = i ∧ t ≠ []) →
    ∀ tk ∈ tokAux s i cur, tk.pos + tk.tok.length ≤ L ∧ tk.tok ≠ []
  | [], i, none, _, _ => by intro tk h; simp [tokAux] at h
  | [], i, some (t, p), hL, hc => by
    intro tk h
    simp only [tokAux, List.mem_singleton] at h
    subst h
    obtain ⟨h1, h2⟩ := hc t p rfl
    simp only [List.length_nil, Nat.add_zero] at hL
    simp only [List.length_reverse, ne_eq, List.reverse_eq_nil_iff]
    exact ⟨by omega, h2⟩
  | c :: r, i, none, hL, _ => by
    intro tk h
    simp only [tokAux] at h
    simp only [List.length_cons] at hL
    split at h
    · exact tokAux_bounds L r (i + 1) none (by omega) (by intro t p hh; simp at hh) tk h
    · refine tokAux_bounds L r (i + 1) (some ([c], i)) (by omega) ?_ tk h
      intro t p hh
      simp only [Option.some.injEq, Prod.mk.injEq] at hh
      obtain ⟨rfl, rfl⟩ := hh
      simp
  | c :: r, i, some (t, p), hL, hc => by
    intro tk h
    simp only [tokAux] at h
    simp only [List.length_cons] at hL
    obtain ⟨h1, h2⟩ := hc t p rfl
    split at h
    · simp only [List.mem_cons] at h
      rcases h with h | h
      · subst h
        simp only [List.length_reverse, ne_eq, List.reverse_eq_nil_iff]
        exact ⟨by omega, h2⟩
      · exact tokAux_bounds L r (i + 1) none (by omega) (by intro t p hh; simp at hh) tk h
    · refine tokAux_bounds L r (i + 1) (some (c :: t, p)) (by omega) ?_ tk h
      intro t' p' hh
      simp only [Option.some.injEq, Prod.mk.injEq] at hh
      obtain ⟨rfl, rfl⟩ := hh
      simp only [List.length_cons, ne_eq, reduceCtorEq, not_false_eq_true, and_true]
      omega

theorem tokenize_bounds (buf : Bytes) : ∀ tk ∈ tokenize buf, tk.pos + tk.tok.length ≤ buf.length ∧ tk.tok ≠ [] := by
  intro tk h
  unfold tokenize at h
  exact tokAux_bounds buf.length buf 0 none (by simp) (by intro t p hh; simp at hh) tk (List.mem_of_mem_take h)

theorem unixFound_ne_oob {buf : Bytes} (skipWs : Bool) (first size year : Tok) (date : Bytes)
    (hy : year.pos + year.tok.length ≤ buf.length) : unixFound buf skipWs first size year date ≠ .oob := by
  unfold unixFound
  simp only
  split
  · omega
  · simp

theorem unixMatch_ne_oob {buf : Bytes} (skipWs : Bool) (first size month day year : Tok)
    (hm : month.pos + month.tok.length ≤ buf.length) (hy : year.pos + year.tok.length ≤ buf.length) :
    unixMatch buf skipWs first size month day year ≠ .oob := by
  unfold unixMatch
  split
  · omega
  · split
    · exact unixFound_ne_oob skipWs first size year _ hy
    · simp

/-- one iteration of the month loop stays inside `tokens[0 .. n_tokens)` and inside the line -/
theorem unixAt_ne_oob {buf : Bytes} {toks : List Tok} (skipWs : Bool) {i : Nat}
    (hb : ∀ tk ∈ toks, tk.pos + tk.tok.length ≤ buf.length) (hi : i + 2 < toks.length) :
    unixAt buf toks skipWs i ≠ .oob := by
  have e0 := List.getElem?_eq_getElem (l := toks) (i := 0) (by omega)
  have e1 := List.getElem?_eq_getElem (l := toks) (i := i - 1) (by omega)
  have e2 := List.getElem?_eq_getElem (l := toks) (i := i) (by omega)
  have e3 := List.getElem?_eq_getElem (l := toks) (i := i + 1) (by omega)
  have e4 := List.getElem?_eq_getElem (l := toks) (i := i + 2) (by omega)
  have b2 := hb (toks[i]'(by omega)) (List.getElem_mem _)
  have b4 := hb (toks[i + 2]'(by omega)) (List.getElem_mem _)
  unfold unixAt
  rw [e0, e1, e2, e3, e4]
  simp only
  split
  · simp
  · split
    · simp
    · split
      · simp
      · split
        · simp
        · exact unixMatch_ne_oob skipWs _ _ _ _ _ b2 b4

theorem unixLoop_ne_oob {buf : Bytes} {toks : List Tok} (skipWs : Bool)
    (hb : ∀ tk ∈ toks, tk.pos + tk.tok.length ≤ buf.length) :
    ∀ (fuel i : Nat), unixLoop buf toks skipWs fuel i ≠ .oob
  | 0, _ => by simp [unixLoop]
  | fuel + 1, i => by
    unfold unixLoop
    split
    · rename_i hi
      have := unixAt_ne_oob skipWs hb hi
      split
      · exact unixLoop_ne_oob skipWs hb fuel (i + 1)
      · rename_i r hr
        exact this
    · simp

theorem dosBranch_ne_oob (toks : List Tok) : dosBranch toks ≠ .oob := by
  unfold dosBranch
  split
  · rename_i hn
    have e0 := List.getElem?_eq_getElem (l := toks) (i := 0) (by omega)
    have e1 := List.getElem?_eq_getElem (l := toks) (i := 1) (by omega)
    have e2 := List.getElem?_eq_getElem (l := toks) (i := 2) (by omega)
    have e3 := List.getElem?_eq_getElem (l := toks) (i := 3) (by omega)
    rw [e0, e1, e2, e3]
    simp only
    split <;> simp
  · simp

/-- ftpListParseParts never indexes `tokens[]` out of bounds and never forms a pointer beyond the line's terminator. -/
theorem listParseParts_ne_oob (triedNlst skipWs : Bool) (buf : Bytes) : listParseParts triedNlst skipWs buf ≠ .oob := by
  have hb : ∀ tk ∈ tokenize buf, tk.pos + tk.tok.length ≤ buf.length := fun tk h => (tokenize_bounds buf tk h).1
  have hu := unixLoop_ne_oob skipWs hb (tokenize buf).length 3
  have hd := dosBranch_ne_oob (tokenize buf)
  unfold listParseParts
  split
  · simp
  · split
    · simp
    · simp only
      split
      · rename_i h; exact absurd h hu
      · simp
      · split
        · rename_i h; exact absurd h hd
        · simp
        · split
          · split <;> simp
          · simp

/-! ### the date always fits the static `tbuf` (or is the 24-byte ctime text) -/

def DateFits (d : Option Bytes) : Prop := ∀ x, d = some x → x.length < tbufSize

theorem inTbuf_fits (s : Bytes) : DateFits (some (inTbuf s)) := by
  intro x hx
  simp only [Option.some.injEq] at hx
  subst hx
  unfold inTbuf tbufSize
  simp only [List.length_take]
  omega

theorem dateFits_none : DateFits none := by intro x hx; simp at hx

theorem unixFound_date {buf : Bytes} {skipWs : Bool} {first size year : Tok} {date : Bytes} {p : Parts}
    (h : unixFound buf skipWs first size year date = .found p) : p.date = some date := by
  unfold unixFound at h
  simp only at h
  split at h
  · exact absurd h (by simp)
  · simp only [UnixStep.found.injEq] at h
    subst h; rfl

theorem unixMatch_date {buf : Bytes} {skipWs : Bool} {first size month day year : Tok} {p : Parts}
    (h : unixMatch buf skipWs first size month day year = .found p) : DateFits p.date := by
  unfold unixMatch at h
  split at h
  · exact absurd h (by simp)
  · split at h
    · rw [unixFound_date h]; exact inTbuf_fits _
    · exact absurd h (by simp)

theorem unixAt_date {buf : Bytes} {toks : List Tok} {skipWs : Bool} {i : Nat} {p : Parts}
    (h : unixAt buf toks skipWs i = .found p) : DateFits p.date := by
  unfold unixAt at h
  split at h
  · split at h
    · exact absurd h (by simp)
    · split at h
      · exact absurd h (by simp)
      · split at h
        · exact absurd h (by simp)
        · split at h
          · exact absurd h (by simp)
          · exact unixMatch_date h
  · exact absurd h (by simp)

theorem unixLoop_date {buf : Bytes} {toks : List Tok} {skipWs : Bool} {p : Parts} :
    ∀ (fuel i : Nat), unixLoop buf toks skipWs fuel i = .found p → DateFits p.date
  | 0, _ => by intro h; simp [unixLoop] at h
  | fuel + 1, i => by
    intro h
    unfold unixLoop at h
    split at h
    · split at h
      · exact unixLoop_date fuel (i + 1) h
      · rename_i r hr
        exact unixAt_date h
    · exact absurd h (by simp)

theorem dosBranch_date {toks : List Tok} {p : Parts} (h : dosBranch toks = .found p) : DateFits p.date := by
  unfold dosBranch at h
  split at h
  · split at h
    · split at h
      · simp only [UnixStep.found.injEq] at h
        subst h
        exact inTbuf_fits _
      · exact absurd h (by simp)
    · exact absurd h (by simp)
  · exact absurd h (by simp)

/-- the EPLF date is either absent or the ctime(0) text -/
def EplfDateOk (st : EplfState) : Prop := st.date = none ∨ st.date = some ctime0

theorem eplfFact_date {ct : Bytes} {l : Nat} {st : EplfState} (h : EplfDateOk st) : EplfDateOk (eplfFact ct l st) := by
  unfold eplfFact
  split
  · exact h
  · exact h
  · split
    · exact h
    · exact Or.inr rfl
  · exact h
  · exact h
  · exact h

theorem eplfLoop_date : ∀ (fuel : Nat) (ct : Bytes) (st : EplfState), EplfDateOk st → EplfDateOk (eplfLoop fuel ct st)
  | 0, _, st, h => by simpa [eplfLoop] using h
  | fuel + 1, ct, st, h => by
    unfold eplfLoop
    split
    · exact h
    · simp only
      have h' : EplfDateOk (if (ct.takeWhile (· != 44)).length < 1 then st else eplfFact ct (ct.takeWhile (· != 44)).length st) := by
        split
        · exact h
        · exact eplfFact_date h
      split
      · exact eplfLoop_date fuel _ _ h'
      · exact h'

theorem ctime0_fits : DateFits (some ctime0) := by
  intro x hx
  simp only [Option.some.injEq] at hx
  subst hx
  decide

/-- Whatever ftpListParseParts stores in `p->date` went through the 128-byte `tbuf` with its terminator (or is ctime's
26-byte static text): no line can make the date formatting write beyond `tbuf`. -/
theorem listParseParts_date_fits {triedNlst skipWs : Bool} {buf : Bytes} {p : Parts}
    (h : listParseParts triedNlst skipWs buf = .parts p) : DateFits p.date := by
  unfold listParseParts at h
  split at h
  · exact absurd h (by simp)
  · split at h
    · simp only [ListOutcome.parts.injEq] at h
      subst h; exact dateFits_none
    · simp only at h
      split at h
      · exact absurd h (by simp)
      · rename_i q hq
        simp only [ListOutcome.parts.injEq] at h
        subst h
        exact unixLoop_date _ _ hq
      · split at h
        · exact absurd h (by simp)
        · rename_i q hq
          simp only [ListOutcome.parts.injEq] at h
          subst h
          exact dosBranch_date hq
        · split at h
          · split at h
            · simp only [ListOutcome.parts.injEq] at h
              subst h
              simp only
              have := eplfLoop_date buf.length buf.tail { type := 0, size := 0, date := none, name := none } (Or.inl rfl)
              rcases this with e | e
              · rw [e]; exact dateFits_none
              · rw [e]; exact ctime0_fits
            · exact absurd h (by simp)
          · exact absurd h (by simp)

end SquidModel.Ftp
