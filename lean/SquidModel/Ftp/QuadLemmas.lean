/-
The concrete dotted-quad conversion `strictQuad` (the driver's fall-back for `ipParse`) has the property the PASV theorems
assume of the text-to-address conversion: on a formatted quad "%d.%d.%d.%d" of `int`s it succeeds exactly when the four numbers
are octets, with that address.
-/
import SquidModel.Ftp.AddrLemmas

namespace SquidModel.Ftp

theorem digitChar_isDigit : ∀ k : Nat, k < 10 → isDigit (UInt8.ofNat (48 + k)) = true := by decide
theorem digitChar_val : ∀ k : Nat, k < 10 → (UInt8.ofNat (48 + k)).toNat - 48 = k := by decide

theorem natDigits_all_digits : ∀ (fuel n : Nat), ∀ c ∈ natDigits fuel n, isDigit c = true
  | 0, _ => by intro c h; simp [natDigits] at h
  | fuel + 1, n => by
    intro c h
    unfold natDigits at h
    split at h
    · rename_i hn
      simp only [List.mem_singleton] at h
      subst h; exact digitChar_isDigit n hn
    · simp only [List.mem_append, List.mem_singleton] at h
      rcases h with h | h
      · exact natDigits_all_digits fuel (n / 10) c h
      · subst h; exact digitChar_isDigit (n % 10) (Nat.mod_lt _ (by omega))

theorem natDigits_ne_nil (fuel n : Nat) : natDigits (fuel + 1) n ≠ [] := by
  unfold natDigits
  split <;> simp

/-- with enough fuel the digit string denotes the number -/
theorem natDigits_value : ∀ (fuel n : Nat), n < 10 ^ fuel →
    (natDigits fuel n).foldl (fun a c => a * 10 + (c.toNat - 48)) 0 = n
  | 0, n => by intro h; simp at h; subst h; rfl
  | fuel + 1, n => by
    intro h
    unfold natDigits
    split
    · rename_i hn
      simp only [List.foldl_cons, List.foldl_nil, Nat.zero_mul, Nat.zero_add]
      exact digitChar_val n hn
    · rename_i hn
      have hlt : n / 10 < 10 ^ fuel := by
        rw [Nat.pow_succ] at h
        omega
      simp only [List.foldl_append, List.foldl_cons, List.foldl_nil]
      rw [natDigits_value fuel (n / 10) hlt, digitChar_val (n % 10) (Nat.mod_lt _ (by omega))]
      omega

theorem natDigits_len_small : ∀ n : Nat, n < 256 → (natDigits 40 n).length ≤ 3 := by decide +kernel

/-- `quadField` on a formatted non-negative `int` followed by a non-digit -/
theorem quadField_fmt (n : Nat) (hn : n < 2 ^ 31) (r : Bytes) (hr : NoDigitAhead r) :
    quadField (natDigits 40 n ++ r) = if n ≤ 255 then some (n, r) else none := by
  have hall := natDigits_all_digits 40 n
  have hne := natDigits_ne_nil 39 n
  have hval := natDigits_value 40 n (by omega)
  have hdv := digitsVal_append (natDigits 40 n) hall r hr 0
  rw [hval] at hdv
  cases hd : natDigits 40 n with
  | nil => exact absurd hd hne
  | cons c cs =>
    have hc : isDigit c = true := hall c (by rw [hd]; simp)
    rw [hd] at hdv
    simp only [List.cons_append] at hdv ⊢
    unfold quadField
    simp only [hc, ↓reduceIte, hdv]
    by_cases h255 : n ≤ 255
    · have hlen := natDigits_len_small n (by omega)
      rw [hd] at hlen
      simp only [List.length_cons, List.length_append] at hlen ⊢
      have : cs.length + r.length + 1 - r.length ≤ 3 := by omega
      simp [h255, this]
    · simp [h255]

theorem fmtInt_neg_quadField (v : Int) (hv : v < 0) (r : Bytes) : quadField (fmtInt v ++ r) = none := by
  unfold fmtInt
  simp only [hv, ↓reduceIte, List.cons_append]
  unfold quadField
  simp only
  rfl

theorem fmtInt_nonneg (v : Int) (hv : 0 ≤ v) : fmtInt v = natDigits 40 v.toNat := by
  unfold fmtInt
  have : ¬ v < 0 := by omega
  simp only [this, ↓reduceIte]
  congr 1
  omega

/-- `quadField` on a formatted `int` followed by a non-digit: succeeds exactly on octets -/
theorem quadField_fmtInt (v : Int) (hf : FitsInt v) (r : Bytes) (hr : NoDigitAhead r) :
    quadField (fmtInt v ++ r) = if 0 ≤ v ∧ v ≤ 255 then some (v.toNat, r) else none := by
  by_cases hv : v < 0
  · rw [fmtInt_neg_quadField v hv]
    have : ¬ (0 ≤ v ∧ v ≤ 255) := by omega
    simp [this]
  · have h0 : 0 ≤ v := by omega
    rw [fmtInt_nonneg v h0, quadField_fmt v.toNat (by unfold FitsInt at hf; omega) r hr]
    by_cases h255 : v ≤ 255
    · have : v.toNat ≤ 255 := by omega
      simp [this, h0, h255]
    · have : ¬ v.toNat ≤ 255 := by omega
      simp [this, h255]

theorem noDigitAhead_dot (r : Bytes) : NoDigitAhead (46 :: r) := by
  intro c r' h
  simp only [List.cons.injEq] at h
  rw [← h.1]; decide

theorem noDigitAhead_nil : NoDigitAhead [] := by intro c r' h; simp at h

/-- `strictQuad` on "%d.%d.%d.%d" of four `int`s -/
theorem strictQuad_fmtQuad (a b c d : Int) (fa : FitsInt a) (fb : FitsInt b) (fc : FitsInt c) (fd : FitsInt d) :
    strictQuad (fmtQuad a b c d) =
      if (0 ≤ a ∧ a ≤ 255) ∧ (0 ≤ b ∧ b ≤ 255) ∧ (0 ≤ c ∧ c ≤ 255) ∧ (0 ≤ d ∧ d ≤ 255)
      then some (v4 a.toNat b.toNat c.toNat d.toNat) else none := by
  have e : fmtQuad a b c d = fmtInt a ++ 46 :: (fmtInt b ++ 46 :: (fmtInt c ++ 46 :: (fmtInt d ++ []))) := by
    simp [fmtQuad, List.append_assoc]
  rw [e]
  unfold strictQuad
  rw [quadField_fmtInt a fa _ (noDigitAhead_dot _)]
  by_cases ha : 0 ≤ a ∧ a ≤ 255
  · simp only [ha, and_self, ↓reduceIte, true_and]
    rw [quadField_fmtInt b fb _ (noDigitAhead_dot _)]
    by_cases hb : 0 ≤ b ∧ b ≤ 255
    · simp only [hb, and_self, ↓reduceIte, true_and]
      rw [quadField_fmtInt c fc _ (noDigitAhead_dot _)]
      by_cases hc : 0 ≤ c ∧ c ≤ 255
      · simp only [hc, and_self, ↓reduceIte, true_and]
        rw [quadField_fmtInt d fd _ noDigitAhead_nil]
        by_cases hd : 0 ≤ d ∧ d ≤ 255
        · simp only [hd, and_self, ↓reduceIte]
        · simp only [hd, ↓reduceIte]
      · simp only [hc, ↓reduceIte, false_and]
    · simp only [hb, ↓reduceIte, false_and]
  · simp only [ha, ↓reduceIte, false_and]

end SquidModel.Ftp
