/-
What ftpListParseParts returns as `name` and `link` is always a contiguous piece of the received line (no byte is
invented, nothing from outside the line is copied), for every line.
-/
import SquidModel.Ftp.ListingLemmas

namespace SquidModel.Ftp
open SquidModel.Gen.FtpParsing

/-- token images are pieces of the line -/
theorem tokAux_infix : ∀ (s : Bytes) (i : Nat) (cur : Option (Bytes × Nat)),
    ∀ tk ∈ tokAux s i cur, tk.tok <:+: ((match cur with | some (t, _) => t.reverse | none => []) ++ s)
  | [], _, none => by intro tk h; simp [tokAux] at h
  | [], _, some (t, p) => by
    intro tk h
    simp only [tokAux, List.mem_singleton] at h
    subst h
    simp
  | c :: r, i, none => by
    intro tk h
    simp only [tokAux] at h
    simp only [List.nil_append]
    split at h
    · have := tokAux_infix r (i + 1) none tk h
      simp only [List.nil_append] at this
      exact this.trans (List.suffix_cons c r).isInfix
    · have := tokAux_infix r (i + 1) (some ([c], i)) tk h
      simpa using this
  | c :: r, i, some (t, p) => by
    intro tk h
    simp only [tokAux] at h
    split at h
    · simp only [List.mem_cons] at h
      rcases h with h | h
      · subst h
        exact (List.prefix_append _ _).isInfix
      · have := tokAux_infix r (i + 1) none tk h
        simp only [List.nil_append] at this
        exact this.trans ((List.suffix_cons c r).isInfix.trans (List.suffix_append _ _).isInfix)
    · have := tokAux_infix r (i + 1) (some (c :: t, p)) tk h
      simpa using this

theorem tokenize_infix (buf : Bytes) : ∀ tk ∈ tokenize buf, tk.tok <:+: buf := by
  intro tk h
  unfold tokenize at h
  have := tokAux_infix buf 0 none tk (List.mem_of_mem_take h)
  simpa using this

theorem splitArrow_spec : ∀ (s a b : Bytes), splitArrow s = some (a, b) → s = a ++ [32, 45, 62, 32] ++ b
  | [], a, b => by intro h; simp [splitArrow] at h
  | c :: r, a, b => by
    intro h
    unfold splitArrow at h
    split at h
    · rename_i hp
      simp only [Option.some.injEq, Prod.mk.injEq] at h
      obtain ⟨rfl, rfl⟩ := h
      obtain ⟨t, ht⟩ := List.isPrefixOf_iff_prefix.mp hp
      simp only [List.nil_append]
      rw [← ht]
      simp only [List.cons_append, List.nil_append, List.cons.injEq, true_and] at ht ⊢
      cases r with
      | nil => simp at ht
      | cons r1 r => cases r with
        | nil => simp at ht
        | cons r2 r => cases r with
          | nil => simp at ht
          | cons r3 r =>
            simp only [List.cons.injEq] at ht
            obtain ⟨_, _, _, h4⟩ := ht
            simp [h4]
    · cases hr : splitArrow r with
      | none => rw [hr] at h; simp at h
      | some q =>
        rw [hr] at h
        simp only [Option.map_some, Option.some.injEq, Prod.mk.injEq] at h
        obtain ⟨rfl, rfl⟩ := h
        have := splitArrow_spec r q.1 q.2 (by rw [hr])
        rw [this]
        simp

theorem afterDate_suffix (skipWs : Bool) (rest : Bytes) : afterDate skipWs rest <:+ rest := by
  unfold afterDate
  split
  · exact List.dropWhile_suffix _
  · split
    · split
      · exact List.suffix_cons _ _
      · exact List.suffix_refl _
    · exact List.suffix_refl _

theorem nameLink_infix (type : UInt8) (rest : Bytes) :
    (nameLink type rest).1 <:+: rest ∧ ∀ l, (nameLink type rest).2 = some l → l <:+: rest := by
  unfold nameLink
  split
  · split
    · rename_i n l hs
      have := splitArrow_spec rest n l hs
      refine ⟨?_, ?_⟩
      · simp only
        rw [this, List.append_assoc]
        exact (List.prefix_append _ _).isInfix
      · intro l' hl
        simp only [Option.some.injEq] at hl
        subst hl
        rw [this]
        exact (List.suffix_append _ _).isInfix
    · exact ⟨List.infix_refl _, by intro l h; simp at h⟩
  · exact ⟨List.infix_refl _, by intro l h; simp at h⟩

/-- name and link of a parsed entry are pieces of `buf` -/
def NameInLine (buf : Bytes) (p : Parts) : Prop :=
  (∀ x, p.name = some x → x <:+: buf) ∧ (∀ y, p.link = some y → y <:+: buf)

theorem unixFound_name {buf : Bytes} {skipWs : Bool} {first size year : Tok} {date : Bytes} {p : Parts}
    (h : unixFound buf skipWs first size year date = .found p) : NameInLine buf p := by
  unfold unixFound at h
  simp only at h
  split at h
  · exact absurd h (by simp)
  · simp only [UnixStep.found.injEq] at h
    subst h
    have hs : afterDate skipWs (List.drop (year.pos + year.tok.length) buf) <:+: buf :=
      (afterDate_suffix _ _).isInfix.trans (List.drop_suffix _ _).isInfix
    obtain ⟨h1, h2⟩ := nameLink_infix (first.tok.headD 0) (afterDate skipWs (List.drop (year.pos + year.tok.length) buf))
    refine ⟨?_, ?_⟩
    · intro x hx
      simp only [Option.some.injEq] at hx
      subst hx
      exact h1.trans hs
    · intro y hy
      exact (h2 y hy).trans hs

theorem unixMatch_name {buf : Bytes} {skipWs : Bool} {first size month day year : Tok} {p : Parts}
    (h : unixMatch buf skipWs first size month day year = .found p) : NameInLine buf p := by
  unfold unixMatch at h
  split at h
  · exact absurd h (by simp)
  · split at h
    · exact unixFound_name h
    · exact absurd h (by simp)

theorem unixAt_name {buf : Bytes} {toks : List Tok} {skipWs : Bool} {i : Nat} {p : Parts}
    (h : unixAt buf toks skipWs i = .found p) : NameInLine buf p := by
  unfold unixAt at h
  split at h
  · split at h
    · exact absurd h (by simp)
    · split at h
      · exact absurd h (by simp)
      · split at h
        · exact absurd h (by simp)
        · split at h
          · exact absurd h (by simp)
          · exact unixMatch_name h
  · exact absurd h (by simp)

theorem unixLoop_name {buf : Bytes} {toks : List Tok} {skipWs : Bool} {p : Parts} :
    ∀ (fuel i : Nat), unixLoop buf toks skipWs fuel i = .found p → NameInLine buf p
  | 0, _ => by intro h; simp [unixLoop] at h
  | fuel + 1, i => by
    intro h
    unfold unixLoop at h
    split at h
    · split at h
      · exact unixLoop_name fuel (i + 1) h
      · exact unixAt_name h
    · exact absurd h (by simp)

theorem dosBranch_name {buf : Bytes} {toks : List Tok} (ht : ∀ tk ∈ toks, tk.tok <:+: buf) {p : Parts}
    (h : dosBranch toks = .found p) : NameInLine buf p := by
  unfold dosBranch at h
  split at h
  · split at h
    · rename_i t0 t1 t2 t3 e0 e1 e2 e3
      split at h
      · simp only [UnixStep.found.injEq] at h
        subst h
        refine ⟨?_, by intro y hy; simp at hy⟩
        intro x hx
        simp only [Option.some.injEq] at hx
        subst hx
        exact ht t3 (List.mem_of_getElem? e3)
      · exact absurd h (by simp)
    · exact absurd h (by simp)
  · exact absurd h (by simp)

theorem splitAtComma_suffix : ∀ (ct after : Bytes), eplfLoop.splitAtComma ct = some after → after <:+ ct
  | [], _ => by intro h; simp [eplfLoop.splitAtComma] at h
  | c :: r, after => by
    intro h
    unfold eplfLoop.splitAtComma at h
    split at h
    · simp only [Option.some.injEq] at h
      subst h
      exact List.suffix_cons _ _
    · exact (splitAtComma_suffix r after h).trans (List.suffix_cons _ _)

def EplfNameOk (buf : Bytes) (st : EplfState) : Prop := ∀ x, st.name = some x → x <:+: buf

theorem eplfFact_name {buf ct : Bytes} {l : Nat} {st : EplfState} (hct : ct <:+: buf) (h : EplfNameOk buf st) :
    EplfNameOk buf (eplfFact ct l st) := by
  unfold eplfFact
  split
  · rename_i r
    intro x hx
    simp only [Option.some.injEq] at hx
    subst hx
    exact (List.take_prefix _ _).isInfix.trans ((List.suffix_cons _ _).isInfix.trans hct)
  · exact h
  · split
    · exact h
    · exact h
  · exact h
  · exact h
  · exact h

theorem eplfLoop_name {buf : Bytes} : ∀ (fuel : Nat) (ct : Bytes) (st : EplfState), ct <:+: buf → EplfNameOk buf st →
    EplfNameOk buf (eplfLoop fuel ct st)
  | 0, _, st, _, h => by simpa [eplfLoop] using h
  | fuel + 1, ct, st, hct, h => by
    unfold eplfLoop
    split
    · exact h
    · simp only
      have h' : EplfNameOk buf (if (ct.takeWhile (· != 44)).length < 1 then st else eplfFact ct (ct.takeWhile (· != 44)).length st) := by
        split
        · exact h
        · exact eplfFact_name hct h
      split
      · rename_i after ha
        exact eplfLoop_name fuel after _ ((splitAtComma_suffix ct after ha).isInfix.trans hct) h'
      · exact h'

/-- For every line: the name (and link target) ftpListParseParts returns is a contiguous piece of that line. -/
theorem listParseParts_name_in_line {triedNlst skipWs : Bool} {buf : Bytes} {p : Parts}
    (h : listParseParts triedNlst skipWs buf = .parts p) : NameInLine buf p := by
  unfold listParseParts at h
  split at h
  · exact absurd h (by simp)
  · split at h
    · simp only [ListOutcome.parts.injEq] at h
      subst h
      refine ⟨?_, by intro y hy; simp at hy⟩
      intro x hx
      simp only [Option.some.injEq] at hx
      subst hx
      exact List.infix_refl _
    · simp only at h
      split at h
      · exact absurd h (by simp)
      · rename_i q hq
        simp only [ListOutcome.parts.injEq] at h
        subst h
        exact unixLoop_name _ _ hq
      · split at h
        · exact absurd h (by simp)
        · rename_i q hq
          simp only [ListOutcome.parts.injEq] at h
          subst h
          exact dosBranch_name (tokenize_infix buf) hq
        · split at h
          · split at h
            · rename_i n hn
              simp only [ListOutcome.parts.injEq] at h
              subst h
              refine ⟨?_, by intro y hy; simp at hy⟩
              intro x hx
              simp only [Option.some.injEq] at hx
              subst hx
              have := eplfLoop_name (buf := buf) buf.length buf.tail { type := 0, size := 0, date := none, name := none }
                (List.tail_suffix buf).isInfix (by intro x hx; simp at hx)
              exact this _ hn
            · exact absurd h (by simp)
          · exact absurd h (by simp)

end SquidModel.Ftp
