/-
Lemmas about the EPSV reply model: inversion of an accepted reply, the conversions, acceptance of strictly written replies.
-/
import SquidModel.Ftp.Epsv
import SquidModel.Ftp.AddrLemmas

namespace SquidModel.Ftp
open SquidModel.Gen.FtpParsing

/-- the C value of the port field: `%ld` into long (fixed) or `%hu` into unsigned short (pinned) -/
def epsvConv (fixed : Bool) (v : Int) : Int := if fixed then clampLong v else (huConv v : Int)

theorem huConv_lt (v : Int) : huConv v < 65536 := by
  unfold huConv
  exact Nat.mod_lt _ (by decide)

theorem huConv_of_small {v : Int} (h0 : 0 ≤ v) (h1 : v ≤ 65535) : (huConv v : Int) = v := by
  unfold huConv longMax
  have a : ¬ v.natAbs > (2 * (9223372036854775807 : Int) + 1).toNat := by omega
  have b : ¬ v < 0 := by omega
  simp only [a, b, ↓reduceIte]
  omega

theorem epsvPortCheck_inv {fixed sanity : Bool} {port : Int} {p : Nat} (h : epsvPortCheck fixed sanity port = some p) :
    port ≠ 0 ∧ (p : Int) = port.toNat ∧ (sanity = true → 1024 ≤ port) ∧ (fixed = true → 1 ≤ port ∧ port ≤ 65535) := by
  unfold epsvPortCheck at h
  split at h
  · exact absurd h (by simp)
  · rename_i hf
    split at h
    · exact absurd h (by simp)
    · rename_i h0
      split at h
      · exact absurd h (by simp)
      · rename_i hs
        simp only [Option.some.injEq] at h
        refine ⟨h0, by rw [← h], ?_, ?_⟩
        · intro hs1
          simp only [hs1, true_and, Int.not_lt, eprtSanityMinPort] at hs
          exact hs
        · intro hf1
          simp only [hf1, true_and, not_or, Int.not_le] at hf
          omega

/-- Inversion: what an accepted (or indeterminate) EPSV reply looks like. -/
theorem parseEpsv_inv {fixed sanity : Bool} {reply : Bytes} {p : Nat}
    (h : parseEpsvCore fixed sanity reply = .ok p ∨ parseEpsvCore fixed sanity reply = .indeterminate p) :
    ∃ d r v r2, reply.dropWhile (· != 40) = 40 :: d :: d :: d :: r ∧ lexInt r = some (v, r2) ∧
      epsvPortCheck fixed sanity (epsvConv fixed v) = some p ∧
      (parseEpsvCore fixed sanity reply = .ok p → ∃ rest, r2 = d :: rest) ∧
      (parseEpsvCore fixed sanity reply = .indeterminate p → r2 = [] ∧ fixed = false) := by
  unfold parseEpsvCore at h ⊢
  split at h
  · rename_i h1 h2 h3 r hd
    rw [hd]
    simp only
    cases hl : lexInt r with
    | none => simp [hl] at h
    | some q =>
      obtain ⟨v, r2⟩ := q
      simp only [hl] at h ⊢
      cases r2 with
      | nil =>
        simp only at h ⊢
        cases fixed with
        | true => simp at h
        | false =>
          simp only [Bool.false_eq_true, ↓reduceIte] at h ⊢
          split at h
          · simp at h
          · rename_i hne
            simp only [Bool.or_eq_true, bne_iff_ne, ne_eq, not_or, Decidable.not_not] at hne
            obtain ⟨e2, e3⟩ := hne
            subst e2 e3
            cases hc : epsvPortCheck false sanity (huConv v : Int) with
            | none => simp [hc] at h
            | some p' =>
              simp only [hc] at h
              rcases h with h | h
              · simp at h
              · simp only [EpsvResult.indeterminate.injEq] at h
                subst h
                refine ⟨h1, r, v, [], rfl, hl, ?_, ?_, ?_⟩
                · simp only [epsvConv, Bool.false_eq_true, ↓reduceIte]; exact hc
                · simp
                · simp
      | cons h4 rest =>
        simp only at h ⊢
        split at h
        · simp at h
        · rename_i hne
          simp only [Bool.or_eq_true, bne_iff_ne, ne_eq, not_or, Decidable.not_not] at hne
          obtain ⟨⟨e2, e3⟩, e4⟩ := hne
          subst e2 e3 e4
          cases hc : epsvPortCheck fixed sanity (if fixed = true then clampLong v else (huConv v : Int)) with
          | none => simp [hc] at h
          | some p' =>
            simp only [hc] at h
            rcases h with h | h
            · simp only [EpsvResult.ok.injEq] at h
              subst h
              refine ⟨h1, r, v, h1 :: rest, rfl, hl, ?_, ?_, ?_⟩
              · simp only [epsvConv]; exact hc
              · intro _; exact ⟨rest, rfl⟩
              · simp
            · simp at h
  · simp at h

theorem dropWhile_paren (pre x : Bytes) (hp : ∀ c ∈ pre, c ≠ 40) :
    (pre ++ 40 :: x).dropWhile (· != 40) = 40 :: x := by
  induction pre with
  | nil => simp
  | cons c pre ih =>
    have hc : (c != 40) = true := by simpa using hp c (by simp)
    simp only [List.cons_append, List.dropWhile, hc]
    exact ih (fun x hx => hp x (by simp [hx]))

end SquidModel.Ftp
