/-
libc number scanning as used by src/ftp/Parsing.cc and ftpListParseParts (src/clients/FtpGateway.cc):
`strtol(s, &e, 10)`, `sscanf("%d")`, `atoi`, `strtoll` — modelled, not verified (glibc), and checked against the running
code by the C40 correspondence run.

The lexing (`lexInt`) yields the integer *as written*, unbounded; the C conversions are applied on top of it:
`clampLong` (strtol saturates at LONG_MAX / LONG_MIN) and `wrapInt` (storing a long into an `int` keeps the low 32 bits:
`const int port = strtol(...)`, and glibc's `%d` which converts with strtol and stores `(int)`).
-/
import SquidModel.Base.Bytes
import SquidModel.Gen.FtpParsing

namespace SquidModel.Ftp
open SquidModel.Gen.FtpParsing

/-- libc `isspace` in the C locale (table dumped from the running libc) -/
def isSpace (c : UInt8) : Bool := isspaceBytes.contains c

def isDigit (c : UInt8) : Bool := 48 ≤ c && c ≤ 57

/-- value of the maximal digit prefix (accumulated onto `acc`) and the rest of the string -/
def digitsVal : Bytes → Nat → Nat × Bytes
  | [], acc => (acc, [])
  | c :: r, acc => if isDigit c then digitsVal r (acc * 10 + (c.toNat - 48)) else (acc, c :: r)

/-- optional sign: (negative?, rest) -/
def signOf : Bytes → Bool × Bytes
  | 45 :: r => (true, r)
  | 43 :: r => (false, r)
  | s => (false, s)

/-- The subject sequence of strtol/`%d` in base 10: optional white space, optional sign, at least one digit.
`none` = no conversion. The value is the integer as written (no C range applied yet). -/
def lexInt (s : Bytes) : Option (Int × Bytes) :=
  let s1 := s.dropWhile isSpace
  let (neg, s2) := signOf s1
  match s2 with
  | c :: _ =>
    if isDigit c then
      let (v, rest) := digitsVal s2 0
      some (if neg then -(v : Int) else (v : Int), rest)
    else none
  | [] => none

/-- strtol saturation -/
def clampLong (v : Int) : Int :=
  if v > longMax then longMax else if v < -longMax - 1 then -longMax - 1 else v

/-- strtoll saturation -/
def clampLLong (v : Int) : Int :=
  if v > llongMax then llongMax else if v < -llongMax - 1 then -llongMax - 1 else v

/-- conversion of a long to `int`: the low `intBits` bits, two's complement -/
def wrapInt (v : Int) : Int :=
  (v + 2 ^ (intBits - 1)) % 2 ^ intBits - 2 ^ (intBits - 1)

/-- a long stored into an `int` variable -/
def cInt (v : Int) : Int := wrapInt (clampLong v)

/-- the C value of a converted number: kept as `long` (saturated) or stored into an `int` (saturated, then low 32 bits) -/
def narrow (isLong : Bool) (v : Int) : Int := if isLong then clampLong v else cInt v

/-- `const T x = strtol(s, &e, 10)` with T = long / int: (x, e); without a conversion x = 0 and e = s -/
def strtolC (isLong : Bool) (s : Bytes) : Int × Bytes :=
  match lexInt s with
  | none => (0, s)
  | some (v, r) => (narrow isLong v, r)

/-- `const int x = strtol(s, &e, 10)` -/
def strtolInt (s : Bytes) : Int × Bytes := strtolC false s

/-- `atoi(s)` (glibc: `(int) strtol(s, NULL, 10)`) -/
def atoi (s : Bytes) : Int := (strtolInt s).1

/-- `strtoll(s, nullptr, 10)` -/
def strtoll (s : Bytes) : Int :=
  match lexInt s with
  | none => 0
  | some (v, _) => clampLLong v

/-- one `%d` of sscanf: `none` = matching failure -/
def scanfD (s : Bytes) : Option (Int × Bytes) :=
  (lexInt s).map fun (v, r) => (cInt v, r)

/-- the fields of `"%d,%d,...,%d"` (n conversions) as written; `none` when fewer than n conversions succeed -/
def lexFields : Nat → Bytes → Option (List Int)
  | 0, _ => some []
  | 1, s => (lexInt s).map fun (v, _) => [v]
  | n + 2, s =>
    match lexInt s with
    | some (v, 44 :: r) => (lexFields (n + 1) r).map (v :: ·)
    | _ => none

/-- what `sscanf(buf, "%d,%d,%d,%d,%d,%d", ...)` (or "%ld,..." into longs) stores when it returns 6 -/
def scan6 (isLong : Bool) (s : Bytes) : Option (List Int) := (lexFields 6 s).map (List.map (narrow isLong))

end SquidModel.Ftp
