/-
Model of the port extraction in Ftp::Client::handleEpsvReply (src/clients/FtpClient.cc): the statements between
`buf = ctrl.last_reply + strcspn(ctrl.last_reply, "(");` and `remoteAddr = ctrl.conn->remote;`, i.e.
`sscanf(buf, "(%c%c%c%hu%c)", &h1, &h2, &h3, &port, &h4)`, the delimiter comparison and the port checks.
The address of an EPSV reply is the peer of the control connection; only the port comes from the string.

Source variants (`epsvFixed` from Gen): pinned code = `%hu` into `unsigned short` (strtoul conversion, low 16 bits kept),
`n < 4`, `0 == port`; fixed (notes/fixes/C40-epsv-port-range.diff) = `%ld` into `long`, `n < 5`, `port <= 0 || port > 65535`.
-/
import SquidModel.Ftp.CNum

namespace SquidModel.Ftp
open SquidModel.Gen.FtpParsing

inductive EpsvResult where
  | reject                      -- `return sendPassive();`
  | ok (port : Nat)
  /-- pinned code only: four conversions succeeded, `h4` is compared uninitialised; the reply is accepted with this port
  iff the stale byte happens to equal the delimiter -/
  | indeterminate (port : Nat)
  deriving DecidableEq, Repr

/-- the conversion of `%hu`: strtoul semantics (a '-' sign negates modulo 2^64, overflow saturates at ULONG_MAX), then the
low 16 bits are stored -/
def huConv (v : Int) : Nat :=
  let ulongMax : Int := 2 * longMax + 1
  let u : Int := if v.natAbs > ulongMax.toNat then ulongMax else if v < 0 then (ulongMax + 1 + v) % (ulongMax + 1) else v
  u.toNat % 65536

/-- the port checks after a successful scan -/
def epsvPortCheck (fixed sanity : Bool) (port : Int) : Option Nat :=
  if fixed = true ∧ (port ≤ 0 ∨ port > 65535) then none      -- fixed: if (port <= 0 || port > 65535)
  else if port = 0 then none                                   -- if (0 == port)
  else if sanity = true ∧ port < eprtSanityMinPort then none   -- if (Config.Ftp.sanitycheck) if (port < 1024)
  else some port.toNat

def parseEpsvCore (fixed sanity : Bool) (reply : Bytes) : EpsvResult :=
  match reply.dropWhile (· != 40) with                         -- buf = last_reply + strcspn(last_reply, "(")
  | 40 :: h1 :: h2 :: h3 :: r =>                               -- "(%c%c%c"
    match lexInt r with                                        -- "%hu" / "%ld"
    | none => .reject                                          -- n == 3
    | some (v, r2) =>
      let port : Int := if fixed then clampLong v else (huConv v : Int)
      match r2 with
      | [] =>                                                  -- n == 4: no byte for the last "%c"
        if fixed then .reject                                  -- fixed: n < 5
        else if h1 != h2 || h1 != h3 then .reject
        else match epsvPortCheck fixed sanity port with
          | none => .reject
          | some p => .indeterminate p
      | h4 :: _ =>
        if h1 != h2 || h1 != h3 || h1 != h4 then .reject
        else match epsvPortCheck fixed sanity port with
          | none => .reject
          | some p => .ok p
  | _ => .reject                                               -- fewer than three conversions

/-- the code as it is in the staged tree -/
def parseEpsv := parseEpsvCore epsvFixed

end SquidModel.Ftp
