/-
Model of ftpListParseParts (src/clients/FtpGateway.cc), branch by branch, and of Ftp::UnescapeDoubleQuoted
(src/ftp/Parsing.cc).

`buf` is the received line as a NUL-free byte list (the terminator is the end of the list). Token-array accesses and
pointer offsets into `buf` that the C code performs unchecked are *checked* here and produce the outcome `oob`;
`SquidModel.Ftp.listParseParts_no_oob` shows that outcome is never produced.
The four POSIX regular expressions are modelled by their (deterministic) languages; `ctime(0)` is a dumped constant.
-/
import SquidModel.Ftp.CNum

namespace SquidModel.Ftp
open SquidModel.Gen.FtpParsing

/-- one entry of `tokens[]`: the token image and its offset in the line -/
structure Tok where
  tok : Bytes
  pos : Nat
  deriving DecidableEq, Repr

structure Parts where
  type : UInt8
  size : Int
  date : Option Bytes
  name : Option Bytes
  link : Option Bytes
  deriving DecidableEq, Repr

inductive ListOutcome where
  | oob                 -- an out-of-bounds token index or line offset (shown impossible)
  | null                -- the function returns nullptr
  | parts (p : Parts)
  deriving DecidableEq, Repr

/-- membership in `w_space` (strchr(w_space, c) for c ≠ 0) -/
def isWs (c : UInt8) : Bool := wSpace.contains c

/-- the strtok() loop without the MAX_TOKENS bound: `cur` = token being collected (reversed) and its offset -/
def tokAux : Bytes → Nat → Option (Bytes × Nat) → List Tok
  | [], _, none => []
  | [], _, some (t, p) => [⟨t.reverse, p⟩]
  | c :: r, i, none => if isWs c then tokAux r (i + 1) none else tokAux r (i + 1) (some ([c], i))
  | c :: r, i, some (t, p) =>
    if isWs c then ⟨t.reverse, p⟩ :: tokAux r (i + 1) none else tokAux r (i + 1) (some (c :: t, p))

/-- `for (t = strtok(xbuf, w_space); t && n_tokens < MAX_TOKENS; t = strtok(nullptr, w_space))` -/
def tokenize (buf : Bytes) : List Tok := (tokAux buf 0 none).take maxTokens

def lower (c : UInt8) : UInt8 := if 65 ≤ c && c ≤ 90 then c + 32 else c

/-- `strcasecmp(a, b) == 0` -/
def eqIgnoreCase (a b : Bytes) : Bool := a.map lower == b.map lower

/-- is_month() -/
def isMonth (t : Bytes) : Bool := months.any (eqIgnoreCase t)

/-- "^[0123456789]+$" -/
def allDigits (t : Bytes) : Bool := !t.isEmpty && t.all isDigit

/-- "^[0123456789:]+$" -/
def timeLike (t : Bytes) : Bool := !t.isEmpty && t.all (fun c => isDigit c || c == 58)

/-- `[0-9]+` at the start: the rest after the maximal digit run, `none` without a digit -/
def digits1 (s : Bytes) : Option Bytes :=
  match s with
  | c :: _ => if isDigit c then some (s.dropWhile isDigit) else none
  | [] => none

/-- "^[0123456789]+-[0123456789]+-[0123456789]+$" -/
def dosDate (t : Bytes) : Bool :=
  match digits1 t with
  | some (45 :: r1) =>
    match digits1 r1 with
    | some (45 :: r2) =>
      match digits1 r2 with
      | some [] => true
      | _ => false
    | _ => false
  | _ => false

/-- "^[0123456789]+:[0123456789]+[AP]M$" with REG_ICASE -/
def dosTime (t : Bytes) : Bool :=
  match digits1 t with
  | some (58 :: r1) =>
    match digits1 r1 with
    | some [a, m] => (lower a == 97 || lower a == 112) && lower m == 109
    | _ => false
  | _ => false

/-- `%Ns` -/
def padLeft (w : Nat) (s : Bytes) : Bytes := List.replicate (w - s.length) 32 ++ s
/-- `%-Ns` -/
def padRight (w : Nat) (s : Bytes) : Bytes := s ++ List.replicate (w - s.length) 32

/-- "%s %2s %5s" -/
def fmtDateA (month day year : Bytes) : Bytes := month ++ [32] ++ padLeft 2 day ++ [32] ++ padLeft 5 year
/-- "%s %2s %-5s" -/
def fmtDateB (month day year : Bytes) : Bytes := month ++ [32] ++ padLeft 2 day ++ [32] ++ padRight 5 year

/-- what snprintf(tbuf, sizeof(tbuf), ...) leaves in `tbuf` (its return value is the untruncated length) -/
def inTbuf (s : Bytes) : Bytes := s.take (tbufSize - 1)

/-- `strncmp(a, b, n) == 0` on NUL-free lists (the end of a list is its terminator) -/
def strncmpEq : Bytes → Bytes → Nat → Bool
  | _, _, 0 => true
  | [], [], _ + 1 => true
  | a :: x, b :: y, n + 1 => a == b && strncmpEq x y n
  | _, _, _ + 1 => false

/-- `strstr(name, " -> ")`: (before, after) -/
def splitArrow : Bytes → Option (Bytes × Bytes)
  | [] => none
  | c :: r =>
    if [32, 45, 62, 32].isPrefixOf (c :: r) then some ([], r.drop 3)
    else (splitArrow r).map fun (a, b) => (c :: a, b)

inductive UnixStep where
  | oob
  | next              -- `continue`
  | stop              -- `break` / loop finished: not a Unix listing line
  | found (p : Parts)
  deriving DecidableEq, Repr

/-- the text after the date: `copyFrom` advanced over white space as `flags.skip_whitespace` says -/
def afterDate (skipWs : Bool) (rest : Bytes) : Bytes :=
  if skipWs then rest.dropWhile isWs                       -- while (*copyFrom && strchr(w_space, *copyFrom)) ++copyFrom;
  else match rest with                                     -- if (*copyFrom && strchr(w_space, *copyFrom)) ++copyFrom;
    | c :: r => if isWs c then r else c :: r
    | [] => []

/-- `p->name`, `p->link`: a symbolic link's name is cut at the first " -> " -/
def nameLink (type : UInt8) (rest : Bytes) : Bytes × Option Bytes :=
  if type == 108 then
    match splitArrow rest with
    | some (n, l) => (n, some l)
    | none => (rest, none)
  else (rest, none)

/-- the body of `if (isTypeA || isTypeB)` -/
def unixFound (buf : Bytes) (skipWs : Bool) (first size year : Tok) (date : Bytes) : UnixStep :=
  let idx := year.pos + year.tok.length                    -- buf + tokens[i + 2].pos + strlen(tokens[i + 2].token)
  if idx > buf.length then .oob else
  let type := first.tok.headD 0                            -- *tokens[0].token
  let nl := nameLink type (afterDate skipWs (buf.drop idx))
  .found { type := type, size := strtoll size.tok, date := some date, name := some nl.1, link := nl.2 }

/-- isTypeA || isTypeB -/
def dateMatches (copyFrom month day year : Bytes) : Bool :=
  let a := fmtDateA month day year
  let b := fmtDateB month day year
  (a.length == 12 && strncmpEq copyFrom (inTbuf a) a.length) ||
  ((b.length == 12 || b.length == 11) && strncmpEq copyFrom (inTbuf b) b.length)

/-- the loop body once the four tokens look like "size Month day year" -/
def unixMatch (buf : Bytes) (skipWs : Bool) (first size month day year : Tok) : UnixStep :=
  if month.pos > buf.length then .oob else                  -- copyFrom = buf + tokens[i].pos
  if dateMatches (buf.drop month.pos) month.tok day.tok year.tok then
    unixFound buf skipWs first size year (inTbuf (fmtDateA month.tok day.tok year.tok))
  else .stop                                                -- break

/-- one iteration of the "locate the Month field" loop -/
def unixAt (buf : Bytes) (toks : List Tok) (skipWs : Bool) (i : Nat) : UnixStep :=
  match toks[i - 1]?, toks[i]?, toks[i + 1]?, toks[i + 2]?, toks[0]? with
  | some size, some month, some day, some year, some first =>
    if !isMonth month.tok then .next
    else if !allDigits size.tok then .next
    else if !allDigits day.tok then .next
    else if !timeLike year.tok then .next
    else unixMatch buf skipWs first size month day year
  | _, _, _, _, _ => .oob

/-- `for (i = 3; i < n_tokens - 2; ++i)` -/
def unixLoop (buf : Bytes) (toks : List Tok) (skipWs : Bool) : Nat → Nat → UnixStep
  | 0, _ => .stop
  | fuel + 1, i =>
    if i + 2 < toks.length then
      match unixAt buf toks skipWs i with
      | .next => unixLoop buf toks skipWs fuel (i + 1)
      | r => r
    else .stop

/-- "try it as a DOS listing" -/
def dosBranch (toks : List Tok) : UnixStep :=
  if toks.length > 3 then
    match toks[0]?, toks[1]?, toks[2]?, toks[3]? with
    | some t0, some t1, some t2, some t3 =>
      if dosDate t0.tok && dosTime t1.tok then
        let isDir := eqIgnoreCase t2.tok [60, 100, 105, 114, 62]   -- "<dir>"
        .found { type := if isDir then 100 else 45,
                 size := if isDir then 0 else strtoll t2.tok,
                 date := some (inTbuf (t0.tok ++ [32] ++ t1.tok)),
                 name := some t3.tok, link := none }
      else .stop
    | _, _, _, _ => .oob
  else .stop

structure EplfState where
  type : UInt8
  size : Int
  date : Option Bytes
  name : Option Bytes
  deriving DecidableEq, Repr

/-- the `switch (*ct)` of the EPLF loop; `l = strcspn(ct, ",") ≥ 1` -/
def eplfFact (ct : Bytes) (l : Nat) (st : EplfState) : EplfState :=
  match ct with
  | 9 :: r => { st with name := some (r.take l) }                  -- xstrndup(ct + 1, l + 1)
  | 115 :: r => { st with size := atoi r }                         -- 's'
  | 109 :: r =>                                                    -- 'm': strtol(ct + 1, &tmp, 0)
    if (lexInt r).isSome then st                                   -- if (tmp != ct + 1) break;
    else { st with date := some ctime0 }                           -- ctime(&tm) with tm == 0
  | 47 :: _ => { st with type := 100 }                             -- '/'
  | 114 :: _ => { st with type := 45 }                             -- 'r'
  | _ => st

/-- `while (ct && *ct) { ...; ct = strstr(ct, ","); if (ct) ++ct; }` -/
def eplfLoop : Nat → Bytes → EplfState → EplfState
  | 0, _, st => st
  | fuel + 1, ct, st =>
    if ct.isEmpty then st else
    let l := (ct.takeWhile (· != 44)).length                       -- strcspn(ct, ",")
    let st' := if l < 1 then st else eplfFact ct l st
    match splitAtComma ct with
    | some after => eplfLoop fuel after st'
    | none => st'
where
  splitAtComma : Bytes → Option Bytes
    | [] => none
    | c :: r => if c == 44 then some r else splitAtComma r

/-- ftpListParseParts(buf, flags) with flags.tried_nlst and flags.skip_whitespace -/
def listParseParts (triedNlst skipWs : Bool) (buf : Bytes) : ListOutcome :=
  if buf.isEmpty then .null else                                   -- if (*buf == '\0') return nullptr;
  if triedNlst then
    .parts { type := 0, size := 0, date := none, name := some buf, link := none }
  else
    let toks := tokenize buf
    match unixLoop buf toks skipWs toks.length 3 with
    | .oob => .oob
    | .found p => .parts p
    | _ =>
      match dosBranch toks with
      | .oob => .oob
      | .found p => .parts p
      | _ =>
        if buf.head? == some 43 then                               -- if (buf[0] == '+')
          let st := eplfLoop buf.length buf.tail { type := 0, size := 0, date := none, name := none }
          match st.name with
          | some n => .parts { type := if st.type == 0 then 45 else st.type, size := st.size, date := st.date,
                               name := some n, link := none }
          | none => .null                                          -- if (!p->name) ftpListPartsFree(&p);
        else .null

/-! ### Ftp::UnescapeDoubleQuoted -/

def splitAtQuote : Bytes → Option (Bytes × Bytes)
  | [] => none
  | c :: r => if c == 34 then some ([], r) else (splitAtQuote r).map fun (a, b) => (c :: a, b)

def unescapeLoop : Nat → Bytes → Bytes → Bytes
  | 0, _, path => path
  | fuel + 1, s, path =>
    match splitAtQuote s with
    | some (before, 34 :: after) => unescapeLoop fuel after (path ++ before ++ [34])
    | some (before, _) => path ++ before
    | none => []

def unescapeDoubleQuoted (s : Bytes) : Bytes :=
  match s with
  | 34 :: r => unescapeLoop (r.length + 1) r []
  | _ => []

end SquidModel.Ftp
