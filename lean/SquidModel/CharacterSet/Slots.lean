/-
Slot-level model of `CharacterSet` (src/base/CharacterSet.{h,cc}): the `std::vector<uint8_t> chars_` of 256 cells and the
loops of the C++ code over it, function by function. `Base/CharSet.lean` (a 256-bit mask) is the abstract model all parser
models use; `CharacterSet/SlotsLemmas.lean` proves that `abs` (cell ≠ 0 ↦ bit set) commutes with every operation. Core-only.
-/
import SquidModel.Base.CharSetOps
namespace SquidModel
namespace CharacterSet

/-- `Storage chars_` -/
abbrev Slots := List UInt8

/-- `Storage(256, 0)` -/
def blank : Slots := List.replicate 256 0

/-- `operator[]`: `chars_[static_cast<uint8_t>(c)] != 0` -/
def memS (s : Slots) (c : UInt8) : Bool := s.getD c.toNat 0 != 0

/-- `add(c)`: `chars_[c] = 1` -/
def addS (s : Slots) (c : UInt8) : Slots := s.set c.toNat 1

/-- `remove(c)`: `chars_[c] = 0` -/
def removeS (s : Slots) (c : UInt8) : Slots := s.set c.toNat 0

/-- `operator+=`: `while (s != e) { if (*s) *d = 1; ++s; ++d; }` (`d` over our cells, `s` over the source's) -/
def addAssign : Slots → Slots → Slots
  | d :: ds, s :: ss => (if s != 0 then 1 else d) :: addAssign ds ss
  | ds, [] => ds
  | [], _ :: _ => []      -- the source is longer than the destination: cannot happen, both have 256 cells

/-- `operator-=`: `while (s != e) { if (*s) *d = 0; ++s; ++d; }` -/
def subAssign : Slots → Slots → Slots
  | d :: ds, s :: ss => (if s != 0 then 0 else d) :: subAssign ds ss
  | ds, [] => ds
  | [], _ :: _ => []

/-- `complement()`: `std::transform(begin, end, result.begin(), std::logical_not<uint8_t>())` into a fresh 256-cell set -/
def complementS (s : Slots) : Slots := s.map fun v => if v == 0 then 1 else 0

/-- the loop of `addRange`: `while (low < high) { chars_[low] = 1; ++low; }`, `n` iterations from `low` -/
def addRangeLoopS (s : Slots) (low : Nat) : Nat → Slots
  | 0 => s
  | n + 1 => addRangeLoopS (s.set low 1) (low + 1) n

/-- `addRange(low, high)`; the final `chars_[high] = 1` is unconditional -/
def addRangeS (s : Slots) (low high : UInt8) : Slots :=
  (addRangeLoopS s low.toNat (high.toNat - low.toNat)).set high.toNat 1

/-- `CharacterSet(label, const char *c)`: `for (i < strlen(c)) add(c[i])` -/
def ofCStringS (l : Bytes) : Slots := (l.takeWhile (· != 0)).foldl addS blank

/-- `CharacterSet(label, low, high)` and the initializer-list constructor -/
def ofRangesS (rs : List (UInt8 × UInt8)) : Slots := rs.foldl (fun s r => addRangeS s r.1 r.2) blank

/-- `operator==`: `chars_ == cs.chars_` (vector comparison of the cells) -/
def eqS (a b : Slots) : Bool := a == b

/-- `operator+` / `operator-` take `lhs` by value, apply `+=` / `-=` and return it -/
def plus (a b : Slots) : Slots := addAssign a b
def minus (a b : Slots) : Slots := subAssign a b

/-- the class invariant: 256 cells, each 0 or 1 -/
def Canon (s : Slots) : Prop := s.length = 256 ∧ ∀ v ∈ s, v = 0 ∨ v = 1

/-- abstraction to the mask model: bit i set iff cell i is non-zero -/
def maskOf : Slots → Nat
  | [] => 0
  | v :: r => (if v != 0 then 1 else 0) + 2 * maskOf r

def abs (s : Slots) : CharSet := ⟨maskOf s⟩

end CharacterSet
end SquidModel
