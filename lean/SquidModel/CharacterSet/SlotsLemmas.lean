/-
Refinement: the slot-level model of `CharacterSet` (the C++ loops over 256 cells) computes, under the abstraction
`abs` (cell ≠ 0 ↦ member), exactly the operations of the mask model `Base/CharSet.lean`; and membership in the result of
every operation is the corresponding Boolean combination of memberships. Core-only.
-/
import SquidModel.CharacterSet.Slots
set_option linter.unusedSimpArgs false
namespace SquidModel
namespace CharacterSet
open CharSet

/-! ### cells -/

theorem testBit_maskOf (s : Slots) (i : Nat) : (maskOf s).testBit i = (s.getD i 0 != 0) := by
  induction s generalizing i with
  | nil => simp [maskOf]
  | cons v r ih =>
    cases i with
    | zero =>
      simp only [maskOf, Nat.testBit_zero, List.getD_cons_zero]
      by_cases h : v = 0
      · subst h; simp
      · simp [h]
    | succ i =>
      simp only [maskOf, List.getD_cons_succ]
      rw [← ih i]
      by_cases h : v = 0
      · simp [h, Nat.testBit_succ]
      · simp only [bne_iff_ne, ne_eq, h, not_false_eq_true, if_true, Nat.testBit_succ]
        congr 1; omega

theorem maskOf_lt (s : Slots) : maskOf s < 2 ^ s.length := by
  induction s with
  | nil => simp [maskOf]
  | cons v r ih =>
    simp only [maskOf, List.length_cons, Nat.pow_succ]
    split <;> omega

/-- membership commutes with the abstraction: `operator[]` on the cells is `mem` on the mask -/
theorem mem_abs (s : Slots) (c : UInt8) : (abs s).mem c = memS s c := by
  simp [abs, mem, memS, testBit_maskOf]

theorem WF_abs {s : Slots} (h : s.length = 256) : WF (abs s) := by
  have := maskOf_lt s
  rw [h] at this
  exact this

/-! ### membership after each operation (for 256-cell operands) -/

theorem memS_blank (c : UInt8) : memS blank c = false := by
  unfold memS blank
  rw [List.getD_eq_getElem?_getD, List.getElem?_replicate]
  split <;> rfl

theorem length_blank : blank.length = 256 := List.length_replicate

theorem memS_addS (s : Slots) (h : s.length = 256) (b c : UInt8) : memS (addS s b) c = (memS s c || c == b) := by
  simp only [memS, addS, List.getD_eq_getElem?_getD, List.getElem?_set]
  have hb : b.toNat < s.length := by rw [h]; exact b.toNat_lt
  by_cases e : c = b
  · subst e; simp [hb]
  · have : ¬ b.toNat = c.toNat := fun x => e (CharSet.toNat_inj.mp x.symm)
    simp [this, e]

theorem memS_removeS (s : Slots) (h : s.length = 256) (b c : UInt8) : memS (removeS s b) c = (memS s c && c != b) := by
  simp only [memS, removeS, List.getD_eq_getElem?_getD, List.getElem?_set]
  have hb : b.toNat < s.length := by rw [h]; exact b.toNat_lt
  by_cases e : c = b
  · subst e; simp [hb]
  · have : ¬ b.toNat = c.toNat := fun x => e (CharSet.toNat_inj.mp x.symm)
    simp [this, e]

theorem length_addS (s : Slots) (b : UInt8) : (addS s b).length = s.length := by simp [addS]
theorem length_removeS (s : Slots) (b : UInt8) : (removeS s b).length = s.length := by simp [removeS]

theorem getD_addAssign (d s : Slots) (h : d.length = s.length) (i : Nat) :
    ((addAssign d s).getD i 0 != 0) = ((d.getD i 0 != 0) || (s.getD i 0 != 0)) := by
  induction d generalizing s i with
  | nil =>
    cases s with
    | nil => simp [addAssign]
    | cons _ _ => simp at h
  | cons dv dr ih =>
    cases s with
    | nil => simp at h
    | cons sv sr =>
      simp only [List.length_cons, Nat.add_right_cancel_iff] at h
      cases i with
      | zero =>
        simp only [addAssign, List.getD_cons_zero]
        by_cases e : sv = 0
        · simp [e]
        · simp [e]
      | succ i => simp only [addAssign, List.getD_cons_succ]; exact ih sr h i

theorem getD_subAssign (d s : Slots) (h : d.length = s.length) (i : Nat) :
    ((subAssign d s).getD i 0 != 0) = ((d.getD i 0 != 0) && !(s.getD i 0 != 0)) := by
  induction d generalizing s i with
  | nil =>
    cases s with
    | nil => simp [subAssign]
    | cons _ _ => simp at h
  | cons dv dr ih =>
    cases s with
    | nil => simp at h
    | cons sv sr =>
      simp only [List.length_cons, Nat.add_right_cancel_iff] at h
      cases i with
      | zero =>
        simp only [subAssign, List.getD_cons_zero]
        by_cases e : sv = 0
        · simp [e]
        · simp [e]
      | succ i => simp only [subAssign, List.getD_cons_succ]; exact ih sr h i

theorem length_addAssign (d s : Slots) (h : d.length = s.length) : (addAssign d s).length = d.length := by
  induction d generalizing s with
  | nil => cases s <;> simp [addAssign]
  | cons dv dr ih =>
    cases s with
    | nil => simp at h
    | cons sv sr =>
      simp only [List.length_cons, Nat.add_right_cancel_iff] at h
      simp [addAssign, ih sr h]

theorem length_subAssign (d s : Slots) (h : d.length = s.length) : (subAssign d s).length = d.length := by
  induction d generalizing s with
  | nil => cases s <;> simp [subAssign]
  | cons dv dr ih =>
    cases s with
    | nil => simp at h
    | cons sv sr =>
      simp only [List.length_cons, Nat.add_right_cancel_iff] at h
      simp [subAssign, ih sr h]

/-- `operator+=` is set union -/
theorem memS_addAssign (d s : Slots) (hd : d.length = 256) (hs : s.length = 256) (c : UInt8) :
    memS (addAssign d s) c = (memS d c || memS s c) := getD_addAssign d s (by omega) c.toNat

/-- `operator-=` is set difference -/
theorem memS_subAssign (d s : Slots) (hd : d.length = 256) (hs : s.length = 256) (c : UInt8) :
    memS (subAssign d s) c = (memS d c && !memS s c) := getD_subAssign d s (by omega) c.toNat

/-- `complement()` is set complement -/
theorem memS_complementS (s : Slots) (h : s.length = 256) (c : UInt8) : memS (complementS s) c = !memS s c := by
  have hc : c.toNat < s.length := by rw [h]; exact c.toNat_lt
  simp only [memS, complementS, List.getD_eq_getElem?_getD, List.getElem?_map, List.getElem?_eq_getElem hc, Option.map_some,
    Option.getD_some]
  by_cases e : s[c.toNat] = 0 <;> simp [e]

theorem length_complementS (s : Slots) : (complementS s).length = s.length := by simp [complementS]

theorem length_addRangeLoopS (s : Slots) (low n : Nat) : (addRangeLoopS s low n).length = s.length := by
  induction n generalizing s low with
  | zero => rfl
  | succ n ih => simp [addRangeLoopS, ih]

theorem getD_addRangeLoopS (s : Slots) (low n i : Nat) (h : low + n ≤ s.length) :
    ((addRangeLoopS s low n).getD i 0 != 0) = ((s.getD i 0 != 0) || (decide (low ≤ i) && decide (i < low + n))) := by
  induction n generalizing s low with
  | zero =>
    simp only [addRangeLoopS, Nat.add_zero]
    by_cases h1 : low ≤ i <;> simp [h1]; omega
  | succ n ih =>
    simp only [addRangeLoopS]
    rw [ih (s.set low 1) (low + 1) (by simp; omega)]
    simp only [List.getD_eq_getElem?_getD, List.getElem?_set]
    by_cases h1 : low = i
    · subst h1
      have : low < s.length := by omega
      simp [this]
    · by_cases h2 : low ≤ i
      · have h3 : low + 1 ≤ i := by omega
        have e : low + 1 + n = low + (n + 1) := by omega
        simp [h1, h2, h3, e]
      · have h3 : ¬ low + 1 ≤ i := by omega
        simp [h1, h2, h3]

theorem length_addRangeS (s : Slots) (lo hi : UInt8) : (addRangeS s lo hi).length = s.length := by
  simp [addRangeS, length_addRangeLoopS]

/-- `addRange(low, high)` adds `[low, high)` and `high` -/
theorem memS_addRangeS (s : Slots) (h : s.length = 256) (lo hi c : UInt8) :
    memS (addRangeS s lo hi) c = (memS s c || (decide (lo ≤ c) && decide (c < hi)) || c == hi) := by
  have hhi : hi.toNat < 256 := hi.toNat_lt
  have hlo : lo.toNat < 256 := lo.toNat_lt
  have hlen := length_addRangeLoopS s lo.toNat (hi.toNat - lo.toNat)
  have := memS_addS (addRangeLoopS s lo.toNat (hi.toNat - lo.toNat)) (by rw [hlen, h]) hi c
  simp only [addS] at this
  simp only [addRangeS, this]
  congr 1
  simp only [memS]
  rw [getD_addRangeLoopS s lo.toNat (hi.toNat - lo.toNat) c.toNat (by omega)]
  congr 1
  simp only [UInt8.le_iff_toNat_le, UInt8.lt_iff_toNat_lt]
  by_cases h1 : lo.toNat ≤ c.toNat <;> by_cases h2 : c.toNat < hi.toNat <;> simp [h1, h2] <;> omega

/-! ### refinement to the mask model -/

theorem abs_blank : abs blank = CharSet.empty :=
  CharSet.ext (WF_abs length_blank) WF_empty fun x => by rw [mem_abs, memS_blank, mem_empty]

theorem abs_addS (s : Slots) (h : s.length = 256) (b : UInt8) : abs (addS s b) = (abs s).add b :=
  CharSet.ext (WF_abs (by rw [length_addS, h])) (WF_add b (WF_abs h)) fun x => by
    rw [mem_abs, memS_addS s h, mem_add, mem_abs]

theorem abs_removeS (s : Slots) (h : s.length = 256) (b : UInt8) : abs (removeS s b) = (abs s).remove b :=
  CharSet.ext (WF_abs (by rw [length_removeS, h])) (WF_remove b (WF_abs h)) fun x => by
    rw [mem_abs, memS_removeS s h, mem_remove, mem_abs]

/-- the `+=` loop refines mask union -/
theorem abs_addAssign (d s : Slots) (hd : d.length = 256) (hs : s.length = 256) :
    abs (addAssign d s) = (abs d).union (abs s) :=
  CharSet.ext (WF_abs (by rw [length_addAssign d s (by omega), hd])) (WF_union (WF_abs hd) (WF_abs hs)) fun x => by
    rw [mem_abs, memS_addAssign d s hd hs, mem_union, mem_abs, mem_abs]

/-- the `-=` loop refines mask difference -/
theorem abs_subAssign (d s : Slots) (hd : d.length = 256) (hs : s.length = 256) :
    abs (subAssign d s) = (abs d).diff (abs s) :=
  CharSet.ext (WF_abs (by rw [length_subAssign d s (by omega), hd])) (WF_diff _ (WF_abs hd)) fun x => by
    rw [mem_abs, memS_subAssign d s hd hs, mem_diff, mem_abs, mem_abs]

/-- `std::transform(…, logical_not)` refines mask complement -/
theorem abs_complementS (s : Slots) (h : s.length = 256) : abs (complementS s) = (abs s).complement :=
  CharSet.ext (WF_abs (by rw [length_complementS, h])) (WF_complement (WF_abs h)) fun x => by
    rw [mem_abs, memS_complementS s h, mem_complement, mem_abs]

theorem abs_addRangeS (s : Slots) (h : s.length = 256) (lo hi : UInt8) : abs (addRangeS s lo hi) = (abs s).addRange lo hi :=
  CharSet.ext (WF_abs (by rw [length_addRangeS, h])) (WF_addRange lo hi (WF_abs h)) fun x => by
    rw [mem_abs, memS_addRangeS s h, mem_addRange, mem_abs]

theorem foldl_addS_spec (l : Bytes) (s : Slots) (h : s.length = 256) :
    (l.foldl addS s).length = 256 ∧ abs (l.foldl addS s) = (abs s).addAll l := by
  induction l generalizing s with
  | nil => exact ⟨h, rfl⟩
  | cons b r ih =>
    have := ih (addS s b) (by rw [length_addS, h])
    refine ⟨this.1, ?_⟩
    rw [List.foldl_cons, this.2, abs_addS s h]
    rfl

theorem abs_ofCStringS (l : Bytes) : abs (ofCStringS l) = CharSet.ofCString l := by
  unfold ofCStringS CharSet.ofCString
  rw [(foldl_addS_spec _ blank length_blank).2, abs_blank]

theorem length_ofCStringS (l : Bytes) : (ofCStringS l).length = 256 := (foldl_addS_spec _ blank length_blank).1

theorem foldl_addRangeS_spec (rs : List (UInt8 × UInt8)) (s : Slots) (h : s.length = 256) :
    (rs.foldl (fun s r => addRangeS s r.1 r.2) s).length = 256 ∧
    abs (rs.foldl (fun s r => addRangeS s r.1 r.2) s) = rs.foldl (fun c r => c.addRange r.1 r.2) (abs s) := by
  induction rs generalizing s with
  | nil => exact ⟨h, rfl⟩
  | cons r rs ih =>
    have := ih (addRangeS s r.1 r.2) (by rw [length_addRangeS, h])
    refine ⟨this.1, ?_⟩
    rw [List.foldl_cons, this.2, abs_addRangeS s h, List.foldl_cons]

theorem abs_ofRangesS (rs : List (UInt8 × UInt8)) : abs (ofRangesS rs) = CharSet.ofRanges rs := by
  unfold ofRangesS CharSet.ofRanges
  rw [(foldl_addRangeS_spec rs blank length_blank).2, abs_blank]

/-! ### the 0/1 invariant and `operator==` -/

theorem Canon_blank : Canon blank := ⟨length_blank, fun v hv => Or.inl (List.eq_of_mem_replicate hv)⟩

theorem mem_set_cases {l : Slots} {i : Nat} {x v : UInt8} (h : v ∈ l.set i x) : v = x ∨ v ∈ l := by
  rcases List.mem_or_eq_of_mem_set h with h | h
  · exact Or.inr h
  · exact Or.inl h

theorem Canon_addS {s : Slots} (h : Canon s) (b : UInt8) : Canon (addS s b) :=
  ⟨by rw [length_addS]; exact h.1, fun v hv => by
    rcases mem_set_cases hv with e | e
    · exact Or.inr e
    · exact h.2 v e⟩

theorem Canon_removeS {s : Slots} (h : Canon s) (b : UInt8) : Canon (removeS s b) :=
  ⟨by rw [length_removeS]; exact h.1, fun v hv => by
    rcases mem_set_cases hv with e | e
    · exact Or.inl e
    · exact h.2 v e⟩

theorem mem_addAssign_cases (d s : Slots) (v : UInt8) (h : v ∈ addAssign d s) : v = 1 ∨ v ∈ d := by
  induction d generalizing s with
  | nil => cases s <;> simp [addAssign] at h
  | cons dv dr ih =>
    cases s with
    | nil => exact Or.inr h
    | cons sv sr =>
      simp only [addAssign, List.mem_cons] at h
      rcases h with h | h
      · by_cases e : sv = 0
        · simp [e] at h; right; simp [h]
        · simp [e] at h; exact Or.inl h
      · rcases ih sr h with h | h
        · exact Or.inl h
        · right; simp [h]

theorem mem_subAssign_cases (d s : Slots) (v : UInt8) (h : v ∈ subAssign d s) : v = 0 ∨ v ∈ d := by
  induction d generalizing s with
  | nil => cases s <;> simp [subAssign] at h
  | cons dv dr ih =>
    cases s with
    | nil => exact Or.inr h
    | cons sv sr =>
      simp only [subAssign, List.mem_cons] at h
      rcases h with h | h
      · by_cases e : sv = 0
        · simp [e] at h; right; simp [h]
        · simp [e] at h; exact Or.inl h
      · rcases ih sr h with h | h
        · exact Or.inl h
        · right; simp [h]

theorem Canon_addAssign {d s : Slots} (hd : Canon d) (hs : Canon s) : Canon (addAssign d s) :=
  ⟨by rw [length_addAssign d s (by rw [hd.1, hs.1])]; exact hd.1, fun v hv => by
    rcases mem_addAssign_cases d s v hv with e | e
    · exact Or.inr e
    · exact hd.2 v e⟩

theorem Canon_subAssign {d s : Slots} (hd : Canon d) (hs : Canon s) : Canon (subAssign d s) :=
  ⟨by rw [length_subAssign d s (by rw [hd.1, hs.1])]; exact hd.1, fun v hv => by
    rcases mem_subAssign_cases d s v hv with e | e
    · exact Or.inl e
    · exact hd.2 v e⟩

theorem Canon_complementS {s : Slots} (h : s.length = 256) : Canon (complementS s) :=
  ⟨by rw [length_complementS]; exact h, fun v hv => by
    simp only [complementS, List.mem_map] at hv
    obtain ⟨a, _, rfl⟩ := hv
    by_cases e : a = 0 <;> simp [e]⟩

/-- two sets that respect the 0/1 invariant have equal cell vectors iff they have the same members:
`operator==` is equality of member sets -/
theorem eqS_iff {a b : Slots} (ha : Canon a) (hb : Canon b) : eqS a b = true ↔ ∀ c, memS a c = memS b c := by
  constructor
  · intro h c
    have : a = b := by simpa [eqS] using h
    rw [this]
  · intro h
    have : a = b := by
      apply List.ext_getElem (by rw [ha.1, hb.1])
      intro i h1 h2
      have hi : i < 256 := by rw [ha.1] at h1; exact h1
      have hc := h (UInt8.ofNat i)
      have e : (UInt8.ofNat i).toNat = i := by simp [UInt8.toNat_ofNat']; omega
      simp only [memS, e, List.getD_eq_getElem?_getD, List.getElem?_eq_getElem h1, List.getElem?_eq_getElem h2, Option.getD_some] at hc
      have ha' := ha.2 a[i] (List.getElem_mem h1)
      have hb' := hb.2 b[i] (List.getElem_mem h2)
      rcases ha' with ha' | ha' <;> rcases hb' with hb' | hb' <;> simp [ha', hb'] at hc ⊢
    simp [eqS, this]

end CharacterSet
end SquidModel
