/-
Model of `AnyP::Uri::Encode` and `AnyP::Uri::Decode` (src/anyp/Uri.cc), written over the tokenizer model in `Pct.Tok`
and following the C++ statement by statement, plus the specification-side byte-wise definitions they are proved equal to.
-/
import SquidModel.Pct.Tok

namespace SquidModel.Pct

/-- one digit of printf's `%02X` -/
def hexUpper (n : Nat) : UInt8 := if n < 10 then UInt8.ofNat (48 + n) else UInt8.ofNat (55 + n)

/-- `appendf("%%%02X", (unsigned int)(unsigned char)ch)` -/
def triplet (b : UInt8) : Bytes := [37, hexUpper (b.toNat / 16), hexUpper (b.toNat % 16)]

/-- the `while (!tk.atEnd())` loop of `Encode`; returns what is appended to `output`. Fuel: one unit per iteration. -/
def encodeLoop (ignore : CharSet) : Nat → Bytes → Bytes
  | 0, _ => []
  | _ + 1, [] => []                                   -- tk.atEnd()
  | f + 1, ch :: r =>                                 -- ch = tk.remaining()[0]; tk.skip(ch) always succeeds
    triplet ch ++
      (match Tok.prefix ignore r with
       | some (good, r') => good ++ encodeLoop ignore f r'    -- output.append(goodSection)
       | none => encodeLoop ignore f r)

/-- `AnyP::Uri::Encode(buf, ignore)` -/
def encode (ignore : CharSet) (buf : Bytes) : Bytes :=
  if buf.isEmpty then buf
  else
    match Tok.prefix ignore buf with
    | some (good, rest) =>
      if rest.isEmpty then buf                         -- "no encoding necessary" fast path
      else good ++ encodeLoop ignore rest.length rest
    | none => encodeLoop ignore buf.length buf

/-- `CharacterSet("percent", "%").complement("unencoded")` -/
def unencodedChars : CharSet := (CharSet.ofBytes [37]).complement

/-- the `while (!tok.atEnd())` loop of `Decode`; `none` = `std::nullopt`. Fuel: one unit per iteration. -/
def decodeLoop : Nat → Bytes → Option Bytes
  | 0, _ => none
  | _ + 1, [] => some []
  | f + 1, c :: r =>
    let buf := c :: r
    -- if (tok.prefix(token, unencodedChars)) output.append(token);
    let tb : Bytes × Bytes := Tok.prefixOrNothing unencodedChars buf
    -- if (tok.skip('%'))
    match Tok.skip 37 tb.2 with
    | some b2 =>
      match Tok.int64Hex1 b2 with
      | some (h1, b3) =>
        match Tok.int64Hex1 b3 with
        | some (h2, b4) =>
          -- output.append(static_cast<char>((hex1 << 4) | hex2))
          (decodeLoop f b4).map fun o => tb.1 ++ UInt8.ofNat ((h1 <<< 4) ||| h2) :: o
        | none => none
      | none => none
    | none => (decodeLoop f tb.2).map fun o => tb.1 ++ o

/-- `AnyP::Uri::Decode(buf)` -/
def decode (buf : Bytes) : Option Bytes := decodeLoop (buf.length + 1) buf

/-- `AnyP::Uri::DecodeOrDupe` -/
def decodeOrDupe (buf : Bytes) : Bytes := (decode buf).getD buf

/-! ### specification side -/

/-- byte-wise percent-encoding -/
def encodeSpec (ignore : CharSet) (s : Bytes) : Bytes :=
  s.flatMap fun b => if ignore.mem b then [b] else triplet b

/-- value of one hexadecimal digit -/
def hexVal (c : UInt8) : Option Nat :=
  if 48 ≤ c.toNat ∧ c.toNat ≤ 57 then some (c.toNat - 48)
  else if 65 ≤ c.toNat ∧ c.toNat ≤ 70 then some (c.toNat - 55)
  else if 97 ≤ c.toNat ∧ c.toNat ≤ 102 then some (c.toNat - 87)
  else none

/-- strict pct-decoding: every `%` must be followed by two hex digits -/
def decodeSpec : Bytes → Option Bytes
  | [] => some []
  | c :: r =>
    if c = 37 then
      match r with
      | h :: l :: r' =>
        match hexVal h, hexVal l with
        | some a, some b => (decodeSpec r').map (UInt8.ofNat (a * 16 + b) :: ·)
        | _, _ => none
      | _ => none
    else (decodeSpec r).map (c :: ·)

/-- recogniser of well-formed pct-encoded text: every `%` is followed by two hexadecimal digits -/
def pctWellFormed : Bytes → Bool
  | [] => true
  | c :: r =>
    if c = 37 then
      match r with
      | h :: l :: r' => (hexVal h).isSome && (hexVal l).isSome && pctWellFormed r'
      | _ => false
    else pctWellFormed r

def isUpperHex (c : UInt8) : Bool := (48 ≤ c.toNat && c.toNat ≤ 57) || (65 ≤ c.toNat && c.toNat ≤ 70)

/-- recogniser of "only ignored characters and well-formed upper-case `%XX` triplets" -/
def encodedForm (ignore : CharSet) : Bytes → Bool
  | [] => true
  | c :: r =>
    (ignore.mem c && encodedForm ignore r) ||
    (c == 37 && match r with
      | h :: l :: r' => isUpperHex h && isUpperHex l && encodedForm ignore r'
      | _ => false)

end SquidModel.Pct
