/-
Model of lib/rfc1738.cc: `rfc1738_do_escape` (per-octet decision with the flag set, and the copying loop with its
static buffer, destination index and `snprintf`), `fromhex`, and `rfc1738_unescape` (in place, read index `j`,
write index `i`), plus the specification-side list functions they are proved equal to.
The two static tables, the flag values and the signedness of `char` come from `Gen.Rfc1738`.
-/
import SquidModel.Gen.Rfc1738
import SquidModel.Pct.Uri

namespace SquidModel.Pct.Rfc1738
open SquidModel.Gen.Rfc1738

/-- `flags & bit` as a C truth value -/
def flag (flags bit : Nat) : Bool := flags &&& bit != 0

/-- the value of a `char` holding octet `b` in comparisons such as `*src <= ' '` -/
def cval (b : UInt8) : Int := if charSigned && b.toNat ≥ 128 then (b.toNat : Int) - 256 else b.toNat

/-- `(*src >= 'a' && *src <= 'z') || (*src >= 'A' && *src <= 'Z') || (*src >= '0' && *src <= '9')` -/
def isSafeAlnum (b : UInt8) : Bool :=
  (cval b ≥ 97 && cval b ≤ 122) || (cval b ≥ 65 && cval b ≤ 90) || (cval b ≥ 48 && cval b ≤ 57)

/-- the value of `do_escape` at the end of one loop iteration of `rfc1738_do_escape` -/
def doEscape (flags : Nat) (b : UInt8) : Bool :=
  if isSafeAlnum b then false
  else
    -- if ((flags & RFC1738_ESCAPE_UNSAFE)) { table scan; % ; else-if space }
    let d1 : Bool :=
      if flag flags UNSAFE then
        let d := unsafeChars.contains b
        if !(flag flags NOPERCENT) && b == 37 then true
        else if !(flag flags NOSPACE) && cval b ≤ 32 then true
        else d
      else false
    -- if ((flags & RFC1738_ESCAPE_RESERVED) && do_escape == 0) table scan
    let d2 : Bool :=
      if flag flags RESERVED && !d1 then reservedChars.contains b else d1
    -- if ((flags & RFC1738_ESCAPE_CTRLS) && do_escape == 0)
    let d3 : Bool :=
      if flag flags CTRLS && !d2 then
        if b.toNat ≤ 0x1F then true
        else if b == 0x7F then true
        else if b.toNat ≥ 0x80 then true
        else false
      else d2
    d3

/-- what one iteration writes -/
def escapeByte (flags : Nat) (b : UInt8) : Bytes :=
  if doEscape flags b then triplet b else [b]

/-- specification side: `rfc1738_do_escape` as a map over the octets of a C string -/
def escape (flags : Nat) (s : Bytes) : Bytes := s.flatMap (escapeByte flags)

/-! ### the copying loop with its buffer -/

/-- store into the buffer; `none` = a write outside `buf[0 .. bufsize)` -/
def wr (m : List UInt8) (k : Nat) (v : UInt8) : Option (List UInt8) :=
  if k < m.length then some (m.set k v) else none

/-- consecutive stores `m[k] = v₀, m[k+1] = v₁, …` -/
def wrs (m : List UInt8) (k : Nat) : List UInt8 → Option (List UInt8)
  | [] => some m
  | v :: vs =>
    match wr m k v with
    | some m' => wrs m' (k + 1) vs
    | none => none

/-- `snprintf(dst, room, "%%%02X", c)`: at most `room - 1` of the three characters, then a NUL (nothing when `room = 0`) -/
def snprintf3 (m : List UInt8) (dst room : Nat) (b : UInt8) : Option (List UInt8) :=
  match room with
  | 0 => some m
  | k + 1 => wrs m dst ((triplet b).take k ++ [0])

/-- the `for` loop of `rfc1738_do_escape`; `buf` is the static buffer (`bufsize = buf.length`), `dst` an index into it.
Returns the buffer after the final `*dst = '\0'`; `none` = some store fell outside the buffer. -/
def escapeLoop (flags : Nat) : Bytes → List UInt8 → Nat → Option (List UInt8)
  | [], buf, dst => wr buf dst 0                                   -- *src == '\0' → exit; *dst = '\0'
  | b :: src, buf, dst =>
    if dst + 1 < buf.length then                                   -- dst < (buf + bufsize - 1)
      if doEscape flags b then
        match snprintf3 buf dst (buf.length - dst) b with
        | some buf' => escapeLoop flags src buf' (dst + 2 + 1)     -- dst += 2; loop dst++
        | none => none
      else
        match wr buf dst b with                                    -- *dst = *src
        | some buf' => escapeLoop flags src buf' (dst + 1)
        | none => none
    else wr buf dst 0                                              -- loop guard fails; *dst = '\0'

/-- the (re)allocation rule at the top of `rfc1738_do_escape`: `old = none` is `buf == NULL` -/
def escapeBuffer (old : Option (List UInt8)) (n : Nat) : List UInt8 :=
  match old with
  | none => List.replicate (n * 3 + 1) 0
  | some b => if n * 3 > b.length then List.replicate (n * 3 + 1) 0 else b

/-- the C string stored at the start of a buffer -/
def cstr : List UInt8 → Bytes
  | [] => []
  | c :: r => if c = 0 then [] else c :: cstr r

/-- `rfc1738_do_escape(url, flags)` given the previous state of the static buffer: new buffer state, or `none` on an
out-of-bounds store -/
def escapeCall (old : Option (List UInt8)) (flags : Nat) (url : Bytes) : Option (List UInt8) :=
  escapeLoop flags url (escapeBuffer old url.length) 0

/-! ### unescape -/

/-- `fromhex`; `none` = -1 -/
def fromhex (c : UInt8) : Option Nat :=
  if cval c ≥ 48 && cval c ≤ 57 then some (c.toNat - 48)
  else if cval c ≥ 97 && cval c ≤ 102 then some (c.toNat - 97 + 10)
  else if cval c ≥ 65 && cval c ≤ 70 then some (c.toNat - 65 + 10)
  else none

/-- `rfc1738_unescape` on the memory `m` holding the string: `i` write index, `j` read index.
Returns the final memory and the final `i`; `none` = a load or store outside `m` (or fuel exhausted). -/
def unescLoop : Nat → List UInt8 → Nat → Nat → Option (List UInt8 × Nat)
  | 0, _, _, _ => none
  | f + 1, m, i, j =>
    match m[j]? with
    | none => none
    | some c =>
      if c = 0 then (wr m i 0).map (·, i)                          -- loop exit; s[i] = '\0'
      else
        match wr m i c with                                        -- s[i] = s[j]
        | none => none
        | some m1 =>
          match m1[j]? with                                        -- if (s[j] != '%')
          | none => none
          | some c' =>
            if c' ≠ 37 then unescLoop f m1 (i + 1) (j + 1)
            else
              match m1[j + 1]? with
              | none => none
              | some n1 =>
                if n1 = 37 then unescLoop f m1 (i + 1) (j + 1 + 1)      -- %% case: j++
                else
                  match fromhex n1 with
                  | none => unescLoop f m1 (i + 1) (j + 1)          -- continue
                  | some v1 =>
                    match m1[j + 2]? with
                    | none => none
                    | some n2 =>
                      match fromhex n2 with
                      | none => unescLoop f m1 (i + 1) (j + 1)      -- continue
                      | some v2 =>
                        let x := (v1 <<< 4) ||| v2
                        if x > 0 ∧ x ≤ 255 then
                          match wr m1 i (UInt8.ofNat x) with        -- s[i] = x; j += 2
                          | none => none
                          | some m2 => unescLoop f m2 (i + 1) (j + 2 + 1)
                        else unescLoop f m1 (i + 1) (j + 1)

/-- `rfc1738_unescape(s)` on a buffer; fuel = one unit per loop test -/
def unescapeInPlace (m : List UInt8) : Option (List UInt8 × Nat) := unescLoop (m.length + 1) m 0 0

/-- specification side: the result string of `rfc1738_unescape` as a function of the input string -/
def unescape : Bytes → Bytes
  | [] => []
  | [c] => [c]
  | [c, n1] =>
    if c ≠ 37 then c :: unescape [n1]
    else if n1 = 37 then [37]                       -- %% case
    else 37 :: unescape [n1]                        -- s[j+2] is the terminator (or s[j+1] is not hex)
  | c :: n1 :: n2 :: rest2 =>
    if c ≠ 37 then c :: unescape (n1 :: n2 :: rest2)
    else if n1 = 37 then 37 :: unescape (n2 :: rest2)
    else
      match fromhex n1, fromhex n2 with
      | some v1, some v2 =>
        let x := (v1 <<< 4) ||| v2
        if x > 0 ∧ x ≤ 255 then UInt8.ofNat x :: unescape rest2
        else 37 :: unescape (n1 :: n2 :: rest2)
      | _, _ => 37 :: unescape (n1 :: n2 :: rest2)

end SquidModel.Pct.Rfc1738
