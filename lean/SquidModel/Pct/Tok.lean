/-
The few `Parser::Tokenizer` operations (src/parser/Tokenizer.cc) that `AnyP::Uri::Encode/Decode` use.
A tokenizer is modelled by its unparsed remainder (`buf_`); every operation returns the new remainder.
-/
import SquidModel.Base.CharSet

namespace SquidModel.Pct.Tok

/-- `buf_.findFirstNotOf(set)` + `consume`: the longest prefix made of members of `set`, and the rest -/
def span (set : CharSet) : Bytes → Bytes × Bytes
  | [] => ([], [])
  | c :: r =>
    if set.mem c then
      let p := span set r
      (c :: p.1, p.2)
    else ([], c :: r)

/-- `Tokenizer::prefix(returnedToken, tokenChars)` with the default limit (`npos`):
* `prefixLen == 0` → false;
* `prefixLen == npos && atEnd()` → false;
* `prefixLen == npos` → the whole remainder is the token;
* otherwise the first `prefixLen` octets are the token.
`none` stands for `false` (the tokenizer is left unchanged). -/
def «prefix» (set : CharSet) (buf : Bytes) : Option (Bytes × Bytes) :=
  let p := span set buf
  if p.1.isEmpty then none else some p

/-- the idiom `if (tok.prefix(token, set)) output.append(token);`: the octets to append (none when `prefix` fails) and
the new remainder -/
def prefixOrNothing (set : CharSet) (buf : Bytes) : Bytes × Bytes :=
  match «prefix» set buf with
  | some p => p
  | none => ([], buf)

/-- `Tokenizer::skip(const char)` -/
def skip (ch : UInt8) : Bytes → Option Bytes
  | [] => none
  | c :: r => if c = ch then some r else none

def isDigit (c : UInt8) : Bool := 48 ≤ c.toNat && c.toNat ≤ 57
def isUpper (c : UInt8) : Bool := 65 ≤ c.toNat && c.toNat ≤ 90
def isLower (c : UInt8) : Bool := 97 ≤ c.toNat && c.toNat ≤ 122
/-- `xisalpha` in the "C" locale -/
def isAlpha (c : UInt8) : Bool := isUpper c || isLower c

/-- `Tokenizer::int64(result, 16, false, 1)`: base 16, no sign, at most one octet.
With `limit == 1` the `0x` prefix branch is dead (`s+1 < end` is false) and the overflow (`any < 0`) branch is
unreachable (one digit); what remains is: at end → false; a digit/letter whose value is below the base → that value, one octet
consumed; anything else → `any == 0` → false. -/
def int64Hex1 : Bytes → Option (Nat × Bytes)
  | [] => none
  | c :: r =>
    if isDigit c then
      let v := c.toNat - 48
      if v ≥ 16 then none else some (v, r)
    else if isAlpha c then
      let v := if isUpper c then c.toNat - (65 - 10) else c.toNat - (97 - 10)
      if v ≥ 16 then none else some (v, r)
    else none

end SquidModel.Pct.Tok
