/-
Lemmas about the lib/rfc1738.cc models: unfolding equations of the list-level `unescape`, the round trip on the list level,
and the refinement of the index-level loops (`unescLoop`, `escapeLoop`) to the list-level functions.
-/
import SquidModel.Pct.Rfc1738
import SquidModel.Pct.UriLemmas

namespace SquidModel.Pct.Rfc1738
open SquidModel.Gen.Rfc1738

/-! ### list helpers -/

theorem take_set_self {α : Type} (l : List α) (i : Nat) (a : α) (h : i < l.length) :
    (l.set i a).take (i + 1) = l.take i ++ [a] := by
  rw [List.take_add_one, List.take_set_of_le (Nat.le_refl _), List.getElem?_set_self h]
  rfl

theorem getElem?_of_drop {m x : List UInt8} {j : Nat} (h : m.drop j = x) (k : Nat) : m[j + k]? = x[k]? := by
  rw [← h, List.getElem?_drop]

theorem wr_some {m : List UInt8} {k : Nat} (h : k < m.length) (v : UInt8) : wr m k v = some (m.set k v) := by
  simp [wr, h]

/-! ### `unescape` unfolding -/

theorem unescape_cons_ne {c : UInt8} (hc : c ≠ 37) (r : Bytes) : unescape (c :: r) = c :: unescape r := by
  match r with
  | [] => simp [unescape]
  | [n1] => rw [unescape.eq_def]; simp [hc]
  | n1 :: n2 :: r2 => rw [unescape.eq_def]; simp [hc]

theorem unescape_pct_end : unescape [37] = [37] := by simp [unescape]

theorem unescape_pct_pct (r : Bytes) : unescape (37 :: 37 :: r) = 37 :: unescape r := by
  match r with
  | [] => rw [unescape.eq_def]; simp [unescape]
  | n2 :: r2 => rw [unescape.eq_def]; simp

theorem unescape_pct_one {n1 : UInt8} (h1 : n1 ≠ 37) : unescape [37, n1] = 37 :: unescape [n1] := by
  rw [unescape.eq_def]; simp [h1]

theorem unescape_pct_nohex1 {n1 : UInt8} (h1 : n1 ≠ 37) (hf : fromhex n1 = none) (r : Bytes) :
    unescape (37 :: n1 :: r) = 37 :: unescape (n1 :: r) := by
  match r with
  | [] => exact unescape_pct_one h1
  | n2 :: r2 => rw [unescape.eq_def]; simp [h1, hf]

theorem unescape_pct_nohex2 {n1 n2 : UInt8} (h1 : n1 ≠ 37) (hf : fromhex n2 = none) (r : Bytes) :
    unescape (37 :: n1 :: n2 :: r) = 37 :: unescape (n1 :: n2 :: r) := by
  rw [unescape.eq_def]
  cases h : fromhex n1 <;> simp [h1, hf, h]

theorem unescape_pct_hex {n1 n2 : UInt8} {v1 v2 : Nat} (h1 : n1 ≠ 37) (hf1 : fromhex n1 = some v1)
    (hf2 : fromhex n2 = some v2) (r : Bytes) :
    unescape (37 :: n1 :: n2 :: r) =
      if (v1 <<< 4) ||| v2 > 0 ∧ (v1 <<< 4) ||| v2 ≤ 255 then UInt8.ofNat ((v1 <<< 4) ||| v2) :: unescape r
      else 37 :: unescape (n1 :: n2 :: r) := by
  rw [unescape.eq_def]; simp [h1, hf1, hf2]

/-! ### list-level round trip -/

theorem escape_cons (flags : Nat) (b : UInt8) (s : Bytes) :
    escape flags (b :: s) = escapeByte flags b ++ escape flags s := by
  simp [escape]

theorem isSafeAlnum_pct : isSafeAlnum 37 = false := by decide

/-- a flag set with UNSAFE and without NOPERCENT always escapes `%` -/
theorem doEscape_pct {flags : Nat} (hu : flag flags UNSAFE = true) (hp : flag flags NOPERCENT = false) :
    doEscape flags 37 = true := by
  simp [doEscape, isSafeAlnum_pct, hu, hp]

theorem fromhex_hexUpper : ∀ n : Fin 16, fromhex (hexUpper n.val) = some n.val := by decide

theorem hexUpper_ne_pct : ∀ n : Fin 16, hexUpper n.val ≠ 37 := by decide

theorem unescape_triplet {b : UInt8} (hb : b ≠ 0) (r : Bytes) : unescape (triplet b ++ r) = b :: unescape r := by
  have hlt := b.toNat_lt
  have h1 := fromhex_hexUpper ⟨b.toNat / 16, by omega⟩
  have h2 := fromhex_hexUpper ⟨b.toNat % 16, by omega⟩
  have h3 := hexUpper_ne_pct ⟨b.toNat / 16, by omega⟩
  simp only at h1 h2 h3
  have hx : (b.toNat / 16) <<< 4 ||| b.toNat % 16 = b.toNat := by
    rw [shift_or_eq' (by omega) (by omega)]; omega
  have hpos : b.toNat > 0 := by
    rcases Nat.eq_zero_or_pos b.toNat with h | h
    · exact absurd (UInt8.toNat_inj.1 (by simpa using h)) hb
    · exact h
  simp only [triplet, List.cons_append, List.nil_append]
  rw [unescape_pct_hex h3 h1 h2, hx]
  simp [hpos, Nat.le_of_lt_succ hlt]

theorem unescape_escape_list {flags : Nat} (hu : flag flags UNSAFE = true) (hp : flag flags NOPERCENT = false)
    (s : Bytes) (hs : ∀ x ∈ s, x ≠ 0) : unescape (escape flags s) = s := by
  induction s with
  | nil => simp [escape, unescape]
  | cons b s ih =>
    have ih' := ih (fun x hx => hs x (by simp [hx]))
    rw [escape_cons]
    unfold escapeByte
    by_cases hd : doEscape flags b = true
    · simp only [hd, ↓reduceIte]
      rw [unescape_triplet (hs b (by simp)), ih']
    · have hne : b ≠ 37 := by
        intro e; subst e; exact hd (doEscape_pct hu hp)
      simp only [hd, Bool.false_eq_true, ↓reduceIte, List.singleton_append]
      rw [unescape_cons_ne hne, ih']

/-! ### `rfc1738_unescape` in place -/

theorem fromhex_zero : fromhex 0 = none := by decide

/-- The in-place loop started with write index `i ≤` read index `j`, on a memory whose unread part is the NUL-free string `s`,
its terminator and anything after it: it finishes without touching anything outside the memory, leaves `unescape s` and a
terminator at `i`, and changes nothing else. -/
theorem unescLoop_spec : ∀ (f : Nat) (s tl : Bytes) (m : List UInt8) (i j : Nat),
    (∀ x ∈ s, x ≠ 0) → s.length < f → i ≤ j → m.drop j = s ++ 0 :: tl →
    ∃ m' n, unescLoop f m i j = some (m', n) ∧ n = i + (unescape s).length ∧ n ≤ j + s.length ∧
      m'.length = m.length ∧
      m'.take (n + 1) = m.take i ++ unescape s ++ [0] ∧
      m'.drop (n + 1) = m.drop (n + 1) := by
  intro f
  induction f with
  | zero => intro s tl m i j _ hf; omega
  | succ f ih =>
    intro s tl m i j hnz hf hij hdrop
    have hjlen : j + s.length < m.length := by
      have := congrArg List.length hdrop
      simp only [List.length_drop, List.length_append, List.length_cons] at this
      omega
    have hi : i < m.length := by omega
    cases s with
    | nil =>
      have h0 : m[j]? = some 0 := by
        have := getElem?_of_drop hdrop 0
        simpa using this
      refine ⟨m.set i 0, i, ?_, by simp [unescape], by omega, by simp, ?_, ?_⟩
      · simp [unescLoop, h0, wr_some hi]
      · simp only [unescape, List.append_nil]
        exact take_set_self m i 0 hi
      · exact List.drop_set_of_lt (by omega)
    | cons c r =>
      have hc0 : c ≠ 0 := hnz c (by simp)
      have hnz' : ∀ x ∈ r, x ≠ 0 := fun x hx => hnz x (by simp [hx])
      have hjc : m[j]? = some c := by
        have := getElem?_of_drop hdrop 0
        simpa using this
      simp only [List.length_cons] at hf hjlen
      -- after `s[i] = s[j]`
      have hm1len : (m.set i c).length = m.length := by simp
      have hm1j : (m.set i c)[j]? = some c := by
        rw [List.getElem?_set]
        split
        · simp [hi]
        · exact hjc
      have hm1drop : (m.set i c).drop (j + 1) = r ++ 0 :: tl := by
        rw [List.drop_set_of_lt (by omega), ← List.drop_drop, hdrop]
        simp
      have hm1take : (m.set i c).take (i + 1) = m.take i ++ [c] := take_set_self m i c hi
      -- the common "copy one octet and go on" continuation
      have plain : ∀ u : Bytes, unescape (c :: r) = c :: u → u = unescape r →
          unescLoop (f + 1) m i j = unescLoop f (m.set i c) (i + 1) (j + 1) →
          ∃ m' n, unescLoop (f + 1) m i j = some (m', n) ∧ n = i + (unescape (c :: r)).length ∧
            n ≤ j + (r.length + 1) ∧ m'.length = m.length ∧
            m'.take (n + 1) = m.take i ++ unescape (c :: r) ++ [0] ∧ m'.drop (n + 1) = m.drop (n + 1) := by
        intro u hu hur hstep
        subst hur
        obtain ⟨m', n, hrun, hn, hnle, hlen, htake, hdrp⟩ :=
          ih r tl (m.set i c) (i + 1) (j + 1) hnz' (by omega) (by omega) hm1drop
        refine ⟨m', n, by rw [hstep, hrun], ?_, by omega, by rw [hlen, hm1len], ?_, ?_⟩
        · rw [hu, hn]; simp; omega
        · rw [htake, hm1take, hu]; simp
        · rw [hdrp, List.drop_set_of_lt (by omega)]
      by_cases hc : c = 37
      · subst hc
        -- s[j+1]
        cases r with
        | nil =>
          have hn1 : (m.set i 37)[j + 1]? = some 0 := by
            have := getElem?_of_drop hm1drop 0
            simpa using this
          apply plain (unescape []) (by rw [unescape_pct_end]; simp [unescape]) rfl
          conv => lhs; rw [unescLoop]
          simp [hjc, wr_some hi, hm1j, hn1, fromhex_zero]
        | cons n1 r1 =>
          have hn1 : (m.set i 37)[j + 1]? = some n1 := by
            have := getElem?_of_drop hm1drop 0
            simpa using this
          have hn10 : n1 ≠ 0 := hnz' n1 (by simp)
          by_cases hpp : n1 = 37
          · -- "%%"
            subst hpp
            have hnz'' : ∀ x ∈ r1, x ≠ 0 := fun x hx => hnz' x (by simp [hx])
            have hdrop2 : (m.set i 37).drop (j + 1 + 1) = r1 ++ 0 :: tl := by
              rw [← List.drop_drop, hm1drop]; simp
            simp only [List.length_cons] at hf hjlen
            obtain ⟨m', n, hrun, hn, hnle, hlen, htake, hdrp⟩ :=
              ih r1 tl (m.set i 37) (i + 1) (j + 1 + 1) hnz'' (by omega) (by omega) hdrop2
            refine ⟨m', n, ?_, ?_, by simp only [List.length_cons]; omega, by rw [hlen, hm1len], ?_, ?_⟩
            · conv => lhs; rw [unescLoop]
              simp [hjc, wr_some hi, hm1j, hn1, hrun]
            · rw [unescape_pct_pct, hn]; simp; omega
            · rw [htake, hm1take, unescape_pct_pct]; simp
            · rw [hdrp, List.drop_set_of_lt (by omega)]
          · cases hf1 : fromhex n1 with
            | none =>
              apply plain (unescape (n1 :: r1)) (unescape_pct_nohex1 hpp hf1 r1) rfl
              conv => lhs; rw [unescLoop]
              simp [hjc, wr_some hi, hm1j, hn1, hpp, hf1]
            | some v1 =>
              -- s[j+2]
              cases r1 with
              | nil =>
                have hn2 : (m.set i 37)[j + 2]? = some 0 := by
                  have := getElem?_of_drop hm1drop 1
                  simpa using this
                apply plain (unescape [n1]) (unescape_pct_one hpp) rfl
                conv => lhs; rw [unescLoop]
                simp [hjc, wr_some hi, hm1j, hn1, hpp, hf1, hn2, fromhex_zero]
              | cons n2 r2 =>
                have hn2 : (m.set i 37)[j + 2]? = some n2 := by
                  have := getElem?_of_drop hm1drop 1
                  simpa using this
                cases hf2 : fromhex n2 with
                | none =>
                  apply plain (unescape (n1 :: n2 :: r2)) (unescape_pct_nohex2 hpp hf2 r2) rfl
                  conv => lhs; rw [unescLoop]
                  simp [hjc, wr_some hi, hm1j, hn1, hpp, hf1, hn2, hf2]
                | some v2 =>
                  by_cases hx : (v1 <<< 4) ||| v2 > 0 ∧ (v1 <<< 4) ||| v2 ≤ 255
                  · -- decode: s[i] = x; j += 2
                    have hnz'' : ∀ x ∈ r2, x ≠ 0 := fun x hx => hnz' x (by simp [hx])
                    have hm2 : ((m.set i 37).set i (UInt8.ofNat ((v1 <<< 4) ||| v2))) =
                        m.set i (UInt8.ofNat ((v1 <<< 4) ||| v2)) := List.set_set _
                    have hdrop3 : (m.set i (UInt8.ofNat ((v1 <<< 4) ||| v2))).drop (j + 2 + 1) = r2 ++ 0 :: tl := by
                      rw [List.drop_set_of_lt (by omega), show j + 2 + 1 = j + 3 from rfl, ← List.drop_drop, hdrop]
                      simp
                    simp only [List.length_cons] at hf hjlen
                    obtain ⟨m', n, hrun, hn, hnle, hlen, htake, hdrp⟩ :=
                      ih r2 tl (m.set i (UInt8.ofNat ((v1 <<< 4) ||| v2))) (i + 1) (j + 2 + 1) hnz''
                        (by omega) (by omega) hdrop3
                    have hue := unescape_pct_hex hpp hf1 hf2 r2
                    rw [if_pos hx] at hue
                    refine ⟨m', n, ?_, ?_, by simp only [List.length_cons]; omega, by rw [hlen]; simp, ?_, ?_⟩
                    · conv => lhs; rw [unescLoop]
                      simp only [hjc, hc0, wr_some hi, hm1j, hn1, hpp, hf1, hn2, hf2, ↓reduceIte, ne_eq,
                        not_true_eq_false, not_false_eq_true, hx, and_self,
                        wr_some (show i < (m.set i 37).length by simpa using hi), hm2, hrun]
                    · rw [hue, hn]; simp; omega
                    · rw [htake, take_set_self m i _ hi, hue]; simp
                    · rw [hdrp, List.drop_set_of_lt (by omega)]
                  · have hue := unescape_pct_hex hpp hf1 hf2 r2
                    rw [if_neg hx] at hue
                    apply plain (unescape (n1 :: n2 :: r2)) hue rfl
                    conv => lhs; rw [unescLoop]
                    simp only [hjc, hc0, wr_some hi, hm1j, hn1, hpp, hf1, hn2, hf2, ↓reduceIte, ne_eq,
                      not_true_eq_false, not_false_eq_true, hx]
      · apply plain (unescape r) (unescape_cons_ne hc r) rfl
        conv => lhs; rw [unescLoop]
        simp [hjc, hc0, wr_some hi, hm1j, hc]

/-- `rfc1738_unescape` on a buffer holding the NUL-free string `s`, its terminator, and arbitrary further memory `tl` -/
theorem unescapeInPlace_spec (s tl : Bytes) (hs : ∀ x ∈ s, x ≠ 0) :
    unescapeInPlace (s ++ 0 :: tl) =
      some (unescape s ++ 0 :: (s ++ 0 :: tl).drop ((unescape s).length + 1), (unescape s).length) ∧
    (unescape s).length ≤ s.length := by
  obtain ⟨m', n, hrun, hn, hnle, hlen, htake, hdrp⟩ :=
    unescLoop_spec ((s ++ 0 :: tl).length + 1) s tl (s ++ 0 :: tl) 0 0 hs (by simp; omega) (Nat.le_refl _) (by simp)
  simp only [Nat.zero_add] at hn hnle
  subst hn
  refine ⟨?_, hnle⟩
  unfold unescapeInPlace
  rw [hrun]
  have : m' = m'.take ((unescape s).length + 1) ++ m'.drop ((unescape s).length + 1) := (List.take_append_drop _ _).symm
  rw [this, htake, hdrp]
  simp

theorem ofNat_ne_zero {x : Nat} (h1 : x > 0) (h2 : x ≤ 255) : UInt8.ofNat x ≠ 0 := by
  intro h
  have := congrArg UInt8.toNat h
  simp at this
  omega

theorem pct_ne_zero : (37 : UInt8) ≠ 0 := by decide

theorem unescape_no_nul (s : Bytes) (hs : ∀ x ∈ s, x ≠ 0) : ∀ x ∈ unescape s, x ≠ 0 := by
  fun_induction unescape s with
  | case1 => simp
  | case2 c => simpa using hs
  | case3 c n1 hc ih =>
    simp only [List.forall_mem_cons] at hs ih ⊢
    exact ⟨hs.1, ih ⟨hs.2.1, hs.2.2⟩⟩
  | case4 c hc => simp [pct_ne_zero]
  | case5 c n1 hc h1 ih =>
    simp only [List.forall_mem_cons] at hs ih ⊢
    exact ⟨pct_ne_zero, ih ⟨hs.2.1, hs.2.2⟩⟩
  | case6 c n1 n2 r hc ih =>
    simp only [List.forall_mem_cons] at hs ih ⊢
    exact ⟨hs.1, ih hs.2⟩
  | case7 c n2 r hc ih =>
    simp only [List.forall_mem_cons] at hs ih ⊢
    exact ⟨pct_ne_zero, ih hs.2.2⟩
  | case8 c n1 n2 r hc h1 v1 v2 hf2 hf1 x hx ih =>
    simp only [List.forall_mem_cons] at hs ih ⊢
    exact ⟨ofNat_ne_zero hx.1 hx.2, ih hs.2.2.2⟩
  | case9 c n1 n2 r hc h1 v1 v2 hf2 hf1 x hx ih =>
    simp only [List.forall_mem_cons] at hs ih ⊢
    exact ⟨pct_ne_zero, ih hs.2⟩
  | case10 c n1 n2 r hc h1 hno ih =>
    simp only [List.forall_mem_cons] at hs ih ⊢
    exact ⟨pct_ne_zero, ih hs.2⟩

/-! ### `rfc1738_do_escape`: the copying loop fits its buffer -/

theorem wrs_spec : ∀ (vs m : List UInt8) (k : Nat), k + vs.length ≤ m.length →
    ∃ m', wrs m k vs = some m' ∧ m'.length = m.length ∧ m'.take (k + vs.length) = m.take k ++ vs := by
  intro vs
  induction vs with
  | nil => intro m k _; exact ⟨m, rfl, rfl, by simp⟩
  | cons v vs ih =>
    intro m k h
    simp only [List.length_cons] at h
    have hk : k < m.length := by omega
    obtain ⟨m', hrun, hlen, htake⟩ := ih (m.set k v) (k + 1) (by simp; omega)
    refine ⟨m', by simp [wrs, wr_some hk, hrun], by simpa using hlen, ?_⟩
    rw [show k + (v :: vs).length = k + 1 + vs.length by simp; omega, htake, take_set_self m k v hk]
    simp

theorem triplet_length (b : UInt8) : (triplet b).length = 3 := rfl

theorem escapeByte_length_le (flags : Nat) (b : UInt8) : (escapeByte flags b).length ≤ 3 := by
  unfold escapeByte; split <;> simp [triplet]

theorem escape_length_le (flags : Nat) (s : Bytes) : (escape flags s).length ≤ 3 * s.length := by
  induction s with
  | nil => simp [escape]
  | cons b s ih =>
    rw [escape_cons]
    have := escapeByte_length_le flags b
    simp only [List.length_append, List.length_cons]
    omega

/-- with room for three octets per remaining source octet plus the terminator, every store of the loop is inside the buffer and
the buffer ends up holding what was there before `dst`, then the escaped text, then a terminator -/
theorem escapeLoop_spec (flags : Nat) : ∀ (src : Bytes) (buf : List UInt8) (dst : Nat),
    dst + 3 * src.length + 1 ≤ buf.length →
    ∃ buf', escapeLoop flags src buf dst = some buf' ∧ buf'.length = buf.length ∧
      buf'.take (dst + (escape flags src).length + 1) = buf.take dst ++ escape flags src ++ [0] := by
  intro src
  induction src with
  | nil =>
    intro buf dst h
    have hd : dst < buf.length := by simp at h; omega
    exact ⟨buf.set dst 0, by simp [escapeLoop, wr_some hd], by simp, by simpa [escape] using take_set_self buf dst 0 hd⟩
  | cons b src ih =>
    intro buf dst h
    simp only [List.length_cons] at h
    have hguard : dst + 1 < buf.length := by omega
    rw [escape_cons]
    unfold escapeByte
    by_cases hd : doEscape flags b = true
    · -- snprintf(dst, bufsize - (dst - buf), "%%%02X", c); dst += 2
      obtain ⟨k, hk, hk3⟩ : ∃ k, buf.length - dst = k + 1 ∧ 3 ≤ k := ⟨buf.length - dst - 1, by omega, by omega⟩
      have htk : (triplet b).take k = triplet b := List.take_of_length_le (by rw [triplet_length]; exact hk3)
      obtain ⟨b4, hw, hlen4, htake4⟩ := wrs_spec (triplet b ++ [0]) buf dst (by simp [triplet_length]; omega)
      obtain ⟨buf', hrun, hlen, htake⟩ := ih b4 (dst + 2 + 1) (by rw [hlen4]; omega)
      refine ⟨buf', ?_, by rw [hlen, hlen4], ?_⟩
      · rw [escapeLoop]
        simp only [hguard, ↓reduceIte, hd, snprintf3, hk, htk, hw, hrun]
      · have h3 : b4.take (dst + 2 + 1) = buf.take dst ++ triplet b := by
          have := congrArg (List.take (dst + 3)) htake4
          rw [List.take_take] at this
          simp only [List.length_append, triplet_length, List.length_cons, List.length_nil] at this
          rw [show min (dst + 3) (dst + (3 + (0 + 1))) = dst + 3 by omega] at this
          rw [show dst + 2 + 1 = dst + 3 from rfl, this, ← List.append_assoc, List.take_append_of_le_length (by simp [triplet_length]; omega)]
          apply List.take_of_length_le
          simp [triplet_length]; omega
        simp only [hd, ↓reduceIte]
        rw [show dst + (triplet b ++ escape flags src).length + 1 = dst + 2 + 1 + (escape flags src).length + 1 by
          simp [triplet_length]; omega, htake, h3]
        simp
    · obtain ⟨buf', hrun, hlen, htake⟩ := ih (buf.set dst b) (dst + 1) (by simp; omega)
      have hdl : dst < buf.length := by omega
      refine ⟨buf', ?_, by simpa using hlen, ?_⟩
      · rw [escapeLoop]
        simp only [hguard, ↓reduceIte, hd, Bool.false_eq_true, wr_some hdl, hrun]
      · simp only [hd, Bool.false_eq_true, ↓reduceIte]
        rw [show dst + ([b] ++ escape flags src).length + 1 = dst + 1 + (escape flags src).length + 1 by simp; omega,
          htake, take_set_self buf dst b hdl]
        simp

theorem cstr_append_zero (e t : Bytes) (he : ∀ x ∈ e, x ≠ 0) : cstr (e ++ 0 :: t) = e := by
  induction e with
  | nil => simp [cstr]
  | cons c e ih =>
    have hc : c ≠ 0 := he c (by simp)
    simp only [List.cons_append, cstr, hc, ↓reduceIte]
    rw [ih (fun x hx => he x (by simp [hx]))]

theorem hexUpper_ne_zero : ∀ n : Fin 16, hexUpper n.val ≠ 0 := by decide

theorem escape_no_nul (flags : Nat) (s : Bytes) (hs : ∀ x ∈ s, x ≠ 0) : ∀ x ∈ escape flags s, x ≠ 0 := by
  induction s with
  | nil => simp [escape]
  | cons b s ih =>
    rw [escape_cons]
    intro x hx
    rw [List.mem_append] at hx
    rcases hx with hx | hx
    · unfold escapeByte at hx
      split at hx
      · have hlt := b.toNat_lt
        have h1 := hexUpper_ne_zero ⟨b.toNat / 16, by omega⟩
        have h2 := hexUpper_ne_zero ⟨b.toNat % 16, by omega⟩
        simp only [triplet, List.mem_cons, List.not_mem_nil, or_false] at hx
        rcases hx with rfl | rfl | rfl
        · decide
        · exact h1
        · exact h2
      · simp only [List.mem_singleton] at hx
        subst hx; exact hs x (by simp)
    · exact ih (fun y hy => hs y (by simp [hy])) x hx

/-- the invariant of the static buffer: its size is always of the form `3n + 1` -/
def BufInv (st : Option (List UInt8)) : Prop := ∀ b, st = some b → b.length % 3 = 1

theorem escapeBuffer_length (old : Option (List UInt8)) (n : Nat) (h : BufInv old) :
    n * 3 + 1 ≤ (escapeBuffer old n).length ∧ (escapeBuffer old n).length % 3 = 1 := by
  unfold escapeBuffer
  cases old with
  | none => simp
  | some b =>
    have hb := h b rfl
    simp only
    split
    · simp
    · exact ⟨by omega, hb⟩

/-- `rfc1738_do_escape` never stores outside its static buffer, keeps the buffer-size invariant, and returns the C string
`escape flags url` -/
theorem escapeCall_spec (old : Option (List UInt8)) (flags : Nat) (url : Bytes) (hinv : BufInv old)
    (hs : ∀ x ∈ url, x ≠ 0) :
    ∃ buf', escapeCall old flags url = some buf' ∧ BufInv (some buf') ∧ cstr buf' = escape flags url := by
  obtain ⟨hlen, hmod⟩ := escapeBuffer_length old url.length hinv
  obtain ⟨buf', hrun, hl, htake⟩ := escapeLoop_spec flags url (escapeBuffer old url.length) 0 (by omega)
  refine ⟨buf', hrun, ?_, ?_⟩
  · intro b hb
    cases hb
    rw [hl]; exact hmod
  · have : buf' = buf'.take (0 + (escape flags url).length + 1) ++ buf'.drop (0 + (escape flags url).length + 1) :=
      (List.take_append_drop _ _).symm
    rw [this, htake]
    simp only [List.take_zero, List.nil_append, List.append_assoc, List.singleton_append]
    exact cstr_append_zero _ _ (escape_no_nul flags url hs)

/-! ### alphabet of the escaped form, idempotence of the NOPERCENT variants -/

theorem encodedForm_escape (flags : Nat) (ig : CharSet) (h : ∀ b, doEscape flags b = false → ig.mem b = true)
    (s : Bytes) : encodedForm ig (escape flags s) = true := by
  induction s with
  | nil => simp [escape, encodedForm]
  | cons b s ih =>
    rw [escape_cons]
    unfold escapeByte
    by_cases hd : doEscape flags b = true
    · have hbl := b.toNat_lt
      have h1 := isUpperHex_hexUpper ⟨b.toNat / 16, by omega⟩
      have h2 := isUpperHex_hexUpper ⟨b.toNat % 16, by omega⟩
      simp only at h1 h2
      simp only [hd, ↓reduceIte, triplet, List.cons_append, List.nil_append]
      exact encodedForm_triplet h1 h2 ih
    · simp only [hd, Bool.false_eq_true, ↓reduceIte, List.singleton_append]
      exact encodedForm_cons_mem (h b (by simpa using hd)) ih

theorem escape_append (flags : Nat) (s t : Bytes) : escape flags (s ++ t) = escape flags s ++ escape flags t := by
  simp [escape]

theorem doEscape_alnum {b : UInt8} (h : isSafeAlnum b = true) (flags : Nat) : doEscape flags b = false := by
  simp [doEscape, h]

theorem isSafeAlnum_hexUpper : ∀ n : Fin 16, isSafeAlnum (hexUpper n.val) = true := by decide

theorem doEscape_pct_aux : ∀ u r c sp : Bool,
    (let d1 : Bool := if u then (if !true && (37 : UInt8) == 37 then true else if !sp && cval 37 ≤ 32 then true
        else unsafeChars.contains 37) else false
     let d2 : Bool := if r && !d1 then reservedChars.contains 37 else d1
     let d3 : Bool := if c && !d2 then
        (if (37 : UInt8).toNat ≤ 0x1F then true else if (37 : UInt8) == 0x7F then true
         else if (37 : UInt8).toNat ≥ 0x80 then true else false) else d2
     d3) = false := by decide

/-- with NOPERCENT, `%` is never escaped (it is in neither table and is no control character) -/
theorem doEscape_pct_nopercent {flags : Nat} (hp : flag flags NOPERCENT = true) : doEscape flags 37 = false := by
  have := doEscape_pct_aux (flag flags UNSAFE) (flag flags RESERVED) (flag flags CTRLS) (flag flags NOSPACE)
  simp only [doEscape, isSafeAlnum_pct, Bool.false_eq_true, ↓reduceIte, hp]
  exact this

theorem escape_escapeByte {flags : Nat} (hp : flag flags NOPERCENT = true) (b : UInt8) :
    escape flags (escapeByte flags b) = escapeByte flags b := by
  unfold escapeByte
  by_cases hd : doEscape flags b = true
  · have hbl := b.toNat_lt
    have h1 := doEscape_alnum (isSafeAlnum_hexUpper ⟨b.toNat / 16, by omega⟩) flags
    have h2 := doEscape_alnum (isSafeAlnum_hexUpper ⟨b.toNat % 16, by omega⟩) flags
    simp only at h1 h2
    simp [hd, triplet, escape, escapeByte, doEscape_pct_nopercent hp, h1, h2]
  · simp [hd, escape, escapeByte]

theorem escape_idempotent_list {flags : Nat} (hp : flag flags NOPERCENT = true) (s : Bytes) :
    escape flags (escape flags s) = escape flags s := by
  induction s with
  | nil => simp [escape]
  | cons b s ih => rw [escape_cons, escape_append, escape_escapeByte hp, ih]

/-- everything `unescape_in_place_safe` states, for the closed form of the final memory -/
theorem unescapeInPlace_full (s tl : Bytes) (hs : ∀ x ∈ s, x ≠ 0) :
    ∃ m', unescapeInPlace (s ++ 0 :: tl) = some (m', (unescape s).length) ∧
      (unescape s).length ≤ s.length ∧
      m'.length = (s ++ 0 :: tl).length ∧
      cstr m' = unescape s ∧
      m'.drop ((unescape s).length + 1) = (s ++ 0 :: tl).drop ((unescape s).length + 1) ∧
      m'.drop (s.length + 1) = tl := by
  obtain ⟨hrun, hle⟩ := unescapeInPlace_spec s tl hs
  have hd1 : (unescape s ++ 0 :: (s ++ 0 :: tl).drop ((unescape s).length + 1)).drop ((unescape s).length + 1) =
      (s ++ 0 :: tl).drop ((unescape s).length + 1) := by
    rw [show unescape s ++ 0 :: (s ++ 0 :: tl).drop ((unescape s).length + 1) =
      (unescape s ++ [0]) ++ (s ++ 0 :: tl).drop ((unescape s).length + 1) by simp]
    exact List.drop_left' (by simp)
  refine ⟨_, hrun, hle, ?_, cstr_append_zero _ _ (unescape_no_nul s hs), hd1, ?_⟩
  · simp only [List.length_append, List.length_cons, List.length_drop]
    omega
  · have : s.length + 1 = ((unescape s).length + 1) + (s.length - (unescape s).length) := by omega
    rw [this, ← List.drop_drop, hd1, List.drop_drop, ← this]
    rw [show s ++ 0 :: tl = (s ++ [0]) ++ tl by simp]
    exact List.drop_left' (by simp)

end SquidModel.Pct.Rfc1738
