/-
Lemmas about the `AnyP::Uri::Encode/Decode` models: the loop models equal the byte-wise specifications, and the
specifications round-trip.
-/
import SquidModel.Pct.Uri
import SquidModel.Base.Finite

namespace SquidModel.Pct
open Tok

/-! ### tokenizer facts -/

theorem span_append (set : CharSet) (s : Bytes) : (span set s).1 ++ (span set s).2 = s := by
  induction s with
  | nil => simp [span]
  | cons c r ih =>
    simp only [span]
    split <;> simp [ih]

theorem span_all (set : CharSet) (s : Bytes) : ∀ b ∈ (span set s).1, set.mem b = true := by
  induction s with
  | nil => simp [span]
  | cons c r ih =>
    simp only [span]
    split
    · intro b hb
      simp only [List.mem_cons] at hb
      rcases hb with rfl | hb
      · assumption
      · exact ih b hb
    · simp

/-- the remainder after `span` is empty or starts with a non-member -/
def headNotIn (set : CharSet) (s : Bytes) : Prop := ∀ c r, s = c :: r → set.mem c = false

theorem span_rest (set : CharSet) (s : Bytes) : headNotIn set (span set s).2 := by
  induction s with
  | nil => intro c r h; simp [span] at h
  | cons c r ih =>
    simp only [span]
    split
    · exact ih
    · intro c' r' h
      simp only [List.cons.injEq] at h
      rw [← h.1]; simpa using ‹¬set.mem c = true›

theorem span_length_le (set : CharSet) (s : Bytes) : (span set s).2.length ≤ s.length := by
  have := congrArg List.length (span_append set s)
  simp only [List.length_append] at this
  omega

theorem span_of_headNotIn {set : CharSet} {s : Bytes} (h : headNotIn set s) : span set s = ([], s) := by
  cases s with
  | nil => simp [span]
  | cons c r => simp [span, h c r rfl]

/-- `prefix` is `span` whenever it succeeds, and `span` found nothing whenever it fails -/
theorem prefix_cases (set : CharSet) (s : Bytes) :
    (Tok.prefix set s = none ∧ (span set s).1 = [] ∧ (span set s).2 = s) ∨
    (Tok.prefix set s = some (span set s) ∧ (span set s).1 ≠ []) := by
  unfold Tok.prefix
  by_cases h : (span set s).1 = []
  · left
    have h2 : (span set s).2 = s := by simpa [h] using span_append set s
    simp [h, h2]
  · right
    simp [h]

theorem prefixOrNothing_eq_span (set : CharSet) (s : Bytes) : prefixOrNothing set s = span set s := by
  unfold prefixOrNothing
  rcases prefix_cases set s with ⟨hp, h1, h2⟩ | ⟨hp, _⟩
  · rw [hp]; exact Prod.ext h1.symm h2.symm
  · rw [hp]

/-! ### Encode -/

theorem encodeSpec_cons (ig : CharSet) (b : UInt8) (s : Bytes) :
    encodeSpec ig (b :: s) = (if ig.mem b then [b] else triplet b) ++ encodeSpec ig s := by
  simp [encodeSpec]

theorem encodeSpec_append (ig : CharSet) (s t : Bytes) :
    encodeSpec ig (s ++ t) = encodeSpec ig s ++ encodeSpec ig t := by
  simp [encodeSpec]

theorem encodeSpec_members (ig : CharSet) (s : Bytes) (h : ∀ b ∈ s, ig.mem b = true) : encodeSpec ig s = s := by
  induction s with
  | nil => simp [encodeSpec]
  | cons b s ih =>
    rw [encodeSpec_cons, h b (by simp), ih (fun x hx => h x (by simp [hx]))]
    simp

theorem encodeSpec_span (ig : CharSet) (s : Bytes) :
    encodeSpec ig s = (span ig s).1 ++ encodeSpec ig (span ig s).2 := by
  conv => lhs; rw [← span_append ig s]
  rw [encodeSpec_append, encodeSpec_members ig _ (span_all ig s)]

/-- the loop, entered at an octet that must be encoded, computes the byte-wise encoding of the remainder -/
theorem encodeLoop_eq_spec (ig : CharSet) : ∀ (f : Nat) (rest : Bytes), rest.length ≤ f → headNotIn ig rest →
    encodeLoop ig f rest = encodeSpec ig rest := by
  intro f
  induction f with
  | zero =>
    intro rest hl _
    have : rest = [] := List.eq_nil_of_length_eq_zero (by omega)
    subst this; simp [encodeLoop, encodeSpec]
  | succ f ih =>
    intro rest hl hh
    cases rest with
    | nil => simp [encodeLoop, encodeSpec]
    | cons ch r =>
      have hch : ig.mem ch = false := hh ch r rfl
      have hlen : (span ig r).2.length ≤ f := by
        have := span_length_le ig r
        simp only [List.length_cons] at hl
        omega
      have hrec := ih (span ig r).2 hlen (span_rest ig r)
      rw [encodeSpec_cons, hch, encodeSpec_span ig r, ← hrec]
      simp only [encodeLoop, Bool.false_eq_true, ↓reduceIte]
      rcases prefix_cases ig r with ⟨hp, h1, h2⟩ | ⟨hp, _⟩
      · rw [hp, h1, h2]; simp
      · rw [hp]

theorem encode_eq_spec (ig : CharSet) (s : Bytes) : encode ig s = encodeSpec ig s := by
  unfold encode
  cases s with
  | nil => simp [encodeSpec]
  | cons c r =>
    simp only [List.isEmpty_cons, Bool.false_eq_true, ↓reduceIte]
    rcases prefix_cases ig (c :: r) with ⟨hp, h1, h2⟩ | ⟨hp, _⟩
    · rw [hp]
      simp only
      apply encodeLoop_eq_spec ig _ _ (Nat.le_refl _)
      have := span_rest ig (c :: r)
      rwa [h2] at this
    · rw [hp]
      simp only
      split
      · rename_i hemp
        have hnil : (span ig (c :: r)).2 = [] := by simpa using hemp
        have happ := span_append ig (c :: r)
        rw [hnil, List.append_nil] at happ
        have hall := span_all ig (c :: r)
        rw [happ] at hall
        exact (encodeSpec_members ig _ hall).symm
      · rw [encodeLoop_eq_spec ig _ _ (Nat.le_refl _) (span_rest ig (c :: r))]
        exact (encodeSpec_span ig (c :: r)).symm

/-! ### Decode -/

theorem unencoded_mem : ∀ b : UInt8, (unencodedChars.mem b == (b != 37)) = true :=
  forall_octet _ (by decide +kernel)

theorem unencoded_mem_iff (b : UInt8) : unencodedChars.mem b = true ↔ b ≠ 37 := by
  have := unencoded_mem b
  simp only [beq_iff_eq] at this
  rw [this]; simp

theorem int64Hex1_nil : int64Hex1 [] = none := rfl

/-- the digit value `int64(…, 16, false, 1)` assigns to a single octet -/
def hexOf (c : UInt8) : Option Nat := (int64Hex1 [c]).map Prod.fst

theorem int64Hex1_cons' (c : UInt8) (r : Bytes) : int64Hex1 (c :: r) = (hexOf c).map (·, r) := by
  simp only [int64Hex1, hexOf]
  repeat' split
  all_goals simp_all

theorem hexOf_eq_hexVal : ∀ c : UInt8, (hexOf c == hexVal c) = true :=
  forall_octet _ (by decide +kernel)

theorem int64Hex1_cons (c : UInt8) (r : Bytes) : int64Hex1 (c :: r) = (hexVal c).map (·, r) := by
  have h := hexOf_eq_hexVal c
  simp only [beq_iff_eq] at h
  rw [int64Hex1_cons', h]

theorem hexVal_lt : ∀ c : UInt8, (match hexVal c with | some v => decide (v < 16) | none => true) = true :=
  forall_octet _ (by decide +kernel)

theorem hexVal_lt' {c : UInt8} {v : Nat} (h : hexVal c = some v) : v < 16 := by
  have := hexVal_lt c
  rw [h] at this
  simpa using this

theorem shift_or_eq : ∀ a : Fin 16, ∀ b : Fin 16, (a.val <<< 4) ||| b.val = a.val * 16 + b.val := by decide

theorem shift_or_eq' {a b : Nat} (ha : a < 16) (hb : b < 16) : (a <<< 4) ||| b = a * 16 + b :=
  shift_or_eq ⟨a, ha⟩ ⟨b, hb⟩

theorem decodeSpec_cons_ne {c : UInt8} (hc : c ≠ 37) (r : Bytes) :
    decodeSpec (c :: r) = (decodeSpec r).map (c :: ·) := by
  rw [decodeSpec.eq_def]; simp [hc]

theorem decodeSpec_pct3 (h l : UInt8) (r : Bytes) :
    decodeSpec (37 :: h :: l :: r) =
      match hexVal h, hexVal l with
      | some a, some b => (decodeSpec r).map (UInt8.ofNat (a * 16 + b) :: ·)
      | _, _ => none := by
  rw [decodeSpec.eq_def]; simp only [↓reduceIte]
  cases hexVal h <;> cases hexVal l <;> rfl

theorem decodeSpec_pct0 : decodeSpec [37] = none := by
  rw [decodeSpec.eq_def]; simp

theorem decodeSpec_pct1 (h : UInt8) : decodeSpec [37, h] = none := by
  rw [decodeSpec.eq_def]; simp

theorem decodeSpec_plain_append (t b : Bytes) (ht : ∀ x ∈ t, x ≠ 37) :
    decodeSpec (t ++ b) = (decodeSpec b).map (t ++ ·) := by
  induction t with
  | nil => simp
  | cons c t ih =>
    have hc : c ≠ 37 := ht c (by simp)
    rw [List.cons_append, decodeSpec_cons_ne hc, ih (fun x hx => ht x (by simp [hx]))]
    cases decodeSpec b <;> simp

/-- with enough fuel the loop model is the strict decoder -/
theorem decodeLoop_eq_spec : ∀ (f : Nat) (s : Bytes), s.length < f → decodeLoop f s = decodeSpec s := by
  intro f
  induction f with
  | zero => intro s h; omega
  | succ f ih =>
    intro s hl
    cases s with
    | nil => simp [decodeLoop, decodeSpec]
    | cons c r =>
      simp only [decodeLoop]
      rw [prefixOrNothing_eq_span]
      have happ := span_append unencodedChars (c :: r)
      have hall := span_all unencodedChars (c :: r)
      have hrest := span_rest unencodedChars (c :: r)
      generalize (span unencodedChars (c :: r)).1 = t at *
      generalize (span unencodedChars (c :: r)).2 = b1 at *
      have htne : ∀ x ∈ t, x ≠ 37 := fun x hx => (unencoded_mem_iff x).1 (hall x hx)
      have hlen : t.length + b1.length = r.length + 1 := by
        have := congrArg List.length happ
        simpa using this
      simp only [List.length_cons] at hl
      rw [← happ, decodeSpec_plain_append t b1 htne]
      cases b1 with
      | nil =>
        simp only [Tok.skip]
        rw [ih [] (by simp; omega)]
      | cons p b2 =>
        have hp : p = 37 := by
          have := hrest p b2 rfl
          by_cases h : p = 37
          · exact h
          · have := (unencoded_mem_iff p).2 h
            simp_all
        subst hp
        simp only [Tok.skip, ↓reduceIte]
        simp only [List.length_cons] at hlen
        cases b2 with
        | nil => simp [int64Hex1, decodeSpec_pct0]
        | cons h b3 =>
          rw [int64Hex1_cons]
          cases b3 with
          | nil => cases hh : hexVal h <;> simp [int64Hex1, decodeSpec_pct1]
          | cons l b4 =>
            rw [decodeSpec_pct3]
            cases hh : hexVal h with
            | none => simp
            | some a =>
              simp only [Option.map_some]
              rw [int64Hex1_cons]
              cases hl2 : hexVal l with
              | none => simp
              | some b =>
                simp only [Option.map_some]
                simp only [List.length_cons] at hlen
                rw [ih b4 (by omega), shift_or_eq' (hexVal_lt' hh) (hexVal_lt' hl2)]
                cases decodeSpec b4 <;> simp

theorem decode_eq_spec (s : Bytes) : decode s = decodeSpec s :=
  decodeLoop_eq_spec _ s (Nat.lt_succ_self _)

/-! ### round trip on the specification side -/

theorem hexVal_hexUpper : ∀ n : Fin 16, hexVal (hexUpper n.val) = some n.val := by decide

theorem isUpperHex_hexUpper : ∀ n : Fin 16, isUpperHex (hexUpper n.val) = true := by decide

theorem byte_recompose (b : UInt8) : UInt8.ofNat (b.toNat / 16 * 16 + b.toNat % 16) = b := by
  have : b.toNat / 16 * 16 + b.toNat % 16 = b.toNat := by omega
  rw [this]; simp

theorem decodeSpec_triplet (b : UInt8) (r : Bytes) :
    decodeSpec (triplet b ++ r) = (decodeSpec r).map (b :: ·) := by
  have hb := b.toNat_lt
  have h1 := hexVal_hexUpper ⟨b.toNat / 16, by omega⟩
  have h2 := hexVal_hexUpper ⟨b.toNat % 16, by omega⟩
  simp only at h1 h2
  simp only [triplet, List.cons_append, List.nil_append]
  rw [decodeSpec_pct3, h1, h2]
  simp only [byte_recompose]

/-- decoding the byte-wise encoding returns the original when `%` itself is never left raw -/
theorem decodeSpec_encodeSpec (ig : CharSet) (s : Bytes) (h : ig.mem 37 = false ∨ 37 ∉ s) :
    decodeSpec (encodeSpec ig s) = some s := by
  induction s with
  | nil => simp [encodeSpec, decodeSpec]
  | cons b s ih =>
    have h' : ig.mem 37 = false ∨ 37 ∉ s := by
      rcases h with h | h
      · exact Or.inl h
      · exact Or.inr (fun hm => h (by simp [hm]))
    rw [encodeSpec_cons]
    by_cases hb : ig.mem b = true
    · have hne : b ≠ 37 := by
        rcases h with h | h
        · intro e; subst e; simp [h] at hb
        · intro e; subst e; simp at h
      simp only [hb, ↓reduceIte, List.singleton_append]
      rw [decodeSpec_cons_ne hne, ih h']; simp
    · simp only [hb, Bool.false_eq_true, ↓reduceIte]
      rw [decodeSpec_triplet, ih h']; simp

theorem encodedForm_cons_mem {ig : CharSet} {c : UInt8} {r : Bytes} (hc : ig.mem c = true)
    (hr : encodedForm ig r = true) : encodedForm ig (c :: r) = true := by
  rw [encodedForm.eq_def]; simp [hc, hr]

theorem encodedForm_triplet {ig : CharSet} {h l : UInt8} {r : Bytes} (hh : isUpperHex h = true) (hl : isUpperHex l = true)
    (hr : encodedForm ig r = true) : encodedForm ig (37 :: h :: l :: r) = true := by
  rw [encodedForm.eq_def]; simp [hh, hl, hr]

theorem encodedForm_encodeSpec (ig : CharSet) (s : Bytes) : encodedForm ig (encodeSpec ig s) = true := by
  induction s with
  | nil => simp [encodeSpec, encodedForm]
  | cons b s ih =>
    rw [encodeSpec_cons]
    by_cases hb : ig.mem b = true
    · simp only [hb, ↓reduceIte, List.singleton_append]
      exact encodedForm_cons_mem hb ih
    · have hbl := b.toNat_lt
      have h1 := isUpperHex_hexUpper ⟨b.toNat / 16, by omega⟩
      have h2 := isUpperHex_hexUpper ⟨b.toNat % 16, by omega⟩
      simp only at h1 h2
      simp only [hb, Bool.false_eq_true, ↓reduceIte, triplet, List.cons_append, List.nil_append]
      exact encodedForm_triplet h1 h2 ih

theorem decodeSpec_isSome (s : Bytes) : (decodeSpec s).isSome = pctWellFormed s := by
  fun_induction pctWellFormed s with
  | case1 => simp [decodeSpec]
  | case2 h l r' ih =>
    rw [decodeSpec_pct3]
    cases hexVal h <;> cases hexVal l <;> simp [ih]
  | case3 r hr =>
    match r, hr with
    | [], _ => simp [decodeSpec_pct0]
    | [h], _ => simp [decodeSpec_pct1]
    | h :: l :: r', hr => exact absurd rfl (hr h l r')
  | case4 c r hc ih =>
    rw [decodeSpec_cons_ne hc]
    simp [ih]

theorem decodeSpec_length_le (s : Bytes) : ∀ d, decodeSpec s = some d → d.length ≤ s.length := by
  fun_induction pctWellFormed s with
  | case1 => intro d h; simp [decodeSpec] at h; subst h; simp
  | case2 h l r' ih =>
    intro d hd
    rw [decodeSpec_pct3] at hd
    cases hh : hexVal h <;> cases hl : hexVal l <;> simp only [hh, hl] at hd <;> try cases hd
    cases hr : decodeSpec r' with
    | none => simp [hr] at hd
    | some d' =>
      simp only [hr, Option.map_some, Option.some.injEq] at hd
      subst hd
      have := ih d' hr
      simp only [List.length_cons]; omega
  | case3 r hr =>
    intro d hd
    match r, hr with
    | [], _ => simp [decodeSpec_pct0] at hd
    | [h], _ => simp [decodeSpec_pct1] at hd
    | h :: l :: r', hr => exact absurd rfl (hr h l r')
  | case4 c r hc ih =>
    intro d hd
    rw [decodeSpec_cons_ne hc] at hd
    cases hr : decodeSpec r with
    | none => simp [hr] at hd
    | some d' =>
      simp only [hr, Option.map_some, Option.some.injEq] at hd
      subst hd
      have := ih d' hr
      simp only [List.length_cons]; omega

/-- when `%` and the upper-case hex digits are all ignored, encoding again changes nothing -/
theorem encodeSpec_idempotent (ig : CharSet) (hp : ig.mem 37 = true) (hh : ∀ n : Fin 16, ig.mem (hexUpper n.val) = true)
    (s : Bytes) : encodeSpec ig (encodeSpec ig s) = encodeSpec ig s := by
  induction s with
  | nil => simp [encodeSpec]
  | cons b s ih =>
    rw [encodeSpec_cons, encodeSpec_append, ih]
    by_cases hb : ig.mem b = true
    · simp [hb, encodeSpec]
    · have hbl := b.toNat_lt
      have h1 := hh ⟨b.toNat / 16, by omega⟩
      have h2 := hh ⟨b.toNat % 16, by omega⟩
      simp only at h1 h2
      simp [hb, encodeSpec, triplet, hp, h1, h2]

theorem encodeSpec_length_le (ig : CharSet) (s : Bytes) : (encodeSpec ig s).length ≤ 3 * s.length := by
  induction s with
  | nil => simp [encodeSpec]
  | cons b s ih =>
    rw [encodeSpec_cons]
    by_cases hb : ig.mem b = true <;> simp [hb, triplet] <;> omega

end SquidModel.Pct
