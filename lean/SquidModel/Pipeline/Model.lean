/-
C05 model: the HTTP/1 request pipeline of one client connection.

* `Pipeline` (src/Pipeline.cc): FIFO `requests`; `add` appends, `popMe` pops the front (asserting it is the front).
* `ConnStateData::parseRequests` (src/client_side.cc): a new request is parsed only while
  `pipeline.count() < pipeline_prefetch + 1` (`concurrentRequestQueueFilled`).
* `clientSocketRecipient`: reply data of a context that is not `pipeline.front()` is stored (`deferRecipientForLater`, one
  buffer per context); only the front context writes to the client.
* `Http::Stream::finished` → `popMe` → `ConnStateData::kick`: the new front, if it has deferred data, is pushed
  (`PushDeferredIfNeeded`).
Upstream completions are events that may arrive in any order.
-/
namespace SquidModel.Pipeline

structure St where
  limit : Nat                 -- pipeline_prefetch + 1
  waiting : List Nat          -- request ids received on the connection but not parsed yet (in arrival order)
  queue : List Nat            -- the pipeline, front first
  deferred : List Nat         -- contexts whose reply is ready but which are not at the front
  written : List Nat          -- ids of the responses written to the client, in order
  deriving Repr, DecidableEq

def St.init (limit : Nat) (arrivals : List Nat) : St := ⟨limit, arrivals, [], [], []⟩

/-- write out the front while its reply is already there (kick / PushDeferredIfNeeded), bounded by the queue length -/
def drain : Nat → St → St
  | 0, s => s
  | fuel + 1, s =>
    match s.queue with
    | [] => s
    | f :: rest =>
      if s.deferred.contains f then
        drain fuel { s with queue := rest, deferred := s.deferred.erase f, written := s.written ++ [f] }
      else s

/-- parse as many waiting requests as the prefetch limit allows -/
def admitReqs : Nat → St → St
  | 0, s => s
  | fuel + 1, s =>
    match s.waiting with
    | [] => s
    | r :: rest =>
      if s.queue.length < s.limit then admitReqs fuel { s with waiting := rest, queue := s.queue ++ [r] }
      else s

inductive Ev where
  | parse                      -- the connection gets to parse buffered requests
  | complete (r : Nat)         -- the reply for request r is ready
  deriving Repr, DecidableEq

def step (s : St) : Ev → St
  | .parse => admitReqs s.waiting.length s
  | .complete r =>
    if s.queue.contains r ∧ ¬ s.deferred.contains r then
      match s.queue with
      | f :: rest =>
        if f = r then
          -- front: written now; then the next ones that were waiting with a deferred reply
          let s1 := { s with queue := rest, written := s.written ++ [r] }
          let s2 := drain s1.queue.length s1
          admitReqs s2.waiting.length s2        -- a slot became free: parse more
        else { s with deferred := r :: s.deferred }
      | [] => s
    else s

def run (s : St) (evs : List Ev) : St := evs.foldl step s

/-- all ids of the connection in their fixed order: written, then queued, then waiting -/
def order (s : St) : List Nat := s.written ++ s.queue ++ s.waiting

end SquidModel.Pipeline
