import SquidModel.Pipeline.Model

namespace SquidModel.Pipeline

theorem drain_order (fuel : Nat) (s : St) : order (drain fuel s) = order s := by
  induction fuel generalizing s with
  | zero => rfl
  | succ n ih =>
    unfold drain
    split
    · rfl
    · rename_i f rest hq
      split
      · rw [ih]; simp [order, hq]
      · rfl

theorem admitReqs_order (fuel : Nat) (s : St) : order (admitReqs fuel s) = order s := by
  induction fuel generalizing s with
  | zero => rfl
  | succ n ih =>
    unfold admitReqs
    split
    · rfl
    · rename_i r rest hw
      split
      · rw [ih]; simp [order, hw]
      · rfl

theorem step_order (s : St) (e : Ev) : order (step s e) = order s := by
  cases e with
  | parse => exact admitReqs_order _ _
  | complete r =>
    simp only [step]
    split
    · split
      · rename_i f rest hq
        split
        · rename_i hfr
          rw [admitReqs_order, drain_order]
          simp [order, hq, hfr]
        · rfl
      · rfl
    · rfl

theorem run_order (s : St) (evs : List Ev) : order (run s evs) = order s := by
  induction evs generalizing s with
  | nil => rfl
  | cons e rest ih => simp only [run, List.foldl_cons] at ih ⊢; rw [ih, step_order]

theorem drain_limit (fuel : Nat) (s : St) : (drain fuel s).limit = s.limit := by
  induction fuel generalizing s with
  | zero => rfl
  | succ n ih => unfold drain; split; · rfl
                 · split
                   · rw [ih]
                   · rfl

theorem drain_queue_le (fuel : Nat) (s : St) : (drain fuel s).queue.length ≤ s.queue.length := by
  induction fuel generalizing s with
  | zero => exact Nat.le_refl _
  | succ n ih =>
    unfold drain
    split
    · exact Nat.le_refl _
    · rename_i f rest hq
      split
      · have := ih { s with queue := rest, deferred := s.deferred.erase f, written := s.written ++ [f] }
        simp only [hq, List.length_cons] at this ⊢; omega
      · simp [hq]

theorem admitReqs_queue_le_limit (fuel : Nat) (s : St) : (admitReqs fuel s).limit = s.limit := by
  induction fuel generalizing s with
  | zero => rfl
  | succ n ih =>
    unfold admitReqs
    split
    · rfl
    · split
      · rw [ih]
      · rfl

theorem admitReqs_queue_le (fuel : Nat) (s : St) (h : s.queue.length ≤ s.limit) :
    (admitReqs fuel s).queue.length ≤ s.limit ∧ (admitReqs fuel s).limit = s.limit := by
  induction fuel generalizing s with
  | zero => exact ⟨h, rfl⟩
  | succ n ih =>
    unfold admitReqs
    split
    · exact ⟨h, rfl⟩
    · rename_i r rest hw
      split
      · rename_i hlt
        have := ih { s with waiting := rest, queue := s.queue ++ [r] } (by simp; omega)
        exact this
      · exact ⟨h, rfl⟩

end SquidModel.Pipeline

namespace SquidModel.Pipeline

/-- `admitReqs` with enough fuel saturates: if something is still waiting afterwards the pipeline is full -/
theorem admitReqs_saturates (fuel : Nat) (s : St) (hf : s.waiting.length ≤ fuel) :
    (admitReqs fuel s).waiting ≠ [] → s.limit ≤ (admitReqs fuel s).queue.length := by
  induction fuel generalizing s with
  | zero =>
    intro h
    have : s.waiting = [] := List.eq_nil_of_length_eq_zero (by omega)
    simp [admitReqs, this] at h
  | succ n ih =>
    unfold admitReqs
    split
    · intro h; rename_i hw; exact absurd hw h
    · rename_i r rest hw
      split
      · intro h
        have := ih { s with waiting := rest, queue := s.queue ++ [r] } (by simp [hw] at hf ⊢; omega) h
        simpa using this
      · intro _; omega

/-- saturation: whenever a request is still unparsed, the pipeline holds `limit` requests -/
def Saturated (s : St) : Prop := s.waiting ≠ [] → s.limit ≤ s.queue.length

theorem admitReqs_saturated (s : St) : Saturated (admitReqs s.waiting.length s) := by
  intro hw
  have := admitReqs_saturates s.waiting.length s (Nat.le_refl _) hw
  rw [admitReqs_queue_le_limit]
  exact this

theorem step_saturated (s : St) (e : Ev) (h : Saturated s) : Saturated (step s e) := by
  cases e with
  | parse => exact admitReqs_saturated s
  | complete r =>
    simp only [step]
    split
    · split
      · split
        · exact admitReqs_saturated _
        · exact h
      · exact h
    · exact h

theorem run_saturated (s : St) (evs : List Ev) (h : Saturated s) : Saturated (run s evs) := by
  induction evs generalizing s with
  | nil => exact h
  | cons e rest ih => exact ih _ (step_saturated s e h)

end SquidModel.Pipeline
