import SquidModel.Pipeline.Model

namespace SquidModel.Pipeline

theorem drain_order (fuel : Nat) (s : St) : order (drain fuel s) = order s := by
  induction fuel generalizing s with
  | zero => rfl
  | succ n ih =>
    unfold drain
    split
    · rfl
    · rename_i f rest hq
      split
      · rw [ih]; simp [order, hq]
      · rfl

theorem admitReqs_order (fuel : Nat) (s : St) : order (admitReqs fuel s) = order s := by
  induction fuel generalizing s with
  | zero => rfl
  | succ n ih =>
    unfold admitReqs
    split
    · rfl
    · rename_i r rest hw
      split
      · rw [ih]; simp [order, hw]
      · rfl

theorem step_order (s : St) (e : Ev) : order (step s e) = order s := by
  cases e with
  | parse => exact admitReqs_order _ _
  | complete r =>
    simp only [step]
    split
    · split
      · rename_i f rest hq
        split
        · rename_i hfr
          rw [admitReqs_order, drain_order]
          simp [order, hq, hfr]
        · rfl
      · rfl
    · rfl

theorem run_order (s : St) (evs : List Ev) : order (run s evs) = order s := by
  induction evs generalizing s with
  | nil => rfl
  | cons e rest ih => simp only [run, List.foldl_cons] at ih ⊢; rw [ih, step_order]

theorem drain_limit (fuel : Nat) (s : St) : (drain fuel s).limit = s.limit := by
  induction fuel generalizing s with
  | zero => rfl
  | succ n ih => unfold drain; split; · rfl
                 · split
                   · rw [ih]
                   · rfl

theorem drain_queue_le (fuel : Nat) (s : St) : (drain fuel s).queue.length ≤ s.queue.length := by
  induction fuel generalizing s with
  | zero => exact Nat.le_refl _
  | succ n ih =>
    unfold drain
    split
    · exact Nat.le_refl _
    · rename_i f rest hq
      split
      · have := ih { s with queue := rest, deferred := s.deferred.erase f, written := s.written ++ [f] }
        simp only [hq, List.length_cons] at this ⊢; omega
      · simp [hq]

theorem admitReqs_queue_le (fuel : Nat) (s : St) (h : s.queue.length ≤ s.limit) :
    (admitReqs fuel s).queue.length ≤ s.limit ∧ (admitReqs fuel s).limit = s.limit := by
  induction fuel generalizing s with
  | zero => exact ⟨h, rfl⟩
  | succ n ih =>
    unfold admitReqs
    split
    · exact ⟨h, rfl⟩
    · rename_i r rest hw
      split
      · rename_i hlt
        have := ih { s with waiting := rest, queue := s.queue ++ [r] } (by simp; omega)
        exact this
      · exact ⟨h, rfl⟩

end SquidModel.Pipeline
