/-
C47 model: the helper reply reader/dispatcher of src/helper.cc for stateless ("concurrent") helper sessions, plus the
small part of src/helper/Reply.cc it depends on.

Functions followed (src/helper.cc unless noted), branch by branch:
* `Helper::Client::submitRequest` / `GetFirstAvailable` (one session) / `Enqueue` / `Helper::Client::nextRequest`
  / `helperKickQueue` / `helperDispatch` (`reqId = ++nextRequestId`, `requests.push_back`, `++stats.pending`).
* `Helper::Session::popRequest(int)`: concurrency ⇒ look the id up in `requestsIndex` (a `std::map<uint64_t,…>`; a negative
  `int` converts to an id no request has), else pop the front of `requests`.
* `helperHandleRead`: `roffset += len`; "spoke without being spoken to" (`!stats.pending`) ⇒ close; the `while (*msg && !needsMore)`
  loop: `strchr(msg, '\n')` (C string: stops at a NUL), CR LF handling, `strtol` channel-id parse, `needsMore`,
  `popRequest`, `ignoreToEom`, `helperReturnBuffer`, `msg += msgSize + skip`; then `memmove` of the unparsed tail
  (needsMore) or `assert(msg - rbuf == roffset)`.
* `helperReturnBuffer`: `reply.accumulate`; no EOM yet ⇒ return; else `reply.finalize()`, BH ⇒ retry (`retries < MAX_RETRIES`,
  `submitRequest`) else callback; `--stats.pending`; `replyXaction = nullptr`; `helperKickQueue`.
* `Helper::Reply::finalize` (src/helper/Reply.cc): the result-code recognition as far as it decides `result == BrokenHelper`
  (needed for the retry branch; a retried Xaction reuses its Reply object, so an unrecognised code keeps the stale BH).

`Cfg.popOnlyWhenComplete` / `Cfg.dropUnterminated` / `Cfg.nulCloses` / `Cfg.wideChannelId` select the behaviour of the places where candidate repairs
(notes/fixes/C47-*.diff) change the code; the values that describe the staged tree are dumped into
`SquidModel/Gen/HelperRead.lean` by translate/helper_read.py.  All `false` is the pinned tree.

Not modelled: the 1 MiB reply size limit of `accumulate`, helper timeouts (`hlp->timeout == 0`, `stats.timedout == 0`),
several sessions per helper, `flags.shutdown`, the Comm close path after `closePipesSafely`, callbacks whose
cbdata became invalid, reads larger than the space left in `rbuf`.
-/
import SquidModel.Base.Bytes

namespace SquidModel.Helper

structure Cfg where
  /-- `hlp->childs.concurrency` -/
  concurrency : Nat
  /-- repair 1: `popRequest` is called only when `!needsMore` -/
  popOnlyWhenComplete : Bool
  /-- repair 2: a complete line whose channel-id is not followed by whitespace/EOM is dropped instead of asserting -/
  dropUnterminated : Bool
  /-- repair 2: a read containing a NUL octet closes the session instead of tripping the final assertion -/
  nulCloses : Bool
  /-- repair 3: the channel id is kept as a 64-bit number (`strtoll`, `popRequest(int64_t)`) instead of being truncated to `int` -/
  wideChannelId : Bool
deriving Repr, DecidableEq

/-- `Helper::Xaction` as far as dispatch is concerned -/
structure Req where
  /-- which submission this is (1-based, in `helperSubmit` order): the identity of the asking transaction -/
  serial : Nat
  /-- `request.Id` -/
  id : Nat
  /-- `request.retries` -/
  retries : Nat
  /-- `reply.other_` as accumulated so far -/
  acc : Bytes
deriving Repr, DecidableEq

structure St where
  /-- `rbuf[0, roffset)` -/
  rbuf : Bytes := []
  /-- `srv->requests` (dispatched, unanswered, in dispatch order) -/
  requests : List Req := []
  /-- `srv->replyXaction` -/
  cur : Option Req := none
  /-- `srv->ignoreToEom` -/
  ignoreToEom : Bool := false
  /-- `srv->nextRequestId` -/
  nextId : Nat := 0
  /-- `srv->stats.pending` -/
  pending : Nat := 0
  /-- `hlp->queue`: (serial, retries) -/
  queue : List (Nat × Nat) := []
  /-- `flags.closing` after `closePipesSafely()` -/
  closed : Bool := false
  /-- an `assert` failed: the process is gone -/
  dead : Bool := false
  /-- callbacks made so far: (serial, raw reply handed to `finalize`) -/
  delivered : List (Nat × Bytes) := []
deriving Repr, DecidableEq

def isSpace (b : UInt8) : Bool := b == 32 || (9 ≤ b && b ≤ 13)
def isDigit (b : UInt8) : Bool := 48 ≤ b && b ≤ 57

def digitsVal : Bytes → Nat → Nat
  | [], acc => acc
  | d :: ds, acc => digitsVal ds (acc * 10 + (d.toNat - 48))

/-- `(int)` conversion of a `long` (two's complement truncation, as gcc does) -/
def wrap32 (x : Int) : Int := (x + 2147483648) % 4294967296 - 2147483648

/-- `long` result of `strtol` for a sign and a digit value: clamped to LONG_MIN/LONG_MAX -/
def clampLong (neg : Bool) (v : Nat) : Int :=
  if neg then (if v > 9223372036854775808 then -9223372036854775808 else -(v : Int))
  else (if v > 9223372036854775807 then 9223372036854775807 else (v : Int))

/-- the value stored in `i`: `int i = strtol(..)` truncates, the repaired `int64_t i = strtoll(..)` does not -/
def chanVal (wide : Bool) (neg : Bool) (v : Nat) : Int :=
  if wide then clampLong neg v else wrap32 (clampLong neg v)

/-- `i = strtol(s, &e, 10)` on the C string `s` (no NUL inside): the value of `i` and `e - s`.
No digits ⇒ value 0 and `e = s`. -/
def strtol (wide : Bool) (s : Bytes) : Int × Nat :=
  let ws := s.takeWhile isSpace
  let s1 := s.dropWhile isSpace
  match s1 with
  | 45 :: t =>
    let ds := t.takeWhile isDigit
    if ds.isEmpty then (0, 0) else (chanVal wide true (digitsVal ds 0), ws.length + 1 + ds.length)
  | 43 :: t =>
    let ds := t.takeWhile isDigit
    if ds.isEmpty then (0, 0) else (chanVal wide false (digitsVal ds 0), ws.length + 1 + ds.length)
  | _ =>
    let ds := s1.takeWhile isDigit
    if ds.isEmpty then (0, 0) else (chanVal wide false (digitsVal ds 0), ws.length + ds.length)

/-- `Helper::Session::popRequest(i)`: the request handed out (if any) and the remaining `requests` -/
def popRequest (cfg : Cfg) (reqs : List Req) (i : Int) : Option Req × List Req :=
  if cfg.concurrency > 0 then
    match reqs.find? (fun r => (r.id : Int) == i) with
    | some r => (some r, reqs.filter (fun q => q.id != r.id))
    | none => (none, reqs)
  else
    match reqs with
    | [] => (none, [])
    | r :: rs => (some r, rs)

/-- `GetFirstAvailable` for the single session -/
def available (cfg : Cfg) (st : St) : Bool :=
  st.pending < (if cfg.concurrency > 0 then cfg.concurrency else 1)

/-- `helperDispatch` -/
def dispatch (st : St) (serial retries : Nat) : St :=
  { st with nextId := st.nextId + 1,
            requests := st.requests ++ [{ serial := serial, id := st.nextId + 1, retries := retries, acc := [] }],
            pending := st.pending + 1 }

/-- `Helper::Client::submitRequest` -/
def submit (cfg : Cfg) (st : St) (serial retries : Nat) : St :=
  if available cfg st then dispatch st serial retries
  else { st with queue := st.queue ++ [(serial, retries)] }

/-- `helperKickQueue`: `while ((srv = GetFirstAvailable(hlp)) && (r = hlp->nextRequest())) helperDispatch(srv, r)` -/
def kick (cfg : Cfg) (st : St) : List (Nat × Nat) → St
  | [] => { st with queue := [] }
  | (s, k) :: q =>
    if available cfg st then kick cfg (dispatch st s k) q
    else { st with queue := (s, k) :: q }

def kickQueue (cfg : Cfg) (st : St) : St := kick cfg st st.queue

/-- the C string starting at `msg`: up to the first NUL (the byte after `rbuf[roffset-1]` is always NUL) -/
def cstr (b : Bytes) : Bytes := b.takeWhile (· != 0)

/-- Does `Helper::Reply::finalize` (src/helper/Reply.cc) leave `result == Helper::BrokenHelper`?  `prevBH`: the (reused)
Reply object already had that result from an earlier attempt; a reply without a recognised result code keeps it. -/
def resultIsBH (prevBH : Bool) (p : Bytes) : Bool :=
  match p with
  | [] => false                                   -- "Zero length reply": Helper::Error
  | [_] => prevBH                                 -- `len >= 2` fails: no result code considered
  | [79, 75] => false                             -- OK
  | 79 :: 75 :: 32 :: _ => false
  | [69, 82, 82] => false                         -- ERR
  | 69 :: 82 :: 82 :: 32 :: _ => false
  | [66, 72] => true                              -- BH
  | 66 :: 72 :: 32 :: _ => true
  | 84 :: 84 :: 32 :: t => (cstr t).all isSpace   -- "TT " without a token: BrokenHelper
  | 65 :: 70 :: 32 :: _ => false                  -- "AF "
  | 78 :: 65 :: 32 :: _ => false                  -- "NA "
  | _ => prevBH

def maxRetries : Nat := 2

/-- `helperReturnBuffer(srv, hlp, msg, msgSize, msgEnd)` -/
def returnBuffer (cfg : Cfg) (st : St) (msg : Bytes) (eom : Bool) : St :=
  match st.cur with
  | some r =>
    let r' := { r with acc := r.acc ++ msg }
    if !eom then { st with cur := some r' }            -- waiting for more data
    else
      let retry := resultIsBH (r'.retries > 0) r'.acc && r'.retries < maxRetries
      let st1 := { st with cur := none, pending := st.pending - 1,
                           delivered := if retry then st.delivered else st.delivered ++ [(r'.serial, r'.acc)] }
      let st2 := if retry then submit cfg st1 r'.serial (r'.retries + 1) else st1
      kickQueue cfg st2
  | none => kickQueue cfg st

/-- `strchr(msg, '\n')` as an offset into the C string -/
def findEom (vis : Bytes) : Option Nat :=
  if vis.contains 10 then some (vis.takeWhile (· != 10)).length else none

/-- strip the CR of a CR LF terminator: `eom > msg && eom[-1] == '\r'` -/
def stripCr (raw : Bytes) : Bytes :=
  if raw.getLast? == some 13 then raw.dropLast else raw

/-- outcome of one iteration of the parse loop -/
inductive Step where
  /-- continue the loop with the rest of the buffer -/
  | next (st : St) (rest : Bytes)
  /-- the loop is over; `keep` is what stays in `rbuf` -/
  | stop (st : St) (keep : Bytes)
  /-- an assertion failed -/
  | assertFail (st : St)

/-- one iteration of `while (*msg && !needsMore)` with `*msg != 0`; `rest = rbuf[msg, roffset)` -/
def iter (cfg : Cfg) (st : St) (rest : Bytes) : Step :=
  let vis := cstr rest
  match findEom vis with
  | some q =>
    -- a complete message: [msg, eom)
    let line := stripCr (rest.take q)
    let after := rest.drop (q + 1)
    if !st.ignoreToEom && st.cur.isNone then
      if cfg.concurrency > 0 then
        let (i, off) := strtol cfg.wideChannelId line
        -- `*e` is a space, or `e == eom`
        let terminated := off == line.length || isSpace (line.getD off 0)
        if terminated then
          let body := (line.drop off).dropWhile isSpace
          let (r, reqs) := popRequest cfg st.requests i
          let st1 := { st with requests := reqs, cur := r, ignoreToEom := r.isNone }
          let st2 := returnBuffer cfg st1 body true
          .next { st2 with ignoreToEom := false } after
        else if cfg.dropUnterminated then
          -- repaired: no such channel; the line is skipped
          let st2 := returnBuffer cfg { st with ignoreToEom := true } line true
          .next { st2 with ignoreToEom := false } after
        else
          -- needsMore although the message is complete: `assert(skip == 0 && eom == nullptr)`
          .assertFail st
      else
        let (r, reqs) := popRequest cfg st.requests 0
        let st1 := { st with requests := reqs, cur := r, ignoreToEom := r.isNone }
        let st2 := returnBuffer cfg st1 line true
        .next { st2 with ignoreToEom := false } after
    else
      -- continuation of the current reply / of an ignored one
      let st2 := returnBuffer cfg st line true
      .next { st2 with ignoreToEom := false } after
  | none =>
    -- no end of message in the buffer
    if !st.ignoreToEom && st.cur.isNone then
      if cfg.concurrency > 0 then
        let (i, off) := strtol cfg.wideChannelId vis
        let terminated := isSpace (vis.getD off 0)
        if terminated then
          let bodyOff := off + ((vis.drop off).takeWhile isSpace).length
          let (r, reqs) := popRequest cfg st.requests i
          let st1 := { st with requests := reqs, cur := r, ignoreToEom := r.isNone }
          .stop (returnBuffer cfg st1 (rest.drop bodyOff) false) []
        else if cfg.popOnlyWhenComplete then
          .stop st rest
        else
          -- pinned tree: `popRequest(i)` runs on the incomplete id
          let (r, reqs) := popRequest cfg st.requests i
          .stop { st with requests := reqs, cur := r, ignoreToEom := r.isNone } rest
      else
        let (r, reqs) := popRequest cfg st.requests 0
        let st1 := { st with requests := reqs, cur := r, ignoreToEom := r.isNone }
        .stop (returnBuffer cfg st1 rest false) []
    else
      .stop (returnBuffer cfg st rest false) []

/-- the parse loop; `fuel` bounds the number of iterations (each consumes at least one byte) -/
def loop (cfg : Cfg) : Nat → St → Bytes → St
  | 0, st, _ => { st with dead := true }
  | fuel + 1, st, rest =>
    match rest with
    | [] => { st with rbuf := [] }                      -- `msg - rbuf == roffset`
    | c :: _ =>
      if c == 0 then { st with dead := true }          -- loop ends at a NUL before roffset: the final assert fails
      else
        match iter cfg st rest with
        | .next st' rest' => loop cfg fuel st' rest'
        | .stop st' keep => { st' with rbuf := keep }
        | .assertFail st' => { st' with dead := true }

/-- `helperHandleRead` for a successful read of `chunk` (non-empty) -/
def handleRead (cfg : Cfg) (st : St) (chunk : Bytes) : St :=
  if st.closed || st.dead then st
  else
    let buf := st.rbuf ++ chunk
    if cfg.nulCloses && chunk.contains 0 then { st with rbuf := [], closed := true }   -- repaired: NUL octet from the helper
    else if st.pending == 0 then { st with rbuf := [], closed := true }   -- someone spoke without being spoken to
    else loop cfg (buf.length + 1) { st with rbuf := [] } buf    -- (the loop ends by storing what stays in `rbuf`)

/-- a fresh session whose `nextRequestId` is `base` -/
def initial (base : Nat) : St := { nextId := base }

def submitAll (cfg : Cfg) (st : St) : List Nat → St
  | [] => st
  | s :: ss => submitAll cfg (submit cfg st s 0) ss

def feed (cfg : Cfg) (st : St) : List Bytes → St
  | [] => st
  | c :: cs => feed cfg (handleRead cfg st c) cs

/-- a scenario: `n` submissions on a fresh session, then the reads -/
def run (cfg : Cfg) (base n : Nat) (reads : List Bytes) : St :=
  feed cfg (submitAll cfg (initial base) ((List.range n).map (· + 1))) reads

/-- the reply delivered to submission `serial` (the last callback, if any) -/
def deliveredTo (st : St) (serial : Nat) : Option Bytes :=
  (st.delivered.reverse.find? (fun d => d.1 == serial)).map (·.2)

end SquidModel.Helper
