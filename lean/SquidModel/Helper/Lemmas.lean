/-
C47 lemmas: what `iter` / `loop` / `handleRead` of SquidModel/Helper/Read.lean compute on protocol-conforming helper output
(`<digits> SP <body> LF`), as explicit step functions; used by SquidModel/Properties/C47.lean.
-/
import SquidModel.Helper.Read
import SquidModel.Base.Finite

namespace SquidModel.Helper

/-! ### octet facts -/

theorem isDigit_not_space {c : UInt8} (h : isDigit c = true) : isSpace c = false := by
  have := forall_octet (fun c => !isDigit c || !isSpace c) (by decide +kernel) c
  simpa [h] using this

theorem isDigit_ne {c : UInt8} (k : UInt8) (hk : isDigit k = false) (h : isDigit c = true) : c ≠ k := by
  intro e; subst e; rw [hk] at h; cases h

theorem isDigit_ne_zero {c : UInt8} (h : isDigit c = true) : c ≠ 0 := isDigit_ne 0 (by decide) h
theorem isDigit_ne_lf {c : UInt8} (h : isDigit c = true) : c ≠ 10 := isDigit_ne 10 (by decide) h
theorem isDigit_ne_cr {c : UInt8} (h : isDigit c = true) : c ≠ 13 := isDigit_ne 13 (by decide) h
theorem isDigit_ne_minus {c : UInt8} (h : isDigit c = true) : c ≠ 45 := isDigit_ne 45 (by decide) h
theorem isDigit_ne_plus {c : UInt8} (h : isDigit c = true) : c ≠ 43 := isDigit_ne 43 (by decide) h

theorem isSpace_sp : isSpace 32 = true := by decide
theorem isSpace_zero : isSpace 0 = false := by decide
theorem isDigit_sp : isDigit 32 = false := by decide

/-! ### protocol-conforming text -/

/-- a non-empty run of decimal digits -/
def GoodDigits (ds : Bytes) : Prop := ds ≠ [] ∧ ∀ d ∈ ds, isDigit d = true

/-- a reply body: no NUL / LF / CR, not starting with whitespace -/
def GoodBody (body : Bytes) : Prop :=
  (∀ c ∈ body, c ≠ 0 ∧ c ≠ 10 ∧ c ≠ 13) ∧ (∀ c, body.head? = some c → isSpace c = false)

/-- `<digits> SP <body>` -/
def mkLine (ds body : Bytes) : Bytes := ds ++ 32 :: body

theorem takeWhile_append_stop {p : UInt8 → Bool} (xs : Bytes) (c : UInt8) (ys : Bytes)
    (hx : ∀ x ∈ xs, p x = true) (hc : p c = false) : (xs ++ c :: ys).takeWhile p = xs := by
  induction xs with
  | nil => simp [List.takeWhile, hc]
  | cons x xs ih =>
    have hx0 : p x = true := hx x (by simp)
    simp [List.takeWhile, hx0]
    exact ih (fun y hy => hx y (by simp [hy]))

theorem takeWhile_all {p : UInt8 → Bool} (xs : Bytes) (hx : ∀ x ∈ xs, p x = true) : xs.takeWhile p = xs := by
  induction xs with
  | nil => rfl
  | cons x xs ih =>
    have hx0 : p x = true := hx x (by simp)
    simp [List.takeWhile, hx0]
    exact ih (fun y hy => hx y (by simp [hy]))

theorem dropWhile_head_false {p : UInt8 → Bool} (xs : Bytes) (h : ∀ c, xs.head? = some c → p c = false) :
    xs.dropWhile p = xs := by
  cases xs with
  | nil => rfl
  | cons x xs => simp [List.dropWhile, h x rfl]

theorem takeWhile_head_false {p : UInt8 → Bool} (xs : Bytes) (h : ∀ c, xs.head? = some c → p c = false) :
    xs.takeWhile p = [] := by
  cases xs with
  | nil => rfl
  | cons x xs => simp [List.takeWhile, h x rfl]

/-- the digits come first: nothing for `strtol` to skip -/
theorem goodDigits_head {ds : Bytes} (h : GoodDigits ds) : ∃ d rest, ds = d :: rest ∧ isDigit d = true := by
  obtain ⟨hne, hd⟩ := h
  cases ds with
  | nil => exact absurd rfl hne
  | cons d rest => exact ⟨d, rest, rfl, hd d (by simp)⟩

/-- the shape of `strtol` once the text is known to start with a digit -/
theorem strtol_of_digit_head (w : Bool) (d : UInt8) (y ds : Bytes) (hd : isDigit d = true)
    (htw : (d :: y).takeWhile isDigit = ds) :
    strtol w (d :: y) = (chanVal w false (digitsVal ds 0), ds.length) := by
  have hns : isSpace d = false := isDigit_not_space hd
  have hm : d ≠ 45 := isDigit_ne_minus hd
  have hp : d ≠ 43 := isDigit_ne_plus hd
  have h1 : (d :: y).takeWhile isSpace = [] := by simp [List.takeWhile_cons, hns]
  have h2 : (d :: y).dropWhile isSpace = d :: y := by simp [List.dropWhile_cons, hns]
  have hne : ds.isEmpty = false := by
    rw [← htw]; simp [List.takeWhile_cons, hd]
  unfold strtol
  rw [h1, h2]
  dsimp only
  split
  · rename_i t heq; injection heq with h1 _; exact absurd h1 hm
  · rename_i t heq; injection heq with h1 _; exact absurd h1 hp
  · simp only [htw, hne]; simp

/-- `strtol` on `<digits> <non-digit> ...` -/
theorem strtol_digits_then (w : Bool) (ds : Bytes) (c : UInt8) (x : Bytes) (h : GoodDigits ds) (hc : isDigit c = false) :
    strtol w (ds ++ c :: x) = (chanVal w false (digitsVal ds 0), ds.length) := by
  obtain ⟨d, rest, rfl, hd⟩ := goodDigits_head h
  have htw : ((d :: rest) ++ c :: x).takeWhile isDigit = d :: rest := takeWhile_append_stop _ _ _ h.2 hc
  exact strtol_of_digit_head w d (rest ++ c :: x) (d :: rest) hd htw

/-- `strtol` on digits only (everything read so far belongs to the id) -/
theorem strtol_digits_only (w : Bool) (ds : Bytes) (h : GoodDigits ds) :
    strtol w ds = (chanVal w false (digitsVal ds 0), ds.length) := by
  obtain ⟨d, rest, rfl, hd⟩ := goodDigits_head h
  have htw : (d :: rest).takeWhile isDigit = d :: rest := takeWhile_all _ h.2
  exact strtol_of_digit_head w d rest (d :: rest) hd htw

/-! ### C strings and message ends -/

/-- no NUL and no LF inside -/
def Clean (l : Bytes) : Prop := ∀ c ∈ l, c ≠ 0 ∧ c ≠ 10

theorem cstr_clean_append_lf (l x : Bytes) (h : Clean l) : cstr (l ++ 10 :: x) = l ++ 10 :: cstr x := by
  induction l with
  | nil => simp [cstr, List.takeWhile_cons]
  | cons c l ih =>
    have hc : c ≠ 0 := (h c (by simp)).1
    have := ih (fun y hy => h y (by simp [hy]))
    simp only [cstr] at this ⊢
    simp [List.takeWhile_cons, hc, this]

theorem cstr_clean (l : Bytes) (h : Clean l) : cstr l = l := by
  unfold cstr
  exact takeWhile_all _ (fun c hc => by simpa using (h c hc).1)

theorem findEom_clean_append_lf (l x : Bytes) (h : Clean l) : findEom (l ++ 10 :: x) = some l.length := by
  unfold findEom
  have h1 : (l ++ 10 :: x).contains 10 = true := by simp
  have h2 : (l ++ 10 :: x).takeWhile (· != 10) = l :=
    takeWhile_append_stop _ _ _ (fun c hc => by simpa using (h c hc).2) (by simp)
  simp [h1, h2]

theorem findEom_clean (l : Bytes) (h : Clean l) : findEom l = none := by
  unfold findEom
  have hm : ¬ (10 : UInt8) ∈ l := fun hm => (h 10 hm).2 rfl
  simp [hm]

theorem take_append_len (l : Bytes) (c : UInt8) (x : Bytes) : (l ++ c :: x).take l.length = l := by simp
theorem drop_append_len (l : Bytes) (c : UInt8) (x : Bytes) : (l ++ c :: x).drop (l.length + 1) = x := by
  induction l with
  | nil => simp
  | cons a l ih => simpa using ih

theorem stripCr_of_last (l : Bytes) (h : l.getLast? ≠ some 13) : stripCr l = l := by
  unfold stripCr; simp [h]

/-! ### one loop iteration on conforming text -/

/-- a complete line arriving while a reply is being continued or ignored -/
theorem iter_cont_line (cfg : Cfg) (st : St) (l x : Bytes) (hc : Clean l) (hcr : l.getLast? ≠ some 13)
    (hph : (!st.ignoreToEom && st.cur.isNone) = false) :
    iter cfg st (l ++ 10 :: x) = .next { returnBuffer cfg st l true with ignoreToEom := false } x := by
  unfold iter
  simp only [cstr_clean_append_lf l x hc, findEom_clean_append_lf l (cstr x) hc, take_append_len, drop_append_len,
    stripCr_of_last l hcr, hph]
  simp

/-- more of a reply that is being continued or ignored, still without its end -/
theorem iter_cont_partial (cfg : Cfg) (st : St) (t : Bytes) (hc : Clean t)
    (hph : (!st.ignoreToEom && st.cur.isNone) = false) :
    iter cfg st t = .stop (returnBuffer cfg st t false) [] := by
  unfold iter
  simp only [cstr_clean t hc, findEom_clean t hc, hph]
  simp

/-! ### the start of a message on a concurrent channel -/

theorem clean_mkLine {ds body : Bytes} (hd : GoodDigits ds) (hb : GoodBody body) : Clean (mkLine ds body) := by
  intro c hc
  simp only [mkLine, List.mem_append, List.mem_cons] at hc
  rcases hc with h | h | h
  · exact ⟨isDigit_ne_zero (hd.2 c h), isDigit_ne_lf (hd.2 c h)⟩
  · subst h; exact ⟨by decide, by decide⟩
  · exact ⟨(hb.1 c h).1, (hb.1 c h).2.1⟩

theorem mkLine_last {ds body : Bytes} (hd : GoodDigits ds) (hb : GoodBody body) : (mkLine ds body).getLast? ≠ some 13 := by
  intro h
  have hm : (13 : UInt8) ∈ mkLine ds body := List.mem_of_getLast? h
  simp only [mkLine, List.mem_append, List.mem_cons] at hm
  rcases hm with h1 | h1 | h1
  · exact isDigit_ne_cr (hd.2 13 h1) rfl
  · exact absurd h1 (by decide)
  · exact (hb.1 13 h1).2.2 rfl

theorem getD_append_len (l : Bytes) (c : UInt8) (x : Bytes) : (l ++ c :: x).getD l.length 0 = c := by
  simp [List.getD_eq_getElem?_getD]

theorem drop_append_len0 (l : Bytes) (x : Bytes) : (l ++ x).drop l.length = x := by simp

/-- the channel number written as `ds` -/
def chanOf (cfg : Cfg) (ds : Bytes) : Int := chanVal cfg.wideChannelId false (digitsVal ds 0)

/-- the session right after `popRequest(i)` at the start of a message -/
def popped (cfg : Cfg) (st : St) (i : Int) : St :=
  { st with requests := (popRequest cfg st.requests i).2, cur := (popRequest cfg st.requests i).1,
            ignoreToEom := (popRequest cfg st.requests i).1.isNone }

/-- a complete conforming line `<ds> SP <body> LF` handled at the start of a message -/
def lineStep (cfg : Cfg) (st : St) (ds body : Bytes) : St :=
  { returnBuffer cfg (popped cfg st (chanOf cfg ds)) body true with ignoreToEom := false }

theorem iter_line (cfg : Cfg) (st : St) (ds body x : Bytes) (hconc : cfg.concurrency > 0)
    (hcur : st.cur = none) (hign : st.ignoreToEom = false) (hd : GoodDigits ds) (hb : GoodBody body) :
    iter cfg st (mkLine ds body ++ 10 :: x) = .next (lineStep cfg st ds body) x := by
  have hc := clean_mkLine hd hb
  have hl := mkLine_last hd hb
  have hs : strtol cfg.wideChannelId (mkLine ds body) = (chanOf cfg ds, ds.length) :=
    strtol_digits_then _ ds 32 body hd isDigit_sp
  have hg : (mkLine ds body).getD ds.length 0 = 32 := getD_append_len ds 32 body
  have hdrop : ((mkLine ds body).drop ds.length).dropWhile isSpace = body := by
    simp only [mkLine, drop_append_len0, List.dropWhile_cons, isSpace_sp, if_true]
    exact dropWhile_head_false body hb.2
  unfold iter
  simp only [cstr_clean_append_lf _ x hc, findEom_clean_append_lf _ (cstr x) hc, take_append_len, drop_append_len,
    stripCr_of_last _ hl, hcur, hign, hs, hg, hdrop, isSpace_sp]
  simp [hconc, lineStep, popped]

theorem clean_digits {ds : Bytes} (hd : GoodDigits ds) : Clean ds :=
  fun c hc => ⟨isDigit_ne_zero (hd.2 c hc), isDigit_ne_lf (hd.2 c hc)⟩

/-- only (part of) the channel number has arrived: with repair 1 nothing is decided yet -/
theorem iter_partial_digits (cfg : Cfg) (st : St) (ds : Bytes) (hconc : cfg.concurrency > 0) (hfix : cfg.popOnlyWhenComplete = true)
    (hcur : st.cur = none) (hign : st.ignoreToEom = false) (hd : GoodDigits ds) :
    iter cfg st ds = .stop st ds := by
  have hc := clean_digits hd
  have hs : strtol cfg.wideChannelId ds = (chanOf cfg ds, ds.length) := strtol_digits_only _ ds hd
  have hg : ds.getD ds.length 0 = 0 := by simp [List.getD_eq_getElem?_getD]
  unfold iter
  simp only [cstr_clean ds hc, findEom_clean ds hc, hcur, hign, hs, hg, isSpace_zero]
  simp [hconc, hfix]

/-- the channel number, the space and the beginning of the body have arrived, not the end of the message -/
theorem iter_partial_body (cfg : Cfg) (st : St) (ds body : Bytes) (hconc : cfg.concurrency > 0)
    (hcur : st.cur = none) (hign : st.ignoreToEom = false) (hd : GoodDigits ds) (hb : GoodBody body) :
    iter cfg st (mkLine ds body) = .stop (returnBuffer cfg (popped cfg st (chanOf cfg ds)) body false) [] := by
  have hc := clean_mkLine hd hb
  have hs : strtol cfg.wideChannelId (mkLine ds body) = (chanOf cfg ds, ds.length) :=
    strtol_digits_then _ ds 32 body hd isDigit_sp
  have hg : (mkLine ds body).getD ds.length 0 = 32 := getD_append_len ds 32 body
  have htw : (((mkLine ds body).drop ds.length).takeWhile isSpace).length = 1 := by
    simp only [mkLine, drop_append_len0, List.takeWhile_cons, isSpace_sp, if_true]
    simp [takeWhile_head_false body hb.2]
  have hdrop : (mkLine ds body).drop (ds.length + 1) = body := drop_append_len ds 32 body
  unfold iter
  simp only [cstr_clean _ hc, findEom_clean _ hc, hcur, hign, hs, hg, htw, hdrop, isSpace_sp]
  simp [hconc, popped]

/-! ### the loop: progress and fuel -/

theorem iter_next_drop (cfg : Cfg) (st st' : St) (rest rest' : Bytes) (h : iter cfg st rest = .next st' rest') :
    ∃ q, rest' = rest.drop (q + 1) := by
  unfold iter at h
  dsimp only at h
  repeat' split at h
  all_goals (first | (injection h with h1 h2; exact ⟨_, h2.symm⟩) | cases h)

theorem iter_next_shorter (cfg : Cfg) (st st' : St) (c : UInt8) (rest rest' : Bytes)
    (h : iter cfg st (c :: rest) = .next st' rest') : rest'.length ≤ rest.length := by
  obtain ⟨q, hq⟩ := iter_next_drop cfg st st' (c :: rest) rest' h
  subst hq
  simp

/-- the fuel is only a termination device: any amount above the buffer length gives the same result -/
theorem loop_fuel (cfg : Cfg) : ∀ (f f' : Nat) (st : St) (rest : Bytes), rest.length < f → rest.length < f' →
    loop cfg f st rest = loop cfg f' st rest := by
  intro f
  induction f with
  | zero => intro f' st rest h; omega
  | succ f ih =>
    intro f' st rest h h'
    cases f' with
    | zero => omega
    | succ f' =>
      cases rest with
      | nil => simp [loop]
      | cons c rest =>
        simp only [loop]
        split
        · rfl
        · cases hit : iter cfg st (c :: rest) with
          | next st' rest' =>
            have hl := iter_next_shorter cfg st st' c rest rest' hit
            simp only [List.length_cons] at h h'
            exact ih f' st' rest' (by omega) (by omega)
          | stop st' keep => rfl
          | assertFail st' => rfl

/-! ### the client queue -/

/-- the fields the queue machinery never touches -/
def sameSession (a b : St) : Prop :=
  a.cur = b.cur ∧ a.ignoreToEom = b.ignoreToEom ∧ a.closed = b.closed ∧ a.dead = b.dead ∧ a.rbuf = b.rbuf ∧
  a.delivered = b.delivered

theorem kick_same (cfg : Cfg) : ∀ (q : List (Nat × Nat)) (st : St), sameSession (kick cfg st q) st := by
  intro q
  induction q with
  | nil => intro st; simp [kick, sameSession]
  | cons a q ih =>
    intro st
    obtain ⟨s, k⟩ := a
    simp only [kick]
    split
    · have := ih (dispatch st s k)
      simpa [sameSession, dispatch] using this
    · simp [sameSession]

theorem kickQueue_same (cfg : Cfg) (st : St) : sameSession (kickQueue cfg st) st := kick_same cfg _ st

theorem kick_fixed (cfg : Cfg) : ∀ (q : List (Nat × Nat)) (st : St), kick cfg (kick cfg st q) (kick cfg st q).queue = kick cfg st q := by
  intro q
  induction q with
  | nil => intro st; simp [kick]
  | cons a q ih =>
    intro st
    obtain ⟨s, k⟩ := a
    by_cases hav : available cfg st = true
    · simp only [kick, hav, if_true]
      exact ih (dispatch st s k)
    · have hav' : available cfg { st with queue := (s, k) :: q } = false := by
        simpa [available] using hav
      simp only [kick, hav, Bool.false_eq_true, if_false, hav']

/-- kicking the queue twice is kicking it once -/
theorem kickQueue_idem (cfg : Cfg) (st : St) : kickQueue cfg (kickQueue cfg st) = kickQueue cfg st := by
  unfold kickQueue
  exact kick_fixed cfg st.queue st

theorem submit_same (cfg : Cfg) (st : St) (s k : Nat) : sameSession (submit cfg st s k) st := by
  unfold submit; split <;> simp [sameSession, dispatch]

/-! ### `helperReturnBuffer` in pieces -/

theorem returnBuffer_same_tail (cfg : Cfg) (st : St) (m : Bytes) (e : Bool) :
    (returnBuffer cfg st m e).closed = st.closed ∧ (returnBuffer cfg st m e).dead = st.dead ∧
    (returnBuffer cfg st m e).rbuf = st.rbuf ∧ (returnBuffer cfg st m e).ignoreToEom = st.ignoreToEom := by
  unfold returnBuffer
  split
  · rename_i r hr
    dsimp only
    split
    · simp
    · split
      · have h1 := kickQueue_same cfg (submit cfg { st with cur := none, pending := st.pending - 1, delivered := st.delivered } r.serial (r.retries + 1))
        have h2 := submit_same cfg { st with cur := none, pending := st.pending - 1, delivered := st.delivered } r.serial (r.retries + 1)
        simp only [sameSession] at h1 h2
        simp_all
      · have h1 := kickQueue_same cfg { st with cur := none, pending := st.pending - 1, delivered := st.delivered ++ [(r.serial, r.acc ++ m)] }
        simp only [sameSession] at h1
        simp_all
  · have h1 := kickQueue_same cfg st
    simp only [sameSession] at h1
    simp_all

theorem returnBuffer_eom_cur (cfg : Cfg) (st : St) (m : Bytes) : (returnBuffer cfg st m true).cur = none := by
  unfold returnBuffer
  split
  · rename_i r hr
    dsimp only
    split
    · rename_i h; simp at h
    · split
      · have h1 := kickQueue_same cfg (submit cfg { st with cur := none, pending := st.pending - 1, delivered := st.delivered } r.serial (r.retries + 1))
        have h2 := submit_same cfg { st with cur := none, pending := st.pending - 1, delivered := st.delivered } r.serial (r.retries + 1)
        simp only [sameSession] at h1 h2
        simp_all
      · have h1 := kickQueue_same cfg { st with cur := none, pending := st.pending - 1, delivered := st.delivered ++ [(r.serial, r.acc ++ m)] }
        simp only [sameSession] at h1
        simp_all
  · rename_i hn
    have h1 := kickQueue_same cfg st
    simp only [sameSession] at h1
    simp_all

/-- a reply body handed over in two pieces is the body handed over at once -/
theorem returnBuffer_split (cfg : Cfg) (st : St) (m1 m2 : Bytes) (e : Bool) :
    returnBuffer cfg (returnBuffer cfg st m1 false) m2 e = returnBuffer cfg st (m1 ++ m2) e := by
  cases hc : st.cur with
  | some r =>
    have h1 : returnBuffer cfg st m1 false = { st with cur := some { r with acc := r.acc ++ m1 } } := by
      unfold returnBuffer; simp [hc]
    rw [h1]
    unfold returnBuffer
    simp [hc, List.append_assoc]
  | none =>
    have h1 : returnBuffer cfg st m1 false = kickQueue cfg st := by
      unfold returnBuffer; simp [hc]
    have h2 : (kickQueue cfg st).cur = none := by
      have := kickQueue_same cfg st; simp only [sameSession] at this; rw [this.1, hc]
    rw [h1]
    have h3 : returnBuffer cfg (kickQueue cfg st) m2 e = kickQueue cfg (kickQueue cfg st) := by
      unfold returnBuffer; simp [h2]
    have h4 : returnBuffer cfg st (m1 ++ m2) e = kickQueue cfg st := by
      unfold returnBuffer; simp [hc]
    rw [h3, h4, kickQueue_idem]

/-! ### conforming streams -/

/-- complete reply lines, each `<ds> SP <body> LF` -/
def encode : List (Bytes × Bytes) → Bytes
  | [] => []
  | (ds, body) :: ls => mkLine ds body ++ 10 :: encode ls

def GoodLines (ls : List (Bytes × Bytes)) : Prop := ∀ p ∈ ls, GoodDigits p.1 ∧ GoodBody p.2

/-- the unfinished last line of a stream: nothing, some digits of the channel number, or `<ds> SP <part of the body>` -/
inductive Tail where
  | none
  | digits (ds : Bytes)
  | body (ds b : Bytes)

def Tail.enc : Tail → Bytes
  | .none => []
  | .digits ds => ds
  | .body ds b => mkLine ds b

def Tail.Good : Tail → Prop
  | .none => True
  | .digits ds => GoodDigits ds
  | .body ds b => GoodDigits ds ∧ GoodBody b

/-- between two messages, session open -/
structure LineStart (st : St) : Prop where
  cur : st.cur = none
  ign : st.ignoreToEom = false
  rbuf : st.rbuf = []

theorem lineStep_lineStart (cfg : Cfg) (st : St) (ds body : Bytes) (h : LineStart st) : LineStart (lineStep cfg st ds body) := by
  unfold lineStep
  have h1 := returnBuffer_same_tail cfg (popped cfg st (chanOf cfg ds)) body true
  have h2 := returnBuffer_eom_cur cfg (popped cfg st (chanOf cfg ds)) body
  exact ⟨by simpa using h2, by simp, by simpa [popped, h.rbuf] using h1.2.2.1⟩

/-- prefixes of good text are good -/
theorem goodDigits_prefix {a x : Bytes} (h : GoodDigits (a ++ x)) (ha : a ≠ []) : GoodDigits a :=
  ⟨ha, fun d hd => h.2 d (by simp [hd])⟩

theorem goodBody_prefix {a x : Bytes} (h : GoodBody (a ++ x)) : GoodBody a := by
  refine ⟨fun c hc => h.1 c (by simp [hc]), fun c hc => ?_⟩
  cases a with
  | nil => simp at hc
  | cons y a => exact h.2 c (by simpa using hc)

theorem goodBody_suffix_clean {a x : Bytes} (h : GoodBody (a ++ x)) : Clean x ∧ x.getLast? ≠ some 13 := by
  refine ⟨fun c hc => ⟨(h.1 c (by simp [hc])).1, (h.1 c (by simp [hc])).2.1⟩, fun hl => ?_⟩
  exact (h.1 13 (by simp [List.mem_of_getLast? hl])).2.2 rfl

/-! ### unfolding the loop by one iteration -/

theorem loop_next (cfg : Cfg) (f : Nat) (st st' : St) (c : UInt8) (rest rest' : Bytes) (hc : c ≠ 0)
    (h : iter cfg st (c :: rest) = .next st' rest') : loop cfg (f + 1) st (c :: rest) = loop cfg f st' rest' := by
  simp [loop, hc, h]

theorem loop_stop (cfg : Cfg) (f : Nat) (st st' : St) (c : UInt8) (rest keep : Bytes) (hc : c ≠ 0)
    (h : iter cfg st (c :: rest) = .stop st' keep) : loop cfg (f + 1) st (c :: rest) = { st' with rbuf := keep } := by
  simp [loop, hc, h]

theorem loop_nil (cfg : Cfg) (f : Nat) (st : St) : loop cfg (f + 1) st [] = { st with rbuf := [] } := by
  simp [loop]

theorem st_rbuf_eta (st : St) (h : st.rbuf = []) : { st with rbuf := [] } = st := by
  cases st; simp_all

theorem st_rbuf_set_set (st : St) (x : Bytes) (h : st.rbuf = []) : { { st with rbuf := x } with rbuf := [] } = st := by
  cases st; simp_all

/-! ### a read boundary inside a line: the four places it can fall -/

/-- what the second read sees: the session as the first read left it, and the bytes it kept followed by the new ones -/
def resume (cfg : Cfg) (f : Nat) (s1 : St) (b : Bytes) : St := loop cfg f { s1 with rbuf := [] } (s1.rbuf ++ b)

theorem merge_empty (cfg : Cfg) (st : St) (b : Bytes) (f1 f2 f3 : Nat) (hs : LineStart st)
    (h1 : 0 < f1) (h2 : b.length < f2) (h3 : b.length < f3) :
    resume cfg f2 (loop cfg f1 st []) b = loop cfg f3 st ([] ++ b) := by
  obtain ⟨k, rfl⟩ : ∃ k, f1 = k + 1 := ⟨f1 - 1, by omega⟩
  rw [loop_nil, st_rbuf_eta st hs.rbuf]
  unfold resume
  rw [st_rbuf_eta st hs.rbuf, hs.rbuf]
  exact loop_fuel cfg _ _ _ _ (by simpa using h2) (by simpa using h3)

/-- the boundary falls inside (or right after) the digits of the channel number: nothing has been decided, the second read
parses the same bytes the merged read parses -/
theorem merge_in_digits (cfg : Cfg) (st : St) (a b : Bytes) (f1 f2 f3 : Nat) (hconc : cfg.concurrency > 0)
    (hfix : cfg.popOnlyWhenComplete = true) (hs : LineStart st) (ha : GoodDigits a)
    (h1 : a.length < f1) (h2 : (a ++ b).length < f2) (h3 : (a ++ b).length < f3) :
    resume cfg f2 (loop cfg f1 st a) b = loop cfg f3 st (a ++ b) := by
  obtain ⟨k, rfl⟩ : ∃ k, f1 = k + 1 := ⟨f1 - 1, by omega⟩
  obtain ⟨d, rest, rfl, hd⟩ := goodDigits_head ha
  rw [loop_stop cfg k st st d rest (d :: rest) (isDigit_ne_zero hd) (iter_partial_digits cfg st (d :: rest) hconc hfix hs.cur hs.ign ha)]
  unfold resume
  rw [st_rbuf_set_set st _ hs.rbuf]
  exact loop_fuel cfg _ _ _ _ h2 h3

theorem mkLine_cons {ds body : Bytes} (hd : GoodDigits ds) : ∃ d rest, mkLine ds body = d :: rest ∧ d ≠ 0 := by
  obtain ⟨d, r, rfl, h⟩ := goodDigits_head hd
  exact ⟨d, r ++ 32 :: body, by simp [mkLine], isDigit_ne_zero h⟩

/-- the session after `<ds> SP <body1>` without the end of the message -/
def partStep (cfg : Cfg) (st : St) (ds body1 : Bytes) : St := returnBuffer cfg (popped cfg st (chanOf cfg ds)) body1 false

theorem loop_partial_body (cfg : Cfg) (k : Nat) (st : St) (ds body1 : Bytes) (hconc : cfg.concurrency > 0)
    (hs : LineStart st) (hd : GoodDigits ds) (hb : GoodBody body1) :
    loop cfg (k + 1) st (mkLine ds body1) = partStep cfg st ds body1 := by
  obtain ⟨d, rest, he, hd0⟩ := mkLine_cons (body := body1) hd
  have hi := iter_partial_body cfg st ds body1 hconc hs.cur hs.ign hd hb
  rw [he] at hi ⊢
  rw [loop_stop cfg k st _ d rest [] hd0 hi]
  have := (returnBuffer_same_tail cfg (popped cfg st (chanOf cfg ds)) body1 false).2.2.1
  exact st_rbuf_eta _ (by simpa [partStep, popped, hs.rbuf] using this)

theorem partStep_rbuf (cfg : Cfg) (st : St) (ds body1 : Bytes) (hs : LineStart st) : (partStep cfg st ds body1).rbuf = [] := by
  have := (returnBuffer_same_tail cfg (popped cfg st (chanOf cfg ds)) body1 false).2.2.1
  simpa [partStep, popped, hs.rbuf] using this

/-- after the channel number and the space, the session is attached to a request or ignores the message -/
theorem partStep_phase (cfg : Cfg) (st : St) (ds body1 : Bytes) :
    (!(partStep cfg st ds body1).ignoreToEom && (partStep cfg st ds body1).cur.isNone) = false := by
  unfold partStep returnBuffer
  cases hp : (popped cfg st (chanOf cfg ds)).cur with
  | some r => simp
  | none =>
    have h1 := kickQueue_same cfg (popped cfg st (chanOf cfg ds))
    simp only [sameSession] at h1
    have hi : (popped cfg st (chanOf cfg ds)).ignoreToEom = true := by
      simp only [popped] at hp ⊢; simp [hp]
    simp [h1.2.1, hi]

theorem mkLine_append (ds body1 x : Bytes) : mkLine ds body1 ++ x = mkLine ds (body1 ++ x) := by
  simp [mkLine]

theorem cons_of_append_lf (a' S : Bytes) (h0 : ∀ c ∈ a', c ≠ 0) : ∃ c r, a' ++ 10 :: S = c :: r ∧ c ≠ 0 := by
  cases a' with
  | nil => exact ⟨10, S, rfl, by decide⟩
  | cons c a' => exact ⟨c, a' ++ 10 :: S, rfl, h0 c (by simp)⟩

/-- the boundary falls after the channel number and its space, and the second read brings the end of the message -/
theorem merge_in_body_line (cfg : Cfg) (st : St) (ds body1 a' S : Bytes) (f1 f2 f3 : Nat) (hconc : cfg.concurrency > 0)
    (hs : LineStart st) (hd : GoodDigits ds) (hb : GoodBody (body1 ++ a'))
    (h1 : (mkLine ds body1).length < f1) (h2 : (a' ++ 10 :: S).length < f2)
    (h3 : (mkLine ds body1 ++ (a' ++ 10 :: S)).length < f3) :
    resume cfg f2 (loop cfg f1 st (mkLine ds body1)) (a' ++ 10 :: S) = loop cfg f3 st (mkLine ds body1 ++ (a' ++ 10 :: S)) := by
  obtain ⟨k1, rfl⟩ : ∃ k, f1 = k + 1 := ⟨f1 - 1, by omega⟩
  obtain ⟨k2, rfl⟩ : ∃ k, f2 = k + 1 := ⟨f2 - 1, by omega⟩
  obtain ⟨k3, rfl⟩ : ∃ k, f3 = k + 1 := ⟨f3 - 1, by omega⟩
  have hb1 : GoodBody body1 := goodBody_prefix hb
  have hsuf := goodBody_suffix_clean hb
  rw [loop_partial_body cfg k1 st ds body1 hconc hs hd hb1]
  unfold resume
  rw [st_rbuf_eta _ (partStep_rbuf cfg st ds body1 hs), partStep_rbuf cfg st ds body1 hs, List.nil_append]
  -- second read: the rest of the line completes the reply being continued
  obtain ⟨c, r, he, hc0⟩ := cons_of_append_lf a' S (fun c hc => (hsuf.1 c hc).1)
  have hi := iter_cont_line cfg (partStep cfg st ds body1) a' S hsuf.1 hsuf.2 (partStep_phase cfg st ds body1)
  rw [he] at hi
  rw [he, loop_next cfg k2 _ _ c r S hc0 hi]
  -- merged read: one complete line
  have hline : mkLine ds body1 ++ (c :: r) = mkLine ds (body1 ++ a') ++ 10 :: S := by
    rw [← he, ← List.append_assoc, mkLine_append]
  obtain ⟨d, rest, hm, hd0⟩ := mkLine_cons (body := body1 ++ a') hd
  have hi2 := iter_line cfg st ds (body1 ++ a') S hconc hs.cur hs.ign hd hb
  rw [hline]
  rw [hm] at hi2 ⊢
  rw [List.cons_append, loop_next cfg k3 _ _ d (rest ++ 10 :: S) S hd0 (by simpa using hi2)]
  have hst : ({ returnBuffer cfg (partStep cfg st ds body1) a' true with ignoreToEom := false } : St) = lineStep cfg st ds (body1 ++ a') := by
    unfold partStep lineStep
    rw [returnBuffer_split]
  rw [hst]
  have hl2 : S.length < k2 := by simp at h2; omega
  have hl3 : S.length < k3 := by simp [mkLine] at h3; omega
  exact loop_fuel cfg _ _ _ _ hl2 hl3

/-- the boundary falls after the channel number and its space, and the second read does not bring the end of the message -/
theorem merge_in_body_partial (cfg : Cfg) (st : St) (ds body1 b : Bytes) (f1 f2 f3 : Nat) (hconc : cfg.concurrency > 0)
    (hs : LineStart st) (hd : GoodDigits ds) (hb : GoodBody (body1 ++ b))
    (h1 : (mkLine ds body1).length < f1) (h2 : b.length < f2) (h3 : (mkLine ds body1 ++ b).length < f3) :
    resume cfg f2 (loop cfg f1 st (mkLine ds body1)) b = loop cfg f3 st (mkLine ds body1 ++ b) := by
  obtain ⟨k1, rfl⟩ : ∃ k, f1 = k + 1 := ⟨f1 - 1, by omega⟩
  obtain ⟨k2, rfl⟩ : ∃ k, f2 = k + 1 := ⟨f2 - 1, by omega⟩
  obtain ⟨k3, rfl⟩ : ∃ k, f3 = k + 1 := ⟨f3 - 1, by omega⟩
  have hb1 : GoodBody body1 := goodBody_prefix hb
  have hsuf := goodBody_suffix_clean hb
  rw [loop_partial_body cfg k1 st ds body1 hconc hs hd hb1]
  unfold resume
  rw [st_rbuf_eta _ (partStep_rbuf cfg st ds body1 hs), partStep_rbuf cfg st ds body1 hs, List.nil_append]
  rw [mkLine_append, loop_partial_body cfg k3 st ds (body1 ++ b) hconc hs hd hb]
  cases b with
  | nil =>
    rw [loop_nil, st_rbuf_eta _ (partStep_rbuf cfg st ds body1 hs)]
    simp
  | cons c r =>
    have hc0 : c ≠ 0 := (hsuf.1 c (by simp)).1
    have hi := iter_cont_partial cfg (partStep cfg st ds body1) (c :: r) hsuf.1 (partStep_phase cfg st ds body1)
    rw [loop_stop cfg k2 _ _ c r [] hc0 hi]
    have hr : (returnBuffer cfg (partStep cfg st ds body1) (c :: r) false).rbuf = [] := by
      rw [(returnBuffer_same_tail cfg _ _ _).2.2.1]; exact partStep_rbuf cfg st ds body1 hs
    rw [st_rbuf_eta _ hr]
    unfold partStep
    rw [returnBuffer_split]

/-! ### any read boundary in a conforming stream -/

/-- where a boundary can fall in `<ds> SP <body>`: within/after the digits, or after the space -/
theorem split_mkLine {a x ds body : Bytes} (h : a ++ x = mkLine ds body) :
    (∃ y, ds = a ++ y ∧ x = y ++ 32 :: body) ∨ (∃ body1, a = mkLine ds body1 ∧ body = body1 ++ x) := by
  unfold mkLine at h
  rcases List.append_eq_append_iff.mp h with ⟨y, h1, h2⟩ | ⟨c', h1, h2⟩
  · exact Or.inl ⟨y, h1, h2⟩
  · cases c' with
    | nil => exact Or.inl ⟨[], by simpa using h1.symm, by simpa using h2.symm⟩
    | cons c c' =>
      simp only [List.cons_append, List.cons.injEq] at h2
      obtain ⟨rfl, h2⟩ := h2
      exact Or.inr ⟨c', by simpa [mkLine] using h1, h2⟩

theorem loop_digits (cfg : Cfg) (f : Nat) (st : St) (a : Bytes) (hconc : cfg.concurrency > 0)
    (hfix : cfg.popOnlyWhenComplete = true) (hs : LineStart st) (ha : GoodDigits a) (h1 : a.length < f) :
    loop cfg f st a = { st with rbuf := a } := by
  obtain ⟨k, rfl⟩ : ∃ k, f = k + 1 := ⟨f - 1, by omega⟩
  obtain ⟨d, rest, rfl, hd⟩ := goodDigits_head ha
  exact loop_stop cfg k st st d rest (d :: rest) (isDigit_ne_zero hd) (iter_partial_digits cfg st (d :: rest) hconc hfix hs.cur hs.ign ha)

/-- the boundary falls inside the line `<ds> SP <body>` which the second read may or may not complete (`x` is what follows
the boundary up to the end of the line, `more` = `LF` and everything after it, or nothing) -/
theorem merge_in_line (cfg : Cfg) (st : St) (a x ds body more : Bytes) (f1 f2 f3 : Nat) (hconc : cfg.concurrency > 0)
    (hfix : cfg.popOnlyWhenComplete = true) (hs : LineStart st) (hd : GoodDigits ds) (hb : GoodBody body)
    (hsplit : a ++ x = mkLine ds body) (hmore : more = [] ∨ ∃ S, more = 10 :: S)
    (h1 : a.length < f1) (h2 : ((loop cfg f1 st a).rbuf ++ (x ++ more)).length < f2) (h3 : (a ++ (x ++ more)).length < f3) :
    resume cfg f2 (loop cfg f1 st a) (x ++ more) = loop cfg f3 st (a ++ (x ++ more)) := by
  rcases split_mkLine hsplit with ⟨y, hy, hx⟩ | ⟨body1, ha, hbody⟩
  · -- within or right after the digits
    cases a with
    | nil =>
      have : (loop cfg f1 st []).rbuf = [] := by
        obtain ⟨k, rfl⟩ : ∃ k, f1 = k + 1 := ⟨f1 - 1, by omega⟩
        rw [loop_nil]
      rw [this] at h2
      exact merge_empty cfg st _ f1 f2 f3 hs (by omega) (by simpa using h2) (by simpa using h3)
    | cons c a =>
      have hga : GoodDigits (c :: a) := goodDigits_prefix (hy ▸ hd) (by simp)
      rw [loop_digits cfg f1 st _ hconc hfix hs hga h1] at h2
      exact merge_in_digits cfg st _ _ f1 f2 f3 hconc hfix hs hga h1 (by simpa using h2) h3
  · -- after the space
    subst ha
    have hb' : GoodBody (body1 ++ x) := hbody ▸ hb
    have hrb : (loop cfg f1 st (mkLine ds body1)).rbuf = [] := by
      obtain ⟨k, rfl⟩ : ∃ k, f1 = k + 1 := ⟨f1 - 1, by omega⟩
      rw [loop_partial_body cfg k st ds body1 hconc hs hd (goodBody_prefix hb')]
      exact partStep_rbuf cfg st ds body1 hs
    rw [hrb] at h2
    rcases hmore with rfl | ⟨S, rfl⟩
    · simp only [List.append_nil] at h2 h3 ⊢
      exact merge_in_body_partial cfg st ds body1 x f1 f2 f3 hconc hs hd hb' h1 (by simpa using h2) h3
    · exact merge_in_body_line cfg st ds body1 x S f1 f2 f3 hconc hs hd hb' h1 (by simpa using h2) h3

/-- Wherever a read boundary falls in a conforming stream, the two reads leave the session exactly as the merged read does. -/
theorem loop_merge (cfg : Cfg) (hconc : cfg.concurrency > 0) (hfix : cfg.popOnlyWhenComplete = true) :
    ∀ (ls : List (Bytes × Bytes)) (tl : Tail) (st : St) (a b : Bytes) (f1 f2 f3 : Nat),
      GoodLines ls → tl.Good → LineStart st → a ++ b = encode ls ++ tl.enc →
      a.length < f1 → ((loop cfg f1 st a).rbuf ++ b).length < f2 → (a ++ b).length < f3 →
      resume cfg f2 (loop cfg f1 st a) b = loop cfg f3 st (a ++ b) := by
  intro ls
  induction ls with
  | nil =>
    intro tl st a b f1 f2 f3 _ htl hs hab h1 h2 h3
    simp only [encode, List.nil_append] at hab
    cases tl with
    | none =>
      simp only [Tail.enc, List.append_eq_nil_iff] at hab
      obtain ⟨rfl, rfl⟩ := hab
      have : (loop cfg f1 st []).rbuf = [] := by
        obtain ⟨k, rfl⟩ : ∃ k, f1 = k + 1 := ⟨f1 - 1, by omega⟩
        rw [loop_nil]
      rw [this] at h2
      exact merge_empty cfg st [] f1 f2 f3 hs (by omega) (by simpa using h2) (by simpa using h3)
    | digits ds =>
      simp only [Tail.enc] at hab
      simp only [Tail.Good] at htl
      cases a with
      | nil =>
        have : (loop cfg f1 st []).rbuf = [] := by
          obtain ⟨k, rfl⟩ : ∃ k, f1 = k + 1 := ⟨f1 - 1, by omega⟩
          rw [loop_nil]
        rw [this] at h2
        exact merge_empty cfg st b f1 f2 f3 hs (by omega) (by simpa using h2) (by simpa using h3)
      | cons c a =>
        have hga : GoodDigits (c :: a) := goodDigits_prefix (hab ▸ htl) (by simp)
        rw [loop_digits cfg f1 st _ hconc hfix hs hga h1] at h2
        exact merge_in_digits cfg st _ _ f1 f2 f3 hconc hfix hs hga h1 (by simpa using h2) h3
    | body ds bd =>
      simp only [Tail.enc] at hab
      simp only [Tail.Good] at htl
      have := merge_in_line cfg st a b ds bd [] f1 f2 f3 hconc hfix hs htl.1 htl.2 hab (Or.inl rfl) h1
        (by simpa using h2) (by simpa using h3)
      simpa using this
  | cons p ls ih =>
    intro tl st a b f1 f2 f3 hgl htl hs hab h1 h2 h3
    obtain ⟨ds, body⟩ := p
    have hp : GoodDigits ds ∧ GoodBody body := hgl (ds, body) (by simp)
    have hgl' : GoodLines ls := fun q hq => hgl q (by simp [hq])
    simp only [encode, List.append_assoc, List.cons_append] at hab
    -- does the first read reach beyond the first line?
    rcases List.append_eq_append_iff.mp hab with ⟨x, hx1, hx2⟩ | ⟨c', hc1, hc2⟩
    · -- no: a ++ x = first line, b = x ++ LF ++ the rest
      subst hx2
      exact merge_in_line cfg st a x ds body _ f1 f2 f3 hconc hfix hs hp.1 hp.2 hx1.symm (Or.inr ⟨_, rfl⟩) h1 h2 h3
    · cases c' with
      | nil =>
        -- a is exactly the first line without its LF
        simp only [List.append_nil] at hc1
        simp only [List.nil_append] at hc2
        subst hc2
        have := merge_in_line cfg st a [] ds body (10 :: (encode ls ++ tl.enc)) f1 f2 f3 hconc hfix hs hp.1 hp.2
          (by simpa using hc1) (Or.inr ⟨_, rfl⟩) h1 (by simpa using h2) (by simpa using h3)
        simpa using this
      | cons c c' =>
        -- yes: a = first line ++ LF ++ a', and both sides start by handling the first line
        simp only [List.cons_append, List.cons.injEq] at hc2
        obtain ⟨rfl, hc2⟩ := hc2
        subst hc1
        obtain ⟨k1, rfl⟩ : ∃ k, f1 = k + 1 := ⟨f1 - 1, by omega⟩
        obtain ⟨k3, rfl⟩ : ∃ k, f3 = k + 1 := ⟨f3 - 1, by omega⟩
        obtain ⟨d, rest, hm, hd0⟩ := mkLine_cons (body := body) hp.1
        have hi1 := iter_line cfg st ds body c' hconc hs.cur hs.ign hp.1 hp.2
        have hi3 := iter_line cfg st ds body (c' ++ b) hconc hs.cur hs.ign hp.1 hp.2
        have e1 : loop cfg (k1 + 1) st (mkLine ds body ++ 10 :: c') = loop cfg k1 (lineStep cfg st ds body) c' := by
          rw [hm] at hi1 ⊢
          exact loop_next cfg k1 _ _ d (rest ++ 10 :: c') c' hd0 (by simpa using hi1)
        have e3 : loop cfg (k3 + 1) st ((mkLine ds body ++ 10 :: c') ++ b) = loop cfg k3 (lineStep cfg st ds body) (c' ++ b) := by
          rw [hm] at hi3 ⊢
          exact loop_next cfg k3 _ _ d (rest ++ 10 :: c' ++ b) (c' ++ b) hd0 (by simpa using hi3)
        rw [e1] at h2 ⊢
        rw [e3]
        have hl1 : c'.length < k1 := by simp at h1; omega
        have hl3 : (c' ++ b).length < k3 := by simp at h3 ⊢; omega
        exact ih tl (lineStep cfg st ds body) c' b k1 f2 k3 hgl' htl (lineStep_lineStart cfg st ds body hs) hc2.symm hl1 h2 hl3

/-! ### no helper output aborts the repaired reader -/

/-- what one iteration can do to the session flags -/
def Step.flagsOk (cfg : Cfg) (st : St) (rest : Bytes) : Step → Prop
  | .next s _ => s.closed = st.closed ∧ s.dead = st.dead ∧ s.rbuf = st.rbuf
  | .stop s keep => s.closed = st.closed ∧ s.dead = st.dead ∧ (keep = [] ∨ keep = rest)
  | .assertFail _ => cfg.dropUnterminated = false

theorem iter_flags (cfg : Cfg) (st : St) (rest : Bytes) : (iter cfg st rest).flagsOk cfg st rest := by
  generalize hr : iter cfg st rest = r
  unfold iter at hr
  dsimp only at hr
  repeat' split at hr
  all_goals (subst hr; simp_all [Step.flagsOk, (returnBuffer_same_tail cfg _ _ _).1, (returnBuffer_same_tail cfg _ _ _).2.1,
    (returnBuffer_same_tail cfg _ _ _).2.2.1])

/-- With repair 2, parsing NUL-free helper output never trips an assertion (and never closes the session by itself);
what stays in `rbuf` is part of what was parsed. -/
theorem loop_alive (cfg : Cfg) (hfix2 : cfg.dropUnterminated = true) : ∀ (f : Nat) (st : St) (rest : Bytes),
    rest.length < f → (∀ c ∈ rest, c ≠ 0) →
    (loop cfg f st rest).closed = st.closed ∧ (loop cfg f st rest).dead = st.dead ∧
    (∀ c ∈ (loop cfg f st rest).rbuf, c ∈ rest) := by
  intro f
  induction f with
  | zero => intro st rest h; omega
  | succ f ih =>
    intro st rest h h0
    cases rest with
    | nil => simp [loop]
    | cons c rest =>
      have hc : c ≠ 0 := h0 c (by simp)
      have hfl := iter_flags cfg st (c :: rest)
      simp only [loop, beq_iff_eq, hc, if_false]
      cases hit : iter cfg st (c :: rest) with
      | next s r' =>
        rw [hit] at hfl
        obtain ⟨q, hq⟩ := iter_next_drop cfg st s (c :: rest) r' hit
        have hl := iter_next_shorter cfg st s c rest r' hit
        have hsub : ∀ x ∈ r', x ∈ c :: rest := fun x hx => by rw [hq] at hx; exact List.mem_of_mem_drop hx
        have := ih s r' (by simp at h; omega) (fun x hx => h0 x (hsub x hx))
        simp only [Step.flagsOk] at hfl
        exact ⟨this.1.trans hfl.1, this.2.1.trans hfl.2.1, fun x hx => hsub x (this.2.2 x hx)⟩
      | stop s keep =>
        rw [hit] at hfl
        simp only [Step.flagsOk] at hfl
        refine ⟨hfl.1, hfl.2.1, ?_⟩
        rcases hfl.2.2 with rfl | rfl <;> simp
      | assertFail s =>
        rw [hit] at hfl
        simp [Step.flagsOk, hfix2] at hfl

theorem no_nul_of_contains {l : Bytes} (h : l.contains 0 = false) : ∀ c ∈ l, c ≠ 0 := by
  intro c hc e; subst e
  simp at h; exact h hc

/-- With repairs 2 (both parts), no helper output whatsoever makes `helperHandleRead` trip an assertion. -/
theorem handleRead_alive (cfg : Cfg) (hfix2 : cfg.dropUnterminated = true) (hnul : cfg.nulCloses = true) (st : St) (chunk : Bytes)
    (hd : st.dead = false) (hr : ∀ c ∈ st.rbuf, c ≠ 0) :
    (handleRead cfg st chunk).dead = false ∧ (∀ c ∈ (handleRead cfg st chunk).rbuf, c ≠ 0) := by
  unfold handleRead
  split
  · exact ⟨hd, hr⟩
  · dsimp only
    split
    · exact ⟨hd, by simp⟩
    · rename_i hn
      split
      · exact ⟨hd, by simp⟩
      · have hc0 : chunk.contains 0 = false := by simpa [hnul] using hn
        have h0 : ∀ c ∈ st.rbuf ++ chunk, c ≠ 0 := by
          intro c hc
          rcases List.mem_append.mp hc with h | h
          · exact hr c h
          · exact no_nul_of_contains hc0 c h
        have := loop_alive cfg hfix2 ((st.rbuf ++ chunk).length + 1) { st with rbuf := [] } (st.rbuf ++ chunk) (by omega) h0
        exact ⟨by simpa [hd] using this.2.1, fun c hc => h0 c (this.2.2 c hc)⟩

/-! ### whole reads -/

theorem contains_zero_false {l : Bytes} (h : ∀ c ∈ l, c ≠ 0) : l.contains 0 = false := by
  simp only [List.contains_eq_mem, decide_eq_false_iff_not]
  exact fun hm => h 0 hm rfl

theorem handleRead_eq_loop (cfg : Cfg) (st : St) (chunk : Bytes) (hcl : st.closed = false) (hdd : st.dead = false)
    (h0 : ∀ c ∈ chunk, c ≠ 0) (hp : st.pending ≠ 0) :
    handleRead cfg st chunk = loop cfg ((st.rbuf ++ chunk).length + 1) { st with rbuf := [] } (st.rbuf ++ chunk) := by
  have hz : ¬ (0 : UInt8) ∈ chunk := fun hm => h0 0 hm rfl
  unfold handleRead
  simp [hcl, hdd, hz, hp]

theorem stream_no_nul (ls : List (Bytes × Bytes)) (tl : Tail) (hgl : GoodLines ls) (htl : tl.Good) :
    ∀ c ∈ encode ls ++ tl.enc, c ≠ 0 := by
  induction ls with
  | nil =>
    intro c hc
    simp only [encode, List.nil_append] at hc
    cases tl with
    | none => simp [Tail.enc] at hc
    | digits ds => exact (clean_digits htl c hc).1
    | body ds b => exact (clean_mkLine htl.1 htl.2 c hc).1
  | cons p ls ih =>
    obtain ⟨ds, body⟩ := p
    intro c hc
    have hp := hgl (ds, body) (by simp)
    simp only [encode, List.append_assoc, List.cons_append, List.mem_append, List.mem_cons] at hc
    rcases hc with h | h | h
    · exact (clean_mkLine hp.1 hp.2 c h).1
    · subst h; decide
    · exact ih (fun q hq => hgl q (by simp [hq])) c (by simpa using h)

/-- **Two reads or one.**  Concurrent helper, repaired reader, session between two messages with at least one request
waiting; the helper writes protocol-conforming output `a ++ b`.  Whether these bytes arrive in one read or are split
anywhere into two reads (the helper not having been left without a waiting request in between), the session ends in exactly
the same state: the same requests received the same replies, the same requests are still waiting, the same bytes are kept. -/
theorem handleRead_merge (cfg : Cfg) (hconc : cfg.concurrency > 0) (hfix : cfg.popOnlyWhenComplete = true)
    (hfix2 : cfg.dropUnterminated = true) (ls : List (Bytes × Bytes)) (tl : Tail) (st : St) (a b : Bytes)
    (hgl : GoodLines ls) (htl : tl.Good) (hs : LineStart st) (hcl : st.closed = false) (hdd : st.dead = false)
    (hp : st.pending ≠ 0) (hab : a ++ b = encode ls ++ tl.enc) (hp1 : (handleRead cfg st a).pending ≠ 0) :
    handleRead cfg (handleRead cfg st a) b = handleRead cfg st (a ++ b) := by
  have h0 : ∀ c ∈ a ++ b, c ≠ 0 := hab ▸ stream_no_nul ls tl hgl htl
  have h0a : ∀ c ∈ a, c ≠ 0 := fun c hc => h0 c (by simp [hc])
  have h0b : ∀ c ∈ b, c ≠ 0 := fun c hc => h0 c (by simp [hc])
  have e1 : handleRead cfg st a = loop cfg (a.length + 1) st a := by
    rw [handleRead_eq_loop cfg st a hcl hdd h0a hp, st_rbuf_eta st hs.rbuf, hs.rbuf]; rfl
  have e3 : handleRead cfg st (a ++ b) = loop cfg ((a ++ b).length + 1) st (a ++ b) := by
    rw [handleRead_eq_loop cfg st (a ++ b) hcl hdd h0 hp, st_rbuf_eta st hs.rbuf, hs.rbuf]; rfl
  have hal := loop_alive cfg hfix2 (a.length + 1) st a (by omega) h0a
  rw [e1] at hp1 ⊢
  rw [handleRead_eq_loop cfg _ b (hal.1.trans hcl) (hal.2.1.trans hdd) h0b hp1, e3]
  exact loop_merge cfg hconc hfix ls tl st a b _ _ _ hgl htl hs hab (by omega) (by omega) (by omega)

/-! ### any number of reads -/

/-- a prefix of `<ds> SP <body>` is an unfinished line -/
theorem line_prefix {p x ds body : Bytes} (hd : GoodDigits ds) (hb : GoodBody body) (h : p ++ x = mkLine ds body) :
    ∃ tl : Tail, tl.Good ∧ p = tl.enc := by
  rcases split_mkLine h with ⟨y, hy, _⟩ | ⟨b1, hp, hbody⟩
  · cases p with
    | nil => exact ⟨.none, trivial, rfl⟩
    | cons c p => exact ⟨.digits (c :: p), goodDigits_prefix (hy ▸ hd) (by simp), rfl⟩
  · exact ⟨.body ds b1, ⟨hd, goodBody_prefix (hbody ▸ hb)⟩, hp⟩

/-- what has arrived of a conforming stream is a conforming stream -/
theorem conf_prefix : ∀ (ls : List (Bytes × Bytes)) (tl : Tail) (p x : Bytes), GoodLines ls → tl.Good →
    p ++ x = encode ls ++ tl.enc → ∃ ls' tl', GoodLines ls' ∧ Tail.Good tl' ∧ p = encode ls' ++ Tail.enc tl' := by
  intro ls
  induction ls with
  | nil =>
    intro tl p x _ htl h
    simp only [encode, List.nil_append] at h
    cases tl with
    | none =>
      simp only [Tail.enc, List.append_eq_nil_iff] at h
      exact ⟨[], .none, by simp [GoodLines], trivial, by simp [h.1, encode, Tail.enc]⟩
    | digits ds =>
      cases p with
      | nil => exact ⟨[], .none, by simp [GoodLines], trivial, by simp [encode, Tail.enc]⟩
      | cons c p =>
        exact ⟨[], .digits (c :: p), by simp [GoodLines], goodDigits_prefix (show GoodDigits ((c :: p) ++ x) from h ▸ htl) (by simp),
          by simp [encode, Tail.enc]⟩
    | body ds b =>
      obtain ⟨tl', h1, h2⟩ := line_prefix htl.1 htl.2 h
      exact ⟨[], tl', by simp [GoodLines], h1, by simpa [encode] using h2⟩
  | cons q ls ih =>
    intro tl p x hgl htl h
    obtain ⟨ds, body⟩ := q
    have hq := hgl (ds, body) (by simp)
    have hgl' : GoodLines ls := fun r hr => hgl r (by simp [hr])
    simp only [encode, List.append_assoc, List.cons_append] at h
    rcases List.append_eq_append_iff.mp h with ⟨y, hy, _⟩ | ⟨c', hc1, hc2⟩
    · obtain ⟨tl', h1, h2⟩ := line_prefix hq.1 hq.2 hy.symm
      exact ⟨[], tl', by simp [GoodLines], h1, by simpa [encode] using h2⟩
    · cases c' with
      | nil => exact ⟨[], .body ds body, by simp [GoodLines], hq, by simpa [encode, Tail.enc] using hc1⟩
      | cons c c' =>
        simp only [List.cons_append, List.cons.injEq] at hc2
        obtain ⟨rfl, hc2⟩ := hc2
        obtain ⟨ls', tl', g1, g2, g3⟩ := ih tl c' x hgl' htl hc2.symm
        refine ⟨(ds, body) :: ls', tl', ?_, g2, ?_⟩
        · intro r hr
          simp only [List.mem_cons] at hr
          rcases hr with rfl | hr
          · exact hq
          · exact g1 r hr
        · simp [encode, hc1, g3]

/-- **Any fragmentation.**  The conforming output `c0 ++ cs.flatten` delivered as the reads `c0, cs[0], cs[1], ...` leaves the
session exactly as the single read of all the bytes does (provided the helper is never caught writing while nothing is pending). -/
theorem feed_eq_single (cfg : Cfg) (hconc : cfg.concurrency > 0) (hfix : cfg.popOnlyWhenComplete = true)
    (hfix2 : cfg.dropUnterminated = true) (ls : List (Bytes × Bytes)) (tl : Tail) (st : St)
    (hgl : GoodLines ls) (htl : tl.Good) (hs : LineStart st) (hcl : st.closed = false) (hdd : st.dead = false)
    (hp : st.pending ≠ 0) :
    ∀ (cs : List Bytes) (c0 x : Bytes), (c0 ++ cs.flatten) ++ x = encode ls ++ tl.enc →
      (∀ k, k < cs.length → (handleRead cfg st (c0 ++ (cs.take k).flatten)).pending ≠ 0) →
      feed cfg st (c0 :: cs) = handleRead cfg st (c0 ++ cs.flatten) := by
  intro cs
  induction cs with
  | nil => intro c0 x _ _; simp [feed]
  | cons c1 cs ih =>
    intro c0 x hx hpend
    have hx' : (c0 ++ c1) ++ (cs.flatten ++ x) = encode ls ++ tl.enc := by simpa [List.append_assoc] using hx
    obtain ⟨ls', tl', g1, g2, g3⟩ := conf_prefix ls tl (c0 ++ c1) (cs.flatten ++ x) hgl htl hx'
    have hm := handleRead_merge cfg hconc hfix hfix2 ls' tl' st c0 c1 g1 g2 hs hcl hdd hp g3
      (by simpa using hpend 0 (by simp))
    have : feed cfg st (c0 :: c1 :: cs) = feed cfg st ((c0 ++ c1) :: cs) := by
      simp only [feed]; rw [hm]
    rw [this, ih (c0 ++ c1) x (by simpa [List.append_assoc] using hx)]
    · simp [List.append_assoc]
    · intro k hk
      have := hpend (k + 1) (by simpa using hk)
      simpa [List.append_assoc] using this

/-! ### what a line does: only the request on the channel the line names can receive it -/

theorem popRequest_conc (cfg : Cfg) (hconc : cfg.concurrency > 0) (reqs : List Req) (i : Int) :
    ((popRequest cfg reqs i).1 = none ∧ (popRequest cfg reqs i).2 = reqs ∧ ∀ r ∈ reqs, (r.id : Int) ≠ i) ∨
    (∃ r, (popRequest cfg reqs i).1 = some r ∧ r ∈ reqs ∧ (r.id : Int) = i) := by
  unfold popRequest
  simp only [hconc, if_true]
  cases hf : reqs.find? (fun r => (r.id : Int) == i) with
  | none =>
    left
    refine ⟨rfl, rfl, fun r hr he => ?_⟩
    have := List.find?_eq_none.mp hf r hr
    simp [he] at this
  | some r =>
    right
    exact ⟨r, rfl, List.mem_of_find?_eq_some hf, by simpa using List.find?_some hf⟩

@[simp] theorem kickQueue_delivered (cfg : Cfg) (st : St) : (kickQueue cfg st).delivered = st.delivered :=
  (kickQueue_same cfg st).2.2.2.2.2

@[simp] theorem submit_delivered (cfg : Cfg) (st : St) (a k : Nat) : (submit cfg st a k).delivered = st.delivered :=
  (submit_same cfg st a k).2.2.2.2.2

theorem returnBuffer_delivered (cfg : Cfg) (st : St) (m : Bytes) :
    (returnBuffer cfg st m true).delivered = st.delivered ∨
    ∃ r, st.cur = some r ∧ (returnBuffer cfg st m true).delivered = st.delivered ++ [(r.serial, r.acc ++ m)] := by
  unfold returnBuffer
  cases hc : st.cur with
  | none => left; simp
  | some r =>
    dsimp only
    by_cases hretry : (resultIsBH (decide (r.retries > 0)) (r.acc ++ m) && decide (r.retries < maxRetries)) = true
    · left; simp [hretry]
    · right; exact ⟨r, rfl, by simp [hretry]⟩

/-- One conforming line `<ds> SP <body> LF`, handled between two messages on a concurrent helper, either changes no
request's fate (`delivered` unchanged: unknown channel, or a BH answer being retried) or calls back exactly one request —
one that was waiting on the channel the line names — with the line's body (appended to what that request had received). -/
theorem lineStep_delivered (cfg : Cfg) (hconc : cfg.concurrency > 0) (st : St) (ds body : Bytes) :
    (lineStep cfg st ds body).delivered = st.delivered ∨
    ∃ r ∈ st.requests, (r.id : Int) = chanOf cfg ds ∧
      (lineStep cfg st ds body).delivered = st.delivered ++ [(r.serial, r.acc ++ body)] := by
  have hpd : (popped cfg st (chanOf cfg ds)).delivered = st.delivered := by simp [popped]
  rcases returnBuffer_delivered cfg (popped cfg st (chanOf cfg ds)) body with h | ⟨r, hc, h⟩
  · left; simpa [lineStep, hpd] using h
  · right
    rcases popRequest_conc cfg hconc st.requests (chanOf cfg ds) with ⟨h1, _, _⟩ | ⟨r', h1, hr, hid⟩
    · simp [popped, h1] at hc
    · have : r' = r := by simpa [popped, h1] using hc
      subst this
      exact ⟨r', hr, hid, by simpa [lineStep, hpd] using h⟩

/-- a reply on a channel nobody waits on changes nobody's fate -/
theorem lineStep_unknown_channel (cfg : Cfg) (hconc : cfg.concurrency > 0) (st : St) (ds body : Bytes)
    (hun : ∀ r ∈ st.requests, (r.id : Int) ≠ chanOf cfg ds) :
    (lineStep cfg st ds body).delivered = st.delivered := by
  rcases lineStep_delivered cfg hconc st ds body with h | ⟨r, hr, hid, _⟩
  · exact h
  · exact absurd hid (hun r hr)

/-! ### complete lines, read at once -/

def runLines (cfg : Cfg) (st : St) (ls : List (Bytes × Bytes)) : St := ls.foldl (fun s p => lineStep cfg s p.1 p.2) st

theorem loop_lines (cfg : Cfg) (hconc : cfg.concurrency > 0) : ∀ (ls : List (Bytes × Bytes)) (st : St) (f : Nat),
    GoodLines ls → LineStart st → (encode ls).length < f → loop cfg f st (encode ls) = runLines cfg st ls := by
  intro ls
  induction ls with
  | nil =>
    intro st f _ hs hf
    obtain ⟨k, rfl⟩ : ∃ k, f = k + 1 := ⟨f - 1, by omega⟩
    simp [encode, runLines, loop_nil, st_rbuf_eta st hs.rbuf]
  | cons p ls ih =>
    intro st f hgl hs hf
    obtain ⟨ds, body⟩ := p
    have hp := hgl (ds, body) (by simp)
    obtain ⟨k, rfl⟩ : ∃ k, f = k + 1 := ⟨f - 1, by omega⟩
    obtain ⟨d, rest, hm, hd0⟩ := mkLine_cons (body := body) hp.1
    have hi := iter_line cfg st ds body (encode ls) hconc hs.cur hs.ign hp.1 hp.2
    simp only [encode]
    rw [hm] at hi ⊢
    rw [List.cons_append, loop_next cfg k _ _ d (rest ++ 10 :: encode ls) (encode ls) hd0 (by simpa using hi)]
    have hl : (encode ls).length < k := by simp [encode] at hf; omega
    rw [ih (lineStep cfg st ds body) k (fun q hq => hgl q (by simp [hq])) (lineStep_lineStart cfg st ds body hs) hl]
    simp [runLines]

/-- every callback made while handling complete conforming lines goes to a request that was waiting, when that line was
handled, on the channel the line names — with that line's body -/
theorem runLines_delivered (cfg : Cfg) (hconc : cfg.concurrency > 0) : ∀ (ls : List (Bytes × Bytes)) (st : St),
    ∃ extra, (runLines cfg st ls).delivered = st.delivered ++ extra ∧
      ∀ d ∈ extra, ∃ pre p post, ls = pre ++ p :: post ∧ ∃ r ∈ (runLines cfg st pre).requests,
        (r.id : Int) = chanOf cfg p.1 ∧ d = (r.serial, r.acc ++ p.2) := by
  intro ls
  induction ls with
  | nil => intro st; exact ⟨[], by simp [runLines], by simp⟩
  | cons p ls ih =>
    intro st
    obtain ⟨extra, he, hx⟩ := ih (lineStep cfg st p.1 p.2)
    have hrun : ∀ l, runLines cfg st (p :: l) = runLines cfg (lineStep cfg st p.1 p.2) l := by intro l; simp [runLines]
    have lift : ∀ d ∈ extra, ∃ pre q post, p :: ls = pre ++ q :: post ∧ ∃ r ∈ (runLines cfg st pre).requests,
        (r.id : Int) = chanOf cfg q.1 ∧ d = (r.serial, r.acc ++ q.2) := by
      intro d hd
      obtain ⟨pre, q, post, hl, r, hr, h1, h2⟩ := hx d hd
      exact ⟨p :: pre, q, post, by simp [hl], r, by rw [hrun]; exact hr, h1, h2⟩
    rcases lineStep_delivered cfg hconc st p.1 p.2 with h | ⟨r, hr, hid, h⟩
    · exact ⟨extra, by rw [hrun, he, h], lift⟩
    · refine ⟨(r.serial, r.acc ++ p.2) :: extra, by rw [hrun, he, h]; simp, fun d hd => ?_⟩
      simp only [List.mem_cons] at hd
      rcases hd with rfl | hd
      · exact ⟨[], p, ls, rfl, r, by simpa [runLines] using hr, hid, rfl⟩
      · exact lift d hd

/-! ### the repaired reader cannot be aborted by helper output -/

theorem feed_alive (cfg : Cfg) (hfix2 : cfg.dropUnterminated = true) (hnul : cfg.nulCloses = true) :
    ∀ (reads : List Bytes) (st : St), st.dead = false → (∀ c ∈ st.rbuf, c ≠ 0) → (feed cfg st reads).dead = false := by
  intro reads
  induction reads with
  | nil => intro st hd _; simpa [feed] using hd
  | cons c cs ih =>
    intro st hd hr
    have := handleRead_alive cfg hfix2 hnul st c hd hr
    exact ih (handleRead cfg st c) this.1 this.2

theorem submitAll_clean (cfg : Cfg) : ∀ (ss : List Nat) (st : St), st.dead = false → st.rbuf = [] →
    (submitAll cfg st ss).dead = false ∧ (submitAll cfg st ss).rbuf = [] := by
  intro ss
  induction ss with
  | nil => intro st h1 h2; exact ⟨h1, h2⟩
  | cons s ss ih =>
    intro st h1 h2
    have := submit_same cfg st s 0
    simp only [sameSession] at this
    exact ih (submit cfg st s 0) (this.2.2.2.1.trans h1) (this.2.2.2.2.1.trans h2)

end SquidModel.Helper
