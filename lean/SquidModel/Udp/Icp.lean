/-
C39 — what `icpHandleUdp` (src/icp_v2.cc) does with one received datagram, up to the point where the URL is handed to
the URL parser / the neighbor tables: size check, the terminator it writes behind the datagram, version dispatch,
`icpHandleIcpV2` / `icpHandleIcpV3` (src/icp_v3.cc; identical up to here), `icp_common_t(buf, len)`, the opcode switch and
`icpGetUrl`.

Memory = the static receive buffer of `icpBufSize` octets (`LOCAL_ARRAY`), offset 0 = first octet of the datagram;
`recvfrom` is given `icpBufSize - 1`, so `len < icpBufSize`.  `rdHi` / `wrHi` = (highest offset read / written) + 1.
-/
import SquidModel.Udp.Asn1

namespace SquidModel.Udp.Icp
open SquidModel.Udp Gen.UdpLimits

inductive UrlErr where
  | small          -- "too small packet"
  | unterminated   -- "unterminated URL or trailing garbage"
  | embedded       -- "URL with an embedded NUL or trailing garbage"
  deriving Repr, DecidableEq

inductive Outcome where
  | nothing                      -- recvfrom returned 0: the loop ends
  | ignoreShort                  -- fewer octets than an ICP header
  | ignoreVersion                -- neither ICP v2 nor v3
  | badLen                       -- header length field differs from the datagram length
  | queryBadUrl (e : UrlErr)     -- ICP_QUERY with an unusable URL field: answered with ICP_ERR and an empty URL
  | query (url : Bytes)          -- ICP_QUERY: the URL goes to icpGetRequest
  | replyBadUrl (e : UrlErr)     -- HIT/MISS/DECHO/DENIED/MISS_NOFETCH with an unusable URL field: dropped
  | reply (url : Bytes)          -- ... : the URL goes to neighborsUdpAck
  | nop                          -- ICP_INVALID, ICP_ERR
  | unknownOp
  deriving Repr, DecidableEq

structure Result where
  version : Nat                  -- second octet (0 when there is none)
  outcome : Outcome
  mem : Mem                      -- the buffer afterwards
  rdHi : Nat
  wrHi : Nat
  deriving Repr

/-- length of the C string at `p` among the first `bound` octets starting there (`bound` = distance to a known NUL) -/
def cstrLen (m : Mem) (p : Nat) : Nat → Nat
  | 0 => 0
  | b + 1 => if rd m p = 0 then 0 else 1 + cstrLen m (p + 1) b

def opQuery : Nat := 1
def isReplyOp (op : Nat) : Bool := op = 2 ∨ op = 11 ∨ op = 3 ∨ op = 22 ∨ op = 21   -- HIT, DECHO, MISS, DENIED, MISS_NOFETCH
def isNopOp (op : Nat) : Bool := op = 0 ∨ op = 4                                   -- INVALID, ERR

/-- offset of the URL field: queries carry the requester's address in front of it -/
def urlOffset (op : Nat) : Nat := if op = opQuery then icpHeaderSize + 4 else icpHeaderSize

/-- `icpGetUrl(from, buf, header)` with `header.length = size`: the URL or the reason for nil; second component = highest
offset read + 1 -/
def getUrl (m : Mem) (size op : Nat) : Except UrlErr Bytes × Nat :=
  if urlOffset op ≥ size then (.error .small, 0)
  else if rd m (size - 1) ≠ 0 then (.error .unterminated, size)
  else if urlOffset op + cstrLen m (urlOffset op) (size - 1 - urlOffset op) + 1 ≠ size then (.error .embedded, size)
  else (.ok (slice m (urlOffset op) (cstrLen m (urlOffset op) (size - 1 - urlOffset op))), size)

/-- what becomes of a datagram of `len >= 1` octets once the terminator is in place (`m1`): the outcome and how far the
handler reads.  `(int) buf[1]`: `char` is signed here, versions 2 and 3 are positive, so the comparison is on the octet. -/
def classify (m1 : Mem) (len : Nat) : Outcome × Nat :=
  let ver := rd m1 1
  -- icp_common_t header(buf, len): memcpy of the 20 header octets, length = ntohs(...)
  let hlen := rd m1 2 * 256 + rd m1 3
  let op := rd m1 0
  if len < icpHeaderSize then (.ignoreShort, 0)
  else if ver ≠ 2 ∧ ver ≠ 3 then (.ignoreVersion, icpHeaderSize)
  else if len ≠ hlen then (.badLen, icpHeaderSize)
  else if op = opQuery then
    (match (getUrl m1 hlen op).1 with
      | .error e => .queryBadUrl e
      | .ok u => .query u, max icpHeaderSize (getUrl m1 hlen op).2)
  else if isReplyOp op then
    (match (getUrl m1 hlen op).1 with
      | .error e => .replyBadUrl e
      | .ok u => .reply u, max icpHeaderSize (getUrl m1 hlen op).2)
  else if isNopOp op then (.nop, icpHeaderSize)
  else (.unknownOp, icpHeaderSize)

/-- one pass of the `while (max)` loop of `icpHandleUdp` -/
def handle (m : Mem) (len : Nat) : Result :=
  if len = 0 then ⟨0, .nothing, m, 0, 0⟩ else
  -- icpCount(buf, RECV, len, 0) looks at the opcode only if a whole header arrived; then `buf[len] = '\0'`
  let m1 := m.set len 0
  ⟨rd m1 1, (classify m1 len).1, m1, (classify m1 len).2, len + 1⟩

/-- the receive buffer after `recvfrom`: the datagram (cut to one octet less than the buffer), then what an earlier
datagram left (`stale`, as far as it fits before the last octet), then zeros -/
def icpMem (dg stale : Bytes) : Mem × Nat :=
  let d := dg.take (icpBufSize - 1)
  let s := stale.take (icpBufSize - 1 - d.length)
  (d ++ s ++ List.replicate (icpBufSize - d.length - s.length) 0, d.length)

/-- length of the ICP message `icp_common_t::CreateMessage` builds for a URL of `n` octets (`htons` of it goes on the wire) -/
def replyLength (isQuery : Bool) (n : Nat) : Nat := icpHeaderSize + n + 1 + (if isQuery then 4 else 0)

end SquidModel.Udp.Icp
