/-
C39 — facts about the ICP and HTCP datagram handlers of `SquidModel.Udp.Icp` / `SquidModel.Udp.Htcp`.
-/
import SquidModel.Udp.Icp
import SquidModel.Udp.Htcp
import SquidModel.Udp.Asn1Lemmas

namespace SquidModel.Udp
open Gen.UdpLimits

/-! ### ICP -/
namespace Icp

theorem cstrLen_le (m : Mem) : ∀ (b p : Nat), cstrLen m p b ≤ b
  | 0, _ => by simp [cstrLen]
  | b + 1, p => by
    unfold cstrLen
    split
    · omega
    · have := cstrLen_le m b (p + 1); omega

/-- every octet of the C string is non-zero -/
theorem cstrLen_nonzero (m : Mem) : ∀ (b p k : Nat), k < cstrLen m p b → rd m (p + k) ≠ 0
  | 0, _, _, h => by simp [cstrLen] at h
  | b + 1, p, k, h => by
    unfold cstrLen at h
    split at h
    · omega
    · rename_i hz
      cases k with
      | zero => simpa using hz
      | succ k =>
        have := cstrLen_nonzero m b (p + 1) k (by omega)
        rwa [show p + 1 + k = p + (k + 1) by omega] at this

theorem getUrl_hi_le (m : Mem) (size op : Nat) : (getUrl m size op).2 ≤ size := by
  unfold getUrl
  split
  · simp
  · split
    · simp
    · split <;> simp

theorem getUrl_ok {m : Mem} {size op : Nat} {u : Bytes} (hu : (getUrl m size op).1 = .ok u) :
    urlOffset op + u.length + 1 = size ∧ ∀ k, k < u.length → rd m (urlOffset op + k) ≠ 0 := by
  unfold getUrl at hu
  split at hu
  · simp at hu
  · split at hu
    · simp at hu
    · split at hu
      · simp at hu
      · rename_i h1 h2 h3
        simp only [Except.ok.injEq] at hu
        subst hu
        rw [slice_length]
        refine ⟨by omega, ?_⟩
        intro k hk
        exact cstrLen_nonzero m _ _ k hk

theorem classify_hi_le (m1 : Mem) (len : Nat) : (classify m1 len).2 ≤ len := by
  unfold classify
  have g := getUrl_hi_le m1 (rd m1 2 * 256 + rd m1 3) (rd m1 0)
  simp only []
  repeat' split
  all_goals simp only []
  all_goals omega

/-- all reads stay inside the datagram, the only write is the terminator right behind it -/
theorem handle_bounds (m : Mem) (len : Nat) :
    (handle m len).rdHi ≤ len ∧ (handle m len).wrHi ≤ len + 1 ∧ ((handle m len).mem = m ∨ (handle m len).mem = m.set len 0) := by
  unfold handle
  split
  · simp
  · exact ⟨classify_hi_le _ _, Nat.le_refl _, Or.inr rfl⟩

theorem classify_url {m1 : Mem} {len : Nat} {u : Bytes}
    (h : (classify m1 len).1 = .query u ∨ (classify m1 len).1 = .reply u) :
    ∃ off, (off = icpHeaderSize ∨ off = icpHeaderSize + 4) ∧ off + u.length + 1 = len ∧ ∀ k, k < u.length → rd m1 (off + k) ≠ 0 := by
  unfold classify at h
  simp only [] at h
  split at h
  · simp at h
  · split at h
    · simp at h
    · split at h
      · simp at h
      · rename_i hlen
        simp only [Decidable.not_not] at hlen
        split at h
        · rename_i hop
          simp only [] at h
          split at h
          · simp at h
          · rename_i u' hg
            simp only [Outcome.query.injEq, reduceCtorEq, or_false] at h
            subst h
            have := getUrl_ok hg
            refine ⟨urlOffset (rd m1 0), ?_, by omega, this.2⟩
            unfold urlOffset; rw [if_pos hop]; exact Or.inr rfl
        · rename_i hop
          split at h
          · simp only [] at h
            split at h
            · simp at h
            · rename_i u' hg
              simp only [reduceCtorEq, Outcome.reply.injEq, false_or] at h
              subst h
              have := getUrl_ok hg
              refine ⟨urlOffset (rd m1 0), ?_, by omega, this.2⟩
              unfold urlOffset; rw [if_neg hop]; exact Or.inl rfl
          · split at h <;> simp at h

/-- an extracted URL accounts for every octet of the datagram behind the header (and the requester address of a query),
up to the terminator, and contains no NUL -/
theorem handle_url {m : Mem} {len : Nat} {u : Bytes}
    (h : (handle m len).outcome = .query u ∨ (handle m len).outcome = .reply u) :
    ∃ off, (off = icpHeaderSize ∨ off = icpHeaderSize + 4) ∧ off + u.length + 1 = len ∧
      ∀ k, k < u.length → rd (m.set len 0) (off + k) ≠ 0 := by
  unfold handle at h
  split at h
  · simp at h
  · exact classify_url h

theorem icpMem_len (dg stale : Bytes) : (icpMem dg stale).2 < icpBufSize ∧ (icpMem dg stale).2 ≤ dg.length := by
  unfold icpMem
  simp only [List.length_take]
  have : icpBufSize = 16384 := by decide
  omega

end Icp

/-! ### HTCP -/
namespace Htcp

/-- the bounds a state respects while a datagram of `L` octets is taken apart -/
structure Within (s : St) (L : Nat) : Prop where
  rd : s.rdHi ≤ L
  wr : s.wrHi ≤ L + 1

theorem Within.tok {s : St} {L : Nat} (h : Within s L) (t : String) : Within (s.tok t) L := ⟨h.rd, h.wr⟩
theorem Within.read {s : St} {L : Nat} (h : Within s L) {p n : Nat} (hp : p + n ≤ L) : Within (s.read p n) L :=
  ⟨by simp only [St.read]; exact Nat.max_le.mpr ⟨h.rd, hp⟩, h.wr⟩
theorem Within.zero {s : St} {L : Nat} (h : Within s L) {p : Nat} (hp : p ≤ L) : Within (s.zero p) L :=
  ⟨h.rd, by simp only [St.zero]; exact Nat.max_le.mpr ⟨h.wr, by omega⟩⟩

/-- `m'` arises from `m` by overwriting some octets with zero -/
def Zeroed (m m' : Mem) : Prop := m'.length = m.length ∧ ∀ i, m'.getD i 0 = m.getD i 0 ∨ m'.getD i 0 = 0

theorem Zeroed.refl (m : Mem) : Zeroed m m := ⟨rfl, fun _ => Or.inl rfl⟩
theorem Zeroed.trans {a b c : Mem} (h1 : Zeroed a b) (h2 : Zeroed b c) : Zeroed a c :=
  ⟨h2.1.trans h1.1, fun i => by
    rcases h2.2 i with h | h
    · rcases h1.2 i with g | g
      · left; rw [h, g]
      · right; rw [h, g]
    · right; exact h⟩
theorem Zeroed.set (m : Mem) (p : Nat) : Zeroed m (m.set p 0) := by
  refine ⟨by simp, fun i => ?_⟩
  by_cases h : i = p
  · subst h
    right
    simp only [List.getD_eq_getElem?_getD, List.getElem?_set]
    by_cases hl : i < m.length <;> simp [hl]
  · left
    simp only [List.getD_eq_getElem?_getD]
    rw [List.getElem?_set_ne (Ne.symm h)]

theorem tok_mem (s : St) (t : String) : (s.tok t).mem = s.mem := rfl
theorem read_mem (s : St) (p n : Nat) : (s.read p n).mem = s.mem := rfl

theorem countstr_spec {s : St} {L p sz : Nat} (lf bf : String) (tp : Bool) (hw : Within s L) (hp : p + sz ≤ L) :
    Within (countstr s p sz lf bf tp).1 L ∧ Zeroed s.mem (countstr s p sz lf bf tp).1.mem ∧
    ∀ p' sz', (countstr s p sz lf bf tp).2 = some (p', sz') → p' + sz' = p + sz := by
  unfold countstr parseUint16
  split
  · rename_i s1 hm
    split at hm
    · simp only [Prod.mk.injEq, reduceCtorEq, and_false] at hm
      obtain ⟨hs, _⟩ := hm
      subst hs
      exact ⟨hw.tok _, by rw [tok_mem]; exact Zeroed.refl _, by simp⟩
    · simp at hm
  · rename_i s1 l hm
    split at hm
    · simp at hm
    · rename_i hsz
      simp only [Prod.mk.injEq, Option.some.injEq] at hm
      obtain ⟨hs, hl⟩ := hm
      subst hs
      have hr : Within (s.read p 2) L := hw.read (by omega)
      split
      · exact ⟨hr.tok _, by rw [tok_mem, read_mem]; exact Zeroed.refl _, by simp⟩
      · rename_i hfit
        cases tp
        · simp only [Bool.false_eq_true, ↓reduceIte]
          refine ⟨hr, by rw [read_mem]; exact Zeroed.refl _, ?_⟩
          intro p' sz' h
          simp only [Option.some.injEq, Prod.mk.injEq] at h
          omega
        · simp only [↓reduceIte]
          refine ⟨hr.zero (by omega), by simp only [St.zero, read_mem]; exact Zeroed.set _ _, ?_⟩
          intro p' sz' h
          simp only [Option.some.injEq, Prod.mk.injEq] at h
          omega

theorem unpackSpecifier_spec {s : St} {L p sz : Nat} (hw : Within s L) (hp : p + sz ≤ L) :
    Within (unpackSpecifier s p sz).1 L ∧ Zeroed s.mem (unpackSpecifier s p sz).1.mem := by
  unfold unpackSpecifier
  have c1 := countstr_spec (s := s) "METHOD_length" "METHOD" false hw hp
  split
  · rename_i s1 h1; rw [h1] at c1; exact ⟨c1.1, c1.2.1⟩
  · rename_i s1 p1 z1 h1
    rw [h1] at c1
    have e1 := c1.2.2 _ _ rfl
    have c2 := countstr_spec (s := s1) "URI_length" "URI" true c1.1 (p := p1) (sz := z1) (by omega)
    split
    · rename_i s2 h2; rw [h2] at c2; exact ⟨c2.1, c1.2.1.trans c2.2.1⟩
    · rename_i s2 p2 z2 h2
      rw [h2] at c2
      have e2 := c2.2.2 _ _ rfl
      have c3 := countstr_spec (s := s2) "VERSION_length" "VERSION" true c2.1 (p := p2) (sz := z2) (by omega)
      split
      · rename_i s3 h3; rw [h3] at c3; exact ⟨c3.1, (c1.2.1.trans c2.2.1).trans c3.2.1⟩
      · rename_i s3 p3 z3 h3
        rw [h3] at c3
        have e3 := c3.2.2 _ _ rfl
        have c4 := countstr_spec (s := s3) "REQ-HDRS_length" "REQ-HDRS" true c3.1 (p := p3) (sz := z3) (by omega)
        split
        · rename_i s4 h4; rw [h4] at c4; exact ⟨c4.1, ((c1.2.1.trans c2.2.1).trans c3.2.1).trans c4.2.1⟩
        · rename_i s4 p4 z4 h4
          rw [h4] at c4
          have e4 := c4.2.2 _ _ rfl
          refine ⟨(c4.1.tok _).zero (by omega), ?_⟩
          simp only [St.zero, tok_mem]
          exact ((((c1.2.1.trans c2.2.1).trans c3.2.1).trans c4.2.1)).trans (Zeroed.set _ _)

theorem unpackDetail_spec {s : St} {L p sz : Nat} (hw : Within s L) (hp : p + sz ≤ L) :
    Within (unpackDetail s p sz).1 L ∧ Zeroed s.mem (unpackDetail s p sz).1.mem := by
  unfold unpackDetail
  have c1 := countstr_spec (s := s) "RESP-HDRS_length" "RESP_HDRS" false hw hp
  split
  · rename_i s1 h1; rw [h1] at c1; exact ⟨c1.1, c1.2.1⟩
  · rename_i s1 p1 z1 h1
    rw [h1] at c1
    have e1 := c1.2.2 _ _ rfl
    have c2 := countstr_spec (s := s1) "ENTITY-HDRS_length" "ENTITY_HDRS" true c1.1 (p := p1) (sz := z1) (by omega)
    split
    · rename_i s2 h2; rw [h2] at c2; exact ⟨c2.1, c1.2.1.trans c2.2.1⟩
    · rename_i s2 p2 z2 h2
      rw [h2] at c2
      have e2 := c2.2.2 _ _ rfl
      have c3 := countstr_spec (s := s2) "CACHE-HDRS_length" "CACHE_HDRS" true c2.1 (p := p2) (sz := z2) (by omega)
      split
      · rename_i s3 h3; rw [h3] at c3; exact ⟨c3.1, (c1.2.1.trans c2.2.1).trans c3.2.1⟩
      · rename_i s3 p3 z3 h3
        rw [h3] at c3
        have e3 := c3.2.2 _ _ rfl
        refine ⟨(c3.1.tok _).zero (by omega), ?_⟩
        simp only [St.zero, tok_mem]
        exact (((c1.2.1.trans c2.2.1).trans c3.2.1)).trans (Zeroed.set _ _)

theorem tstRequest_spec {s : St} {L p sz : Nat} (h : DataHdr) (hw : Within s L) (hp : p + sz ≤ L) :
    Within (tstRequest s h p sz) L ∧ Zeroed s.mem (tstRequest s h p sz).mem := by
  unfold tstRequest
  split
  · exact ⟨hw.tok _, Zeroed.refl _⟩
  · split
    · exact ⟨hw, Zeroed.refl _⟩
    · exact unpackSpecifier_spec hw hp

theorem tstResponse_spec {s : St} {L p sz : Nat} (h : DataHdr) (mq : Bool) (hw : Within s L) (hp : p + sz ≤ L) :
    Within (tstResponse s h p sz mq) L ∧ Zeroed s.mem (tstResponse s h p sz mq).mem := by
  unfold tstResponse
  split
  · split
    · exact ⟨hw.tok _, Zeroed.refl _⟩
    · exact ⟨hw.tok _, Zeroed.refl _⟩
  · split
    · exact ⟨hw.tok _, Zeroed.refl _⟩
    · have u := unpackDetail_spec (s := s.tok "rsp:hit") (hw.tok _) hp
      simp only []
      split
      · exact u
      · exact ⟨u.1.tok _, u.2⟩

theorem clr_spec {s : St} {L p sz : Nat} (hw : Within s L) (hp : p + sz ≤ L) :
    Within (clr s p sz) L ∧ Zeroed s.mem (clr s p sz).mem := by
  unfold clr
  split
  · exact ⟨hw.tok _, Zeroed.refl _⟩
  · exact unpackSpecifier_spec (s := s.read p 2) (hw.read (by omega)) (by omega)

theorem dispatch_spec {s : St} {L p sz : Nat} (h : DataHdr) (mq : Bool) (hw : Within s L) (hp : p + sz ≤ L) :
    Within (dispatch s h p sz mq) L ∧ Zeroed s.mem (dispatch s h p sz mq).mem := by
  unfold dispatch
  split
  · exact ⟨hw.tok _, Zeroed.refl _⟩
  · split
    · exact ⟨hw.tok _, Zeroed.refl _⟩
    · split
      · exact ⟨hw.tok _, Zeroed.refl _⟩
      · split
        · split
          · exact tstRequest_spec h hw hp
          · exact tstResponse_spec h mq hw hp
        · exact clr_spec hw hp

theorem announce_within {s : St} {L : Nat} (h : DataHdr) (hw : Within s L) : Within (announce s h) L ∧ (announce s h).mem = s.mem :=
  ⟨((((hw.tok _).tok _).tok _).tok _).tok _, rfl⟩

theorem body_spec {s : St} {L hsz : Nat} (h : DataHdr) (mq : Bool) (hw : Within s L) (hp : hdrSize + hsz ≤ L) :
    Within (body s h hsz mq).1 L ∧ Zeroed s.mem (body s h hsz mq).1.mem := by
  have hh : hdrSize = 4 := rfl
  have hd : dataHdrSize = 8 := rfl
  have w3 := announce_within h hw
  unfold body
  split
  · exact ⟨hw.tok _, Zeroed.refl _⟩
  · split
    · exact ⟨w3.1.tok _, Zeroed.refl _⟩
    · split
      · exact ⟨w3.1.tok _, Zeroed.refl _⟩
      · have d := dispatch_spec h mq w3.1 (p := hdrSize + dataHdrSize) (sz := h.length - dataHdrSize) (by omega)
        exact ⟨d.1, d.2⟩

theorem dataPart_spec {s : St} {L hsz : Nat} (m : Mem) (mq : Bool) (hw : Within s L) (hp : hdrSize + hsz ≤ L) :
    Within (dataPart s m hsz mq).1 L ∧ Zeroed s.mem (dataPart s m hsz mq).1.mem := by
  have hh : hdrSize = 4 := rfl
  have hd : dataHdrSize = 8 := rfl
  unfold dataPart
  split
  · exact ⟨hw.tok _, Zeroed.refl _⟩
  · exact body_spec _ mq ((hw.read (by omega)).tok _) hp

/-- every read of `htcpHandleMsg` and of the unpackers it calls stays inside the datagram; stores go no further than the
octet right behind it (which the buffer has: recvfrom was given one octet less); the buffer changes only by zeroing -/
theorem handleMsg_spec (m : Mem) (len : Nat) (mq : Bool) :
    Within (handleMsg m len mq).1 len ∧ Zeroed m (handleMsg m len mq).1.mem := by
  have w0 : Within ({ mem := m } : St) len := ⟨Nat.zero_le _, Nat.zero_le _⟩
  have z0 : Zeroed m m := Zeroed.refl _
  have hh : hdrSize = 4 := rfl
  unfold handleMsg
  split
  · exact ⟨w0.tok _, z0⟩
  · have w1 : Within (({ mem := m } : St).read 0 hdrSize) len := w0.read (by omega)
    split
    · exact ⟨w1.tok _, z0⟩
    · split
      · exact ⟨w1.tok _, z0⟩
      · exact dataPart_spec m mq w1 (by omega)

theorem htcpMem_len (dg stale : Bytes) : (htcpMem dg stale).2 < htcpBufSize ∧ (htcpMem dg stale).2 ≤ dg.length := by
  unfold htcpMem
  simp only [List.length_take]
  have : htcpBufSize = 8192 := by decide
  omega

end Htcp
end SquidModel.Udp
