/-
C39 — BER primitives of lib/snmplib/asn1.c as they are used on received SNMP datagrams.

Memory is the receive buffer and whatever follows it: `Mem = List UInt8`, offset 0 = first octet of the datagram, octets
beyond the end of the list read as 0.  A C pointer into the buffer is an offset (`Nat`); `*datalength` is a `Nat`
(every subtraction the C code performs on it is guarded by the comparison that precedes it, so it never goes negative;
the model keeps the same guards, cf. `parseHeader_ok_le` etc. in Asn1Lemmas).

Every function returns, next to its result, `hi` = (highest offset it touched) + 1 (0 = touched nothing): this is what
the property "no out-of-bounds access" is about, and what the harness measures on the real code.

`fx` selects the variant of the source: `false` = the tree as found (type and length octets are read before the
remaining length is looked at), `true` = with notes/fixes/C39-asn-parse-overread.diff (room is checked first).  Which one
the staged tree has is read from the source by translate/udp_limits.py (`Gen.UdpLimits.asnChecksRoomFirst`).
-/
import SquidModel.Base.Bytes
import SquidModel.Gen.UdpLimits

namespace SquidModel.Udp

abbrev Mem := List UInt8

/-- the octet at offset `i` -/
@[inline] def rd (m : Mem) (i : Nat) : Nat := (m.getD i 0).toNat

/-- `n` octets starting at `p` (zero padded if the list ends earlier) -/
def slice (m : Mem) (p n : Nat) : Bytes :=
  let s := (m.drop p).take n
  s ++ List.replicate (n - s.length) 0

/-- SNMPERR_ASN_DECODE, SNMPERR_UNSUPPORTED_TYPE, SNMPERR_PDU_PARSE -/
def errAsn : Int := -7
def errUnsupported : Int := -12
def errPduParse : Int := -13

/-- result of a C function that returns a pointer or NULL; `err` = the value the failing path hands to
`snmp_set_api_error` (0 = that path does not set it), `dbg` = class of the `snmplib_debug` message of that path (0 = none) -/
inductive Res (α : Type) where
  | ok (a : α)
  | fail (err : Int) (dbg : Nat)
  deriving Repr

/-- a result together with the access trace summary -/
structure T (α : Type) where
  res : Res α
  hi : Nat

namespace T
/-- the payload of a success -/
def val? {α} (x : T α) : Option α := match x.res with | .ok a => some a | .fail _ _ => none
def ok {α} (a : α) (hi : Nat) : T α := ⟨.ok a, hi⟩
def fail {α} (err : Int) (hi : Nat) : T α := ⟨.fail err 0, hi⟩

/-- sequencing: the continuation runs only on success; touched offsets accumulate -/
def bind {α β} (x : T α) (f : α → T β) : T β :=
  match x.res with
  | .fail e d => ⟨.fail e d, x.hi⟩
  | .ok a => let y := f a; ⟨y.res, max x.hi y.hi⟩
end T

open Gen.UdpLimits

/-- big-endian value of `n` octets at `p` -/
def beVal (m : Mem) : Nat → Nat → Nat → Nat
  | _, 0, acc => acc
  | p, n + 1, acc => beVal m (p + 1) n (acc * 256 + rd m p)

def two32 : Nat := 4294967296

/-- a 32-bit pattern as C `int` -/
def toSigned32 (r : Nat) : Int := if r % two32 ≥ 2147483648 then (r % two32 : Nat) - (two32 : Int) else (r % two32 : Nat)

/-- `while (asn_length--) value = (value << 8) | *bufp++;` on a 32-bit `int` (two's complement wrap-around, as compiled) -/
def shiftIn (m : Mem) : Nat → Nat → Nat → Nat
  | _, 0, acc => acc
  | p, n + 1, acc => shiftIn m (p + 1) n ((acc * 256 + rd m p) % two32)

/--
`asn_parse_length(data, &length)`; `p` = offset of the length field, `room` = number of valid octets at `p`
(only looked at by the fixed variant).  Success: `(length, offset of the contents)`.
-/
def parseLength (fx : Bool) (m : Mem) (p room : Nat) : T (Nat × Nat) :=
  if fx ∧ room < 1 then T.fail errAsn 0 else
  let b := rd m p
  if b ≥ 128 then
    let n := b - 128
    if n = 0 then T.fail errAsn (p + 1)
    else if n > sizeofInt then T.fail errAsn (p + 1)
    else if fx ∧ room < 1 + n then T.fail errAsn (p + 1)
    else T.ok (beVal m (p + 1) n 0, p + 1 + n) (p + 1 + n)
  else T.ok (b, p + 1) (p + 1)

/-- the identifier octet and the length field of the object at `p` (common prefix of the `asn_parse_*` functions that
do `*type = *bufp++; bufp = asn_parse_length(bufp, &asn_length);`): `(type, length, offset of the contents)` -/
def parseTL (fx : Bool) (m : Mem) (p dl : Nat) : T (Nat × Nat × Nat) :=
  if fx ∧ dl < 1 then T.fail errAsn 0 else
  let r := parseLength fx m (p + 1) (dl - 1)
  match r.res with
  | .fail e d => ⟨.fail e d, max (p + 1) r.hi⟩
  | .ok (al, q) => T.ok (rd m p, al, q) (max (p + 1) r.hi)

/-- `asn_parse_header(data, &datalength, &type)`: `(type, offset of the contents, length of the contents)` -/
def parseHeader (fx : Bool) (m : Mem) (p dl : Nat) : T (Nat × Nat × Nat) :=
  if fx ∧ dl < 1 then T.fail errAsn 0 else
  let b := rd m p
  if b % 32 = 31 then T.fail errAsn (p + 1) else   -- IS_EXTENSION_ID
  let r := parseLength fx m (p + 1) (dl - 1)
  match r.res with
  | .fail e d => ⟨.fail e d, max (p + 1) r.hi⟩
  | .ok (al, q) =>
    -- `header_len + asn_length > *datalength` is evaluated in `unsigned int`
    if ((q - p) + al) % two32 > dl % two32 ∨ al > asnMaxLen then T.fail errAsn (max (p + 1) r.hi)
    else T.ok (b, q, al) (max (p + 1) r.hi)

/-- `asn_parse_int`: `(value, offset behind the object, remaining datalength)` -/
def parseInt (fx : Bool) (m : Mem) (p dl : Nat) : T (Int × Nat × Nat) :=
  (parseTL fx m p dl).bind fun (_, al, q) =>
    if al + (q - p) > dl then T.fail errAsn 0
    else if al > sizeofInt then T.fail errAsn 0
    else
      -- `if (*bufp & 0x80) value = -1;` looks at the first content octet even when there is none (fixed: only when there is one)
      let look := ¬ (fx ∧ al = 0)
      let neg := look ∧ rd m q ≥ 128
      let raw := shiftIn m q al (if neg then two32 - 1 else 0)
      T.ok (toSigned32 raw, q + al, dl - (al + (q - p))) (max (if look then q + 1 else 0) (if al = 0 then 0 else q + al))

/-- `asn_parse_unsigned_int`: the value as `u_int` -/
def parseUnsigned (fx : Bool) (m : Mem) (p dl : Nat) : T (Nat × Nat × Nat) :=
  (parseTL fx m p dl).bind fun (_, al, q) =>
    if al + (q - p) > dl then T.fail errAsn 0
    else if al > sizeofInt + 1 ∨ (al = sizeofInt + 1 ∧ rd m q ≠ 0) then T.fail errAsn (if al = sizeofInt + 1 then q + 1 else 0)
    else
      let look := ¬ (fx ∧ al = 0)
      let neg := look ∧ rd m q ≥ 128
      let raw := shiftIn m q al (if neg then two32 - 1 else 0)
      T.ok (raw % two32, q + al, dl - (al + (q - p))) (max (if look then q + 1 else 0) (if al = 0 then 0 else q + al))

/-- `asn_parse_string` into a buffer of `cap` octets: `(octets, offset behind, remaining datalength)` -/
def parseString (fx : Bool) (m : Mem) (p dl cap : Nat) : T (Bytes × Nat × Nat) :=
  (parseTL fx m p dl).bind fun (_, al, q) =>
    if al + (q - p) > dl then T.fail errAsn 0
    else if al > cap then T.fail errAsn 0
    else T.ok (slice m q al, q + al, dl - (al + (q - p))) (if al = 0 then 0 else q + al)

/-- one sub-identifier: `do { if (length-- <= 0) fail; sub = (sub << 7) | (*bufp & 0x7f); } while (*bufp++ & 0x80);`
`fuel` = the C variable `length`; success: `(value, offset behind)` (the caller recomputes `length`) -/
def subId (m : Mem) : Nat → Nat → Nat → Option (Nat × Nat)
  | 0, _, _ => none
  | l + 1, pos, acc =>
    let b := rd m pos
    let v := (acc * 128 + b % 128) % two32
    if b ≥ 128 then subId m l (pos + 1) v else some (v, pos + 1)

/-- `while (length > 0 && (*objidlength)-- > 0) { ...; *oidp++ = subidentifier; }`;
`fuel` bounds the iterations (each consumes at least one octet), `cap` = sub-identifiers that may still be stored.
Success: `(sub-identifiers in order, offset reached)` -/
def oidLoop (m : Mem) : Nat → Nat → Nat → Nat → List Nat → Option (List Nat × Nat)
  | 0, pos, _, _, acc => some (acc.reverse, pos)
  | f + 1, pos, length, cap, acc =>
    if length = 0 then some (acc.reverse, pos)
    else if cap = 0 then some (acc.reverse, pos)
    else
      match subId m length pos 0 with
      | none => none
      | some (v, pos') => oidLoop m f pos' (length - (pos' - pos)) (cap - 1) (v :: acc)

/-- what `asn_parse_objid` leaves in `objid[0..n)`: the first sub-identifier is split into two arcs -/
def splitFirst (subs : List Nat) : List Nat :=
  match subs with
  | [] => [0]                                   -- `06 00`: objid[0] = objid[1] = 0, *objidlength = 1
  | s :: rest =>
    if s = 43 then 1 :: 3 :: rest
    else ((s - s % 40) / 40) % 256 :: (s % 40) % 256 :: rest   -- both stored through `(u_char)`

/-- `asn_parse_objid` into a buffer of `cap` sub-identifiers: `(objid[0..n), offset returned, remaining datalength)`.
Note the offset returned is where the loop stopped, which is *before* the end of the object when `cap` ran out. -/
def parseObjid (fx : Bool) (m : Mem) (p dl cap : Nat) : T (List Nat × Nat × Nat) :=
  (parseTL fx m p dl).bind fun (_, al, q) =>
    if al + (q - p) > dl then T.fail errAsn 0
    else
      match oidLoop m al q al (cap - 1) [] with
      | none => T.fail errAsn (q + al)
      | some (subs, pos) => T.ok (splitFirst subs, pos, dl - (al + (q - p))) (if al = 0 then 0 else pos)

end SquidModel.Udp
