/-
C39 — what `htcpRecv` / `htcpHandleMsg` (src/htcp.cc) do with one received datagram: the two headers, the opcode
dispatch, `htcpHandleTst{Request,Response}` / `htcpHandleClr` up to the calls of the unpackers, and the unpackers
`htcpUnpackSpecifier` / `htcpUnpackDetail` themselves with the terminators they write into the receive buffer.

Memory = the static receive buffer `htcpRecv::buf` of `htcpBufSize` octets; `recvfrom` is given one octet less, so
`len < htcpBufSize`; the buffer is *not* cleared between datagrams.  The trace is the list of tokens the harness derives
from squid's own section-31 debug messages.
-/
import SquidModel.Udp.Asn1

namespace SquidModel.Udp.Htcp
open SquidModel.Udp Gen.UdpLimits

/-- state threaded through the unpackers -/
structure St where
  mem : Mem
  rdHi : Nat := 0
  wrHi : Nat := 0
  toks : List String := []     -- reversed
  deriving Repr

def St.tok (s : St) (t : String) : St := { s with toks := t :: s.toks }
def St.read (s : St) (p n : Nat) : St := { s with rdHi := max s.rdHi (p + n) }
/-- `*buf = '\0'` at offset `p` -/
def St.zero (s : St) (p : Nat) : St := { s with mem := s.mem.set p 0, wrHi := max s.wrHi (p + 1) }

def u16 (m : Mem) (p : Nat) : Nat := rd m p * 256 + rd m (p + 1)

/-- `parseUint16(buf, sz, out, field)` -/
def parseUint16 (s : St) (p sz : Nat) (field : String) : St × Option Nat :=
  if sz < 2 then (s.tok ("short:" ++ field), none) else (s.read p 2, some (u16 s.mem p))

/-- one counted string whose *length field* gets overwritten by the terminator of the previous string (`zeroAt`):
`parseUint16; sz -= 2; if (l > sz) fail; [*buf = 0;] buf += 2; <field> = buf; buf += l; sz -= l;`
Success: new position and remaining size. -/
def countstr (s : St) (p sz : Nat) (lenField badField : String) (terminatePrev : Bool) : St × Option (Nat × Nat) :=
  match parseUint16 s p sz lenField with
  | (s, none) => (s, none)
  | (s, some l) =>
    if l > sz - 2 then (s.tok ("bad:" ++ badField), none)
    else
      let s := if terminatePrev then s.zero p else s
      (s, some (p + 2 + l, sz - 2 - l))

/-- `htcpUnpackSpecifier(buf, sz)` up to and including the final terminator (then the URL goes to the URL parser) -/
def unpackSpecifier (s : St) (p sz : Nat) : St × Bool :=
  match countstr s p sz "METHOD_length" "METHOD" false with
  | (s, none) => (s, false)
  | (s, some (p, sz)) =>
  match countstr s p sz "URI_length" "URI" true with
  | (s, none) => (s, false)
  | (s, some (p, sz)) =>
  match countstr s p sz "VERSION_length" "VERSION" true with
  | (s, none) => (s, false)
  | (s, some (p, sz)) =>
  match countstr s p sz "REQ-HDRS_length" "REQ-HDRS" true with
  | (s, none) => (s, false)
  | (s, some (p, sz)) => ((s.tok ("left=" ++ toString sz)).zero p, true)

/-- `htcpUnpackDetail(buf, sz)` -/
def unpackDetail (s : St) (p sz : Nat) : St × Bool :=
  match countstr s p sz "RESP-HDRS_length" "RESP_HDRS" false with
  | (s, none) => (s, false)
  | (s, some (p, sz)) =>
  match countstr s p sz "ENTITY-HDRS_length" "ENTITY_HDRS" true with
  | (s, none) => (s, false)
  | (s, some (p, sz)) =>
  match countstr s p sz "CACHE-HDRS_length" "CACHE_HDRS" true with
  | (s, none) => (s, false)
  | (s, some (p, sz)) => ((s.tok ("dleft=" ++ toString sz)).zero p, true)

def hdrSize : Nat := 4        -- sizeof(htcpHeader)
def dataHdrSize : Nat := 8    -- sizeof(htcpDataHeader) = sizeof(htcpDataHeaderSquid)

structure DataHdr where
  length : Nat
  opcode : Nat
  response : Nat
  f1 : Nat
  rr : Nat
  msgId : Nat
  deriving Repr

/-- the data header at `p`; `minor = 0` selects the bit-field layout of old Squids -/
def dataHdr (m : Mem) (p : Nat) (oldFormat : Bool) : DataHdr :=
  let b2 := rd m (p + 2)
  let b3 := rd m (p + 3)
  let id := ((rd m (p + 4) * 256 + rd m (p + 5)) * 256 + rd m (p + 6)) * 256 + rd m (p + 7)
  if oldFormat then ⟨u16 m p, b2 % 16, b2 / 16, (b3 / 64) % 2, b3 / 128, id⟩
  else ⟨u16 m p, b2 / 16, b2 % 16, (b3 / 2) % 2, b3 % 2, id⟩

/-- a `name=number` token -/
def tk (k : String) (n : Nat) : String := k ++ "=" ++ toString n

/-- `htcpHandleTstRequest(dhdr, buf, sz, from)` up to the end of the unpacker -/
def tstRequest (s : St) (h : DataHdr) (p sz : Nat) : St :=
  if sz = 0 then s.tok "tst:empty"
  else if h.f1 = 0 then s
  else (unpackSpecifier s p sz).1

/-- `htcpHandleTstResponse(hdr, buf, sz, from)`; `matchQuery` = the cache has an outstanding query that a TST response with
this msg_id from this sender answers (otherwise: no query was ever sent, `queried_id[]` and `queried_addr[]` hold their
initial values, so only msg_id 0 gets past the first test and then fails the sender test) -/
def tstResponse (s : St) (h : DataHdr) (p sz : Nat) (matchQuery : Bool) : St :=
  if ¬ matchQuery then
    if h.msgId ≠ 0 then s.tok "rsp:noid" else s.tok "rsp:source"
  else if h.f1 = 1 then s.tok "rsp:f1"
  else
    let r := unpackDetail (s.tok "rsp:hit") p sz
    if r.2 then r.1 else r.1.tok "rsp:baddetail"

/-- `htcpHandleClr(hdr, buf, sz, from)` up to the end of the unpacker: two octets (reserved, reason), then a specifier -/
def clr (s : St) (p sz : Nat) : St :=
  if sz < 2 then s.tok ("short:reserved+reason_fields_(sz=" ++ toString sz ++ ")")
  else (unpackSpecifier (s.read p 2) (p + 2) (sz - 2)).1

/-- the `switch (hdr.opcode)` of `htcpHandleMsg` -/
def dispatch (s : St) (h : DataHdr) (p sz : Nat) (matchQuery : Bool) : St :=
  if h.opcode = 0 then s.tok "nop"
  else if h.opcode = 2 then s.tok "mon"
  else if h.opcode = 3 then s.tok "set"
  else if h.opcode = 1 then (if h.rr = 0 then tstRequest s h p sz else tstResponse s h p sz matchQuery)
  else clr s p sz

/-- the five level-3 messages that report the decoded data header -/
def announce (s : St) (h : DataHdr) : St :=
  ((((s.tok (tk "op" h.opcode)).tok (tk "resp" h.response)).tok (tk "f1" h.f1)).tok (tk "rr" h.rr)).tok (tk "id" h.msgId)

/-- `htcpHandleMsg` from the opcode range check on; `hsz` = octets behind the 4-octet header.
Second component = the value of the last "hsz = " message (none = not printed). -/
def body (s : St) (h : DataHdr) (hsz : Nat) (matchQuery : Bool) : St × Option Nat :=
  if h.opcode ≥ htcpEnd then (s.tok "drop:opcode", some hsz)
  else if h.length < dataHdrSize then ((announce s h).tok "drop:dlen-small", some hsz)
  else if hsz < h.length then ((announce s h).tok "drop:dlen-big", some hsz)
  else (dispatch (announce s h) h (hdrSize + dataHdrSize) (h.length - dataHdrSize) matchQuery, some (h.length - dataHdrSize))

/-- `htcpHandleMsg` from the data header on (`minor == 0` selects the old layout) -/
def dataPart (s : St) (m : Mem) (hsz : Nat) (matchQuery : Bool) : St × Option Nat :=
  if hsz < dataHdrSize then (s.tok "drop:datahdr", none)
  else body ((s.read hdrSize dataHdrSize).tok (tk "dlen" (dataHdr m hdrSize (rd m 3 = 0)).length))
        (dataHdr m hdrSize (rd m 3 = 0)) hsz matchQuery

/-- `htcpHandleMsg(buf, sz, from)` -/
def handleMsg (m : Mem) (len : Nat) (matchQuery : Bool) : St × Option Nat :=
  if len < hdrSize then (St.tok { mem := m } "drop:short", none)
  else if len ≠ u16 m 0 then ((St.read { mem := m } 0 hdrSize).tok "drop:length", none)
  else if rd m 2 ≠ 0 then ((St.read { mem := m } 0 hdrSize).tok "drop:major", none)
  else dataPart (St.read { mem := m } 0 hdrSize) m (len - hdrSize) matchQuery

/-- the receive buffer after `recvfrom` (not cleared by squid: `stale` is what an earlier datagram left) -/
def htcpMem (dg stale : Bytes) : Mem × Nat :=
  let d := dg.take (htcpBufSize - 1)
  let s := stale.take (htcpBufSize - 1 - d.length)
  (d ++ s ++ List.replicate (htcpBufSize - d.length - s.length) 0, d.length)

/-- offsets whose octet differs between two memories -/
def changed : Mem → Mem → Nat → List Nat
  | a :: as, b :: bs, i => if a = b then changed as bs (i + 1) else i :: changed as bs (i + 1)
  | _, _, _ => []

end SquidModel.Udp.Htcp
