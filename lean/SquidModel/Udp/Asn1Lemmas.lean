/-
C39 — facts about the BER primitives of `SquidModel.Udp.Asn1`: where they may look, how far they advance, how much they
deliver.  `HdrOK fx m len B` collects what the message-level proofs need to know about the identifier/length octets:
three instances (tree as found with arbitrary memory behind the datagram, tree as found with two zero octets behind it,
fixed tree) are proved at the end.
-/
import SquidModel.Udp.Asn1

namespace SquidModel.Udp
open Gen.UdpLimits

/-! ### the sequencing combinator -/

theorem T.bind_hi_le {α β} {x : T α} {f : α → T β} {B : Nat}
    (hx : x.hi ≤ B) (hf : ∀ a, x.res = .ok a → (f a).hi ≤ B) : (x.bind f).hi ≤ B := by
  unfold T.bind
  cases h : x.res with
  | fail e d => simpa using hx
  | ok a =>
    have := hf a h
    simp only []
    exact Nat.max_le.mpr ⟨hx, this⟩

theorem T.bind_ok {α β} {x : T α} {f : α → T β} {b : β}
    (h : (x.bind f).res = .ok b) : ∃ a, x.res = .ok a ∧ (f a).res = .ok b := by
  unfold T.bind at h
  cases hx : x.res with
  | fail e d => rw [hx] at h; simp at h
  | ok a => rw [hx] at h; exact ⟨a, rfl, h⟩

theorem T.bind_fail {α β} {x : T α} {f : α → T β} {e : Int} {d : Nat}
    (h : (x.bind f).res = .fail e d) : x.res = .fail e d ∨ ∃ a, x.res = .ok a ∧ (f a).res = .fail e d := by
  unfold T.bind at h
  cases hx : x.res with
  | fail e' d' => rw [hx] at h; left; simpa using h
  | ok a => rw [hx] at h; right; exact ⟨a, rfl, h⟩

/-- failures of this computation carry no debug-message class -/
def Dbg0 {α} (x : T α) : Prop := ∀ e d, x.res = .fail e d → d = 0

theorem Dbg0.fail {α} (e : Int) (h : Nat) : Dbg0 (T.fail e h : T α) := by
  intro e' d hh; simp [T.fail] at hh; exact hh.2.symm

theorem Dbg0.ok {α} (a : α) (h : Nat) : Dbg0 (T.ok a h) := by
  intro e' d hh; simp [T.ok] at hh

theorem Dbg0.bind {α β} {x : T α} {f : α → T β} (hx : Dbg0 x) (hf : ∀ a, x.res = .ok a → Dbg0 (f a)) : Dbg0 (x.bind f) := by
  intro e d h
  rcases T.bind_fail h with h1 | ⟨a, ha, h2⟩
  · exact hx e d h1
  · exact hf a ha e d h2

/-! ### asn_parse_length -/

theorem sizeofInt_eq : sizeofInt = 4 := by decide

theorem parseLength_hi_le (fx : Bool) (m : Mem) (p room : Nat) :
    (parseLength fx m p room).hi ≤ p + 1 + sizeofInt := by
  unfold parseLength
  split
  · simp [T.fail]
  · simp only []
    split
    · split
      · simp [T.fail]
      · split
        · simp [T.fail]
        · split
          · simp [T.fail]
          · simp [T.ok]; omega
    · simp [T.ok]

/-- the fixed variant stays inside the `room` octets it was given -/
theorem parseLength_hi_fixed (m : Mem) (p room : Nat) : (parseLength true m p room).hi ≤ p + room := by
  unfold parseLength
  split
  · simp [T.fail]
  · rename_i h
    simp only [true_and, Nat.not_lt] at h
    simp only []
    split
    · split
      · simp [T.fail]; omega
      · split
        · simp [T.fail]; omega
        · split
          · simp [T.fail]; omega
          · rename_i h3
            simp only [true_and, Nat.not_lt] at h3
            simp [T.ok]; omega
    · simp [T.ok]; omega

/-- a zero count octet is a short length of zero (tree as found) -/
theorem parseLength_zero (m : Mem) (p room : Nat) (h : rd m p = 0) :
    parseLength false m p room = T.ok (0, p + 1) (p + 1) := by
  unfold parseLength
  simp [h]

theorem parseLength_ok {fx : Bool} {m : Mem} {p room al q : Nat}
    (h : (parseLength fx m p room).res = .ok (al, q)) : p + 1 ≤ q ∧ q ≤ p + 1 + sizeofInt ∧ (fx = true → q ≤ p + room) := by
  unfold parseLength at h
  split at h
  · simp [T.fail] at h
  · rename_i h0
    simp only [] at h
    split at h
    · split at h
      · simp [T.fail] at h
      · split at h
        · simp [T.fail] at h
        · split at h
          · simp [T.fail] at h
          · rename_i h1 h2 h3
            simp only [T.ok, Res.ok.injEq, Prod.mk.injEq] at h
            refine ⟨by omega, by omega, ?_⟩
            intro hfx
            subst hfx
            simp only [true_and, Nat.not_lt] at h3
            omega
    · simp only [T.ok, Res.ok.injEq, Prod.mk.injEq] at h
      refine ⟨by omega, by omega, ?_⟩
      intro hfx
      subst hfx
      simp only [true_and, Nat.not_lt] at h0
      omega

theorem parseLength_dbg0 (fx : Bool) (m : Mem) (p room : Nat) : Dbg0 (parseLength fx m p room) := by
  unfold parseLength
  split
  · exact Dbg0.fail _ _
  · simp only []
    split
    · split
      · exact Dbg0.fail _ _
      · split
        · exact Dbg0.fail _ _
        · split
          · exact Dbg0.fail _ _
          · exact Dbg0.ok _ _
    · exact Dbg0.ok _ _

/-! ### identifier + length -/

theorem parseTL_ok {fx : Bool} {m : Mem} {p dl ty al q : Nat}
    (h : (parseTL fx m p dl).res = .ok (ty, al, q)) :
    p + 2 ≤ q ∧ q ≤ p + 2 + sizeofInt ∧ (fx = true → q ≤ p + dl) ∧ ty = rd m p := by
  unfold parseTL at h
  split at h
  · simp [T.fail] at h
  · rename_i h0
    simp only [] at h
    split at h
    · simp at h
    · rename_i al' q' hr
      simp only [T.ok, Res.ok.injEq, Prod.mk.injEq] at h
      obtain ⟨h1, h2, h3⟩ := h
      subst h2 h3
      have := parseLength_ok hr
      refine ⟨by omega, by omega, ?_, h1.symm⟩
      intro hfx
      subst hfx
      simp only [true_and, Nat.not_lt] at h0
      have := this.2.2 rfl
      omega

theorem parseTL_dbg0 (fx : Bool) (m : Mem) (p dl : Nat) : Dbg0 (parseTL fx m p dl) := by
  unfold parseTL
  split
  · exact Dbg0.fail _ _
  · simp only []
    split
    · rename_i e d hr
      intro e' d' hh
      simp only [Res.fail.injEq] at hh
      have := parseLength_dbg0 fx m (p + 1) (dl - 1) e d hr
      omega
    · exact Dbg0.ok _ _

theorem parseHeader_ok {fx : Bool} {m : Mem} {p dl ty q al : Nat}
    (h : (parseHeader fx m p dl).res = .ok (ty, q, al)) :
    p + 2 ≤ q ∧ q ≤ p + 2 + sizeofInt ∧ q + al ≤ p + dl ∧ ty = rd m p := by
  unfold parseHeader at h
  split at h
  · simp [T.fail] at h
  · simp only [] at h
    split at h
    · simp [T.fail] at h
    · split at h
      · simp at h
      · rename_i al' q' hr
        split at h
        · simp [T.fail] at h
        · rename_i hc
          simp only [T.ok, Res.ok.injEq, Prod.mk.injEq] at h
          obtain ⟨h1, h2, h3⟩ := h
          subst h2 h3
          have hl := parseLength_ok hr
          have s4 := sizeofInt_eq
          have hm : asnMaxLen = 524288 := by decide
          simp only [not_or, Nat.not_lt] at hc
          obtain ⟨hc1, hc2⟩ := hc
          have hsmall : (q' - p) + al' < two32 := by unfold two32; omega
          rw [Nat.mod_eq_of_lt hsmall] at hc1
          have : dl % two32 ≤ dl := Nat.mod_le _ _
          refine ⟨by omega, by omega, by omega, h1.symm⟩

theorem parseHeader_dbg0 (fx : Bool) (m : Mem) (p dl : Nat) : Dbg0 (parseHeader fx m p dl) := by
  unfold parseHeader
  split
  · exact Dbg0.fail _ _
  · simp only []
    split
    · exact Dbg0.fail _ _
    · split
      · rename_i e d hr
        intro e' d' hh
        simp only [Res.fail.injEq] at hh
        have := parseLength_dbg0 fx m (p + 1) (dl - 1) e d hr
        omega
      · split
        · exact Dbg0.fail _ _
        · exact Dbg0.ok _ _

/-- What the message-level proofs need about the identifier/length octets: wherever an object may start inside a
datagram of `len` octets, looking at them touches nothing at or beyond `B`; and `B` leaves room for the one content
octet `asn_parse_int` inspects unconditionally (tree as found). -/
structure HdrOK (fx : Bool) (m : Mem) (len B : Nat) : Prop where
  tl : ∀ p dl, p + dl ≤ len → (parseTL fx m p dl).hi ≤ B
  hdr : ∀ p dl, p + dl ≤ len → (parseHeader fx m p dl).hi ≤ B
  room : len + (if fx then 0 else 1) ≤ B

theorem parseTL_hi_le (fx : Bool) (m : Mem) (p dl : Nat) : (parseTL fx m p dl).hi ≤ p + 2 + sizeofInt := by
  unfold parseTL
  split
  · simp [T.fail]
  · simp only []
    have := parseLength_hi_le fx m (p + 1) (dl - 1)
    split <;> simp [T.ok] <;> omega

theorem parseHeader_hi_le (fx : Bool) (m : Mem) (p dl : Nat) : (parseHeader fx m p dl).hi ≤ p + 2 + sizeofInt := by
  unfold parseHeader
  split
  · simp [T.fail]
  · simp only []
    have := parseLength_hi_le fx m (p + 1) (dl - 1)
    split
    · simp [T.fail]; omega
    · split
      · simp; omega
      · split <;> simp [T.ok, T.fail] <;> omega

/-- tree as found, anything behind the datagram: at most six octets beyond it -/
theorem hdrOK_general (m : Mem) (len : Nat) : HdrOK false m len (len + 2 + sizeofInt) where
  tl p dl h := by have := parseTL_hi_le false m p dl; omega
  hdr p dl h := by have := parseHeader_hi_le false m p dl; omega
  room := by simp; omega

theorem parseTL_hi_zero (m : Mem) (len p dl : Nat) (h : p + dl ≤ len) (z0 : rd m len = 0) (z1 : rd m (len + 1) = 0) :
    (parseTL false m p dl).hi ≤ len + sizeofInt := by
  have s4 := sizeofInt_eq
  unfold parseTL
  simp only [Bool.false_eq_true, false_and, ↓reduceIte]
  by_cases hp : p + 2 ≤ len
  · have := parseLength_hi_le false m (p + 1) (dl - 1)
    split <;> simp [T.ok] <;> omega
  · -- the count octet lies behind the datagram: it is zero
    have hz : rd m (p + 1) = 0 := by
      have : p + 1 = len ∨ p + 1 = len + 1 := by omega
      rcases this with e | e <;> rw [e] <;> assumption
    rw [parseLength_zero m (p + 1) (dl - 1) hz]
    simp [T.ok]; omega

theorem parseHeader_hi_zero (m : Mem) (len p dl : Nat) (h : p + dl ≤ len) (z0 : rd m len = 0) (z1 : rd m (len + 1) = 0) :
    (parseHeader false m p dl).hi ≤ len + sizeofInt := by
  have s4 := sizeofInt_eq
  unfold parseHeader
  simp only [Bool.false_eq_true, false_and, ↓reduceIte]
  split
  · simp [T.fail]; omega
  · by_cases hp : p + 2 ≤ len
    · have := parseLength_hi_le false m (p + 1) (dl - 1)
      split
      · simp; omega
      · split <;> simp [T.ok, T.fail] <;> omega
    · have hz : rd m (p + 1) = 0 := by
        have : p + 1 = len ∨ p + 1 = len + 1 := by omega
        rcases this with e | e <;> rw [e] <;> assumption
      rw [parseLength_zero m (p + 1) (dl - 1) hz]
      simp only [T.ok]
      split <;> simp [T.ok, T.fail] <;> omega

/-- tree as found, two zero octets behind the datagram (what snmpHandleUdp's memset leaves when the datagram is at least
two octets shorter than the buffer): at most four octets beyond it -/
theorem hdrOK_zero (m : Mem) (len : Nat) (z0 : rd m len = 0) (z1 : rd m (len + 1) = 0) : HdrOK false m len (len + sizeofInt) where
  tl p dl h := parseTL_hi_zero m len p dl h z0 z1
  hdr p dl h := parseHeader_hi_zero m len p dl h z0 z1
  room := by have := sizeofInt_eq; simp; omega

theorem parseTL_hi_fixed (m : Mem) (p dl : Nat) : (parseTL true m p dl).hi ≤ p + dl := by
  unfold parseTL
  split
  · simp [T.fail]
  · rename_i h0
    simp only [true_and, Nat.not_lt] at h0
    simp only []
    have := parseLength_hi_fixed m (p + 1) (dl - 1)
    split <;> simp [T.ok] <;> omega

theorem parseHeader_hi_fixed (m : Mem) (p dl : Nat) : (parseHeader true m p dl).hi ≤ p + dl := by
  unfold parseHeader
  split
  · simp [T.fail]
  · rename_i h0
    simp only [true_and, Nat.not_lt] at h0
    simp only []
    have := parseLength_hi_fixed m (p + 1) (dl - 1)
    split
    · simp [T.fail]; omega
    · split
      · simp; omega
      · split <;> simp [T.ok, T.fail] <;> omega

/-- fixed tree: nothing beyond the datagram -/
theorem hdrOK_fixed (m : Mem) (len : Nat) : HdrOK true m len len where
  tl p dl h := by have := parseTL_hi_fixed m p dl; omega
  hdr p dl h := by have := parseHeader_hi_fixed m p dl; omega
  room := by simp

/-! ### the value parsers -/

theorem slice_length (m : Mem) (p n : Nat) : (slice m p n).length = n := by
  unfold slice
  simp only [List.length_append, List.length_replicate, List.length_take, List.length_drop]
  omega

/-- common shape of the success of `asn_parse_int/unsigned_int/string`: the object ends where the C code says -/
theorem parseInt_spec {fx : Bool} {m : Mem} {len B p dl : Nat} (H : HdrOK fx m len B) (hp : p + dl ≤ len) :
    (parseInt fx m p dl).hi ≤ B ∧ Dbg0 (parseInt fx m p dl) ∧
    ∀ v q' dl', (parseInt fx m p dl).res = .ok (v, q', dl') → q' + dl' = p + dl ∧ p + 2 ≤ q' := by
  have hroom := H.room
  refine ⟨?_, ?_, ?_⟩
  · unfold parseInt
    apply T.bind_hi_le (H.tl p dl hp)
    rintro ⟨ty, al, q⟩ hr
    have hq := parseTL_ok hr
    simp only []
    split
    · simp [T.fail]
    · split
      · simp [T.fail]
      · rename_i h1 h2
        simp only [T.ok]
        cases fx
        · simp at hroom
          simp only [Bool.false_eq_true, false_and, not_false_eq_true, ↓reduceIte]
          split <;> omega
        · simp at hroom
          have := hq.2.2.1 rfl
          simp only [true_and]
          repeat' split
          all_goals omega
  · unfold parseInt
    apply Dbg0.bind (parseTL_dbg0 _ _ _ _)
    rintro ⟨ty, al, q⟩ _
    simp only []
    split
    · exact Dbg0.fail _ _
    · split
      · exact Dbg0.fail _ _
      · exact Dbg0.ok _ _
  · intro v q' dl' h
    unfold parseInt at h
    obtain ⟨⟨ty, al, q⟩, hr, h2⟩ := T.bind_ok h
    have hq := parseTL_ok hr
    simp only [] at h2
    split at h2
    · simp [T.fail] at h2
    · split at h2
      · simp [T.fail] at h2
      · simp only [T.ok, Res.ok.injEq, Prod.mk.injEq] at h2
        omega

theorem parseUnsigned_spec {fx : Bool} {m : Mem} {len B p dl : Nat} (H : HdrOK fx m len B) (hp : p + dl ≤ len) :
    (parseUnsigned fx m p dl).hi ≤ B ∧ Dbg0 (parseUnsigned fx m p dl) ∧
    ∀ v q' dl', (parseUnsigned fx m p dl).res = .ok (v, q', dl') → q' + dl' = p + dl ∧ p + 2 ≤ q' := by
  have hroom := H.room
  have s4 := sizeofInt_eq
  refine ⟨?_, ?_, ?_⟩
  · unfold parseUnsigned
    apply T.bind_hi_le (H.tl p dl hp)
    rintro ⟨ty, al, q⟩ hr
    have hq := parseTL_ok hr
    simp only []
    split
    · simp [T.fail]
    · split
      · simp only [T.fail]
        cases fx <;> simp at hroom <;> split <;> omega
      · rename_i h1 h2
        simp only [T.ok]
        cases fx
        · simp at hroom
          simp only [Bool.false_eq_true, false_and, not_false_eq_true, ↓reduceIte]
          split <;> omega
        · simp at hroom
          have := hq.2.2.1 rfl
          simp only [true_and]
          repeat' split
          all_goals omega
  · unfold parseUnsigned
    apply Dbg0.bind (parseTL_dbg0 _ _ _ _)
    rintro ⟨ty, al, q⟩ _
    simp only []
    split
    · exact Dbg0.fail _ _
    · split
      · exact Dbg0.fail _ _
      · exact Dbg0.ok _ _
  · intro v q' dl' h
    unfold parseUnsigned at h
    obtain ⟨⟨ty, al, q⟩, hr, h2⟩ := T.bind_ok h
    have hq := parseTL_ok hr
    simp only [] at h2
    split at h2
    · simp [T.fail] at h2
    · split at h2
      · simp [T.fail] at h2
      · simp only [T.ok, Res.ok.injEq, Prod.mk.injEq] at h2
        omega

theorem parseString_spec {fx : Bool} {m : Mem} {len B p dl cap : Nat} (H : HdrOK fx m len B) (hp : p + dl ≤ len) :
    (parseString fx m p dl cap).hi ≤ B ∧ Dbg0 (parseString fx m p dl cap) ∧
    ∀ b q' dl', (parseString fx m p dl cap).res = .ok (b, q', dl') → q' + dl' = p + dl ∧ p + 2 ≤ q' ∧ b.length ≤ cap := by
  have hroom := H.room
  refine ⟨?_, ?_, ?_⟩
  · unfold parseString
    apply T.bind_hi_le (H.tl p dl hp)
    rintro ⟨ty, al, q⟩ hr
    have hq := parseTL_ok hr
    simp only []
    split
    · simp [T.fail]
    · split
      · simp [T.fail]
      · simp only [T.ok]
        cases fx <;> simp at hroom <;> split <;> omega
  · unfold parseString
    apply Dbg0.bind (parseTL_dbg0 _ _ _ _)
    rintro ⟨ty, al, q⟩ _
    simp only []
    split
    · exact Dbg0.fail _ _
    · split
      · exact Dbg0.fail _ _
      · exact Dbg0.ok _ _
  · intro b q' dl' h
    unfold parseString at h
    obtain ⟨⟨ty, al, q⟩, hr, h2⟩ := T.bind_ok h
    have hq := parseTL_ok hr
    simp only [] at h2
    split at h2
    · simp [T.fail] at h2
    · split at h2
      · simp [T.fail] at h2
      · simp only [T.ok, Res.ok.injEq, Prod.mk.injEq] at h2
        obtain ⟨hb, h3, h4⟩ := h2
        subst hb
        rw [slice_length]
        omega

/-! ### object identifiers -/

theorem subId_ok {m : Mem} : ∀ {fuel pos acc v pos' : Nat}, subId m fuel pos acc = some (v, pos') → pos < pos' ∧ pos' ≤ pos + fuel
  | 0, _, _, _, _, h => by simp [subId] at h
  | l + 1, pos, acc, v, pos', h => by
    unfold subId at h
    simp only [] at h
    split at h
    · have := subId_ok h
      omega
    · simp only [Option.some.injEq, Prod.mk.injEq] at h
      omega

theorem oidLoop_ok {m : Mem} : ∀ {f pos length cap : Nat} {acc subs : List Nat} {pos' : Nat},
    oidLoop m f pos length cap acc = some (subs, pos') →
    pos ≤ pos' ∧ pos' ≤ pos + length ∧ subs.length ≤ acc.length + cap ∧ acc.length ≤ subs.length
  | 0, pos, length, cap, acc, subs, pos', h => by
    simp only [oidLoop, Option.some.injEq, Prod.mk.injEq] at h
    obtain ⟨h1, h2⟩ := h
    subst h1 h2
    simp
  | f + 1, pos, length, cap, acc, subs, pos', h => by
    unfold oidLoop at h
    split at h
    · simp only [Option.some.injEq, Prod.mk.injEq] at h
      obtain ⟨h1, h2⟩ := h
      subst h1 h2
      simp
    · split at h
      · simp only [Option.some.injEq, Prod.mk.injEq] at h
        obtain ⟨h1, h2⟩ := h
        subst h1 h2
        simp
      · split at h
        · simp at h
        · rename_i hl hc v p1 hs
          have h1 := subId_ok hs
          have h2 := oidLoop_ok h
          simp only [List.length_cons] at h2
          omega

theorem splitFirst_length (subs : List Nat) : (splitFirst subs).length = max 1 (subs.length + 1) := by
  unfold splitFirst
  split
  · simp
  · split <;> simp <;> omega

theorem parseObjid_spec {fx : Bool} {m : Mem} {len B p dl cap : Nat} (H : HdrOK fx m len B) (hp : p + dl ≤ len) (hcap : 2 ≤ cap) :
    (parseObjid fx m p dl cap).hi ≤ B ∧ Dbg0 (parseObjid fx m p dl cap) ∧
    ∀ o q' dl', (parseObjid fx m p dl cap).res = .ok (o, q', dl') →
      q' + dl' ≤ p + dl ∧ p + 2 ≤ q' ∧ 1 ≤ o.length ∧ o.length ≤ cap := by
  have hroom := H.room
  refine ⟨?_, ?_, ?_⟩
  · unfold parseObjid
    apply T.bind_hi_le (H.tl p dl hp)
    rintro ⟨ty, al, q⟩ hr
    have hq := parseTL_ok hr
    simp only []
    split
    · simp [T.fail]
    · rename_i h1
      split
      · simp only [T.fail]
        cases fx <;> simp at hroom <;> omega
      · rename_i subs pos hl
        have := oidLoop_ok hl
        simp only [T.ok]
        cases fx <;> simp at hroom <;> split <;> omega
  · unfold parseObjid
    apply Dbg0.bind (parseTL_dbg0 _ _ _ _)
    rintro ⟨ty, al, q⟩ _
    simp only []
    split
    · exact Dbg0.fail _ _
    · split
      · exact Dbg0.fail _ _
      · exact Dbg0.ok _ _
  · intro o q' dl' h
    unfold parseObjid at h
    obtain ⟨⟨ty, al, q⟩, hr, h2⟩ := T.bind_ok h
    have hq := parseTL_ok hr
    simp only [] at h2
    split at h2
    · simp [T.fail] at h2
    · split at h2
      · simp [T.fail] at h2
      · rename_i h1 subs pos hl
        have hol := oidLoop_ok hl
        simp only [T.ok, Res.ok.injEq, Prod.mk.injEq] at h2
        obtain ⟨ho, h3, h4⟩ := h2
        subst ho
        rw [splitFirst_length]
        simp only [List.length_nil] at hol
        omega

end SquidModel.Udp
