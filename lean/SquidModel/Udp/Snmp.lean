/-
C39 — SNMP message framing: `snmp_parse` / `snmp_msg_Decode` (lib/snmplib/snmp_api.c, snmp_msg.c), `snmp_pdu_decode`
(snmp_pdu.c), `snmp_var_DecodeVarBind` (snmp_vars.c), `snmp_coexist_V2toV1` (coexistance.c), i.e. everything
`snmpDecodePacket` (src/snmp_core.cc) runs on a received datagram before the ACL check.
-/
import SquidModel.Udp.Asn1

namespace SquidModel.Udp
open Gen.UdpLimits

/-- value of a decoded variable binding -/
inductive Val where
  | int (v : Int)          -- ASN_INTEGER
  | uint (v : Nat)         -- SMI_COUNTER32, SMI_GAUGE32, SMI_TIMETICKS
  | str (b : Bytes)        -- ASN_OCTET_STR, SMI_IPADDRESS, SMI_OPAQUE
  | oid (o : List Nat)     -- ASN_OBJECT_ID
  | none                   -- ASN_NULL and the SNMPv2 exception markers
  deriving Repr

structure VarBind where
  name : List Nat
  type : Nat
  val : Val
  deriving Repr

structure Pdu where
  command : Nat
  reqid : Int
  errstat : Int
  errindex : Int
  nonRepeaters : Int
  maxRepetitions : Int
  vars : List VarBind
  deriving Repr

structure Msg where
  version : Int
  community : Bytes
  pdu : Pdu
  deriving Repr

def typeSequence : Nat := 0x30
def pduGetBulk : Nat := 0xa5
def pduGet : Nat := 0xa0
def pduGetNext : Nat := 0xa1

/-- three INTEGERs in a row (`asn_parse_int` x 3): the values, the offset behind them, the remaining length -/
def int3 (fx : Bool) (m : Mem) (q cl : Nat) : T (Int × Int × Int × Nat × Nat) :=
  (parseInt fx m q cl).bind fun (a, q1, l1) =>
  (parseInt fx m q1 l1).bind fun (b, q2, l2) =>
  (parseInt fx m q2 l2).bind fun (c, q3, l3) =>
    T.ok (a, b, c, q3, l3) 0

/-- `snmp_pdu_decode`: `(pdu without variables, offset of the variable bindings, remaining length)`.
`asn_parse_header` replaces `*Length` by the length of the PDU contents.  Both branches of the `switch (PDUType)` read three
INTEGERs: request-id, non-repeaters, max-repetitions for GETBULK, request-id, error-status, error-index otherwise
(the trap branch is compiled out: `TRP_REQ_MSG` is not defined). -/
def pduDecode (fx : Bool) (m : Mem) (p dl : Nat) : T (Pdu × Nat × Nat) :=
  (parseHeader fx m p dl).bind fun (ty, q, cl) =>
    (int3 fx m q cl).bind fun (a, b, c, q3, l3) =>
      if ty = pduGetBulk then T.ok (⟨ty, a, -1, -1, b, c, []⟩, q3, l3) 0
      else T.ok (⟨ty, a, b, c, 0, 0, []⟩, q3, l3) 0

/-- the value part of one variable binding: `dp`/`dlen` = DataPtr/DataLen (offset behind the name, octets left in this
binding).  Success: `(type, value, offset to go on from)`. -/
def varValue (fx : Bool) (m : Mem) (dp dlen : Nat) : T (Nat × Val × Nat) :=
  (parseHeader fx m dp dlen).bind fun (ty, q, _) =>
    if ty = 2 then
      (parseInt fx m dp dlen).bind fun (v, q', _) => T.ok (ty, .int v, q') 0
    else if ty = 0x41 ∨ ty = 0x42 ∨ ty = 0x43 then
      (parseUnsigned fx m dp dlen).bind fun (v, q', _) => T.ok (ty, .uint v, q') 0
    else if ty = 4 ∨ ty = 0x40 ∨ ty = 0x44 then
      (parseString fx m dp dlen dlen).bind fun (b, q', _) => T.ok (ty, .str b, q') 0
    else if ty = 6 then
      (parseObjid fx m dp dlen maxNameLen).bind fun (o, q', _) => T.ok (ty, .oid o, q') 0
    else if ty = 5 ∨ ty = 0x80 ∨ ty = 0x81 ∨ ty = 0x82 then
      T.ok (ty, .none, q) 0          -- `break`: bufp stays at the start of the contents
    else if ty = 0x46 then ⟨.fail errUnsupported 6, 0⟩   -- SMI_COUNTER64
    else ⟨.fail errPduParse 7, 0⟩                         -- "bad type returned"

/-- the `while ((int) AllVarLen > 0)` loop of `snmp_var_DecodeVarBind`; `fuel` bounds the iterations (each one takes
at least two octets off `AllVarLen`); running out of fuel is reported as `fail 0 98` and proved impossible. -/
def varLoop (fx : Bool) (m : Mem) : Nat → Nat → Nat → List VarBind → T (List VarBind × Nat)
  | 0, p, all, acc => if all = 0 then T.ok (acc.reverse, p) 0 else ⟨.fail 0 98, 0⟩
  | f + 1, p, all, acc =>
    if all = 0 then T.ok (acc.reverse, p) 0 else
    (parseHeader fx m p all).bind fun (ty, q, this) =>
      let all' := all - (this + (q - p))
      if ty ≠ typeSequence then T.fail errPduParse 0 else
      (parseObjid fx m q this maxNameLen).bind fun (name, q1, this1) =>
        if rd m q ≠ 6 then T.fail errPduParse 0 else
        (varValue fx m q1 this1).bind fun (vt, v, q2) =>
          varLoop fx m f q2 all' (⟨name, vt, v⟩ :: acc)

/-- `snmp_var_DecodeVarBind(Buffer, BufLen, ...)` -/
def varBinds (fx : Bool) (m : Mem) (p dl : Nat) : T (List VarBind × Nat) :=
  (parseHeader fx m p dl).bind fun (ty, q, all) =>
    if ty ≠ typeSequence then T.fail errPduParse 0 else
    varLoop fx m all q all []

/-- keeps the class of an earlier debug message for a later failure that prints nothing -/
def withDbg {α} (pending : Nat) (x : T α) : T α :=
  match x.res with
  | .fail e 0 => ⟨.fail e pending, x.hi⟩
  | _ => x

/-- `snmp_msg_Decode` as called by `snmp_parse` (Community buffer of `communityBuf` octets) -/
def msgDecode (fx : Bool) (m : Mem) (len : Nat) : T Msg :=
  (withDbg 1 (parseHeader fx m 0 len)).bind fun (ty, q, cl) =>
    if ty ≠ typeSequence then ⟨.fail 0 1, 0⟩ else
    (withDbg 2 (parseInt fx m q cl)).bind fun (ver, q1, l1) =>
    (withDbg 3 (parseString fx m q1 l1 communityBuf)).bind fun (comm, q2, l2) =>
      if comm.length = communityBuf then ⟨.fail 0 4, 0⟩
      else if comm.contains 0 then ⟨.fail 0 5, 0⟩
      else
        let pending := if ver ≠ 0 ∧ ver ≠ 1 then 8 else 0
        withDbg pending <| (pduDecode fx m q2 l2).bind fun (pdu, q3, l3) =>
          (varBinds fx m q3 l3).bind fun (vars, _) =>
            T.ok ⟨ver, comm, { pdu with vars := vars }⟩ 0

/-- `snmp_coexist_V2toV1`: 1 and the command the agent will answer, or 0 -/
def coexist (pdu : Pdu) : Nat × Nat :=
  if pdu.command = pduGet ∨ pdu.command = pduGetNext then (1, pdu.command)
  else if pdu.command = pduGetBulk then (1, pduGetNext)
  else (0, pdu.command)

/-- the memory `snmpHandleUdp` hands to the decoder: its zeroed `snmpRequestSize`-octet buffer holding the datagram
(cut to one octet less than the buffer, as `recvfrom` does), followed by `tail` = whatever lies behind the buffer -/
def snmpMem (dg tail : Bytes) : Mem × Nat :=
  let d := dg.take (snmpRequestSize - 1)
  (d ++ List.replicate (snmpRequestSize - d.length) 0 ++ tail, d.length)

end SquidModel.Udp
