/-
C39 — message-level facts about `SquidModel.Udp.Snmp`: generic in the bound `B` that `HdrOK` provides for the
identifier/length octets, so that the three variants (arbitrary memory / zeroed slack / fixed tree) are instances.
-/
import SquidModel.Udp.Snmp
import SquidModel.Udp.Asn1Lemmas

namespace SquidModel.Udp
open Gen.UdpLimits

/-- the debug class of every failure satisfies `P` -/
def DbgP {α} (P : Nat → Prop) (x : T α) : Prop := ∀ e d, x.res = .fail e d → P d

theorem DbgP.of0 {α} {P : Nat → Prop} {x : T α} (h : Dbg0 x) (h0 : P 0) : DbgP P x := by
  intro e d hh; rw [h e d hh]; exact h0

theorem DbgP.bind {α β} {P : Nat → Prop} {x : T α} {f : α → T β} (hx : DbgP P x) (hf : ∀ a, x.res = .ok a → DbgP P (f a)) :
    DbgP P (x.bind f) := by
  intro e d h
  rcases T.bind_fail h with h1 | ⟨a, ha, h2⟩
  · exact hx e d h1
  · exact hf a ha e d h2

theorem DbgP.mk {α} {P : Nat → Prop} (e : Int) (d h : Nat) (hd : P d) : DbgP P (⟨.fail e d, h⟩ : T α) := by
  intro e' d' hh
  simp only [Res.fail.injEq] at hh
  rw [← hh.2]; exact hd

theorem DbgP.okk {α} {P : Nat → Prop} (a : α) (h : Nat) : DbgP P (T.ok a h) := by
  intro e' d hh; simp [T.ok] at hh

/-! ### snmp_pdu_decode -/

theorem int3_spec {fx : Bool} {m : Mem} {len B q cl : Nat} (H : HdrOK fx m len B) (hp : q + cl ≤ len) :
    (int3 fx m q cl).hi ≤ B ∧ Dbg0 (int3 fx m q cl) ∧
    ∀ a b c q3 l3, (int3 fx m q cl).res = .ok (a, b, c, q3, l3) → q3 + l3 = q + cl := by
  have s1 := parseInt_spec (p := q) (dl := cl) H hp
  refine ⟨?_, ?_, ?_⟩
  · unfold int3
    apply T.bind_hi_le s1.1
    rintro ⟨a, q1, l1⟩ h1
    have e1 := s1.2.2 a q1 l1 h1
    have s2 := parseInt_spec (p := q1) (dl := l1) H (by omega)
    apply T.bind_hi_le s2.1
    rintro ⟨b, q2, l2⟩ h2
    have e2 := s2.2.2 b q2 l2 h2
    have s3 := parseInt_spec (p := q2) (dl := l2) H (by omega)
    apply T.bind_hi_le s3.1
    rintro ⟨c, q3, l3⟩ h3
    simp [T.ok]
  · unfold int3
    apply Dbg0.bind s1.2.1
    rintro ⟨a, q1, l1⟩ h1
    have e1 := s1.2.2 a q1 l1 h1
    have s2 := parseInt_spec (p := q1) (dl := l1) H (by omega)
    apply Dbg0.bind s2.2.1
    rintro ⟨b, q2, l2⟩ h2
    have e2 := s2.2.2 b q2 l2 h2
    have s3 := parseInt_spec (p := q2) (dl := l2) H (by omega)
    apply Dbg0.bind s3.2.1
    rintro ⟨c, q3, l3⟩ h3
    exact Dbg0.ok _ _
  · intro a b c q3 l3 hr
    unfold int3 at hr
    obtain ⟨⟨a', q1, l1⟩, h1, hr⟩ := T.bind_ok hr
    have e1 := s1.2.2 a' q1 l1 h1
    have s2 := parseInt_spec (p := q1) (dl := l1) H (by omega)
    obtain ⟨⟨b', q2, l2⟩, h2, hr⟩ := T.bind_ok hr
    have e2 := s2.2.2 b' q2 l2 h2
    have s3 := parseInt_spec (p := q2) (dl := l2) H (by omega)
    obtain ⟨⟨c', q3', l3'⟩, h3, hr⟩ := T.bind_ok hr
    have e3 := s3.2.2 c' q3' l3' h3
    simp only [T.ok, Res.ok.injEq, Prod.mk.injEq] at hr
    omega

theorem pduDecode_spec {fx : Bool} {m : Mem} {len B p dl : Nat} (H : HdrOK fx m len B) (hp : p + dl ≤ len) :
    (pduDecode fx m p dl).hi ≤ B ∧ Dbg0 (pduDecode fx m p dl) ∧
    ∀ pdu q' dl', (pduDecode fx m p dl).res = .ok (pdu, q', dl') → q' + dl' ≤ p + dl ∧ pdu.vars = [] := by
  refine ⟨?_, ?_, ?_⟩
  · unfold pduDecode
    apply T.bind_hi_le (H.hdr p dl hp)
    rintro ⟨ty, q, cl⟩ hh
    have e := parseHeader_ok hh
    apply T.bind_hi_le (int3_spec H (by omega)).1
    rintro ⟨a, b, c, q3, l3⟩ _
    simp only []
    split <;> simp [T.ok]
  · unfold pduDecode
    apply Dbg0.bind (parseHeader_dbg0 _ _ _ _)
    rintro ⟨ty, q, cl⟩ hh
    have e := parseHeader_ok hh
    apply Dbg0.bind (int3_spec H (by omega)).2.1
    rintro ⟨a, b, c, q3, l3⟩ _
    simp only []
    split <;> exact Dbg0.ok _ _
  · intro pdu q' dl' h
    unfold pduDecode at h
    obtain ⟨⟨ty, q, cl⟩, hh, h⟩ := T.bind_ok h
    have e := parseHeader_ok hh
    obtain ⟨⟨a, b, c, q3, l3⟩, h3, h⟩ := T.bind_ok h
    have e3 := (int3_spec H (q := q) (cl := cl) (by omega)).2.2 _ _ _ _ _ h3
    simp only [] at h
    split at h <;>
    · simp only [T.ok, Res.ok.injEq, Prod.mk.injEq] at h
      obtain ⟨h1, h2, h3⟩ := h
      subst h1 h2 h3
      exact ⟨by omega, rfl⟩

/-! ### variable bindings -/

/-- what a decoded binding is guaranteed to fit into: `Var->name` (MAX_NAME_LEN sub-identifiers), `TmpBuf` for OID values -/
def VarOK (v : VarBind) : Prop :=
  1 ≤ v.name.length ∧ v.name.length ≤ maxNameLen ∧ ∀ o, v.val = .oid o → o.length ≤ maxNameLen

def P067 (d : Nat) : Prop := d = 0 ∨ d = 6 ∨ d = 7

theorem maxNameLen_ge : 2 ≤ maxNameLen := by decide
theorem p0 : P067 0 := Or.inl rfl

theorem varValue_spec {fx : Bool} {m : Mem} {len B dp dlen : Nat} (H : HdrOK fx m len B) (hp : dp + dlen ≤ len) :
    (varValue fx m dp dlen).hi ≤ B ∧ DbgP P067 (varValue fx m dp dlen) ∧
    ∀ ty v q', (varValue fx m dp dlen).res = .ok (ty, v, q') →
      q' ≤ dp + dlen ∧ dp + 2 ≤ q' ∧ (∀ o, v = .oid o → o.length ≤ maxNameLen) ∧ (∀ b, v = .str b → b.length ≤ dlen) := by
  have sI := parseInt_spec (p := dp) (dl := dlen) H hp
  have sU := parseUnsigned_spec (p := dp) (dl := dlen) H hp
  have sS := parseString_spec (p := dp) (dl := dlen) (cap := dlen) H hp
  have sO := parseObjid_spec (p := dp) (dl := dlen) (cap := maxNameLen) H hp maxNameLen_ge
  refine ⟨?_, ?_, ?_⟩
  · unfold varValue
    apply T.bind_hi_le (H.hdr dp dlen hp)
    rintro ⟨ty, q, al⟩ hh
    simp only []
    split
    · apply T.bind_hi_le sI.1; rintro ⟨v, q', l'⟩ _; simp [T.ok]
    · split
      · apply T.bind_hi_le sU.1; rintro ⟨v, q', l'⟩ _; simp [T.ok]
      · split
        · apply T.bind_hi_le sS.1; rintro ⟨v, q', l'⟩ _; simp [T.ok]
        · split
          · apply T.bind_hi_le sO.1; rintro ⟨v, q', l'⟩ _; simp [T.ok]
          · split
            · simp [T.ok]
            · split <;> simp
  · unfold varValue
    apply DbgP.bind (DbgP.of0 (P := P067) (parseHeader_dbg0 _ _ _ _) p0)
    rintro ⟨ty, q, al⟩ hh
    simp only []
    split
    · apply DbgP.bind (DbgP.of0 (P := P067) sI.2.1 p0); rintro ⟨v, q', l'⟩ _; exact DbgP.okk _ _
    · split
      · apply DbgP.bind (DbgP.of0 (P := P067) sU.2.1 p0); rintro ⟨v, q', l'⟩ _; exact DbgP.okk _ _
      · split
        · apply DbgP.bind (DbgP.of0 (P := P067) sS.2.1 p0); rintro ⟨v, q', l'⟩ _; exact DbgP.okk _ _
        · split
          · apply DbgP.bind (DbgP.of0 (P := P067) sO.2.1 p0); rintro ⟨v, q', l'⟩ _; exact DbgP.okk _ _
          · split
            · exact DbgP.okk _ _
            · split
              · exact DbgP.mk _ _ _ (Or.inr (Or.inl rfl))
              · exact DbgP.mk _ _ _ (Or.inr (Or.inr rfl))
  · intro ty v q' h
    unfold varValue at h
    obtain ⟨⟨ty', q, al⟩, hh, h⟩ := T.bind_ok h
    have e := parseHeader_ok hh
    simp only [] at h
    split at h
    · obtain ⟨⟨v', q1, l1⟩, h1, h⟩ := T.bind_ok h
      have := sI.2.2 _ _ _ h1
      simp only [T.ok, Res.ok.injEq, Prod.mk.injEq] at h
      obtain ⟨_, hv, hq⟩ := h
      subst hv hq
      refine ⟨by omega, by omega, ?_, ?_⟩ <;> intro _ hc <;> cases hc
    · split at h
      · obtain ⟨⟨v', q1, l1⟩, h1, h⟩ := T.bind_ok h
        have := sU.2.2 _ _ _ h1
        simp only [T.ok, Res.ok.injEq, Prod.mk.injEq] at h
        obtain ⟨_, hv, hq⟩ := h
        subst hv hq
        refine ⟨by omega, by omega, ?_, ?_⟩ <;> intro _ hc <;> cases hc
      · split at h
        · obtain ⟨⟨v', q1, l1⟩, h1, h⟩ := T.bind_ok h
          have := sS.2.2 _ _ _ h1
          simp only [T.ok, Res.ok.injEq, Prod.mk.injEq] at h
          obtain ⟨_, hv, hq⟩ := h
          subst hv hq
          refine ⟨by omega, by omega, ?_, ?_⟩
          · intro _ hc; cases hc
          · intro b hc
            simp only [Val.str.injEq] at hc
            subst hc
            exact this.2.2
        · split at h
          · obtain ⟨⟨v', q1, l1⟩, h1, h⟩ := T.bind_ok h
            have := sO.2.2 _ _ _ h1
            simp only [T.ok, Res.ok.injEq, Prod.mk.injEq] at h
            obtain ⟨_, hv, hq⟩ := h
            subst hv hq
            refine ⟨by omega, by omega, ?_, ?_⟩
            · intro o hc
              simp only [Val.oid.injEq] at hc
              subst hc
              exact this.2.2.2
            · intro _ hc; cases hc
          · split at h
            · simp only [T.ok, Res.ok.injEq, Prod.mk.injEq] at h
              obtain ⟨_, hv, hq⟩ := h
              subst hv hq
              refine ⟨by omega, by omega, ?_, ?_⟩ <;> intro _ hc <;> cases hc
            · split at h <;> simp at h

theorem varLoop_spec {fx : Bool} {m : Mem} {len B : Nat} (H : HdrOK fx m len B) :
    ∀ (f p all : Nat) (acc : List VarBind), p + all ≤ len → all ≤ f → (∀ v ∈ acc, VarOK v) →
      (varLoop fx m f p all acc).hi ≤ B ∧ DbgP P067 (varLoop fx m f p all acc) ∧
      ∀ vars q, (varLoop fx m f p all acc).res = .ok (vars, q) → ∀ v ∈ vars, VarOK v
  | 0, p, all, acc, hp, hf, hacc => by
    have : all = 0 := by omega
    subst this
    simp only [varLoop, ↓reduceIte]
    refine ⟨by simp [T.ok], DbgP.okk _ _, ?_⟩
    intro vars q h
    simp only [T.ok, Res.ok.injEq, Prod.mk.injEq] at h
    intro v hv
    rw [← h.1] at hv
    exact hacc v (List.mem_reverse.mp hv)
  | f + 1, p, all, acc, hp, hf, hacc => by
    unfold varLoop
    split
    · refine ⟨by simp [T.ok], DbgP.okk _ _, ?_⟩
      intro vars q h
      simp only [T.ok, Res.ok.injEq, Prod.mk.injEq] at h
      intro v hv
      rw [← h.1] at hv
      exact hacc v (List.mem_reverse.mp hv)
    · -- one binding
      have key : ∀ ty q this, (parseHeader fx m p all).res = .ok (ty, q, this) →
          ∀ name q1 this1, (parseObjid fx m q this maxNameLen).res = .ok (name, q1, this1) →
          ∀ vt v q2, (varValue fx m q1 this1).res = .ok (vt, v, q2) →
            q2 + (all - (this + (q - p))) ≤ len ∧ all - (this + (q - p)) ≤ f ∧ VarOK ⟨name, vt, v⟩ := by
        intro ty q this hh name q1 this1 ho vt v q2 hv
        have e := parseHeader_ok hh
        have eo := (parseObjid_spec (p := q) (dl := this) (cap := maxNameLen) H (by omega) maxNameLen_ge).2.2 _ _ _ ho
        have ev := (varValue_spec (dp := q1) (dlen := this1) H (by omega)).2.2 _ _ _ hv
        exact ⟨by omega, by omega, eo.2.2.1, eo.2.2.2, ev.2.2.1⟩
      refine ⟨?_, ?_, ?_⟩
      · apply T.bind_hi_le (H.hdr p all hp)
        rintro ⟨ty, q, this⟩ hh
        have e := parseHeader_ok hh
        simp only []
        split
        · simp [T.fail]
        · have so := parseObjid_spec (p := q) (dl := this) (cap := maxNameLen) H (by omega) maxNameLen_ge
          apply T.bind_hi_le so.1
          rintro ⟨name, q1, this1⟩ ho
          have eo := so.2.2 _ _ _ ho
          simp only []
          split
          · simp [T.fail]
          · have sv := varValue_spec (dp := q1) (dlen := this1) H (by omega)
            apply T.bind_hi_le sv.1
            rintro ⟨vt, v, q2⟩ hv
            have k := key ty q this hh name q1 this1 ho vt v q2 hv
            refine (varLoop_spec H f q2 _ _ k.1 k.2.1 ?_).1
            intro w hw
            rcases List.mem_cons.mp hw with rfl | hw
            · exact k.2.2
            · exact hacc w hw
      · apply DbgP.bind (DbgP.of0 (P := P067) (parseHeader_dbg0 _ _ _ _) p0)
        rintro ⟨ty, q, this⟩ hh
        have e := parseHeader_ok hh
        simp only []
        split
        · exact DbgP.of0 (P := P067) (Dbg0.fail _ _) p0
        · have so := parseObjid_spec (p := q) (dl := this) (cap := maxNameLen) H (by omega) maxNameLen_ge
          apply DbgP.bind (DbgP.of0 (P := P067) so.2.1 p0)
          rintro ⟨name, q1, this1⟩ ho
          have eo := so.2.2 _ _ _ ho
          simp only []
          split
          · exact DbgP.of0 (P := P067) (Dbg0.fail _ _) p0
          · have sv := varValue_spec (dp := q1) (dlen := this1) H (by omega)
            apply DbgP.bind sv.2.1
            rintro ⟨vt, v, q2⟩ hv
            have k := key ty q this hh name q1 this1 ho vt v q2 hv
            refine (varLoop_spec H f q2 _ _ k.1 k.2.1 ?_).2.1
            intro w hw
            rcases List.mem_cons.mp hw with rfl | hw
            · exact k.2.2
            · exact hacc w hw
      · intro vars qq h
        obtain ⟨⟨ty, q, this⟩, hh, h⟩ := T.bind_ok h
        simp only [] at h
        split at h
        · simp [T.fail] at h
        · obtain ⟨⟨name, q1, this1⟩, ho, h⟩ := T.bind_ok h
          simp only [] at h
          split at h
          · simp [T.fail] at h
          · obtain ⟨⟨vt, v, q2⟩, hv, h⟩ := T.bind_ok h
            have k := key ty q this hh name q1 this1 ho vt v q2 hv
            refine (varLoop_spec H f q2 _ _ k.1 k.2.1 ?_).2.2 vars qq h
            intro w hw
            rcases List.mem_cons.mp hw with rfl | hw
            · exact k.2.2
            · exact hacc w hw

theorem varBinds_spec {fx : Bool} {m : Mem} {len B p dl : Nat} (H : HdrOK fx m len B) (hp : p + dl ≤ len) :
    (varBinds fx m p dl).hi ≤ B ∧ DbgP P067 (varBinds fx m p dl) ∧
    ∀ vars q, (varBinds fx m p dl).res = .ok (vars, q) → ∀ v ∈ vars, VarOK v := by
  refine ⟨?_, ?_, ?_⟩
  · unfold varBinds
    apply T.bind_hi_le (H.hdr p dl hp)
    rintro ⟨ty, q, all⟩ hh
    have e := parseHeader_ok hh
    simp only []
    split
    · simp [T.fail]
    · exact (varLoop_spec H all q all [] (by omega) (Nat.le_refl _) (by simp)).1
  · unfold varBinds
    apply DbgP.bind (DbgP.of0 (P := P067) (parseHeader_dbg0 _ _ _ _) p0)
    rintro ⟨ty, q, all⟩ hh
    have e := parseHeader_ok hh
    simp only []
    split
    · exact DbgP.of0 (P := P067) (Dbg0.fail _ _) p0
    · exact (varLoop_spec H all q all [] (by omega) (Nat.le_refl _) (by simp)).2.1
  · intro vars qq h
    unfold varBinds at h
    obtain ⟨⟨ty, q, all⟩, hh, h⟩ := T.bind_ok h
    have e := parseHeader_ok hh
    simp only [] at h
    split at h
    · simp [T.fail] at h
    · exact (varLoop_spec H all q all [] (by omega) (Nat.le_refl _) (by simp)).2.2 vars qq h

/-! ### snmp_msg_Decode -/

theorem withDbg_hi {α} (d : Nat) (x : T α) : (withDbg d x).hi = x.hi := by
  unfold withDbg
  split <;> rfl

theorem withDbg_ok {α} {d : Nat} {x : T α} {a : α} (h : (withDbg d x).res = .ok a) : x.res = .ok a := by
  unfold withDbg at h
  split at h
  · simp at h
  · exact h

theorem withDbg_fail {α} {d : Nat} {x : T α} {e : Int} {d' : Nat} (h : (withDbg d x).res = .fail e d') :
    (x.res = .fail e 0 ∧ d' = d) ∨ x.res = .fail e d' := by
  unfold withDbg at h
  split at h
  · rename_i e0 hx
    simp only [Res.fail.injEq] at h
    left
    rw [hx, h.1]
    exact ⟨rfl, h.2.symm⟩
  · right; exact h

/-- what a decoded message is guaranteed to fit into -/
def MsgOK (msg : Msg) : Prop := msg.community.length < communityBuf ∧ ∀ v ∈ msg.pdu.vars, VarOK v

/-- classes of `snmplib_debug` messages a failed decode can end with; in particular never the model's "out of fuel" (98) -/
def PMsg (d : Nat) : Prop := d ≤ 8

theorem msgDecode_spec {fx : Bool} {m : Mem} {len B : Nat} (H : HdrOK fx m len B) :
    (msgDecode fx m len).hi ≤ B ∧ DbgP PMsg (msgDecode fx m len) ∧ ∀ msg, (msgDecode fx m len).res = .ok msg → MsgOK msg := by
  have p067 : ∀ d, P067 d → PMsg d := by
    intro d h; unfold PMsg; rcases h with h | h | h <;> omega
  have wd : ∀ {α} (k : Nat) (x : T α), k ≤ 8 → DbgP P067 x → DbgP PMsg (withDbg k x) := by
    intro α k x hk hx e d h
    rcases withDbg_fail h with ⟨_, h2⟩ | h2
    · unfold PMsg; omega
    · exact p067 d (hx e d h2)
  refine ⟨?_, ?_, ?_⟩
  · unfold msgDecode
    apply T.bind_hi_le (by rw [withDbg_hi]; exact H.hdr 0 len (by omega))
    rintro ⟨ty, q, cl⟩ hh
    have e := parseHeader_ok (withDbg_ok hh)
    simp only []
    split
    · simp
    · have sI := parseInt_spec (p := q) (dl := cl) H (by omega)
      apply T.bind_hi_le (by rw [withDbg_hi]; exact sI.1)
      rintro ⟨ver, q1, l1⟩ h1
      have e1 := sI.2.2 _ _ _ (withDbg_ok h1)
      have sS := parseString_spec (p := q1) (dl := l1) (cap := communityBuf) H (by omega)
      apply T.bind_hi_le (by rw [withDbg_hi]; exact sS.1)
      rintro ⟨comm, q2, l2⟩ h2
      have e2 := sS.2.2 _ _ _ (withDbg_ok h2)
      simp only []
      split
      · simp
      · split
        · simp
        · rw [withDbg_hi]
          have sP := pduDecode_spec (p := q2) (dl := l2) H (by omega)
          apply T.bind_hi_le sP.1
          rintro ⟨pdu, q3, l3⟩ h3
          have e3 := sP.2.2 _ _ _ h3
          have sV := varBinds_spec (p := q3) (dl := l3) H (by omega)
          apply T.bind_hi_le sV.1
          rintro ⟨vars, _⟩ _
          simp [T.ok]
  · unfold msgDecode
    apply DbgP.bind (wd 1 _ (by omega) (DbgP.of0 (P := P067) (parseHeader_dbg0 _ _ _ _) p0))
    rintro ⟨ty, q, cl⟩ hh
    have e := parseHeader_ok (withDbg_ok hh)
    simp only []
    split
    · exact DbgP.mk _ _ _ (by unfold PMsg; omega)
    · have sI := parseInt_spec (p := q) (dl := cl) H (by omega)
      apply DbgP.bind (wd 2 _ (by omega) (DbgP.of0 (P := P067) sI.2.1 p0))
      rintro ⟨ver, q1, l1⟩ h1
      have e1 := sI.2.2 _ _ _ (withDbg_ok h1)
      have sS := parseString_spec (p := q1) (dl := l1) (cap := communityBuf) H (by omega)
      apply DbgP.bind (wd 3 _ (by omega) (DbgP.of0 (P := P067) sS.2.1 p0))
      rintro ⟨comm, q2, l2⟩ h2
      have e2 := sS.2.2 _ _ _ (withDbg_ok h2)
      simp only []
      split
      · exact DbgP.mk _ _ _ (by unfold PMsg; omega)
      · split
        · exact DbgP.mk _ _ _ (by unfold PMsg; omega)
        · apply wd _ _ (by split <;> omega)
          have sP := pduDecode_spec (p := q2) (dl := l2) H (by omega)
          apply DbgP.bind (DbgP.of0 (P := P067) sP.2.1 p0)
          rintro ⟨pdu, q3, l3⟩ h3
          have e3 := sP.2.2 _ _ _ h3
          have sV := varBinds_spec (p := q3) (dl := l3) H (by omega)
          apply DbgP.bind sV.2.1
          rintro ⟨vars, _⟩ _
          exact DbgP.okk _ _
  · intro msg h
    unfold msgDecode at h
    obtain ⟨⟨ty, q, cl⟩, hh, h⟩ := T.bind_ok h
    have e := parseHeader_ok (withDbg_ok hh)
    simp only [] at h
    split at h
    · simp at h
    · have sI := parseInt_spec (p := q) (dl := cl) H (by omega)
      obtain ⟨⟨ver, q1, l1⟩, h1, h⟩ := T.bind_ok h
      have e1 := sI.2.2 _ _ _ (withDbg_ok h1)
      have sS := parseString_spec (p := q1) (dl := l1) (cap := communityBuf) H (by omega)
      obtain ⟨⟨comm, q2, l2⟩, h2, h⟩ := T.bind_ok h
      have e2 := sS.2.2 _ _ _ (withDbg_ok h2)
      simp only [] at h
      split at h
      · simp at h
      · rename_i hne
        split at h
        · simp at h
        · have h := withDbg_ok h
          have sP := pduDecode_spec (p := q2) (dl := l2) H (by omega)
          obtain ⟨⟨pdu, q3, l3⟩, h3, h⟩ := T.bind_ok h
          have e3 := sP.2.2 _ _ _ h3
          have sV := varBinds_spec (p := q3) (dl := l3) H (by omega)
          obtain ⟨⟨vars, qe⟩, h4, h⟩ := T.bind_ok h
          simp only [T.ok, Res.ok.injEq] at h
          subst h
          refine ⟨?_, ?_⟩
          · simp only []
            have := e2.2.2
            omega
          · exact sV.2.2 vars qe h4

end SquidModel.Udp

namespace SquidModel.Udp
open Gen.UdpLimits

/-! ### snmpHandleUdp's buffer -/

theorem snmpRequestSize_eq : snmpRequestSize = 4096 := by decide

theorem snmpMem_len (dg tail : Bytes) : (snmpMem dg tail).2 = min (snmpRequestSize - 1) dg.length := by
  simp [snmpMem, List.length_take]

/-- between the end of the datagram and the end of the buffer there are zeros (the memset) -/
theorem rd_snmpMem_slack (dg tail : Bytes) (i : Nat) (h1 : (snmpMem dg tail).2 ≤ i) (h2 : i < snmpRequestSize) :
    rd (snmpMem dg tail).1 i = 0 := by
  simp only [snmpMem] at h1 ⊢
  unfold rd
  have hl : (List.take (snmpRequestSize - 1) dg).length ≤ i := h1
  rw [List.getD_eq_getElem?_getD, List.append_assoc, List.getElem?_append_right hl]
  rw [List.getElem?_append_left (by simp only [List.length_replicate]; omega)]
  rw [List.getElem?_replicate]
  split <;> simp

end SquidModel.Udp
