/-
C29: Cache-Control representation (src/HttpHdrCc.h).

`CcType` = `enum HttpHdrCcType`, `Cc` = the data members of `class HttpHdrCc`
(`mask`, five `int32_t` values, `private_`, `no_cache`, `other`).
Core-only (no Mathlib) so that the driver links.
-/
import SquidModel.Base.Bytes

namespace SquidModel.Cc

/-- `enum HttpHdrCcType` (HttpHdrCc.h); the numeric value of each enumerator is regenerated into
`Gen.CcDirectives.enumOrder`. -/
inductive CcType
  | public_ | private_ | noCache | noStore | noTransform | mustRevalidate | proxyRevalidate
  | maxAge | sMaxage | maxStale | minFresh | onlyIfCached | staleIfError | immutable
  | other | enumEnd
  deriving DecidableEq, Repr, Inhabited

/-- the data members of `HttpHdrCc`; the defaults are those of the constructor (`*_UNKNOWN = -1`, regenerated as
`Gen.CcDirectives.UNKNOWN` and checked against this literal in `Cc/Parse.lean`) -/
structure Cc where
  mask : Nat := 0
  maxAge : Int := -1
  sMaxage : Int := -1
  maxStale : Int := -1
  staleIfError : Int := -1
  minFresh : Int := -1
  priv : Bytes := []
  noCache : Bytes := []
  other : Bytes := []
  deriving DecidableEq, Repr, Inhabited

/-! ### `EBIT_SET` / `EBIT_CLR` / `EBIT_TEST` (src/defines.h) on a non-negative mask -/

/-- `EBIT_SET(mask, i)`: `mask |= (1 << i)` -/
def ebitSet (m i : Nat) : Nat := m ||| (1 <<< i)
/-- `EBIT_CLR(mask, i)`: `mask &= ~(1 << i)` (on a Nat: remove the bit if present) -/
def ebitClr (m i : Nat) : Nat := m ^^^ (m &&& (1 <<< i))
/-- `EBIT_TEST(mask, i)`: `mask & (1 << i)` -/
def ebitTest (m i : Nat) : Bool := m.testBit i

theorem ebitTest_set (m i j : Nat) : ebitTest (ebitSet m i) j = (ebitTest m j || decide (i = j)) := by
  simp only [ebitTest, ebitSet, Nat.testBit_or, Nat.one_shiftLeft, Nat.testBit_two_pow]

theorem ebitTest_clr (m i j : Nat) : ebitTest (ebitClr m i) j = (ebitTest m j && !decide (i = j)) := by
  simp only [ebitTest, ebitClr, Nat.testBit_xor, Nat.testBit_and, Nat.one_shiftLeft, Nat.testBit_two_pow]
  cases m.testBit j <;> by_cases h : i = j <;> simp [h]

theorem ebitSet_ne_zero (m i : Nat) : ebitSet m i ≠ 0 := by
  intro h
  have := ebitTest_set m i i
  rw [h] at this
  simp [ebitTest] at this

end SquidModel.Cc
