/-
C29: `httpHeaderParseInt` (src/HttpHeaderTools.cc): `strtol` with an `int` range check + "zero that does not start with a
digit is a failure".

`strtol(s, &end, 10)` is modelled as glibc implements it: skip `isspace`, optional sign, decimal digits; no digits =
no conversion (`end == start`); a magnitude beyond `long` saturates and sets `ERANGE`.
The C pointer `start` is the suffix of the field value beginning at the pointer.
-/
import SquidModel.Cc.StrList

namespace SquidModel.Cc
open SquidModel

/-- value of a run of decimal digits, unbounded -/
def decVal (ds : Bytes) : Nat := ds.foldl (fun a d => a * 10 + (d.toNat - 48)) 0

def LONG_MAX : Int := 2 ^ (Gen.CcDirectives.LONG_BITS - 1) - 1
def LONG_MIN : Int := - 2 ^ (Gen.CcDirectives.LONG_BITS - 1)
def INT_MAX : Int := 2 ^ (Gen.CcDirectives.INT_BITS - 1) - 1

/-- the sign octet `strtol` accepts after the white space -/
def skipSign (s : Bytes) : Bytes :=
  match s with
  | c :: r => if c = 45 ∨ c = 43 then r else s
  | [] => []

def INT_MIN : Int := - 2 ^ (Gen.CcDirectives.INT_BITS - 1)

/-- glibc `strtol(s, &end, 10)`: (`end != start`, result, `errno == ERANGE`) -/
def strtolC (s : Bytes) : Bool × Int × Bool :=
  let s1 := s.dropWhile isSpaceC
  let neg := s1.head? = some 45
  let ds := (skipSign s1).takeWhile isDigitC
  if ds = [] then (false, 0, false)
  else
    let mag : Int := decVal ds
    if neg then (if -mag < LONG_MIN then (true, LONG_MIN, true) else (true, -mag, false))
    else (if mag > LONG_MAX then (true, LONG_MAX, true) else (true, mag, false))

/-- `xisdigit(*start)` (the terminating NUL is not a digit) -/
def headIsDigit (start : Bytes) : Bool :=
  match start with
  | c :: _ => isDigitC c
  | [] => false

/-- `httpHeaderParseInt(start, &value)`: (return value ≠ 0, what `*value` holds afterwards).
`*value = 0; res = strtol(start, &end, 10); if (end == start || errno == ERANGE || res < INT_MIN || res > INT_MAX) return 0;
*value = (int) res; if (!*value && !xisdigit(*start)) return 0; return 1;` -/
def parseInt (start : Bytes) : Bool × Int :=
  let r := strtolC start
  if r.1 = false ∨ r.2.2 = true ∨ r.2.1 < INT_MIN ∨ r.2.1 > INT_MAX then (false, 0)
  else if r.2.1 = 0 ∧ headIsDigit start = false then (false, r.2.1)
  else (true, r.2.1)

/-! ### `%d` -/

/-- decimal digits of `n`, least significant first; fuel ≥ number of digits -/
def digitsRev : Nat → Nat → Bytes
  | 0, _ => []
  | f + 1, n => if n < 10 then [UInt8.ofNat (48 + n)] else UInt8.ofNat (48 + n % 10) :: digitsRev f (n / 10)

def decimalNat (n : Nat) : Bytes := (digitsRev (n + 1) n).reverse

/-- `printf("%d", v)` -/
def decimal (v : Int) : Bytes :=
  if v < 0 then 45 :: decimalNat v.natAbs else decimalNat v.natAbs

end SquidModel.Cc
