/-
C29: `httpHeaderParseInt` (src/HttpHeaderTools.cc) = `atoi` + "zero that does not start with a digit is a failure".

`atoi(s)` is modelled as glibc implements it: `(int) strtol(s, NULL, 10)` — skip `isspace`, optional sign, decimal digits,
clamp to `LONG_MIN..LONG_MAX`, then the conversion to `int` keeps the low `INT_BITS` bits (two's complement).
The C pointer `start` is the suffix of the field value beginning at the pointer.
-/
import SquidModel.Cc.StrList

namespace SquidModel.Cc
open SquidModel

/-- value of a run of decimal digits, unbounded -/
def decVal (ds : Bytes) : Nat := ds.foldl (fun a d => a * 10 + (d.toNat - 48)) 0

def LONG_MAX : Int := 2 ^ (Gen.CcDirectives.LONG_BITS - 1) - 1
def LONG_MIN : Int := - 2 ^ (Gen.CcDirectives.LONG_BITS - 1)
def INT_MAX : Int := 2 ^ (Gen.CcDirectives.INT_BITS - 1) - 1

/-- the sign octet `strtol` accepts after the white space -/
def skipSign (s : Bytes) : Bytes :=
  match s with
  | c :: r => if c = 45 ∨ c = 43 then r else s
  | [] => []

/-- glibc `strtol(s, NULL, 10)` -/
def strtolC (s : Bytes) : Int :=
  let s1 := s.dropWhile isSpaceC
  let neg := s1.head? = some 45
  let ds := (skipSign s1).takeWhile isDigitC
  if ds = [] then 0
  else
    let mag : Int := decVal ds
    if neg then (if -mag < LONG_MIN then LONG_MIN else -mag)
    else (if mag > LONG_MAX then LONG_MAX else mag)

/-- conversion `long -> int` (implementation-defined: modulo 2^INT_BITS, gcc) -/
def toIntC (l : Int) : Int :=
  (l + 2 ^ (Gen.CcDirectives.INT_BITS - 1)) % 2 ^ Gen.CcDirectives.INT_BITS - 2 ^ (Gen.CcDirectives.INT_BITS - 1)

def atoiC (s : Bytes) : Int := toIntC (strtolC s)

/-- `xisdigit(*start)` (the terminating NUL is not a digit) -/
def headIsDigit (start : Bytes) : Bool :=
  match start with
  | c :: _ => isDigitC c
  | [] => false

/-- `httpHeaderParseInt(start, &value)`: (return value ≠ 0, what `*value` holds afterwards) -/
def parseInt (start : Bytes) : Bool × Int :=
  if atoiC start = 0 ∧ headIsDigit start = false then (false, atoiC start) else (true, atoiC start)

/-! ### `%d` -/

/-- decimal digits of `n`, least significant first; fuel ≥ number of digits -/
def digitsRev : Nat → Nat → Bytes
  | 0, _ => []
  | f + 1, n => if n < 10 then [UInt8.ofNat (48 + n)] else UInt8.ofNat (48 + n % 10) :: digitsRev f (n / 10)

def decimalNat (n : Nat) : Bytes := (digitsRev (n + 1) n).reverse

/-- `printf("%d", v)` -/
def decimal (v : Int) : Bytes :=
  if v < 0 then 45 :: decimalNat v.natAbs else decimalNat v.natAbs

end SquidModel.Cc
