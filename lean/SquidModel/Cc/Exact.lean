/-
C29: what one round of the parse loop does to what the accessors report (per directive), and the first-occurrence
characterisation of `HttpHdrCc::parse`.
-/
import SquidModel.Cc.StateLemmas
import SquidModel.Cc.StrListLemmas
open SquidModel SquidModel.Cc
namespace SquidModel.Cc

/-- what the accessors of `HttpHdrCc` report for one directive -/
inductive Val
  | flag
  | num (v : Int)
  | list (l : Bytes)
  deriving DecidableEq, Repr

/-- `hasX(&value)`: `none` = not set -/
def view (c : Cc) (t : CcType) : Option Val :=
  if c.isSet t then
    some (if isNumType t then .num (c.getNum t)
          else if t = .private_ then .list c.priv
          else if t = .noCache then .list c.noCache
          else .flag)
  else none

/-- the numeric argument of an item as the code reads it: `p && httpHeaderParseInt(p, &v) && v >= 0` -/
def numOf (it : Bytes × Nat) : Option Int :=
  match itemArg it with
  | none => none
  | some p => if (parseInt p).1 = true ∧ 0 ≤ (parseInt p).2 then some (parseInt p).2 else none

/-- the field-list argument of an item: no argument = empty list; `none` = an argument that is not a quoted-string -/
def listOf (it : Bytes × Nat) : Option Bytes :=
  match itemArg it with
  | none => some []
  | some p => parseQuoted p (it.2 - itemNlen it - 1)

/-- what an item of type `t` records when `t` is not recorded yet (`none`: `t` stays unrecorded) -/
def effective (t : CcType) (it : Bytes × Nat) : Option Val :=
  if isFlagType t then some .flag
  else if t = .maxStale then some (.num ((numOf it).getD Gen.CcDirectives.MAX_STALE_ANY))
  else if isNumType t then (numOf it).map .num
  else if t = .private_ then some (.list ((listOf it).getD []))
  else if t = .noCache then (listOf it).map .list
  else none

/-- unset list directives have empty lists (true of a fresh object, kept by every step) -/
def Lite (c : Cc) : Prop := (c.isSet .private_ = false → c.priv = []) ∧ (c.isSet .noCache = false → c.noCache = [])

theorem view_none_iff (c : Cc) (t : CcType) : view c t = none ↔ c.isSet t = false := by
  unfold view; split <;> simp_all

theorem setValue_bad (c : Cc) (t : CcType) :
    (if t = .maxStale then c.setValue t Gen.CcDirectives.MAX_STALE_ANY true else c.setValue t (-1) false) =
    if t = .maxStale then (c.setNum t Gen.CcDirectives.MAX_STALE_ANY).setMask t true else (c.setNum t (-1)).setMask t false := by
  have : ¬ (Gen.CcDirectives.MAX_STALE_ANY < 0) := by decide
  simp [Cc.setValue, this]

@[simp] theorem setNum_setNum (c : Cc) (t : CcType) (a b : Int) : (c.setNum t a).setNum t b = c.setNum t b := by
  cases t <;> rfl

/-- the numeric argument behind a pointer -/
def numArg (p : Option Bytes) : Option Int :=
  match p with
  | none => none
  | some s => if (parseInt s).1 = true ∧ 0 ≤ (parseInt s).2 then some (parseInt s).2 else none

theorem numOf_eq (it : Bytes × Nat) : numOf it = numArg (itemArg it) := by
  unfold numOf numArg; cases itemArg it <;> rfl

/-- shape of the numeric case: the field and the bit of `t`, nothing else -/
theorem numericCase_eq (c : Cc) (t : CcType) (p : Option Bytes) :
    numericCase c t p =
      match numArg p with
      | some v => (c.setNum t v).setMask t true
      | none => if t = .maxStale then (c.setNum t Gen.CcDirectives.MAX_STALE_ANY).setMask t true
                else (c.setNum t (-1)).setMask t false := by
  unfold numericCase
  simp only [setValue_bad]
  cases p with
  | none => simp [numArg]
  | some s =>
    simp only [numArg]
    generalize parseInt s = r
    obtain ⟨b, v⟩ := r
    cases b with
    | false => simp
    | true =>
      by_cases hv : v < 0
      · have : ¬ (0 ≤ v) := by omega
        simp [hv, this]
      · have : 0 ≤ v := by omega
        simp [hv, this]

theorem applyDirective_frame (c : Cc) (u t : CcType) (p : Option Bytes) (vlen : Nat) (text : Bytes) (h : t ≠ u) :
    view (applyDirective c u p vlen text) t = view c t := by
  have hn (x : Int) (b : Bool) : view ((c.setNum u x).setMask u b) t = view c t := by
    simp [view, h, getNum_setNum_ne _ _ _ _ h]
  cases u <;> simp only [applyDirective, numericCase_eq]
  case maxAge | sMaxage | maxStale | minFresh | staleIfError =>
    split
    · exact hn _ _
    · split <;> exact hn _ _
  case private_ =>
    cases p with
    | none => simp [view, h]
    | some s => rcases hq : parseQuoted s vlen with _ | v <;> simp [view, h, hq]
  case noCache =>
    cases p with
    | none => simp [view, h]
    | some s => rcases hq : parseQuoted s vlen with _ | v <;> simp [view, h, hq]
  case other => simp [view]
  all_goals simp [view, h]


theorem stepItem_frame (c : Cc) (it : Bytes × Nat) (t : CcType) (h : t ≠ itemType it) : view (stepItem c it) t = view c t := by
  unfold stepItem
  simp only
  split
  · rfl
  · exact applyDirective_frame c _ t _ _ _ h

theorem stepItem_skip (c : Cc) (it : Bytes × Nat) (h : c.isSet (itemType it) = true) (ho : itemType it ≠ .other) :
    stepItem c it = c := by
  unfold stepItem
  simp [h, ho]

/-- an item of a type that is not recorded yet records exactly `effective` -/
theorem stepItem_effective (c : Cc) (it : Bytes × Nat) (hl : Lite c) (h : c.isSet (itemType it) = false)
    (ho : itemType it ≠ .other) (he : itemType it ≠ .enumEnd) :
    view (stepItem c it) (itemType it) = effective (itemType it) it := by
  unfold stepItem
  simp only [h, Bool.false_eq_true, false_and, ↓reduceIte]
  generalize ht : itemType it = t at *
  cases t <;> simp only [applyDirective, numericCase_eq, ← numOf_eq]
  case other => exact absurd rfl ho
  case enumEnd => exact absurd rfl he
  case maxAge | sMaxage | minFresh | staleIfError =>
    rcases hn : numOf it with _ | v <;> (simp [view, effective, isNumType, isFlagType, hn] <;> try rfl)
  case maxStale =>
    rcases hn : numOf it with _ | v <;> (simp [view, effective, isNumType, isFlagType, hn] <;> try rfl)
  case private_ =>
    have hp := hl.1 h
    rcases ha : itemArg it with _ | s
    · simp [view, effective, isNumType, isFlagType, listOf, ha]
    · rcases hq : parseQuoted s (it.2 - itemNlen it - 1) with _ | v <;> simp [view, effective, isNumType, isFlagType, listOf, ha, hq, hp]
  case noCache =>
    have hp := hl.2 h
    rcases ha : itemArg it with _ | s
    · simp [view, effective, isNumType, isFlagType, listOf, ha]
    · rcases hq : parseQuoted s (it.2 - itemNlen it - 1) with _ | v <;> simp [view, effective, isNumType, isFlagType, listOf, ha, hq, hp, h]
  all_goals simp [view, effective, isNumType, isFlagType]

theorem stepItem_lite (c : Cc) (it : Bytes × Nat) (hl : Lite c) : Lite (stepItem c it) := by
  unfold stepItem
  simp only
  split
  · exact hl
  · generalize itemType it = t
    obtain ⟨h1, h2⟩ := hl
    cases t <;> simp only [applyDirective, numericCase_eq]
    case private_ =>
      rcases ha : itemArg it with _ | s
      · exact ⟨by simp, by simpa using h2⟩
      · dsimp only
        rcases hq : parseQuoted s (it.2 - itemNlen it - 1) with _ | v
        · exact ⟨by simp, by simpa using h2⟩
        · exact ⟨by simp, by simpa using h2⟩
    case noCache =>
      rcases ha : itemArg it with _ | s
      · exact ⟨by simpa using h1, by simp⟩
      · dsimp only
        rcases hq : parseQuoted s (it.2 - itemNlen it - 1) with _ | v
        · exact ⟨h1, h2⟩
        · exact ⟨by simpa using h1, by simp⟩
    case other => exact ⟨by simpa using h1, by simpa using h2⟩
    case enumEnd => exact ⟨h1, h2⟩
    case maxAge | sMaxage | maxStale | minFresh | staleIfError =>
      split
      · exact ⟨by simpa using h1, by simpa using h2⟩
      · split <;> exact ⟨by simpa using h1, by simpa using h2⟩
    all_goals exact ⟨by simpa using h1, by simpa using h2⟩


/-! ### the loop: first effective occurrence wins -/

theorem foldl_lite (its : List (Bytes × Nat)) (c : Cc) (hl : Lite c) : Lite (its.foldl stepItem c) := by
  induction its generalizing c with
  | nil => exact hl
  | cons it its ih => exact ih _ (stepItem_lite c it hl)

/-- what the loop records for directive `t`, starting from any state with the `Lite` invariant: what was recorded before, else
the first item of type `t` that records something -/
theorem foldl_view (its : List (Bytes × Nat)) (c : Cc) (hl : Lite c) (t : CcType) (ho : t ≠ .other) (he : t ≠ .enumEnd) :
    view (its.foldl stepItem c) t =
      (view c t).or ((its.filter (fun it => itemType it = t)).findSome? (effective t)) := by
  induction its generalizing c with
  | nil => simp
  | cons it its ih =>
    simp only [List.foldl_cons]
    rw [ih _ (stepItem_lite c it hl)]
    by_cases ht : itemType it = t
    · subst ht
      simp only [List.filter_cons, decide_true, ↓reduceIte, List.findSome?_cons]
      cases hs : c.isSet (itemType it) with
      | true =>
        rw [stepItem_skip c it hs ho]
        have : ∃ x, view c (itemType it) = some x := by simp [view, hs]
        obtain ⟨x, hx⟩ := this
        simp [hx]
      | false =>
        rw [stepItem_effective c it hl hs ho he]
        have : view c (itemType it) = none := (view_none_iff _ _).mpr hs
        rw [this]
        cases effective (itemType it) it <;> simp
    · have ht' : t ≠ itemType it := fun h => ht h.symm
      rw [stepItem_frame c it t ht']
      simp [List.filter_cons, ht]

theorem lite_init : Lite {} := by
  constructor <;> intro _ <;> rfl

theorem view_init (t : CcType) : view {} t = none := by
  cases t <;> decide

/-- the texts recorded in `other`: all items of unknown type, in order, joined by ", " -/
theorem foldl_other (its : List (Bytes × Nat)) (c : Cc) :
    (its.foldl stepItem c).other =
      ((its.filter (fun it => itemType it = .other)).map (fun it => it.1.take it.2)).foldl
        (fun acc e => (if acc.length ≠ 0 then acc ++ [44, 32] else acc) ++ e) c.other := by
  induction its generalizing c with
  | nil => rfl
  | cons it its ih =>
    simp only [List.foldl_cons]
    rw [ih]
    by_cases ht : itemType it = .other
    · simp only [List.filter_cons, ht, decide_true, ↓reduceIte, List.map_cons, List.foldl_cons]
      congr 1
      unfold stepItem
      simp [ht, applyDirective]
    · simp only [List.filter_cons, ht, decide_false, Bool.false_eq_true, ↓reduceIte]
      congr 1
      unfold stepItem
      simp only
      split
      · rfl
      · generalize hg : itemType it = u at *
        cases u <;> simp only [applyDirective, numericCase_eq]
        case other => exact absurd rfl ht
        case private_ =>
          rcases ha : itemArg it with _ | s
          · simp
          · dsimp only
            rcases hq : parseQuoted s (it.2 - itemNlen it - 1) with _ | v <;> simp
        case noCache =>
          rcases ha : itemArg it with _ | s
          · simp
          · dsimp only
            rcases hq : parseQuoted s (it.2 - itemNlen it - 1) with _ | v <;> simp
        case maxAge | sMaxage | maxStale | minFresh | staleIfError =>
          split
          · simp
          · split <;> simp
        all_goals simp

/-- the way `other` is accumulated, on non-empty texts, is the ", "-join -/
theorem foldl_join (es : List Bytes) (acc : Bytes) (hne : ∀ e ∈ es, e ≠ []) :
    es.foldl (fun acc e => (if acc.length ≠ 0 then acc ++ [44, 32] else acc) ++ e) acc =
      if acc = [] then joinItems es else joinItems (acc :: es) := by
  induction es generalizing acc with
  | nil => by_cases h : acc = [] <;> simp [h, joinItems]
  | cons e es ih =>
    simp only [List.foldl_cons]
    have he : e ≠ [] := hne e (List.mem_cons_self)
    rw [ih _ (fun x hx => hne x (List.mem_cons_of_mem _ hx))]
    by_cases h : acc = []
    · subst h
      simp only [List.length_nil, ne_eq, not_true_eq_false, ↓reduceIte, List.nil_append, he]
    · have h1 : acc.length ≠ 0 := fun hh => h (List.length_eq_zero_iff.mp hh)
      have h2 : acc ++ [44, 32] ++ e ≠ [] := by simp [h]
      simp only [h1, ne_eq, not_false_eq_true, ↓reduceIte, h2, h]
      cases es with
      | nil => simp [joinItems]
      | cons b r => simp [joinItems]

theorem items_texts_ne (s : Bytes) : ∀ e ∈ itemTexts (items s), e ≠ [] := by
  intro e he
  exact ((itemsAux_spec _ s).1 e he).ne


end SquidModel.Cc
