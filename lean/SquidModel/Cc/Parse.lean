/-
C29: `HttpHdrCc::parse` and `HttpHdrCc::packInto` (src/HttpHdrCc.cc), branch by branch.
-/
import SquidModel.Cc.Num
import SquidModel.Cc.Quoted

namespace SquidModel.Cc
open SquidModel

/-- numeric value of an enumerator (position in the regenerated declaration order) -/
def CcType.idx (t : CcType) : Nat := Gen.CcDirectives.enumOrder.idxOf t

/-- `isSet(id)`: `EBIT_TEST(mask, id)` -/
def Cc.isSet (c : Cc) (t : CcType) : Bool := ebitTest c.mask t.idx
/-- `setMask(id, newval)` -/
def Cc.setMask (c : Cc) (t : CcType) (v : Bool) : Cc :=
  { c with mask := if v then ebitSet c.mask t.idx else ebitClr c.mask t.idx }

/-- assignments to the three `String` members -/
def Cc.setPriv (c : Cc) (v : Bytes) : Cc := { c with priv := v }
def Cc.setNoCache (c : Cc) (v : Bytes) : Cc := { c with noCache := v }
def Cc.setOther (c : Cc) (v : Bytes) : Cc := { c with other := v }

/-- ASCII lower-casing (`SBuf::caseCmp` / `CaseInsensitiveSBufHash` in the C locale) -/
def lowerC (c : UInt8) : UInt8 := if 65 ≤ c ∧ c ≤ 90 then c + 32 else c

/-- `ccTypeByName`: `LookupTable::lookup` over the map built from `attrsList` (a later row with a case-insensitively equal
name overwrites an earlier one: `lookupTable[name] = id`); `CC_OTHER` when absent. -/
def typeByName (name : Bytes) : CcType :=
  match (Gen.CcDirectives.attrs.filter (fun r => r.1.map lowerC = name.map lowerC)).getLast? with
  | some r => r.2
  | none => .other

/-- the five numeric directives: which field, and what the failure branch does -/
def Cc.setNum (c : Cc) (t : CcType) (v : Int) : Cc :=
  match t with
  | .maxAge => { c with maxAge := v }
  | .sMaxage => { c with sMaxage := v }
  | .maxStale => { c with maxStale := v }
  | .minFresh => { c with minFresh := v }
  | .staleIfError => { c with staleIfError := v }
  | _ => c

def Cc.getNum (c : Cc) (t : CcType) : Int :=
  match t with
  | .maxAge => c.maxAge
  | .sMaxage => c.sMaxage
  | .maxStale => c.maxStale
  | .minFresh => c.minFresh
  | .staleIfError => c.staleIfError
  | _ => -1

/-- `setValue(value, new_value, hdr, setting)` -/
def Cc.setValue (c : Cc) (t : CcType) (newValue : Int) (setting : Bool) : Cc :=
  if setting then
    if newValue < 0 then c   -- "rejecting negative-value Cache-Control directive"
    else (c.setNum t newValue).setMask t true
  else (c.setNum t (-1)).setMask t false

/-- the numeric cases of the switch:
`if (!p || !httpHeaderParseInt(p, &field) || field < 0) { clearX() / maxStale(MAX_STALE_ANY) } else setMask(type,true)`.
`httpHeaderParseInt` writes the field even when it fails. -/
def numericCase (c : Cc) (t : CcType) (p : Option Bytes) : Cc :=
  let bad (c : Cc) : Cc :=
    if t = .maxStale then c.setValue t Gen.CcDirectives.MAX_STALE_ANY true
    else c.setValue t (-1) false
  match p with
  | none => bad c
  | some start =>
    let r := parseInt start
    let c1 := c.setNum t r.2
    if ¬ r.1 ∨ r.2 < 0 then bad c1 else c1.setMask t true

/-! ### one round of the `while (strListGetItem(...))` loop

An item is the pair (`item` pointer as a suffix of the value, `ilen`). -/

/-- `memchr(item, '=', ilen)` as an offset (`ilen` when absent) -/
def itemEq (it : Bytes × Nat) : Nat := (it.1.take it.2).idxOf 61
/-- `nlen`: `if ((p = memchr(item, '=', ilen)) && (p - item < ilen)) nlen = p - item; else nlen = ilen` -/
def itemNlen (it : Bytes × Nat) : Nat := if itemEq it < it.2 then itemEq it else it.2
/-- `p` after `++p` (pointer to the argument: the rest of the value), `none` = null pointer -/
def itemArg (it : Bytes × Nat) : Option Bytes := if itemEq it < it.2 then some (it.1.drop (itemEq it + 1)) else none
/-- `ccTypeByName(SBuf(item, nlen))` -/
def itemType (it : Bytes × Nat) : CcType := typeByName (it.1.take (itemNlen it))

/-- the `switch (type)` -/
def applyDirective (c : Cc) (type : CcType) (p : Option Bytes) (vlen : Nat) (text : Bytes) : Cc :=
  match type with
  | .maxAge | .sMaxage | .maxStale | .minFresh | .staleIfError => numericCase c type p
  | .private_ =>
    let c1 :=
      match p with
      | none => c.setPriv []                                -- `private_.clean()`
      | some start =>
        match parseQuoted start vlen with
        | some v => c.setPriv (c.priv ++ v)                 -- `private_.append(temp)`
        | none => c
    c1.setMask type true   -- "always remember the 'private' part"
  | .noCache =>
    match p with
    | none => (c.setMask type true).setNoCache []
    | some start =>
      match parseQuoted start vlen with
      | some v => (c.setMask type true).setNoCache (c.noCache ++ v)
      | none => c
  | .public_ | .noStore | .noTransform | .mustRevalidate | .proxyRevalidate | .onlyIfCached | .immutable =>
    c.setMask type true
  | .other =>
    -- `if (other.size()) other.append(", "); other.append(item, ilen);`
    c.setOther ((if c.other.length ≠ 0 then c.other ++ [44, 32] else c.other) ++ text)
  | .enumEnd => c   -- `default:`

/-- body of the loop for one item -/
def stepItem (c : Cc) (it : Bytes × Nat) : Cc :=
  let type := itemType it
  -- `if (isSet(type)) { if (type != CC_OTHER) continue; }`
  if c.isSet type ∧ type ≠ .other then c
  else applyDirective c type (itemArg it) (it.2 - itemNlen it - 1) (it.1.take it.2)

/-- state after `HttpHdrCc::parse(str)` on a freshly constructed object -/
def parseFrom (c : Cc) (s : Bytes) : Cc := (items s).foldl stepItem c
def parse (s : Bytes) : Cc := parseFrom {} s
/-- return value of `parse`: `mask != 0` -/
def parseOk (s : Bytes) : Bool := (parse s).mask ≠ 0

/-! ### packInto -/

/-- the `"=value"` part printed after the name -/
def packValue (c : Cc) (t : CcType) : Bytes :=
  match t with
  | .private_ => if c.priv.length ≠ 0 then [61, 34] ++ c.priv ++ [34] else []
  | .noCache => if c.noCache.length ≠ 0 then [61, 34] ++ c.noCache ++ [34] else []
  | .maxAge => 61 :: decimal c.maxAge
  | .sMaxage => 61 :: decimal c.sMaxage
  | .maxStale => if c.maxStale ≠ Gen.CcDirectives.MAX_STALE_ANY then 61 :: decimal c.maxStale else []
  | .minFresh => 61 :: decimal c.minFresh
  | .staleIfError => 61 :: decimal c.staleIfError
  | _ => []

/-- one round of the `for (flag = CC_PUBLIC; flag < CC_ENUM_END; ++flag)` loop; the row of `attrsList` with index `flag`
supplies the name (`ccNameByType`), the static_asserts of `CcAttrs()` make its id equal to `flag`. State = (output, pcount). -/
def packStep (c : Cc) (st : Bytes × Nat) (row : Bytes × CcType) : Bytes × Nat :=
  if c.isSet row.2 ∧ row.2 ≠ .other then
    (st.1 ++ (if st.2 ≠ 0 then [44, 32] else []) ++ row.1 ++ packValue c row.2, st.2 + 1)
  else st

def pack (c : Cc) : Bytes :=
  if c.mask = 0 then []
  else
    let st := Gen.CcDirectives.attrs.foldl (packStep c) ([], 0)
    if c.other.length ≠ 0 then st.1 ++ (if st.2 ≠ 0 then [44, 32] else []) ++ c.other else st.1

end SquidModel.Cc
