/-
C29: facts about the quoted-string parser model (`httpHeaderParseQuotedString`).
-/
import SquidModel.Cc.Quoted
import SquidModel.Base.Finite
open SquidModel SquidModel.Cc
namespace SquidModel.Cc

theorem isPlainQ_facts (c : UInt8) (h : isPlainQ c = true) :
    c ≠ 34 ∧ c ≠ 92 ∧ c ≠ 13 ∧ c ≠ 10 ∧ c ≠ 0 ∧ ¬ (c ≤ 0x1F) ∧ c ≠ 0x7F := by
  have h2 := forall_octet (fun c => !isPlainQ c || (c != 34 && c != 92 && c != 13 && c != 10 && c != 0 && !decide (c ≤ 0x1F) && c != 0x7F))
    (by decide +kernel) c
  simp only [h, Bool.not_true, Bool.false_or, Bool.and_eq_true, bne_iff_ne, ne_eq, Bool.not_eq_true', decide_eq_false_iff_not] at h2
  obtain ⟨⟨⟨⟨⟨⟨a, b⟩, c'⟩, d⟩, e⟩, f⟩, g⟩ := h2
  exact ⟨a, b, c', d, e, f, g⟩

theorem plainRun_all (v rest : Bytes) (k : Nat) (hv : ∀ c ∈ v, isPlainQ c = true) (hk : v.length ≤ k)
    (hr : ∀ c, rest.head? = some c → isPlainQ c = false) : plainRun (v ++ rest) k = v.length := by
  induction v generalizing k with
  | nil =>
    cases rest with
    | nil => cases k <;> rfl
    | cons c r =>
      cases k with
      | zero => rfl
      | succ k => simp [plainRun, hr c rfl]
  | cons a v ih =>
    cases k with
    | zero => simp at hk
    | succ k =>
      simp only [List.cons_append, plainRun, hv a (List.mem_cons_self), ↓reduceIte, List.length_cons]
      rw [ih k (fun c hc => hv c (List.mem_cons_of_mem _ hc)) (by simpa using hk)]
      omega

theorem cget_cons_succ (a : UInt8) (t : Bytes) (i : Nat) : cget (a :: t) (i + 1) = cget t i := by
  simp [cget]

theorem cget_append_right (a b : Bytes) : cget (a ++ b) a.length = cget b 0 := by
  simp [cget, List.getD_eq_getElem?_getD, List.getElem?_append_right]

/-- a round that appends only appends plain octets (a SP for a folded line, or the run the inner loop stepped over) -/
theorem plainRun_take (l : Bytes) (k : Nat) : ∀ x ∈ l.take (plainRun l k), isPlainQ x = true := by
  induction l generalizing k with
  | nil => simp [plainRun]
  | cons c r ih =>
    cases k with
    | zero => simp [plainRun]
    | succ k =>
      simp only [plainRun]
      split
      · rename_i hc
        intro x hx
        rw [Nat.add_comm, List.take_succ_cons] at hx
        simp only [List.mem_cons] at hx
        rcases hx with rfl | hx
        · exact hc
        · exact ih k x hx
      · simp

theorem qsLf_next (t : Bytes) (len pos : Nat) (val : Bytes) (p : Nat) (v : Bytes) (h : qsLf t len pos val = .next p v) :
    v = val ++ [32] := by
  unfold qsLf at h
  simp only at h
  split at h
  · simp at h
  · simp only [QsStep.next.injEq] at h; exact h.2.symm

theorem qsRun_next (t : Bytes) (len pos : Nat) (val : Bytes) (p : Nat) (v : Bytes) (h : qsRun t len pos val = .next p v) :
    ∃ piece, v = val ++ piece ∧ ∀ x ∈ piece, isPlainQ x = true := by
  unfold qsRun at h
  simp only at h
  split at h
  · simp at h
  · simp only [QsStep.next.injEq] at h
    exact ⟨_, h.2.symm, plainRun_take _ _⟩

theorem qsRun_not_finish (t : Bytes) (len pos : Nat) (val v : Bytes) : qsRun t len pos val ≠ .finish v := by
  unfold qsRun
  simp only
  split <;> simp

theorem qsLf_not_finish (t : Bytes) (len pos : Nat) (val v : Bytes) : qsLf t len pos val ≠ .finish v := by
  unfold qsLf
  simp only
  split <;> simp

theorem qsPlain_next (t : Bytes) (len pos : Nat) (val : Bytes) (p : Nat) (v : Bytes) (h : qsPlain t len pos val = .next p v) :
    ∃ piece, v = val ++ piece ∧ ∀ x ∈ piece, isPlainQ x = true := by
  unfold qsPlain at h
  split at h
  · split at h
    · simp at h
    · exact qsRun_next _ _ _ _ _ _ h
  · exact qsRun_next _ _ _ _ _ _ h

theorem qsPlain_not_finish (t : Bytes) (len pos : Nat) (val v : Bytes) : qsPlain t len pos val ≠ .finish v := by
  unfold qsPlain
  split
  · split
    · simp
    · exact qsRun_not_finish _ _ _ _ _
  · exact qsRun_not_finish _ _ _ _ _

theorem qsStep_next (t : Bytes) (len pos : Nat) (val : Bytes) (p : Nat) (v : Bytes) (h : qsStep t len pos val = .next p v) :
    ∃ piece, v = val ++ piece ∧ ∀ x ∈ piece, isPlainQ x = true := by
  unfold qsStep at h
  simp only at h
  split at h
  · split at h <;> simp at h
  · split at h
    · split at h
      · simp at h
      · exact ⟨[32], qsLf_next _ _ _ _ _ _ h, by decide⟩
    · split at h
      · exact ⟨[32], qsLf_next _ _ _ _ _ _ h, by decide⟩
      · exact qsPlain_next _ _ _ _ _ _ h

theorem qsStep_finish (t : Bytes) (len pos : Nat) (val v : Bytes) (h : qsStep t len pos val = .finish v) : v = val := by
  unfold qsStep at h
  simp only at h
  split at h
  · split at h
    · simp only [QsStep.finish.injEq] at h; exact h.symm
    · simp at h
  · split at h
    · split at h
      · simp at h
      · exact absurd h (qsLf_not_finish _ _ _ _ _)
    · split at h
      · exact absurd h (qsLf_not_finish _ _ _ _ _)
      · exact absurd h (qsPlain_not_finish _ _ _ _ _)

/-- whatever the parser returns consists of plain octets only (no DQUOTE, backslash, control, DEL) -/
theorem qsLoop_plain (t : Bytes) (len f pos : Nat) (val v : Bytes) (hval : ∀ x ∈ val, isPlainQ x = true)
    (h : qsLoop t len f pos val = some v) : ∀ x ∈ v, isPlainQ x = true := by
  induction f generalizing pos val with
  | zero => simp [qsLoop] at h
  | succ f ih =>
    simp only [qsLoop] at h
    cases hs : qsStep t len pos val with
    | fail => simp [hs] at h
    | finish w =>
      simp only [hs, Option.some.injEq] at h
      subst h
      rw [qsStep_finish _ _ _ _ _ hs]; exact hval
    | next p w =>
      simp only [hs] at h
      obtain ⟨piece, rfl, hp⟩ := qsStep_next _ _ _ _ _ _ hs
      refine ih _ _ ?_ h
      intro x hx
      simp only [List.mem_append] at hx
      rcases hx with hx | hx
      · exact hval x hx
      · exact hp x hx

theorem parseQuoted_plain_chars (t : Bytes) (len : Nat) (v : Bytes) (h : parseQuoted t len = some v) :
    ∀ x ∈ v, isPlainQ x = true := by
  unfold parseQuoted at h
  split at h
  · simp at h
  · exact qsLoop_plain t len _ 1 [] v (by simp) h

/-- a quoted-string without quoted-pairs whose content is free of controls: the content, whatever follows the closing quote -/
theorem parseQuoted_plain (v rest : Bytes) (len : Nat) (hv : ∀ c ∈ v, isPlainQ c = true) (hlen : v.length + 1 ≤ len) :
    parseQuoted (34 :: (v ++ 34 :: rest)) len = some v := by
  unfold parseQuoted
  have h0 : cget (34 :: (v ++ 34 :: rest)) 0 = 34 := rfl
  simp only [h0, ne_eq, not_true_eq_false, ↓reduceIte]
  cases v with
  | nil =>
    have h1 : cget (34 :: 34 :: rest) 1 = 34 := rfl
    simp only [List.nil_append, qsLoop, qsStep, h1]
    simp
  | cons a v =>
    obtain ⟨f1, f2, f3, f4, f5, f6, f7⟩ := isPlainQ_facts a (hv a (List.mem_cons_self))
    have h1 : cget (34 :: (a :: v ++ 34 :: rest)) 1 = a := rfl
    have hrun : plainRun (List.drop 1 (34 :: (a :: v ++ 34 :: rest))) (len - 1) = (a :: v).length := by
      simp only [List.drop_succ_cons, List.drop_zero]
      exact plainRun_all (a :: v) (34 :: rest) (len - 1) hv (by simp at hlen ⊢; omega) (by simp; decide)
    have he : cget (34 :: (a :: v ++ 34 :: rest)) (1 + (a :: v).length) = 34 := by
      rw [Nat.add_comm, cget_cons_succ, cget_append_right]; rfl
    have hlen2 : len > 1 := by simp at hlen; omega
    have hstep1 : qsStep (34 :: (a :: v ++ 34 :: rest)) len 1 [] = .next (1 + (a :: v).length) (a :: v) := by
      simp only [qsStep, h1, ne_eq, f1, not_false_eq_true, hlen2, and_self, not_true_eq_false, ↓reduceIte, f3, f4,
        qsPlain, f2, qsRun, hrun, he]
      simp
    have hstep2 : qsStep (34 :: (a :: v ++ 34 :: rest)) len (1 + (a :: v).length) (a :: v) = .finish (a :: v) := by
      simp only [qsStep, he]
      simp
    rw [show len + 2 = (len + 1) + 1 from rfl]
    simp only [qsLoop, hstep1, hstep2]

end SquidModel.Cc
