/-
C29: facts about the quoted-string parser model (`httpHeaderParseQuotedString`).
-/
import SquidModel.Cc.Quoted
import SquidModel.Base.Finite
open SquidModel SquidModel.Cc
namespace SquidModel.Cc

theorem isPlainQ_facts (c : UInt8) (h : isPlainQ c = true) :
    c ≠ 34 ∧ c ≠ 92 ∧ c ≠ 13 ∧ c ≠ 10 ∧ c ≠ 0 ∧ ¬ (c ≤ 0x1F) ∧ c ≠ 0x7F := by
  have h2 := forall_octet (fun c => !isPlainQ c || (c != 34 && c != 92 && c != 13 && c != 10 && c != 0 && !decide (c ≤ 0x1F) && c != 0x7F))
    (by decide +kernel) c
  simp only [h, Bool.not_true, Bool.false_or, Bool.and_eq_true, bne_iff_ne, ne_eq, Bool.not_eq_true', decide_eq_false_iff_not] at h2
  obtain ⟨⟨⟨⟨⟨⟨a, b⟩, c'⟩, d⟩, e⟩, f⟩, g⟩ := h2
  exact ⟨a, b, c', d, e, f, g⟩

theorem plainRun_all (v rest : Bytes) (k : Nat) (hv : ∀ c ∈ v, isPlainQ c = true) (hk : v.length ≤ k)
    (hr : ∀ c, rest.head? = some c → isPlainQ c = false) : plainRun (v ++ rest) k = v.length := by
  induction v generalizing k with
  | nil =>
    cases rest with
    | nil => cases k <;> rfl
    | cons c r =>
      cases k with
      | zero => rfl
      | succ k => simp [plainRun, hr c rfl]
  | cons a v ih =>
    cases k with
    | zero => simp at hk
    | succ k =>
      simp only [List.cons_append, plainRun, hv a (List.mem_cons_self), ↓reduceIte, List.length_cons]
      rw [ih k (fun c hc => hv c (List.mem_cons_of_mem _ hc)) (by simpa using hk)]
      omega

theorem cget_cons_succ (a : UInt8) (t : Bytes) (i : Nat) : cget (a :: t) (i + 1) = cget t i := by
  simp [cget]

theorem cget_append_right (a b : Bytes) : cget (a ++ b) a.length = cget b 0 := by
  simp [cget, List.getD_eq_getElem?_getD, List.getElem?_append_right]

/-- a round that appends only appends plain octets (a SP for a folded line, or the run the inner loop stepped over) -/
theorem plainRun_take (l : Bytes) (k : Nat) : ∀ x ∈ l.take (plainRun l k), isPlainQ x = true := by
  induction l generalizing k with
  | nil => simp [plainRun]
  | cons c r ih =>
    cases k with
    | zero => simp [plainRun]
    | succ k =>
      simp only [plainRun]
      split
      · rename_i hc
        intro x hx
        rw [Nat.add_comm, List.take_succ_cons] at hx
        simp only [List.mem_cons] at hx
        rcases hx with rfl | hx
        · exact hc
        · exact ih k x hx
      · simp

theorem qsLf_next (t : Bytes) (len pos : Nat) (val : Bytes) (p : Nat) (v : Bytes) (h : qsLf t len pos val = .next p v) :
    v = val ++ [32] := by
  unfold qsLf at h
  simp only at h
  split at h
  · simp at h
  · simp only [QsStep.next.injEq] at h; exact h.2.symm

theorem qsRun_next (t : Bytes) (len pos : Nat) (val : Bytes) (p : Nat) (v : Bytes) (h : qsRun t len pos val = .next p v) :
    ∃ piece, v = val ++ piece ∧ ∀ x ∈ piece, isPlainQ x = true := by
  unfold qsRun at h
  simp only at h
  split at h
  · simp at h
  · simp only [QsStep.next.injEq] at h
    exact ⟨_, h.2.symm, plainRun_take _ _⟩

theorem qsRun_not_finish (t : Bytes) (len pos : Nat) (val v : Bytes) : qsRun t len pos val ≠ .finish v := by
  unfold qsRun
  simp only
  split <;> simp

theorem qsLf_not_finish (t : Bytes) (len pos : Nat) (val v : Bytes) : qsLf t len pos val ≠ .finish v := by
  unfold qsLf
  simp only
  split <;> simp

theorem qsPlain_next (t : Bytes) (len pos : Nat) (val : Bytes) (p : Nat) (v : Bytes) (h : qsPlain t len pos val = .next p v) :
    ∃ piece, v = val ++ piece ∧ ∀ x ∈ piece, isPlainQ x = true := by
  unfold qsPlain at h
  split at h
  · split at h
    · simp at h
    · exact qsRun_next _ _ _ _ _ _ h
  · exact qsRun_next _ _ _ _ _ _ h

theorem qsPlain_not_finish (t : Bytes) (len pos : Nat) (val v : Bytes) : qsPlain t len pos val ≠ .finish v := by
  unfold qsPlain
  split
  · split
    · simp
    · exact qsRun_not_finish _ _ _ _ _
  · exact qsRun_not_finish _ _ _ _ _

theorem qsStep_next (t : Bytes) (len pos : Nat) (val : Bytes) (p : Nat) (v : Bytes) (h : qsStep t len pos val = .next p v) :
    ∃ piece, v = val ++ piece ∧ ∀ x ∈ piece, isPlainQ x = true := by
  unfold qsStep at h
  simp only at h
  split at h
  · split at h <;> simp at h
  · split at h
    · split at h
      · simp at h
      · exact ⟨[32], qsLf_next _ _ _ _ _ _ h, by decide⟩
    · split at h
      · exact ⟨[32], qsLf_next _ _ _ _ _ _ h, by decide⟩
      · exact qsPlain_next _ _ _ _ _ _ h

theorem qsStep_finish (t : Bytes) (len pos : Nat) (val v : Bytes) (h : qsStep t len pos val = .finish v) : v = val := by
  unfold qsStep at h
  simp only at h
  split at h
  · split at h
    · simp only [QsStep.finish.injEq] at h; exact h.symm
    · simp at h
  · split at h
    · split at h
      · simp at h
      · exact absurd h (qsLf_not_finish _ _ _ _ _)
    · split at h
      · exact absurd h (qsLf_not_finish _ _ _ _ _)
      · exact absurd h (qsPlain_not_finish _ _ _ _ _)

/-- whatever the parser returns consists of plain octets only (no DQUOTE, backslash, control, DEL) -/
theorem qsLoop_plain (t : Bytes) (len f pos : Nat) (val v : Bytes) (hval : ∀ x ∈ val, isPlainQ x = true)
    (h : qsLoop t len f pos val = some v) : ∀ x ∈ v, isPlainQ x = true := by
  induction f generalizing pos val with
  | zero => simp [qsLoop] at h
  | succ f ih =>
    simp only [qsLoop] at h
    cases hs : qsStep t len pos val with
    | fail => simp [hs] at h
    | finish w =>
      simp only [hs, Option.some.injEq] at h
      subst h
      rw [qsStep_finish _ _ _ _ _ hs]; exact hval
    | next p w =>
      simp only [hs] at h
      obtain ⟨piece, rfl, hp⟩ := qsStep_next _ _ _ _ _ _ hs
      refine ih _ _ ?_ h
      intro x hx
      simp only [List.mem_append] at hx
      rcases hx with hx | hx
      · exact hval x hx
      · exact hp x hx

theorem parseQuoted_plain_chars (t : Bytes) (len : Nat) (v : Bytes) (h : parseQuoted t len = some v) :
    ∀ x ∈ v, isPlainQ x = true := by
  unfold parseQuoted at h
  split at h
  · simp at h
  · exact qsLoop_plain t len _ 1 [] v (by simp) h

/-- a quoted-string without quoted-pairs whose content is free of controls: the content, whatever follows the closing quote -/
theorem parseQuoted_plain (v rest : Bytes) (len : Nat) (hv : ∀ c ∈ v, isPlainQ c = true) (hlen : v.length + 1 ≤ len) :
    parseQuoted (34 :: (v ++ 34 :: rest)) len = some v := by
  unfold parseQuoted
  have h0 : cget (34 :: (v ++ 34 :: rest)) 0 = 34 := rfl
  simp only [h0, ne_eq, not_true_eq_false, ↓reduceIte]
  cases v with
  | nil =>
    have h1 : cget (34 :: 34 :: rest) 1 = 34 := rfl
    simp only [List.nil_append, qsLoop, qsStep, h1]
    simp
  | cons a v =>
    obtain ⟨f1, f2, f3, f4, f5, f6, f7⟩ := isPlainQ_facts a (hv a (List.mem_cons_self))
    have h1 : cget (34 :: (a :: v ++ 34 :: rest)) 1 = a := rfl
    have hrun : plainRun (List.drop 1 (34 :: (a :: v ++ 34 :: rest))) (len - 1) = (a :: v).length := by
      simp only [List.drop_succ_cons, List.drop_zero]
      exact plainRun_all (a :: v) (34 :: rest) (len - 1) hv (by simp at hlen ⊢; omega) (by simp; decide)
    have he : cget (34 :: (a :: v ++ 34 :: rest)) (1 + (a :: v).length) = 34 := by
      rw [Nat.add_comm, cget_cons_succ, cget_append_right]; rfl
    have hlen2 : len > 1 := by simp at hlen; omega
    have hstep1 : qsStep (34 :: (a :: v ++ 34 :: rest)) len 1 [] = .next (1 + (a :: v).length) (a :: v) := by
      simp only [qsStep, h1, ne_eq, f1, not_false_eq_true, hlen2, and_self, not_true_eq_false, ↓reduceIte, f3, f4,
        qsPlain, f2, qsRun, hrun, he]
      simp
    have hstep2 : qsStep (34 :: (a :: v ++ 34 :: rest)) len (1 + (a :: v).length) (a :: v) = .finish (a :: v) := by
      simp only [qsStep, he]
      simp
    rw [show len + 2 = (len + 1) + 1 from rfl]
    simp only [qsLoop, hstep1, hstep2]

/-! ### quoted-strings with quoted-pairs of ordinary octets -/

/-- content of a quoted-string as atoms: (written as a quoted-pair?, octet) -/
abbrev QAtoms := List (Bool × UInt8)

/-- the spelling between the quotes -/
def encQ : QAtoms → Bytes
  | [] => []
  | (false, c) :: r => c :: encQ r
  | (true, c) :: r => 92 :: c :: encQ r

/-- the value: every quoted-pair `\x` stands for `x` -/
def valsQ (l : QAtoms) : Bytes := l.map (·.2)

/-- leading atoms that are not quoted-pairs -/
def plainPrefix : QAtoms → Bytes × QAtoms
  | (false, c) :: r => (c :: (plainPrefix r).1, (plainPrefix r).2)
  | l => ([], l)

theorem plainPrefix_spec (l : QAtoms) :
    encQ l = (plainPrefix l).1 ++ encQ (plainPrefix l).2 ∧ valsQ l = (plainPrefix l).1 ++ valsQ (plainPrefix l).2 ∧
    (plainPrefix l).2.length ≤ l.length ∧ ((plainPrefix l).2 = [] ∨ ∃ c r, (plainPrefix l).2 = (true, c) :: r) ∧
    (∀ x ∈ (plainPrefix l).1, (false, x) ∈ l) ∧ (∀ a ∈ (plainPrefix l).2, a ∈ l) := by
  induction l with
  | nil => simp [plainPrefix, encQ, valsQ]
  | cons a r ih =>
    obtain ⟨b, c⟩ := a
    cases b with
    | true => simp [plainPrefix, encQ, valsQ]
    | false =>
      obtain ⟨h1, h2, h3, h4, h5, h6⟩ := ih
      refine ⟨?_, ?_, ?_, h4, ?_, ?_⟩
      · simp only [plainPrefix, encQ, List.cons_append]; rw [← h1]
      · simp only [valsQ, List.map_cons, plainPrefix, List.cons_append] at h2 ⊢; rw [← h2]
      · simp only [plainPrefix, List.length_cons]; omega
      · intro x hx
        simp only [plainPrefix, List.mem_cons] at hx
        rcases hx with rfl | hx
        · exact List.mem_cons_self
        · exact List.mem_cons_of_mem _ (h5 x hx)
      · intro a ha
        exact List.mem_cons_of_mem _ (h6 a ha)

theorem cget_at (pre post : Bytes) : cget (34 :: (pre ++ post)) (1 + pre.length) = cget post 0 := by
  rw [Nat.add_comm, cget_cons_succ, cget_append_right]

theorem cget_at_add (pre mid post : Bytes) : cget (34 :: (pre ++ (mid ++ post))) (1 + pre.length + mid.length) = cget post 0 := by
  have := cget_at (pre ++ mid) post
  simp only [List.length_append, List.append_assoc] at this
  rw [← this]; congr 1; omega

theorem drop_at (pre post : Bytes) : (34 :: (pre ++ post)).drop (1 + pre.length) = post := by
  rw [Nat.add_comm, List.drop_succ_cons, List.drop_left']; rfl

/-- the loop on a well-formed content: from the position after `pre`, with the atoms `post` and the closing quote ahead -/
theorem qsLoop_atoms (n : Nat) : ∀ (post : QAtoms), post.length ≤ n → ∀ (pre val rest : Bytes) (len f : Nat),
    (∀ a ∈ post, isPlainQ a.2 = true) → pre.length + (encQ post).length + 1 ≤ len → post.length + 1 ≤ f →
    qsLoop (34 :: (pre ++ (encQ post ++ 34 :: rest))) len f (1 + pre.length) val = some (val ++ valsQ post) := by
  induction n with
  | zero =>
    intro post hn pre val rest len f _ _ hf
    have : post = [] := List.length_eq_zero_iff.mp (by omega)
    subst this
    cases f with
    | zero => omega
    | succ f =>
      have hc : cget (34 :: (pre ++ (encQ [] ++ 34 :: rest))) (1 + pre.length) = 34 := by
        simp only [encQ, List.nil_append]; rw [cget_at]; rfl
      simp only [qsLoop, qsStep, hc]
      simp [valsQ]
  | succ n ih =>
    intro post hn pre val rest len f hv hlen hf
    cases post with
    | nil => exact ih [] (by simp) pre val rest len f hv hlen hf
    | cons a post' =>
      cases f with
      | zero => omega
      | succ f =>
        obtain ⟨b, c⟩ := a
        have hcp : isPlainQ c = true := hv (b, c) List.mem_cons_self
        obtain ⟨f1, f2, f3, f4, f5, f6, f7⟩ := isPlainQ_facts c hcp
        cases b with
        | false =>
          -- a run of plain octets: c and the plain prefix of post'
          obtain ⟨h1, h2, h3, h4, h5, h6⟩ := plainPrefix_spec post'
          generalize hcs : (plainPrefix post').1 = cs at *
          generalize hp2 : (plainPrefix post').2 = post2 at *
          have hcsplain : ∀ x ∈ c :: cs, isPlainQ x = true := by
            intro x hx
            simp only [List.mem_cons] at hx
            rcases hx with rfl | hx
            · exact hcp
            · exact hv (false, x) (List.mem_cons_of_mem _ (h5 x hx))
          have henc : encQ ((false, c) :: post') = (c :: cs) ++ encQ post2 := by simp only [encQ, h1, List.cons_append]
          have hnext : ∀ y, (encQ post2 ++ 34 :: rest).head? = some y → isPlainQ y = false := by
            intro y hy
            rcases h4 with h4 | ⟨c2, r2, h4⟩
            · subst h4; simp [encQ] at hy; subst hy; decide
            · subst h4; simp [encQ] at hy; subst hy; decide
          have hc : cget (34 :: (pre ++ (encQ ((false, c) :: post') ++ 34 :: rest))) (1 + pre.length) = c := by
            rw [cget_at]; simp [encQ, cget]
          have hlen' : 1 + pre.length < len := by simp [encQ] at hlen; omega
          have hdrop : (34 :: (pre ++ (encQ ((false, c) :: post') ++ 34 :: rest))).drop (1 + pre.length) =
              (c :: cs) ++ (encQ post2 ++ 34 :: rest) := by
            rw [drop_at, henc, List.append_assoc]
          have hrun : plainRun ((34 :: (pre ++ (encQ ((false, c) :: post') ++ 34 :: rest))).drop (1 + pre.length)) (len - (1 + pre.length)) = (c :: cs).length := by
            rw [hdrop]
            apply plainRun_all _ _ _ hcsplain _ hnext
            rw [henc] at hlen
            simp only [List.length_append, List.length_cons] at hlen ⊢
            omega
          have hce : cget (34 :: (pre ++ (encQ ((false, c) :: post') ++ 34 :: rest))) (1 + pre.length + (c :: cs).length) = cget (encQ post2 ++ 34 :: rest) 0 := by
            rw [henc, List.append_assoc]
            exact cget_at_add pre (c :: cs) _
          have hce2 : ¬ ((cget (encQ post2 ++ 34 :: rest) 0 ≤ 0x1F ∧ cget (encQ post2 ++ 34 :: rest) 0 ≠ 13 ∧ cget (encQ post2 ++ 34 :: rest) 0 ≠ 10) ∨ cget (encQ post2 ++ 34 :: rest) 0 = 0x7F) := by
            rcases h4 with h4 | ⟨c2, r2, h4⟩
            · subst h4; simp [encQ, cget]
            · subst h4; simp [encQ, cget]
          have hstep : qsStep (34 :: (pre ++ (encQ ((false, c) :: post') ++ 34 :: rest))) len (1 + pre.length) val =
              .next (1 + pre.length + (c :: cs).length) (val ++ (c :: cs)) := by
            simp only [qsStep, hc, ne_eq, f1, not_false_eq_true, hlen', and_self, not_true_eq_false, ↓reduceIte, f3, f4,
              qsPlain, f2, qsRun, hrun, hce, hce2]
            rw [hdrop]
            simp
          simp only [qsLoop, hstep]
          -- continue after the run
          have hre : (34 :: (pre ++ (encQ ((false, c) :: post') ++ 34 :: rest))) = 34 :: ((pre ++ (c :: cs)) ++ (encQ post2 ++ 34 :: rest)) := by
            rw [henc]; simp
          rw [hre]
          have hpos : 1 + pre.length + (c :: cs).length = 1 + (pre ++ (c :: cs)).length := by simp; omega
          rw [hpos]
          have := ih post2 (by simp at hn; omega) (pre ++ (c :: cs)) (val ++ (c :: cs)) rest len f
            (fun a ha => hv a (List.mem_cons_of_mem _ (h6 a ha)))
            (by rw [henc] at hlen; simp only [List.length_append, List.length_cons] at hlen ⊢; omega)
            (by simp at hf; omega)
          rw [this]
          simp only [valsQ, List.map_cons] at h2 ⊢
          rw [h2]; simp
        | true =>
          -- a quoted-pair: backslash, c, and the plain prefix of post'
          obtain ⟨h1, h2, h3, h4, h5, h6⟩ := plainPrefix_spec post'
          generalize hcs : (plainPrefix post').1 = cs at *
          generalize hp2 : (plainPrefix post').2 = post2 at *
          have hcsplain : ∀ x ∈ c :: cs, isPlainQ x = true := by
            intro x hx
            simp only [List.mem_cons] at hx
            rcases hx with rfl | hx
            · exact hcp
            · exact hv (false, x) (List.mem_cons_of_mem _ (h5 x hx))
          have henc : encQ ((true, c) :: post') = 92 :: ((c :: cs) ++ encQ post2) := by simp only [encQ, h1, List.cons_append]
          have hnext : ∀ y, (encQ post2 ++ 34 :: rest).head? = some y → isPlainQ y = false := by
            intro y hy
            rcases h4 with h4 | ⟨c2, r2, h4⟩
            · subst h4; simp [encQ] at hy; subst hy; decide
            · subst h4; simp [encQ] at hy; subst hy; decide
          have hc : cget (34 :: (pre ++ (encQ ((true, c) :: post') ++ 34 :: rest))) (1 + pre.length) = 92 := by
            rw [cget_at]; simp [encQ, cget]
          have hre1 : (34 :: (pre ++ (encQ ((true, c) :: post') ++ 34 :: rest))) =
              34 :: ((pre ++ [92]) ++ ((c :: cs) ++ (encQ post2 ++ 34 :: rest))) := by
            rw [henc]; simp
          have hpos1 : 1 + pre.length + 1 = 1 + (pre ++ [92]).length := by simp; omega
          have hc1 : cget (34 :: (pre ++ (encQ ((true, c) :: post') ++ 34 :: rest))) (1 + pre.length + 1) = c := by
            rw [hre1, hpos1, cget_at]; simp [cget]
          have hlen' : 1 + pre.length < len := by simp [encQ] at hlen; omega
          have hlen1 : ¬ (1 + pre.length + 1 > len) := by simp [encQ] at hlen; omega
          have hdrop : (34 :: (pre ++ (encQ ((true, c) :: post') ++ 34 :: rest))).drop (1 + pre.length + 1) =
              (c :: cs) ++ (encQ post2 ++ 34 :: rest) := by
            rw [hre1, hpos1, drop_at]
          have hrun : plainRun ((34 :: (pre ++ (encQ ((true, c) :: post') ++ 34 :: rest))).drop (1 + pre.length + 1)) (len - (1 + pre.length + 1)) = (c :: cs).length := by
            rw [hdrop]
            apply plainRun_all _ _ _ hcsplain _ hnext
            rw [henc] at hlen
            simp only [List.length_append, List.length_cons] at hlen ⊢
            omega
          have hce : cget (34 :: (pre ++ (encQ ((true, c) :: post') ++ 34 :: rest))) (1 + pre.length + 1 + (c :: cs).length) = cget (encQ post2 ++ 34 :: rest) 0 := by
            rw [hre1, hpos1]
            exact cget_at_add (pre ++ [92]) (c :: cs) _
          have hce2 : ¬ ((cget (encQ post2 ++ 34 :: rest) 0 ≤ 0x1F ∧ cget (encQ post2 ++ 34 :: rest) 0 ≠ 13 ∧ cget (encQ post2 ++ 34 :: rest) 0 ≠ 10) ∨ cget (encQ post2 ++ 34 :: rest) 0 = 0x7F) := by
            rcases h4 with h4 | ⟨c2, r2, h4⟩
            · subst h4; simp [encQ, cget]
            · subst h4; simp [encQ, cget]
          have hstep : qsStep (34 :: (pre ++ (encQ ((true, c) :: post') ++ 34 :: rest))) len (1 + pre.length) val =
              .next (1 + pre.length + 1 + (c :: cs).length) (val ++ (c :: cs)) := by
            simp only [qsStep, hc, ne_eq, show ¬ ((92 : UInt8) = 34) by decide, not_false_eq_true, hlen', and_self,
              not_true_eq_false, ↓reduceIte, show ¬ ((92 : UInt8) = 13) by decide, show ¬ ((92 : UInt8) = 10) by decide,
              qsPlain, hc1, f5, hlen1, or_self, qsRun, hrun, hce, hce2]
            rw [hdrop]
            simp
          simp only [qsLoop, hstep]
          have hre : (34 :: (pre ++ (encQ ((true, c) :: post') ++ 34 :: rest))) = 34 :: ((pre ++ 92 :: (c :: cs)) ++ (encQ post2 ++ 34 :: rest)) := by
            rw [henc]; simp
          rw [hre]
          have hpos : 1 + pre.length + 1 + (c :: cs).length = 1 + (pre ++ 92 :: (c :: cs)).length := by simp; omega
          rw [hpos]
          have := ih post2 (by simp at hn; omega) (pre ++ 92 :: (c :: cs)) (val ++ (c :: cs)) rest len f
            (fun a ha => hv a (List.mem_cons_of_mem _ (h6 a ha)))
            (by rw [henc] at hlen; simp only [List.length_append, List.length_cons] at hlen ⊢; omega)
            (by simp at hf; omega)
          rw [this]
          simp only [valsQ, List.map_cons] at h2 ⊢
          rw [h2]; simp

/-- a quoted-string whose content consists of plain octets and quoted-pairs of plain octets (anything but DQUOTE,
backslash, controls, DEL after the backslash) yields the content with every quoted-pair replaced by its octet -/
theorem parseQuoted_atoms (atoms : QAtoms) (rest : Bytes) (len : Nat) (hv : ∀ a ∈ atoms, isPlainQ a.2 = true)
    (hlen : (encQ atoms).length + 1 ≤ len) :
    parseQuoted (34 :: (encQ atoms ++ 34 :: rest)) len = some (valsQ atoms) := by
  unfold parseQuoted
  have h0 : cget (34 :: (encQ atoms ++ 34 :: rest)) 0 = 34 := rfl
  simp only [h0, ne_eq, not_true_eq_false, ↓reduceIte]
  have hflen : atoms.length ≤ (encQ atoms).length := by
    clear hv hlen h0
    induction atoms with
    | nil => simp
    | cons a r ih => obtain ⟨b, c⟩ := a; cases b <;> simp [encQ] <;> omega
  have := qsLoop_atoms atoms.length atoms (Nat.le_refl _) [] [] rest len (len + 2) hv (by simpa using hlen) (by omega)
  simpa using this


end SquidModel.Cc
