/-
C29: facts about the quoted-string parser model (`httpHeaderParseQuotedString`).
-/
import SquidModel.Cc.Quoted
import SquidModel.Base.Finite
open SquidModel SquidModel.Cc
namespace SquidModel.Cc

theorem isPlainQ_facts (c : UInt8) (h : isPlainQ c = true) :
    c ≠ 34 ∧ c ≠ 92 ∧ c ≠ 13 ∧ c ≠ 10 ∧ c ≠ 0 ∧ ¬ (c ≤ 0x1F) ∧ c ≠ 0x7F := by
  have h2 := forall_octet (fun c => !isPlainQ c || (c != 34 && c != 92 && c != 13 && c != 10 && c != 0 && !decide (c ≤ 0x1F) && c != 0x7F))
    (by decide +kernel) c
  simp only [h, Bool.not_true, Bool.false_or, Bool.and_eq_true, bne_iff_ne, ne_eq, Bool.not_eq_true', decide_eq_false_iff_not] at h2
  obtain ⟨⟨⟨⟨⟨⟨a, b⟩, c'⟩, d⟩, e⟩, f⟩, g⟩ := h2
  exact ⟨a, b, c', d, e, f, g⟩

theorem plainRun_all (v rest : Bytes) (k : Nat) (hv : ∀ c ∈ v, isPlainQ c = true) (hk : v.length ≤ k)
    (hr : ∀ c, rest.head? = some c → isPlainQ c = false) : plainRun (v ++ rest) k = v.length := by
  induction v generalizing k with
  | nil =>
    cases rest with
    | nil => cases k <;> rfl
    | cons c r =>
      cases k with
      | zero => rfl
      | succ k => simp [plainRun, hr c rfl]
  | cons a v ih =>
    cases k with
    | zero => simp at hk
    | succ k =>
      simp only [List.cons_append, plainRun, hv a (List.mem_cons_self), ↓reduceIte, List.length_cons]
      rw [ih k (fun c hc => hv c (List.mem_cons_of_mem _ hc)) (by simpa using hk)]
      omega

theorem cget_cons_succ (a : UInt8) (t : Bytes) (i : Nat) : cget (a :: t) (i + 1) = cget t i := by
  simp [cget]

theorem cget_append_right (a b : Bytes) : cget (a ++ b) a.length = cget b 0 := by
  simp [cget, List.getD_eq_getElem?_getD, List.getElem?_append_right]

/-- a quoted-string without quoted-pairs whose content is free of controls: the content, whatever follows the closing quote -/
theorem parseQuoted_plain (v rest : Bytes) (len : Nat) (hv : ∀ c ∈ v, isPlainQ c = true) (hlen : v.length + 1 ≤ len) :
    parseQuoted (34 :: (v ++ 34 :: rest)) len = some v := by
  unfold parseQuoted
  have h0 : cget (34 :: (v ++ 34 :: rest)) 0 = 34 := rfl
  simp only [h0, ne_eq, not_true_eq_false, ↓reduceIte]
  cases v with
  | nil =>
    have h1 : cget (34 :: 34 :: rest) 1 = 34 := rfl
    simp only [List.nil_append, qsLoop, h1]
    simp
  | cons a v =>
    obtain ⟨f1, f2, f3, f4, f5, f6, f7⟩ := isPlainQ_facts a (hv a (List.mem_cons_self))
    have h1 : cget (34 :: (a :: v ++ 34 :: rest)) 1 = a := rfl
    have hrun : plainRun (List.drop 1 (34 :: (a :: v ++ 34 :: rest))) (len - 1) = (a :: v).length := by
      simp only [List.drop_succ_cons, List.drop_zero]
      exact plainRun_all (a :: v) (34 :: rest) (len - 1) hv (by simp at hlen ⊢; omega) (by simp; decide)
    have he : cget (34 :: (a :: v ++ 34 :: rest)) (1 + (a :: v).length) = 34 := by
      rw [Nat.add_comm, cget_cons_succ, cget_append_right]; rfl
    have hlen2 : len > 1 := by simp at hlen; omega
    rw [show len + 2 = (len + 1) + 1 from rfl]
    simp only [qsLoop, h1, ne_eq, f1, not_false_eq_true, hlen2, and_self, not_true_eq_false, ↓reduceIte, f3, false_and, f4,
      f2, hrun, he]
    simp only [show ¬ ((34 : UInt8) ≤ 31 ∧ ¬ (34 : UInt8) = 13 ∧ ¬ (34 : UInt8) = 10 ∨ (34 : UInt8) = 127) by decide, ↓reduceIte]
    simp

end SquidModel.Cc
