/-
C29: how the accessors of `HttpHdrCc` read what the setters wrote (mask bits by enumerator, the five numeric fields).
-/
import SquidModel.Cc.Parse
open SquidModel SquidModel.Cc
namespace SquidModel.Cc

/-! ### accessors against setters -/

def CcType.ofIdx (n : Nat) : CcType := Gen.CcDirectives.enumOrder.getD n .enumEnd

theorem CcType.ofIdx_idx (t : CcType) : CcType.ofIdx t.idx = t := by cases t <;> decide

theorem CcType.idx_inj {a b : CcType} (h : a.idx = b.idx) : a = b := by
  rw [← CcType.ofIdx_idx a, ← CcType.ofIdx_idx b, h]

theorem CcType.idx_lt (t : CcType) : t.idx < 16 := by cases t <;> decide

@[simp] theorem isSet_setMask (c : Cc) (u : CcType) (v : Bool) (t : CcType) :
    (c.setMask u v).isSet t = if t = u then v else c.isSet t := by
  unfold Cc.setMask Cc.isSet
  cases v with
  | true =>
    simp only [↓reduceIte, ebitTest_set]
    by_cases h : t = u
    · subst h; simp
    · have : ¬ u.idx = t.idx := fun hh => h (CcType.idx_inj hh).symm
      simp [h, this]
  | false =>
    simp only [Bool.false_eq_true, ↓reduceIte, ebitTest_clr]
    by_cases h : t = u
    · subst h; simp
    · have : ¬ u.idx = t.idx := fun hh => h (CcType.idx_inj hh).symm
      simp [h, this]

@[simp] theorem getNum_setMask (c : Cc) (u : CcType) (v : Bool) (t : CcType) : (c.setMask u v).getNum t = c.getNum t := by
  cases t <;> rfl
@[simp] theorem priv_setMask (c : Cc) (u : CcType) (v : Bool) : (c.setMask u v).priv = c.priv := rfl
@[simp] theorem noCache_setMask (c : Cc) (u : CcType) (v : Bool) : (c.setMask u v).noCache = c.noCache := rfl
@[simp] theorem other_setMask (c : Cc) (u : CcType) (v : Bool) : (c.setMask u v).other = c.other := rfl

@[simp] theorem isSet_setNum (c : Cc) (u : CcType) (x : Int) (t : CcType) : (c.setNum u x).isSet t = c.isSet t := by
  cases u <;> rfl
@[simp] theorem priv_setNum (c : Cc) (u : CcType) (x : Int) : (c.setNum u x).priv = c.priv := by cases u <;> rfl
@[simp] theorem noCache_setNum (c : Cc) (u : CcType) (x : Int) : (c.setNum u x).noCache = c.noCache := by cases u <;> rfl
@[simp] theorem other_setNum (c : Cc) (u : CcType) (x : Int) : (c.setNum u x).other = c.other := by cases u <;> rfl
@[simp] theorem mask_setNum (c : Cc) (u : CcType) (x : Int) : (c.setNum u x).mask = c.mask := by cases u <;> rfl

@[simp] theorem isSet_setPriv (c : Cc) (v : Bytes) (t : CcType) : (c.setPriv v).isSet t = c.isSet t := rfl
@[simp] theorem isSet_setNoCache (c : Cc) (v : Bytes) (t : CcType) : (c.setNoCache v).isSet t = c.isSet t := rfl
@[simp] theorem isSet_setOther (c : Cc) (v : Bytes) (t : CcType) : (c.setOther v).isSet t = c.isSet t := rfl
@[simp] theorem mask_setPriv (c : Cc) (v : Bytes) : (c.setPriv v).mask = c.mask := rfl
@[simp] theorem mask_setNoCache (c : Cc) (v : Bytes) : (c.setNoCache v).mask = c.mask := rfl
@[simp] theorem mask_setOther (c : Cc) (v : Bytes) : (c.setOther v).mask = c.mask := rfl
@[simp] theorem getNum_setPriv (c : Cc) (v : Bytes) (t : CcType) : (c.setPriv v).getNum t = c.getNum t := by cases t <;> rfl
@[simp] theorem getNum_setNoCache (c : Cc) (v : Bytes) (t : CcType) : (c.setNoCache v).getNum t = c.getNum t := by cases t <;> rfl
@[simp] theorem getNum_setOther (c : Cc) (v : Bytes) (t : CcType) : (c.setOther v).getNum t = c.getNum t := by cases t <;> rfl
@[simp] theorem priv_setPriv (c : Cc) (v : Bytes) : (c.setPriv v).priv = v := rfl
@[simp] theorem priv_setNoCache (c : Cc) (v : Bytes) : (c.setNoCache v).priv = c.priv := rfl
@[simp] theorem priv_setOther (c : Cc) (v : Bytes) : (c.setOther v).priv = c.priv := rfl
@[simp] theorem noCache_setPriv (c : Cc) (v : Bytes) : (c.setPriv v).noCache = c.noCache := rfl
@[simp] theorem noCache_setNoCache (c : Cc) (v : Bytes) : (c.setNoCache v).noCache = v := rfl
@[simp] theorem noCache_setOther (c : Cc) (v : Bytes) : (c.setOther v).noCache = c.noCache := rfl
@[simp] theorem other_setPriv (c : Cc) (v : Bytes) : (c.setPriv v).other = c.other := rfl
@[simp] theorem other_setNoCache (c : Cc) (v : Bytes) : (c.setNoCache v).other = c.other := rfl
@[simp] theorem other_setOther (c : Cc) (v : Bytes) : (c.setOther v).other = v := rfl

/-- the five directives that carry a delta-seconds value -/
def isNumType (t : CcType) : Bool :=
  match t with
  | .maxAge | .sMaxage | .maxStale | .minFresh | .staleIfError => true
  | _ => false

/-- the seven directives without an argument -/
def isFlagType (t : CcType) : Bool :=
  match t with
  | .public_ | .noStore | .noTransform | .mustRevalidate | .proxyRevalidate | .onlyIfCached | .immutable => true
  | _ => false

theorem getNum_setNum (c : Cc) (u : CcType) (x : Int) (t : CcType) :
    (c.setNum u x).getNum t = if t = u ∧ isNumType u = true then x else c.getNum t := by
  cases u <;> cases t <;> simp [Cc.setNum, Cc.getNum, isNumType]

theorem getNum_setNum_self (c : Cc) (u : CcType) (x : Int) (h : isNumType u = true) : (c.setNum u x).getNum u = x := by
  rw [getNum_setNum]; simp [h]

theorem getNum_setNum_ne (c : Cc) (u : CcType) (x : Int) (t : CcType) (h : t ≠ u) : (c.setNum u x).getNum t = c.getNum t := by
  rw [getNum_setNum]; simp [h]

end SquidModel.Cc
