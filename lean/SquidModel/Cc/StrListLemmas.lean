/-
C29: facts about the list splitter model (`strListGetItem`): the scan state, trimming, and what the items of a well-formed
comma separated list are.
-/
import SquidModel.Cc.NumLemmas
open SquidModel SquidModel.Cc
namespace SquidModel.Cc

/-- state of the splitter's scan after all of `a` (`none`: a comma outside quotes occurs in `a`) -/
def scanSt : Bool → Bool → Bytes → Option (Bool × Bool)
  | q, e, [] => some (q, e)
  | q, true, _ :: r => scanSt q false r
  | false, false, c :: r =>
    if c = 34 then scanSt true false r
    else if c = 44 then none
    else scanSt false false r
  | true, false, c :: r =>
    if c = 34 then scanSt false false r
    else if c = 92 then scanSt true true r
    else scanSt true false r

theorem scanLen_append (q e : Bool) (a r : Bytes) (q' e' : Bool) (h : scanSt q e a = some (q', e')) :
    scanLen q e (a ++ r) = a.length + scanLen q' e' r := by
  induction a generalizing q e with
  | nil => simp [scanSt] at h; obtain ⟨rfl, rfl⟩ := h; simp
  | cons c a ih =>
    cases e with
    | true =>
      simp only [scanSt] at h
      simp only [List.cons_append, scanLen, List.length_cons]
      rw [ih _ _ h]; omega
    | false =>
      cases q with
      | false =>
        simp only [scanSt] at h
        simp only [List.cons_append, scanLen, List.length_cons]
        split at h
        · rename_i hc; simp only [hc, ↓reduceIte]; rw [ih _ _ h]; omega
        · split at h
          · exact absurd h (by simp)
          · rename_i h1 h2; simp only [h1, h2, ↓reduceIte]; rw [ih _ _ h]; omega
      | true =>
        simp only [scanSt] at h
        simp only [List.cons_append, scanLen, List.length_cons]
        split at h
        · rename_i hc; simp only [hc, ↓reduceIte]; rw [ih _ _ h]; omega
        · split at h
          · rename_i h1 h2; subst h2; simp only [show ¬ ((92 : UInt8) = 34) by decide, ↓reduceIte]; rw [ih _ _ h]; omega
          · rename_i h1 h2; simp only [h1, h2, ↓reduceIte]; rw [ih _ _ h]; omega

theorem scanLen_nil (q e : Bool) : scanLen q e [] = 0 := by
  cases q <;> cases e <;> rfl

theorem scanLen_comma (r : Bytes) : scanLen false false (44 :: r) = 0 := by
  simp [scanLen]

theorem scanLen_le (q e : Bool) (a : Bytes) : scanLen q e a ≤ a.length := by
  induction a generalizing q e with
  | nil => simp [scanLen_nil]
  | cons c a ih =>
    cases e with
    | true => simp only [scanLen, List.length_cons]; have := ih q false; omega
    | false =>
      cases q with
      | false =>
        simp only [scanLen, List.length_cons]
        split
        · have := ih true false; omega
        · split
          · omega
          · have := ih false false; omega
      | true =>
        simp only [scanLen, List.length_cons]
        split
        · have := ih false false; omega
        · split
          · have := ih true true; omega
          · have := ih true false; omega

/-- the scanned part never contains a comma outside quotes, and what follows it is the end or that comma -/
theorem scanSt_take_scanLen (q e : Bool) (a : Bytes) :
    ∃ q' e', scanSt q e (a.take (scanLen q e a)) = some (q', e') ∧
      (a.drop (scanLen q e a) = [] ∨ (q' = false ∧ e' = false ∧ ∃ r, a.drop (scanLen q e a) = 44 :: r)) := by
  induction a generalizing q e with
  | nil => exact ⟨q, e, by simp [scanLen_nil, scanSt], Or.inl (by simp)⟩
  | cons c a ih =>
    cases e with
    | true =>
      obtain ⟨q', e', h1, h2⟩ := ih q false
      refine ⟨q', e', ?_, ?_⟩
      · simp only [scanLen, Nat.add_comm 1, List.take_succ_cons, scanSt]; exact h1
      · simp only [scanLen, Nat.add_comm 1, List.drop_succ_cons]; exact h2
    | false =>
      cases q with
      | false =>
        by_cases hc : c = 34
        · obtain ⟨q', e', h1, h2⟩ := ih true false
          refine ⟨q', e', ?_, ?_⟩
          · simp only [scanLen, hc, ↓reduceIte, Nat.add_comm 1, List.take_succ_cons, scanSt]; exact h1
          · simp only [scanLen, hc, ↓reduceIte, Nat.add_comm 1, List.drop_succ_cons]; exact h2
        · by_cases hk : c = 44
          · subst hk
            refine ⟨false, false, ?_, Or.inr ⟨rfl, rfl, a, ?_⟩⟩
            · simp [scanLen, scanSt]
            · simp [scanLen]
          · obtain ⟨q', e', h1, h2⟩ := ih false false
            refine ⟨q', e', ?_, ?_⟩
            · simp only [scanLen, hc, hk, ↓reduceIte, Nat.add_comm 1, List.take_succ_cons, scanSt]; exact h1
            · simp only [scanLen, hc, hk, ↓reduceIte, Nat.add_comm 1, List.drop_succ_cons]; exact h2
      | true =>
        by_cases hc : c = 34
        · obtain ⟨q', e', h1, h2⟩ := ih false false
          refine ⟨q', e', ?_, ?_⟩
          · simp only [scanLen, hc, ↓reduceIte, Nat.add_comm 1, List.take_succ_cons, scanSt]; exact h1
          · simp only [scanLen, hc, ↓reduceIte, Nat.add_comm 1, List.drop_succ_cons]; exact h2
        · by_cases hk : c = 92
          · obtain ⟨q', e', h1, h2⟩ := ih true true
            refine ⟨q', e', ?_, ?_⟩
            · simp only [scanLen, hc, hk, ↓reduceIte, Nat.add_comm 1, List.take_succ_cons, scanSt]; exact h1
            · simp only [scanLen, hc, hk, ↓reduceIte, Nat.add_comm 1, List.drop_succ_cons]; exact h2
          · obtain ⟨q', e', h1, h2⟩ := ih true false
            refine ⟨q', e', ?_, ?_⟩
            · simp only [scanLen, hc, hk, ↓reduceIte, Nat.add_comm 1, List.take_succ_cons, scanSt]; exact h1
            · simp only [scanLen, hc, hk, ↓reduceIte, Nat.add_comm 1, List.drop_succ_cons]; exact h2

theorem scanSt_append (q e : Bool) (a b : Bytes) :
    scanSt q e (a ++ b) = (scanSt q e a).bind (fun st => scanSt st.1 st.2 b) := by
  induction a generalizing q e with
  | nil => simp [scanSt]
  | cons c a ih =>
    cases e with
    | true => simp only [List.cons_append, scanSt]; exact ih _ _
    | false =>
      cases q with
      | false =>
        simp only [List.cons_append, scanSt]
        split
        · exact ih _ _
        · split
          · simp
          · exact ih _ _
      | true =>
        simp only [List.cons_append, scanSt]
        split
        · exact ih _ _
        · split
          · exact ih _ _
          · exact ih _ _

/-- "escaped" only ever happens inside quotes -/
theorem scanSt_inv (q e : Bool) (a : Bytes) (q' e' : Bool) (h : scanSt q e a = some (q', e'))
    (hi : e = true → q = true) : e' = true → q' = true := by
  induction a generalizing q e with
  | nil => simp [scanSt] at h; obtain ⟨rfl, rfl⟩ := h; exact hi
  | cons c a ih =>
    cases e with
    | true => simp only [scanSt] at h; exact ih _ _ h (by simp)
    | false =>
      cases q with
      | false =>
        simp only [scanSt] at h
        split at h
        · exact ih _ _ h (by simp)
        · split at h
          · simp at h
          · exact ih _ _ h (by simp)
      | true =>
        simp only [scanSt] at h
        split at h
        · exact ih _ _ h (by simp)
        · split at h
          · exact ih _ _ h (by simp)
          · exact ih _ _ h (by simp)

theorem scanSt_prefix (q e : Bool) (a b : Bytes) (st : Bool × Bool) (h : scanSt q e (a ++ b) = some st) :
    ∃ st', scanSt q e a = some st' := by
  rw [scanSt_append] at h
  cases h' : scanSt q e a with
  | none => simp [h'] at h
  | some s => exact ⟨s, rfl⟩

/-- removing trailing white space from a scanned text that ended outside quotes leaves a text that ends outside quotes -/
theorem scanSt_strip (a ws : Bytes) (hws : ∀ c ∈ ws, isSpaceC c = true)
    (h : scanSt false false (a ++ ws) = some (false, false)) : scanSt false false a = some (false, false) := by
  induction ws generalizing a with
  | nil => simpa using h
  | cons w ws ih =>
    have h1 : scanSt false false ((a ++ [w]) ++ ws) = some (false, false) := by simpa using h
    have h2 := ih (a ++ [w]) (fun c hc => hws c (List.mem_cons_of_mem _ hc)) h1
    rw [scanSt_append] at h2
    have hw := hws w (List.mem_cons_self)
    have hw34 : w ≠ 34 := by intro hh; subst hh; revert hw; decide
    have hw44 : w ≠ 44 := by intro hh; subst hh; revert hw; decide
    have hw92 : w ≠ 92 := by intro hh; subst hh; revert hw; decide
    cases h' : scanSt false false a with
    | none => simp [h'] at h2
    | some s =>
      obtain ⟨q', e'⟩ := s
      have hinv := scanSt_inv false false a q' e' h' (by simp)
      simp only [h', Option.bind_some] at h2
      cases e' with
      | true =>
        have := hinv rfl; subst this
        simp [scanSt] at h2
      | false =>
        cases q' with
        | false => rfl
        | true => simp [scanSt, hw34, hw92] at h2

/-! ### trimming -/

theorem rtrimLen_le (l : Bytes) : rtrimLen l ≤ l.length := by
  induction l with
  | nil => simp [rtrimLen]
  | cons c r ih => simp only [rtrimLen, List.length_cons]; split <;> omega

theorem rtrimLen_cons_of_ne_zero (c : UInt8) (r : Bytes) (h : rtrimLen r ≠ 0) : rtrimLen (c :: r) = rtrimLen r + 1 := by
  simp [rtrimLen, h]

theorem rtrimLen_of_last (l : Bytes) (hne : l ≠ []) (h : isSpaceC (l.getLast hne) = false) : rtrimLen l = l.length := by
  induction l with
  | nil => exact absurd rfl hne
  | cons c r ih =>
    cases r with
    | nil => simp only [List.getLast_singleton] at h; simp [rtrimLen, h]
    | cons d r' =>
      have ih' := ih (by simp) (by simpa using h)
      rw [rtrimLen_cons_of_ne_zero c _ (by rw [ih']; simp), ih']
      simp

/-- the kept part plus only white space -/
theorem rtrimLen_split (l : Bytes) : ∀ c ∈ l.drop (rtrimLen l), isSpaceC c = true := by
  induction l with
  | nil => simp
  | cons c r ih =>
    simp only [rtrimLen]
    split
    · rename_i h
      intro x hx
      simp only [List.drop_zero, List.mem_cons] at hx
      rcases hx with rfl | hx
      · exact h.2
      · have := ih x; rw [h.1] at this; exact this (by simpa using hx)
    · intro x hx
      simp only [List.drop_succ_cons] at hx
      exact ih x hx

theorem rtrimLen_take (l : Bytes) : rtrimLen (l.take (rtrimLen l)) = rtrimLen l := by
  induction l with
  | nil => simp [rtrimLen]
  | cons c r ih =>
    simp only [rtrimLen]
    split
    · simp [rtrimLen]
    · rename_i h
      simp only [List.take_succ_cons, rtrimLen, ih]
      rw [if_neg h]

/-- what `strListGetItem` can return as an item: non-empty, does not start with a skipped octet, does not end in white space,
no comma outside quotes -/
structure GoodItem (a : Bytes) : Prop where
  ne : a ≠ []
  head : ∀ c, a.head? = some c → isLeadDelim c = false
  trail : rtrimLen a = a.length
  scan : ∃ st, scanSt false false a = some st

/-- the item ends outside quotes (so that a following comma is a separator) -/
def Closed (a : Bytes) : Prop := scanSt false false a = some (false, false)

theorem dropWhile_of_head (a : Bytes) (h : ∀ c, a.head? = some c → isLeadDelim c = false) : a.dropWhile isLeadDelim = a := by
  cases a with
  | nil => rfl
  | cons c r => simp [List.dropWhile_cons, h c rfl]

theorem getItem_good_comma (a r : Bytes) (hg : GoodItem a) (hc : Closed a) :
    getItem (a ++ 44 :: r) = some (a ++ 44 :: r, a.length, 44 :: r) := by
  have hne := hg.ne
  have hd : (a ++ 44 :: r).dropWhile isLeadDelim = a ++ 44 :: r := by
    apply dropWhile_of_head
    intro c h
    cases a with
    | nil => exact absurd rfl hne
    | cons x xs => exact hg.head c (by simpa using h)
  have hn : scanLen false false (a ++ 44 :: r) = a.length := by
    rw [scanLen_append false false a (44 :: r) false false hc, scanLen_comma]; rfl
  unfold getItem
  simp only [hd, hn, List.take_left', hg.trail, List.drop_left']
  have : a.length ≠ 0 := by
    intro h; exact hne (List.length_eq_zero_iff.mp h)
  simp [this]

theorem getItem_good_end (a : Bytes) (hg : GoodItem a) : getItem a = some (a, a.length, []) := by
  have hne := hg.ne
  have hd : a.dropWhile isLeadDelim = a := dropWhile_of_head a hg.head
  obtain ⟨st, hst⟩ := hg.scan
  have hn : scanLen false false a = a.length := by
    have := scanLen_append false false a [] st.1 st.2 hst
    simpa [scanLen_nil] using this
  unfold getItem
  simp only [hd, hn, List.take_length, hg.trail, List.drop_length]
  have : a.length ≠ 0 := by
    intro h; exact hne (List.length_eq_zero_iff.mp h)
  simp [this]

theorem getItem_skip (d : UInt8) (r : Bytes) (h : isLeadDelim d = true) : getItem (d :: r) = getItem r := by
  unfold getItem
  simp [List.dropWhile_cons, h]

theorem getItem_nil : getItem [] = none := by
  simp [getItem, scanLen_nil, rtrimLen]

theorem itemsAux_skip (f : Nat) (d : UInt8) (r : Bytes) (h : isLeadDelim d = true) :
    itemsAux f (d :: r) = itemsAux f r := by
  cases f with
  | zero => rfl
  | succ f => simp only [itemsAux, getItem_skip d r h]

/-- `", "`-joined list -/
def joinItems : List Bytes → Bytes
  | [] => []
  | [a] => a
  | a :: b :: r => a ++ 44 :: 32 :: joinItems (b :: r)

/-- the (pointer, length) pairs the iteration yields on a joined list -/
def suffixItems : List Bytes → List (Bytes × Nat)
  | [] => []
  | a :: r => (joinItems (a :: r), a.length) :: suffixItems r

theorem joinItems_length_ge (a : Bytes) (r : List Bytes) : a.length ≤ (joinItems (a :: r)).length := by
  cases r with
  | nil => simp [joinItems]
  | cons b r => simp [joinItems]

/-- all elements but the last end outside quotes -/
def InitClosed : List Bytes → Prop
  | [] => True
  | [_] => True
  | a :: b :: r => Closed a ∧ InitClosed (b :: r)

theorem itemsAux_join (es : List Bytes) (hg : ∀ e ∈ es, GoodItem e) (hc : InitClosed es) (f : Nat)
    (hf : (joinItems es).length + 1 ≤ f) : itemsAux f (joinItems es) = suffixItems es := by
  induction es generalizing f with
  | nil =>
    cases f with
    | zero => rfl
    | succ f => simp [joinItems, itemsAux, getItem_nil, suffixItems]
  | cons a r ih =>
    cases f with
    | zero => omega
    | succ f =>
      cases r with
      | nil =>
        have ha := hg a (List.mem_cons_self)
        simp only [joinItems, itemsAux, getItem_good_end a ha, suffixItems]
        cases f with
        | zero => rfl
        | succ f => simp [itemsAux, getItem_nil]
      | cons b r' =>
        have ha := hg a (List.mem_cons_self)
        have hcl : Closed a := hc.1
        simp only [joinItems, itemsAux, getItem_good_comma a _ ha hcl, suffixItems]
        congr 1
        rw [itemsAux_skip f 44 _ (by decide), itemsAux_skip f 32 _ (by decide)]
        have := ih (fun e he => hg e (List.mem_cons_of_mem _ he)) hc.2 f (by
          simp only [joinItems, List.length_append, List.length_cons] at hf
          have hne := ha.ne
          have : a.length ≠ 0 := fun h => hne (List.length_eq_zero_iff.mp h)
          omega)
        rw [this]; rfl

theorem items_join (es : List Bytes) (hg : ∀ e ∈ es, GoodItem e) (hc : InitClosed es) :
    items (joinItems es) = suffixItems es :=
  itemsAux_join es hg hc _ (Nat.le_refl _)

theorem dropWhile_head (p : UInt8 → Bool) (l : Bytes) : ∀ c, (l.dropWhile p).head? = some c → p c = false := by
  induction l with
  | nil => simp
  | cons x xs ih =>
    intro c h
    by_cases hx : p x = true
    · simp only [List.dropWhile_cons, hx, ↓reduceIte] at h; exact ih c h
    · simp only [List.dropWhile_cons, hx, Bool.false_eq_true, ↓reduceIte, List.head?_cons, Option.some.injEq] at h
      subst h; simpa using hx

theorem dropWhile_length_le (p : UInt8 → Bool) (l : Bytes) : (l.dropWhile p).length ≤ l.length := by
  induction l with
  | nil => simp
  | cons x xs ih =>
    simp only [List.dropWhile_cons]
    split
    · simp; omega
    · simp

/-- every successful call of the splitter yields a good item; the call consumed at least one octet; what is left is the end
of the value or starts with the comma that closed the item -/
theorem getItem_spec (pos item pos' : Bytes) (ilen : Nat) (h : getItem pos = some (item, ilen, pos')) :
    GoodItem (item.take ilen) ∧ ilen ≤ item.length ∧ ilen ≠ 0 ∧ pos'.length < pos.length ∧
    (pos' = [] ∨ (Closed (item.take ilen) ∧ ∃ r, pos' = 44 :: r)) := by
  unfold getItem at h
  simp only at h
  split at h
  · exact absurd h (by simp)
  · rename_i hil
    simp only [Option.some.injEq, Prod.mk.injEq] at h
    obtain ⟨h1, h2, h3⟩ := h
    subst h1
    generalize hn : scanLen false false (List.dropWhile isLeadDelim pos) = n at *
    generalize hitem : List.dropWhile isLeadDelim pos = item at *
    have hnle : n ≤ item.length := by rw [← hn]; exact scanLen_le _ _ _
    have hile : ilen ≤ n := by
      rw [← h2]; have := rtrimLen_le (item.take n); simp only [List.length_take] at this; omega
    have htt : (item.take n).take ilen = item.take ilen := by
      rw [List.take_take]; congr 1; omega
    have hlen : (item.take ilen).length = ilen := by simp; omega
    have hil' : ilen ≠ 0 := by rw [← h2]; exact hil
    obtain ⟨q', e', hs1, hs2⟩ := scanSt_take_scanLen false false item
    rw [hn] at hs1 hs2
    have hsplit : item.take n = item.take ilen ++ (item.take n).drop ilen := by
      rw [← htt]; exact (List.take_append_drop ilen (item.take n)).symm
    have hws : ∀ c ∈ (item.take n).drop ilen, isSpaceC c = true := by
      rw [← h2]; exact rtrimLen_split (item.take n)
    refine ⟨⟨?_, ?_, ?_, ?_⟩, by omega, hil', ?_, ?_⟩
    · intro hnil; rw [hnil] at hlen; simp at hlen; exact hil' hlen.symm
    · intro c hc
      rw [List.head?_take] at hc
      simp only [hil', ↓reduceIte] at hc
      rw [← hitem] at hc
      exact dropWhile_head _ _ c hc
    · rw [hlen, ← htt, ← h2, rtrimLen_take]
    · rw [hsplit] at hs1
      exact scanSt_prefix _ _ _ _ _ hs1
    · rw [← h3, List.length_drop]
      have := dropWhile_length_le isLeadDelim pos
      rw [hitem] at this
      omega
    · rcases hs2 with hs2 | ⟨rfl, rfl, r, hr⟩
      · left; rw [← h3]; exact hs2
      · right
        refine ⟨?_, r, by rw [← h3]; exact hr⟩
        rw [hsplit] at hs1
        exact scanSt_strip _ _ hws hs1

/-- the texts of the items -/
def itemTexts (its : List (Bytes × Nat)) : List Bytes := its.map (fun it => it.1.take it.2)

theorem itemsAux_spec (f : Nat) (pos : Bytes) :
    (∀ e ∈ itemTexts (itemsAux f pos), GoodItem e) ∧ InitClosed (itemTexts (itemsAux f pos)) ∧
    (∀ it ∈ itemsAux f pos, it.2 ≤ it.1.length ∧ it.2 ≠ 0) := by
  induction f generalizing pos with
  | zero => simp [itemsAux, itemTexts, InitClosed]
  | succ f ih =>
    simp only [itemsAux]
    cases hgi : getItem pos with
    | none => simp [itemTexts, InitClosed]
    | some r =>
      obtain ⟨item, ilen, pos'⟩ := r
      obtain ⟨hg, hle, hne, _, hrest⟩ := getItem_spec pos item pos' ilen hgi
      obtain ⟨ih1, ih2, ih3⟩ := ih pos'
      simp only [itemTexts, List.map_cons, List.mem_cons, forall_eq_or_imp] at *
      refine ⟨⟨hg, ih1⟩, ?_, ⟨⟨hle, hne⟩, ih3⟩⟩
      cases hrest with
      | inl hnil =>
        subst hnil
        cases f with
        | zero => simp [itemsAux, InitClosed]
        | succ f => simp [itemsAux, getItem_nil, InitClosed]
      | inr hcl =>
        cases hm : List.map (fun it => List.take it.2 it.1) (itemsAux f pos') with
        | nil => simp [InitClosed]
        | cons b r => rw [hm] at ih2; exact ⟨hcl.1, ih2⟩


/-! ### the iteration is never cut short -/

theorem dropWhile_nil_all (p : UInt8 → Bool) (l : Bytes) (h : l.dropWhile p = []) : ∀ c ∈ l, p c = true := by
  induction l with
  | nil => simp
  | cons x xs ih =>
    by_cases hx : p x = true
    · simp only [List.dropWhile_cons, hx, ↓reduceIte] at h
      intro c hc
      simp only [List.mem_cons] at hc
      rcases hc with rfl | hc
      · exact hx
      · exact ih h c hc
    · simp [List.dropWhile_cons, hx] at h

theorem space_is_leadDelim (c : UInt8) (h : isSpaceC c = true) : isLeadDelim c = true := by
  have h2 := forall_octet (fun c => !isSpaceC c || isLeadDelim c) (by decide +kernel) c
  simpa [h] using h2

/-- `strListGetItem` returns 0 only when nothing but white space and commas is left: an element cannot end the list early
(before the repair of `delim[2]` an element of VT/FF did) -/
theorem getItem_none (pos : Bytes) (h : getItem pos = none) : ∀ c ∈ pos, isLeadDelim c = true := by
  unfold getItem at h
  simp only at h
  split at h
  · rename_i hz
    cases hitem : List.dropWhile isLeadDelim pos with
    | nil => exact dropWhile_nil_all _ _ hitem
    | cons c r =>
      exfalso
      rw [hitem] at hz
      have hc : isLeadDelim c = false := dropWhile_head isLeadDelim pos c (by rw [hitem]; rfl)
      have hns : isSpaceC c = false := by
        cases hs : isSpaceC c with
        | false => rfl
        | true => rw [space_is_leadDelim c hs] at hc; exact absurd hc (by simp)
      have h44 : c ≠ 44 := by intro hh; subst hh; revert hc; decide
      have hn : ∃ m, scanLen false false (c :: r) = m + 1 := by
        simp only [scanLen, h44, ↓reduceIte]
        split
        · exact ⟨_, Nat.add_comm _ _⟩
        · exact ⟨_, Nat.add_comm _ _⟩
      obtain ⟨m, hm⟩ := hn
      rw [hm, List.take_succ_cons] at hz
      simp [rtrimLen, hns] at hz
  · simp at h

/-- … so the items of a value are all of its elements: after the last item only separators are left -/
theorem itemsAux_complete (f : Nat) (pos : Bytes) (hf : pos.length + 1 ≤ f) :
    ∃ tail, (∀ c ∈ tail, isLeadDelim c = true) ∧
      (itemsAux f pos = [] → tail = pos) ∧
      (∀ it ∈ (itemsAux f pos).getLast?, ∃ k, tail = it.1.drop k ∧ it.2 ≤ k) := by
  induction f generalizing pos with
  | zero => omega
  | succ f ih =>
    simp only [itemsAux]
    cases hg : getItem pos with
    | none => exact ⟨pos, getItem_none pos hg, fun _ => rfl, by simp⟩
    | some r =>
      obtain ⟨item, ilen, pos'⟩ := r
      obtain ⟨_, hle, hne, hlt, _⟩ := getItem_spec pos item pos' ilen hg
      obtain ⟨tail, ht1, ht2, ht3⟩ := ih pos' (by omega)
      refine ⟨tail, ht1, by simp, ?_⟩
      intro it hit
      cases hrest : itemsAux f pos' with
      | nil =>
        simp only [hrest, List.getLast?_singleton, Option.mem_def, Option.some.injEq] at hit
        subst hit
        have := ht2 hrest
        -- pos' = item.drop n with n ≥ ilen
        unfold getItem at hg
        simp only at hg
        split at hg
        · simp at hg
        · simp only [Option.some.injEq, Prod.mk.injEq] at hg
          obtain ⟨h1, h2, h3⟩ := hg
          refine ⟨scanLen false false item, ?_, ?_⟩
          · rw [this, ← h3, h1]
          · rw [← h2, ← h1]
            have := rtrimLen_le (List.take (scanLen false false (List.dropWhile isLeadDelim pos)) (List.dropWhile isLeadDelim pos))
            simp only [List.length_take] at this
            omega
      | cons b r' =>
        rw [hrest] at ht3
        simp only [hrest, List.getLast?_cons_cons] at hit
        exact ht3 it hit

end SquidModel.Cc
