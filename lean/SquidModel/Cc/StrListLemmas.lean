/-
C29: facts about the list splitter model (`strListGetItem`): the scan state, trimming, and what the items of a well-formed
comma separated list are.
-/
import SquidModel.Cc.NumLemmas
open SquidModel SquidModel.Cc
namespace SquidModel.Cc

/-- state of the splitter's scan after all of `a` (`none`: a comma outside quotes occurs in `a`) -/
def scanSt : Bool → Bool → Bytes → Option (Bool × Bool)
  | q, e, [] => some (q, e)
  | q, true, _ :: r => scanSt q false r
  | false, false, c :: r =>
    if c = 34 then scanSt true false r
    else if c = 44 then none
    else scanSt false false r
  | true, false, c :: r =>
    if c = 34 then scanSt false false r
    else if c = 92 then scanSt true true r
    else scanSt true false r

theorem scanLen_append (q e : Bool) (a r : Bytes) (q' e' : Bool) (h : scanSt q e a = some (q', e')) :
    scanLen q e (a ++ r) = a.length + scanLen q' e' r := by
  induction a generalizing q e with
  | nil => simp [scanSt] at h; obtain ⟨rfl, rfl⟩ := h; simp
  | cons c a ih =>
    cases e with
    | true =>
      simp only [scanSt] at h
      simp only [List.cons_append, scanLen, List.length_cons]
      rw [ih _ _ h]; omega
    | false =>
      cases q with
      | false =>
        simp only [scanSt] at h
        simp only [List.cons_append, scanLen, List.length_cons]
        split at h
        · rename_i hc; simp only [hc, ↓reduceIte]; rw [ih _ _ h]; omega
        · split at h
          · exact absurd h (by simp)
          · rename_i h1 h2; simp only [h1, h2, ↓reduceIte]; rw [ih _ _ h]; omega
      | true =>
        simp only [scanSt] at h
        simp only [List.cons_append, scanLen, List.length_cons]
        split at h
        · rename_i hc; simp only [hc, ↓reduceIte]; rw [ih _ _ h]; omega
        · split at h
          · rename_i h1 h2; subst h2; simp only [show ¬ ((92 : UInt8) = 34) by decide, ↓reduceIte]; rw [ih _ _ h]; omega
          · rename_i h1 h2; simp only [h1, h2, ↓reduceIte]; rw [ih _ _ h]; omega

theorem scanLen_nil (q e : Bool) : scanLen q e [] = 0 := by
  cases q <;> cases e <;> rfl

theorem scanLen_comma (r : Bytes) : scanLen false false (44 :: r) = 0 := by
  simp [scanLen]

theorem scanLen_le (q e : Bool) (a : Bytes) : scanLen q e a ≤ a.length := by
  induction a generalizing q e with
  | nil => simp [scanLen_nil]
  | cons c a ih =>
    cases e with
    | true => simp only [scanLen, List.length_cons]; have := ih q false; omega
    | false =>
      cases q with
      | false =>
        simp only [scanLen, List.length_cons]
        split
        · have := ih true false; omega
        · split
          · omega
          · have := ih false false; omega
      | true =>
        simp only [scanLen, List.length_cons]
        split
        · have := ih false false; omega
        · split
          · have := ih true true; omega
          · have := ih true false; omega

/-- the scanned part never contains a comma outside quotes, and what follows it is the end or that comma -/
theorem scanSt_take_scanLen (q e : Bool) (a : Bytes) :
    ∃ q' e', scanSt q e (a.take (scanLen q e a)) = some (q', e') ∧
      (a.drop (scanLen q e a) = [] ∨ (q' = false ∧ e' = false ∧ ∃ r, a.drop (scanLen q e a) = 44 :: r)) := by
  induction a generalizing q e with
  | nil => exact ⟨q, e, by simp [scanLen_nil, scanSt], Or.inl (by simp)⟩
  | cons c a ih =>
    cases e with
    | true =>
      obtain ⟨q', e', h1, h2⟩ := ih q false
      refine ⟨q', e', ?_, ?_⟩
      · simp only [scanLen, Nat.add_comm 1, List.take_succ_cons, scanSt]; exact h1
      · simp only [scanLen, Nat.add_comm 1, List.drop_succ_cons]; exact h2
    | false =>
      cases q with
      | false =>
        by_cases hc : c = 34
        · obtain ⟨q', e', h1, h2⟩ := ih true false
          refine ⟨q', e', ?_, ?_⟩
          · simp only [scanLen, hc, ↓reduceIte, Nat.add_comm 1, List.take_succ_cons, scanSt]; exact h1
          · simp only [scanLen, hc, ↓reduceIte, Nat.add_comm 1, List.drop_succ_cons]; exact h2
        · by_cases hk : c = 44
          · subst hk
            refine ⟨false, false, ?_, Or.inr ⟨rfl, rfl, a, ?_⟩⟩
            · simp [scanLen, scanSt]
            · simp [scanLen]
          · obtain ⟨q', e', h1, h2⟩ := ih false false
            refine ⟨q', e', ?_, ?_⟩
            · simp only [scanLen, hc, hk, ↓reduceIte, Nat.add_comm 1, List.take_succ_cons, scanSt]; exact h1
            · simp only [scanLen, hc, hk, ↓reduceIte, Nat.add_comm 1, List.drop_succ_cons]; exact h2
      | true =>
        by_cases hc : c = 34
        · obtain ⟨q', e', h1, h2⟩ := ih false false
          refine ⟨q', e', ?_, ?_⟩
          · simp only [scanLen, hc, ↓reduceIte, Nat.add_comm 1, List.take_succ_cons, scanSt]; exact h1
          · simp only [scanLen, hc, ↓reduceIte, Nat.add_comm 1, List.drop_succ_cons]; exact h2
        · by_cases hk : c = 92
          · obtain ⟨q', e', h1, h2⟩ := ih true true
            refine ⟨q', e', ?_, ?_⟩
            · simp only [scanLen, hc, hk, ↓reduceIte, Nat.add_comm 1, List.take_succ_cons, scanSt]; exact h1
            · simp only [scanLen, hc, hk, ↓reduceIte, Nat.add_comm 1, List.drop_succ_cons]; exact h2
          · obtain ⟨q', e', h1, h2⟩ := ih true false
            refine ⟨q', e', ?_, ?_⟩
            · simp only [scanLen, hc, hk, ↓reduceIte, Nat.add_comm 1, List.take_succ_cons, scanSt]; exact h1
            · simp only [scanLen, hc, hk, ↓reduceIte, Nat.add_comm 1, List.drop_succ_cons]; exact h2

