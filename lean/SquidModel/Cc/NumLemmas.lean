/-
C29: facts about the numeric pieces of the model (`atoi`, `httpHeaderParseInt`, `%d`).
-/
import SquidModel.Cc.Parse
import SquidModel.Base.Finite
open SquidModel SquidModel.Cc
namespace SquidModel.Cc

theorem isDigitC_eq (c : UInt8) : isDigitC c = (decide (48 ≤ c) && decide (c ≤ 57)) := by
  have h := forall_octet (fun c => isDigitC c == (decide (48 ≤ c) && decide (c ≤ 57))) (by decide +kernel) c
  simpa using h

theorem isSpaceC_eq (c : UInt8) : isSpaceC c = (decide (c = 32) || (decide (9 ≤ c) && decide (c ≤ 13))) := by
  have h := forall_octet (fun c => isSpaceC c == (decide (c = 32) || (decide (9 ≤ c) && decide (c ≤ 13)))) (by decide +kernel) c
  simpa using h

theorem isDigitC_iff (c : UInt8) : isDigitC c = true ↔ 48 ≤ c ∧ c ≤ 57 := by
  rw [isDigitC_eq]; simp

theorem digit_not_space (c : UInt8) (h : isDigitC c = true) : isSpaceC c = false := by
  have h2 := forall_octet (fun c => !isDigitC c || !isSpaceC c) (by decide +kernel) c
  simp [h] at h2; exact h2

theorem INT_MAX_eq : INT_MAX = 2147483647 := by decide +kernel
theorem LONG_MAX_eq : LONG_MAX = 9223372036854775807 := by decide +kernel
theorem LONG_MIN_eq : LONG_MIN = -9223372036854775808 := by decide +kernel

theorem INT_MIN_eq : INT_MIN = -2147483648 := by decide +kernel

/-- LSB-first value -/
def valRev : Bytes → Nat
  | [] => 0
  | d :: r => (d.toNat - 48) + 10 * valRev r

theorem decVal_go (l : Bytes) (a : Nat) : l.foldl (fun a d => a * 10 + (d.toNat - 48)) a = a * 10 ^ l.length + decVal l := by
  induction l generalizing a with
  | nil => simp [decVal]
  | cons d r ih =>
    simp only [List.foldl_cons, decVal, List.length_cons]
    rw [ih, ih (0 * 10 + _)]
    simp [Nat.pow_succ, Nat.add_mul, Nat.mul_assoc, Nat.mul_comm 10, Nat.add_assoc]

theorem decVal_cons (d : UInt8) (r : Bytes) : decVal (d :: r) = (d.toNat - 48) * 10 ^ r.length + decVal r := by
  have := decVal_go r (0 * 10 + (d.toNat - 48))
  simp only [decVal, List.foldl_cons] at *
  rw [this]; simp

theorem decVal_append_single (l : Bytes) (d : UInt8) : decVal (l ++ [d]) = decVal l * 10 + (d.toNat - 48) := by
  simp [decVal, List.foldl_append]

theorem decVal_reverse (l : Bytes) : decVal l.reverse = valRev l := by
  induction l with
  | nil => simp [decVal, valRev]
  | cons d r ih => rw [List.reverse_cons, decVal_append_single, ih, valRev]; omega


/-! ### `%d` and back -/

theorem digitsRev_val (f n : Nat) (h : n < 10 ^ f) : valRev (digitsRev f n) = n := by
  induction f generalizing n with
  | zero => simp at h; subst h; simp [digitsRev, valRev]
  | succ f ih =>
    unfold digitsRev
    split
    · rename_i h10
      simp only [valRev]
      have : (UInt8.ofNat (48 + n)).toNat = 48 + n := by
        simp only [UInt8.toNat_ofNat']; omega
      rw [this]; omega
    · rename_i h10
      simp only [valRev]
      have hd : (UInt8.ofNat (48 + n % 10)).toNat = 48 + n % 10 := by
        simp only [UInt8.toNat_ofNat']; omega
      rw [hd, ih (n / 10) (by rw [Nat.pow_succ] at h; omega)]
      omega

theorem digitsRev_digits (f n : Nat) : ∀ d ∈ digitsRev f n, isDigitC d = true := by
  induction f generalizing n with
  | zero => simp [digitsRev]
  | succ f ih =>
    unfold digitsRev
    split
    · rename_i h10
      intro d hd
      simp only [List.mem_singleton] at hd
      subst hd
      rw [isDigitC_iff]
      have : (UInt8.ofNat (48 + n)).toNat = 48 + n := by simp only [UInt8.toNat_ofNat']; omega
      constructor <;> (rw [UInt8.le_iff_toNat_le, this]; simp; try omega)
    · intro d hd
      simp only [List.mem_cons] at hd
      rcases hd with hd | hd
      · subst hd
        rw [isDigitC_iff]
        have : (UInt8.ofNat (48 + n % 10)).toNat = 48 + n % 10 := by simp only [UInt8.toNat_ofNat']; omega
        constructor <;> (rw [UInt8.le_iff_toNat_le, this]; simp; try omega)
      · exact ih _ d hd

theorem digitsRev_ne_nil (f n : Nat) : digitsRev (f + 1) n ≠ [] := by
  unfold digitsRev; split <;> simp

theorem decVal_decimalNat (n : Nat) : decVal (decimalNat n) = n := by
  unfold decimalNat
  rw [decVal_reverse, digitsRev_val]
  exact Nat.lt_of_lt_of_le (Nat.lt_pow_self (by omega)) (Nat.pow_le_pow_right (by omega) (by omega))

theorem decimalNat_digits (n : Nat) : ∀ d ∈ decimalNat n, isDigitC d = true := by
  intro d hd
  unfold decimalNat at hd
  exact digitsRev_digits _ _ d (List.mem_reverse.mp hd)

theorem decimalNat_ne_nil (n : Nat) : decimalNat n ≠ [] := by
  unfold decimalNat
  simp only [ne_eq, List.reverse_eq_nil_iff]
  exact digitsRev_ne_nil n n

theorem decimal_of_nonneg (v : Int) (h : 0 ≤ v) : decimal v = decimalNat v.toNat := by
  unfold decimal
  have : ¬ v < 0 := by omega
  simp only [this, ↓reduceIte]
  congr 1
  omega

/-! ### `httpHeaderParseInt` on a run of digits -/

theorem takeWhile_digits_append (ds rest : Bytes) (hd : ∀ d ∈ ds, isDigitC d = true)
    (hr : ∀ c, rest.head? = some c → isDigitC c = false) : (ds ++ rest).takeWhile isDigitC = ds := by
  induction ds with
  | nil =>
    cases rest with
    | nil => rfl
    | cons c r => simp [List.takeWhile_cons, hr c rfl]
  | cons d r ih =>
    simp only [List.cons_append, List.takeWhile_cons, hd d (List.mem_cons_self), ↓reduceIte]
    rw [ih (fun x hx => hd x (List.mem_cons_of_mem _ hx))]

theorem strtolC_digits (ds rest : Bytes) (hne : ds ≠ []) (hd : ∀ d ∈ ds, isDigitC d = true)
    (hr : ∀ c, rest.head? = some c → isDigitC c = false) :
    strtolC (ds ++ rest) = if (decVal ds : Int) > LONG_MAX then (true, LONG_MAX, true) else (true, (decVal ds : Int), false) := by
  cases ds with
  | nil => exact absurd rfl hne
  | cons d r =>
    have hdd := hd d (List.mem_cons_self)
    have hns := digit_not_space d hdd
    have h45 : d ≠ 45 := by intro h; subst h; revert hdd; decide
    have h43 : d ≠ 43 := by intro h; subst h; revert hdd; decide
    unfold strtolC
    simp only [List.cons_append, List.dropWhile_cons, hns, Bool.false_eq_true, ↓reduceIte, List.head?_cons,
      Option.some.injEq, h45, skipSign, h43, or_self]
    have := takeWhile_digits_append (d :: r) rest hd hr
    simp only [List.cons_append] at this
    rw [this]
    simp

/-- 1*DIGIT that fits `int`, followed by a non-digit or the end: the decimal value -/
theorem parseInt_digits (ds rest : Bytes) (hne : ds ≠ []) (hd : ∀ d ∈ ds, isDigitC d = true)
    (hr : ∀ c, rest.head? = some c → isDigitC c = false) (hfit : (decVal ds : Int) ≤ INT_MAX) :
    parseInt (ds ++ rest) = (true, (decVal ds : Int)) := by
  have hs := strtolC_digits ds rest hne hd hr
  have hI := INT_MAX_eq
  have hm := INT_MIN_eq
  have hL := LONG_MAX_eq
  have hle : ¬ ((decVal ds : Int) > LONG_MAX) := by omega
  rw [if_neg hle] at hs
  cases ds with
  | nil => exact absurd rfl hne
  | cons d r =>
    have hh : headIsDigit (d :: r ++ rest) = true := by simp [headIsDigit, hd d (List.mem_cons_self)]
    unfold parseInt
    simp only [hs, hh]
    have h1 : ¬ ((decVal (d :: r) : Int) < INT_MIN) := by omega
    have h2 : ¬ ((decVal (d :: r) : Int) > INT_MAX) := by omega
    simp [h1, h2]

/-- 1*DIGIT that does not fit `int`: failure -/
theorem parseInt_digits_toobig (ds rest : Bytes) (hne : ds ≠ []) (hd : ∀ d ∈ ds, isDigitC d = true)
    (hr : ∀ c, rest.head? = some c → isDigitC c = false) (hbig : INT_MAX < (decVal ds : Int)) :
    parseInt (ds ++ rest) = (false, 0) := by
  have hs := strtolC_digits ds rest hne hd hr
  have hI := INT_MAX_eq
  have hL := LONG_MAX_eq
  unfold parseInt
  rw [hs]
  by_cases hgt : (decVal ds : Int) > LONG_MAX
  · simp [hgt]
  · have h2 : (decVal ds : Int) > INT_MAX := hbig
    simp [hgt, h2]

/-- `strtol` finds no number: after white space and an optional sign there is no digit -/
def NoNumber (start : Bytes) : Prop := (skipSign (start.dropWhile isSpaceC)).takeWhile isDigitC = []

theorem parseInt_noNumber (start : Bytes) (h : NoNumber start) : parseInt start = (false, 0) := by
  unfold NoNumber at h
  have hs : strtolC start = (false, 0, false) := by unfold strtolC; simp only [h, ↓reduceIte]
  unfold parseInt
  simp [hs]

/-- whatever the text, a value that is delivered is an `int` -/
theorem parseInt_range (s : Bytes) : -2147483648 ≤ (parseInt s).2 ∧ (parseInt s).2 ≤ 2147483647 := by
  have hI := INT_MAX_eq
  have hm := INT_MIN_eq
  unfold parseInt
  simp only
  split
  · simp
  · rename_i hc
    have h1 : ¬ ((strtolC s).2.1 < INT_MIN) := fun hh => hc (Or.inr (Or.inr (Or.inl hh)))
    have h2 : ¬ ((strtolC s).2.1 > INT_MAX) := fun hh => hc (Or.inr (Or.inr (Or.inr hh)))
    split <;> (simp only; omega)

end SquidModel.Cc
