/-
C29: facts about the numeric pieces of the model (`atoi`, `httpHeaderParseInt`, `%d`).
-/
import SquidModel.Cc.Parse
import SquidModel.Base.Finite
open SquidModel SquidModel.Cc
namespace SquidModel.Cc

theorem isDigitC_eq (c : UInt8) : isDigitC c = (decide (48 ≤ c) && decide (c ≤ 57)) := by
  have h := forall_octet (fun c => isDigitC c == (decide (48 ≤ c) && decide (c ≤ 57))) (by decide +kernel) c
  simpa using h

theorem isSpaceC_eq (c : UInt8) : isSpaceC c = (decide (c = 32) || (decide (9 ≤ c) && decide (c ≤ 13))) := by
  have h := forall_octet (fun c => isSpaceC c == (decide (c = 32) || (decide (9 ≤ c) && decide (c ≤ 13)))) (by decide +kernel) c
  simpa using h

theorem isDigitC_iff (c : UInt8) : isDigitC c = true ↔ 48 ≤ c ∧ c ≤ 57 := by
  rw [isDigitC_eq]; simp

theorem digit_not_space (c : UInt8) (h : isDigitC c = true) : isSpaceC c = false := by
  have h2 := forall_octet (fun c => !isDigitC c || !isSpaceC c) (by decide +kernel) c
  simp [h] at h2; exact h2

theorem INT_MAX_eq : INT_MAX = 2147483647 := by decide +kernel
theorem LONG_MAX_eq : LONG_MAX = 9223372036854775807 := by decide +kernel
theorem LONG_MIN_eq : LONG_MIN = -9223372036854775808 := by decide +kernel

theorem toIntC_eq (l : Int) : toIntC l = (l + 2147483648) % 4294967296 - 2147483648 := by
  unfold toIntC
  have h1 : (2:Int) ^ (Gen.CcDirectives.INT_BITS - 1) = 2147483648 := by decide +kernel
  have h2 : (2:Int) ^ Gen.CcDirectives.INT_BITS = 4294967296 := by decide +kernel
  rw [h1, h2]

theorem toIntC_id (l : Int) (h0 : -2147483648 ≤ l) (h1 : l ≤ 2147483647) : toIntC l = l := by
  rw [toIntC_eq]; omega

/-- LSB-first value -/
def valRev : Bytes → Nat
  | [] => 0
  | d :: r => (d.toNat - 48) + 10 * valRev r

theorem decVal_go (l : Bytes) (a : Nat) : l.foldl (fun a d => a * 10 + (d.toNat - 48)) a = a * 10 ^ l.length + decVal l := by
  induction l generalizing a with
  | nil => simp [decVal]
  | cons d r ih =>
    simp only [List.foldl_cons, decVal, List.length_cons]
    rw [ih, ih (0 * 10 + _)]
    simp [Nat.pow_succ, Nat.add_mul, Nat.mul_assoc, Nat.mul_comm 10, Nat.add_assoc]

theorem decVal_cons (d : UInt8) (r : Bytes) : decVal (d :: r) = (d.toNat - 48) * 10 ^ r.length + decVal r := by
  have := decVal_go r (0 * 10 + (d.toNat - 48))
  simp only [decVal, List.foldl_cons] at *
  rw [this]; simp

theorem decVal_append_single (l : Bytes) (d : UInt8) : decVal (l ++ [d]) = decVal l * 10 + (d.toNat - 48) := by
  simp [decVal, List.foldl_append]

theorem decVal_reverse (l : Bytes) : decVal l.reverse = valRev l := by
  induction l with
  | nil => simp [decVal, valRev]
  | cons d r ih => rw [List.reverse_cons, decVal_append_single, ih, valRev]; omega


/-! ### `%d` and back -/

theorem digitsRev_val (f n : Nat) (h : n < 10 ^ f) : valRev (digitsRev f n) = n := by
  induction f generalizing n with
  | zero => simp at h; subst h; simp [digitsRev, valRev]
  | succ f ih =>
    unfold digitsRev
    split
    · rename_i h10
      simp only [valRev]
      have : (UInt8.ofNat (48 + n)).toNat = 48 + n := by
        simp only [UInt8.toNat_ofNat']; omega
      rw [this]; omega
    · rename_i h10
      simp only [valRev]
      have hd : (UInt8.ofNat (48 + n % 10)).toNat = 48 + n % 10 := by
        simp only [UInt8.toNat_ofNat']; omega
      rw [hd, ih (n / 10) (by rw [Nat.pow_succ] at h; omega)]
      omega

theorem digitsRev_digits (f n : Nat) : ∀ d ∈ digitsRev f n, isDigitC d = true := by
  induction f generalizing n with
  | zero => simp [digitsRev]
  | succ f ih =>
    unfold digitsRev
    split
    · rename_i h10
      intro d hd
      simp only [List.mem_singleton] at hd
      subst hd
      rw [isDigitC_iff]
      have : (UInt8.ofNat (48 + n)).toNat = 48 + n := by simp only [UInt8.toNat_ofNat']; omega
      constructor <;> (rw [UInt8.le_iff_toNat_le, this]; simp; try omega)
    · intro d hd
      simp only [List.mem_cons] at hd
      rcases hd with hd | hd
      · subst hd
        rw [isDigitC_iff]
        have : (UInt8.ofNat (48 + n % 10)).toNat = 48 + n % 10 := by simp only [UInt8.toNat_ofNat']; omega
        constructor <;> (rw [UInt8.le_iff_toNat_le, this]; simp; try omega)
      · exact ih _ d hd

theorem digitsRev_ne_nil (f n : Nat) : digitsRev (f + 1) n ≠ [] := by
  unfold digitsRev; split <;> simp

theorem decVal_decimalNat (n : Nat) : decVal (decimalNat n) = n := by
  unfold decimalNat
  rw [decVal_reverse, digitsRev_val]
  exact Nat.lt_of_lt_of_le (Nat.lt_pow_self (by omega)) (Nat.pow_le_pow_right (by omega) (by omega))

theorem decimalNat_digits (n : Nat) : ∀ d ∈ decimalNat n, isDigitC d = true := by
  intro d hd
  unfold decimalNat at hd
  exact digitsRev_digits _ _ d (List.mem_reverse.mp hd)

theorem decimalNat_ne_nil (n : Nat) : decimalNat n ≠ [] := by
  unfold decimalNat
  simp only [ne_eq, List.reverse_eq_nil_iff]
  exact digitsRev_ne_nil n n

theorem decimal_of_nonneg (v : Int) (h : 0 ≤ v) : decimal v = decimalNat v.toNat := by
  unfold decimal
  have : ¬ v < 0 := by omega
  simp only [this, ↓reduceIte]
  congr 1
  omega

/-! ### `httpHeaderParseInt` on a run of digits -/

theorem takeWhile_digits_append (ds rest : Bytes) (hd : ∀ d ∈ ds, isDigitC d = true)
    (hr : ∀ c, rest.head? = some c → isDigitC c = false) : (ds ++ rest).takeWhile isDigitC = ds := by
  induction ds with
  | nil =>
    cases rest with
    | nil => rfl
    | cons c r => simp [List.takeWhile_cons, hr c rfl]
  | cons d r ih =>
    simp only [List.cons_append, List.takeWhile_cons, hd d (List.mem_cons_self), ↓reduceIte]
    rw [ih (fun x hx => hd x (List.mem_cons_of_mem _ hx))]

theorem strtolC_digits (ds rest : Bytes) (hne : ds ≠ []) (hd : ∀ d ∈ ds, isDigitC d = true)
    (hr : ∀ c, rest.head? = some c → isDigitC c = false) :
    strtolC (ds ++ rest) = if (decVal ds : Int) > LONG_MAX then LONG_MAX else (decVal ds : Int) := by
  cases ds with
  | nil => exact absurd rfl hne
  | cons d r =>
    have hdd := hd d (List.mem_cons_self)
    have hns := digit_not_space d hdd
    have h45 : d ≠ 45 := by intro h; subst h; revert hdd; decide
    have h43 : d ≠ 43 := by intro h; subst h; revert hdd; decide
    unfold strtolC
    simp only [List.cons_append, List.dropWhile_cons, hns, Bool.false_eq_true, ↓reduceIte, List.head?_cons,
      Option.some.injEq, h45, skipSign, h43, or_self]
    have := takeWhile_digits_append (d :: r) rest hd hr
    simp only [List.cons_append] at this
    rw [this]
    simp

theorem parseInt_snd (s : Bytes) : (parseInt s).2 = atoiC s := by
  unfold parseInt; split <;> rfl

theorem parseInt_digits (ds rest : Bytes) (hne : ds ≠ []) (hd : ∀ d ∈ ds, isDigitC d = true)
    (hr : ∀ c, rest.head? = some c → isDigitC c = false) (hfit : (decVal ds : Int) ≤ INT_MAX) :
    parseInt (ds ++ rest) = (true, (decVal ds : Int)) := by
  have hs := strtolC_digits ds rest hne hd hr
  have hI := INT_MAX_eq
  have hL := LONG_MAX_eq
  have hle : ¬ ((decVal ds : Int) > LONG_MAX) := by omega
  rw [if_neg hle] at hs
  cases ds with
  | nil => exact absurd rfl hne
  | cons d r =>
    have hh : headIsDigit (d :: r ++ rest) = true := by simp [headIsDigit, hd d (List.mem_cons_self)]
    unfold parseInt atoiC
    rw [hs, toIntC_id _ (by omega) (by omega), hh]
    simp

/-- `atoi` finds no number: after white space and an optional sign there is no digit -/
def NoNumber (start : Bytes) : Prop := (skipSign (start.dropWhile isSpaceC)).takeWhile isDigitC = []

theorem headIsDigit_of_noNumber (start : Bytes) (h : NoNumber start) : headIsDigit start = false := by
  unfold NoNumber at h
  cases start with
  | nil => rfl
  | cons c r =>
    simp only [headIsDigit]
    cases hc : isDigitC c with
    | false => rfl
    | true =>
      exfalso
      have hns := digit_not_space c hc
      have h45 : c ≠ 45 := by intro hh; subst hh; revert hc; decide
      have h43 : c ≠ 43 := by intro hh; subst hh; revert hc; decide
      simp [hns, skipSign, h45, h43, hc] at h

theorem parseInt_noNumber (start : Bytes) (h : NoNumber start) : parseInt start = (false, 0) := by
  have hf := headIsDigit_of_noNumber start h
  unfold NoNumber at h
  have hs : strtolC start = 0 := by unfold strtolC; simp only [h, ↓reduceIte]
  unfold parseInt atoiC
  rw [hs, toIntC_id 0 (by omega) (by omega), hf]
  simp

/-- digits only, but the value does not fit `int` and its low 32 bits read as a negative `int` (or `strtol` saturates):
the result is negative, which `HttpHdrCc::parse` treats as invalid -/
theorem parseInt_digits_negative (ds rest : Bytes) (hne : ds ≠ []) (hd : ∀ d ∈ ds, isDigitC d = true)
    (hr : ∀ c, rest.head? = some c → isDigitC c = false)
    (hbig : 2147483648 ≤ decVal ds ∧ (decVal ds < 4294967296 ∨ 9223372036854775807 ≤ decVal ds)) :
    (parseInt (ds ++ rest)).2 < 0 := by
  have hs := strtolC_digits ds rest hne hd hr
  have hL := LONG_MAX_eq
  rw [parseInt_snd]
  unfold atoiC
  rw [hs, toIntC_eq]
  split <;> omega

/-- whatever the text, the value `atoi` delivers is an `int` -/
theorem atoiC_range (s : Bytes) : -2147483648 ≤ atoiC s ∧ atoiC s ≤ 2147483647 := by
  unfold atoiC; rw [toIntC_eq]; omega

end SquidModel.Cc
