/-
C29: pack then parse. Part 1: joins, the all-but-last-closed property, the type of an item from its text, `other` per round;
part 2: the invariant of parse results (`Canon`); part 3: what `packInto` prints and how it is parsed back.
-/
import SquidModel.Cc.Exact
import SquidModel.Cc.QuotedLemmas
open SquidModel SquidModel.Cc
namespace SquidModel.Cc

/-! ### ", "-joins -/

theorem joinItems_cons_ne (a : Bytes) (r : List Bytes) (h : r ≠ []) :
    joinItems (a :: r) = a ++ 44 :: 32 :: joinItems r := by
  cases r with
  | nil => exact absurd rfl h
  | cons b r' => rfl

theorem joinItems_append (A B : List Bytes) (hA : A ≠ []) (hB : B ≠ []) :
    joinItems (A ++ B) = joinItems A ++ 44 :: 32 :: joinItems B := by
  induction A with
  | nil => exact absurd rfl hA
  | cons a r ih =>
    cases r with
    | nil => simp [joinItems, joinItems_cons_ne a B hB]
    | cons b r' =>
      have := ih (by simp)
      simp only [List.cons_append] at this ⊢
      rw [joinItems_cons_ne a _ (by simp), this, joinItems_cons_ne a (b :: r') (by simp)]
      simp

theorem joinItems_snoc (A : List Bytes) (d : Bytes) :
    joinItems (A ++ [d]) = if A = [] then d else joinItems A ++ 44 :: 32 :: d := by
  by_cases h : A = []
  · subst h; simp [joinItems]
  · rw [joinItems_append A [d] h (by simp)]; simp [h, joinItems]

theorem joinItems_eq_nil (L : List Bytes) (hne : ∀ e ∈ L, e ≠ []) (h : joinItems L = []) : L = [] := by
  cases L with
  | nil => rfl
  | cons a r =>
    exfalso
    have ha := hne a (List.mem_cons_self)
    cases r with
    | nil => simp [joinItems] at h; exact ha h
    | cons b r' => simp [joinItems] at h

/-! ### all-but-last closed -/

theorem initClosed_iff (l : List Bytes) : InitClosed l ↔ ∀ e ∈ l.dropLast, Closed e := by
  induction l with
  | nil => simp [InitClosed]
  | cons x r ih =>
    cases r with
    | nil => simp [InitClosed]
    | cons y r' =>
      simp only [InitClosed, List.dropLast_cons_cons, List.mem_cons, forall_eq_or_imp]
      rw [ih]

theorem initClosed_remove (A B : List Bytes) (x : Bytes) (h : InitClosed (A ++ x :: B)) : InitClosed (A ++ B) := by
  rw [initClosed_iff] at h ⊢
  intro e he
  apply h e
  cases B with
  | nil =>
    simp only [List.append_nil] at he
    rw [List.dropLast_append_of_ne_nil (by simp)]
    simp only [List.dropLast_singleton, List.append_nil]
    exact List.dropLast_subset _ he
  | cons b B' =>
    rw [List.dropLast_append_of_ne_nil (by simp)] at he ⊢
    simp only [List.mem_append] at he ⊢
    rcases he with he | he
    · exact Or.inl he
    · right
      simp only [List.dropLast_cons_cons, List.mem_cons]
      exact Or.inr he

theorem initClosed_prefix (A B : List Bytes) (h : InitClosed (A ++ B)) : InitClosed A := by
  rw [initClosed_iff] at h ⊢
  intro e he
  apply h e
  cases B with
  | nil => simpa using he
  | cons b B' =>
    rw [List.dropLast_append_of_ne_nil (by simp)]
    exact List.mem_append_left _ (List.dropLast_subset _ he)

/-! ### type of an item from its text alone -/

/-- the type of an item with text `e` (the lookup only reads the text before `=`) -/
def textType (e : Bytes) : CcType := itemType (e, e.length)

theorem itemType_eq_textType (it : Bytes × Nat) (h : it.2 ≤ it.1.length) : itemType it = textType (it.1.take it.2) := by
  obtain ⟨p, n⟩ := it
  simp only at h
  unfold textType itemType itemNlen itemEq
  simp only [List.length_take, Nat.min_eq_left h, List.take_take, Nat.min_self]
  split
  · rename_i hlt
    rw [Nat.min_eq_left (Nat.le_of_lt hlt)]
  · simp

theorem itemType_append (e rest : Bytes) : itemType (e ++ rest, e.length) = textType e := by
  rw [itemType_eq_textType _ (by simp)]
  simp

/-! ### `other` under one round of the loop -/

theorem stepItem_other_eq (c : Cc) (it : Bytes × Nat) (h : itemType it = .other) :
    (stepItem c it).other = (if c.other.length ≠ 0 then c.other ++ [44, 32] else c.other) ++ it.1.take it.2 := by
  unfold stepItem
  simp [h, applyDirective]

theorem stepItem_other_ne (c : Cc) (it : Bytes × Nat) (ht : itemType it ≠ .other) : (stepItem c it).other = c.other := by
  unfold stepItem
  simp only
  split
  · rfl
  · generalize hg : itemType it = u at *
    cases u <;> simp only [applyDirective, numericCase_eq]
    case other => exact absurd rfl ht
    case private_ =>
      rcases ha : itemArg it with _ | s
      · simp
      · dsimp only
        rcases hq : parseQuoted s (it.2 - itemNlen it - 1) with _ | v <;> simp
    case noCache =>
      rcases ha : itemArg it with _ | s
      · simp
      · dsimp only
        rcases hq : parseQuoted s (it.2 - itemNlen it - 1) with _ | v <;> simp
    case maxAge | sMaxage | maxStale | minFresh | staleIfError =>
      split
      · simp
      · split <;> simp
    all_goals simp

/-! ### the invariant of parse results -/

theorem numOf_range (it : Bytes × Nat) (v : Int) (h : numOf it = some v) : 0 ≤ v ∧ v ≤ 2147483647 := by
  unfold numOf at h
  cases hp : itemArg it with
  | none => simp [hp] at h
  | some p =>
    simp only [hp] at h
    split at h
    · rename_i hc
      simp only [Option.some.injEq] at h
      subst h
      refine ⟨hc.2, ?_⟩
      rw [parseInt_snd]
      exact (atoiC_range p).2
    · simp at h

structure CanonBase (c : Cc) : Prop where
  numRange : ∀ t v, isNumType t = true → view c t = some (.num v) → 0 ≤ v ∧ v ≤ 2147483647
  privPlain : ∀ x ∈ c.priv, isPlainQ x = true
  ncPlain : ∀ x ∈ c.noCache, isPlainQ x = true

theorem stepItem_lists_plain (c : Cc) (it : Bytes × Nat) (hp : ∀ x ∈ c.priv, isPlainQ x = true)
    (hn : ∀ x ∈ c.noCache, isPlainQ x = true) :
    (∀ x ∈ (stepItem c it).priv, isPlainQ x = true) ∧ (∀ x ∈ (stepItem c it).noCache, isPlainQ x = true) := by
  unfold stepItem
  simp only
  split
  · exact ⟨hp, hn⟩
  · generalize itemType it = u
    cases u <;> simp only [applyDirective, numericCase_eq]
    case private_ =>
      rcases ha : itemArg it with _ | s
      · exact ⟨by simp, by simpa using hn⟩
      · dsimp only
        rcases hq : parseQuoted s (it.2 - itemNlen it - 1) with _ | v
        · exact ⟨by simpa using hp, by simpa using hn⟩
        · refine ⟨?_, by simpa using hn⟩
          have := parseQuoted_plain_chars _ _ _ hq
          intro x hx
          simp only [priv_setMask, priv_setPriv, List.mem_append] at hx
          rcases hx with hx | hx
          · exact hp x hx
          · exact this x hx
    case noCache =>
      rcases ha : itemArg it with _ | s
      · exact ⟨by simpa using hp, by simp⟩
      · dsimp only
        rcases hq : parseQuoted s (it.2 - itemNlen it - 1) with _ | v
        · exact ⟨hp, hn⟩
        · refine ⟨by simpa using hp, ?_⟩
          have := parseQuoted_plain_chars _ _ _ hq
          intro x hx
          simp only [noCache_setNoCache, List.mem_append] at hx
          rcases hx with hx | hx
          · exact hn x hx
          · exact this x hx
    case maxAge | sMaxage | maxStale | minFresh | staleIfError =>
      split
      · exact ⟨by simpa using hp, by simpa using hn⟩
      · split <;> exact ⟨by simpa using hp, by simpa using hn⟩
    all_goals exact ⟨by simpa using hp, by simpa using hn⟩

theorem stepItem_canonBase (c : Cc) (it : Bytes × Nat) (hl : Lite c) (h : CanonBase c) : CanonBase (stepItem c it) := by
  obtain ⟨h1, h2⟩ := stepItem_lists_plain c it h.privPlain h.ncPlain
  refine ⟨?_, h1, h2⟩
  intro t v hnum hv
  by_cases ht : t = itemType it
  · have ho : itemType it ≠ .other := by rw [← ht]; intro hh; rw [hh] at hnum; simp [isNumType] at hnum
    have he : itemType it ≠ .enumEnd := by rw [← ht]; intro hh; rw [hh] at hnum; simp [isNumType] at hnum
    cases hs : c.isSet (itemType it) with
    | true =>
      rw [stepItem_skip c it hs ho] at hv
      exact h.numRange t v hnum hv
    | false =>
      rw [ht, stepItem_effective c it hl hs ho he, ← ht] at hv
      have hA : (0 : Int) ≤ Gen.CcDirectives.MAX_STALE_ANY ∧ Gen.CcDirectives.MAX_STALE_ANY ≤ 2147483647 := by decide
      cases t <;> simp [isNumType] at hnum <;> simp only [effective, isFlagType, isNumType] at hv
      all_goals
        simp at hv
        rcases hn : numOf it with _ | w
        · simp [hn] at hv
          try (subst hv; exact hA)
        · simp [hn] at hv
          subst hv
          exact numOf_range it _ hn
  · rw [stepItem_frame c it t ht] at hv
    exact h.numRange t v hnum hv

theorem canonBase_init : CanonBase {} := by
  refine ⟨?_, by simp, by simp⟩
  intro t v _ hv
  rw [view_init] at hv
  simp at hv

theorem foldl_canonBase (its : List (Bytes × Nat)) (c : Cc) (hl : Lite c) (h : CanonBase c) :
    CanonBase (its.foldl stepItem c) := by
  induction its generalizing c with
  | nil => exact h
  | cons it its ih => exact ih _ (stepItem_lite c it hl) (stepItem_canonBase c it hl h)


/-- `other` is the ", "-join of well-formed unknown directives; together with the texts still to come all but the last end
outside quotes -/
def OtherOk (c : Cc) (pending : List Bytes) : Prop :=
  ∃ L, c.other = joinItems L ∧ (∀ e ∈ L, GoodItem e ∧ textType e = .other) ∧ InitClosed (L ++ pending)

theorem joinItems_ne_nil (L : List Bytes) (hne : ∀ e ∈ L, e ≠ []) (h : L ≠ []) : joinItems L ≠ [] :=
  fun hh => h (joinItems_eq_nil L hne hh)

theorem foldl_otherOk (its : List (Bytes × Nat)) (c : Cc)
    (hg : ∀ it ∈ its, GoodItem (it.1.take it.2) ∧ it.2 ≤ it.1.length) (h : OtherOk c (itemTexts its)) :
    OtherOk (its.foldl stepItem c) [] := by
  induction its generalizing c with
  | nil => simpa [itemTexts] using h
  | cons it r ih =>
    simp only [List.foldl_cons]
    apply ih _ (fun x hx => hg x (List.mem_cons_of_mem _ hx))
    obtain ⟨L, hL, hgood, hcl⟩ := h
    obtain ⟨hgi, hle⟩ := hg it (List.mem_cons_self)
    simp only [itemTexts, List.map_cons] at hcl
    by_cases ht : itemType it = .other
    · refine ⟨L ++ [it.1.take it.2], ?_, ?_, ?_⟩
      · rw [stepItem_other_eq c it ht, joinItems_snoc, hL]
        by_cases hLn : L = []
        · subst hLn; simp [joinItems]
        · have : (joinItems L).length ≠ 0 := by
            intro hh
            exact joinItems_ne_nil L (fun e he => (hgood e he).1.ne) hLn (List.length_eq_zero_iff.mp hh)
          simp [hLn, this]
      · intro e he
        simp only [List.mem_append, List.mem_singleton] at he
        rcases he with he | rfl
        · exact hgood e he
        · exact ⟨hgi, by rw [← itemType_eq_textType it hle]; exact ht⟩
      · simpa [itemTexts] using hcl
    · refine ⟨L, ?_, hgood, ?_⟩
      · rw [stepItem_other_ne c it ht, hL]
      · exact initClosed_remove L _ _ hcl


end SquidModel.Cc
