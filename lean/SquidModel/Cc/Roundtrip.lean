/-
C29: pack then parse. Part 1: joins, the all-but-last-closed property, the type of an item from its text, `other` per round;
part 2: the invariant of parse results (`Canon`); part 3: what `packInto` prints and how it is parsed back.
-/
import SquidModel.Cc.Exact
import SquidModel.Cc.QuotedLemmas
open SquidModel SquidModel.Cc
namespace SquidModel.Cc

/-! ### ", "-joins -/

theorem joinItems_cons_ne (a : Bytes) (r : List Bytes) (h : r ≠ []) :
    joinItems (a :: r) = a ++ 44 :: 32 :: joinItems r := by
  cases r with
  | nil => exact absurd rfl h
  | cons b r' => rfl

theorem joinItems_append (A B : List Bytes) (hA : A ≠ []) (hB : B ≠ []) :
    joinItems (A ++ B) = joinItems A ++ 44 :: 32 :: joinItems B := by
  induction A with
  | nil => exact absurd rfl hA
  | cons a r ih =>
    cases r with
    | nil => simp [joinItems, joinItems_cons_ne a B hB]
    | cons b r' =>
      have := ih (by simp)
      simp only [List.cons_append] at this ⊢
      rw [joinItems_cons_ne a _ (by simp), this, joinItems_cons_ne a (b :: r') (by simp)]
      simp

theorem joinItems_snoc (A : List Bytes) (d : Bytes) :
    joinItems (A ++ [d]) = if A = [] then d else joinItems A ++ 44 :: 32 :: d := by
  by_cases h : A = []
  · subst h; simp [joinItems]
  · rw [joinItems_append A [d] h (by simp)]; simp [h, joinItems]

theorem joinItems_eq_nil (L : List Bytes) (hne : ∀ e ∈ L, e ≠ []) (h : joinItems L = []) : L = [] := by
  cases L with
  | nil => rfl
  | cons a r =>
    exfalso
    have ha := hne a (List.mem_cons_self)
    cases r with
    | nil => simp [joinItems] at h; exact ha h
    | cons b r' => simp [joinItems] at h

/-! ### all-but-last closed -/

theorem initClosed_iff (l : List Bytes) : InitClosed l ↔ ∀ e ∈ l.dropLast, Closed e := by
  induction l with
  | nil => simp [InitClosed]
  | cons x r ih =>
    cases r with
    | nil => simp [InitClosed]
    | cons y r' =>
      simp only [InitClosed, List.dropLast_cons_cons, List.mem_cons, forall_eq_or_imp]
      rw [ih]

theorem initClosed_remove (A B : List Bytes) (x : Bytes) (h : InitClosed (A ++ x :: B)) : InitClosed (A ++ B) := by
  rw [initClosed_iff] at h ⊢
  intro e he
  apply h e
  cases B with
  | nil =>
    simp only [List.append_nil] at he
    rw [List.dropLast_append_of_ne_nil (by simp)]
    simp only [List.dropLast_singleton, List.append_nil]
    exact List.dropLast_subset _ he
  | cons b B' =>
    rw [List.dropLast_append_of_ne_nil (by simp)] at he ⊢
    simp only [List.mem_append] at he ⊢
    rcases he with he | he
    · exact Or.inl he
    · right
      simp only [List.dropLast_cons_cons, List.mem_cons]
      exact Or.inr he

theorem initClosed_prefix (A B : List Bytes) (h : InitClosed (A ++ B)) : InitClosed A := by
  rw [initClosed_iff] at h ⊢
  intro e he
  apply h e
  cases B with
  | nil => simpa using he
  | cons b B' =>
    rw [List.dropLast_append_of_ne_nil (by simp)]
    exact List.mem_append_left _ (List.dropLast_subset _ he)

/-! ### type of an item from its text alone -/

/-- the type of an item with text `e` (the lookup only reads the text before `=`) -/
def textType (e : Bytes) : CcType := itemType (e, e.length)

theorem itemType_eq_textType (it : Bytes × Nat) (h : it.2 ≤ it.1.length) : itemType it = textType (it.1.take it.2) := by
  obtain ⟨p, n⟩ := it
  simp only at h
  unfold textType itemType itemNlen itemEq
  simp only [List.length_take, Nat.min_eq_left h, List.take_take, Nat.min_self]
  split
  · rename_i hlt
    rw [Nat.min_eq_left (Nat.le_of_lt hlt)]
  · simp

theorem itemType_append (e rest : Bytes) : itemType (e ++ rest, e.length) = textType e := by
  rw [itemType_eq_textType _ (by simp)]
  simp

/-! ### `other` under one round of the loop -/

theorem stepItem_other_eq (c : Cc) (it : Bytes × Nat) (h : itemType it = .other) :
    (stepItem c it).other = (if c.other.length ≠ 0 then c.other ++ [44, 32] else c.other) ++ it.1.take it.2 := by
  unfold stepItem
  simp [h, applyDirective]

theorem stepItem_other_ne (c : Cc) (it : Bytes × Nat) (ht : itemType it ≠ .other) : (stepItem c it).other = c.other := by
  unfold stepItem
  simp only
  split
  · rfl
  · generalize hg : itemType it = u at *
    cases u <;> simp only [applyDirective, numericCase_eq]
    case other => exact absurd rfl ht
    case private_ =>
      rcases ha : itemArg it with _ | s
      · simp
      · dsimp only
        rcases hq : parseQuoted s (it.2 - itemNlen it - 1) with _ | v <;> simp
    case noCache =>
      rcases ha : itemArg it with _ | s
      · simp
      · dsimp only
        rcases hq : parseQuoted s (it.2 - itemNlen it - 1) with _ | v <;> simp
    case maxAge | sMaxage | maxStale | minFresh | staleIfError =>
      split
      · simp
      · split <;> simp
    all_goals simp

/-! ### the invariant of parse results -/

theorem numOf_range (it : Bytes × Nat) (v : Int) (h : numOf it = some v) : 0 ≤ v ∧ v ≤ 2147483647 := by
  unfold numOf at h
  cases hp : itemArg it with
  | none => simp [hp] at h
  | some p =>
    simp only [hp] at h
    split at h
    · rename_i hc
      simp only [Option.some.injEq] at h
      subst h
      refine ⟨hc.2, ?_⟩
      exact (parseInt_range p).2
    · simp at h

structure CanonBase (c : Cc) : Prop where
  numRange : ∀ t v, isNumType t = true → view c t = some (.num v) → 0 ≤ v ∧ v ≤ 2147483647
  privPlain : ∀ x ∈ c.priv, isPlainQ x = true
  ncPlain : ∀ x ∈ c.noCache, isPlainQ x = true

theorem stepItem_lists_plain (c : Cc) (it : Bytes × Nat) (hp : ∀ x ∈ c.priv, isPlainQ x = true)
    (hn : ∀ x ∈ c.noCache, isPlainQ x = true) :
    (∀ x ∈ (stepItem c it).priv, isPlainQ x = true) ∧ (∀ x ∈ (stepItem c it).noCache, isPlainQ x = true) := by
  unfold stepItem
  simp only
  split
  · exact ⟨hp, hn⟩
  · generalize itemType it = u
    cases u <;> simp only [applyDirective, numericCase_eq]
    case private_ =>
      rcases ha : itemArg it with _ | s
      · exact ⟨by simp, by simpa using hn⟩
      · dsimp only
        rcases hq : parseQuoted s (it.2 - itemNlen it - 1) with _ | v
        · exact ⟨by simpa using hp, by simpa using hn⟩
        · refine ⟨?_, by simpa using hn⟩
          have := parseQuoted_plain_chars _ _ _ hq
          intro x hx
          simp only [priv_setMask, priv_setPriv, List.mem_append] at hx
          rcases hx with hx | hx
          · exact hp x hx
          · exact this x hx
    case noCache =>
      rcases ha : itemArg it with _ | s
      · exact ⟨by simpa using hp, by simp⟩
      · dsimp only
        rcases hq : parseQuoted s (it.2 - itemNlen it - 1) with _ | v
        · exact ⟨hp, hn⟩
        · refine ⟨by simpa using hp, ?_⟩
          have := parseQuoted_plain_chars _ _ _ hq
          intro x hx
          simp only [noCache_setNoCache, List.mem_append] at hx
          rcases hx with hx | hx
          · exact hn x hx
          · exact this x hx
    case maxAge | sMaxage | maxStale | minFresh | staleIfError =>
      split
      · exact ⟨by simpa using hp, by simpa using hn⟩
      · split <;> exact ⟨by simpa using hp, by simpa using hn⟩
    all_goals exact ⟨by simpa using hp, by simpa using hn⟩

theorem stepItem_canonBase (c : Cc) (it : Bytes × Nat) (hl : Lite c) (h : CanonBase c) : CanonBase (stepItem c it) := by
  obtain ⟨h1, h2⟩ := stepItem_lists_plain c it h.privPlain h.ncPlain
  refine ⟨?_, h1, h2⟩
  intro t v hnum hv
  by_cases ht : t = itemType it
  · have ho : itemType it ≠ .other := by rw [← ht]; intro hh; rw [hh] at hnum; simp [isNumType] at hnum
    have he : itemType it ≠ .enumEnd := by rw [← ht]; intro hh; rw [hh] at hnum; simp [isNumType] at hnum
    cases hs : c.isSet (itemType it) with
    | true =>
      rw [stepItem_skip c it hs ho] at hv
      exact h.numRange t v hnum hv
    | false =>
      rw [ht, stepItem_effective c it hl hs ho he, ← ht] at hv
      have hA : (0 : Int) ≤ Gen.CcDirectives.MAX_STALE_ANY ∧ Gen.CcDirectives.MAX_STALE_ANY ≤ 2147483647 := by decide
      cases t <;> simp [isNumType] at hnum <;> simp only [effective, isFlagType, isNumType] at hv
      all_goals
        simp at hv
        rcases hn : numOf it with _ | w
        · simp [hn] at hv
          try (subst hv; exact hA)
        · simp [hn] at hv
          subst hv
          exact numOf_range it _ hn
  · rw [stepItem_frame c it t ht] at hv
    exact h.numRange t v hnum hv

theorem canonBase_init : CanonBase {} := by
  refine ⟨?_, by simp, by simp⟩
  intro t v _ hv
  rw [view_init] at hv
  simp at hv

theorem foldl_canonBase (its : List (Bytes × Nat)) (c : Cc) (hl : Lite c) (h : CanonBase c) :
    CanonBase (its.foldl stepItem c) := by
  induction its generalizing c with
  | nil => exact h
  | cons it its ih => exact ih _ (stepItem_lite c it hl) (stepItem_canonBase c it hl h)


/-- `other` is the ", "-join of well-formed unknown directives; together with the texts still to come all but the last end
outside quotes -/
def OtherOk (c : Cc) (pending : List Bytes) : Prop :=
  ∃ L, c.other = joinItems L ∧ (∀ e ∈ L, GoodItem e ∧ textType e = .other) ∧ InitClosed (L ++ pending)

theorem joinItems_ne_nil (L : List Bytes) (hne : ∀ e ∈ L, e ≠ []) (h : L ≠ []) : joinItems L ≠ [] :=
  fun hh => h (joinItems_eq_nil L hne hh)

theorem foldl_otherOk (its : List (Bytes × Nat)) (c : Cc)
    (hg : ∀ it ∈ its, GoodItem (it.1.take it.2) ∧ it.2 ≤ it.1.length) (h : OtherOk c (itemTexts its)) :
    OtherOk (its.foldl stepItem c) [] := by
  induction its generalizing c with
  | nil => simpa [itemTexts] using h
  | cons it r ih =>
    simp only [List.foldl_cons]
    apply ih _ (fun x hx => hg x (List.mem_cons_of_mem _ hx))
    obtain ⟨L, hL, hgood, hcl⟩ := h
    obtain ⟨hgi, hle⟩ := hg it (List.mem_cons_self)
    simp only [itemTexts, List.map_cons] at hcl
    by_cases ht : itemType it = .other
    · refine ⟨L ++ [it.1.take it.2], ?_, ?_, ?_⟩
      · rw [stepItem_other_eq c it ht, joinItems_snoc, hL]
        by_cases hLn : L = []
        · subst hLn; simp [joinItems]
        · have : (joinItems L).length ≠ 0 := by
            intro hh
            exact joinItems_ne_nil L (fun e he => (hgood e he).1.ne) hLn (List.length_eq_zero_iff.mp hh)
          simp [hLn, this]
      · intro e he
        simp only [List.mem_append, List.mem_singleton] at he
        rcases he with he | rfl
        · exact hgood e he
        · exact ⟨hgi, by rw [← itemType_eq_textType it hle]; exact ht⟩
      · simpa [itemTexts] using hcl
    · refine ⟨L, ?_, hgood, ?_⟩
      · rw [stepItem_other_ne c it ht, hL]
      · exact initClosed_remove L _ _ hcl


/-! ### what `packInto` prints -/

/-- the text printed for one set directive: name and `=value` -/
def dirText (c : Cc) (row : Bytes × CcType) : Bytes := row.1 ++ packValue c row.2

/-- the directives printed by the `for` loop, in order -/
def packedDirs (c : Cc) (rows : List (Bytes × CcType)) : List Bytes :=
  (rows.filter (fun row => c.isSet row.2 ∧ row.2 ≠ .other)).map (dirText c)

theorem packFold (c : Cc) (rows : List (Bytes × CcType)) (A : List Bytes) :
    rows.foldl (packStep c) (joinItems A, A.length) =
      (joinItems (A ++ packedDirs c rows), (A ++ packedDirs c rows).length) := by
  induction rows generalizing A with
  | nil => simp [packedDirs]
  | cons row rows ih =>
    simp only [List.foldl_cons]
    by_cases hc : c.isSet row.2 = true ∧ row.2 ≠ .other
    · have hstep : packStep c (joinItems A, A.length) row = (joinItems (A ++ [dirText c row]), (A ++ [dirText c row]).length) := by
        unfold packStep
        simp only [hc, and_self, ↓reduceIte, ne_eq, not_false_eq_true]
        rw [joinItems_snoc]
        by_cases hA : A = []
        · subst hA; simp [joinItems, dirText]
        · have : A.length ≠ 0 := fun hh => hA (List.length_eq_zero_iff.mp hh)
          simp [hA, this, dirText]
      rw [hstep, ih]
      simp [packedDirs, List.filter_cons, hc]
    · have hstep : packStep c (joinItems A, A.length) row = (joinItems A, A.length) := by
        unfold packStep
        simp only [hc, ↓reduceIte]
      rw [hstep, ih]
      simp [packedDirs, List.filter_cons, hc]

theorem pack_eq (c : Cc) (h : c.mask ≠ 0) :
    pack c = joinItems (packedDirs c Gen.CcDirectives.attrs ++ (if c.other.length ≠ 0 then [c.other] else [])) := by
  unfold pack
  simp only [h, ↓reduceIte]
  have := packFold c Gen.CcDirectives.attrs []
  simp only [joinItems, List.length_nil, List.nil_append] at this
  rw [this]
  by_cases ho : c.other.length ≠ 0
  · simp only [ho, ↓reduceIte, ne_eq, not_false_eq_true]
    rw [joinItems_snoc]
    by_cases hD : packedDirs c Gen.CcDirectives.attrs = []
    · simp [hD, joinItems]
    · have : (packedDirs c Gen.CcDirectives.attrs).length ≠ 0 := fun hh => hD (List.length_eq_zero_iff.mp hh)
      simp [hD, this]
  · simp [ho]

theorem pack_eq_join (c : Cc) (h : c.mask ≠ 0) (L : List Bytes) (hL : c.other = joinItems L) (hne : ∀ e ∈ L, e ≠ []) :
    pack c = joinItems (packedDirs c Gen.CcDirectives.attrs ++ L) := by
  rw [pack_eq c h]
  by_cases hLn : L = []
  · subst hLn
    simp [hL, joinItems]
  · have hne' : joinItems L ≠ [] := joinItems_ne_nil L hne hLn
    have hlen : (joinItems L).length ≠ 0 := fun hh => hne' (List.length_eq_zero_iff.mp hh)
    rw [hL]
    simp only [hlen, ne_eq, not_false_eq_true, ↓reduceIte]
    by_cases hD : packedDirs c Gen.CcDirectives.attrs = []
    · simp [hD, joinItems]
    · rw [joinItems_append _ _ hD (by simp), joinItems_append _ _ hD hLn]
      simp [joinItems]


/-! ### the shapes of the printed directives and how an item of that shape is read -/

/-- a directive name as the table has them: non-empty, no DQUOTE, comma, `=`, backslash, white space or separator octet -/
def nameOk (n : Bytes) : Bool :=
  !n.isEmpty && n.all (fun x => x != 34 && x != 44 && x != 61 && x != 92 && !isSpaceC x && !isLeadDelim x)

theorem attrs_names_ok : ∀ row ∈ Gen.CcDirectives.attrs, row.2 ≠ .other → nameOk row.1 = true ∧ typeByName row.1 = row.2 := by
  decide +kernel

theorem attrs_all_types : ∀ t : CcType, t ≠ .other → t ≠ .enumEnd → ∃ row ∈ Gen.CcDirectives.attrs, row.2 = t := by
  intro t ho he
  cases t <;> first | exact absurd rfl ho | exact absurd rfl he | decide +kernel

theorem nameOk_facts (n : Bytes) (h : nameOk n = true) :
    n ≠ [] ∧ ∀ x ∈ n, x ≠ 34 ∧ x ≠ 44 ∧ x ≠ 61 ∧ x ≠ 92 ∧ isSpaceC x = false ∧ isLeadDelim x = false := by
  unfold nameOk at h
  rw [Bool.and_eq_true, List.all_eq_true] at h
  refine ⟨by intro hh; subst hh; simp at h, ?_⟩
  intro x hx
  have := h.2 x hx
  simp only [Bool.and_eq_true, bne_iff_ne, ne_eq, Bool.not_eq_true'] at this
  obtain ⟨⟨⟨⟨⟨a, b⟩, c⟩, d⟩, e⟩, f⟩ := this
  exact ⟨a, b, c, d, e, f⟩

theorem scanSt_unquoted_plain (n tail : Bytes) (h : ∀ x ∈ n, x ≠ 34 ∧ x ≠ 44) :
    scanSt false false (n ++ tail) = scanSt false false tail := by
  induction n with
  | nil => rfl
  | cons c r ih =>
    have hc := h c (List.mem_cons_self)
    simp only [List.cons_append, scanSt, hc.1, hc.2, ↓reduceIte]
    exact ih (fun x hx => h x (List.mem_cons_of_mem _ hx))

theorem scanSt_quoted_plain (v tail : Bytes) (h : ∀ x ∈ v, x ≠ 34 ∧ x ≠ 92) :
    scanSt true false (v ++ tail) = scanSt true false tail := by
  induction v with
  | nil => rfl
  | cons c r ih =>
    have hc := h c (List.mem_cons_self)
    simp only [List.cons_append, scanSt, hc.1, hc.2, ↓reduceIte]
    exact ih (fun x hx => h x (List.mem_cons_of_mem _ hx))

theorem rtrimLen_noSpace (l : Bytes) (h : ∀ x ∈ l, isSpaceC x = false) : rtrimLen l = l.length := by
  induction l with
  | nil => rfl
  | cons c r ih =>
    have hr := ih (fun x hx => h x (List.mem_cons_of_mem _ hx))
    simp only [rtrimLen, hr, h c (List.mem_cons_self), Bool.false_eq_true, and_false, ↓reduceIte, List.length_cons]

theorem rtrimLen_append_right (a b : Bytes) (hb : b ≠ []) (h : rtrimLen b = b.length) : rtrimLen (a ++ b) = (a ++ b).length := by
  induction a with
  | nil => simpa using h
  | cons x a ih =>
    have hne : rtrimLen (a ++ b) ≠ 0 := by
      rw [ih]; simp; intro _; exact hb
    rw [List.cons_append, rtrimLen_cons_of_ne_zero x _ hne, ih]
    simp

theorem idxOf_append_notin (n tail : Bytes) (x : UInt8) (h : ∀ y ∈ n, y ≠ x) :
    (n ++ tail).idxOf x = n.length + tail.idxOf x := by
  induction n with
  | nil => simp
  | cons c r ih =>
    have hc : c ≠ x := h c (List.mem_cons_self)
    rw [List.cons_append, List.idxOf_cons, ih (fun y hy => h y (List.mem_cons_of_mem _ hy))]
    have : (c == x) = false := by simpa using hc
    simp [this]; omega

/-- components of an item whose text is `n=w` -/
theorem item_with_arg (n w rest : Bytes) (hn : ∀ y ∈ n, y ≠ 61) :
    let it : Bytes × Nat := ((n ++ 61 :: w) ++ rest, (n ++ 61 :: w).length)
    itemNlen it = n.length ∧ itemArg it = some (w ++ rest) ∧ itemType it = typeByName n ∧ it.2 - itemNlen it - 1 = w.length := by
  simp only
  have heq : itemEq ((n ++ 61 :: w) ++ rest, (n ++ 61 :: w).length) = n.length := by
    unfold itemEq
    simp only [List.take_left']
    rw [idxOf_append_notin n _ 61 hn]
    simp
  have hlt : n.length < (n ++ 61 :: w).length := by simp
  refine ⟨?_, ?_, ?_, ?_⟩
  · unfold itemNlen; simp only [heq, hlt, ↓reduceIte]
  · unfold itemArg; simp only [heq, hlt, ↓reduceIte]
    congr 1
    rw [List.append_assoc, List.drop_append]
    simp
  · unfold itemType itemNlen; simp only [heq, hlt, ↓reduceIte]
    rw [List.append_assoc, List.take_left' rfl]
  · unfold itemNlen; simp only [heq, hlt, ↓reduceIte]
    simp

/-- components of an item whose text is a bare name -/
theorem item_bare (n rest : Bytes) (hn : ∀ y ∈ n, y ≠ 61) :
    let it : Bytes × Nat := (n ++ rest, n.length)
    itemArg it = none ∧ itemType it = typeByName n := by
  simp only
  have heq : itemEq (n ++ rest, n.length) = n.length := by
    unfold itemEq
    simp only [List.take_left']
    have := idxOf_append_notin n [] 61 hn
    simpa using this
  refine ⟨?_, ?_⟩
  · unfold itemArg; simp [heq]
  · unfold itemType itemNlen; simp [heq]


theorem good_head_of_name (n tail : Bytes) (h : nameOk n = true) :
    ∀ c, (n ++ tail).head? = some c → isLeadDelim c = false := by
  obtain ⟨hne, hall⟩ := nameOk_facts n h
  cases n with
  | nil => exact absurd rfl hne
  | cons x r =>
    intro c hc
    simp only [List.cons_append, List.head?_cons, Option.some.injEq] at hc
    subst hc
    exact (hall x (List.mem_cons_self)).2.2.2.2.2

/-- shape 1: a bare name -/
theorem shape_bare (n rest : Bytes) (h : nameOk n = true) :
    GoodItem n ∧ Closed n ∧ textType n = typeByName n ∧ itemArg (n ++ rest, n.length) = none ∧
      itemType (n ++ rest, n.length) = typeByName n := by
  obtain ⟨hne, hall⟩ := nameOk_facts n h
  have h61 : ∀ y ∈ n, y ≠ 61 := fun y hy => (hall y hy).2.2.1
  have hscan : scanSt false false n = some (false, false) := by
    have := scanSt_unquoted_plain n [] (fun x hx => ⟨(hall x hx).1, (hall x hx).2.1⟩)
    simpa [scanSt] using this
  have hb := item_bare n rest h61
  have hb0 := item_bare n [] h61
  simp only [List.append_nil] at hb0
  refine ⟨⟨hne, ?_, ?_, ⟨_, hscan⟩⟩, hscan, hb0.2, hb.1, hb.2⟩
  · have := good_head_of_name n [] h; simpa using this
  · exact rtrimLen_noSpace n (fun x hx => (hall x hx).2.2.2.2.1)

/-- shape 2: `name=digits` -/
theorem shape_num (n ds rest : Bytes) (h : nameOk n = true) (hds : ds ≠ []) (hd : ∀ d ∈ ds, isDigitC d = true) :
    GoodItem (n ++ 61 :: ds) ∧ Closed (n ++ 61 :: ds) ∧ textType (n ++ 61 :: ds) = typeByName n ∧
      itemArg ((n ++ 61 :: ds) ++ rest, (n ++ 61 :: ds).length) = some (ds ++ rest) ∧
      itemType ((n ++ 61 :: ds) ++ rest, (n ++ 61 :: ds).length) = typeByName n := by
  obtain ⟨hne, hall⟩ := nameOk_facts n h
  have h61 : ∀ y ∈ n, y ≠ 61 := fun y hy => (hall y hy).2.2.1
  have hdfacts : ∀ d ∈ ds, d ≠ 34 ∧ d ≠ 44 ∧ isSpaceC d = false := by
    intro d hdd
    have := hd d hdd
    refine ⟨?_, ?_, digit_not_space d this⟩
    · intro hh; subst hh; revert this; decide
    · intro hh; subst hh; revert this; decide
  have hscan : scanSt false false (n ++ 61 :: ds) = some (false, false) := by
    rw [scanSt_unquoted_plain n _ (fun x hx => ⟨(hall x hx).1, (hall x hx).2.1⟩)]
    have := scanSt_unquoted_plain (61 :: ds) [] (by
      intro x hx
      simp only [List.mem_cons] at hx
      rcases hx with rfl | hx
      · decide
      · exact ⟨(hdfacts x hx).1, (hdfacts x hx).2.1⟩)
    simpa [scanSt] using this
  have ha := item_with_arg n ds rest h61
  have ha0 := item_with_arg n ds [] h61
  simp only [List.append_nil] at ha0
  refine ⟨⟨by simp, good_head_of_name n _ h, ?_, ⟨_, hscan⟩⟩, hscan, ?_, ha.2.1, ha.2.2.1⟩
  · apply rtrimLen_noSpace
    intro x hx
    simp only [List.mem_append, List.mem_cons] at hx
    rcases hx with hx | rfl | hx
    · exact (hall x hx).2.2.2.2.1
    · decide
    · exact (hdfacts x hx).2.2
  · exact ha0.2.2.1

/-- shape 3: `name="v"` with plain `v` -/
theorem shape_list (n v rest : Bytes) (h : nameOk n = true) (hv : ∀ x ∈ v, isPlainQ x = true) :
    GoodItem (n ++ 61 :: 34 :: (v ++ [34])) ∧ Closed (n ++ 61 :: 34 :: (v ++ [34])) ∧
      textType (n ++ 61 :: 34 :: (v ++ [34])) = typeByName n ∧
      listOf ((n ++ 61 :: 34 :: (v ++ [34])) ++ rest, (n ++ 61 :: 34 :: (v ++ [34])).length) = some v ∧
      itemType ((n ++ 61 :: 34 :: (v ++ [34])) ++ rest, (n ++ 61 :: 34 :: (v ++ [34])).length) = typeByName n := by
  obtain ⟨hne, hall⟩ := nameOk_facts n h
  have h61 : ∀ y ∈ n, y ≠ 61 := fun y hy => (hall y hy).2.2.1
  have hvf : ∀ x ∈ v, x ≠ 34 ∧ x ≠ 92 := fun x hx => ⟨(isPlainQ_facts x (hv x hx)).1, (isPlainQ_facts x (hv x hx)).2.1⟩
  have hscan : scanSt false false (n ++ 61 :: 34 :: (v ++ [34])) = some (false, false) := by
    rw [scanSt_unquoted_plain n _ (fun x hx => ⟨(hall x hx).1, (hall x hx).2.1⟩)]
    simp only [scanSt, show ¬ ((61 : UInt8) = 34) by decide, show ¬ ((61 : UInt8) = 44) by decide, ↓reduceIte]
    rw [scanSt_quoted_plain v [34] hvf]
    simp [scanSt]
  have ha := item_with_arg n (34 :: (v ++ [34])) rest h61
  have ha0 := item_with_arg n (34 :: (v ++ [34])) [] h61
  simp only [List.append_nil] at ha0
  refine ⟨⟨by simp, good_head_of_name n _ h, ?_, ⟨_, hscan⟩⟩, hscan, ha0.2.2.1, ?_, ha.2.2.1⟩
  · have : n ++ 61 :: 34 :: (v ++ [34]) = (n ++ 61 :: 34 :: v) ++ [34] := by simp
    rw [this]
    exact rtrimLen_append_right _ [34] (by simp) (by decide)
  · unfold listOf
    simp only at ha
    rw [ha.2.1, ha.2.2.2]
    have : 34 :: (v ++ [34]) ++ rest = 34 :: (v ++ 34 :: rest) := by simp
    simp only [this]
    exact parseQuoted_plain v rest _ hv (by simp)


/-- what follows a printed directive in the packed text: the end, or ", " and more -/
def RestOk (rest : Bytes) : Prop := rest = [] ∨ ∃ m, rest = 44 :: 32 :: m

theorem restOk_head (rest : Bytes) (h : RestOk rest) : ∀ c, rest.head? = some c → isDigitC c = false := by
  rcases h with rfl | ⟨m, rfl⟩
  · simp
  · intro c hc; simp at hc; subst hc; decide

/-- the five facts about one printed directive -/
structure DirOk (c : Cc) (t : CcType) (d rest : Bytes) : Prop where
  good : GoodItem d
  closed : Closed d
  ttype : textType d = t
  itype : itemType (d ++ rest, d.length) = t
  eff : effective t (d ++ rest, d.length) = view c t

theorem dir_num_value (n : Bytes) (v : Int) (rest : Bytes) (hn : nameOk n = true) (hv0 : 0 ≤ v) (hv1 : v ≤ 2147483647)
    (hrest : RestOk rest) :
    GoodItem (n ++ 61 :: decimal v) ∧ Closed (n ++ 61 :: decimal v) ∧ textType (n ++ 61 :: decimal v) = typeByName n ∧
      itemType ((n ++ 61 :: decimal v) ++ rest, (n ++ 61 :: decimal v).length) = typeByName n ∧
      numOf ((n ++ 61 :: decimal v) ++ rest, (n ++ 61 :: decimal v).length) = some v := by
  rw [decimal_of_nonneg v hv0]
  have hds := decimalNat_digits v.toNat
  have hne := decimalNat_ne_nil v.toNat
  obtain ⟨g, cl, tt, ia, ity⟩ := shape_num n (decimalNat v.toNat) rest hn hne hds
  refine ⟨g, cl, tt, ity, ?_⟩
  unfold numOf
  rw [ia]
  have hval : ((decVal (decimalNat v.toNat) : Nat) : Int) = v := by rw [decVal_decimalNat]; omega
  have := parseInt_digits (decimalNat v.toNat) rest hne hds (restOk_head rest hrest) (by rw [hval, INT_MAX_eq]; exact hv1)
  simp only [this, hval, true_and]
  simp [hv0]

theorem dir_num_case (c : Cc) (hc : CanonBase c) (n : Bytes) (t : CcType) (rest : Bytes) (hn : nameOk n = true)
    (hty : typeByName n = t) (hnum : isNumType t = true) (hs : c.isSet t = true) (hrest : RestOk rest) :
    DirOk c t (n ++ 61 :: decimal (c.getNum t)) rest := by
  have hview : view c t = some (.num (c.getNum t)) := by simp [view, hs, hnum]
  obtain ⟨h0, h1⟩ := hc.numRange _ _ hnum hview
  obtain ⟨g, cl, tt, ity, nu⟩ := dir_num_value n _ rest hn h0 h1 hrest
  refine ⟨g, cl, by rw [tt, hty], by rw [ity, hty], ?_⟩
  rw [hview]
  cases t <;> simp [isNumType] at hnum <;>
    simp only [effective, isFlagType, isNumType, Bool.false_eq_true, ↓reduceIte, reduceCtorEq, nu, Option.map_some, Option.getD_some]

theorem dir_roundtrip (c : Cc) (hc : CanonBase c) (row : Bytes × CcType) (hrow : row ∈ Gen.CcDirectives.attrs)
    (ho : row.2 ≠ .other) (hs : c.isSet row.2 = true) (rest : Bytes) (hrest : RestOk rest) :
    DirOk c row.2 (dirText c row) rest := by
  obtain ⟨hn, hty⟩ := attrs_names_ok row hrow ho
  obtain ⟨n, t⟩ := row
  simp only at hn hty ho hs ⊢
  have hbare := shape_bare n rest hn
  unfold dirText
  cases t
  case other => exact absurd rfl ho
  case enumEnd =>
    exfalso
    have : ∀ r ∈ Gen.CcDirectives.attrs, r.2 ≠ CcType.enumEnd := by decide
    exact this _ hrow rfl
  case maxAge => exact dir_num_case c hc n .maxAge rest hn hty rfl hs hrest
  case sMaxage => exact dir_num_case c hc n .sMaxage rest hn hty rfl hs hrest
  case minFresh => exact dir_num_case c hc n .minFresh rest hn hty rfl hs hrest
  case staleIfError => exact dir_num_case c hc n .staleIfError rest hn hty rfl hs hrest
  case maxStale =>
    by_cases hany : c.maxStale = Gen.CcDirectives.MAX_STALE_ANY
    · have hview : view c .maxStale = some (.num Gen.CcDirectives.MAX_STALE_ANY) := by
        simp [view, hs, isNumType, Cc.getNum, hany]
      simp only [packValue, hany, ne_eq, not_true_eq_false, ↓reduceIte, List.append_nil]
      obtain ⟨g, cl, tt, ia, ity⟩ := hbare
      refine ⟨g, cl, by rw [tt, hty], by rw [ity, hty], ?_⟩
      rw [hview]
      simp [effective, isFlagType, numOf, ia]
    · have := dir_num_case c hc n .maxStale rest hn hty rfl hs hrest
      simp only [packValue, ne_eq, hany, not_false_eq_true, ↓reduceIte]
      exact this
  case private_ =>
    have hview : view c .private_ = some (.list c.priv) := by simp [view, hs, isNumType]
    simp only [packValue]
    by_cases hl : c.priv.length ≠ 0
    · simp only [hl, ne_eq, not_false_eq_true, ↓reduceIte]
      have hform : n ++ ([61, 34] ++ c.priv ++ [34]) = n ++ 61 :: 34 :: (c.priv ++ [34]) := by simp
      rw [hform]
      obtain ⟨g, cl, tt, lo, ity⟩ := shape_list n c.priv rest hn hc.privPlain
      refine ⟨g, cl, by rw [tt, hty], by rw [ity, hty], ?_⟩
      rw [hview]
      simp only [effective, isFlagType, isNumType, Bool.false_eq_true, ↓reduceIte, reduceCtorEq, lo, Option.map_some, Option.getD_some]
    · have hnil : c.priv = [] := by
        have : c.priv.length = 0 := by omega
        exact List.length_eq_zero_iff.mp this
      simp only [hl, ↓reduceIte, List.append_nil]
      obtain ⟨g, cl, tt, ia, ity⟩ := hbare
      refine ⟨g, cl, by rw [tt, hty], by rw [ity, hty], ?_⟩
      rw [hview]
      simp [effective, isFlagType, isNumType, listOf, ia, hnil]
  case noCache =>
    have hview : view c .noCache = some (.list c.noCache) := by simp [view, hs, isNumType]
    simp only [packValue]
    by_cases hl : c.noCache.length ≠ 0
    · simp only [hl, ne_eq, not_false_eq_true, ↓reduceIte]
      have hform : n ++ ([61, 34] ++ c.noCache ++ [34]) = n ++ 61 :: 34 :: (c.noCache ++ [34]) := by simp
      rw [hform]
      obtain ⟨g, cl, tt, lo, ity⟩ := shape_list n c.noCache rest hn hc.ncPlain
      refine ⟨g, cl, by rw [tt, hty], by rw [ity, hty], ?_⟩
      rw [hview]
      simp only [effective, isFlagType, isNumType, Bool.false_eq_true, ↓reduceIte, reduceCtorEq, lo, Option.map_some, Option.getD_some]
    · have hnil : c.noCache = [] := by
        have : c.noCache.length = 0 := by omega
        exact List.length_eq_zero_iff.mp this
      simp only [hl, ↓reduceIte, List.append_nil]
      obtain ⟨g, cl, tt, ia, ity⟩ := hbare
      refine ⟨g, cl, by rw [tt, hty], by rw [ity, hty], ?_⟩
      rw [hview]
      simp [effective, isFlagType, isNumType, listOf, ia, hnil]
  all_goals
    simp only [packValue, List.append_nil]
    obtain ⟨g, cl, tt, ia, ity⟩ := hbare
    refine ⟨g, cl, by rw [tt, hty], by rw [ity, hty], ?_⟩
    simp [effective, isFlagType, view, hs, isNumType]


/-! ### assembling: parse (pack c) shows what c shows -/

theorem parse_view (s : Bytes) (t : CcType) (ho : t ≠ .other) (he : t ≠ .enumEnd) :
    view (parse s) t = ((items s).filter (fun it => itemType it = t)).findSome? (effective t) := by
  unfold parse parseFrom
  rw [foldl_view _ _ lite_init t ho he, view_init]
  simp

theorem parse_other (s : Bytes) :
    (parse s).other = joinItems (((items s).filter (fun it => itemType it = .other)).map (fun it => it.1.take it.2)) := by
  unfold parse parseFrom
  rw [foldl_other, foldl_join]
  · simp
  · intro e he
    simp only [List.mem_map, List.mem_filter] at he
    obtain ⟨it, ⟨hit, _⟩, rfl⟩ := he
    exact items_texts_ne s _ (List.mem_map.mpr ⟨it, hit, rfl⟩)

theorem joinItems_cons_rest (a : Bytes) (r : List Bytes) : ∃ rest, RestOk rest ∧ joinItems (a :: r) = a ++ rest := by
  cases r with
  | nil => exact ⟨[], Or.inl rfl, by simp [joinItems]⟩
  | cons b r' => exact ⟨44 :: 32 :: joinItems (b :: r'), Or.inr ⟨_, rfl⟩, rfl⟩

theorem mem_suffixItems (es : List Bytes) (it : Bytes × Nat) (h : it ∈ suffixItems es) :
    ∃ e rest, e ∈ es ∧ RestOk rest ∧ it = (e ++ rest, e.length) := by
  induction es with
  | nil => simp [suffixItems] at h
  | cons a r ih =>
    simp only [suffixItems, List.mem_cons] at h
    rcases h with rfl | h
    · obtain ⟨rest, hr, hj⟩ := joinItems_cons_rest a r
      exact ⟨a, rest, List.mem_cons_self, hr, by rw [hj]⟩
    · obtain ⟨e, rest, he, hr, hit⟩ := ih h
      exact ⟨e, rest, List.mem_cons_of_mem _ he, hr, hit⟩

theorem suffixItems_of_mem (es : List Bytes) (e : Bytes) (h : e ∈ es) :
    ∃ rest, RestOk rest ∧ (e ++ rest, e.length) ∈ suffixItems es := by
  induction es with
  | nil => simp at h
  | cons a r ih =>
    simp only [List.mem_cons] at h
    rcases h with rfl | h
    · obtain ⟨rest, hr, hj⟩ := joinItems_cons_rest e r
      exact ⟨rest, hr, by simp [suffixItems, hj]⟩
    · obtain ⟨rest, hr, hm⟩ := ih h
      exact ⟨rest, hr, by simp [suffixItems, hm]⟩

theorem suffixItems_other_texts (es : List Bytes) :
    ((suffixItems es).filter (fun it => itemType it = .other)).map (fun it => it.1.take it.2) =
      es.filter (fun e => textType e = .other) := by
  induction es with
  | nil => rfl
  | cons a r ih =>
    obtain ⟨rest, _, hj⟩ := joinItems_cons_rest a r
    simp only [suffixItems, List.filter_cons, hj, itemType_append]
    by_cases h : textType a = .other
    · simp [h, ih]
    · simp [h, ih]

theorem initClosed_append_closed (D L : List Bytes) (hD : ∀ e ∈ D, Closed e) (hL : InitClosed L) : InitClosed (D ++ L) := by
  rw [initClosed_iff] at hL ⊢
  intro e he
  cases L with
  | nil =>
    simp only [List.append_nil] at he
    exact hD e (List.dropLast_subset _ he)
  | cons b L' =>
    rw [List.dropLast_append_of_ne_nil (by simp)] at he
    simp only [List.mem_append] at he
    rcases he with he | he
    · exact hD e he
    · exact hL e he

theorem mem_packedDirs (c : Cc) (e : Bytes) (h : e ∈ packedDirs c Gen.CcDirectives.attrs) :
    ∃ row ∈ Gen.CcDirectives.attrs, c.isSet row.2 = true ∧ row.2 ≠ .other ∧ e = dirText c row := by
  unfold packedDirs at h
  simp only [List.mem_map, List.mem_filter, decide_eq_true_eq] at h
  obtain ⟨row, ⟨hr, hs, ho⟩, rfl⟩ := h
  exact ⟨row, hr, hs, ho, rfl⟩

/-- the observation-level round trip for a state with the invariants of a parse result -/
theorem roundtrip_of_canon (c : Cc) (hc : CanonBase c) (hoth : OtherOk c []) (hm : c.mask ≠ 0) :
    (∀ t, t ≠ .other → t ≠ .enumEnd → view (parse (pack c)) t = view c t) ∧ (parse (pack c)).other = c.other := by
  obtain ⟨L, hL, hLgood, hLcl⟩ := hoth
  simp only [List.append_nil] at hLcl
  have hLne : ∀ e ∈ L, e ≠ [] := fun e he => (hLgood e he).1.ne
  have hpack := pack_eq_join c hm L hL hLne
  have hD : ∀ e ∈ packedDirs c Gen.CcDirectives.attrs, ∀ rest, RestOk rest →
      ∃ row ∈ Gen.CcDirectives.attrs, e = dirText c row ∧ c.isSet row.2 = true ∧ row.2 ≠ .other ∧ DirOk c row.2 e rest := by
    intro e he rest hr
    obtain ⟨row, hrow, hs, ho, rfl⟩ := mem_packedDirs c e he
    exact ⟨row, hrow, rfl, hs, ho, dir_roundtrip c hc row hrow ho hs rest hr⟩
  have hgood : ∀ e ∈ packedDirs c Gen.CcDirectives.attrs ++ L, GoodItem e := by
    intro e he
    simp only [List.mem_append] at he
    rcases he with he | he
    · obtain ⟨_, _, _, _, _, hd⟩ := hD e he [] (Or.inl rfl); exact hd.good
    · exact (hLgood e he).1
  have hclosed : InitClosed (packedDirs c Gen.CcDirectives.attrs ++ L) := by
    apply initClosed_append_closed _ _ _ hLcl
    intro e he
    obtain ⟨_, _, _, _, _, hd⟩ := hD e he [] (Or.inl rfl); exact hd.closed
  have hitems : items (pack c) = suffixItems (packedDirs c Gen.CcDirectives.attrs ++ L) := by
    rw [hpack]; exact items_join _ hgood hclosed
  constructor
  · intro t ho he
    rw [parse_view _ t ho he, hitems]
    -- (A) every item of type t in the packed text records what c shows for t
    have hA : ∀ it ∈ suffixItems (packedDirs c Gen.CcDirectives.attrs ++ L), itemType it = t → effective t it = view c t := by
      intro it hit hty
      obtain ⟨e, rest, hee, hr, rfl⟩ := mem_suffixItems _ _ hit
      simp only [List.mem_append] at hee
      rcases hee with hee | hee
      · obtain ⟨row, _, _, _, _, hd⟩ := hD e hee rest hr
        have : row.2 = t := by rw [← hd.itype]; exact hty
        subst this
        exact hd.eff
      · exfalso
        rw [itemType_append, (hLgood e hee).2] at hty
        exact ho hty.symm
    -- (B) a set directive has an item
    have hB : c.isSet t = true → ∃ it ∈ suffixItems (packedDirs c Gen.CcDirectives.attrs ++ L), itemType it = t := by
      intro hs
      obtain ⟨row, hrow, hrt⟩ := attrs_all_types t ho he
      subst hrt
      have hmem : dirText c row ∈ packedDirs c Gen.CcDirectives.attrs := by
        unfold packedDirs
        simp only [List.mem_map, List.mem_filter, decide_eq_true_eq]
        exact ⟨row, ⟨hrow, hs, ho⟩, rfl⟩
      obtain ⟨rest, hr, hin⟩ := suffixItems_of_mem _ _ (List.mem_append_left L hmem)
      refine ⟨_, hin, ?_⟩
      exact (dir_roundtrip c hc row hrow ho hs rest hr).itype
    cases hf : (suffixItems (packedDirs c Gen.CcDirectives.attrs ++ L)).filter (fun it => itemType it = t) with
    | nil =>
      simp only [List.findSome?_nil]
      cases hs : c.isSet t with
      | false => exact ((view_none_iff _ _).mpr hs).symm
      | true =>
        obtain ⟨it, hit, hty⟩ := hB hs
        have : it ∈ (suffixItems (packedDirs c Gen.CcDirectives.attrs ++ L)).filter (fun it => itemType it = t) := by
          simp [List.mem_filter, hit, hty]
        rw [hf] at this; simp at this
    | cons it r =>
      have hall : ∀ x ∈ it :: r, effective t x = view c t := by
        intro x hx
        rw [← hf] at hx
        simp only [List.mem_filter, decide_eq_true_eq] at hx
        exact hA x hx.1 hx.2
      cases hv : view c t with
      | none =>
        rw [List.findSome?_eq_none_iff]
        intro x hx
        rw [hall x hx, hv]
      | some y =>
        simp only [List.findSome?_cons, hall it (List.mem_cons_self), hv]
  · rw [parse_other, hitems, suffixItems_other_texts, List.filter_append, hL]
    have h1 : (packedDirs c Gen.CcDirectives.attrs).filter (fun e => textType e = .other) = [] := by
      rw [List.filter_eq_nil_iff]
      intro e he
      obtain ⟨row, _, _, _, hro, hd⟩ := hD e he [] (Or.inl rfl)
      simp only [decide_eq_true_eq]
      rw [hd.ttype]; exact hro
    have h2 : L.filter (fun e => textType e = .other) = L := by
      rw [List.filter_eq_self]
      intro e he
      simp [(hLgood e he).2]
    rw [h1, h2]; rfl


/-- every parse result has the invariants -/
theorem parse_canon (s : Bytes) : CanonBase (parse s) ∧ OtherOk (parse s) [] := by
  unfold parse parseFrom
  refine ⟨foldl_canonBase _ _ lite_init canonBase_init, ?_⟩
  obtain ⟨h1, h2, h3⟩ := itemsAux_spec (s.length + 1) s
  apply foldl_otherOk
  · intro it hit
    exact ⟨h1 _ (List.mem_map.mpr ⟨it, hit, rfl⟩), (h3 it hit).1⟩
  · exact ⟨[], rfl, by simp, by simpa [items] using h2⟩

/-! ### the return value: `mask != 0` -/

/-- every mask bit belongs to a known directive (the `CC_OTHER` and `CC_ENUM_END` bits are never set) -/
def MaskOk (c : Cc) : Prop := ∀ i, c.mask.testBit i = true → ∃ t : CcType, t.idx = i ∧ t ≠ .other ∧ t ≠ .enumEnd

theorem maskOk_setMask (c : Cc) (t : CcType) (b : Bool) (h : MaskOk c) (ho : t ≠ .other) (he : t ≠ .enumEnd) :
    MaskOk (c.setMask t b) := by
  intro i hi
  unfold Cc.setMask at hi
  cases b with
  | true =>
    simp only [↓reduceIte] at hi
    have := ebitTest_set c.mask t.idx i
    unfold ebitTest at this
    rw [this] at hi
    simp only [Bool.or_eq_true, decide_eq_true_eq] at hi
    rcases hi with hi | hi
    · exact h i hi
    · exact ⟨t, hi, ho, he⟩
  | false =>
    simp only [Bool.false_eq_true, ↓reduceIte] at hi
    have := ebitTest_clr c.mask t.idx i
    unfold ebitTest at this
    rw [this] at hi
    simp only [Bool.and_eq_true] at hi
    exact h i hi.1

theorem maskOk_of_mask_eq (c c' : Cc) (h : MaskOk c) (hm : c'.mask = c.mask) : MaskOk c' := by
  intro i hi; rw [hm] at hi; exact h i hi

theorem stepItem_maskOk (c : Cc) (it : Bytes × Nat) (h : MaskOk c) : MaskOk (stepItem c it) := by
  unfold stepItem
  simp only
  split
  · exact h
  · generalize itemType it = u
    cases u <;> simp only [applyDirective, numericCase_eq]
    case other => exact maskOk_of_mask_eq c _ h (by simp)
    case enumEnd => exact h
    case private_ =>
      rcases ha : itemArg it with _ | s
      · exact maskOk_setMask _ _ _ (maskOk_of_mask_eq c _ h (by simp)) (by decide) (by decide)
      · dsimp only
        rcases hq : parseQuoted s (it.2 - itemNlen it - 1) with _ | v
        · exact maskOk_setMask _ _ _ h (by decide) (by decide)
        · exact maskOk_setMask _ _ _ (maskOk_of_mask_eq c _ h (by simp)) (by decide) (by decide)
    case noCache =>
      rcases ha : itemArg it with _ | s
      · exact maskOk_of_mask_eq _ _ (maskOk_setMask c .noCache true h (by decide) (by decide)) (by simp)
      · dsimp only
        rcases hq : parseQuoted s (it.2 - itemNlen it - 1) with _ | v
        · exact h
        · exact maskOk_of_mask_eq _ _ (maskOk_setMask c .noCache true h (by decide) (by decide)) (by simp)
    case maxAge | sMaxage | maxStale | minFresh | staleIfError =>
      split
      · exact maskOk_setMask _ _ _ (maskOk_of_mask_eq c _ h (by simp)) (by decide) (by decide)
      · split <;> exact maskOk_setMask _ _ _ (maskOk_of_mask_eq c _ h (by simp)) (by decide) (by decide)
    all_goals exact maskOk_setMask _ _ _ h (by decide) (by decide)

theorem parse_maskOk (s : Bytes) : MaskOk (parse s) := by
  unfold parse parseFrom
  have : ∀ (its : List (Bytes × Nat)) (c : Cc), MaskOk c → MaskOk (its.foldl stepItem c) := by
    intro its
    induction its with
    | nil => intro c h; exact h
    | cons it r ih => intro c h; exact ih _ (stepItem_maskOk c it h)
  apply this
  intro i hi
  simp at hi

/-- `parse` returns true iff some known directive is recorded -/
theorem mask_ne_zero_iff (c : Cc) (h : MaskOk c) :
    c.mask ≠ 0 ↔ ∃ t : CcType, t ≠ .other ∧ t ≠ .enumEnd ∧ c.isSet t = true := by
  constructor
  · intro hne
    obtain ⟨i, hi⟩ := Nat.exists_testBit_of_ne_zero hne
    obtain ⟨t, hti, ho, he⟩ := h i hi
    exact ⟨t, ho, he, by unfold Cc.isSet ebitTest; rw [hti]; exact hi⟩
  · rintro ⟨t, _, _, hs⟩ hz
    unfold Cc.isSet ebitTest at hs
    rw [hz] at hs
    simp at hs


/-- a successful parse stays successful after pack + parse -/
theorem roundtrip_ok (s : Bytes) (h : (parse s).mask ≠ 0) : (parse (pack (parse s))).mask ≠ 0 := by
  obtain ⟨t, ho, he, hs⟩ := (mask_ne_zero_iff _ (parse_maskOk s)).mp h
  have hv := (roundtrip_of_canon (parse s) (parse_canon s).1 (parse_canon s).2 h).1 t ho he
  apply (mask_ne_zero_iff _ (parse_maskOk _)).mpr
  refine ⟨t, ho, he, ?_⟩
  cases hs2 : (parse (pack (parse s))).isSet t with
  | true => rfl
  | false =>
    have h1 : view (parse (pack (parse s))) t = none := (view_none_iff _ _).mpr hs2
    have h2 : view (parse s) t ≠ none := by simp [view, hs]
    rw [hv] at h1
    exact absurd h1 h2

end SquidModel.Cc
