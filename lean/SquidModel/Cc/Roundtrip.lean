/-
C29: pack then parse. Part 1: joins, the all-but-last-closed property, the type of an item from its text, `other` per round;
part 2: the invariant of parse results (`Canon`); part 3: what `packInto` prints and how it is parsed back.
-/
import SquidModel.Cc.Exact
import SquidModel.Cc.QuotedLemmas
open SquidModel SquidModel.Cc
namespace SquidModel.Cc

/-! ### ", "-joins -/

theorem joinItems_cons_ne (a : Bytes) (r : List Bytes) (h : r ≠ []) :
    joinItems (a :: r) = a ++ 44 :: 32 :: joinItems r := by
  cases r with
  | nil => exact absurd rfl h
  | cons b r' => rfl

theorem joinItems_append (A B : List Bytes) (hA : A ≠ []) (hB : B ≠ []) :
    joinItems (A ++ B) = joinItems A ++ 44 :: 32 :: joinItems B := by
  induction A with
  | nil => exact absurd rfl hA
  | cons a r ih =>
    cases r with
    | nil => simp [joinItems, joinItems_cons_ne a B hB]
    | cons b r' =>
      have := ih (by simp)
      simp only [List.cons_append] at this ⊢
      rw [joinItems_cons_ne a _ (by simp), this, joinItems_cons_ne a (b :: r') (by simp)]
      simp

theorem joinItems_snoc (A : List Bytes) (d : Bytes) :
    joinItems (A ++ [d]) = if A = [] then d else joinItems A ++ 44 :: 32 :: d := by
  by_cases h : A = []
  · subst h; simp [joinItems]
  · rw [joinItems_append A [d] h (by simp)]; simp [h, joinItems]

theorem joinItems_eq_nil (L : List Bytes) (hne : ∀ e ∈ L, e ≠ []) (h : joinItems L = []) : L = [] := by
  cases L with
  | nil => rfl
  | cons a r =>
    exfalso
    have ha := hne a (List.mem_cons_self)
    cases r with
    | nil => simp [joinItems] at h; exact ha h
    | cons b r' => simp [joinItems] at h

/-! ### all-but-last closed -/

theorem initClosed_iff (l : List Bytes) : InitClosed l ↔ ∀ e ∈ l.dropLast, Closed e := by
  induction l with
  | nil => simp [InitClosed]
  | cons x r ih =>
    cases r with
    | nil => simp [InitClosed]
    | cons y r' =>
      simp only [InitClosed, List.dropLast_cons_cons, List.mem_cons, forall_eq_or_imp]
      rw [ih]

theorem initClosed_remove (A B : List Bytes) (x : Bytes) (h : InitClosed (A ++ x :: B)) : InitClosed (A ++ B) := by
  rw [initClosed_iff] at h ⊢
  intro e he
  apply h e
  cases B with
  | nil =>
    simp only [List.append_nil] at he
    rw [List.dropLast_append_of_ne_nil (by simp)]
    simp only [List.dropLast_singleton, List.append_nil]
    exact List.dropLast_subset _ he
  | cons b B' =>
    rw [List.dropLast_append_of_ne_nil (by simp)] at he ⊢
    simp only [List.mem_append] at he ⊢
    rcases he with he | he
    · exact Or.inl he
    · right
      simp only [List.dropLast_cons_cons, List.mem_cons]
      exact Or.inr he

theorem initClosed_prefix (A B : List Bytes) (h : InitClosed (A ++ B)) : InitClosed A := by
  rw [initClosed_iff] at h ⊢
  intro e he
  apply h e
  cases B with
  | nil => simpa using he
  | cons b B' =>
    rw [List.dropLast_append_of_ne_nil (by simp)]
    exact List.mem_append_left _ (List.dropLast_subset _ he)

/-! ### type of an item from its text alone -/

/-- the type of an item with text `e` (the lookup only reads the text before `=`) -/
def textType (e : Bytes) : CcType := itemType (e, e.length)

theorem itemType_eq_textType (it : Bytes × Nat) (h : it.2 ≤ it.1.length) : itemType it = textType (it.1.take it.2) := by
  obtain ⟨p, n⟩ := it
  simp only at h
  unfold textType itemType itemNlen itemEq
  simp only [List.length_take, Nat.min_eq_left h, List.take_take, Nat.min_self]
  split
  · rename_i hlt
    rw [Nat.min_eq_left (Nat.le_of_lt hlt)]
  · simp

theorem itemType_append (e rest : Bytes) : itemType (e ++ rest, e.length) = textType e := by
  rw [itemType_eq_textType _ (by simp)]
  simp

/-! ### `other` under one round of the loop -/

theorem stepItem_other_eq (c : Cc) (it : Bytes × Nat) (h : itemType it = .other) :
    (stepItem c it).other = (if c.other.length ≠ 0 then c.other ++ [44, 32] else c.other) ++ it.1.take it.2 := by
  unfold stepItem
  simp [h, applyDirective]

theorem stepItem_other_ne (c : Cc) (it : Bytes × Nat) (ht : itemType it ≠ .other) : (stepItem c it).other = c.other := by
  unfold stepItem
  simp only
  split
  · rfl
  · generalize hg : itemType it = u at *
    cases u <;> simp only [applyDirective, numericCase_eq]
    case other => exact absurd rfl ht
    case private_ =>
      rcases ha : itemArg it with _ | s
      · simp
      · dsimp only
        rcases hq : parseQuoted s (it.2 - itemNlen it - 1) with _ | v <;> simp
    case noCache =>
      rcases ha : itemArg it with _ | s
      · simp
      · dsimp only
        rcases hq : parseQuoted s (it.2 - itemNlen it - 1) with _ | v <;> simp
    case maxAge | sMaxage | maxStale | minFresh | staleIfError =>
      split
      · simp
      · split <;> simp
    all_goals simp

end SquidModel.Cc
