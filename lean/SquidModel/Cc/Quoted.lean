/-
C29: `httpHeaderParseQuotedString(start, len, &val)` (src/HttpHeader.cc), branch by branch.

`start` is the suffix of the field value beginning at the pointer (the NUL terminator is the end of the list: reading at or
past the end yields 0), `pos`/`end` are offsets from `start`.
-/
import SquidModel.Cc.StrList

namespace SquidModel.Cc
open SquidModel

/-- `start[i]` of the NUL-terminated buffer -/
def cget (t : Bytes) (i : Nat) : UInt8 := t.getD i 0

/-- octets the inner `while (end < start+len && …) ++end` loop steps over -/
def isPlainQ (c : UInt8) : Bool := c ≠ 92 && c ≠ 34 && c > 0x1F && c ≠ 0x7F

/-- the inner `while` loop: how far `end` advances over `t` (= the buffer from `pos` on) with `k = start+len-end` octets allowed -/
def plainRun : Bytes → Nat → Nat
  | c :: r, k + 1 => if isPlainQ c then 1 + plainRun r k else 0
  | _, _ => 0

/-- the outer `while (*pos != '"' && len > (pos-start))` loop followed by the closing-quote test.
`none` = return 0 (`val` cleaned), `some v` = return 1 with `*val = v`. Fuel bounds the number of iterations. -/
def qsLoop (t : Bytes) (len : Nat) : Nat → Nat → Bytes → Option Bytes
  | 0, _, _ => none
  | f + 1, pos, val =>
    let c := cget t pos
    if ¬ (c ≠ 34 ∧ len > pos) then
      -- after the loop: `if (*pos != '\"') fail`
      if c = 34 then some val else none
    else
      -- `if (*pos == '\r') { ++pos; if ((pos-start) > len || *pos != '\n') fail }`
      let pos1 := if c = 13 then pos + 1 else pos
      if c = 13 ∧ (pos1 > len ∨ cget t pos1 ≠ 10) then none
      else if cget t pos1 = 10 then
        -- `if (*pos == '\n') { ++pos; if ((pos-start) > len || (*pos != ' ' && *pos != '\t')) fail; val->append(" "); ++pos; continue }`
        let pos2 := pos1 + 1
        if pos2 > len ∨ (cget t pos2 ≠ 32 ∧ cget t pos2 ≠ 9) then none
        else qsLoop t len f (pos2 + 1) (val ++ [32])
      else
        -- `bool quoted = (*pos == '\\'); if (quoted) { ++pos; if (!*pos || (pos-start) > len) fail }`
        let quoted := cget t pos1 = 92
        let pos3 := if quoted then pos1 + 1 else pos1
        if quoted ∧ (cget t pos3 = 0 ∨ pos3 > len) then none
        else
          -- `end = pos; while (end < start+len && plain(*end)) ++end;`
          let e := pos3 + plainRun (t.drop pos3) (len - pos3)
          let ce := cget t e
          -- `if (CTL other than CR LF, or DEL at *end) fail`
          if (ce ≤ 0x1F ∧ ce ≠ 13 ∧ ce ≠ 10) ∨ ce = 0x7F then none
          else qsLoop t len f e (val ++ (t.drop pos3).take (e - pos3))   -- `val->append(pos, end-pos); pos = end`

/-- `httpHeaderParseQuotedString(start, len, &val)` -/
def parseQuoted (start : Bytes) (len : Nat) : Option Bytes :=
  if cget start 0 ≠ 34 then none
  else qsLoop start len (len + 2) 1 []

end SquidModel.Cc
