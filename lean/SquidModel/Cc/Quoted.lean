/-
C29: `httpHeaderParseQuotedString(start, len, &val)` (src/HttpHeader.cc), branch by branch.

`start` is the suffix of the field value beginning at the pointer (the NUL terminator is the end of the list: reading at or
past the end yields 0), `pos`/`end` are offsets from `start`.
-/
import SquidModel.Cc.StrList

namespace SquidModel.Cc
open SquidModel

/-- `start[i]` of the NUL-terminated buffer -/
def cget (t : Bytes) (i : Nat) : UInt8 := t.getD i 0

/-- octets the inner `while (end < start+len && …) ++end` loop steps over -/
def isPlainQ (c : UInt8) : Bool := c ≠ 92 && c ≠ 34 && c > 0x1F && c ≠ 0x7F

/-- the inner `while` loop: how far `end` advances over `t` (= the buffer from `pos` on) with `k = start+len-end` octets allowed -/
def plainRun : Bytes → Nat → Nat
  | c :: r, k + 1 => if isPlainQ c then 1 + plainRun r k else 0
  | _, _ => 0

/-- outcome of one round of the outer loop -/
inductive QsStep
  | fail                              -- `val->clean(); return 0`
  | finish (v : Bytes)                -- the loop ended and `*pos == '"'`: `return 1`
  | next (pos : Nat) (val : Bytes)    -- `continue` / fall through to the next round
  deriving DecidableEq, Repr

/-- `if (*pos == '\n') { ++pos; if ((pos-start) > len || (*pos != ' ' && *pos != '\t')) fail; val->append(" "); ++pos; continue; }`
(`pos` points at the LF) -/
def qsLf (t : Bytes) (len pos : Nat) (val : Bytes) : QsStep :=
  let pos2 := pos + 1
  if pos2 > len ∨ (cget t pos2 ≠ 32 ∧ cget t pos2 ≠ 9) then .fail
  else .next (pos2 + 1) (val ++ [32])

/-- `end = pos; while (end < start+len && plain(*end)) ++end; if (CTL other than CR LF, or DEL at *end) fail;
val->append(pos, end-pos); pos = end` -/
def qsRun (t : Bytes) (len pos : Nat) (val : Bytes) : QsStep :=
  let run := plainRun (t.drop pos) (len - pos)
  let ce := cget t (pos + run)
  if (ce ≤ 0x1F ∧ ce ≠ 13 ∧ ce ≠ 10) ∨ ce = 0x7F then .fail
  else .next (pos + run) (val ++ (t.drop pos).take run)

/-- the rest of the loop body: `bool quoted = (*pos == '\\'); if (quoted) { ++pos; if (!*pos || (pos-start) > len) fail }`,
then the run of plain octets -/
def qsPlain (t : Bytes) (len pos : Nat) (val : Bytes) : QsStep :=
  if cget t pos = 92 then
    if cget t (pos + 1) = 0 ∨ pos + 1 > len then .fail else qsRun t len (pos + 1) val
  else qsRun t len pos val

/-- one evaluation of the loop condition `*pos != '"' && len > (pos-start)` and, if it holds, of the body -/
def qsStep (t : Bytes) (len pos : Nat) (val : Bytes) : QsStep :=
  let c := cget t pos
  if ¬ (c ≠ 34 ∧ len > pos) then
    -- after the loop: `if (*pos != '\"') fail`
    if c = 34 then .finish val else .fail
  else if c = 13 then
    -- `if (*pos == '\r') { ++pos; if ((pos-start) > len || *pos != '\n') fail }` and then the LF branch
    if pos + 1 > len ∨ cget t (pos + 1) ≠ 10 then .fail else qsLf t len (pos + 1) val
  else if c = 10 then qsLf t len pos val
  else qsPlain t len pos val

/-- the outer `while` loop followed by the closing-quote test.
`none` = return 0 (`val` cleaned), `some v` = return 1 with `*val = v`. Fuel bounds the number of rounds. -/
def qsLoop (t : Bytes) (len : Nat) : Nat → Nat → Bytes → Option Bytes
  | 0, _, _ => none
  | f + 1, pos, val =>
    match qsStep t len pos val with
    | .fail => none
    | .finish v => some v
    | .next pos' val' => qsLoop t len f pos' val'

/-- `httpHeaderParseQuotedString(start, len, &val)` -/
def parseQuoted (start : Bytes) (len : Nat) : Option Bytes :=
  if cget start 0 ≠ 34 then none
  else qsLoop start len (len + 2) 1 []

end SquidModel.Cc
