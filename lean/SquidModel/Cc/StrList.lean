/-
C29: `strListGetItem(str, ',', &item, &ilen, &pos)` (src/StrList.cc), the quote/escape aware list splitter.

A C pointer into the NUL-terminated field value is modelled as the *suffix* of the value that starts at the pointer
(the terminating NUL is the end of the list); `pos`, `item` are such suffixes, `ilen` a length.
-/
import SquidModel.Base.Bytes
import SquidModel.Gen.CcDirectives

namespace SquidModel.Cc
open SquidModel

/-- `xisspace` in the C locale (set regenerated from the running code) -/
def isSpaceC (c : UInt8) : Bool := Gen.CcDirectives.spaceChars.contains c
/-- `xisdigit` -/
def isDigitC (c : UInt8) : Bool := Gen.CcDirectives.digitChars.contains c

/-- `delim[2]` with `del = ','` (regenerated from src/StrList.cc; `" ,,\t\r\n\v\f"`): what `strspn` skips before an item -/
def isLeadDelim (c : UInt8) : Bool := Gen.CcDirectives.leadDelims.contains c

/-- the `do … while (**pos)` loop: number of octets from the item's start to the delimiter that ends it.
`quoted` is the C variable; `esc` = "the previous octet was a backslash inside quotes" (the `*pos += 1; if (**pos) *pos += 1` step).
`delim[0] = "\",,"` (unquoted: stop at `"` or `,`), `delim[1] = "\"\\"` (quoted: stop at `"` or `\`). -/
def scanLen : Bool → Bool → Bytes → Nat
  | _, _, [] => 0
  | q, true, _ :: r => 1 + scanLen q false r
  | false, false, c :: r =>
    if c = 34 then 1 + scanLen true false r
    else if c = 44 then 0
    else 1 + scanLen false false r
  | true, false, c :: r =>
    if c = 34 then 1 + scanLen false false r
    else if c = 92 then 1 + scanLen true true r
    else 1 + scanLen true false r

/-- the `rtrim` loop: length after removing trailing `xisspace` octets -/
def rtrimLen : Bytes → Nat
  | [] => 0
  | c :: r => let n := rtrimLen r; if n = 0 ∧ isSpaceC c then 0 else n + 1

/-- one call of `strListGetItem`: `none` = returned 0; `some (item, ilen, pos')` -/
def getItem (pos : Bytes) : Option (Bytes × Nat × Bytes) :=
  let item := pos.dropWhile isLeadDelim
  let n := scanLen false false item
  let ilen := rtrimLen (item.take n)
  if ilen = 0 then none else some (item, ilen, item.drop n)

/-- the `while (strListGetItem(...))` iteration: all (item pointer, ilen) pairs. Fuel = an upper bound on the number of calls
(every successful call consumes at least one octet). -/
def itemsAux : Nat → Bytes → List (Bytes × Nat)
  | 0, _ => []
  | f + 1, pos =>
    match getItem pos with
    | none => []
    | some (item, ilen, pos') => (item, ilen) :: itemsAux f pos'

def items (s : Bytes) : List (Bytes × Nat) := itemsAux (s.length + 1) s

end SquidModel.Cc
