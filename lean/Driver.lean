import Driver.Loop
