-- GENERATED: axiom audit of the property theorems of C23
import SquidModel.Properties.C23
#print axioms SquidModel.C23.segmentation_independent
#print axioms SquidModel.C23.segmentation_independent_exact
#print axioms SquidModel.C23.segmentation_independent_exact_incremental
#print axioms SquidModel.C23.every_split_point
#print axioms SquidModel.C23.remaining_after_too_large_counterexample
#print axioms SquidModel.C23.status_line_fields_extracted
#print axioms SquidModel.C23.accepted_is_status_line
#print axioms SquidModel.C23.accepted_status_range
#print axioms SquidModel.C23.viable_prefix_never_rejected
#print axioms SquidModel.C23.parse_response_status_ok
#print axioms SquidModel.C23.non_magic_is_http09
#print axioms SquidModel.C23.http09_only_without_magic
#print axioms SquidModel.C23.magic_prefix_waits
