-- GENERATED: axiom audit of the property theorems of C62
import SquidModel.Properties.C62
#print axioms SquidModel.C62.oversized_never_accepted
#print axioms SquidModel.C62.oversized_rejected
#print axioms SquidModel.C62.accepted_is_under_limit
#print axioms SquidModel.C62.undersized_accepted
#print axioms SquidModel.C62.oversized_reply_not_relayed
