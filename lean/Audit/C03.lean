-- GENERATED: axiom audit of the property theorems of C03
import SquidModel.Properties.C03
#print axioms SquidModel.C03.no_bytes_cross_messages
#print axioms SquidModel.C03.loop_terminates
#print axioms SquidModel.C03.chain_bounds
#print axioms SquidModel.C03.reject_stops_reading
#print axioms SquidModel.C03.forwarded_never_CL_and_TE_nor_two_CL
#print axioms SquidModel.C03.content_length_body_sound
#print axioms SquidModel.C03.head_ends_at_first_empty_line
#print axioms SquidModel.C03.chunked_body_exact
#print axioms SquidModel.C03.strict_rfc9112_message_delimited_exactly
#print axioms SquidModel.C03.te_and_cl_keeps_reading_counterexample
#print axioms SquidModel.C03.te_and_cl_closes_when_repaired
#print axioms SquidModel.C03.repaired_te_and_cl_never_persistent
#print axioms SquidModel.C03.vt_padded_chunked_accepted_counterexample
#print axioms SquidModel.C03.explicit_http09_post_accepted_counterexample
#print axioms SquidModel.C03.explicit_http09_post_rejected_when_repaired
#print axioms SquidModel.C03.repaired_http0_non_get_rejected
