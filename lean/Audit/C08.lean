-- GENERATED: axiom audit of the property theorems of C08
import SquidModel.Properties.C08
#print axioms SquidModel.C08.number_fd_eq_open_count
#print axioms SquidModel.C08.biggest_fd_is_max_open
#print axioms SquidModel.C08.fd_asserts_only_on_misuse
#print axioms SquidModel.C08.double_close_counterexample
#print axioms SquidModel.C08.open_close_effect
#print axioms SquidModel.C08.closeN_closes_min
#print axioms SquidModel.C08.idle_list_capacity
#print axioms SquidModel.C08.inv_run
#print axioms SquidModel.C08.base_step
#print axioms SquidModel.C08.base_run
#print axioms SquidModel.C08.number_fd_accounts_for_every_owner
#print axioms SquidModel.C08.quiescent_is_baseline_plus_idle
#print axioms SquidModel.C08.closeBusyAll_spec
#print axioms SquidModel.C08.expired_returns_to_baseline
#print axioms SquidModel.C08.pool_push_respects_fd_pressure
#print axioms SquidModel.C08.s0_inv
