-- GENERATED: axiom audit of the property theorems of C12
import SquidModel.Properties.C12
#print axioms SquidModel.C12.expired_entry_contacts_origin
#print axioms SquidModel.C12.explicit_lifetime_passed_contacts_origin_partial
#print axioms SquidModel.C12.explicit_lifetime_passed_contacts_origin_delay
#print axioms SquidModel.C12.lifetime_passed_after_revalidations_partial
#print axioms SquidModel.C12.date_older_than_24h_counterexample
#print axioms SquidModel.C12.undated_or_future_date_contacts_origin
#print axioms SquidModel.C12.revalidate_flag_contacts_origin
#print axioms SquidModel.C12.mustrevalidate_stale_contacts_origin
#print axioms SquidModel.C12.mustrevalidate_of_first_reply_after_revalidations
#print axioms SquidModel.C12.mustrevalidate_from_304_counterexample
#print axioms SquidModel.C12.maxage0_or_nocache_contacts_origin_partial
#print axioms SquidModel.C12.immutable_counterexample
#print axioms SquidModel.C12.max_stale_bounds_staleness
#print axioms SquidModel.C12.served_implies_unexpired
#print axioms SquidModel.C12.shift_invariant
