-- GENERATED: axiom audit of the property theorems of C61
import SquidModel.Properties.C61
#print axioms SquidModel.C61.report_only_if_allowed_and_password_ok
#print axioms SquidModel.C61.disabled_never_performed
#print axioms SquidModel.C61.pwreq_without_entry_never_performed
#print axioms SquidModel.C61.denied_never_reports
#print axioms SquidModel.C61.passwd_first_match
