-- GENERATED: axiom audit of the property theorems of C15
import SquidModel.Properties.C15
#print axioms SquidModel.C15.parts_are_requested_satisfiable
#print axioms SquidModel.C15.parts_cover_requested
#print axioms SquidModel.C15.parts_inside_object
#print axioms SquidModel.C15.honoured_wire_exact
#print axioms SquidModel.C15.content_length_exact
#print axioms SquidModel.C15.ignored_wire_full
#print axioms SquidModel.C15.prefix_variant_ignored_wire_counterexample
#print axioms SquidModel.C15.decision_never_packs_non200_or_limited_miss
#print axioms SquidModel.C15.merging_disabled
#print axioms SquidModel.C15.serveStored_sound
#print axioms SquidModel.C15.respond_status
