-- GENERATED: axiom audit of the property theorems of C15
import SquidModel.Properties.C15
#print axioms SquidModel.C15.merging_disabled
