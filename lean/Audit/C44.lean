-- GENERATED: axiom audit of the property theorems of C44
import SquidModel.Properties.C44
#print axioms SquidModel.C44.lastAction_nil
