-- GENERATED: axiom audit of the property theorems of C44
import SquidModel.Properties.C44
#print axioms SquidModel.C44.reference_is_first_match
#print axioms SquidModel.C44.implicit_answer
#print axioms SquidModel.C44.firstMatch_of_rulesMatch
#print axioms SquidModel.C44.config_decides_by_first_match
#print axioms SquidModel.C44.interleaved_checklists_independent
#print axioms SquidModel.C44.suspended_is_sound
#print axioms SquidModel.C44.schedule_terminates
#print axioms SquidModel.C44.async_eq_sync
#print axioms SquidModel.C44.fast_eq_reference
#print axioms SquidModel.C44.loop_limit_counterexample
