-- GENERATED: axiom audit of the property theorems of C14
import SquidModel.Properties.C14
#print axioms SquidModel.C14.if_match_failure_gets_412
#print axioms SquidModel.C14.not_modified_only_if
#print axioms SquidModel.C14.not_modified_names_the_entity_tag
#print axioms SquidModel.C14.full_response_otherwise
#print axioms SquidModel.C14.updated_headers_are_the_304s
#print axioms SquidModel.C14.unnamed_headers_unchanged
#print axioms SquidModel.C14.exempt_headers_unchanged
#print axioms SquidModel.C14.stored_body_unchanged
#print axioms SquidModel.C14.served_body_unchanged_partial
#print axioms SquidModel.C14.served_body_changed_counterexample
