-- GENERATED: axiom audit of the property theorems of C14
import SquidModel.Properties.C14
#print axioms SquidModel.C14.if_match_failure_gets_412
#print axioms SquidModel.C14.not_modified_only_if
#print axioms SquidModel.C14.not_modified_names_the_entity_tag
#print axioms SquidModel.C14.full_response_otherwise
#print axioms SquidModel.C14.hit_answer_eq_reference
#print axioms SquidModel.C14.has_one_of_etags_eq_reference
#print axioms SquidModel.C14.history_sound_partial
#print axioms SquidModel.C14.step_sound_partial
#print axioms SquidModel.C14.foreign_validator_counterexample
#print axioms SquidModel.C14.content_length_pre_fix
#print axioms SquidModel.C14.content_length_304_ignored
#print axioms SquidModel.C14.if_match_stale_if_error_counterexample
#print axioms SquidModel.C14.missed_304_after_revalidation
#print axioms SquidModel.C14.updated_headers_are_the_304s
#print axioms SquidModel.C14.unnamed_headers_unchanged
#print axioms SquidModel.C14.exempt_headers_unchanged
#print axioms SquidModel.C14.stored_body_unchanged
#print axioms SquidModel.C14.served_body_unchanged
#print axioms SquidModel.C14.served_body_changed_pre_fix
