-- GENERATED: axiom audit of the property theorems of C40
import SquidModel.Properties.C40
#print axioms SquidModel.C40.pasv_accept_fields
#print axioms SquidModel.C40.pasv_port_in_range
#print axioms SquidModel.C40.pasv_address_only_if_in_range_partial
#print axioms SquidModel.C40.pasv_wrap_counterexample
#print axioms SquidModel.C40.pasv_port_wrap_counterexample
#print axioms SquidModel.C40.pasv_forced_ip_counterexample
#print axioms SquidModel.C40.pasv_trailing_garbage_counterexample
#print axioms SquidModel.C40.pasv_space_sign_counterexample
#print axioms SquidModel.C40.pasv_stale_address_counterexample
#print axioms SquidModel.C40.pasv_accepts_strict
#print axioms SquidModel.C40.eprt_accept_fields
#print axioms SquidModel.C40.eprt_address_only_if_in_range_partial
#print axioms SquidModel.C40.eprt_port_70000_counterexample
#print axioms SquidModel.C40.eprt_port_65536_counterexample
#print axioms SquidModel.C40.eprt_port_zero_counterexample
#print axioms SquidModel.C40.eprt_port_empty_counterexample
#print axioms SquidModel.C40.eprt_port_wrap_sanity_counterexample
#print axioms SquidModel.C40.eprt_proto_wrap_counterexample
#print axioms SquidModel.C40.eprt_mixed_delimiter_counterexample
#print axioms SquidModel.C40.eprt_trailing_garbage_counterexample
#print axioms SquidModel.C40.eprt_accepts_strict
#print axioms SquidModel.C40.listing_no_oob
#print axioms SquidModel.C40.listing_token_array_bound
#print axioms SquidModel.C40.listing_tokens_within_line
#print axioms SquidModel.C40.listing_date_fits_tbuf
