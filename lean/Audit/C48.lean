-- GENERATED: axiom audit of the property theorems of C48
import SquidModel.Properties.C48
#print axioms SquidModel.C48.init_refines
#print axioms SquidModel.C48.step_refines_partial
#print axioms SquidModel.C48.run_refines_partial
#print axioms SquidModel.C48.contents_defined
#print axioms SquidModel.C48.policies_ok
#print axioms SquidModel.C48.chop_wrap_counterexample
#print axioms SquidModel.C48.rawAppend_zero_counterexample
#print axioms SquidModel.C48.empty_format_counterexample
#print axioms SquidModel.C48.rawSpace_no_throw_counterexample
