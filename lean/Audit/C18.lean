-- GENERATED: axiom audit of the property theorems of C18
import SquidModel.Properties.C18
#print axioms SquidModel.C18.one_fetch_when_cacheable
#print axioms SquidModel.C18.served_bytes_from_one_fetch
#print axioms SquidModel.C18.complete_means_whole_response_or_error_page
#print axioms SquidModel.C18.identical_copies
#print axioms SquidModel.C18.unshareable_never_served_to_collapsed_partial
#print axioms SquidModel.C18.unshareable_never_served_to_collapsed_fixed
#print axioms SquidModel.C18.released_entry_shares_private_reply_counterexample
#print axioms SquidModel.C18.current_variant
