-- GENERATED: axiom audit of the property theorems of C07
import SquidModel.Properties.C07
#print axioms SquidModel.C07.retry_gate_needs_retriable
#print axioms SquidModel.C07.resend_bound
#print axioms SquidModel.C07.non_idempotent_at_most_once_partial
#print axioms SquidModel.C07.request_with_body_at_most_once_partial
#print axioms SquidModel.C07.non_idempotent_at_most_once_counterexample
#print axioms SquidModel.C07.post_patch_not_retriable
#print axioms SquidModel.C07.extension_method_not_retriable
#print axioms SquidModel.C07.retriable_methods_are_registered_idempotent
#print axioms SquidModel.C07.reforwardable_statuses_are_errors
#print axioms SquidModel.C07.dispatches_le_max_tries
#print axioms SquidModel.C07.nonretriable_never_reuses_pconn
#print axioms SquidModel.C07.race_retry_uses_fresh_connection
#print axioms SquidModel.C07.scenario_is_a_history
#print axioms SquidModel.C07.scenario_non_idempotent_at_most_once_partial
