-- GENERATED: axiom audit of the property theorems of C56
import SquidModel.Properties.C56
#print axioms SquidModel.C56.fifo_no_dup_no_loss_partial
#print axioms SquidModel.C56.received_is_prefix_partial
#print axioms SquidModel.C56.all_delivered_at_rest
#print axioms SquidModel.C56.all_delivered_at_rest_partial
#print axioms SquidModel.C56.never_asleep_with_items
#print axioms SquidModel.C56.producer_alone_delivers_wakeup
#print axioms SquidModel.C56.idle_on_empty_next_push_notifies
#print axioms SquidModel.C56.notification_wakes_consumer
#print axioms SquidModel.C56.consumer_alone_delivers_everything
#print axioms SquidModel.C56.at_most_one_notification
#print axioms SquidModel.C56.slots_disjoint_partial
#print axioms SquidModel.C56.size_in_range
#print axioms SquidModel.C56.window_bounded
#print axioms SquidModel.C56.tree_capacities_ok
#print axioms SquidModel.C56.fifo_counterexample
#print axioms SquidModel.C56.fifo_counterexample_from_fresh_queue
