-- GENERATED: axiom audit of the property theorems of C35
import SquidModel.Properties.C35
#print axioms SquidModel.C35.parse_format
#print axioms SquidModel.C35.format_is_imf_fixdate
#print axioms SquidModel.C35.asctime_round_trip
#print axioms SquidModel.C35.rfc850_round_trip
#print axioms SquidModel.C35.denotes_unique
#print axioms SquidModel.C35.denotes_valid
#print axioms SquidModel.C35.imf_fixdate_denoted
#print axioms SquidModel.C35.asctime_denoted
#print axioms SquidModel.C35.rfc850_fixed_window
#print axioms SquidModel.C35.rfc850_denoted_partial
#print axioms SquidModel.C35.insane_fields_rejected
#print axioms SquidModel.C35.insane_fields_rejected_rfc850
#print axioms SquidModel.C35.parse_reads_63_bytes
#print axioms SquidModel.C35.nonexistent_day_rejected
#print axioms SquidModel.C35.rfc850_window_counterexample
