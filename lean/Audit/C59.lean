-- GENERATED: axiom audit of the property theorems of C59
import SquidModel.Properties.C59
#print axioms SquidModel.C59.never_early
#print axioms SquidModel.C59.schedule_due_time
#print axioms SquidModel.C59.handler_never_early
#print axioms SquidModel.C59.handler_never_early_counterexample
#print axioms SquidModel.C59.timeRemaining_rounds_up
#print axioms SquidModel.C59.head_is_earliest
#print axioms SquidModel.C59.checkEvents_answer
#print axioms SquidModel.C59.list_sorted
#print axioms SquidModel.C59.ids_in_scheduling_order
#print axioms SquidModel.C59.fires_in_order_stable
#print axioms SquidModel.C59.fired_before_pending
#print axioms SquidModel.C59.handlers_run_in_dequeue_order
#print axioms SquidModel.C59.schedule_position
#print axioms SquidModel.C59.cancelled_never_fires
#print axioms SquidModel.C59.cancelled_never_fires_partial
#print axioms SquidModel.C59.cancelled_never_fires_counterexample
#print axioms SquidModel.C59.cancel_preserves_others
#print axioms SquidModel.C59.cancel_removes_exactly
#print axioms SquidModel.C59.due_events_fire
#print axioms SquidModel.C59.fires_at_most_once
#print axioms SquidModel.C59.runOnce_settles
#print axioms SquidModel.C59.find_spec
