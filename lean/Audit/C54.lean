-- GENERATED: axiom audit of the property theorems of C54
import SquidModel.Properties.C54
#print axioms SquidModel.C54.exclusive_holders_unique
#print axioms SquidModel.C54.exclusive_excludes_shared
#print axioms SquidModel.C54.shared_with_writer_only_if_appending
#print axioms SquidModel.C54.headers_mutex
#print axioms SquidModel.C54.idle_after_release
#print axioms SquidModel.C54.can_acquire_when_idle
#print axioms SquidModel.C54.asserts_hold
#print axioms SquidModel.C54.finalize_sees_not_appending
#print axioms SquidModel.C54.executed_runs_are_reachable
