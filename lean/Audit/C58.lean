-- GENERATED: axiom audit of the property theorems of C58
import SquidModel.Properties.C58
#print axioms SquidModel.C58.get_put_roundtrip
#print axioms SquidModel.C58.put_overflow_throws
#print axioms SquidModel.C58.put_never_oob
#print axioms SquidModel.C58.wrong_type_throws
#print axioms SquidModel.C58.received_type
#print axioms SquidModel.C58.truncated_throws
#print axioms SquidModel.C58.error_leaves_message
#print axioms SquidModel.C58.bad_string_length_throws
#print axioms SquidModel.C58.oversize_throws
#print axioms SquidModel.C58.get_never_oob
#print axioms SquidModel.C58.get_never_oob_partial
#print axioms SquidModel.C58.get_never_oob_counterexample
