-- GENERATED: axiom audit of the property theorems of C02
import SquidModel.Properties.C02
#print axioms SquidModel.C02.inv_after
#print axioms SquidModel.C02.cfr_after
#print axioms SquidModel.C02.pipe_is_fifo
#print axioms SquidModel.C02.identity_body_is_client_prefix
#print axioms SquidModel.C02.upstream_body_is_prefix
#print axioms SquidModel.C02.last_chunk_only_after_whole_body
#print axioms SquidModel.C02.upstream_complete_implies_whole_and_equal_cl
#print axioms SquidModel.C02.upstream_complete_implies_whole_and_equal_chunked
#print axioms SquidModel.C02.early_stop_is_visible
#print axioms SquidModel.C02.abort_only_after_aborted_production
#print axioms SquidModel.C02.finished_sender_sent_everything
#print axioms SquidModel.C02.chunked_upstream_wire_is_in_grammar
#print axioms SquidModel.C02.chunked_request_body_is_exact
#print axioms SquidModel.C02.chunked_request_complete_is_exact
