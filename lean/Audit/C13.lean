-- GENERATED: axiom audit of the property theorems of C13
import SquidModel.Properties.C13
#print axioms SquidModel.C13.hit_marks_equal
#print axioms SquidModel.C13.revalidated_marks_equal
#print axioms SquidModel.C13.star_never_hit
#print axioms SquidModel.C13.marker_never_served
#print axioms SquidModel.C13.one_observation_per_request
#print axioms SquidModel.C13.mark_injective_clean
#print axioms SquidModel.C13.mark_injective_same_list
#print axioms SquidModel.C13.hit_nominated_headers_match
#print axioms SquidModel.C13.combinedByName_eq_fieldValue
#print axioms SquidModel.C13.getByName_eq_fieldValue
#print axioms SquidModel.C13.served_only_to_matching_requests
#print axioms SquidModel.C13.nontoken_member_counterexample
#print axioms SquidModel.C13.nonlist_field_lines_all_count
#print axioms SquidModel.C13.nonlist_empty_differs_from_absent
#print axioms SquidModel.C13.vt_element_does_not_end_list
