-- GENERATED: axiom audit of the property theorems of C17
import SquidModel.Properties.C17
#print axioms SquidModel.C17.ufs_history_preserved_partial
#print axioms SquidModel.C17.ufs_history_preserved_sync_unlink
#print axioms SquidModel.C17.clean_image_rebuild_restores_all
#print axioms SquidModel.C17.ufs_unlink_race_counterexample
#print axioms SquidModel.C17.rock_single_slot_restored
#print axioms SquidModel.C17.rock_single_chain_restored
#print axioms SquidModel.C17.rock_stale_cell_drops_entry_counterexample
#print axioms SquidModel.C17.rock_purged_entry_returns_counterexample
