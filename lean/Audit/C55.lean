-- GENERATED: axiom audit of the property theorems of C55
import SquidModel.Properties.C55
#print axioms SquidModel.C55.exclusive_sessions_unique
#print axioms SquidModel.C55.single_writer
#print axioms SquidModel.C55.strict_exclusive_excludes_readers
#print axioms SquidModel.C55.reader_opens_complete_or_appending_with_key
#print axioms SquidModel.C55.held_entry_stable
#print axioms SquidModel.C55.free_only_unshared_own_slices
#print axioms SquidModel.C55.reader_walks_own_slices
#print axioms SquidModel.C55.pool_slices_unused
#print axioms SquidModel.C55.pointers_spell_chain
#print axioms SquidModel.C55.reader_anchor_live
#print axioms SquidModel.C55.deleted_not_opened_after_partial
#print axioms SquidModel.C55.deleted_not_opened_after
#print axioms SquidModel.C55.freeEntry_records_delete
#print axioms SquidModel.C55.freeEntryByKey_records_delete
#print axioms SquidModel.C55.deleted_not_opened_after_counterexample
#print axioms SquidModel.C55.validated_runs_are_reachable
#print axioms SquidModel.C55.lockspec_exclusive_alone
#print axioms SquidModel.C55.lockspec_shared_not_with_strict
#print axioms SquidModel.C55.lockspec_single_writer_slot
