-- GENERATED: axiom audit of the property theorems of C38
import SquidModel.Properties.C38
#print axioms SquidModel.C38.definite_answer_stable
#print axioms SquidModel.C38.prefix_answers_like_full
#print axioms SquidModel.C38.prefix_of_rejected
#print axioms SquidModel.C38.parsed_size_le
#print axioms SquidModel.C38.prefix_monotone
