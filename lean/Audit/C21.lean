-- GENERATED: axiom audit of the property theorems of C21
import SquidModel.Properties.C21
#print axioms SquidModel.C21.repairs_present
#print axioms SquidModel.C21.parse_segments_eq_oneShot_partial
#print axioms SquidModel.C21.parse_segments_eq_oneShot_strict_partial
#print axioms SquidModel.C21.parse_segments_eq_oneShot_fixed
#print axioms SquidModel.C21.parse_segments_eq_oneShot
#print axioms SquidModel.C21.parse_split_eq_oneShot
#print axioms SquidModel.C21.parse_split_eq_oneShot_partial
#print axioms SquidModel.C21.tiny_limit_counterexample
#print axioms SquidModel.C21.unrepaired_cr_split_counterexample
#print axioms SquidModel.C21.unrepaired_line_limit_counterexample
#print axioms SquidModel.C21.unrepaired_line_limit_accept_counterexample
