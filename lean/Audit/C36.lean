-- GENERATED: axiom audit of the property theorems of C36
import SquidModel.Properties.C36
#print axioms SquidModel.C36.malformed_accepted_counterexample
