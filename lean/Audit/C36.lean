-- GENERATED: axiom audit of the property theorems of C36
import SquidModel.Properties.C36
#print axioms SquidModel.C36.encode_chunking_irrelevant
#print axioms SquidModel.C36.decode_chunking_irrelevant
#print axioms SquidModel.C36.decode_encode
#print axioms SquidModel.C36.decode_encode_ws
#print axioms SquidModel.C36.encode_group_agrees
#print axioms SquidModel.C36.encode_injective
#print axioms SquidModel.C36.decode_bound
#print axioms SquidModel.C36.decode_no_assert
#print axioms SquidModel.C36.encode_bound
#print axioms SquidModel.C36.malformed_rejected
#print axioms SquidModel.C36.accepted_iff_canonical
#print axioms SquidModel.C36.nettle_malformed_accepted_counterexample
#print axioms SquidModel.C36.nettle_malformed_accepted_class
#print axioms SquidModel.C36.nettle_malformed_rejected_partial
#print axioms SquidModel.C36.nettle_accepted_iff_canonical_partial
#print axioms SquidModel.C36.basic_split
#print axioms SquidModel.C36.basic_no_colon
#print axioms SquidModel.C36.basic_result_clean
#print axioms SquidModel.C36.basic_sound
#print axioms SquidModel.C36.basic_sound_nettle_partial
#print axioms SquidModel.C36.basic_ctl_refused
#print axioms SquidModel.C36.basic_buffer_safe
#print axioms SquidModel.C36.nettle_same_tables
