-- GENERATED: axiom audit of the property theorems of C49
import SquidModel.Properties.C49
#print axioms SquidModel.C49.run_refines_byte_array
#print axioms SquidModel.C49.never_faults
#print axioms SquidModel.C49.write_adds_exactly
#print axioms SquidModel.C49.read_returns_prefix
#print axioms SquidModel.C49.prefix_meaning
#print axioms SquidModel.C49.contiguity_agrees
#print axioms SquidModel.C49.free_keeps_at_or_after
#print axioms SquidModel.C49.offsets_are_exact
#print axioms SquidModel.C49.splay_keeps_order
#print axioms SquidModel.C49.splay_find_correct
#print axioms SquidModel.C49.nodeCompare_monotone
