-- GENERATED: axiom audit of the property theorems of C37
import SquidModel.Properties.C37
#print axioms SquidModel.C37.unpack_total_no_oob
#print axioms SquidModel.C37.name_unpack_total_no_oob
