-- GENERATED: axiom audit of the property theorems of C37
import SquidModel.Properties.C37
#print axioms SquidModel.C37.unpack_total_no_oob
#print axioms SquidModel.C37.name_unpack_total_no_oob
#print axioms SquidModel.C37.name_unpack_encodes_partial
#print axioms SquidModel.C37.name_text_is_dotted
#print axioms SquidModel.C37.record_unpack_encodes_partial
#print axioms SquidModel.C37.unpack_encodes_partial
#print axioms SquidModel.C37.decoded_text_determines_labels
#print axioms SquidModel.C37.encoding_ignores_trailing_octets
#print axioms SquidModel.C37.header_roundtrip
#print axioms SquidModel.C37.query_roundtrip
#print axioms SquidModel.C37.query_roundtrip_text
#print axioms SquidModel.C37.source_flags
#print axioms SquidModel.C37.deep_chain_counterexample
#print axioms SquidModel.C37.pointer_to_root_decodes
#print axioms SquidModel.C37.prefix_pointer_to_root_counterexample
#print axioms SquidModel.C37.prefix_opt_pack_memcpy_null_counterexample
#print axioms SquidModel.C37.sample_name
#print axioms SquidModel.C37.sample_encodes
