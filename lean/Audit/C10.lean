-- GENERATED: axiom audit of the property theorems of C10
import SquidModel.Properties.C10
#print axioms SquidModel.C10.reachable_inv
#print axioms SquidModel.C10.reader_copies_only_its_version
#print axioms SquidModel.C10.no_free_while_read
#print axioms SquidModel.C10.delivered_is_prefix_of_one_version
#print axioms SquidModel.C10.hit_eq_some_complete_version
#print axioms SquidModel.C10.truncated_never_complete
