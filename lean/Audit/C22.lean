-- GENERATED: axiom audit of the property theorems of C22
import SquidModel.Properties.C22
#print axioms SquidModel.C22.accepts_iff
#print axioms SquidModel.C22.firstLine_accepts_iff
#print axioms SquidModel.C22.uri_not_delim
#print axioms SquidModel.C22.digit_is_uri
#print axioms SquidModel.C22.uriChar_not_sp
#print axioms SquidModel.C22.strict_rfc9112_accepted
#print axioms SquidModel.C22.strict_accepts_rfc9112
#print axioms SquidModel.C22.strict_accepts_iff_partial
#print axioms SquidModel.C22.strict_sub_relaxed
#print axioms SquidModel.C22.strict_simple_request_counterexample
#print axioms SquidModel.C22.strict_version0_rejected_counterexample
#print axioms SquidModel.C22.strict_glued_version_counterexample
#print axioms SquidModel.C22.strict_simple_request_version_tail_counterexample
#print axioms SquidModel.C22.relaxed_multidigit_version_counterexample
