-- GENERATED: axiom audit of the property theorems of C42
import SquidModel.Properties.C42
#print axioms SquidModel.C42.match_iff_union_partial
#print axioms SquidModel.C42.parse_invariant
#print axioms SquidModel.C42.match_iff_union_plain
#print axioms SquidModel.C42.match_iff_union_ipv4_lists
#print axioms SquidModel.C42.match_order_irrelevant
#print axioms SquidModel.C42.factoryParse_stores_aligned
#print axioms SquidModel.C42.keyword_all
#print axioms SquidModel.C42.keyword_ipv4
#print axioms SquidModel.C42.keyword_ipv6
#print axioms SquidModel.C42.parse_never_exhausts_budget
#print axioms SquidModel.C42.lookups_keep_stored
#print axioms SquidModel.C42.anyaddr_order_counterexample
#print axioms SquidModel.C42.to_localhost_order_counterexample
#print axioms SquidModel.C42.range_matches_anyaddr_counterexample
#print axioms SquidModel.C42.range_matches_noaddr_counterexample
#print axioms SquidModel.C42.masked_probe_counterexample
#print axioms SquidModel.C42.v6_slash_zero_counterexample
#print axioms SquidModel.C42.range_end_anyaddr_counterexample
#print axioms SquidModel.C42.reversed_range_dangling_counterexample
