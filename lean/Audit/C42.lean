-- GENERATED: axiom audit of the property theorems of C42
import SquidModel.Properties.C42
#print axioms SquidModel.C42.anyaddr_order_counterexample
