-- GENERATED: axiom audit of the property theorems of C29
import SquidModel.Properties.C29
#print axioms SquidModel.C29.valid_numeric_exact
#print axioms SquidModel.C29.invalid_numeric_absent_counterexample_wrap
#print axioms SquidModel.C29.invalid_numeric_absent_counterexample_garbage
