-- GENERATED: axiom audit of the property theorems of C29
import SquidModel.Properties.C29
#print axioms SquidModel.C29.parse_exact
#print axioms SquidModel.C29.parse_other_exact
#print axioms SquidModel.C29.items_wellformed
#print axioms SquidModel.C29.items_of_joined
#print axioms SquidModel.C29.items_complete
#print axioms SquidModel.C29.items_cover_value
#print axioms SquidModel.C29.parseInt_model_matches_source
#print axioms SquidModel.C29.flag_present_iff
#print axioms SquidModel.C29.valid_numeric_exact
#print axioms SquidModel.C29.numeric_recorded_range
#print axioms SquidModel.C29.invalid_numeric_absent_counterexample_garbage
#print axioms SquidModel.C29.invalid_numeric_absent_counterexample_sign
#print axioms SquidModel.C29.invalid_numeric_absent_counterexample_space
#print axioms SquidModel.C29.big_numeric_absent_example
#print axioms SquidModel.C29.invalid_numeric_absent_partial
#print axioms SquidModel.C29.absent_numeric_effect
#print axioms SquidModel.C29.quoted_list_exact
#print axioms SquidModel.C29.quoted_pair_counterexample
#print axioms SquidModel.C29.quoted_pair_counterexample_backslash
#print axioms SquidModel.C29.quoted_htab_counterexample
#print axioms SquidModel.C29.pack_parse_roundtrip_counterexample
#print axioms SquidModel.C29.pack_parse_roundtrip_partial
#print axioms SquidModel.C29.parse_result_invariants
#print axioms SquidModel.C29.pack_shape
