-- GENERATED: axiom audit of the property theorems of C60
import SquidModel.Properties.C60
#print axioms SquidModel.C60.output_is_virgin_or_adapted_or_error
#print axioms SquidModel.C60.never_mixed
#print axioms SquidModel.C60.complete_means_intact
#print axioms SquidModel.C60.no_body_without_head
#print axioms SquidModel.C60.echo_needs_intact_prefix
#print axioms SquidModel.C60.echo_refuses_consumed_prefix
#print axioms SquidModel.C60.bypass_flag_means_nothing_used
#print axioms SquidModel.C60.bypass_before_adapted_use_yields_virgin_partial
#print axioms SquidModel.C60.reachable_invariant
#print axioms SquidModel.C60.stopped_is_final
#print axioms SquidModel.C60.bypass_lost_after_error_status_counterexample
#print axioms SquidModel.C60.bypass_lost_after_100_continue_counterexample
#print axioms SquidModel.C60.bypass_lost_after_200_status_counterexample
#print axioms SquidModel.C60.respmod_read_error_not_bypassed_counterexample
#print axioms SquidModel.C60.unsolicited_204_crash_counterexample
#print axioms SquidModel.C60.headless_206_crash_counterexample
