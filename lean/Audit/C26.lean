-- GENERATED: axiom audit of the property theorems of C26
import SquidModel.Properties.C26
#print axioms SquidModel.C26.framing_length_sound_partial
#print axioms SquidModel.C26.otherwise_bad_partial
#print axioms SquidModel.C26.never_uses_other_value
#print axioms SquidModel.C26.content_length_ignored
#print axioms SquidModel.C26.unambiguous_accepted
#print axioms SquidModel.C26.list_truncated_counterexample
#print axioms SquidModel.C26.empty_list_counterexample
#print axioms SquidModel.C26.list_truncated_counterexample_absent
