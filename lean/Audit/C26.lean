-- GENERATED: axiom audit of the property theorems of C26
import SquidModel.Properties.C26
#print axioms SquidModel.C26.list_truncated_counterexample
