-- GENERATED: axiom audit of the property theorems of C26
import SquidModel.Properties.C26
#print axioms SquidModel.C26.framing_length_sound
#print axioms SquidModel.C26.otherwise_bad
#print axioms SquidModel.C26.never_uses_other_value
#print axioms SquidModel.C26.content_length_ignored
#print axioms SquidModel.C26.unambiguous_accepted
#print axioms SquidModel.C26.list_values_are_nonblank_members
#print axioms SquidModel.C26.list_with_vt_member_conflict
#print axioms SquidModel.C26.list_with_leading_vt_member
#print axioms SquidModel.C26.empty_list_is_bad
#print axioms SquidModel.C26.prefix_list_truncated_counterexample
#print axioms SquidModel.C26.prefix_empty_list_counterexample
