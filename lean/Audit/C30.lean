-- GENERATED: axiom audit of the property theorems of C30
import SquidModel.Properties.C30
#print axioms SquidModel.C30.accepted_port_range
#print axioms SquidModel.C30.accepted_host_lowercase
#print axioms SquidModel.C30.host_labels_partial
#print axioms SquidModel.C30.empty_host_counterexample
#print axioms SquidModel.C30.empty_host_counterexample_port
#print axioms SquidModel.C30.empty_host_counterexample_connect
#print axioms SquidModel.C30.truncated_host_counterexample
#print axioms SquidModel.C30.connect_port_exact
#print axioms SquidModel.C30.bad_connect_port_rejected
#print axioms SquidModel.C30.port_written_partial
#print axioms SquidModel.C30.bad_port_rejected_fixed
#print axioms SquidModel.C30.atoi_port_counterexample_wrap
#print axioms SquidModel.C30.atoi_port_counterexample_garbage
#print axioms SquidModel.C30.atoi_port_counterexample_sign
#print axioms SquidModel.C30.reparse_canonical_partial
#print axioms SquidModel.C30.query_encoded_counterexample
#print axioms SquidModel.C30.bracket_stripped_counterexample
#print axioms SquidModel.C30.reparse_connect_partial
