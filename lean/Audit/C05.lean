-- GENERATED: axiom audit of the property theorems of C05
import SquidModel.Properties.C05
#print axioms SquidModel.C05.responses_in_request_order
#print axioms SquidModel.C05.one_response_per_request
#print axioms SquidModel.C05.kth_response_is_kth_request
#print axioms SquidModel.C05.queue_bounded
#print axioms SquidModel.C05.idle_means_all_answered
