-- GENERATED: axiom audit of the property theorems of C41
import SquidModel.Properties.C41
#print axioms SquidModel.C41.mdn_three_way
#print axioms SquidModel.C41.mdn_zero_iff_matches
#print axioms SquidModel.C41.compare_spec
#print axioms SquidModel.C41.overlap_is_nesting
#print axioms SquidModel.C41.splay_inorder_preserved
#print axioms SquidModel.C41.parse_ok
#print axioms SquidModel.C41.parse_invariant
#print axioms SquidModel.C41.match_iff_partial
#print axioms SquidModel.C41.match_any_shape
#print axioms SquidModel.C41.match_order_irrelevant
#print axioms SquidModel.C41.multi_dot_lost_value_counterexample
#print axioms SquidModel.C41.multi_dot_dangling_counterexample
#print axioms SquidModel.C41.multi_dot_missed_match_counterexample
#print axioms SquidModel.C41.multi_dot_compare_counterexample
