-- GENERATED: axiom audit of the property theorems of C16
import SquidModel.Properties.C16
#print axioms SquidModel.C16.rock_post_crash_hit_was_complete_pre_crash_partial
#print axioms SquidModel.C16.rock_crash_image_hit_partial
#print axioms SquidModel.C16.rock_fresh_position_hit_complete
#print axioms SquidModel.C16.rock_rebuild_survives
#print axioms SquidModel.C16.rock_stale_slot_splice_counterexample
#print axioms SquidModel.C16.rock_stale_slot_splice_counterexample_2
#print axioms SquidModel.C16.rock_torn_last_slot_counterexample
#print axioms SquidModel.C16.ufs_post_crash_hit_was_complete_pre_crash
#print axioms SquidModel.C16.ufs_post_crash_hit_from_consistent_state
#print axioms SquidModel.C16.ufs_crash_prefix_allowed
#print axioms SquidModel.C16.ufs_torn_append_allowed
