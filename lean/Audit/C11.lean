-- GENERATED: axiom audit of the property theorems of C11
import SquidModel.Properties.C11
#print axioms SquidModel.C11.no_store_or_private_never_public
#print axioms SquidModel.C11.request_no_store_never_public
#print axioms SquidModel.C11.request_no_store_entry_released
#print axioms SquidModel.C11.auth_public_only_if_shared_ok
#print axioms SquidModel.C11.auth_nocache_always_revalidated
#print axioms SquidModel.C11.forbidden_never_served_from_cache
#print axioms SquidModel.C11.auth_always_reaches_origin
#print axioms SquidModel.C11.wellformed_lines_no_store_recognised
#print axioms SquidModel.C11.wellformed_lines_private_recognised
#print axioms SquidModel.C11.directive_spelling_recognised
#print axioms SquidModel.C11.wellformed_forbidden_response_never_served_partial
#print axioms SquidModel.C11.wellformed_request_no_store_never_served_partial
#print axioms SquidModel.C11.quote_leak_hides_no_store_counterexample
#print axioms SquidModel.C11.not_modified_no_store_counterexample
#print axioms SquidModel.C11.not_modified_forbidden_not_reused_partial
