-- GENERATED: axiom audit of the property theorems of C63
import SquidModel.Properties.C63
#print axioms SquidModel.C63.own_via_element_always_detected
#print axioms SquidModel.C63.loop_never_forwarded
#print axioms SquidModel.C63.own_via_never_forwarded
#print axioms SquidModel.C63.max_forwards_zero_answered_locally
#print axioms SquidModel.C63.forwarded_value_is_n_minus_1
#print axioms SquidModel.C63.forwarded_values_nonneg
#print axioms SquidModel.C63.own_via_never_forwarded_any_port
