-- GENERATED: axiom audit of the property theorems of C27
import SquidModel.Properties.C27
#print axioms SquidModel.C27.int64_ub_counterexample
#print axioms SquidModel.C27.parseInt_wraps_counterexample
