-- GENERATED: axiom audit of the property theorems of C27
import SquidModel.Properties.C27
#print axioms SquidModel.C27.source_flags
#print axioms SquidModel.C27.limits_match_source
#print axioms SquidModel.C27.int64_refines_spec
#print axioms SquidModel.C27.int64_no_ub
#print axioms SquidModel.C27.int64_min_parsed
#print axioms SquidModel.C27.int64_exact
#print axioms SquidModel.C27.int64_fails_iff
#print axioms SquidModel.C27.int64_consumes_exactly
#print axioms SquidModel.C27.udec64_exact
#print axioms SquidModel.C27.parseOffset_exact
#print axioms SquidModel.C27.parseInt_exact
#print axioms SquidModel.C27.parseInt_rejects_wide_values
#print axioms SquidModel.C27.prefix_int64_refines_outside_zone
#print axioms SquidModel.C27.prefix_int64_ub_iff
#print axioms SquidModel.C27.prefix_int64_ub_counterexample
#print axioms SquidModel.C27.prefix_int64_ub_counterexample_hex
#print axioms SquidModel.C27.prefix_parseInt_exact_partial
#print axioms SquidModel.C27.prefix_parseInt_wraps_counterexample
#print axioms SquidModel.C27.prefix_parseInt_wraps_counterexample_big
