-- GENERATED: axiom audit of the property theorems of C27
import SquidModel.Properties.C27
#print axioms SquidModel.C27.limits_match_source
#print axioms SquidModel.C27.int64_refines_spec_partial
#print axioms SquidModel.C27.int64_refines_spec_unsigned
#print axioms SquidModel.C27.int64_refines_spec
#print axioms SquidModel.C27.int64_no_ub_partial
#print axioms SquidModel.C27.int64_ub_iff
#print axioms SquidModel.C27.int64_no_ub_unsigned
#print axioms SquidModel.C27.int64_ub_counterexample
#print axioms SquidModel.C27.int64_ub_counterexample_hex
#print axioms SquidModel.C27.int64_exact
#print axioms SquidModel.C27.int64_fails_iff
#print axioms SquidModel.C27.int64_consumes_exactly
#print axioms SquidModel.C27.udec64_exact
#print axioms SquidModel.C27.parseOffset_exact
#print axioms SquidModel.C27.parseInt_exact_partial
#print axioms SquidModel.C27.parseInt_no_digits
#print axioms SquidModel.C27.parseInt_wraps_counterexample
#print axioms SquidModel.C27.parseInt_wraps_counterexample_big
#print axioms SquidModel.C27.parseInt_exact_checked
