-- GENERATED: axiom audit of the property theorems of C43
import SquidModel.Properties.C43
#print axioms SquidModel.C43.match_iff_union
#print axioms SquidModel.C43.accepted_ranges_sound
#print axioms SquidModel.C43.no_match_outside_port_space
#print axioms SquidModel.C43.invalid_parameter_rejects_list
#print axioms SquidModel.C43.first_invalid_parameter_reported
#print axioms SquidModel.C43.descending_range_rejected
#print axioms SquidModel.C43.too_large_value_rejected
