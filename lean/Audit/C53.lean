-- GENERATED: axiom audit of the property theorems of C53
import SquidModel.Properties.C53
#print axioms SquidModel.C53.no_double_alloc
#print axioms SquidModel.C53.no_double_hold
#print axioms SquidModel.C53.no_duplicate_in_thread
#print axioms SquidModel.C53.allocated_pages_valid
#print axioms SquidModel.C53.no_page_lost
#print axioms SquidModel.C53.root_counts_free
#print axioms SquidModel.C53.pop_fails_only_if_no_free
#print axioms SquidModel.C53.no_bad
#print axioms SquidModel.C53.asserts_hold
#print axioms SquidModel.C53.counters_never_overflow
#print axioms SquidModel.C53.quiescent_exact
#print axioms SquidModel.C53.released_pages_allocatable
#print axioms SquidModel.C53.measured_tree_fits
#print axioms SquidModel.C53.gen_constants_match
#print axioms SquidModel.C53.constructor_agrees_small
#print axioms SquidModel.C53.leafTruncate_never_undefined
#print axioms SquidModel.C53.scheduler_runs_are_reachable
#print axioms SquidModel.C53.createFull_shift64_counterexample
