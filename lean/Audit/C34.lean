-- GENERATED: axiom audit of the property theorems of C34
import SquidModel.Properties.C34
#print axioms SquidModel.C34.quoted_string_reversible
#print axioms SquidModel.C34.mime_blob_reversible
#print axioms SquidModel.C34.url_quoting_reversible
#print axioms SquidModel.C34.shell_quoting_reversible
#print axioms SquidModel.C34.quotings_injective
#print axioms SquidModel.C34.default_quoting_not_injective
#print axioms SquidModel.C34.wordQuote_contains
#print axioms SquidModel.C34.no_raw_CR_LF
#print axioms SquidModel.C34.field_no_lf
#print axioms SquidModel.C34.record_is_one_line
#print axioms SquidModel.C34.no_raw_separator_default_url
#print axioms SquidModel.C34.mime_blob_bracket_delimited
#print axioms SquidModel.C34.quoted_string_quote_delimited
#print axioms SquidModel.C34.shell_word_delimited
#print axioms SquidModel.C34.raw_quoting_counterexample
#print axioms SquidModel.C34.prefix_unquoted_field_counterexample
#print axioms SquidModel.C34.user_name_asks_quote
#print axioms SquidModel.C34.user_name_field_well_delimited
