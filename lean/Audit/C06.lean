-- GENERATED: axiom audit of the property theorems of C06
import SquidModel.Properties.C06
#print axioms SquidModel.C06.out_is_prefix_of_in
#print axioms SquidModel.C06.eof_delivers_all
#print axioms SquidModel.C06.early_client_bytes_kept
#print axioms SquidModel.C06.eof_only_after_everything
#print axioms SquidModel.C06.pending_write_survives_peer_closure
