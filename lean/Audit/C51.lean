-- GENERATED: axiom audit of the property theorems of C51
import SquidModel.Properties.C51
#print axioms SquidModel.C51.run_refines
#print axioms SquidModel.C51.never_faults
#print axioms SquidModel.C51.mem_le_limit
#print axioms SquidModel.C51.trim_purges_lru_suffix
#print axioms SquidModel.C51.stamps_erase
#print axioms SquidModel.C51.traversal_is_recency_order
#print axioms SquidModel.C51.add_purges_least_recent
#print axioms SquidModel.C51.setLimit_purges_least_recent
#print axioms SquidModel.C51.purge_is_lru_loop
#print axioms SquidModel.C51.get_after_add
#print axioms SquidModel.C51.get_after_expiry
#print axioms SquidModel.C51.rejected_add_discards
#print axioms SquidModel.C51.memory_counted_exact
#print axioms SquidModel.C51.accounting_constants_consistent
#print axioms SquidModel.C51.expiry_saturation_invisible
#print axioms SquidModel.C51.negative_clock_never_expires
