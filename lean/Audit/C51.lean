-- GENERATED: axiom audit of the property theorems of C51
import SquidModel.Properties.C51
#print axioms SquidModel.C51.memory_counted_exact
