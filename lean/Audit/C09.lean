-- GENERATED: axiom audit of the property theorems of C09
import SquidModel.Properties.C09
#print axioms SquidModel.C09.no_oob_headersEnd
#print axioms SquidModel.C09.headersEnd_overlong_counterexample
#print axioms SquidModel.C09.no_oob_searches
#print axioms SquidModel.C09.no_oob_tokenizer
#print axioms SquidModel.C09.consumeTrailing_wrap_counterexample
#print axioms SquidModel.C09.index_level_refines_parser_model
#print axioms SquidModel.C09.parser_never_grows_buffer
#print axioms SquidModel.C09.need_more_implies_below_limit
#print axioms SquidModel.C09.zero_limit_counterexample
#print axioms SquidModel.C09.modelled_asserts_unreachable
#print axioms SquidModel.C09.every_stream_ends_in_response_or_close
#print axioms SquidModel.C09.settled_connection_is_stable
#print axioms SquidModel.C09.reading_has_buffer_space
#print axioms SquidModel.C09.connection_runs_c21_parser
