-- GENERATED: axiom audit of the property theorems of C47
import SquidModel.Properties.C47
#print axioms SquidModel.C47.split_channel_id_counterexample
#print axioms SquidModel.C47.split_channel_id_repaired_witness
#print axioms SquidModel.C47.unterminated_id_assert_counterexample
#print axioms SquidModel.C47.nul_assert_counterexample
#print axioms SquidModel.C47.channel_id_truncation_counterexample
