-- GENERATED: axiom audit of the property theorems of C47
import SquidModel.Properties.C47
#print axioms SquidModel.C47.split_channel_id_counterexample
#print axioms SquidModel.C47.split_channel_id_drop_counterexample
#print axioms SquidModel.C47.split_channel_id_repaired_witness
#print axioms SquidModel.C47.unterminated_id_assert_counterexample
#print axioms SquidModel.C47.nul_assert_counterexample
#print axioms SquidModel.C47.channel_id_truncation_counterexample
#print axioms SquidModel.C47.two_reads_or_one
#print axioms SquidModel.C47.any_fragmentation_same_result
#print axioms SquidModel.C47.reply_to_own_channel_partial
#print axioms SquidModel.C47.unknown_channel_never_applied
#print axioms SquidModel.C47.pop_never_on_partial_id
#print axioms SquidModel.C47.repaired_never_aborts
#print axioms SquidModel.C47.fifo_when_not_concurrent
#print axioms SquidModel.C47.fifo_example
