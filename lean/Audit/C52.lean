-- GENERATED: axiom audit of the property theorems of C52
import SquidModel.Properties.C52
#print axioms SquidModel.C52.less_is_mathematical_comparison
#print axioms SquidModel.C52.increaseSumInternal_mixed_exact
#print axioms SquidModel.C52.increaseSumInternal_unsigned_exact
#print axioms SquidModel.C52.increaseSum2_exact
#print axioms SquidModel.C52.increaseSum_exact
#print axioms SquidModel.C52.naturalSum_exact
#print axioms SquidModel.C52.naturalSum_inRange
#print axioms SquidModel.C52.setToNaturalSumOrMax_exact
#print axioms SquidModel.C52.naturalCast_exact
#print axioms SquidModel.C52.overloads_agree
#print axioms SquidModel.C52.unsigned_sum_type
#print axioms SquidModel.C52.type_rules_match_compiler
