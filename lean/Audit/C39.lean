-- GENERATED: axiom audit of the property theorems of C39
import SquidModel.Properties.C39
#print axioms SquidModel.C39.snmp_reads_at_most_six_beyond
#print axioms SquidModel.C39.snmp_reads_at_most_four_beyond_zeros
#print axioms SquidModel.C39.snmp_reads_nothing_beyond_fixed
#print axioms SquidModel.C39.snmp_no_oob_partial
#print axioms SquidModel.C39.snmp_no_oob_counterexample_4095
#print axioms SquidModel.C39.snmp_no_oob_counterexample_4095_deep
#print axioms SquidModel.C39.snmp_no_oob_counterexample_4093
#print axioms SquidModel.C39.snmp_no_oob_fixed
#print axioms SquidModel.C39.snmp_variant_known
#print axioms SquidModel.C39.snmp_decode_total
#print axioms SquidModel.C39.snmp_decoded_fits_buffers
#print axioms SquidModel.C39.icp_no_oob
#print axioms SquidModel.C39.icp_writes_only_terminator
#print axioms SquidModel.C39.icp_url_is_the_payload
#print axioms SquidModel.C39.icp_reply_length_fits
#print axioms SquidModel.C39.htcp_no_oob
#print axioms SquidModel.C39.htcp_writes_only_terminators
