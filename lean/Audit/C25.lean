-- GENERATED: axiom audit of the property theorems of C25
import SquidModel.Properties.C25
#print axioms SquidModel.C25.accepted_fields_exact
#print axioms SquidModel.C25.accepted_block_stored_exactly
#print axioms SquidModel.C25.pack_parse_roundtrip_partial
#print axioms SquidModel.C25.scan_pack_roundtrip_partial
#print axioms SquidModel.C25.stored_entries_invariant
#print axioms SquidModel.C25.pack_form
#print axioms SquidModel.C25.nul_rejected
#print axioms SquidModel.C25.ws_before_colon_rejected
#print axioms SquidModel.C25.framing_fold_rejected
#print axioms SquidModel.C25.framing_bare_cr_rejected
#print axioms SquidModel.C25.bare_cr_strict_rejected
#print axioms SquidModel.C25.cr_only_line_rejected
#print axioms SquidModel.C25.obs_fold_joined
#print axioms SquidModel.C25.fold_framing_unfolded_counterexample
#print axioms SquidModel.C25.cr_line_unfolded_counterexample
