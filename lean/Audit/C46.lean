-- GENERATED: axiom audit of the property theorems of C46
import SquidModel.Properties.C46
#print axioms SquidModel.C46.no_credentials_challenged_at_once
#print axioms SquidModel.C46.forwarded_under_own_name
#print axioms SquidModel.C46.unauthenticated_never_forwarded
#print axioms SquidModel.C46.logged_under_own_name
#print axioms SquidModel.C46.logged_without_name_only_without_user
#print axioms SquidModel.C46.helper_asked_under_own_name
#print axioms SquidModel.C46.no_request_stranded
#print axioms SquidModel.C46.reply_decides_all_waiters
#print axioms SquidModel.C46.forwarded_only_after_own_credentials_verified_partial
#print axioms SquidModel.C46.ok_means_current_password_verified_partial
#print axioms SquidModel.C46.fixed_forwarded_only_after_own_credentials_verified
#print axioms SquidModel.C46.current_tree_sound_when_repaired
#print axioms SquidModel.C46.rejected_credentials_never_forwarded_partial
#print axioms SquidModel.C46.race_outputs
#print axioms SquidModel.C46.race_counterexample
#print axioms SquidModel.C46.ok_means_current_password_verified_counterexample
#print axioms SquidModel.C46.race_counterexample_queued
#print axioms SquidModel.C46.race_repaired
#print axioms SquidModel.C46.valid_credentials_may_be_challenged
