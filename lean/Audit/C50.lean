-- GENERATED: axiom audit of the property theorems of C50
import SquidModel.Properties.C50
#print axioms SquidModel.C50.union_is_set_union
#print axioms SquidModel.C50.diff_is_set_difference
#print axioms SquidModel.C50.complement_is_set_complement
