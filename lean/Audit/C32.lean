-- GENERATED: axiom audit of the property theorems of C32
import SquidModel.Properties.C32
#print axioms SquidModel.C32.quote_no_raw_meta
#print axioms SquidModel.C32.unquote_quote
#print axioms SquidModel.C32.quote_injective
#print axioms SquidModel.C32.quote_fits_buffer
