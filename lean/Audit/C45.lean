-- GENERATED: axiom audit of the property theorems of C45
import SquidModel.Properties.C45
#print axioms SquidModel.C45.forward_iff_reference_allows
#print axioms SquidModel.C45.denied_never_reaches_origin
#print axioms SquidModel.C45.scenario_is_per_request_decision
#print axioms SquidModel.C45.accepted_configuration_is_closed
#print axioms SquidModel.C45.undefined_acl_is_refused
#print axioms SquidModel.C45.no_usable_rule_denies_everything
#print axioms SquidModel.C45.dst_verdict_independent_of_cache
#print axioms SquidModel.C45.dstdomain_verdict_independent_of_cache
#print axioms SquidModel.C45.registered_method_names_are_themselves
#print axioms SquidModel.C45.extension_method_is_itself
#print axioms SquidModel.C45.config_line_words
#print axioms SquidModel.C45.ip_text_single
#print axioms SquidModel.C45.ip_text_cidr
#print axioms SquidModel.C45.ip_text_range
#print axioms SquidModel.C45.method_prefix_counterexample
