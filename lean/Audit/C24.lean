-- GENERATED: axiom audit of the property theorems of C24
import SquidModel.Properties.C24
#print axioms SquidModel.C24.oneShot_obs
#print axioms SquidModel.C24.no_commit_between_extensions
#print axioms SquidModel.C24.agree_with_unsegmented
#print axioms SquidModel.C24.segmentation_independence
#print axioms SquidModel.C24.decode_exact
#print axioms SquidModel.C24.decode_exact_all_consumed
#print axioms SquidModel.C24.truncated_needs_more
#print axioms SquidModel.C24.reject_in_every_segmentation
#print axioms SquidModel.C24.reject_0x
#print axioms SquidModel.C24.reject_nonhex
#print axioms SquidModel.C24.reject_size_overflow
#print axioms SquidModel.C24.accepted_size_fits
#print axioms SquidModel.C24.reject_missing_crlf
#print axioms SquidModel.C24.reject_bad_ext_name
#print axioms SquidModel.C24.witness_rejected
#print axioms SquidModel.C24.prefix_variant_counterexample
