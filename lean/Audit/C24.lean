-- GENERATED: axiom audit of the property theorems of C24
import SquidModel.Properties.C24
#print axioms SquidModel.C24.segmentation_independence_counterexample
