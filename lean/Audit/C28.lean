-- GENERATED: axiom audit of the property theorems of C28
import SquidModel.Properties.C28
#print axioms SquidModel.C28.canon_sound_complete
#print axioms SquidModel.C28.canonize_total
#print axioms SquidModel.C28.rfc_header_end_to_end
#print axioms SquidModel.C28.invalid_spec_not_ignored_counterexample
#print axioms SquidModel.C28.invalid_item_ignores_header_partial
#print axioms SquidModel.C28.refused_item_examples
#print axioms SquidModel.C28.other_unit_ignored
#print axioms SquidModel.C28.no_overflow_counterexample
#print axioms SquidModel.C28.no_overflow_partial
#print axioms SquidModel.C28.parsed_specs_well_formed
