-- GENERATED: axiom audit of the property theorems of C28
import SquidModel.Properties.C28
#print axioms SquidModel.C28.canon_sound_complete
#print axioms SquidModel.C28.canonize_total
#print axioms SquidModel.C28.rfc_header_end_to_end
#print axioms SquidModel.C28.accepted_item_is_rfc_spec
#print axioms SquidModel.C28.invalid_spec_ignores_header
#print axioms SquidModel.C28.list_ends_only_at_end_of_header
#print axioms SquidModel.C28.other_unit_ignored
#print axioms SquidModel.C28.no_overflow
#print axioms SquidModel.C28.parsed_specs_well_formed
