-- GENERATED: axiom audit of the property theorems of C04
import SquidModel.Properties.C04
#print axioms SquidModel.C04.model_applies
#print axioms SquidModel.C04.std_name_id
#print axioms SquidModel.C04.std_ids_dropped
#print axioms SquidModel.C04.request_standard_hop_by_hop
#print axioms SquidModel.C04.request_hop_by_hop_field_not_copied
#print axioms SquidModel.C04.parsed_request_hop_by_hop_field_not_copied
#print axioms SquidModel.C04.request_transfer_encoding_only_own_chunked
#print axioms SquidModel.C04.proxy_authorization_not_to_origin
#print axioms SquidModel.C04.derived_fields
#print axioms SquidModel.C04.request_nominated_not_copied_partial
#print axioms SquidModel.C04.own_case_ids
#print axioms SquidModel.C04.request_nominated_own_case_counterexample
#print axioms SquidModel.C04.vt_element_regression
#print axioms SquidModel.C04.dquote_counterexample
#print axioms SquidModel.C04.reply_registry_hop_by_hop_not_copied
#print axioms SquidModel.C04.reply_standard_hop_by_hop
#print axioms SquidModel.C04.reply_transfer_encoding_only_own_chunked
#print axioms SquidModel.C04.proxy_authenticate_not_to_client
#print axioms SquidModel.C04.reply_nominated_not_copied_partial
#print axioms SquidModel.C04.control_msg_hop_by_hop
#print axioms SquidModel.C04.control_msg_nominated_not_copied_partial
#print axioms SquidModel.C04.control_msg_proxy_authenticate_counterexample
