-- GENERATED: axiom audit of the property theorems of C57
import SquidModel.Properties.C57
#print axioms SquidModel.C57.current_consts_ok
#print axioms SquidModel.C57.rebuild_terminates
#print axioms SquidModel.C57.rebuild_crash_classes
#print axioms SquidModel.C57.no_stolen_slot_crash_partial
#print axioms SquidModel.C57.no_all_ones_crash_fixed
#print axioms SquidModel.C57.repaired_rebuild_never_crashes
#print axioms SquidModel.C57.readable_entries_intact
#print axioms SquidModel.C57.readable_size_exact
#print axioms SquidModel.C57.readable_chains_disjoint
#print axioms SquidModel.C57.readable_chain_matches_disk
#print axioms SquidModel.C57.readable_chain_own_slots_partial
#print axioms SquidModel.C57.readable_chain_own_slots_fixed
#print axioms SquidModel.C57.repaired_source_satisfies_property
#print axioms SquidModel.C57.short_entry_counterexample
#print axioms SquidModel.C57.short_entry_fixed
#print axioms SquidModel.C57.stolen_slot_counterexample
#print axioms SquidModel.C57.stolen_slot_fixed
#print axioms SquidModel.C57.unprocessed_slot_crash
#print axioms SquidModel.C57.double_free_crash
#print axioms SquidModel.C57.all_ones_entry_size_crash
#print axioms SquidModel.C57.all_ones_swap_file_sz_crash
#print axioms SquidModel.C57.all_ones_fixed
