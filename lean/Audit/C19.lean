-- GENERATED: axiom audit of the property theorems of C19
import SquidModel.Properties.C19
#print axioms SquidModel.C19.reader_copies_only_its_version
#print axioms SquidModel.C19.complete_only_after_writer_closed
#print axioms SquidModel.C19.same_bytes_through_any_worker
#print axioms SquidModel.C19.no_reuse_while_read
#print axioms SquidModel.C19.invalidated_not_served
