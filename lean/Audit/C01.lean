-- GENERATED: axiom audit of the property theorems of C01
import SquidModel.Properties.C01
#print axioms SquidModel.C01.good_of_start
#print axioms SquidModel.C01.start_of_headers
#print axioms SquidModel.C01.body_is_prefix_of_origin_body
#print axioms SquidModel.C01.client_body_is_prefix
#print axioms SquidModel.C01.last_chunk_only_after_whole_reply
#print axioms SquidModel.C01.whole_mark_is_sound
#print axioms SquidModel.C01.complete_implies_equal_chunked
#print axioms SquidModel.C01.complete_implies_equal_cl
#print axioms SquidModel.C01.chunked_origin_complete_is_exact
#print axioms SquidModel.C01.truncated_chunked_never_complete
#print axioms SquidModel.C01.truncation_is_visible_partial
#print axioms SquidModel.C01.keepalive_implies_complete_partial
#print axioms SquidModel.C01.whole_reply_is_delivered_partial
#print axioms SquidModel.C01.completion_status_is_whole_mark
#print axioms SquidModel.C01.wire_is_framing_of_body
#print axioms SquidModel.C01.chunked_wire_is_in_grammar
#print axioms SquidModel.C01.chunked_wire_decodes
#print axioms SquidModel.C01.bodyless_reply_has_no_octets_partial
#print axioms SquidModel.C01.head_reply_has_no_octets
#print axioms SquidModel.C01.bodyless_trailing_octets_counterexample
#print axioms SquidModel.C01.content_range_counterexample
