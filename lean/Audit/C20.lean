-- GENERATED: axiom audit of the property theorems of C20
import SquidModel.Properties.C20
#print axioms SquidModel.C20.request_url_purged
#print axioms SquidModel.C20.request_url_keys_evicted
#print axioms SquidModel.C20.error_reply_purges_nothing
#print axioms SquidModel.C20.non_purging_method_purges_nothing
#print axioms SquidModel.C20.absolute_path_location_purged
#print axioms SquidModel.C20.same_host_location_purged_exact
#print axioms SquidModel.C20.canonical_same_host_location_purged
#print axioms SquidModel.C20.other_host_location_ignored
#print axioms SquidModel.C20.sameUrlHosts_sound
#print axioms SquidModel.C20.purged_urls_come_from_request_or_headers
#print axioms SquidModel.C20.purged_urls_stay_on_the_request_host
#print axioms SquidModel.C20.relative_location_purged
#print axioms SquidModel.C20.relative_location_counterexample
#print axioms SquidModel.C20.purged_url_never_served_stale_partial
#print axioms SquidModel.C20.request_url_never_served_stale_partial
#print axioms SquidModel.C20.unknown_method_purges_before_forwarding
#print axioms SquidModel.C20.vary_variant_survives_counterexample
#print axioms SquidModel.C20.respelled_location_counterexample
#print axioms SquidModel.C20.relative_location_history_counterexample
