-- GENERATED: axiom audit of the property theorems of C33
import SquidModel.Properties.C33
#print axioms SquidModel.C33.epilogue_is_modelled
#print axioms SquidModel.C33.client_controlled_macros_quoted
#print axioms SquidModel.C33.macro_buffer_is_local
#print axioms SquidModel.C33.no_raw_client_markup_in_page
#print axioms SquidModel.C33.client_text_is_well_quoted
#print axioms SquidModel.C33.no_raw_client_markup_in_page_partial
#print axioms SquidModel.C33.client_text_is_well_quoted_partial
#print axioms SquidModel.C33.skeleton_independent_of_client_bytes
#print axioms SquidModel.C33.prefix_static_buffer_counterexample
