import Driver.Loop
import SquidModel.Chunked.Feed
open SquidModel SquidModel.Chunked

namespace Driver.C24

def hexNib (c : Char) : Option UInt8 :=
  if '0' ≤ c ∧ c ≤ '9' then some (c.toNat - 48).toUInt8
  else if 'a' ≤ c ∧ c ≤ 'f' then some (c.toNat - 87).toUInt8
  else if 'A' ≤ c ∧ c ≤ 'F' then some (c.toNat - 55).toUInt8
  else none

def unhexGo : List Char → Array UInt8 → Option (Array UInt8)
  | [], acc => some acc
  | [_], _ => none
  | a :: b :: r, acc =>
    match hexNib a, hexNib b with
    | some x, some y => unhexGo r (acc.push (x * 16 + y))
    | _, _ => none

def unhex (s : String) : Option Bytes :=
  if s == "-" then some [] else (unhexGo s.toList #[]).map Array.toList

def parseNat (s : String) : Option Nat :=
  if s.isEmpty || s.length > 12 || !s.all Char.isDigit then none else s.toNat?

/-- `-` | `*k` | `a,b,c` → (list, star) -/
def parseList (s : String) : Option (List Nat × Nat) :=
  if s == "-" then some ([], 0)
  else if s.startsWith "*" then
    match parseNat (s.drop 1).toString with
    | some k => if k > 0 then some ([], k) else none
    | none => none
  else
    let parts := s.splitOn ","
    parts.foldr (fun p acc => match parseNat p, acc with
      | some n, some (l, _) => some (n :: l, 0)
      | _, _ => none) (some ([], 0))

def chunksOf (k : Nat) : Nat → Bytes → List Bytes
  | 0, _ => []
  | f + 1, s => if s.isEmpty then [] else s.take k :: chunksOf k f (s.drop k)

def splitBy : List Nat → Bytes → List Bytes × Bytes
  | [], s => ([], s)
  | n :: ns, s =>
    let (ps, rest) := splitBy ns (s.drop n)
    (s.take n :: ps, rest)

def segments (segs : List Nat) (star : Nat) (enc : Bytes) : List Bytes :=
  if star > 0 then chunksOf star (enc.length + 1) enc
  else
    let (ps, rest) := splitBy segs enc
    if !rest.isEmpty || ps.isEmpty then ps ++ [rest] else ps

def stageNum : Stage → Nat
  | .none => 0 | .sz => 2 | .ext => 3 | .chunk => 4 | .mime => 5 | .done => 6

def rejName : Rej → String
  | .zeroX => "zerox" | .negSize => "negsize" | .size => "size" | .extCrlf => "extcrlf" | .extName => "extname"
  | .qpair => "qpair" | .qdtext => "qdtext" | .token => "token" | .chunkCrlf => "chunkcrlf" | .fuel => "MODEL-FUEL"

def verdictName : Verdict → String
  | .more => "more" | .done => "done" | .tooLarge => "toolarge" | .reject r => "reject:" ++ rejName r

structure Log where
  th : UInt32 := 0
  tr : List String := []
  n : Nat := 0

def Log.step (l : Log) (v : Nat) : Log := { l with th := l.th * 31 + v.toUInt32 + 1 }

def b2n (b : Bool) : Nat := if b then 1 else 0

/-- the same loop as `Chunked.offer`, recording what the harness records after every parse() call -/
def offerLog (relaxed : Bool) (capOf : Nat → Nat) : Nat → Run → Log → Run × Log
  | 0, r, l => ({ r with verdict := .reject .fuel }, l)
  | f + 1, r, l =>
    match parse relaxed r.st r.inBuf (capOf r.calls) with
    | .threw rj o => ({ r with out := r.out ++ o, verdict := .reject rj, calls := r.calls + 1 }, { (l.step 99) with n := l.n + 1 })
    | .ret done c =>
      let r' : Run := { st := c.st, inBuf := c.buf, out := r.out ++ c.out, verdict := .more, calls := r.calls + 1 }
      let nd := c.st.stage != .done
      let ns := c.st.stage == .chunk && c.space == 0
      let l1 := ((((l.step (b2n done)).step (b2n nd)).step (b2n ns)).step c.buf.length).step c.out.length
      let rec1 := toString (b2n done) ++ toString (b2n nd) ++ toString (b2n ns) ++ "/" ++ toString c.buf.length ++ "/" ++ toString c.out.length
      let l2 : Log := ⟨l1.th, if l.n < 24 then rec1 :: l.tr else l.tr, l.n + 1⟩
      if done then ({ r' with verdict := .done }, l2)
      else if c.st.stage = .done then ({ r' with verdict := .tooLarge }, l2)
      else if (c.st.stage = .chunk && c.space = 0) && !c.buf.isEmpty then offerLog relaxed capOf f r' l2
      else (r', l2)

def feedLog (relaxed : Bool) (capOf : Nat → Nat) (acc : Run × Log × Nat) (seg : Bytes) : Run × Log × Nat :=
  let (r, l, fed) := acc
  if r.verdict = .more then
    let (r', l') := offerLog relaxed capOf (r.inBuf.length + seg.length + 1) { r with inBuf := r.inBuf ++ seg } l
    (r', l', fed + seg.length)
  else acc

def handle (line : String) : String :=
  match Driver.words line with
  | _kind :: rel :: encH :: segS :: capS :: _ =>
    if rel != "0" && rel != "1" then "bad-op" else
    match unhex encH, parseList segS, parseList capS with
    | some enc, some (segs, segStar), some (caps0, capStar) =>
      let caps := if capStar > 0 then [capStar] else if caps0.isEmpty then [2 ^ 30] else caps0
      if caps.any (fun c => c == 0 || c > 2 ^ 30) then "bad-op" else
      let capArr := caps.toArray
      let capOf : Nat → Nat := fun i => capArr[i % capArr.size]!
      let relaxed := rel == "1"
      let parts := segments segs segStar enc
      let (r, l, fed) := parts.foldl (feedLog relaxed capOf) (Run.init, {}, 0)
      let r0 := feedAll relaxed capOf parts
      if r0 != r then "MODEL-INCONSISTENT" else
      let isRej := match r.verdict with | .reject _ => true | _ => false
      let stage := if isRej then "-" else toString (stageNum r.st.stage)
      let consumed := if isRej then "-" else toString (fed - r.inBuf.length)
      let tr := if l.tr.isEmpty then "-" else ";".intercalate l.tr.reverse
      s!"{verdictName r.verdict} stage={stage} fed={fed} consumed={consumed} out={Bytes.toHex r.out} calls={l.n} th={l.th.toNat} tr={tr}"
    | _, _, _ => "bad-op"
  | _ => "bad-op"

end Driver.C24

def main : IO UInt32 := Driver.runPure Driver.C24.handle
