import Driver.Loop
import SquidModel.Helper.Read
import SquidModel.Gen.HelperRead
open SquidModel SquidModel.Helper

namespace Driver.C47

def field (pfx : String) (s : String) : Option Nat :=
  if s.startsWith pfx then (s.drop pfx.length).toString.toNat? else none

def hexList (s : String) : Option (List Bytes) :=
  if s == "-" then some [] else (s.splitOn ",").mapM Bytes.ofHex

def tok (st : St) (serial : Nat) : String :=
  match deliveredTo st serial with
  | some p => Bytes.toHex p
  | none => "."

/-- line: `<E|U> <kind> c=<concurrency> b=<base> n=<N> <hex read>,... | -` -/
def handle (line : String) : String :=
  match Driver.words line with
  | [_, _, c, b, n, rs] =>
    match field "c=" c, field "b=" b, field "n=" n, hexList rs with
    | some conc, some base, some n, some reads =>
      if conc > 1000 || base > 4000000000 || n > 200 || reads.any (·.isEmpty) then "bad-op" else
      let cfg : Cfg := { concurrency := conc, popOnlyWhenComplete := Gen.HelperRead.popOnlyWhenComplete,
                         dropUnterminated := Gen.HelperRead.dropUnterminated, nulCloses := Gen.HelperRead.nulCloses,
                         wideChannelId := Gen.HelperRead.wideChannelId }
      let st := run cfg base n reads
      if st.dead then "abort:assert" else
      let ds := if n == 0 then "-" else ",".intercalate ((List.range n).map fun j => tok st (j + 1))
      let cur := match st.cur with | some r => toString r.serial | none => "-"
      s!"d:{ds} s:{st.rbuf.length}/{if st.ignoreToEom then 1 else 0}/{cur}/{st.pending}/{st.nextId}/{st.queue.length}" ++
        (if st.closed then " closed" else "")
    | _, _, _, _ => "bad-op"
  | _ => "bad-op"

end Driver.C47

def main : IO UInt32 := Driver.runPure Driver.C47.handle
