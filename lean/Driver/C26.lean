import Driver.Loop
import SquidModel.Header.Parse
import SquidModel.Header.Mime
open SquidModel SquidModel.Header

namespace Driver.C26

def parseFlags (f : String) : Option Cfg :=
  match f.toList with
  | [a, b, c] =>
    let relaxed? := if a == 'r' then some true else if a == 's' then some false else none
    let owner? := if b == 'q' then some Owner.request else if b == 'p' then some Owner.reply
                  else if b == 'h' then some Owner.other else none
    let proh? := if c == '-' then some false else if c == 't' || c == '4' || c == '1' then some true else none
    match relaxed?, owner?, proh? with
    | some r, some o, some p => some ⟨r, o, p⟩
    | _, _, _ => none
  | _ => none

def showEntry (e : Entry) : String :=
  toString e.id ++ ":" ++ Bytes.toHex e.name ++ ":" ++ Bytes.toHex e.value

def describe (r : HdrResult) : String :=
  let cl := match contentLength r.entries with
    | none => "-"
    | some v => toString v
  "ok cl=" ++ cl ++ " bad=" ++ (if r.conflictingContentLength then "1" else "0") ++
  " teu=" ++ (if r.teUnsupported then "1" else "0") ++
  " len=" ++ toString (hdrLen r.entries) ++
  " n=" ++ toString r.entries.length ++
  String.join (r.entries.map fun e => " " ++ showEntry e)

def showOutcome : Outcome → String
  | .reject => "reject"
  | .throws => "throw"
  | .ok r => describe r

def handle (line : String) : String :=
  match Driver.words line with
  | ["p", f, h] =>
    match parseFlags f, Bytes.ofHex h with
    | some cfg, some b => showOutcome (parseHeader cfg b)
    | _, _ => "bad-op"
  | ["k", f, h] =>
    match parseFlags f, Bytes.ofHex h with
    | some cfg, some b =>
      match parseHeader cfg b with
      | .ok r =>
        let packed := pack r.entries
        describe r ++ " || pack=" ++ Bytes.toHex packed ++ " || " ++ showOutcome (parseHeader cfg packed)
      | o => showOutcome o
    | _, _ => "bad-op"
  | ["m", f, h] =>
    match parseFlags f, Bytes.ofHex h with
    | some cfg, some b =>
      match grabMime b with
      | none => "incomplete"
      | some mime => "mime=" ++ Bytes.toHex mime ++ " " ++ showOutcome (parseHeader cfg mime)
    | _, _ => "bad-op"
  | ["l", h] =>
    match Bytes.ofHex h with
    | some b => toString (lookupName b)
    | none => "bad-op"
  | _ => "bad-op"

end Driver.C26

def main : IO UInt32 := Driver.runPure Driver.C26.handle
