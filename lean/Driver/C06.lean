import Driver.Loop
import SquidModel.Relay.Tunnel
open SquidModel SquidModel.Relay

namespace Driver.C06

/-- cut a length into read sizes no larger than `buf` following the given segment lengths -/
def readsOf (segs : List Nat) (buf : Nat) : List Nat :=
  segs.flatMap fun s =>
    if s = 0 then [] else
    (List.replicate (s / buf) buf) ++ (if s % buf = 0 then [] else [s % buf])

/-- clean relay of a stream delivered in the given segments: read/writeDone per segment, then eof -/
def cleanRun (src : Bytes) (segs : List Nat) : Dir :=
  let evs := (readsOf segs 65535).flatMap (fun k => [Ev.read k, Ev.writeDone]) ++ [Ev.eof]
  run (Dir.init src) evs

def segsOf (cuts : List Nat) (n : Nat) : List Nat :=
  -- segment lengths from increasing cut offsets
  let rec go (prev : Nat) : List Nat → List Nat
    | [] => if n > prev then [n - prev] else []
    | c :: rest => let c' := min c n; if c' > prev then (c' - prev) :: go c' rest else go prev rest
  go 0 cuts

def natList (s : String) : Option (List Nat) :=
  if s == "-" then some [] else (s.splitOn ",").mapM String.toNat?

/-- scenario line: `<clean|abort> <hex c->s> <hex s->c> <client cuts> <server cuts> <early> <closer> <stopat>`.
    clean: predicted streams each side receives (the early bytes are the pre-read part of the client stream);
    abort: `prefix` (any prefix is allowed when a side aborts) -/
def handle (line : String) : String :=
  match Driver.words line with
  | ["clean", hc, hs, cc, sc, early, _closer, _stop] =>
    match Bytes.ofHex hc, Bytes.ofHex hs, natList cc, natList sc, early.toNat? with
    | some cs, some scb, some ccuts, some scuts, some e =>
      let dcs := cleanRun cs (segsOf (e :: ccuts.filter (· > e)) cs.length)
      let dsc := cleanRun scb (segsOf scuts scb.length)
      s!"c_recv={Bytes.toHex dsc.delivered} s_recv={Bytes.toHex dcs.delivered}"
    | _, _, _, _, _ => "bad-op"
  | "abort" :: _ => "prefix"
  | ["backlog", bs, _seed] =>
    -- back-pressure scenario: blocks are relayed, the last one is still pending when the server side fails and the client
    -- side is to be closed (theorem pending_write_survives_peer_closure: everything read so far is delivered);
    -- run here on three blocks of the given size
    match bs.toNat? with
    | some b =>
      if b = 0 then "bad-op" else
      let src : Bytes := List.replicate (3 * b) 0
      let d := run (Dir.init src) ((readsOf [b, b] 65535).flatMap (fun k => [Ev.read k, Ev.writeDone]) ++
                 (readsOf [b] 65535).flatMap (fun k => [Ev.read k]) ++ [Ev.srcError, Ev.sinkClosed, Ev.writeDone])
      if d.delivered.length = min (3 * b) (2 * b + min b 65535) ∧ d.lost = false then "delivered=all" else "delivered=short"
    | none => "bad-op"
  | _ => "bad-op"

end Driver.C06

def main : IO UInt32 := Driver.runPure Driver.C06.handle
