import Driver.Loop
import SquidModel.Ipc.RwLockExec
open SquidModel.Ipc.RwLock

namespace Driver.C54

def parseOps (s : String) : Option (List (String × Op)) :=
  if s == "-" then some [] else (s.splitOn ",").mapM fun n => (opOfString n).map fun o => (n, o)

def handle (line : String) : String :=
  match Driver.words line with
  | [n, ops, sched] =>
    match n.toNat?, (ops.splitOn ";").mapM parseOps with
    | some k, some per =>
      if per.length ≠ k ∨ k < 1 ∨ k > 16 then "bad-op"
      else
        let schedule := if sched == "-" then some [] else (sched.splitOn ",").mapM String.toNat?
        match schedule with
        | some sc => runScenario per sc
        | none => "bad-op"
    | _, _ => "bad-op"
  | _ => "bad-op"

end Driver.C54

def main : IO UInt32 := Driver.runPure Driver.C54.handle
