import Driver.Loop
import SquidModel.Acl.IntRange
open SquidModel SquidModel.Acl.IntRange

namespace Driver.C43

def parseList (s : String) (f : String → Option α) : Option (List α) :=
  if s == "-" then some [] else (s.splitOn ",").mapM f

def parseIntTok (s : String) : Option Int :=
  if s.length > 12 then none else
  match s.toInt? with
  | some v => if fitsInt v then some v else none
  | none => none

def renderDump (d : List (Int × Option Int)) : String :=
  if d.isEmpty then "-" else
  ",".intercalate (d.map fun
    | (a, none) => toString a
    | (a, some b) => toString a ++ "-" ++ toString b)

def handle (line : String) : String :=
  match Driver.words line with
  | [op, toks, probes] =>
    if op != "a" && op != "s" then "bad-op" else
    match parseList toks (fun h => if h == "-" then none else Bytes.ofHex h), parseList probes parseIntTok with
    | some tokens, some ints =>
      if !(tokens.all (verbatimToken (op == "s"))) then "reject:harness-token" else
      match parse tokens with
      | .error e => "reject:" ++ e.token
      | .ok rs =>
        let bits := ints.map fun i => if matchInt rs i then "1" else "0"
        "ok " ++ renderDump (dump rs) ++ " " ++ (if bits.isEmpty then "-" else String.join bits)
    | _, _ => "bad-op"
  | _ => "bad-op"

end Driver.C43

def main : IO UInt32 := Driver.runPure Driver.C43.handle
