import Driver.Loop
import SquidModel.Date.Parse
open SquidModel SquidModel.Date

namespace Driver.C35

def tMin : Int := -62167219200     -- 0000-01-01 00:00:00
def tMax : Int := 3093527980799    -- 99999-12-31 23:59:59

def secondOfDay (seed day : UInt64) : UInt64 :=
  let z := seed + day * 0x9E3779B97F4A7C15
  let z := (z ^^^ (z >>> 30)) * 0xBF58476D1CE4E5B9
  let z := (z ^^^ (z >>> 27)) * 0x94D049BB133111EB
  let z := z ^^^ (z >>> 31)
  z % 86400

def hex16 (h : UInt64) : String :=
  String.ofList ((List.range 16).map fun i => Bytes.hexDigit ((h.toNat >>> (4 * (15 - i))) % 16))

def fnv (h : UInt64) (s : Bytes) : UInt64 :=
  s.foldl (fun h c => (h ^^^ c.toUInt64) * 0x100000001b3) h

def parseInt (s : String) : Option Int :=
  if s.length > 18 then none else s.toInt?

def tmText (s : Bytes) : String :=
  match parseDate s with
  | none => "null"
  | some tm => s!"tm={tm.year},{tm.mon},{tm.mday},{tm.hour},{tm.min},{tm.sec}"

def days (day0 : Int) (seed : UInt64) : Nat → Nat → UInt64 → Nat → Option Int → String
  | 0, n, h, mism, first =>
    let f := match first with | some t => toString t | none => "-"
    s!"n={n} mism={mism} first={f} hash={hex16 h}"
  | k + 1, n, h, mism, first =>
    let day := day0 + (n - (k + 1) : Nat)
    let t := day * 86400 + (secondOfDay seed (UInt64.ofNat (day % 18446744073709551616).toNat)).toNat
    let s := formatRfc1123 t
    let h := (fnv h s ^^^ 10) * 0x100000001b3
    let back := parseRfc1123 s
    if back == t then days day0 seed k n h mism first
    else days day0 seed k n h (mism + 1) (if mism == 0 then some t else first)

def handle (line : String) : String :=
  match Driver.words line with
  | ["f", a] =>
    match parseInt a with
    | none => "bad-op"
    | some t =>
      if t < tMin || t > tMax then "reject:domain" else
      let s := formatRfc1123 t
      s!"{Bytes.toHex s} {parseRfc1123 s}"
  | ["p", h] =>
    match Bytes.ofHex h with
    | none => "bad-op"
    | some s =>
      if s.contains 0 then "reject:nul" else s!"{parseRfc1123 s} {tmText s}"
  | ["D", a, b, c] =>
    match parseInt a, b.toNat?, c.toNat? with
    | some day0, some n, some seed =>
      if n > 1000000 || day0 * 86400 < tMin || (day0 + n) * 86400 > tMax then "bad-op"
      else days day0 (UInt64.ofNat seed) n n 0xcbf29ce484222325 0 none
    | _, _, _ => "bad-op"
  | _ => "bad-op"

end Driver.C35

def main : IO UInt32 := Driver.runPure Driver.C35.handle
