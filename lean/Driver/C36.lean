import Driver.Loop
import SquidModel.Base64.Codec
import SquidModel.Base64.Basic
open SquidModel SquidModel.Base64

namespace Driver.C36

def parseNat (s : String) : Option Nat :=
  if s.isEmpty || s.length > 10 then none else
  s.toList.foldl (fun acc c => match acc with
    | none => none
    | some n => if '0' ≤ c ∧ c ≤ '9' then some (n * 10 + (c.toNat - 48)) else none) (some 0)

def parseLens (spec : String) : Option (List Nat) :=
  (spec.splitOn ",").foldr (fun t acc => match parseNat t, acc with
    | some n, some l => some (n :: l)
    | _, _ => none) (some [])

def cut (data : Bytes) : List Nat → List Bytes
  | [] => if data.isEmpty then [] else [data]
  | n :: ns => data.take n :: cut (data.drop n) ns

def splitChunks (spec : String) (data : Bytes) : Option (List Bytes) :=
  if spec == "-" then some [data] else (parseLens spec).map (cut data)

def joinNats (l : List Nat) : String := ",".intercalate (l.map toString)

/-- encode with counts per call and the state before final -/
def encRun (ctx : EncCtx) : List Bytes → Bytes × List Nat × EncCtx
  | [] => ([], [], ctx)
  | s :: rest =>
    let r := encodeUpdate ctx s
    let t := encRun r.1 rest
    (r.2 ++ t.1, r.2.length :: t.2.1, t.2.2)

def encLine (chunks : List Bytes) : Bytes × String :=
  let r := encRun encodeInit chunks
  let f := encodeFinal r.2.2
  (r.1 ++ f.2, s!" n={joinNats r.2.1};{f.2.length} st={r.2.2.word}/{r.2.2.bits}")

def decSt (c : DecCtx) : String := s!"st={c.word}/{c.bits}/{c.padding}"

def decRun (lim : Nat) (ctx : DecCtx) (k : Nat) (acc : Bytes) : List Bytes → String × Option Bytes
  | [] => if decodeFinal ctx then (s!"ok {Bytes.toHex acc} {decSt ctx}", some acc)
          else (s!"reject:final {Bytes.toHex acc} {decSt ctx}", none)
  | s :: rest =>
    match decodeUpdate lim ctx s with
    | (ctx', out, .ok) => decRun lim ctx' (k + 1) (acc ++ out) rest
    | (ctx', _, .bad) => (s!"reject:update@{k} {Bytes.toHex acc} {decSt ctx'}", none)
    | (ctx', _, .assertFail) => (s!"abort:assert {Bytes.toHex acc} {decSt ctx'}", none)

def decLine (lim : Nat) (chunks : List Bytes) : String := (decRun lim decodeInit 0 [] chunks).1

/-- all ordered sums of positive parts, in the order of the harness (bit i of the mask set = cut after position i) -/
def compositions (n : Nat) : List (List Nat) :=
  if n = 0 then [[]] else
  (List.range (2 ^ (n - 1))).map fun mask =>
    let r := (List.range (n - 1)).foldl (fun (st : List Nat × Nat) i =>
      if (mask >>> i) % 2 = 1 then (st.1 ++ [st.2], 1) else (st.1, st.2 + 1)) ([], 1)
    r.1 ++ [r.2]

def fnvStep (d : UInt64) (c : UInt8) : UInt64 := (d ^^^ c.toUInt64) * 1099511628211

def bulkOne (lim : Nat) (x : Bytes) (st : Nat × UInt64) : Nat × UInt64 :=
  let enc0 := encodeChunks [x]
  let okEnc := (compositions x.length).all fun parts => encodeChunks (cut x parts) = enc0
  let okDec := decodeChunks lim [enc0] = some x ∧ decodeChunks lim (enc0.map fun c => [c]) = some x
  let okRaw := encodeRaw x = enc0
  let d := enc0.foldl fnvStep st.2
  (if okEnc ∧ okDec ∧ okRaw then st.1 else st.1 + 1, fnvStep d 0xff)

def bulk (lim n lo hi : Nat) : String :=
  if n > 3 ∨ lo > hi ∨ hi > 255 then "bad-op" else
  let total := if n = 0 then 1 else (hi - lo + 1) * 256 ^ (n - 1)
  let r := (List.range total).foldl (fun st idx =>
    let x : Bytes := match n with
      | 0 => []
      | 1 => [UInt8.ofNat (lo + idx)]
      | 2 => [UInt8.ofNat (lo + idx / 256), UInt8.ofNat (idx % 256)]
      | _ => [UInt8.ofNat (lo + idx / 65536), UInt8.ofNat (idx / 256 % 256), UInt8.ofNat (idx % 256)]
    bulkOne lim x st) (0, (14695981039346656037 : UInt64))
  let hex := String.ofList ((List.range 16).map fun i => Bytes.hexDigit ((r.2.toNat >>> (60 - 4 * i)) % 16))
  s!"count={total} bad={r.1} digest={hex}"

def optHex : Option Bytes → String
  | none => "null"
  | some b => Bytes.toHex b

def basicLine (lim : Nat) (cs : Bool) (hdr : Bytes) : String :=
  if hdr.contains 0 then "reject:nul" else
  match Basic.decode lim cs hdr with
  | none => "none"
  | some c =>
    let d := match c.deny with | .none => "-" | .noPassword => "nopass" | .emptyPassword => "empty"
    s!"user={Bytes.toHex c.user} pass={optHex c.pass} deny={d} type={if c.valid then "basic" else "broken"}"

def basicOp (lim : Nat) (f h : String) : String :=
  if f ≠ "c" ∧ f ≠ "i" then "bad-op" else
  match Bytes.ofHex h with
  | some s => basicLine lim (f == "c") s
  | none => "bad-op"

def handle (line : String) : String :=
  match Driver.words line with
  | ["b", f, h] => basicOp Gen.Base64.nettlePadLimit f h   -- Config.cc + libnettle (the binary)
  | ["B", f, h] => basicOp Gen.Base64.localPadLimit f h    -- Config.cc + lib/base64.cc
  | op :: impl :: args =>
    if impl ≠ "L" ∧ impl ≠ "N" then "bad-op" else
    let lim := if impl = "L" then Gen.Base64.localPadLimit else Gen.Base64.nettlePadLimit
    match op, args with
    | "e", [h, spec] =>
      match Bytes.ofHex h with
      | some x => match splitChunks spec x with
        | some chunks => let r := encLine chunks; Bytes.toHex r.1 ++ r.2
        | none => "bad-op"
      | none => "bad-op"
    | "r", [h] =>
      match Bytes.ofHex h with
      | some x => Bytes.toHex (encodeRaw x)
      | none => "bad-op"
    | "g", [g] =>
      match parseNat g with
      | some n => if n > 4294967295 then "bad-op" else Bytes.toHex (encodeGroup n)
      | none => "bad-op"
    | "c", [w, b, h] =>
      match parseNat w, parseNat b, Bytes.ofHex h with
      | some w, some b, some [x] =>
        if w > 65535 ∨ b > 9 then "bad-op" else
        let r := encodeSingle ⟨w, b⟩ x
        s!"{Bytes.toHex r.2} st={r.1.word}/{r.1.bits}"
      | _, _, _ => "bad-op"
    | "d", [h, spec] =>
      match Bytes.ofHex h with
      | some x => match splitChunks spec x with
        | some chunks => decLine lim chunks
        | none => "bad-op"
      | none => "bad-op"
    | "s", [w, b, p, h] =>
      match parseNat w, parseNat b, parseNat p, Bytes.ofHex h with
      | some w, some b, some p, some [x] =>
        if w > 65535 ∨ b > 14 ∨ p > 255 then "bad-op" else
        let r := decodeSingle lim ⟨w, b, p⟩ x
        match r.2 with
        | .err => s!"-1 - {decSt r.1}"
        | .none => s!"0 - {decSt r.1}"
        | .byte v => s!"1 {Bytes.toHex [v]} {decSt r.1}"
        | .assertFail => "abort:assert"
      | _, _, _, _ => "bad-op"
    | "t", [h, spec1, spec2] =>
      match Bytes.ofHex h with
      | some x => match splitChunks spec1 x with
        | some chunks =>
          let enc := (encLine chunks).1
          match splitChunks spec2 enc with
          | some dchunks => decLine lim dchunks
          | none => "bad-op"
        | none => "bad-op"
      | none => "bad-op"
    | "x", [n, lo, hi] =>
      match parseNat n, parseNat lo, parseNat hi with
      | some n, some lo, some hi => bulk lim n lo hi
      | _, _, _ => "bad-op"
    | _, _ => "bad-op"
  | _ => "bad-op"

end Driver.C36

def main : IO UInt32 := Driver.runPure Driver.C36.handle
