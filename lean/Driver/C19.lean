import Driver.Loop
import SquidModel.Cache.Smp
open SquidModel.Cache.Smp

namespace Driver.C19

inductive Op where
  | U (w k n m j : Nat)
  | R (w k : Nat)
  | P (w k : Nat)
deriving Repr

structure Sc where
  inst : String
  nkeys : Nat
  ops : List Op

def nworkers (inst : String) : Nat := if inst == "m" then 3 else 2

def parseOp (nw nk : Nat) (o : String) : Option Op :=
  match o.toList with
  | 'U' :: rest =>
    match (String.ofList rest).splitOn "." with
    | [w, k, n, m, j] =>
      match w.toNat?, k.toNat?, n.toNat?, m.toNat?, j.toNat? with
      | some w', some k', some n', some m', some j' =>
        if w.length == 1 && k.length == 1 && n.length ≤ 6 && m.length == 1 && j.length == 1 && 1 ≤ w' && w' ≤ nw && k' < nk && n' ≤ 400000 &&
           m' ≤ 3 && j' ≤ 3 && !(m' == 0 && j' != 0) && !(m' ≥ 2 && n' < 3) then some (.U w' k' n' m' j') else none
      | _, _, _, _, _ => none
    | _ => none
  | c :: rest =>
    if c == 'R' || c == 'P' then
      match (String.ofList rest).splitOn "." with
      | [w, k] =>
        match w.toNat?, k.toNat? with
        | some w', some k' =>
          if w.length == 1 && k.length == 1 && 1 ≤ w' && w' ≤ nw && k' < nk then some (if c == 'R' then .R w' k' else .P w' k') else none
        | _, _ => none
      | _ => none
    else none
  | [] => none

/-- the pause windows stay inside the line and contain no paced update -/
def windowsOk : Nat → List Op → Bool
  | 0, _ => true
  | _, [] => true
  | fuel + 1, op :: rest =>
    match op with
    | .U _ _ _ m j =>
      if m ≥ 1 && j > 0 then
        if rest.length < j then false
        else (rest.take j).all (fun x => match x with | .U _ _ _ m' _ => m' == 0 | _ => true) && windowsOk fuel (rest.drop j)
      else windowsOk fuel rest
    | _ => windowsOk fuel rest

def parse (line : String) : Option Sc :=
  match Driver.words line with
  | [inst, nk, ops] =>
    if inst != "m" && inst != "r" then none else
    match nk.toNat? with
    | none => none
    | some nk' =>
      if nk' < 1 || nk' > 4 then none else
      match (ops.splitOn ",").mapM (parseOp (nworkers inst) nk') with
      | none => none
      | some l => if l.isEmpty || l.length > 24 || !windowsOk 30 l then none else some { inst := inst, nkeys := nk', ops := l }
  | _ => none

def hashId : Key → Nat := fun k => k
/-- symbolic bodies: three "thirds" -/
def bodies : Key → Ver → List Nat := fun k v => [k * 1000 + v, 1, 2]

structure St where
  s : State
  cur : List Nat             -- current origin version per key
  bigs : List (Nat × Nat)    -- (key, version) stored in the rock cache_dir only
  writes : List Nat          -- keys in the order they were written (fetched responses stored)
  unc : List Nat             -- keys whose cache state depends on how a read inside a pause window went (hit, or a miss that
                             -- replaced the entry being written): until the next reload, a hit may be a miss and a PURGE may find nothing
  out : List (Nat × String)  -- (operation index, token)

def curOf (st : St) (k : Nat) : Nat := (st.cur[k]?).getD 1
def setCur (st : St) (k v : Nat) : St := { st with cur := (List.range (max st.cur.length (k + 1))).map (fun i => if i == k then v else (st.cur[i]?).getD 1) }
def emit (st : St) (i : Nat) (t : String) : St := { st with out := st.out ++ [(i, t)] }

def isBig (sc : Sc) (n : Nat) : Bool := sc.inst == "r" && n > 32768

/-- a fetched response becomes the public entry of its worker: older entries are invalidated everywhere; it is written to the shared
cache when the slot can be locked -/
def beginWrite (st0 : St) (w k v : Nat) (appendable : Bool) : St × Bool :=
  let st := { st0 with writes := st0.writes ++ [k] }
  let s1 := freeKey hashId st.s k
  let ok := !(s1.anchors k).locked
  let s2 := openW hashId s1 w k v
  let s3 := if ok && appendable then startApp s2 w k else s2
  ({ st with s := s3 }, ok)

def storeAll (st : St) (w k : Nat) : St := { st with s := closeW bodies (append bodies st.s w k 9) w k }

/-- a miss: the worker fetches the origin's current version and caches it -/
def missFetch (_sc : Sc) (st : St) (i w k : Nat) : St :=
  let v := curOf st k
  let r := beginWrite st w k v true
  let st1 := if r.2 then storeAll r.1 w k else r.1
  emit st1 i ("R=200:" ++ toString v ++ ":C:miss")

/-- a reader that found the entry copies it to the end -/
def finishReader (st : St) (i r : Nat) (bigHit : Bool) : St :=
  let s1 := read (read st.s r 9) r 9
  match s1.readers r with
  | none => st
  | some rd =>
    let c := if rd.done == some true then "C" else "I"
    let tok := "R=200:" ++ toString rd.ver ++ ":" ++ c ++ ":hit"
    let tok2 := if bigHit then tok ++ "|R=200:" ++ toString rd.ver ++ ":C:miss" else tok
    emit { st with s := closeR s1 r } i tok2

def doPurge (st : St) (i k : Nat) : St :=
  let a := st.s.anchors k
  let found := a.key == some k && !a.wtbf
  emit { st with s := freeKey hashId st.s k } i (if found then (if st.unc.contains k then "P=200|P=404" else "P=200") else "P=404")

/-- operations that run one after the other -/
def seqOp (sc : Sc) (st : St) (i : Nat) (op : Op) : St :=
  match op with
  | .R w k =>
    let s1 := openR hashId st.s w k
    if s1.nextR > st.s.nextR then
      -- rock: the disker writes asynchronously; a write that finds its slot locked (by the previous write of the key, or by a
      -- colliding key of a concurrent scenario) fails and releases the entry in every store, so in the rock instance a predicted
      -- hit may also be a miss; the memory-only instance keeps the exact prediction
      let rdBig := (st.bigs.any (fun p => p.1 == k && p.2 == (st.s.anchors k).ver)) ||
                   sc.inst == "r" || st.unc.contains k
      finishReader { st with s := s1 } i st.s.nextR rdBig
    else missFetch sc st i w k
  | .P _ k => doPurge st i k
  | .U w k n m _ =>
    let v := curOf st k + 1
    let st0 := setCur { st with unc := st.unc.filter (· != k) } k v
    let st0 := if isBig sc n then { st0 with bigs := (k, v) :: st0.bigs } else st0
    let r := beginWrite st0 w k v (!isBig sc n && m != 3)
    let st1 := if r.2 then { r.1 with s := append bodies r.1.s w k 1 } else r.1
    let st2 := if m ≤ 1 then (if r.2 then storeAll st1 w k else st1) else { st1 with s := abortW st1.s w k }
    emit st2 i ("U=200:" ++ toString v ++ ":" ++ (if m ≤ 1 then "C" else "I"))

/-- an operation started while the reload of key `k0` (by worker `w0`, mode `m0`) is paused; readers that attach to the entry being
written are finished later: returned as pending (operation index, reader id) -/
def winOp (sc : Sc) (st : St) (i : Nat) (op : Op) (k0 _m0 w0 : Nat) (pend : List (Nat × Nat)) : St × List (Nat × Nat) :=
  match op with
  | .R w k =>
    if k == k0 then
      -- the writing worker's own transactions find its in-transit entry in its local store_table, whether or not other workers
      -- may read the shared copy yet (appending)
      let a0 := st.s.anchors k
      let sLocal := if w == w0 && a0.writer == some w0 then startApp st.s w0 k else st.s
      let s1raw := openR hashId sLocal w k
      let s1 := if w == w0 && a0.writer == some w0 then setA s1raw k { (s1raw.anchors k) with appending := a0.appending } else s1raw
      if s1.nextR > st.s.nextR then ({ st with s := s1, unc := k :: st.unc }, pend ++ [(i, st.s.nextR)])
      else (missFetch sc st i w k, pend)
    else (seqOp sc st i op, pend)
  | _ => (seqOp sc st i op, pend)

def finishPending (st : St) (_m0 : Nat) (pend : List (Nat × Nat)) : St :=
  pend.foldl (fun acc p =>
    let s1 := read (read acc.s p.2 9) p.2 9
    match s1.readers p.2 with
    | none => acc
    | some rd =>
      let c := if rd.done == some true then "C" else "I"
      -- whether the reader found the entry being written or fetched itself is a matter of timing
      emit { acc with s := closeR s1 p.2 } p.1 ("R=200:" ++ toString rd.ver ++ ":" ++ c ++ ":hit|R=200:" ++ toString rd.ver ++ ":C:miss")) st

def go (sc : Sc) : Nat → Nat → List Op → St → St
  | 0, _, _, st => st
  | _, _, [], st => st
  | fuel + 1, i, op :: rest, st =>
    match op with
    | .U w k n m j =>
      if m ≥ 1 && j > 0 then
        let v := curOf st k + 1
        let st0 := setCur { st with unc := st.unc.filter (· != k) } k v
        let st0 := if isBig sc n then { st0 with bigs := (k, v) :: st0.bigs } else st0
        let r := beginWrite st0 w k v (!isBig sc n && m != 3)
        let st1 := if r.2 then { r.1 with s := append bodies r.1.s w k 1 } else r.1
        let win := rest.take j
        let res := (List.range win.length).foldl (fun (acc : St × List (Nat × Nat)) x =>
          match win[x]? with
          | some o => winOp sc acc.1 (i + 1 + x) o k m w acc.2
          | none => acc) (st1, [])
        let st2 := res.1
        -- the writer still holds the slot only if nobody replaced its incarnation meanwhile
        let mine := (st2.s.anchors k).writer == some w && (st2.s.anchors k).ver == v
        let st3 := if m ≤ 1 then (if mine then storeAll st2 w k else st2) else (if mine then { st2 with s := abortW st2.s w k } else st2)
        let st4 := finishPending st3 m res.2
        let st5 := emit st4 i ("U=200:" ++ toString v ++ ":" ++ (if m ≤ 1 then "C" else "I"))
        go sc fuel (i + 1 + j) (rest.drop j) st5
      else go sc fuel (i + 1) rest (seqOp sc st i op)
    | _ => go sc fuel (i + 1) rest (seqOp sc st i op)

def simulate (sc : Sc) : String :=
  let st := go sc 40 0 sc.ops { s := State.init, cur := [], bigs := [], writes := [], unc := [], out := [] }
  let toks := (List.range sc.ops.length).map (fun i =>
    match st.out.find? (fun p => p.1 == i) with
    | some p => p.2
    | none => "?")
  ",".intercalate toks

def handle (line : String) : String :=
  match parse line with
  | none => "bad-op"
  | some sc => simulate sc

end Driver.C19

def main : IO UInt32 := Driver.runPure Driver.C19.handle
