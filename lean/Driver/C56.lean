import Driver.Loop
import SquidModel.Ipc.QueueExec
open SquidModel.Ipc.Queue

namespace Driver.C56

def parseOp (s : String) : Option POp :=
  if s == "L" then some .large
  else if s.length < 2 ∨ s.length > 11 ∨ s.front ≠ 'P' then none
  else
    let d := (s.drop 1).toString
    if d.all Char.isDigit then
      match d.toNat? with
      | some v => if v ≤ 2147483647 then some (.push v) else none
      | none => none
    else none

def isPow2 (n : Nat) : Bool := n > 0 && n &&& (n - 1) == 0

def parseSched (s : String) : Option (List Nat) :=
  if s == "-" then some []
  else (s.splitOn ",").mapM fun t => if t == "0" then some 0 else if t == "1" then some 1 else none

def handle (line : String) : String :=
  match Driver.words line with
  | [c, st, ops, sched] =>
    match c.toNat?, st.toNat? with
    | some cap, some start =>
      if cap < 1 ∨ cap > 64 ∨ start ≥ W then "bad-op"
      else
        let pops := if ops == "-" then some [] else (ops.splitOn ",").mapM parseOp
        match pops, parseSched sched with
        | some po, some sc =>
          -- a constructor that insists on power-of-two capacities (translate/queue_cfg.py) throws for the others
          if SquidModel.Gen.QueueCfg.ctorRequiresPow2 && !(isPow2 cap) then "reject:ctor"
          else runScenario cap start po sc
        | _, _ => "bad-op"
    | _, _ => "bad-op"
  | _ => "bad-op"

end Driver.C56

def main : IO UInt32 := Driver.runPure Driver.C56.handle
