import Driver.Loop
import SquidModel.Ipc.StoreMapExecF
open SquidModel.Ipc.StoreMap

namespace Driver.C55

def num (s : String) : Option Nat := if s.length > 6 || s.isEmpty then none else s.toNat?

def parseOp (n : Nat) (s : String) : Option (String × Op) :=
  match s.splitOn ":" with
  | ["OW", f, ow] => do let f ← num f; let o ← num ow; if f < n then some ("OW", .OW f (o != 0)) else none
  | ["SK", k, m] => do let k ← num k; let m ← num m; if k ≠ 0 then some ("SK", .SK k (m != 0)) else none
  | ["AS", v] => do let v ← num v; some ("AS", .AS v)
  | ["SA"] => some ("SA", .SA)
  | ["CW"] => some ("CW", .CW)
  | ["AW"] => some ("AW", .AW)
  | ["OR", f, k] => do let f ← num f; let k ← num k; if f < n && k ≠ 0 then some ("OR", .OR f k) else none
  | ["RD"] => some ("RD", .RD)
  | ["CR"] => some ("CR", .CR)
  | ["CF"] => some ("CF", .CF)
  | ["FE", f] => do let f ← num f; if f < n then some ("FE", .FE f) else none
  | ["FK", k] => do let k ← num k; if k ≠ 0 then some ("FK", .FK k) else none
  | _ => none

def parseOps (n : Nat) (s : String) : Option (List (String × Op)) :=
  if s == "-" then some [] else (s.splitOn ",").mapM (parseOp n)

/-- updater calls (openForUpdating/closeForUpdating/abortUpdating and the fresh-prefix writes) are exercised on the real code and judged by
the oracle only: the model does not cover them -/
def hasUpdaterOp (ops : String) : Bool :=
  (ops.splitOn ";").any fun t => (t.splitOn ",").any fun o => o.startsWith "OU:" || o.startsWith "UA:" || o.startsWith "CU:" || o == "AU"

def handle (line : String) : String :=
  match Driver.words line with
  | [mode, ns, ks, ops, sched] =>
    match ns.toNat?, ks.toNat? with
    | some n, some k =>
      if (mode != "A" && mode != "F") || n < 1 || n > 8 || k < 1 || k > 8 then "bad-op"
      else if hasUpdaterOp ops then "unmodelled"
      else
        match (ops.splitOn ";").mapM (parseOps n) with
        | some per =>
          if per.length ≠ k then "bad-op"
          else
            let schedule := if sched == "-" then some [] else (sched.splitOn ",").mapM String.toNat?
            match schedule with
            | some sc => if mode == "A" then runScenario n per sc else runScenarioF n per sc
            | none => "bad-op"
        | none => "bad-op"
    | _, _ => "bad-op"
  | _ => "bad-op"

end Driver.C55

def main : IO UInt32 := Driver.runPure Driver.C55.handle
