import Driver.Loop
import SquidModel.Relay.Response
open SquidModel SquidModel.Relay.Response

namespace Driver.C01

def fnv (b : Bytes) : UInt64 :=
  b.foldl (fun h x => (h ^^^ x.toUInt64) * 0x100000001b3) 0xcbf29ce484222325

def hex64 (x : UInt64) : String :=
  String.ofList ((List.range 16).map fun i => Bytes.hexDigit ((x.toNat >>> (4 * (15 - i))) % 16))

/-- the harness's body generator: x' = 1664525 x + 1013904223 mod 2^32, octet = x' >> 24 -/
def genBody (n seed : Nat) : Bytes :=
  let rec go : Nat → UInt32 → List UInt8 → List UInt8
    | 0, _, acc => acc.reverse
    | k + 1, x, acc =>
      let x' := x * 1664525 + 1013904223
      go k x' ((x' >>> 24).toUInt8 :: acc)
  go n (UInt32.ofNat ((seed * 2654435761 + 12345) % 4294967296)) []

inductive Piece
  | d (n : Nat)
  | x (b : Bytes)

def parsePiece (s : String) : Option Piece :=
  match s.toList with
  | 'd' :: r => (String.ofList r).toNat?.map Piece.d
  | 'x' :: r => (Bytes.ofHexChars r).map Piece.x
  | _ => none

def parsePieces (s : String) : Option (List Piece) :=
  if s == "-" then some [] else (s.splitOn ",").mapM parsePiece

def wireOf (ps : List Piece) (seed : Nat) : Bytes :=
  let total := ps.foldl (fun a p => match p with | .d n => a + n | .x _ => a) 0
  let B := genBody total seed
  let rec go : List Piece → Bytes → List Bytes → Bytes
    | [], _, acc => acc.reverse.flatten
    | .d n :: r, b, acc => go r (b.drop n) (b.take n :: acc)
    | .x y :: r, b, acc => go r b (y :: acc)
  go ps B []

def natList (s : String) : Option (List Nat) :=
  if s == "-" then some [] else (s.splitOn ",").mapM String.toNat?

/-- cut `b` at the given increasing offsets -/
def splitAt (b : Bytes) (cuts : List Nat) : List Bytes :=
  let rec go : List Nat → Nat → Bytes → List Bytes → List Bytes
    | [], _, rest, acc => (rest :: acc).reverse
    | c :: cs, pos, rest, acc =>
      if c > pos ∧ c - pos < rest.length then go cs c (rest.drop (c - pos)) (rest.take (c - pos) :: acc)
      else go cs pos rest acc
  go cuts 0 b []

/-- the client drains what the store has, in HTTP_REQBUF_SZ reads or smaller ones (the theorems make the result
independent of the read sizes) -/
def drain (P : Params) (seed : Nat) : Nat → Sys → Sys
  | 0, x => x
  | f + 1, x =>
    let k := if seed % 3 = 0 then 4096 else 1 + (seed * 131 + f * 977) % 4096
    let c' := cliStep P x.s x.c k
    if c'.offset == x.c.offset && c'.complete == x.c.complete && c'.ended.isSome == x.c.ended.isSome then { x with c := c' }
    else drain P seed f { x with c := c' }

def parseOfr (s : String) : Option (Bool × Option Nat) :=
  if s == "ch" then some (true, none)
  else if s == "close" then some (false, none)
  else match s.splitOn ":" with
    | ["cl", n] => n.toNat?.map fun k => (false, some k)
    | _ => none

def showFr : CFr → String
  | .none => "none"
  | .cl n => s!"cl:{n}"
  | .chunked => "chunked"
  | .close => "close"

def observe (status : Nat) (c : Cli) : String :=
  let fin : String :=
    match c.fr with
    | .none => "complete"
    | .cl n => if c.offset == n then "complete" else if c.ended == some .close then "eof" else "timeout"
    | .chunked => if c.lastChunk then "complete" else if c.ended == some .close then "eof" else "timeout"
    | .close => if c.ended == some .close then "eof" else "timeout"
  let keep := fin == "complete" && c.ended == some .keep
  let extra := c.fr == .none && !c.wire.isEmpty
  let next := if fin != "complete" then "-" else if extra then "bad" else if keep then "ok" else "-"
  let body := if c.fr == .none then [] else c.body
  s!"st={status} fr={showFr c.fr} len={body.length} fnv={hex64 (fnv body)} end={fin} conn=" ++ (if keep then "keep" else "close") ++ s!" next={next}"

/-- cache `r` = the request is re-forwarded (a first parent answered a complete 502 that Squid discards): the client sees what the
second attempt alone yields, so the prediction is that of `n`.
line: `<cache> <ver> <method> <status> <ofr> <seed> <pieces> <cut> <end> <hsplit> <segs> <stall> <hv>` -/
def handle (line : String) : String :=
  match Driver.words line with
  | [cache, ver, method, status, ofr, seed, pieces, cut, fin, hsplit, segs, _stall, hv] =>
    match status.toNat?, parseOfr ofr, seed.toNat?, parsePieces pieces, (if cut == "-" then some none else cut.toNat?.map some), natList segs, hv.toNat? with
    | some status, some (chunked, cl), some seed, some ps, some cut, some segs, some hv =>
      if (cache != "n" && cache != "m" && cache != "d" && cache != "r") || (ver != "11" && ver != "10" && ver != "10k") || (method != "GET" && method != "HEAD")
         || (fin != "fin" && fin != "keep" && fin != "rst") || status < 200 || status > 599 || hv > 3 then "bad-op"
      else if hsplit.startsWith "c" then
        -- the origin never finished its header: Squid answers with its own error page
        let one := "st=502 fr=cl:? len=? fnv=? end=complete conn=keep next=ok"
        if cache == "n" || cache == "r" then one else one ++ " | " ++ one
      else
        let P := Params.tree true
        let isHead := method == "HEAD"
        let wire := wireOf ps seed
        let sent := if isHead then [] else match cut with | some k => wire.take k | none => wire
        let fr := originFraming isHead status chunked cl
        let http11 := ver == "11"
        let persistent := ver != "10"
        let total := match cl with | some n => n | none => ps.foldl (fun a p => match p with | .d n => a + n | .x _ => a) 0
        let crLen := if hv == 2 && total > 0 then some total else none
        let c0 := if isHead then Cli.initHead (clientKeepalive persistent http11 fr)
                  else Cli.init (clientFraming http11 fr) (clientKeepalive persistent http11 fr) crLen
        let segList := splitAt sent segs
        let evs : List SEv := segList.map SEv.data ++ (if fin == "fin" then [SEv.eof] else if fin == "rst" then [SEv.error] else [])
        let x := evs.foldl (fun x e => drain P seed (sent.length + 8) { x with s := srvStep P x.s e }) (⟨Srv.init fr (serverTe P isHead status chunked), c0⟩ : Sys)
        let one := observe status x.c
        if cache == "n" || cache == "r" then one else one ++ " | " ++ one
    | _, _, _, _, _, _, _ => "bad-op"
  | _ => "bad-op"

end Driver.C01

def main : IO UInt32 := Driver.runPure Driver.C01.handle
