import Driver.Loop
import SquidModel.Http1Resp.Parser
open SquidModel SquidModel.Http1Resp

namespace Driver.C23

def stageName : Stage → String
  | .none => "N" | .first => "F" | .mime => "M" | .done => "D"

def protoName (v : Version) : String :=
  (match v.proto with | .none => "none" | .http => "http" | .icy => "icy") ++ "/" ++ toString v.major ++ "." ++ toString v.minor

def outcome (F : Feed) : String :=
  let S := F.st
  "st=" ++ stageName S.stage ++ " pr=" ++ protoName S.ver ++ " sc=" ++ toString S.status ++ " rp=" ++ Bytes.toHex S.reason ++
  " mh=" ++ Bytes.toHex S.mime ++ " psc=" ++ toString S.parseStatus ++ " rem=" ++ Bytes.toHex S.buf ++
  " ok=" ++ (if F.ok then "1" else "0") ++ " fls=" ++ toString (firstLineSize S)

def allHex : List String → Option (List Bytes)
  | [] => some []
  | h :: t => match Bytes.ofHex h, allHex t with
    | some b, some r => some (b :: r)
    | _, _ => none

def relaxedOf : String → Option Bool
  | "0" => some false
  | "1" => some true
  | _ => none

def handle (line : String) : String :=
  match Driver.words line with
  | "p" :: r :: lim :: segs =>
    match relaxedOf r, lim.toNat?, allHex segs with
    | some relaxed, some limit, some ss =>
      let cfg : Cfg := ⟨relaxed, limit⟩
      outcome (feed cfg Feed.init ss) ++ " | " ++ outcome (oneShot cfg ss.flatten)
    | _, _, _ => "bad-op"
  | ["s", r, h] =>
    match relaxedOf r, Bytes.ofHex h with
    | some relaxed, some b =>
      match parseResponseStatus ⟨relaxed, 0⟩ b Gen.Http1Resp.scNone with
      | (.ok rest, code) => "ok " ++ toString code ++ " " ++ Bytes.toHex rest
      | (.insufficient, code) => "insufficient " ++ toString code
      | (.invalid, code) => "invalid " ++ toString code
    | _, _ => "bad-op"
  | _ => "bad-op"

end Driver.C23

def main : IO UInt32 := Driver.runPure Driver.C23.handle
