import Driver.Loop
import SquidModel.Pct.Uri
import SquidModel.Pct.Rfc1738
import SquidModel.Gen.CharSets
import SquidModel.Gen.UriSets
open SquidModel

/-
Line driver of the C31 models (protocol in harness/c31.cc). The state is the static buffer of rfc1738_do_escape.
-/
namespace Driver.C31
open SquidModel.Pct

def parseSet (w : String) : Option CharSet :=
  if w == "unreserved" then some Gen.CharSets.RFC3986_UNRESERVED
  else if w == "path" then some Gen.UriSets.PATH
  else if w == "userinfo" then some Gen.UriSets.USERINFO
  else if w.startsWith "x" then (Bytes.ofHex (w.drop 1).toString).map CharSet.ofBytes
  else none

abbrev St := Option (List UInt8)

def optHex (o : Option Bytes) (rej : String) : String :=
  match o with
  | some b => Bytes.toHex b
  | none => rej

def opE (cs : CharSet) (s : Bytes) : Bytes × Option Bytes :=
  let enc := encode cs s
  (enc, decode enc)

/-- Inputs up to this length run through the buffer/index-level models (`escapeCall`, `unescapeInPlace`); longer ones through
the list-level functions those are proved equal to (`C31.escape_fits_buffer`, `C31.unescape_in_place_safe`), because stores into a
`List` cost O(index). -/
def loopLimit : Nat := 128

def unescMem (s : Bytes) : Option (Bytes × Bytes) :=
  if s.length ≤ loopLimit then
    match Rfc1738.unescapeInPlace (s ++ [0]) with
    | none => none
    | some (m, _) => some (Rfc1738.cstr m, m)
  else
    let u := Rfc1738.unescape s
    some (u, u ++ 0 :: (s ++ [0]).drop (u.length + 1))

/-- escape through the buffer-level model, then unescape the result in place -/
def opEsc (st : St) (flags : Nat) (s : Bytes) : St × Option (Bytes × Bytes) :=
  if s.length ≤ loopLimit then
    match Rfc1738.escapeCall st flags s with
    | none => (st, none)
    | some buf =>
      let esc := Rfc1738.cstr buf
      match unescMem esc with
      | none => (some buf, none)
      | some (u, _) => (some buf, some (esc, u))
  else
    let esc := Rfc1738.escape flags s
    match unescMem esc with
    | none => (st, none)
    | some (u, _) => (st, some (esc, u))

def opU (s : Bytes) : Option (Bytes × Bytes) := unescMem s

/-! digest of a sweep: FNV-1a over the outputs, each followed by its length (2 octets) -/
def fnvByte (h : UInt64) (b : UInt8) : UInt64 := (h ^^^ b.toUInt64) * 1099511628211
def fnvItem (h : UInt64) (o : Option Bytes) : UInt64 :=
  match o with
  | some b =>
    let h := b.foldl fnvByte h
    fnvByte (fnvByte h (UInt8.ofNat (b.length % 256))) (UInt8.ofNat (b.length / 256 % 256))
  | none => fnvByte (fnvByte (fnvByte h 0xFF) 0xFE) 0xFD

def hex64 (x : UInt64) : String :=
  String.ofList ((List.range 16).map fun i => Bytes.hexDigit ((x.toNat >>> (4 * (15 - i))) % 16))

/-- all strings `pre ++ t` with `t` of length `k` over octets `lo..255`, in lexicographic order, folded -/
def sweep {α : Type} (lo : Nat) (f : α → Bytes → α) : Nat → Bytes → α → α
  | 0, pre, acc => f acc pre
  | k + 1, pre, acc =>
    (List.range (256 - lo)).foldl (fun a i => sweep lo f k (pre ++ [UInt8.ofNat (lo + i)]) a) acc

structure Acc where
  n : Nat := 0
  h : UInt64 := 14695981039346656037
  st : St := none

def showAcc (a : Acc) : String := s!"n={a.n} digest={hex64 a.h}"

def handle (st : St) (line : String) : St × String :=
  match Driver.words line with
  | ["E", set, h] =>
    match parseSet set, Bytes.ofHex h with
    | some cs, some s =>
      let r := opE cs s
      (st, s!"enc={Bytes.toHex r.1} dec={optHex r.2 "reject"}")
    | _, _ => (st, "bad-op")
  | ["D", h] =>
    match Bytes.ofHex h with
    | some s => (st, optHex (decode s) "reject:pct")
    | none => (st, "bad-op")
  | ["e", fl, h] =>
    match fl.toNat?, Bytes.ofHex h with
    | some flags, some s =>
      if flags > 0xffff then (st, "bad-op")
      else if s.contains 0 then (st, "reject:nul")
      else
        match opEsc st flags s with
        | (st', some (esc, un)) => (st', s!"esc={Bytes.toHex esc} unesc={Bytes.toHex un}")
        | (st', none) => (st', "abort:model-out-of-bounds")
    | _, _ => (st, "bad-op")
  | ["u", h] =>
    match Bytes.ofHex h with
    | some s =>
      if s.contains 0 then (st, "reject:nul")
      else
        match opU s with
        | some (c, m) => (st, s!"{Bytes.toHex c} mem={Bytes.toHex m}")
        | none => (st, "abort:model-out-of-bounds")
    | none => (st, "bad-op")
  | ["XE", set, n, p] =>
    match parseSet set, n.toNat?, Bytes.ofHex p with
    | some cs, some n, some pre =>
      if n < pre.length ∨ n > pre.length + 3 then (st, "bad-op") else
      let a := sweep 0 (fun (a : Acc) s =>
        let r := opE cs s
        { a with n := a.n + 1, h := fnvItem (fnvItem a.h (some r.1)) r.2 }) (n - pre.length) pre {}
      (st, showAcc a)
    | _, _, _ => (st, "bad-op")
  | ["XD", n, p] =>
    match n.toNat?, Bytes.ofHex p with
    | some n, some pre =>
      if n < pre.length ∨ n > pre.length + 3 then (st, "bad-op") else
      let a := sweep 0 (fun (a : Acc) s => { a with n := a.n + 1, h := fnvItem a.h (decode s) }) (n - pre.length) pre {}
      (st, showAcc a)
    | _, _ => (st, "bad-op")
  | ["Xe", fl, n, p] =>
    match fl.toNat?, n.toNat?, Bytes.ofHex p with
    | some flags, some n, some pre =>
      if n < pre.length ∨ n > pre.length + 3 ∨ flags > 0xffff then (st, "bad-op")
      else if pre.contains 0 then (st, "reject:nul") else
      let a := sweep 1 (fun (a : Acc) s =>
        match opEsc a.st flags s with
        | (st', some (esc, un)) => { n := a.n + 1, h := fnvItem (fnvItem a.h (some esc)) (some un), st := st' }
        | (st', none) => { n := a.n + 1, h := fnvItem a.h none, st := st' }) (n - pre.length) pre { st := st }
      (a.st, showAcc a)
    | _, _, _ => (st, "bad-op")
  | ["Xu", n, p] =>
    match n.toNat?, Bytes.ofHex p with
    | some n, some pre =>
      if n < pre.length ∨ n > pre.length + 3 then (st, "bad-op")
      else if pre.contains 0 then (st, "reject:nul") else
      let a := sweep 1 (fun (a : Acc) s =>
        match opU s with
        | some (c, m) => { a with n := a.n + 1, h := fnvItem (fnvItem a.h (some c)) (some m) }
        | none => { a with n := a.n + 1, h := fnvItem a.h none }) (n - pre.length) pre {}
      (st, showAcc a)
    | _, _ => (st, "bad-op")
  | _ => (st, "bad-op")

end Driver.C31

def main : IO UInt32 := Driver.runState Driver.C31.handle none
