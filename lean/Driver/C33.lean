import Driver.Loop
import SquidModel.ErrPage.Expand
open SquidModel SquidModel.ErrPage

namespace Driver.C33

def hasInfix (needle : Bytes) : Bytes → Bool
  | [] => needle.isEmpty
  | c :: r => needle.isPrefixOf (c :: r) || hasInfix needle r

/-- `@Squid{` -/
def logformatMagic : Bytes := [64, 83, 113, 117, 105, 100, 123]

def parseEnv (tok : String) : Option (List String × List (String × Bytes)) :=
  match tok.splitOn "," with
  | [] => none
  | a :: items =>
    if !a.startsWith "@" then none else
    let atoms := ((a.drop 1).toString.splitOn "+").filter (· ≠ "")
    let kv := items.mapM fun it =>
      match it.splitOn "=" with
      | [k, v] => (Bytes.ofHex v).map fun b => (k, b)
      | _ => none
    kv.map fun l => (atoms, l)

def mkEnv (atoms : List String) (kv : List (String × Bytes)) (sig : Bytes) : Env where
  atom := fun a => (Atom.names.filter fun p => p.2 == a).any fun p => atoms.contains p.1
  val := fun k =>
    match SrcKey.names.find? fun p => p.2 == k with
    | some (n, _) => kv.lookup n
    | none => none
  detailTmpl := (kv.lookup "detailTmpl").getD []
  sigTmpl := sig

def bit (c : Char) : Bool := c == '1'

def rawHoles (v : Pieces) : Nat :=
  v.countP fun p => match p with
    | .hole k [] => classOf k == .client
    | _ => false

/-- `w <kind> <payload> <template hex>`: how many untransformed hostile holes the template that squid will use for this
scenario has (with and without a request, hard-coded signature) -/
def predictE2E (kind : String) (tmpl : Bytes) : String :=
  let deny := kind == "redir"
  let ctx : Ctx := { deny := deny, allowRec := true, inSig := false }
  let all := Atom.names.map (·.2)
  let a := (compile nestingFuel (Shape.example all [] Gen.ErrorMacros.hardCodedSignature) ctx tmpl []).1
  let b := (compile nestingFuel (Shape.example [] [] Gen.ErrorMacros.hardCodedSignature) ctx tmpl []).1
  s!"raw={rawHoles a + rawHoles b}"

/-- line: `x <D><A><S> <tmpl hex> <sig hex> <spec> <env>`; the spec is for the implementation side only -/
def handle (line : String) : String :=
  match Driver.words line with
  | ["x", flags, t, s, _spec, envTok] =>
    match flags.toList, Bytes.ofHex t, Bytes.ofHex s, parseEnv envTok with
    | [d, a, g], some tmpl, some sig, some (atoms, kv) =>
      if tmpl.contains 0 || sig.contains 0 then "bad-spec" else
      let env := mkEnv atoms kv sig
      if hasInfix logformatMagic tmpl || hasInfix logformatMagic sig || hasInfix logformatMagic env.detailTmpl then "reject:logformat" else
      Bytes.toHex (page env { deny := bit d, allowRec := bit a, inSig := bit g } tmpl)
    | _, _, _, _ => "bad-op"
  | ["w", kind, _pay, t] =>
    match Bytes.ofHex t with
    | some tmpl => predictE2E kind tmpl
    | none => "bad-op"
  | _ => "bad-op"

end Driver.C33

def main : IO UInt32 := Driver.runPure Driver.C33.handle
