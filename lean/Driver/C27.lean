import Driver.Loop
import SquidModel.Base.TokInt
import SquidModel.IntParse.Header
open SquidModel

namespace Driver.C27

def showOutcome (buf : Bytes) : Tok.IntOutcome → String
  | .ok v k => s!"ok {v} {k} {Bytes.toHex (buf.drop k)}"
  | .fail => "fail"
  | .ub => "ub"

def handle (line : String) : String :=
  match Driver.words line with
  | ["i64", b, sg, lim, h] =>
    match b.toInt?, sg.toNat?, lim.toNat?, Bytes.ofHex h with
    | some base, some sign, some limit, some buf =>
      if base < -2147483648 ∨ base > 2147483647 ∨ limit > 4294967295 ∨ sign > 1 then "bad-op"
      else
        -- through the tokenizer-level function, so that `success(n)` (consumption and parsed_) is exercised
        match Tok.int64 (Tok.ofBytes buf) base (sign == 1) limit with
        | .ok v t => s!"ok {v} {t.parsed} {Bytes.toHex t.buf}"
        | .fail => "fail"
        | .ub => "ub"
    | _, _, _, _ => "bad-op"
  | ["ud", lim, h] =>
    match lim.toNat?, Bytes.ofHex h with
    | some limit, some buf =>
      if limit > 4294967295 then "bad-op" else
      match Tok.udec64 (Tok.ofBytes buf) limit with
      | .ok v t => s!"ok {v} {t.parsed} {Bytes.toHex t.buf}"
      | .insufficient => "throw:insufficient"
      | .parse => "throw:parse"
      | .ub => "ub"
    | _, _ => "bad-op"
  | ["po", h] =>
    match Bytes.ofHex h with
    | some s =>
      if s.contains 0 then "reject:nul" else
      match IntParse.parseOffset s with
      | some (v, k) => s!"ok {v} {k}"
      | none => "fail"
    | none => "bad-op"
  | ["pi", h] =>
    match Bytes.ofHex h with
    | some s =>
      if s.contains 0 then "reject:nul" else
      match IntParse.parseInt s with
      | some v => s!"ok {v}"
      | none => "fail"
    | none => "bad-op"
  | _ => "bad-op"

end Driver.C27

def main : IO UInt32 := Driver.runPure Driver.C27.handle
