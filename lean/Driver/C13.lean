import Driver.Loop
import SquidModel.Cache.VaryStore
open SquidModel SquidModel.Cache.Vary

namespace Driver.C13

def hexList (s : String) : Option (List Bytes) :=
  if s == "." then some [] else (s.splitOn ",").mapM Bytes.ofHex

def parseHdrs (s : String) : Option Hdrs :=
  if s == "." then some []
  else (s.splitOn ",").mapM fun tok =>
    match tok.splitOn ":" with
    | [n, v] => match Bytes.ofHex n, Bytes.ofHex v with
      | some a, some b => some (a, b)
      | _, _ => none
    | _ => none

def hasNul (b : Bytes) : Bool := b.contains 0

/-- the rejections of the in-process harness: entries cannot have an empty name; C strings cannot hold NUL -/
def hdrsProblem (h : Hdrs) : Option String :=
  match h.find? (fun e => e.1.isEmpty || hasNul e.1 || hasNul e.2) with
  | some e => if e.1.isEmpty then some "reject:name" else some "reject:nul"
  | none => none

def showList (l : List Bytes) : String := if l.isEmpty then "." else ",".intercalate (l.map Bytes.toHex)

def parseStep (tok : String) : Option (Req × Resp) :=
  match tok.splitOn "/" with
  | [hs, vs, fl] =>
    match parseHdrs hs, hexList vs with
    | some h, some v =>
      let noCache := fl.contains 'n'
      -- the client's "Cache-Control: no-cache" is a request header like any other
      let h' := if noCache then h ++ [("Cache-Control".toUTF8.toList, "no-cache".toUTF8.toList)] else h
      some ({ hdrs := h', noCache := noCache }, { varyLines := v, hasValidator := fl.contains 'l', notModified := fl.contains 'm' })
    | _, _ => none
  | _ => none

def showObs : Obs → String
  | .hit i => s!"h{i}"
  | .origin => "o"
  | .revalidated i => s!"r{i}"
  | .markerServed => "marker"

/-- insertion sort on hex strings (canonical order of the final marks) -/
def insertSorted (x : String) : List String → List String
  | [] => [x]
  | y :: ys => if x ≤ y then x :: y :: ys else y :: insertSorted x ys

def showStore (st : Store) : String :=
  let marks := (st.filter (fun p => !p.1.isEmpty)).map (fun p => Bytes.toHex p.2.mark)
  let sorted := marks.foldr insertSorted []
  let base := if (st.find []).isSome then "1" else "0"
  "marks=" ++ (if sorted.isEmpty then "." else ",".intercalate sorted) ++ " base=" ++ base

def handle (line : String) : String :=
  match Driver.words line with
  | ["K", vs, hs] =>
    match hexList vs, parseHdrs hs with
    | some v, some h =>
      if v.any hasNul then "reject:nul" else
      match hdrsProblem h with
      | some p => p
      | none => "mark=" ++ Bytes.toHex (makeMark v h)
    | _, _ => "bad-op"
  | ["P", v1, h1, v2, h2] =>
    match hexList v1, parseHdrs h1, hexList v2, parseHdrs h2 with
    | some a, some b, some c, some d =>
      let problem (v : List Bytes) (h : Hdrs) : Option String :=
        if v.any hasNul then some "reject:nul" else hdrsProblem h
      match problem a b with
      | some p => p
      | none => match problem c d with
        | some p => p
        | none => "m1=" ++ Bytes.toHex (makeMark a b) ++ " m2=" ++ Bytes.toHex (makeMark c d)
    | _, _, _, _ => "bad-op"
  | ["G", nh, hs] =>
    match Bytes.ofHex nh, parseHdrs hs with
    | some n, some h =>
      if hasNul n then "reject:nul" else
      match hdrsProblem h with
      | some p => p
      | none => match getByName h n with
        | none => "undef"
        | some v => "val=" ++ Bytes.toHex v
    | _, _ => "bad-op"
  | ["I", h] =>
    match Bytes.ofHex h with
    | some s => if hasNul s then "reject:nul" else showList (items s)
    | none => "bad-op"
  | ["E", h] =>
    match Bytes.ofHex h with
    | some s => if hasNul s then "reject:nul" else Bytes.toHex (escapePart s)
    | none => "bad-op"
  | "S" :: toks =>
    match toks.mapM parseStep with
    | some steps =>
      if steps.isEmpty then "bad-op" else
      let (st, obs) := run steps
      " ".intercalate (obs.map showObs) ++ " ; " ++ showStore st
    | none => "bad-op"
  | _ => "bad-op"

end Driver.C13

def main : IO UInt32 := Driver.runPure Driver.C13.handle
