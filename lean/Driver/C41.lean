import Driver.Loop
import SquidModel.Acl.Domain
open SquidModel SquidModel.Acl SquidModel.Acl.Domain

namespace Driver.C41

def parseList (field : String) (emptyOk : Bool) : Option (List Bytes) :=
  if field == "~" then some [] else
  (field.splitOn ",").mapM fun tok =>
    if tok == "-" then (if emptyOk then some [] else none) else Bytes.ofHex tok

/-- what ConfigParser::strtokFile (default mode) returns verbatim as one token -/
def verbatim (t : Bytes) : Bool :=
  match t with
  | [] => false
  | c :: _ => c != 35 && c != 34 && c != 39 && t.all fun b => b != 0 && b != 32 && b != 9 && b != 10 && b != 13

def showEvent : Event → String
  | .ignoredNew n o => "n" ++ Bytes.toHex n ++ "/" ++ Bytes.toHex o
  | .ignoredOld o n => "o" ++ Bytes.toHex o ++ "/" ++ Bytes.toHex n

def showTree (t : Tree Bytes) : String :=
  match t with
  | .nil => "~"
  | _ => Tree.shape Bytes.toHex t

def handleD (vals hosts : String) : String :=
  match parseList vals false, parseList hosts true with
  | some vs, some hs =>
    if hs.any (fun h => h.contains 0) then "bad-op"
    else if !(vs.all verbatim) then "reject:harness-token"
    else
      match parse vs with
      | .ok t ev =>
        let evs := if ev.isEmpty then "~" else ",".intercalate (ev.map showEvent)
        let r := matchAll t hs []
        let bits := if hs.isEmpty then "~" else String.ofList (r.2.map fun b => if b then '1' else '0')
        "ok " ++ evs ++ " " ++ showTree t ++ " " ++ bits ++ " " ++ showTree r.1
      | .assure => "reject:exception:partial-overlap"
      | .dangling => "ub:dangling"
      | .rejected => "reject:exception:multi-dot"
      | .fuel => "model:fuel"
  | _, _ => "bad-op"

def showInt (i : Int) : String := toString i

def handleM (flags h d : String) : String :=
  match flags.toNat?, Bytes.ofHex h, Bytes.ofHex d with
  | some f, some hb, some db =>
    if f > 3 || flags.length != 1 || hb.contains 0 || db.contains 0 then "bad-op"
    else showInt (mdn { honorWildcards := f % 2 == 1, rejectSubsub := f / 2 == 1 } hb db)
  | _, _, _ => "bad-op"

def handle (line : String) : String :=
  match Driver.words line with
  | ["d", vals, hosts] => handleD vals hosts
  | ["m", f, h, d] => handleM f h d
  | _ => "bad-op"

end Driver.C41

def main : IO UInt32 := Driver.runPure Driver.C41.handle
