import Driver.Loop
import SquidModel.Event.Sched
open SquidModel SquidModel.Event

namespace Driver.C59

def idList (l : List Ev) : String :=
  if l.isEmpty then "-" else "+".intercalate (l.map (fun e => toString e.id))

def firedList (l : List Ev) : String :=
  if l.isEmpty then "-" else "+".intercalate (l.map (fun e => s!"{e.id}/{e.func}/{e.arg}"))

def NARG : Nat := 8
def NFUNC : Nat := 6

def parseOp (w : String) : Option Op :=
  match w.splitOn "," with
  | ["t", d] => d.toInt?.map Op.clock
  | ["s", f, a, d, wt, c] =>
    match f.toNat?, a.toNat?, d.toInt?, wt.toInt?, c.toNat? with
    | some f, some a, some d, some wt, some c =>
      if 1 ≤ f ∧ f ≤ NFUNC ∧ a ≤ NARG ∧ c ≤ 1 ∧ -2147483647 ≤ wt ∧ wt ≤ 2147483647 then some (Op.sched f a d wt (c == 1)) else none
    | _, _, _, _, _ => none
  | ["c", f, a] =>
    match f.toNat?, a.toNat? with
    | some f, some a => if 1 ≤ f ∧ f ≤ NFUNC ∧ a ≤ NARG then some (Op.cancel f a) else none
    | _, _ => none
  | ["k"] => some Op.check
  | ["d"] => some Op.dispatch
  | ["l"] => some Op.loop
  | ["r"] => some Op.remaining
  | ["f", f, a] =>
    match f.toNat?, a.toNat? with
    | some f, some a => if 1 ≤ f ∧ f ≤ NFUNC ∧ a ≤ NARG then some (Op.find f a) else none
    | _, _ => none
  | ["i", a] =>
    match a.toNat? with
    | some a => if 1 ≤ a ∧ a ≤ NARG then some (Op.invalidate a) else none
    | none => none
  | ["p"] => some Op.pending
  | _ => none

def showObs (op : Op) : Obs → String
  | .none => match op with | .clock _ => "." | _ => "i"
  | .scheduled id => s!"s{id}"
  | .cancelled trap => if trap then "c!" else "c"
  | .checked r dq => s!"k:{r}:{idList dq}"
  | .dispatched made fd => s!"d:{if made then 1 else 0}:{firedList fd}"
  | .looped o => s!"l:{if o.result then 1 else 0}:{o.delay}:{idList o.dequeued}:{firedList o.fired}"
  | .remaining ms => s!"r:{ms}"
  | .found b => s!"f:{if b then 1 else 0}"
  | .pending l => s!"p:{idList l}"

def parseAll : List String → Option (List Op)
  | [] => some []
  | w :: ws =>
    match parseOp w, parseAll ws with
    | some o, some os => some (o :: os)
    | _, _ => none

def handle (line : String) : String :=
  match parseAll (Driver.words line) with
  | none => "bad-op"
  | some ops =>
    let obs := (run init ops).2
    let toks := (ops.zip obs).map (fun p => showObs p.1 p.2)
    if toks.isEmpty then "-" else " ".intercalate toks

end Driver.C59

def main : IO UInt32 := Driver.runPure Driver.C59.handle
