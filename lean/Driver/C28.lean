import Driver.Loop
import SquidModel.Range.Model
open SquidModel SquidModel.Range

namespace Driver.C28

def specText (s : Spec) : String := toString s.offset ++ ":" ++ toString s.length

def specsText (l : List Spec) : String :=
  if l.isEmpty then "-" else ",".intercalate (l.map specText)

def faultText : Fault → String
  | .ub => "ub"
  | .assertion => "assertion"

def parseClen (s : String) : Option Int :=
  if s.length > 21 then none else
  match s.toInt? with
  | some v => if fits64 v then some v else none
  | none => none

def handle (line : String) : String :=
  match Driver.words line with
  | ["r", h, c] =>
    match Bytes.ofHex h, parseClen c with
    | some v, some clen =>
      if v.contains 0 then "reject:nul" else
      match parseHeader v with
      | .error f => faultText f
      | .ok none => "ignored"
      | .ok (some specs) =>
        match canonize specs clen with
        | .error f => faultText f
        | .ok cs => "ok " ++ specsText specs ++ " " ++ specsText cs
    | _, _ => "bad-op"
  | ["p", a, b] =>
    match Bytes.ofHex a, Bytes.ofHex b with
    | some item, some tail =>
      if item.contains 0 || tail.contains 0 then "reject:nul" else
      match parseSpec (item ++ tail) item.length with
      | .invalid => "invalid"
      | .fault f => faultText f
      | .ok s => "ok " ++ specText s
    | _, _ => "bad-op"
  | _ => "bad-op"

end Driver.C28

def main : IO UInt32 := Driver.runPure Driver.C28.handle
