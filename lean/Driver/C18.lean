import Driver.Loop
import SquidModel.Cache.Collapse
import SquidModel.Gen.CollapseFlags
open SquidModel.Cache.Collapse

namespace Driver.C18

structure Sc where
  cf : Bool
  T : String
  F : String
  n : Nat
  E : String
  leader : Option Nat
  fol : List (Nat × String)

def parseFol (s : String) : Option (List (Nat × String)) :=
  if s == "." then some []
  else (s.splitOn ",").mapM (fun x =>
    match x.toList with
    | [w, k] =>
      if w.isDigit && (w.toNat - 48) ≤ 3 && (k == 'g' || k == 'n' || k == 'd') then some (w.toNat - 48, String.singleton k) else none
    | _ => none)

def parse (line : String) : Option Sc :=
  match Driver.words line with
  | [cf, resp, leader, fol] =>
    if cf != "on" && cf != "off" then none else
    match resp.splitOn ".", parseFol fol with
    | [T, F, ns, E], some fl =>
      if !(T == "P" || T == "S" || T == "N") || !(F == "l" || F == "c" || F == "e") || !(E == "ok" || E == "cut" || E == "err") then none else
      match ns.toNat? with
      | none => none
      | some n =>
        if ns.length > 7 || n > 2000000 || (E == "cut" && (F == "e" || n < 3)) || fl.length > 24 then none else
        let ld : Option (Option Nat) := match leader with
          | "L-" => some none | "L0" => some (some 0) | "L1" => some (some 1) | "L2" => some (some 2) | _ => none
        match ld with
        | none => none
        | some l =>
          if E == "err" && (match l with | some w => w > 0 | none => false) then none
          else some { cf := cf == "on", T := T, F := F, n := n, E := E, leader := l, fol := fl }
    | _, _ => none
  | _ => none

def big : Nat := 100000000

/-- the body the rig's origin intends to send for fetch `e` -/
def fullBody (sc : Sc) (e : Nat) : List Nat := (List.range sc.n).map (· + e * 16777216)

/-- what the rig's origin does for fetch `e` -/
def origin (sc : Sc) (e : Nat) : Resp :=
  let reuse := if sc.T == "P" then Reuse.cachePositively else if sc.T == "S" then Reuse.doNotCacheButShare else Reuse.reuseNot
  let hdr : Hdr := { reuse := reuse, clen := if sc.F == "l" then some sc.n else none, removes := true, stale := false }
  let full := fullBody sc e
  if e == 0 && sc.E == "cut" then { hdr := hdr, sent := full.take (sc.n / 3), properEnd := false }
  else { hdr := hdr, sent := full, properEnd := true }

def wakeAll (s : State) : State := (List.range s.nextC).foldl (fun st c => wake st c big) s

def settle (s : State) : State := wakeAll (wakeAll (wakeAll s))

/-- fetches other than the first that are waiting at the origin, oldest first -/
def heldFetches (s : State) : List Nat :=
  (List.range s.nextE).filter (fun e => e != 0 && (match s.entries e with
    | some ent => ent.fwd && ent.pending && ent.hdr.isNone
    | none => false))

def releaseHeld (O : Nat → Resp) : Nat → State → State
  | 0, s => s
  | fuel + 1, s =>
    match heldFetches s with
    | [] => s
    | es =>
      let s1 := es.foldl (fun st e => settle (replyEnd O (replyData O (replyHeaders O st e) e big) e)) s
      releaseHeld O fuel s1

/-- clients of window `w` arrive (plain or no-cache), then the closing ones close, then held fetches are released -/
def window (O : Nat → Resp) (sc : Sc) (w : Nat) (s : State) : State :=
  let mine := sc.fol.filter (fun f => f.1 == w)
  let first := s.nextC
  let s1 := mine.foldl (fun st f => request st (f.2 == "n")) s
  let s2 := (List.range mine.length).foldl (fun st i =>
    match mine[i]? with
    | some f => if f.2 == "d" then clientGone st (first + i) false else st
    | none => st) s1
  let s3 := if sc.leader == some w then clientGone s2 0 false else s2
  releaseHeld O 200 (settle s3)

def tokenOf (sc : Sc) (s : State) (c : Nat) : String :=
  match s.clients c with
  | none => "none"
  | some cl =>
    match cl.verdict, cl.gotHdr with
    | some .gone, _ => "gone"
    | _, none => "none"
    | v, some h =>
      match s.entries cl.entry with
      | none => "none"
      | some ent =>
        let st := if ent.isErr then "5xx" else if h.reuse == Reuse.doNotCacheButShare then "404" else "200"
        let compl := if v == some Verdict.complete then "C" else "I"
        let whole := fullBody sc cl.entry
        let m := if ent.isErr then "-" else if cl.out == whole then "=" else if cl.out.length < whole.length && cl.out == whole.take cl.out.length then "<" else "!"
        st ++ ":" ++ compl ++ ":" ++ m ++ ":" ++ (if cl.isHit then "h" else "m")

def insertSorted (x : String) : List String → List String
  | [] => [x]
  | y :: ys => if x ≤ y then x :: y :: ys else y :: insertSorted x ys

def sortStrings (l : List String) : List String := l.foldl (fun acc x => insertSorted x acc) []

def simulate (sc : Sc) : String :=
  let O := origin sc
  let s0 := request (State.init sc.cf SquidModel.Gen.CollapseFlags.releasedFirst) false
  let s1 := window O sc 0 s0
  let sEnd :=
    if sc.E == "err" then
      let s2 := releaseHeld O 200 (settle (replyError s1 0))
      window O sc 3 (window O sc 2 (window O sc 1 s2))
    else
      let s2 := releaseHeld O 200 (settle (replyHeaders O s1 0))
      let s3 := window O sc 1 s2
      let s4 := releaseHeld O 200 (settle (replyData O s3 0 (sc.n / 3)))
      let s5 := window O sc 2 s4
      let s6 := releaseHeld O 200 (settle (replyEnd O (replyData O s5 0 big) 0))
      window O sc 3 s6
  let sFin := releaseHeld O 200 (settle sEnd)
  -- client numbers: 0 = leader, then the followers window by window
  let order := [0, 1, 2, 3].foldl (fun acc w => acc ++ (sc.fol.filter (fun f => f.1 == w)).map (fun _ => w)) ([] : List Nat)
  -- a client that the scenario closes is reported as `gone`, whether or not its response had already arrived
  let kinds := [0, 1, 2, 3].foldl (fun acc w => acc ++ (sc.fol.filter (fun f => f.1 == w)).map (fun f => f.2)) ([] : List String)
  let groups := [0, 1, 2, 3].map (fun w =>
    let idx := (List.range order.length).filter (fun i => order[i]? == some w)
    (w, sortStrings (idx.map (fun i => if kinds[i]? == some "d" then "gone" else tokenOf sc sFin (i + 1)))))
  let parts := groups.filterMap (fun g => if g.2.isEmpty then none else some ("w" ++ toString g.1 ++ ":" ++ ",".intercalate g.2))
  " ".intercalate (["fetches=" ++ toString sFin.nextE, "L:" ++ (if sc.leader.isSome then "gone" else tokenOf sc sFin 0)] ++ parts)

def handle (line : String) : String :=
  match parse line with
  | none => "bad-op"
  | some sc => simulate sc

end Driver.C18

def main : IO UInt32 := Driver.runPure Driver.C18.handle
