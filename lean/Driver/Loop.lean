/-
stdin/stdout line loops shared by the per-model drivers (outside the verified library;
`partial` appears only here).
-/
namespace Driver

partial def loopPure (h : IO.FS.Stream) (out : IO.FS.Stream) (f : String → String) : IO Unit := do
  let line ← h.getLine
  if line.isEmpty then return ()
  let l := if line.back == '\n' then (line.dropEnd 1).toString else line
  out.putStrLn (f l)
  loopPure h out f

partial def loopState {σ : Type} (h : IO.FS.Stream) (out : IO.FS.Stream) (f : σ → String → σ × String) (s : σ) : IO Unit := do
  let line ← h.getLine
  if line.isEmpty then return ()
  let l := if line.back == '\n' then (line.dropEnd 1).toString else line
  let (s', o) := f s l
  out.putStrLn o
  loopState h out f s'

def runPure (f : String → String) : IO UInt32 := do
  let stdin ← IO.getStdin
  let stdout ← IO.getStdout
  loopPure stdin stdout f
  stdout.flush
  return 0

def runState {σ : Type} (f : σ → String → σ × String) (s : σ) : IO UInt32 := do
  let stdin ← IO.getStdin
  let stdout ← IO.getStdout
  loopState stdin stdout f s
  stdout.flush
  return 0

def words (l : String) : List String := (l.splitOn " ").filter (· ≠ "")

end Driver
