import Driver.Loop
import SquidModel.Cache.PurgeStore
open SquidModel SquidModel.Gen SquidModel.Cache.Purge

namespace Driver.C20

def nulFree (b : Bytes) : Bool := b.all (· != 0)

/-- `HttpRequestMethod(SBuf)` with the strict (case-sensitive) comparison: a registered image or METHOD_OTHER -/
def methodId (name : String) : Nat :=
  let img := name.toUTF8.toList
  if img.isEmpty then 0 else
  match PurgeTables.methods.find? (fun r => r.1 != 0 && r.2.1 == img) with
  | some r => r.1
  | none => PurgeTables.methodOther

def optHex (s : String) : Option (Option Bytes) :=
  if s == "." then some none else (Bytes.ofHex s).map some

def mkUri (scheme : String) (host : Bytes) (port : String) (path : Bytes) : Option Uri :=
  let dp : Option Nat := if scheme == "http" then some PurgeTables.defaultPortHttp
    else if scheme == "https" then some PurgeTables.defaultPortHttps else none
  match dp with
  | none => none
  | some d =>
    let p : Option Nat := if port == "-" then some d else port.toNat?
    match p with
    | none => none
    | some pn => some { scheme := scheme.toUTF8.toList, host := host, port := some pn, defaultPort := some d, path := path, absMemo := none }

def showKeys (ks : List Key) : String :=
  if ks.isEmpty then "evict=-" else "evict=" ++ ",".intercalate (ks.map fun k => toString k.1 ++ ":" ++ Bytes.toHex k.2)

/-! ### end-to-end scenarios -/

/-- byte-level replace of every occurrence of `pat` (non-empty) by `rep`; fuel = length -/
def replaceAll (pat rep : Bytes) : Nat → Bytes → Bytes
  | 0, s => s
  | _ + 1, [] => []
  | f + 1, c :: r =>
    if pat.isPrefixOf (c :: r) then rep ++ replaceAll pat rep f ((c :: r).drop pat.length)
    else c :: replaceAll pat rep f r

def nominalPort : Nat := 8000
def nominalPortText : Bytes := "8000".toUTF8.toList
def nominalAuthority : Bytes := "127.0.0.1:8000".toUTF8.toList
def nominalSeg : Bytes := "sq0".toUTF8.toList

/-- placeholders of scenario texts: `{O}` origin authority, `{P}` origin port, `{S}` the scenario's first path segment -/
def subst (b : Bytes) : Bytes :=
  let b1 := replaceAll "{O}".toUTF8.toList nominalAuthority b.length b
  let b2 := replaceAll "{P}".toUTF8.toList nominalPortText b1.length b1
  replaceAll "{S}".toUTF8.toList nominalSeg b2.length b2

def lowerByte (c : UInt8) : UInt8 := if 65 ≤ c.toNat ∧ c.toNat ≤ 90 then c + 32 else c

def hostSpelling : String → Option Bytes
  | "0" => some "127.0.0.1".toUTF8.toList
  | "1" => some "localhost".toUTF8.toList
  | "2" => some "LOCALHOST".toUTF8.toList
  | "3" => some "LocalHost".toUTF8.toList
  | _ => none

/-- the request URL as the request parser leaves it: lower-cased host, the origin's (non-default) port, path kept -/
def scenarioUri (h : String) (suffix : Bytes) : Option Uri :=
  (hostSpelling h).map fun host =>
    { scheme := "http".toUTF8.toList, host := host.map lowerByte, port := some nominalPort,
      defaultPort := some PurgeTables.defaultPortHttp,
      path := [slash] ++ nominalSeg ++ [slash] ++ suffix, absMemo := none }

/-- opaque, injective vary mark of a request: absent header vs. its value -/
def markOf (x : Option Bytes) : Bytes :=
  match x with
  | none => [120]
  | some v => [120, 61] ++ v

def parseStep (tok : String) : Option Ev :=
  match tok.splitOn "/" with
  | [k, h, p, x, v] =>
    if k == "G" || k == "H" then
      match Bytes.ofHex p, optHex x with
      | some suffix, some xv =>
        (scenarioUri h suffix).map fun u =>
          Ev.fetch (if k == "G" then PurgeTables.methodGet else PurgeTables.methodHead) (absolute u) (markOf xv) (v == "1")
      | _, _ => none
    else none
  | ["U", m, h, p, st, l, c] =>
    match Bytes.ofHex p, st.toNat?, optHex l, optHex c with
    | some suffix, some status, some loc, some cloc =>
      (scenarioUri h suffix).map fun u => Ev.forward (methodId m) u status (loc.map subst) (cloc.map subst)
    | _, _, _, _ => none
  | _ => none

def showObs : Ev → Obs → String
  | .forward _ _ status _ _, .origin g => "o" ++ toString g ++ ":" ++ toString status
  | _, .cached g => "c" ++ toString g
  | _, .origin g => "o" ++ toString g

def handle (line : String) : String :=
  match Driver.words line with
  | ["P", m, st, scheme, h, port, p, l, c] =>
    match st.toNat?, Bytes.ofHex h, Bytes.ofHex p, optHex l, optHex c with
    | some status, some host, some path, some loc, some cloc =>
      if !(nulFree (loc.getD []) && nulFree (cloc.getD [])) then "bad-op" else
      match mkUri scheme host port path with
      | some u => showKeys (maybePurgeOthers (methodId m) status u loc cloc)
      | none => "bad-components"
    | _, _, _, _, _ => "bad-op"
  | ["H", a, b] =>
    match Bytes.ofHex a, Bytes.ofHex b with
    | some x, some y => if nulFree x && nulFree y then (if sameUrlHosts x y then "same=1" else "same=0") else "bad-op"
    | _, _ => "bad-op"
  | ["R", a] =>
    match Bytes.ofHex a with
    | some x => if nulFree x then (if urlIsRelative x then "rel=1" else "rel=0") else "bad-op"
    | none => "bad-op"
  | ["A", scheme, h, port, p, r] =>
    match Bytes.ofHex h, Bytes.ofHex p, Bytes.ofHex r with
    | some host, some path, some rel =>
      if !nulFree rel then "bad-op" else
      match mkUri scheme host port path with
      | some u => "abs=" ++ Bytes.toHex (absolute (addRelativePath (afterAbsolute u) rel))
      | none => "bad-components"
    | _, _, _ => "bad-op"
  | "S" :: toks =>
    match toks.mapM parseStep with
    | some evs =>
      let (_, obs) := run { store := [], gen := 0 } evs
      "S " ++ " ".intercalate ((evs.zip obs).map fun (e, o) => showObs e o)
    | none => "bad-op"
  | _ => "bad-op"

end Driver.C20

def main : IO UInt32 := Driver.runPure Driver.C20.handle
