import Driver.Loop
import SquidModel.Hop.Reply
open SquidModel SquidModel.Hop SquidModel.Gen.HopByHop

namespace Driver.C04

def hexList (s : String) : Option (List Bytes) :=
  if s == "." then some [] else (s.splitOn ",").mapM Bytes.ofHex

/-- `<hex name>:<hex value>,...` or `.` -/
def fields (s : String) : Option (List (Bytes × Bytes)) :=
  if s == "." then some [] else
  (s.splitOn ",").mapM fun f =>
    match f.splitOn ":" with
    | [n, v] => match Bytes.ofHex n, Bytes.ofHex v with
      | some n, some v => some (n, v)
      | _, _ => none
    | _ => none

def showHexList (l : List Bytes) : String := if l.isEmpty then "." else ",".intercalate (l.map Bytes.toHex)
def showNats (l : List Nat) : String := if l.isEmpty then "." else ",".intercalate (l.map toString)

def bs (s : String) : Bytes := s.toUTF8.toList

/-- field names whose values Squid writes itself (rendered `*` by both sides) -/
def starReq : List Bytes := [bs "host", bs "via", bs "x-forwarded-for", bs "cache-control", bs "surrogate-capability"]
def starResp : List Bytes := [bs "date", bs "via", bs "cache-status", bs "age"]

def render (star : List Bytes) (outs : List Out) : String :=
  if outs.isEmpty then "." else
  ",".intercalate (outs.map fun o =>
    let n := lowerB o.name
    Bytes.toHex n ++ ":" ++ (if star.contains n then "*" else match o.value with | some v => Bytes.toHex v | none => "*"))

def opList (list m : Bytes) : String :=
  "items=" ++ showHexList (items 44 list) ++ " member=" ++ (if isMember list m then "1" else "0")

def opRemove (hop : Bool) (fs : List (Bytes × Bytes)) : String :=
  match mkEntries false fs with
  | none => "reject:field"
  | some hdr =>
    let conn := if has hdr Id.CONNECTION then Bytes.toHex (getList hdr Id.CONNECTION) else "none"
    let kept := if hop then removeHopByHopEntries (slotsOf hdr) else removeConnectionHeaderEntries (slotsOf hdr)
    "conn=" ++ conn ++ " keep=" ++ showNats (kept.map (·.1)) ++ " names=" ++ showHexList (kept.map (·.2.name))

structure Scenario where
  variant : String
  method : String
  http11 : Bool
  req : List (Bytes × Bytes)
  status : Nat
  resp : List (Bytes × Bytes)
  opts : List Char

def reqCtx (sc : Scenario) (hdrIn : List Entry) : Ctx :=
  let base : Ctx := { traceOrOptions := sc.method == "OPTIONS" || sc.method == "TRACE", auth := has hdrIn Id.AUTHORIZATION }
  match sc.variant with
  | "v" => { base with viaOn := false }                                               -- via off
  | "o" => { base with peering := true, peerPresent := true }                          -- cache_peer originserver, no login
  | "p" => { base with peering := true, peerPresent := true, peerLogin := some .pass }  -- cache_peer originserver login=PASS
  | "x" => { base with toOrigin := false, peering := true, peerPresent := true, peerLogin := some .pass } -- cache_peer parent login=PASS
  | "y" => { base with toOrigin := false, peering := true, peerPresent := true }       -- cache_peer parent, no login
  | _ => base

def replyCtx (sc : Scenario) (hdrIn : List Entry) (hit : Bool) : RCtx :=
  { isHit := hit, chunkedReply := sc.opts.contains 'c' && sc.http11, proxyKeepalive := persistent sc.http11 hdrIn && !(sc.opts.contains 'c' && !sc.http11),
    viaOn := sc.variant != "v",
    -- request->peer_login is set by peer selection: a hit never gets there
    loginPassOrPassthru := !hit && (sc.variant == "p" || sc.variant == "x"),
    requestHasSurrogateCapability := has hdrIn Id.SURROGATE_CAPABILITY,
    prohibitsContentLength := sc.status == 204 || sc.status / 100 == 1 }

/-- the header the client sends / the origin sends, as the harness assembles them -/
def clientFields (sc : Scenario) : List (Bytes × Bytes) :=
  (bs "Host", bs "origin.test") :: sc.req ++ (if sc.opts.contains 'x' then [(bs "Expect", bs "100-continue")] else []) ++
    (if sc.opts.contains 'b' then [(bs "Content-Length", bs "3")] else []) ++
    (if sc.opts.contains 's' then [(bs "Transfer-Encoding", bs "chunked")] else [])

def originFields (sc : Scenario) : List (Bytes × Bytes) :=
  -- with 'x' the scenario's response fields travel in a `100 Continue` control message, the final response is bare
  (bs "Date", bs "now") :: (if sc.opts.contains 'x' then [] else sc.resp) ++
    (if sc.opts.contains 'c' then [(bs "Transfer-Encoding", bs "chunked")] else [(bs "Content-Length", bs "4")])

def e2e (sc : Scenario) : String :=
  if !(modelApplies && replyModelApplies) then "unknown-body" else
  match mkEntries true (clientFields sc), mkEntries false (originFields sc), mkEntries false sc.resp with
  | some hdrIn0, some hdrRep, some hdr1xx =>
    let hdrIn := interpretRange (sc.method == "GET" || sc.method == "HEAD") hdrIn0
    -- a chunked upload ('s'): Squid re-chunks it (flags.chunked_request), unless the whole body arrived before the request was
    -- forwarded: then the client side has already replaced the framing by its own Content-Length field (Http::Message::setContentLength)
    let oPlain := render starReq (buildRequest (reqCtx sc hdrIn) hdrIn)
    let o := if sc.opts.contains 's' then
        render starReq (buildRequest { reqCtx sc hdrIn with chunkedRequest := true } hdrIn) ++ "||" ++
        render starReq (buildRequest (reqCtx sc hdrIn) (hdrIn ++ [entryOf (bs "Content-Length") (bs "3")]))
      else oPlain
    let c := render starResp (buildReply (replyCtx sc hdrIn false) hdrRep)
    let x := if sc.opts.contains 'x' then " X=" ++ render starResp (buildControlMsg false hdr1xx) else ""
    let first := "O=" ++ o ++ x ++ " C=" ++ toString sc.status ++ " " ++ c
    if sc.opts.contains 'h' then
      first ++ " H=" ++ render starResp (buildReply (replyCtx sc hdrIn true) hdrRep) ++ " M=" ++ o ++ ";" ++ c
    else first
  | _, _, _ => "reject:field"

def handle (line : String) : String :=
  match Driver.words line with
  | ["L", l, m] =>
    match Bytes.ofHex l, Bytes.ofHex m with
    | some l, some m => opList l m
    | _, _ => "bad-op"
  | ["R", f] => match fields f with | some fs => opRemove true fs | none => "bad-op"
  | ["K", f] => match fields f with | some fs => opRemove false fs | none => "bad-op"
  | ["E", variant, method, ver, rq, st, rp, opts] =>
    match fields rq, fields rp, st.toNat? with
    | some rq, some rp, some st =>
      e2e { variant := variant, method := method, http11 := ver == "1.1", req := rq, status := st, resp := rp, opts := opts.toList }
    | _, _, _ => "bad-op"
  | _ => "bad-op"

end Driver.C04

def main : IO UInt32 := Driver.runPure Driver.C04.handle
