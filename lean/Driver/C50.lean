import Driver.Loop
import SquidModel.Base.CharSetOps
import SquidModel.Base.Tok
import SquidModel.Gen.CharSets
open SquidModel

namespace Driver.C50

def named (n : String) : Option CharSet :=
  match n with
  | "ALPHA" => some Gen.CharSets.ALPHA | "BIT" => some Gen.CharSets.BIT | "CR" => some Gen.CharSets.CR
  | "CTL" => some Gen.CharSets.CTL | "DIGIT" => some Gen.CharSets.DIGIT | "DQUOTE" => some Gen.CharSets.DQUOTE
  | "HEXDIG" => some Gen.CharSets.HEXDIG | "HTAB" => some Gen.CharSets.HTAB | "LF" => some Gen.CharSets.LF
  | "SP" => some Gen.CharSets.SP | "VCHAR" => some Gen.CharSets.VCHAR | "WSP" => some Gen.CharSets.WSP
  | "CTEXT" => some Gen.CharSets.CTEXT | "TCHAR" => some Gen.CharSets.TCHAR | "SPECIAL" => some Gen.CharSets.SPECIAL
  | "QDTEXT" => some Gen.CharSets.QDTEXT | "OBSTEXT" => some Gen.CharSets.OBSTEXT | "ETAGC" => some Gen.CharSets.ETAGC
  | "TOKEN68C" => some Gen.CharSets.TOKEN68C | "RFC3986_UNRESERVED" => some Gen.CharSets.RFC3986_UNRESERVED
  | _ => none

def pairs : Bytes → Option (List (UInt8 × UInt8))
  | [] => some []
  | [_] => none
  | a :: b :: r => (pairs r).map ((a, b) :: ·)

def parseSet (d : String) : Option CharSet :=
  let neg := d.startsWith "!"
  let d := if neg then (d.drop 1).toString else d
  let kind := d.take 1 |>.toString
  let arg := (d.drop 1).toString
  let base : Option CharSet :=
    if kind == "n" then named arg
    else match Bytes.ofHex arg with
      | none => none
      | some bytes =>
        if kind == "m" then some (CharSet.empty.addAll bytes)
        else if kind == "s" then some (CharSet.ofCString bytes)
        else if kind == "r" || kind == "i" then (pairs bytes).map CharSet.ofRanges
        else none
  base.map fun s => if neg then s.complement else s

def showSet (s : CharSet) : String := Bytes.toHex s.members

def handleSet : List String → String
  | [op, a] =>
    match parseSet a with
    | some A => if op == "compl" then showSet A ++ " " ++ showSet A.complement else "bad-op"
    | none => "bad-op"
  | [op, a, b] =>
    match parseSet a with
    | none => "bad-op"
    | some A =>
      if op == "compl" then showSet A ++ " " ++ showSet A.complement
      else if op == "add" || op == "remove" || op == "addrange" then
        match Bytes.ofHex b with
        | none => "bad-op"
        | some bytes =>
          if op == "add" then showSet A ++ " " ++ showSet (A.addAll bytes)
          else if op == "remove" then showSet A ++ " " ++ showSet (bytes.foldl CharSet.remove A)
          else match bytes with
            | [lo, hi] => showSet A ++ " " ++ showSet (A.addRange lo hi)
            | _ => "bad-op"
      else match parseSet b with
        | none => "bad-op"
        | some B =>
          let ab := showSet A ++ " " ++ showSet B ++ " "
          if op == "union" || op == "addassign" then ab ++ showSet (A + B)
          else if op == "diff" || op == "subassign" then ab ++ showSet (A - B)
          else if op == "eq" then ab ++ (if A.beq B then "1" else "0")
          else if op == "ne" then ab ++ (if A.beq B then "0" else "1")
          else "bad-op"
  | ["chain", a, b, c] =>
    match parseSet a, parseSet b, parseSet c with
    | some A, some B, some C => showSet A ++ " " ++ showSet B ++ " " ++ showSet C ++ " " ++ showSet ((A + B) - C).complement
    | _, _, _ => "bad-op"
  | _ => "bad-op"

def st (t : Tok) : String := s!"/{Bytes.toHex t.buf}/{t.parsed}"

/-- one op → (output, new tokenizer, thrown?) ; `none` = malformed op -/
def step (t : Tok) (op : String) : Option (String × Tok × Bool) :=
  let f := op.splitOn ":"
  let tf (r : Option Tok) : Option (String × Tok × Bool) :=
    match r with
    | some t' => some ("T" ++ st t', t', false)
    | none => some ("F" ++ st t, t, false)
  let tok (r : Option (Bytes × Tok)) : Option (String × Tok × Bool) :=
    match r with
    | some (b, t') => some ("T" ++ Bytes.toHex b ++ st t', t', false)
    | none => some ("F" ++ st t, t, false)
  match f with
  | ["prefix", s, l] =>
    match parseSet s, l.toNat? with
    | some cs, some lim => if lim > 4294967295 then none else tok (t.prefixOf cs lim)
    | _, _ => none
  | ["suffix", s, l] =>
    match parseSet s, l.toNat? with
    | some cs, some lim => if lim > 4294967295 then none else tok (t.suffixOf cs lim)
    | _, _ => none
  | ["prefixthrow", s, l] =>
    match parseSet s, l.toNat? with
    | some cs, some lim =>
      if lim > 4294967295 then none else
      match t.prefixThrow cs lim with
      | .ok (b, t') => some ("T" ++ Bytes.toHex b ++ st t', t', false)
      | .error .insufficient => some ("throw:insufficient", t, true)
      | .error .parse => some ("throw:parse", t, true)
    | _, _ => none
  | ["token", s] => (parseSet s).bind fun cs => tok (t.token cs)
  | ["skipall", s] => (parseSet s).bind fun cs => let r := t.skipAll cs; some (s!"N{r.1}" ++ st r.2, r.2, false)
  | ["skipalltrail", s] => (parseSet s).bind fun cs => let r := t.skipAllTrailing cs; some (s!"N{r.1}" ++ st r.2, r.2, false)
  | ["skipone", s] => (parseSet s).bind fun cs => tf (t.skipOne cs)
  | ["skiponetrail", s] => (parseSet s).bind fun cs => tf (t.skipOneTrailing cs)
  | ["skip", h] => (Bytes.ofHex h).bind fun b => tf (t.skip b)
  | ["skipsuffix", h] => (Bytes.ofHex h).bind fun b => tf (t.skipSuffix b)
  | ["skipchar", h] =>
    match Bytes.ofHex h with
    | some [c] => tf (t.skipChar c)
    | _ => none
  | ["skipreq", h] =>
    match Bytes.ofHex h with
    | some b =>
      match t.skipRequired b with
      | .ok t' => some ("T" ++ st t', t', false)
      | .error .insufficient => some ("throw:insufficient", t, true)
      | .error .parse => some ("throw:parse", t, true)
    | none => none
  | _ => none

def runOps : Tok → List String → List String → Option (List String)
  | _, [], acc => some acc.reverse
  | t, op :: rest, acc =>
    match step t op with
    | none => none
    | some (o, t', thrown) => if thrown then some (o :: acc).reverse else runOps t' rest (o :: acc)

def handle (line : String) : String :=
  match Driver.words line with
  | "cs" :: rest => handleSet rest
  | "tk" :: h :: ops =>
    match Bytes.ofHex h with
    | none => "bad-op"
    | some buf =>
      match runOps (Tok.ofBytes buf) ops [] with
      | none => "bad-op"
      | some [] => "-"
      | some outs => " ".intercalate outs
  | _ => "bad-op"

end Driver.C50

def main : IO UInt32 := Driver.runPure Driver.C50.handle
