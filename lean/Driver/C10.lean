import Driver.Loop
import SquidModel.Cache.StoreScenario
open SquidModel.Cache.StoreScenario

namespace Driver.C10

def nats (s : String) : Option (List Nat) := (s.splitOn ".").mapM String.toNat?

def parseOp (nk : Nat) (s : String) : Option Sop :=
  match s.toList with
  | 'U' :: rest =>
    match nats (String.ofList rest) with
    | some [k, n, _, hv, m, j] => if k < nk && n ≤ 500000 && hv ≤ 3 && m ≤ 3 && j ≤ 3 && !(m == 0 && j != 0) then some (.update k n m j) else none
    | _ => none
  | 'R' :: rest =>
    match nats (String.ofList rest) with
    | some [k, s] => if k < nk && s ≤ 1 then some (.read k) else none
    | _ => none
  | 'V' :: rest => match (String.ofList rest).toNat? with   -- a reader that makes Squid revalidate (304 + header update): still a reader
    | some k => if k < nk then some (.read k) else none
    | none => none
  | 'E' :: rest => match (String.ofList rest).toNat? with
    | some c => if c ≤ 60 then some (.fill c) else none
    | none => none
  | 'P' :: rest => match (String.ofList rest).toNat? with
    | some k => if k < nk then some (.purge k) else none
    | none => none
  | _ => none

def stores : List String := ["mem", "shm", "ufs", "aufs", "diskd", "rock"]

def handle (line : String) : String :=
  match Driver.words line with
  | [store, nk, ops] =>
    match nk.toNat? with
    | some nk =>
      if !(stores.contains store) || nk < 1 || nk > 6 then "bad-op" else
      match (ops.splitOn ",").mapM (parseOp nk) with
      | some l => if l.isEmpty || l.length > 24 then "bad-op" else ",".intercalate (runScenario l)
      | none => "bad-op"
    | none => "bad-op"
  | _ => "bad-op"

end Driver.C10

def main : IO UInt32 := Driver.runPure Driver.C10.handle
