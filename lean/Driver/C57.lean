import Driver.Loop
import SquidModel.Rock.Config
open SquidModel SquidModel.Rock

/-!
Line driver for the Rock::Rebuild model: same line protocol and same canonical dump as harness/c57.cc.
-/
namespace Driver.C57

def parseNat (s : String) (maxDigits : Nat := 20) : Option Nat :=
  if s.isEmpty || s.length > maxDigits then none
  else if s.toList.all Char.isDigit then some (s.toList.foldl (fun a c => a * 10 + (c.toNat - 48)) 0) else none

def parseU (s : String) (limit : Nat) : Option Nat :=
  match parseNat s with
  | some v => if v < limit then some v else none
  | none => none

def parseI32 (s : String) : Option Int :=
  let neg := s.startsWith "-"
  let body := if neg then (s.drop 1).toString else s
  match parseNat body with
  | some v =>
    let i : Int := if neg then -(v : Int) else (v : Int)
    if -2147483648 ≤ i ∧ i ≤ 2147483647 then some i else none
  | none => none

open SquidModel.Gen.RockRebuild in
/-- mirrors buildMeta() of the harness: `none` = the harness answers bad-case -/
def parseMeta (tok : String) (space : Nat) : Option Meta :=
  if tok == "-" then some .unparsable
  else if tok == "Z" then some .zeroed
  else if tok == "B" || tok == "G" || tok == "F" then some .unparsable
  else
    let okLen (base hdrLen : Nat) : Bool :=
      (hdrLen == base || hdrLen ≥ base + metaFieldHeader + 1) && hdrLen ≤ space && hdrLen ≤ 4000
    match tok.splitOn "." with
    | ["K", a, b, c, d, e] =>
      match parseU a two64, parseU b two64, parseU c two64, parseU d 65536, parseU e two64 with
      | some mk0, some mk1, some sfs, some flags, some hdrLen =>
        if okLen metaBaseKeyed hdrLen then some (.ok (some (mk0, mk1)) sfs flags hdrLen) else none
      | _, _, _, _, _ => none
    | ["N", c, d, e] =>
      match parseU c two64, parseU d 65536, parseU e two64 with
      | some sfs, some flags, some hdrLen =>
        if okLen metaBaseKeyless hdrLen then some (.ok none sfs flags hdrLen) else none
      | _, _, _ => none
    | _ => none

def zeroCell : RawSlot :=
  .cell { key := (0, 0), entrySize := 0, payloadSize := 0, version := 0, firstSlot := 0, nextSlot := 0 } .zeroed

open SquidModel.Gen.RockRebuild in
def parseSlot (tok : String) (slotSize : Nat) : Option RawSlot :=
  if tok == "z" then some zeroCell
  else if tok == "t" then some .truncated
  else
    match tok.splitOn ":" with
    | ["c", k0, k1, esz, psz, ver, first, next, m] =>
      match parseU k0 two64, parseU k1 two64, parseU esz two64, parseU psz 4294967296, parseU ver 4294967296,
            parseI32 first, parseI32 next, parseMeta m (slotSize - cellHeaderSize) with
      | some k0, some k1, some esz, some psz, some ver, some first, some next, some m =>
        some (.cell { key := (k0, k1), entrySize := esz, payloadSize := psz, version := ver, firstSlot := first, nextSlot := next } m)
      | _, _, _, _, _, _, _, _ => none
    | _ => none

def parseSlots (slotSize : Nat) : List String → Bool → Option (List RawSlot)
  | [], _ => some []
  | t :: rest, truncated =>
    match parseSlot t slotSize with
    | none => none
    | some r =>
      let isT := r == .truncated
      if truncated && !isT then none
      else match parseSlots slotSize rest (truncated || isT) with
        | some l => some (r :: l)
        | none => none

def stateChar : LState → Char
  | .empty => 'E' | .loading => 'L' | .loaded => 'D' | .corrupted => 'C' | .ignored => 'I'

def insertSorted (x : Int) : List Int → List Int
  | [] => [x]
  | y :: ys => if x ≤ y then x :: y :: ys else y :: insertSorted x ys

def sortInts (l : List Int) : List Int := l.foldl (fun acc x => insertSorted x acc) []

def joinOr (l : List String) (dash : String := "-") : String :=
  if l.isEmpty then dash else ",".intercalate l

def flag (b : Bool) (c : Char) : Char := if b then c else '-'

def dump (g : Geo) (st : St) : String :=
  let ents := List.range g.entries
  let slots := (List.range g.slots).map (fun (n : Nat) => (n : Int))
  let anchors := ents.filterMap fun f =>
    let a := st.an f
    let rew := !a.writing && a.key.1 == 0 && a.key.2 == 0 && a.start == 0 && a.sfs == 0 && !a.waiting
    if rew then none else
      some (toString f ++ ":" ++ String.ofList [flag a.writing 'w', '-', flag a.waiting 'q', flag a.validated 'v'] ++ ":" ++
            toString a.key.1 ++ "." ++ toString a.key.2 ++ ":" ++ toString a.start ++ ":" ++ toString a.sfs)
  let slices := slots.filterMap fun s =>
    let x := st.sl s
    if x.size == 0 && x.next == -1 then none else some (toString s ++ ":" ++ toString x.size ++ ":" ++ toString x.next)
  let flags := slots.map fun s =>
    let x := st.ls s
    toString x.more ++ "/" ++ String.ofList [flag x.mapped 'm', flag x.finalized 'f', flag x.freed 'z']
  let c := st.cnt
  "ok n=" ++ toString st.entryCount ++
  " st=" ++ String.ofList (ents.map fun f => stateChar (st.le f).state) ++
  " A=" ++ joinOr anchors ++ " S=" ++ joinOr slices ++ " L=" ++ ",".intercalate flags ++
  " F=" ++ joinOr ((sortInts st.free).map toString) ++
  " C=" ++ ",".intercalate ([c.scan, c.invalid, c.dup, c.clash, c.obj, c.badflags, c.validations].map toString)

def crashTag : Crash → String
  | .entrySizeAllOnes => "crash:assert:entrySize-all-ones"
  | .sfsAllOnes => "crash:assert:swap_file_sz-all-ones"
  | .pushedTwice => "crash:assert:free-slot-pushed-twice"
  | .slotFreed => "crash:assert:slot-freed"
  | .slotMapped => "crash:assert:slot-mapped"
  | .slotChained => "crash:assert:slot-chained"
  | .sizelessChain => "crash:assert:sizeless-chain"
  | .notWriting => "crash:assert:anchor-not-writing"
  | .unprocessedSlot => "crash:must:unprocessed-slot"
  | .badSlotId => "crash:model:bad-slot-id"
  | .badFileNo => "crash:model:bad-fileno"
  | .anchorNotEmpty => "crash:model:anchor-not-empty"
  | .outOfFuel => "crash:model:out-of-fuel"

def handle (line : String) : String :=
  match Driver.words line with
  | "r" :: n :: slotSize :: s :: slots =>
    match parseNat n 6, parseNat slotSize 6, parseNat s 1 with
    | some n, some slotSize, some s =>
      if n < 1 || n > 4096 || slotSize < 128 || slotSize > 65536 || s > 1 || slots.length != n then "bad-case"
      else match parseSlots slotSize slots false with
        | none => "bad-case"
        | some img =>
          let cfg := currentCfg slotSize (s == 1)
          match rebuild cfg img with
          | .ok st => dump (cfg.geo img.length) st
          | .error e => crashTag e
    | _, _, _ => "bad-case"
  | _ => "bad-case"

end Driver.C57

def main : IO UInt32 := Driver.runPure Driver.C57.handle
