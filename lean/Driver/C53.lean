import Driver.Loop
import SquidModel.Ipc.PageStackExec
open SquidModel.Ipc.PageStack

namespace Driver.C53

def parseTok (s : String) : Option Tok :=
  if s == "P" then some .P
  else if s.startsWith "U" && s.length ≥ 2 && s.length ≤ 6 then ((s.drop 1).toString.toNat?).map Tok.U
  else none

def parseOps (s : String) : Option (List Tok) :=
  if s == "-" then some [] else (s.splitOn ",").mapM parseTok

def parseSched (s : String) : Option (List Nat) :=
  if s == "-" then some []
  else (s.splitOn ",").mapM fun tk => if tk.length ≥ 1 && tk.length ≤ 3 then tk.toNat? else none

def handle (line : String) : String :=
  match Driver.words line with
  | [cap, mode, n, ops, sched] =>
    match cap.toNat?, n.toNat?, (ops.splitOn ";").mapM parseOps, parseSched sched with
    | some c, some k, some per, some sc =>
      if per.length ≠ k ∨ k < 1 ∨ k > 8 ∨ c > 4096 ∨ (mode ≠ "F" ∧ mode ≠ "E") then "bad-op"
      else runScenario c (mode == "F") per sc
    | _, _, _, _ => "bad-op"
  | _ => "bad-op"

end Driver.C53

def main : IO UInt32 := Driver.runPure Driver.C53.handle
