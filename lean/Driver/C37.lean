import Driver.Loop
import SquidModel.Dns.Pack
open SquidModel SquidModel.Dns SquidModel.Gen.DnsLimits

namespace Driver.C37

def showHeader (h : Header) : String :=
  s!"id={h.id} qr={h.qr} op={h.opcode} aa={h.aa} tc={h.tc} rd={h.rd} ra={h.ra} rcode={h.rcode} qd={h.qdcount} an={h.ancount} ns={h.nscount} ar={h.arcount}"

def showRR (r : RR) : String :=
  s!"{Bytes.toHex r.name}/{r.type}/{r.cls}/{r.ttl}/{r.rdlength}/{Bytes.toHex r.rdata}"

def showOut : Out → String
  | .ret code none => s!"rc={code} null"
  | .ret code (some m) =>
    let rrs := if m.answers.isEmpty then "-" else ",".intercalate (m.answers.map showRR)
    s!"rc={code} {showHeader m.hdr} q={Bytes.toHex m.query.name}/{m.query.qtype}/{m.query.qclass} rr={rrs}"
  | .oob => "model:oob"
  | .abort => "abort"
  | .fuel => "model:fuel"

def showName : R NameRes → String
  | .ok r => s!"ok off={r.off} rdl={r.rdl % 65536} out={Bytes.toHex r.out}"
  | .err => "err"
  | .oob => "model:oob"
  | .abort => "abort"
  | .fuel => "model:fuel"

def showBuilt (sz : Nat) : R Built → String
  | .ok b =>
    let pre := if b.ub then "ub:memcpy-null@rfc1035RRPack " else ""
    s!"{pre}len={b.pkt.length} pkt={Bytes.toHex b.pkt} query={Bytes.toHex b.qname}/{b.qtype}/{b.qclass} dec: {showOut (messageUnpack b.pkt)}"
  | .err => "err"
  | .oob => s!"model:oob sz={sz}"
  | .abort => "abort"
  | .fuel => "model:fuel"

/-- `q <api> <qid> <edns> <sz> <arghex>` -/
def handleQuery (api : String) (qid : Nat) (edns : Int) (sz : Nat) (arg : Bytes) : String :=
  if sz > 1048576 ∨ qid > 65535 then "bad-op" else
  let isAddr4 := api == "p35" || api == "p496"
  if isAddr4 then
    match arg with
    | [a, b, c, d] => showBuilt sz (buildQuery sz (rev4 a.toNat b.toNat c.toNat d.toNat) qid typePTR edns)
    | _ => "bad-op"
  else if api == "p696" then
    if arg.length = 16 then showBuilt sz (buildQuery sz (rev6 arg) qid typePTR edns) else "bad-op"
  else if arg.contains 0 then "reject:nul"
  else if api == "a35" || api == "a96" then showBuilt sz (buildQuery sz arg qid typeA edns)
  else if api == "aaaa96" then showBuilt sz (buildQuery sz arg qid typeAAAA edns)
  else if api.startsWith "host96:" then
    match (api.drop 7).toString.toNat? with
    | some qt => if qt ≤ 1000000 then showBuilt sz (buildQuery sz arg qid qt edns) else "bad-op"
    | none => "bad-op"
  else "bad-op"

def handleHeader (v : List Nat) : String :=
  match v with
  | [id, qr, op, aa, tc, rd, ra, rcode, qd, an, ns, ar] =>
    -- the harness assigns the numbers to the C members: bit-fields keep their low bits
    let h : Header := { id := id, qr := qr % 2, opcode := op % 16, aa := aa % 2, tc := tc % 2, rd := rd % 2, ra := ra % 2,
                        rcode := rcode % 16, qdcount := qd, ancount := an, nscount := ns, arcount := ar }
    match headerPack 12 h with
    | .ok b =>
      match headerUnpack b with
      | .ok g => s!"pkt={Bytes.toHex b} {showHeader g}"
      | _ => s!"pkt={Bytes.toHex b} unpack-error"
    | _ => "abort"
  | _ => "bad-op"

def allSome : List (Option Nat) → Option (List Nat)
  | [] => some []
  | none :: _ => none
  | some x :: r => (allSome r).map (x :: ·)

def handle (line : String) : String :=
  match Driver.words line with
  | "m" :: h :: _ =>
    match Bytes.ofHex h with
    | some b => showOut (messageUnpack b)
    | none => "bad-op"
  | ["n", ns, off, h] =>
    match ns.toNat?, off.toNat?, Bytes.ofHex h with
    | some ns, some off, some b =>
      if ns ≥ 1 ∧ ns ≤ 100000 ∧ off ≤ 1000000 then showName (nameUnpack b off ns) else "bad-op"
    | _, _, _ => "bad-op"
  | ["q", api, qid, edns, sz, h] =>
    match qid.toNat?, edns.toInt?, sz.toNat?, Bytes.ofHex h with
    | some qid, some edns, some sz, some arg => handleQuery api qid edns sz arg
    | _, _, _, _ => "bad-op"
  | "h" :: rest =>
    if rest.length = 12 then
      match allSome (rest.map String.toNat?) with
      | some v => if v.all (· ≤ 65535) then handleHeader v else "bad-op"
      | none => "bad-op"
    else "bad-op"
  | _ => "bad-op"

end Driver.C37

def main : IO UInt32 := Driver.runPure Driver.C37.handle
