import Driver.Loop
import SquidModel.MemHdr.Model
open SquidModel SquidModel.MemHdr

namespace Driver.C49

def parseNat (s : String) : Option Nat :=
  if s.isEmpty || s.length > 18 then none
  else if s.toList.all Char.isDigit then some (s.toList.foldl (fun a c => a * 10 + (c.toNat - 48)) 0) else none

def maxLen : Nat := 1048576

/-- the generator stream of the harness: x(i+1) = (x(i) * 1103515245 + 12345) mod 2^31, byte = (x(i+1) / 65536) mod 256 -/
def genBytes : Nat → Nat → List UInt8 → List UInt8
  | 0, _, acc => acc.reverse
  | n + 1, x, acc =>
    let x' := (x * 1103515245 + 12345) % 2147483648
    genBytes n x' (UInt8.ofNat ((x' / 65536) % 256) :: acc)

abbrev Call := Op

def parseCall (tok : String) : Option Call :=
  match tok.splitOn ":" with
  | ["w", off, d] =>
    match parseNat off, d.toList with
    | some off, 'h' :: rest =>
      match Bytes.ofHex (String.ofList rest) with
      | some b => if b.length ≤ maxLen ∧ rest.all (fun c => c.isDigit || ('a' ≤ c && c ≤ 'f') || c == '-') then some (.write off b) else none
      | none => none
    | some off, 'g' :: rest =>
      match (String.ofList rest).splitOn "," with
      | [l, sd] =>
        match parseNat l, parseNat sd with
        | some l, some sd => if l ≤ maxLen then some (.write off (genBytes l (sd % 2147483648) [])) else none
        | _, _ => none
      | _ => none
    | _, _ => none
  | ["r", off, len] =>
    match parseNat off, parseNat len with
    | some off, some len => if 1 ≤ len ∧ len ≤ maxLen then some (.read off len) else none
    | _, _ => none
  | ["c", s, e] =>
    match parseNat s, parseNat e with
    | some s, some e => some (.contig s e)
    | _, _ => none
  | ["f", off] => (parseNat off).map .free
  | ["b", loc] => (parseNat loc).map .block
  | ["p", k] => (parseNat k).map .nodeGet
  | ["q", k] => (parseNat k).map .writeComplete
  | ["z"] => some .freeContent
  | _ => none

def parseCalls : List String → Option (List Call)
  | [] => some []
  | t :: r =>
    match parseCall t, parseCalls r with
    | some c, some cs => some (c :: cs)
    | _, _ => none

def fnv (b : List UInt8) : String :=
  let h := b.foldl (fun h c => ((h ^^^ c.toNat) * 1099511628211) % 18446744073709551616) 14695981039346656037
  let digits := (List.range 16).map fun i => Bytes.hexDigit ((h / 16 ^ (15 - i)) % 16)
  "#" ++ String.ofList digits

def showBytes (b : List UInt8) : String :=
  toString b.length ++ "=" ++ (if b.length > 48 then fnv b else Bytes.toHex b)

def showShape : Tree MNode → String
  | .nil => "."
  | .node l n r => "(" ++ showShape l ++ " " ++ toString n.offset ++ " " ++ showShape r ++ ")"

def showNode (n : MNode) : String :=
  toString n.offset ++ "+" ++ toString n.data.length ++ (if n.pending then "*" else "")

def showFault : Fault → String
  | .assertWriteLocation => "abort:assert-write-location"
  | .assertCanAccept => "abort:assert-can-accept"
  | .assertWrote => "abort:assert-wrote"
  | .assertCopyRange => "abort:assert-copy-range"
  | .assertCopyEmpty => "abort:assert-copy-empty"
  | .assertCopyNode => "abort:assert-copy-node"
  | .assertEndOffset => "abort:assert-end-offset"
  | .noRoot => "abort:no-root"
  | .diverged => "abort:diverged"

def snapshot (res : String) (m : MemHdr) : Except Fault String :=
  match m.endOffset with
  | .error f => .error f
  | .ok hi =>
    let nodes := m.nodes.head.inorder
    .ok (res ++ "/" ++ toString m.lowestOffset ++ "/" ++ toString hi ++ "/" ++ toString m.nodes.elements ++ "/" ++
      (if nodes.isEmpty then "-" else ",".intercalate (nodes.map showNode)) ++ ";" ++ showShape m.nodes.head)

def showRes : Res → String
  | .wrote => "1"
  | .fatal => "fatal"
  | .bytes b => showBytes b
  | .empty => "empty"
  | .flag b => if b then "1" else "0"
  | .lowest n => toString n
  | .block none => "none"
  | .block (some (a, n)) => toString a ++ "+" ++ toString n
  | .pend .done => "1"
  | .pend .refused => "refused"
  | .pend .noSuchNode => "none"
  | .unit => "-"

def stepCall (m : MemHdr) (c : Call) : Except Fault (MemHdr × String) :=
  match step m c with
  | .error f => .error f
  | .ok (m', res) =>
    -- the harness distinguishes the two refusals by name
    let s := match c, res with
      | .nodeGet _, .pend .refused => "busy"
      | .writeComplete _, .pend .refused => "idle"
      | _, r => showRes r
    .ok (m', s)

def runShow : MemHdr → List Call → List String → String
  | _, [], acc => " ".intercalate acc.reverse
  | m, c :: rest, acc =>
    match stepCall m c with
    | .error f => showFault f
    | .ok (m', res) =>
      match snapshot res m' with
      | .error f => showFault f
      | .ok s => runShow m' rest (s :: acc)

def handle (line : String) : String :=
  match parseCalls (Driver.words line) with
  | none => "bad-op"
  | some calls =>
    match snapshot "-" MemHdr.init with
    | .error f => showFault f
    | .ok s => runShow MemHdr.init calls [s]

end Driver.C49

def main : IO UInt32 := Driver.runPure Driver.C49.handle
