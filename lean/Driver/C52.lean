import Driver.Loop
import SquidModel.Math.Platform
open SquidModel SquidModel.Math

/-
Line driver of the C52 model (same protocol as harness/c52.cc). The width of `int` and the named types come from
the compiler dump (SquidModel.Gen.MathTypes).
-/
namespace Driver.C52

def allNames : List String := ["i8", "u8", "i16", "u16", "i32", "u32", "i64", "u64", "ch", "ll", "ull"]
def fixedNames : List String := allNames.take 8
def f4Names : List String := ["i32", "u32", "i64", "u64"]
def smallNames : List String := allNames.take 4

def ib : Nat := platformIntBits

def ty (names : List String) (n : String) : Option CType :=
  if names.contains n then typeNamed n else none

/-- decimal with at most 30 digits, like the harness -/
def num (s : String) : Option Int :=
  let body := if s.startsWith "-" then (s.drop 1).toString else s
  if body.isEmpty || body.length > 30 || !body.all Char.isDigit then none else s.toInt?

def showR (r : R (Option Int)) : String :=
  match r with
  | .ub => "ub"
  | .ok none => "none"
  | .ok (some v) => toString v

/-- typed arguments "<type> <value>" ... -/
def typedArgs (names : List String) : List String → Option (List (CType × Int))
  | [] => some []
  | [_] => none
  | t :: v :: rest =>
    match ty names t, num v, typedArgs names rest with
    | some T, some x, some r => some ((T, x) :: r)
    | _, _, _ => none

def allInRange (args : List (CType × Int)) : Bool := args.all fun (T, v) => decide (T.inRange v)

/-! sweeps -/

structure Acc where
  n : Nat := 0
  k : Nat := 0
  h : UInt64 := 1469598103934665603

def Acc.bit (a : Acc) (b : Bool) : Acc :=
  { a with h := (a.h ^^^ (if b then 1 else 2)) * 1099511628211 }
def Acc.val (a : Acc) (v : Int) : Acc :=
  { a with h := (a.h ^^^ UInt64.ofNat (v % 18446744073709551616).toNat) * 1099511628211 }

def Acc.less (a : Acc) (r : Bool) : Acc :=
  let a := { a with n := a.n + 1, k := a.k + (if r then 1 else 0) }
  a.bit r

def Acc.sum (a : Acc) (r : R (Option Int)) : Acc :=
  match r with
  | .ok (some v) => ({ a with n := a.n + 1, k := a.k + 1 }.bit true).val v
  | .ok none => { a with n := a.n + 1 }.bit false
  | .ub => { a with n := a.n + 1, h := 0 }   -- cannot match any implementation digest

def hex16 (x : UInt64) : String :=
  let ds := (Nat.toDigits 16 x.toNat)
  String.ofList (List.replicate (16 - ds.length) '0' ++ ds)

def Acc.str (a : Acc) : String := s!"n={a.n} k={a.k} h={hex16 a.h} bad=0"

/-- `for v in [lo..lo+cnt)`: structural loop -/
def loop {α : Type} (cnt : Nat) (v : Int) (acc : α) (f : α → Int → α) : α :=
  match cnt with
  | 0 => acc
  | c + 1 => loop c (v + 1) (f acc v) f

def span (lo hi : Int) : Nat := (hi - lo + 1).toNat

/-- grids larger than this are left to the native sweep of the harness (with its own wide-integer reference) -/
def modelSweepLimit : Nat := 300000

def rangeOk (T : CType) (lo hi : Int) : Bool := decide (lo ≤ hi) && decide (T.inRange lo) && decide (T.inRange hi)

def handle (line : String) : String :=
  match Driver.words line with
  | ["L", A, B, a, b] =>
    match ty allNames A, ty allNames B, num a, num b with
    | some A, some B, some a, some b =>
      if !(allInRange [(A, a), (B, b)]) then "reject:range"
      else if less ib A B a b then "1" else "0"
    | _, _, _, _ => "bad-op"
  | "I" :: rest =>
    let names := if rest.length == 4 then allNames else fixedNames
    if rest.length != 4 && rest.length != 6 then "bad-op" else
    match typedArgs names rest with
    | some ((S, s) :: args) =>
      if !(allInRange ((S, s) :: args)) then "reject:range" else showR (increaseSum ib S s args)
    | _ => "bad-op"
  | "N" :: S :: rest =>
    let names := if rest.length == 2 then allNames else fixedNames
    if rest.length != 2 && rest.length != 4 && rest.length != 6 then "bad-op" else
    match ty names S, typedArgs (if rest.length == 6 then f4Names else names) rest with
    | some S, some args =>
      if !(allInRange args) then "reject:range" else showR (naturalSum ib S args)
    | _, _ => "bad-op"
  | "M" :: S :: v0 :: rest =>
    let names := if rest.length == 2 then allNames else fixedNames
    if rest.length != 2 && rest.length != 4 then "bad-op" else
    match ty names S, num v0, typedArgs (if rest.length == 4 then f4Names else names) rest with
    | some S, some v0, some args =>
      if !(allInRange ((S, v0) :: args)) then "reject:range"
      else match setToNaturalSumOrMax ib S args with
        | .ub => "ub"
        | .ok v => s!"{v} {v}"
    | _, _, _ => "bad-op"
  | ["C", Rt, S, s] =>
    match ty allNames Rt, ty allNames S, num s with
    | some Rt, some S, some s =>
      if !(allInRange [(S, s)]) then "reject:range"
      else match naturalCast ib Rt S s with
        | .ub => "ub"
        | .ok .throws => "throws"
        | .ok (.value v) => toString v
    | _, _, _ => "bad-op"
  | [op, A, B, alo, ahi, blo, bhi] =>
    if op != "XL" && op != "XI" then "bad-op" else
    match ty fixedNames A, ty fixedNames B, num alo, num ahi, num blo, num bhi with
    | some A, some B, some alo, some ahi, some blo, some bhi =>
      if !(rangeOk A alo ahi && rangeOk B blo bhi) then "reject:range"
      else if span alo ahi * span blo bhi > modelSweepLimit then "skip"
      else if op == "XL" then
        (loop (span alo ahi) alo ({} : Acc) fun acc a =>
          loop (span blo bhi) blo acc fun acc b => acc.less (less ib A B a b)).str
      else
        (loop (span alo ahi) alo ({} : Acc) fun acc a =>
          loop (span blo bhi) blo acc fun acc b => acc.sum (increaseSum ib A a [(B, b)])).str
    | _, _, _, _, _, _ => "bad-op"
  | ["XJ", A, B, C, alo, ahi, blo, bhi, clo, chi] =>
    match ty smallNames A, ty smallNames B, ty smallNames C, num alo, num ahi, num blo, num bhi, num clo, num chi with
    | some A, some B, some C, some alo, some ahi, some blo, some bhi, some clo, some chi =>
      if !(rangeOk A alo ahi && rangeOk B blo bhi && rangeOk C clo chi) then "reject:range"
      else if span alo ahi * span blo bhi * span clo chi > modelSweepLimit then "skip"
      else
        (loop (span alo ahi) alo ({} : Acc) fun acc a =>
          loop (span blo bhi) blo acc fun acc b =>
            loop (span clo chi) clo acc fun acc c => acc.sum (increaseSum ib A a [(B, b), (C, c)])).str
    | _, _, _, _, _, _, _, _, _ => "bad-op"
  | _ => "bad-op"

end Driver.C52

def main : IO UInt32 := Driver.runPure Driver.C52.handle
