import Driver.Loop
import SquidModel.Icap.Outcome
open SquidModel SquidModel.Icap SquidModel.Gen

namespace Driver.C60

/-- value of the positional token `key=value` -/
def val (tok key : String) : Option String :=
  if tok.startsWith (key ++ "=") then some (tok.drop (key.length + 1)).toString else none

def numAfter (s : String) (n : Nat) : Option Nat := ((s.drop n).toString).toNat?

/-- a synthetic body of the given length (the decisions never look at body bytes) -/
def body (n : Nat) (salt : Nat) : Bytes := (List.range n).map fun i => UInt8.ofNat ((i * 7 + salt) % 251)

/-- the next thing the environment does when everybody keeps going: finish a write, deliver available virgin bytes
(up to `avail`), end the production, drain the adapted pipe -/
def tick (slowWriter : Bool) (avail : Nat) (s : St) : Option Ev :=
  if s.stopped then none
  else if s.writerBusy && s.haveConn && !(slowWriter && s.writing != .headers) then some .wrote
  else if s.put < avail && s.potentialSpace > 0 && !s.prodEnded then some (.produce (avail - s.put))
  else if s.put == s.total && avail == s.total && !s.prodEnded then some .prodEnd
  else if s.outSt == .isOpen && s.outTaken < s.out.length then some (.space (s.out.length - s.outTaken))
  else none

def settleW (slow : Bool) : Nat → Nat → St → St
  | 0, _, s => s
  | fuel + 1, avail, s =>
    match tick slow avail s with
    | none => s
    | some e => settleW slow fuel avail (step s e)

def settle : Nat → Nat → St → St := settleW false

/-- events of the scripted ICAP reply: act, adapted body length, chunk size, cut, end -/
def replyEvents (wrErr : Bool) (act : String) (al ch : Nat) (cut endk : String) (uob : Nat) : List Ev :=
  -- a reset may be noticed by a pending write first: Must(io.flag == Comm::OK) throws (modelled by the throwing `timeout` event)
  let rst : Ev := if wrErr then .timeout else .rdError
  let fin : List Ev := if endk == "r" then [rst] else [.rdEof]
  let a := body al 3
  let chunks (bs : Bytes) : List Ev :=
    if bs.isEmpty then [] else
    if ch == 0 then [.rdBody bs] else
    -- the outcome does not depend on the chunking: at most 64 read events
    let step := max ch ((bs.length + 63) / 64)
    (List.range ((bs.length + step - 1) / step)).map fun i => Ev.rdBody ((bs.drop (i * step)).take step)
  let cutHead := cut.startsWith "i"
  let head (status : Nat) (h b : Bool) : List Ev := if cutHead then fin else [.rdIcap status h b false]
  let closing : List Ev := if endk == "c" then [.rdEof] else if endk == "r" then [.rdError] else []
  if act == "x" then [.rdEof]
  else if act == "r" then [rst]
  else if act == "g" then [.rdBad]
  else if act == "204" then head 204 false false ++ (if cutHead then [] else closing)
  else if act == "100" then [.rdIcap 100 false false false] ++ head 204 false false
  else if act.startsWith "e" then
    let code := (numAfter act 1).getD 500
    -- One::ResponseParser::ParseResponseStatus accepts 100..599 only: anything else is a malformed head
    if cutHead then fin else if code < 100 || code > 599 then [.rdBad] else [.rdIcap code false false false] ++ closing
  else if act == "200x" || act == "206x" then
    -- a body without an encapsulated HTTP head
    if cutHead then fin else [.rdIcap (if act == "206x" then 206 else 200) false true false] ++ chunks a ++ [.rdLast none] ++ closing
  else if act == "200n" then
    if cutHead then fin else if cut.startsWith "t" then [.rdIcap 200 true false false] ++ fin
    else [.rdIcap 200 true false false, .rdHttpHead] ++ closing
  else
    let status := if act == "206" then 206 else 200
    let last : Option Nat := if act == "206" then some uob else none
    if cutHead then fin
    else if cut.startsWith "t" then [.rdIcap status true true false] ++ fin
    else if cut.startsWith "b" then
      let n := min ((numAfter cut 1).getD 0) al
      [.rdIcap status true true false, .rdHttpHead] ++ chunks (a.take n) ++ fin
    else if cut == "z" || cut == "y" then [.rdIcap status true true false, .rdHttpHead] ++ chunks a ++ fin
    else [.rdIcap status true true false, .rdHttpHead] ++ chunks a ++ [.rdLast last] ++ closing

def runEvents (fuel avail : Nat) (s : St) : List Ev → St
  | [] => s
  | e :: es => runEvents fuel avail (settle fuel avail (step s e)) es

/-- the scenario: virgin bytes up to `pre` are there when the ICAP server acts, the rest follows -/
def simulate (slow wrErr : Bool) (cfg : Cfg) (vl pre : Nat) (at_ act : String) (al ch : Nat) (cut endk : String) (uob : Nat) : St :=
  let fuel := 400
  let s0 := init cfg (body vl 1)
  let early := if at_ == "h" || at_ == "p" then pre else vl
  let s1 := settle fuel early s0                      -- the virgin body usually sits in the pipe before the ICAP connection is up
  -- `slow`: the ICAP server answers while the first body write is still in flight (it does not read the body when it acts at `h`)
  let s2 := settleW slow fuel early (step s1 .connected)
  -- 100 Continue when the stub wants the rest of the body
  let s3 := if (at_ == "e" || at_.startsWith "c") && s2.writing == .paused && s2.preview.st == .done && s2.parsing == .icapHeader
            then settle fuel vl (step s2 (.rdIcap 100 false false false)) else s2
  let s4 := runEvents fuel early s3 (replyEvents wrErr act al ch cut endk uob)
  settle fuel vl s4

def showSt (s : St) : String :=
  s!"w={s.writing.rank} put={s.put} cons={s.consumed} vs={repr s.vSending.st}/{s.vSending.start} out={s.out.length} outSt={repr s.outSt} head={repr s.head} ans={repr s.answer} byp={s.bypassed}"

/-- `m=.. p=.. b=.. u=.. vk=.. vl=.. pre=.. at=.. act=.. al=.. acl=.. ch=.. cut=.. end=.. seg=.. uob=..` -/
def handle (line : String) : String :=
  match Driver.words line with
  | [m, p, b, u, vk, vl, pre, at_, act, al, _acl, ch, cut, endk, _seg, uob] =>
    match val m "m", val p "p", val b "b", val u "u", val vk "vk", (val vl "vl").bind String.toNat?, (val pre "pre").bind String.toNat?,
          val at_ "at", val act "act", (val al "al").bind String.toNat?, (val ch "ch").bind String.toNat?, val cut "cut", val endk "end",
          (val uob "uob").bind String.toNat? with
    | some m, some p, some b, some u, some vk, some vl, some pre, some at_, some act, some al, some ch, some cut, some endk, some uob =>
      if pre > vl || (vk == "n" && vl != 0) then "bad-op" else
      let cfg : Cfg := { respmod := m == "rs", bypass := b == "1", previewWanted := if p == "n" then none else p.toNat?,
                         allow206 := u == "1", hasBody := vk == "u" || (vk == "k" && vl > 0), sizeKnown := vk == "k" }
      let o := (outcome (simulate false false cfg vl pre at_ act al ch cut endk uob)).name
      -- acting at `h` (or at `p` when no preview was offered) the stub has not read any body byte: squid may still be in the middle of a body write
      let at_ := if at_ == "p" && p == "n" then "h" else at_
      let o2 := if at_ == "h" then (outcome (simulate true false cfg vl pre at_ act al ch cut endk uob)).name else o
      -- ... and a reset may hit that write instead of the read
      let o3 := if at_ == "h" && (act == "r" || endk == "r") then (outcome (simulate true true cfg vl pre at_ act al ch cut endk uob)).name else o
      -- ... squid may have received only little of the virgin body when a stub that acts at `h` is already answering
      let o4 := if at_ == "h" && pre > 1000 then (outcome (simulate false false cfg vl 1000 at_ act al ch cut endk uob)).name else o
      -- ... and a reset behind a (partial) reply may overtake the reply bytes still queued in the kernel
      let o5 := if endk == "r" && cut != "-" then (outcome (simulate false false cfg vl pre at_ "r" al ch "-" endk uob)).name else o
      let o6 := if endk == "r" && cut != "-" && at_ == "h" then (outcome (simulate true true cfg vl pre at_ "r" al ch "-" endk uob)).name else o
      let l := [o, o2, o3, o4, o5, o6].eraseDups
      "|".intercalate l
    | _, _, _, _, _, _, _, _, _, _, _, _, _, _ => "bad-op"
  | _ => "bad-op"

end Driver.C60

def main : IO UInt32 := Driver.runPure Driver.C60.handle
