import Driver.Loop
import SquidModel.Cache.RestartUfs
import SquidModel.Cache.RestartRock
open SquidModel SquidModel.Cache

namespace Driver.C17
open SquidModel.Cache.Restart

inductive Sop
  | store (k n : Nat)
  | fetch (k : Nat)
  | get (k : Nat)
  | purge (k : Nat)
  | delete (k : Nat)

def parseOp (s : String) : Option Sop :=
  match s.toList with
  | 'S' :: rest =>
    match (String.ofList rest).splitOn "." with
    | [k, n, _, _] => match k.toNat?, n.toNat? with
      | some k, some n => some (.store k n)
      | _, _ => none
    | _ => none
  | 'F' :: rest => (String.ofList rest).toNat?.map .fetch
  | 'G' :: rest => (String.ofList rest).toNat?.map .get
  | 'P' :: rest => (String.ofList rest).toNat?.map .purge
  | 'D' :: rest => (String.ofList rest).toNat?.map .delete
  | _ => none

def parsePhase (s : String) : Option (List Sop) :=
  if s == "-" then some [] else (s.splitOn ",").mapM parseOp

def okOp (nk : Nat) : Sop → Bool
  | .store k n => k < nk && n ≤ 3000000
  | .fetch k | .get k | .purge k | .delete k => k < nk

/-! #### ufs family: the model is run op by op (unlinkd prompt: its queue is drained after every operation) -/

structure U where
  s : Ufs Nat
  cur : List Nat          -- current origin version per key (0 = none yet)
  now : Int

def curOf (u : U) (k : Nat) : Nat := u.cur.getD k 0
def setCur (u : U) (k v : Nat) : U := { u with cur := u.cur.set k v }

def times (now : Int) : Times := { timestamp := now, lastref := now, expires := now + 86400, lastmod := now - 864000 }

def drain (s : Ufs Nat) : Ufs Nat := unlinkdFlush s s.pending.length

/-- the old entry is released when the new reply's headers arrive; unlinkd is taken to run before the swap-out creates the new file
(the other order is the race of `ufs_unlink_race_counterexample`) -/
def doStore (u : U) (k n v : Nat) : U :=
  { u with s := drain (storeObj (drain (release u.s k)) k v 180 (n + 400) (times u.now)), now := u.now + 1 }

def uStep (u : U) : Sop → U × String
  | .store k n =>
    let v := curOf u k + 1
    (doStore (setCur u k v) k n v, "S=ok")
  | .fetch k =>
    match serve u.s k with
    | some v => ({ u with s := touch u.s k u.now, now := u.now + 1 }, s!"F=H{v}")
    | none =>
      let v := if curOf u k = 0 then 1 else curOf u k
      (doStore (setCur u k v) k (100 + 7 * k) v, s!"F=M{v}")
  | .get k =>
    match serve u.s k with
    | some v => ({ u with s := touch u.s k u.now, now := u.now + 1 }, s!"G=H{v}")
    | none => (u, "G=M")
  | .purge k =>
    let found := (u.s.index.find? (fun e => e.key == k)).isSome
    ({ u with s := drain (release u.s k), now := u.now + 1 }, if found then "P=200" else "P=404")
  | .delete k => ({ u with s := drain (release u.s k), now := u.now + 1 }, "D=200")

def uPhase (u : U) (ops : List Sop) : U × List String :=
  ops.foldl (fun (acc : U × List String) op => let (u', o) := uStep acc.1 op; (u', acc.2 ++ [o])) (u, [])

def uRestart (u : U) : U := { u with s := step u.s (.restart []) }

def runUfs (nk : Nat) (p1 p2 : List Sop) : String :=
  let u0 : U := { s := rebuild (Ufs.empty true) [], cur := List.replicate nk 0, now := 1700000000 }
  let (u1, o1) := uPhase u0 p1
  let (u2, o2) := uPhase (uRestart u1) p2
  let u3 := uRestart u2
  let fin := (List.range nk).map fun k => match serve u3.s k with | some v => s!"H{v}" | none => "M"
  let ops := o1 ++ o2
  (if ops.isEmpty then "-" else ",".intercalate ops) ++ " ; " ++ " ".intercalate fin

/-! #### rock: worlds (which chains are still on disk is not determined by the scenario) -/

open SquidModel.Cache.RestartRock in
structure W where
  keys : List KeyWorld
  cur : List Nat

open SquidModel.Cache.RestartRock in
def wStep (w : W) : Sop → W × String
  | .store k _ =>
    let v := w.cur.getD k 0 + 1
    ({ keys := w.keys.set k ((w.keys.getD k {}).store v), cur := w.cur.set k v }, "S=ok")
  | .fetch k =>
    match (w.keys.getD k {}).live with
    | some v => (w, s!"F=H{v}")
    | none =>
      let v := if w.cur.getD k 0 = 0 then 1 else w.cur.getD k 0
      ({ keys := w.keys.set k ((w.keys.getD k {}).store v), cur := w.cur.set k v }, s!"F=M{v}")
  | .get k =>
    match (w.keys.getD k {}).live with
    | some v => (w, s!"G=H{v}")
    | none => (w, "G=M")
  | .purge k =>
    let found := (w.keys.getD k {}).live.isSome
    ({ w with keys := w.keys.set k ((w.keys.getD k {}).purge) }, if found then "P=200" else "P=404")
  | .delete k => ({ w with keys := w.keys.set k ((w.keys.getD k {}).purge) }, "D=200")

/-- all combinations of the per-key restart outcomes -/
def product {α : Type} : List (List α) → List (List α)
  | [] => [[]]
  | xs :: rest => (product rest).flatMap fun tl => xs.map fun x => x :: tl

open SquidModel.Cache.RestartRock in
def wRestart (w : W) : List W :=
  (product (w.keys.map KeyWorld.restart)).map fun ks => { w with keys := ks }

def wPhase (ws : List (W × List String)) (ops : List Sop) : List (W × List String) :=
  ops.foldl (fun acc op => acc.map fun (w, outs) => let (w', o) := wStep w op; (w', outs ++ [o])) ws

def insertSorted (x : String) : List String → List String
  | [] => [x]
  | y :: ys => if x == y then y :: ys else if x < y then x :: y :: ys else y :: insertSorted x ys

/-- position-wise union of the alternatives, `|`-separated, sorted -/
def unionCols (rows : List (List String)) (n : Nat) : List String :=
  (List.range n).map fun i => "|".intercalate (rows.foldl (fun acc r => insertSorted (r.getD i "?") acc) [])

def runRock (nk : Nat) (p1 p2 : List Sop) : String :=
  let w0 : W := { keys := List.replicate nk {}, cur := List.replicate nk 0 }
  let a := wPhase [(w0, [])] p1
  let b := a.flatMap fun (w, outs) => (wRestart w).map fun w' => (w', outs)
  let c := wPhase b p2
  let d := c.flatMap fun (w, outs) => (wRestart w).map fun w' => (w', outs)
  let rows := d.map fun (w, outs) => outs ++ ((List.range nk).map fun k => match (w.keys.getD k {}).live with | some v => s!"H{v}" | none => "M")
  let nops := p1.length + p2.length
  let cols := unionCols rows (nops + nk)
  (if nops = 0 then "-" else ",".intercalate (cols.take nops)) ++ " ; " ++ " ".intercalate (cols.drop nops)

/-! #### rock images read back from the db file: `img <key> <slot:first:next:payload:entrySize:ver,...>` -/

open SquidModel.Cache.RestartRock in
def parseCell (k : Nat) (s : String) : Option (Cell Nat) :=
  match s.splitOn ":" with
  | [sl, fi, nx, pl, es, v] =>
    match sl.toNat?, fi.toNat?, nx.toInt?, pl.toNat?, es.toNat?, v.toNat? with
    | some sl, some fi, some nx, some pl, some es, some v =>
      some { slot := sl, key := k, first := fi, next := if nx < 0 then none else some nx.toNat, payload := pl, entrySize := es, data := v }
    | _, _, _, _, _, _ => none
  | _ => none

open SquidModel.Cache.RestartRock in
def runImg (k : Nat) (cells : List (Cell Nat)) : String :=
  match RestartRock.serve cells k with
  | some (v :: _) => s!"H{v}"
  | some [] => "H?"
  | none => "M"

def handle (line : String) : String :=
  match Driver.words line with
  | ["img", k, cs] =>
    match k.toNat? with
    | some k =>
      match (if cs == "-" then some [] else (cs.splitOn ",").mapM (parseCell k)) with
      | some cells => runImg k cells
      | none => "bad-op"
    | none => "bad-op"
  | [store, nk, p1, p2] =>
    match nk.toNat?, parsePhase p1, parsePhase p2 with
    | some nk, some p1, some p2 =>
      if nk < 1 || nk > 8 || !(p1 ++ p2).all (okOp nk) then "bad-op"
      else if store == "rock" then runRock nk p1 p2
      else if store == "ufs" || store == "aufs" || store == "diskd" then runUfs nk p1 p2
      else "bad-op"
    | _, _, _ => "bad-op"
  | _ => "bad-op"

end Driver.C17

def main : IO UInt32 := Driver.runPure Driver.C17.handle
