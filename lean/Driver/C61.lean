import Driver.Loop
import SquidModel.Mgr.Auth
import SquidModel.Gen.MgrActions
open SquidModel SquidModel.Mgr

namespace Driver.C61

def parsePws (s : String) : Option (List PwEntry) :=
  if s == "-" then some [] else
  (s.splitOn ";").mapM fun e =>
    match e.splitOn ":" with
    | [p, acts] =>
      match Bytes.ofHex p, (acts.splitOn ",").mapM Bytes.ofHex with
      | some pw, some as => some ⟨pw, as⟩
      | _, _ => none
    | _ => none

/-- `<allow|deny> <pwlist> <action hex> <supplied password hex | ->` -/
def handle (line : String) : String :=
  match Driver.words line with
  | [acc, pws, act, pw] =>
    match parsePws pws, Bytes.ofHex act, Bytes.ofHex pw with
    | some l, some a, some p =>
      match decideMgr (acc == "allow") SquidModel.Gen.MgrActions.actions l a p with
      | .report => "200"
      | .denied403 => "403"
      | .notFound404 => "404"
      | .unauthorized401 => "401"
    | _, _, _ => "bad-op"
  | _ => "bad-op"

end Driver.C61

def main : IO UInt32 := Driver.runPure Driver.C61.handle
