import Driver.Loop
import SquidModel.Smuggle.Delimit
import SquidModel.Uri.Parse
import SquidModel.Gen.SmuggleCfg
open SquidModel SquidModel.Smuggle

namespace Driver.C03

/-- `HttpRequest::FromUrlXXX` through the C30 model of `AnyP::Uri::parse` (zeroed `Config`, as in the harness) -/
def urlView (m : Bytes) (u : Bytes) : Option UrlView :=
  let meth : Uri.Method := if m == mCONNECT then .connect else if m == mOPTIONS || m == mTRACE then .star else .other
  -- `FromUrlXXX(const char *)`: the C string ends at the first NUL
  match Uri.parse ⟨false, false, 0, []⟩ Uri.Ip.classify meth (u.takeWhile (· != 0)) with
  | .reject _ => none
  | .ok r => some ⟨r.proto, r.path == [42]⟩
  | .unmodelled _ => some ⟨protoHTTP, false⟩

def kindStr (d : Desc) : String :=
  match d.kind with
  | .none => "none"
  | .cl => "cl"
  | .ch => s!"ch{d.body.length}"

/-- Adler-32 -/
def adler (b : Bytes) : Nat :=
  let r := b.foldl (fun (p : Nat × Nat) c => let a := (p.1 + c.toNat) % 65521; (a, (p.2 + a) % 65521)) (1, 0)
  r.2 * 65536 + r.1

def descStr (d : Desc) : String :=
  s!"{kindStr d}:cl={match d.cl with | some v => toString v | none => "-"}:ncl={d.ncl}:te={if d.te then 1 else 0}:v={d.vmaj}.{d.vmin}:m={Bytes.toHex d.method}:u={Bytes.toHex d.uri}:p={if d.persistent then 1 else 0}:ck={adler d.body}"

def siteStr : Site → String
  | .parse => "parse" | .method => "method" | .url => "url" | .version => "version" | .header => "header"
  | .expect => "expect" | .unsup => "unsup" | .framing => "framing" | .chunk => "chunk"

def msgStr (m : Msg) : String := s!"M:{m.start}:{m.headEnd}:{m.stop}:{descStr m.d}"

def finStr : Fin → String
  | .done => "end"
  | .more s => s!"more:{s}"
  | .body s h d => s!"body:{s}:{h}:{descStr d}"
  | .rej s st w => s!"rej:{s}:{st}:{siteStr w}"
  | .connect s h => s!"connect:{s}:{h}"
  | .throws _ => "throw"
  | .closing e => s!"closing:{e}"
  | .fuel => "fuel"

def isAlnum (c : UInt8) : Bool := (48 ≤ c && c ≤ 57) || (65 ≤ c && c ≤ 90) || (97 ≤ c && c ≤ 122)
def isUriWs (c : UInt8) : Bool := c == 32 || (9 ≤ c && c ≤ 13)

/-- the tag of an end-to-end scenario request: what follows `/c03/<8 characters>/` in the target (whitespace removed first,
as `uri_whitespace strip` does) -/
def tagOf : Bytes → Bytes
  | [] => []
  | s@(_ :: r) =>
    if s.take 5 == [47, 99, 48, 51, 47] ∧ ((s.drop 5).take 8).all isAlnum ∧ ((s.drop 5).take 8).length = 8 ∧ (s.drop 13).take 1 == [47]
    then (s.drop 14).takeWhile isAlnum
    else tagOf r

def tagStr (u : Bytes) : String :=
  let t := tagOf (u.filter fun c => !isUriWs c)
  if t.isEmpty then "?" else String.ofList (t.map fun c => Char.ofNat c.toNat)

/-- what the recording origin is predicted to note for a handed-on request -/
def fwdStr (m : Msg) : String := s!"{Bytes.toHex m.d.method}:{tagStr m.d.uri}:{m.d.body.length}:{adler m.d.body}"

def cfgOf (mode : String) : Cfg :=
  ⟨{ relaxed := mode == "r", limit := 65536, fixCr := Gen.Http1Request.fixCr, fixLine := Gen.Http1Request.fixLine },
    Gen.SmuggleCfg.closeAfterTeCl, Gen.SmuggleCfg.rejectNonGet09⟩

def handle (line : String) : String :=
  match Driver.words line with
  | "e" :: mode :: h :: _ =>
    if mode ≠ "r" ∧ mode ≠ "s" then "bad-op" else
    match Bytes.ofHex h with
    | none => "bad-op"
    | some stream =>
      let r := delimit (cfgOf mode) urlView stream
      "F=" ++ (if r.1.isEmpty then "-" else ",".intercalate (r.1.map fwdStr))
  | ["d", mode, h] =>
    if mode ≠ "r" ∧ mode ≠ "s" then "bad-op" else
    match Bytes.ofHex h with
    | none => "bad-op"
    | some stream =>
      let r := delimit (cfgOf mode) urlView stream
      " ".intercalate (r.1.map msgStr ++ [finStr r.2])
  | _ => "bad-op"

end Driver.C03

def main : IO UInt32 := Driver.runPure Driver.C03.handle
