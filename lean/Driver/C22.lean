import Driver.Loop
import SquidModel.Http1.Request
open SquidModel SquidModel.Http1

namespace Driver.C22

def showVerdict : LineVerdict → String
  | .incomplete => "incomplete"
  | .reject s => s!"reject:{s}"
  | .accept f => s!"accept m={Bytes.toHex f.method} g={if f.isGet then 1 else 0} u={Bytes.toHex f.uri} v={f.vmaj}.{f.vmin}"

def handle (line : String) : String :=
  match Driver.words line with
  | ["l", rel, h] =>
    match Bytes.ofHex h with
    | some b =>
      if rel ≠ "0" ∧ rel ≠ "1" then "bad-op" else
      let cfg : Cfg := { relaxed := rel == "1", limit := 1048576, fixCr := Gen.Http1Request.fixCr, fixLine := Gen.Http1Request.fixLine }
      showVerdict (lineVerdict cfg b)
    | none => "bad-op"
  | _ => "bad-op"

end Driver.C22

def main : IO UInt32 := Driver.runPure Driver.C22.handle
