import Driver.Loop
import SquidModel.Pipeline.Model
open SquidModel.Pipeline

namespace Driver.C05

/-- `<limit> <n requests> <completion order: ids comma separated>`: all n requests arrive at once; the connection parses, then
replies become ready in the given order, each as soon as its request has been forwarded (a completion for a request that is
not in the pipeline yet is retried after the following ones). Prints the ids in the order they are written. -/
def settle : Nat → St → List Nat → St
  | 0, s, _ => s
  | fuel + 1, s, pending =>
    match pending.find? (fun r => s.queue.contains r && !s.deferred.contains r) with
    | none => s
    | some r => settle fuel (step s (.complete r)) (pending.erase r)

def handle (line : String) : String :=
  match Driver.words line with
  | [l, n, ord] =>
    match l.toNat?, n.toNat?, (ord.splitOn ",").mapM String.toNat? with
    | some limit, some k, some order =>
      let s0 := step (St.init limit (List.range k)) .parse
      let s := settle (2 * k + 2) s0 order
      "written=" ++ ",".intercalate (s.written.map toString)
    | _, _, _ => "bad-op"
  | _ => "bad-op"

end Driver.C05

def main : IO UInt32 := Driver.runPure Driver.C05.handle
