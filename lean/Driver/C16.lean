import Driver.Loop
import SquidModel.Rock.CrashModel
import SquidModel.Rock.CrashWriter
import SquidModel.Rock.Final
import SquidModel.Ufs.CrashModel
open SquidModel

/-!
Line driver of the C16 models.

* `rockimg <slotSize> <nslots> <cells|-> <queries>`   a rock db image read from the real file after a crash
      cell   `slot,keyname,k0,k1,entrySize,payloadSize,version,firstSlot,nextSlot,meta,tag`   (or `slot,t`: truncated)
      meta   `z` | `u` | `o.<keyname|none>.<sfs>.<flags>.<hdr>.<keyname of the URL|none>`
      query  `name:k0:k1`
  -> `rebuild=<ok|crash:..> name=<per-position model>/<whole-image model (C57)> ...`, each `M` or `H:tag+tag+...`
* `ufsimg <records|-> <files|-> <queries>`   a ufs cache_dir after a crash
      record `op,fileno,size,keyname,lastref,flags,csumOk,timesOk`; file `fileno,keyname,hdr,bytes,tag`; query `keyname`
  -> `name=M` | `name=H:<tag>:<served>:<promised>` ...
* `ufstrace <events>`   the disk-changing events of a real run against the protocol `wfRun`
      `c,fileno,store,keyname,total,hdr` `a,fileno,n` `l,op,fileno,size,keyname,lastref,flags,store` `u,fileno` `x,store`
  -> `wf` | `bad@<index>`
* `rock<slotSize> <h>.<swap_hdr_sz> <nkeys> <phases...>` / `ufs ...` / `aufs ...`   a scenario line
  -> rock: the event trace and the final lookups the writer model (`Rock.Crash` writer + allocator) predicts; ufs: `-`
-/
namespace Driver.C16
open SquidModel.Rock SquidModel.Rock.Crash

def splitNE (s : String) (sep : String) : List String := if s == "-" then [] else (s.splitOn sep).filter (· ≠ "")

/-- interned names: the key id is the position in the table -/
def intern (tbl : List String) (n : String) : List String × Nat :=
  match tbl.idxOf? n with
  | some i => (tbl, i)
  | none => (tbl ++ [n], tbl.length)

/-! ### rock images -/

def keyByName (keys : List (String × Rock.Key)) (kn : String) : Option Rock.Key :=
  if kn == "none" then none
  else match keys.lookup kn with
    | some k => some k
    | none => some (0, 1)        -- a key nobody asks for

/-- -> (parse result, key whose URL the metadata names) -/
def parseMeta (keys : List (String × Rock.Key)) (s : String) : Option (Meta × Option Rock.Key) :=
  if s == "z" then some (.zeroed, none)
  else if s == "u" then some (.unparsable, none)
  else match s.splitOn "." with
    | ["o", kn, sfs, fl, hd, un] =>
      match sfs.toNat?, fl.toNat?, hd.toNat? with
      | some sfs, some fl, some hd => some (.ok (keyByName keys kn) sfs fl hd, keyByName keys un)
      | _, _, _ => none
    | _ => none

structure RCell where
  slot : Nat
  truncated : Bool
  cell : Cell String

def parseCellFields (f : List String) : Option (String × Nat × Rock.Key × Header × String × String) :=
  match f with
  | [slot, kn, k0, k1, es, ps, ver, first, nx, mt, tag] =>
    match slot.toNat?, k0.toNat?, k1.toNat?, es.toNat?, ps.toNat?, ver.toNat?, first.toInt?, nx.toInt? with
    | some slot, some k0, some k1, some es, some ps, some ver, some first, some nx =>
      some (kn, slot, (k0, k1), { key := (k0, k1), entrySize := es, payloadSize := ps, version := ver, firstSlot := first, nextSlot := nx }, mt, tag)
    | _, _, _, _, _, _, _, _ => none
  | _ => none

def showLinks (ls : List (Link String)) : String :=
  "H:" ++ "+".intercalate (ls.map (fun | .own c => c.data | .foreign s => s!"f{s}"))

/-- the C57 whole-image model: rebuild, `openForReading`, first-slot metadata check, chain -/
def wholeServe (cfg : Cfg) (nslots : Nat) (cells : List (Cell String)) (st : St) (k : Rock.Key) : String :=
  let f := fileNo (cfg.geo nslots) k
  if decide (Readable st f) && ((st.an f).key == k) then
    let chain := chainList st (nslots + 1) (st.an f).start
    match chain with
    | [] => "M"
    | s0 :: _ =>
      match cells.find? (fun c => c.slot == s0) with
      | some c0 =>
        match c0.md with
        | .ok (some mk) _ _ _ =>
          if mk == k && c0.url == some k then "H:" ++ "+".intercalate (chain.map (fun s => match cells.find? (fun c => c.slot == s) with | some c => c.data | none => s!"e{s}"))
          else "M"
        | _ => "M"
      | none => "M"
  else "M"

def handleRockImg (slotSize nslots : Nat) (cellsTok queriesTok : String) : String :=
  let qs := (splitNE queriesTok ",").filterMap (fun q => match q.splitOn ":" with
    | [n, a, b] => match a.toNat?, b.toNat? with | some a, some b => some (n, ((a, b) : Rock.Key)) | _, _ => none
    | _ => none)
  let raw := splitNE cellsTok ";"
  let parsed : Option (List (Nat × Option (Cell String))) := raw.mapM (fun c =>
    match c.splitOn "," with
    | [slot, "t"] => slot.toNat?.map (fun s => (s, none))
    | fields => match parseCellFields fields with
      | some (_, slot, _, hdr, mt, tag) =>
        match parseMeta qs mt with
        | some (m, u) => some (slot, some { slot := (slot : Int), hdr := hdr, md := m, url := u, data := tag })
        | none => none
      | none => none)
  match parsed with
  | none => "bad-op"
  | some items =>
    let cfg := currentCfg slotSize false
    let cells := items.filterMap (·.2)
    let img : List RawSlot := (List.range nslots).map (fun i =>
      match items.find? (fun it => it.1 == i) with
      | some (_, some c) => .cell c.hdr c.md
      | some (_, none) => .truncated
      | none => .cell { key := (0, 0), entrySize := 0, payloadSize := 0, version := 0, firstSlot := 0, nextSlot := 0 } .zeroed)
    match rebuild cfg img with
    | .error e => s!"rebuild=crash:{repr e}"
    | .ok st =>
      "rebuild=ok " ++ " ".intercalate (qs.map (fun (n, k) =>
        let mine := match serve cfg nslots (fun _ => none) cells k with | some ls => showLinks ls | none => "M"
        s!"{n}={mine}/{wholeServe cfg nslots cells st k}"))

/-! ### ufs -/
open SquidModel.Ufs.Crash in
def parseRec (tbl : List String) (s : String) (store : Nat := 0) : Option (List String × Rec) :=
  match s.splitOn "," with
  | [op, fl, sz, kn, lr, flags, cs, tm] =>
    match op.toNat?, fl.toInt?, sz.toNat?, lr.toInt?, flags.toNat? with
    | some op, some fl, some sz, some lr, some flags =>
      let (tbl, k) := intern tbl kn
      some (tbl, { op := op, fileno := fl, size := sz, key := k, lastref := lr, flags := flags, csumOk := cs == "1", timesOk := tm == "1", store := store })
    | _, _, _, _, _ => none
  | _ => none

open SquidModel.Ufs.Crash in
def handleUfsImg (recsTok filesTok queriesTok : String) : String :=
  let step (acc : Option (List String × List Rec)) (s : String) : Option (List String × List Rec) :=
    match acc with
    | none => none
    | some (tbl, rs) => match parseRec tbl s with
      | some (tbl, r) => some (tbl, rs ++ [r])
      | none => none
  match (splitNE recsTok "+").foldl step (some ([], [])) with
  | none => "bad-op"
  | some (tbl, recs) =>
    let fstep (acc : Option (List String × List (Int × FileSt × String))) (s : String) :=
      match acc with
      | none => none
      | some (tbl, fs) => match s.splitOn "," with
        | [fl, kn, hd, by_, tag] => match fl.toInt?, hd.toNat?, by_.toNat? with
          | some fl, some hd, some b =>
            let (tbl, k) := intern tbl kn
            some (tbl, fs ++ [(fl, { store := fs.length, key := k, hdr := hd, bytes := b }, tag)])
          | _, _, _ => none
        | _ => none
    match (splitNE filesTok ";").foldl fstep (some (tbl, [])) with
    | none => "bad-op"
    | some (tbl, files) =>
      let d : Disk := { log := recs, files := fun f => (files.find? (fun x => x.1 == f)).map (·.2.1) }
      " ".intercalate ((splitNE queriesTok ",").map (fun q =>
        let (_, k) := intern tbl q
        match serve d k with
        | none => s!"{q}=M"
        | some sv =>
          let tag := match files.find? (fun x => x.2.1.store == sv.store) with | some x => x.2.2 | none => "?"
          s!"{q}=H:{tag}:{sv.served}:{sv.promised}"))

open SquidModel.Ufs.Crash in
def parseEv (tbl : List String) (s : String) : Option (List String × Ev) :=
  match s.splitOn "," with
  | ["c", fl, st, kn, total, hd] => match fl.toInt?, st.toNat?, total.toNat?, hd.toNat? with
    | some fl, some st, some total, some hd => let (tbl, k) := intern tbl kn; some (tbl, .create fl st k total hd)
    | _, _, _, _ => none
  | ["a", fl, n] => match fl.toInt?, n.toNat? with
    | some fl, some n => some (tbl, .append fl n)
    | _, _ => none
  | ["l", op, fl, sz, kn, lr, flags, st] => match st.toNat? with
    | some st => match parseRec tbl s!"{op},{fl},{sz},{kn},{lr},{flags},1,1" st with
      | some (tbl, r) => some (tbl, .log r)
      | none => none
    | none => none
  | ["u", fl] => fl.toInt?.map (fun f => (tbl, .unlink f))
  | ["x", st] => st.toNat?.map (fun s => (tbl, .abort s))
  | _ => none

open SquidModel.Ufs.Crash in
def handleUfsTrace (evTok : String) : String :=
  let rec go (tbl : List String) (g : Ghost) (i : Nat) : List String → String
    | [] => "wf"
    | s :: rest => match parseEv tbl s with
      | none => "bad-op"
      | some (tbl, ev) => match wfStep g ev with
        | none => s!"bad@{i}"
        | some g' => go tbl g' (i + 1) rest
  go [] [] 0 (splitNE evTok ";")

def handle (line : String) : String :=
  match Driver.words line with
  | ["rockimg", ss, ns, cells, qs] =>
    match ss.toNat?, ns.toNat? with
    | some ss, some ns => handleRockImg ss ns cells qs
    | _, _ => "bad-op"
  | ["ufsimg", recs, files, qs] => handleUfsImg recs files qs
  | ["ufstrace", evs] => handleUfsTrace evs
  | store :: h :: nk :: phases =>
    if store.startsWith "rock" then
      match (store.drop 4).toString.toNat?, (h.splitOn ".").map String.toNat?, nk.toNat? with
      | some ss, [some h, some mh], some nk => Crash.scenario ss h mh nk phases
      | _, _, _ => "bad-op"
    else if store == "ufs" || store == "aufs" then "-"
    else "bad-op"
  | _ => "bad-op"

end Driver.C16

def main : IO UInt32 := Driver.runPure Driver.C16.handle
