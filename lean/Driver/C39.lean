import Driver.Loop
import SquidModel.Udp.Snmp
import SquidModel.Udp.Icp
import SquidModel.Udp.Htcp
open SquidModel SquidModel.Udp SquidModel.Gen.UdpLimits

namespace Driver.C39

def fx : Bool := asnChecksRoomFirst == 1

def showOid (o : List Nat) : String :=
  if o.isEmpty then "-" else ".".intercalate (o.map toString)

def showVal : Val → String
  | .int v => toString v
  | .uint v => toString v
  | .str b => Bytes.toHex b
  | .oid o => showOid o
  | .none => "-"

def showVar (v : VarBind) : String := s!" {showOid v.name}/{v.type}/{showVal v.val}"

def over (hi len : Nat) : Nat := hi - len

def showSnmp (r : T Msg) (len : Nat) : String :=
  match r.res with
  | .fail e d => s!"fail err={e} dbg={d} over={over r.hi len}"
  | .ok msg =>
    let p := msg.pdu
    let vars := String.join (p.vars.map showVar)
    s!"ok ver={msg.version} comm={Bytes.toHex msg.community} cmd={p.command} reqid={p.reqid} es={p.errstat} ei={p.errindex} nr={p.nonRepeaters} mr={p.maxRepetitions} co={(coexist p).1} vars={p.vars.length}{vars} over={over r.hi len}"

def showUrlErr : Icp.UrlErr → String
  | .small => "url:small"
  | .unterminated => "url:unterminated"
  | .embedded => "url:embedded"

def showIcp (r : Icp.Result) (len : Nat) : String :=
  let mid := match r.outcome with
    | .nothing => ""
    | .ignoreShort => " ignore:short"
    | .ignoreVersion => " ignore:version"
    | .badLen => " badlen"
    | .queryBadUrl e => " " ++ showUrlErr e ++ " sent=4/" ++ toString (Icp.replyLength false 0) ++ "/" ++ "-"
    | .query u => s!" url={Bytes.toHex u}"
    | .replyBadUrl e => s!" {showUrlErr e}"
    | .reply u => s!" reply-url={Bytes.toHex u}"
    | .nop => ""
    | .unknownOp => " unknown-op"
  s!"v={r.version}{mid} over={over (max r.rdHi r.wrHi) len} wr={over r.wrHi len}"

def showHtcp (r : Htcp.St × Option Nat) (m0 : Mem) (len : Nat) : String :=
  let s := r.1
  let toks := s.toks.reverse
  let sz := match r.2 with | some n => toString n | none => "?"
  let ch := Htcp.changed m0 s.mem 0
  let nul := if ch.isEmpty then "-" else ",".intercalate (ch.map toString)
  let pre := if toks.isEmpty then "" else " ".intercalate toks
  s!"{pre} sz={sz} nul={nul} over={over (max s.rdHi s.wrHi) len} wr={over s.wrHi len}"

def handle (line : String) : String :=
  match Driver.words line with
  | ["i", dg, stale] =>
    match Bytes.ofHex dg, Bytes.ofHex stale with
    | some d, some t =>
      let (m, len) := Icp.icpMem d t
      showIcp (Icp.handle m len) len
    | _, _ => "bad-input"
  | ["h", dg, stale, flags] =>
    match Bytes.ofHex dg, Bytes.ofHex stale with
    | some d, some t =>
      let (m, len) := Htcp.htcpMem d t
      showHtcp (Htcp.handleMsg m len (flags.contains 'm' && len ≥ 12)) m len
    | _, _ => "bad-input"
  | ["s", dg, tail] =>
    match Bytes.ofHex dg, Bytes.ofHex tail with
    | some d, some t =>
      if d.isEmpty then "reject:empty" else
      let (m, len) := snmpMem d t
      showSnmp (msgDecode fx m len) len
    | _, _ => "bad-input"
  | ["e", _, _] => "alive"   -- end-to-end line: the models say nothing beyond "squid goes on serving"
  | ["S", dg, tail] =>
    match Bytes.ofHex dg, Bytes.ofHex tail with
    | some d, some t =>
      if d.isEmpty then "reject:empty" else
      let d := d.take (snmpRequestSize - 1)
      showSnmp (msgDecode fx (d ++ t) d.length) d.length
    | _, _ => "bad-input"
  | _ => "bad-op"

end Driver.C39

def main : IO UInt32 := Driver.runPure Driver.C39.handle
