import Driver.Loop
import SquidModel.Udp.Snmp
open SquidModel SquidModel.Udp SquidModel.Gen.UdpLimits

namespace Driver.C39

def fx : Bool := asnChecksRoomFirst == 1

def showOid (o : List Nat) : String :=
  if o.isEmpty then "-" else ".".intercalate (o.map toString)

def showVal : Val → String
  | .int v => toString v
  | .uint v => toString v
  | .str b => Bytes.toHex b
  | .oid o => showOid o
  | .none => "-"

def showVar (v : VarBind) : String := s!" {showOid v.name}/{v.type}/{showVal v.val}"

def over (hi len : Nat) : Nat := hi - len

def showSnmp (r : T Msg) (len : Nat) : String :=
  match r.res with
  | .fail e d => s!"fail err={e} dbg={d} over={over r.hi len}"
  | .ok msg =>
    let p := msg.pdu
    let vars := String.join (p.vars.map showVar)
    s!"ok ver={msg.version} comm={Bytes.toHex msg.community} cmd={p.command} reqid={p.reqid} es={p.errstat} ei={p.errindex} nr={p.nonRepeaters} mr={p.maxRepetitions} co={(coexist p).1} vars={p.vars.length}{vars} over={over r.hi len}"

def handle (line : String) : String :=
  match Driver.words line with
  | ["s", dg, tail] =>
    match Bytes.ofHex dg, Bytes.ofHex tail with
    | some d, some t =>
      if d.isEmpty then "reject:empty" else
      let (m, len) := snmpMem d t
      showSnmp (msgDecode fx m len) len
    | _, _ => "bad-input"
  | ["S", dg, tail] =>
    match Bytes.ofHex dg, Bytes.ofHex tail with
    | some d, some t =>
      if d.isEmpty then "reject:empty" else
      let d := d.take (snmpRequestSize - 1)
      showSnmp (msgDecode fx (d ++ t) d.length) d.length
    | _, _ => "bad-input"
  | _ => "bad-op"

end Driver.C39

def main : IO UInt32 := Driver.runPure Driver.C39.handle
