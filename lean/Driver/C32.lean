import Driver.Loop
import SquidModel.Html.Quote
open SquidModel

namespace Driver.C32

def handle (line : String) : String :=
  match Driver.words line with
  | ["q", h] =>
    match Bytes.ofHex h with
    | some s => if s.contains 0 then "reject:nul" else Bytes.toHex (Html.quote s)
    | none => "bad-op"
  | ["u", h] =>
    match Bytes.ofHex h with
    | some s => Bytes.toHex (Html.unquote s)
    | none => "bad-op"
  | _ => "bad-op"

end Driver.C32

def main : IO UInt32 := Driver.runPure Driver.C32.handle
