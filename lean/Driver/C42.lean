import Driver.Loop
import SquidModel.Acl.Ip
open SquidModel SquidModel.Acl SquidModel.Acl.Ip

namespace Driver.C42

def hexDigit (c : Char) : Option Nat :=
  if '0' ≤ c ∧ c ≤ '9' then some (c.toNat - '0'.toNat)
  else if 'a' ≤ c ∧ c ≤ 'f' then some (c.toNat - 'a'.toNat + 10)
  else none

/-- exactly `n` lower-case hex digits -/
def hexNat (n : Nat) (s : String) : Option Nat :=
  if s.length ≠ n then none
  else s.toList.foldl (fun acc c => match acc, hexDigit c with
    | some a, some d => some (a * 16 + d)
    | _, _ => none) (some 0)

def decNat (s : String) : Option Nat :=
  if s.isEmpty || s.length > 3 || (s.length > 1 && s.front == '0') then none
  else s.toList.foldl (fun acc c => match acc with
    | some a => if '0' ≤ c ∧ c ≤ '9' then some (a * 10 + (c.toNat - '0'.toNat)) else none
    | none => none) (some 0)

def hexOut (n : Nat) : String := String.ofList (Nat.toDigits 16 n)

def parseMask (fam : Fam) (s : String) : Option MaskSpec :=
  if s == "-" then some .none
  else if s.length < 2 then none
  else if s.front == 'n' then (decNat (s.drop 1).toString).map MaskSpec.cidr
  else if s.front == 'd' && fam == Fam.v4 then (hexNat 8 (s.drop 1).toString).map MaskSpec.dotted
  else none

def parseToken (s : String) : Option Token :=
  if s == "all" then some .all
  else if s == "ipv4" then some .ipv4
  else if s == "ipv6" then some .ipv6
  else
    match s.splitOn ":" with
    | [fs, a1, a2, m] =>
      let fam? : Option Fam :=
        if fs == "40" then some Fam.v4
        else if fs == "60" || fs == "61" || fs == "62" then some Fam.v6
        else none
      match fam? with
      | none => none
      | some fam =>
        let w := if fam == Fam.v4 then 8 else 32
        match hexNat w a1, (if a2 == "-" then some none else (hexNat w a2).map some), parseMask fam m with
        | some x, some y, some ms => some (.item ⟨fam, x, y, ms⟩)
        | _, _, _ => none
    | _ => none

def parseList {α : Type} (f : String → Option α) (s : String) : Option (List α) :=
  if s == "~" then some []
  else (s.splitOn ",").foldr (fun t acc => match f t, acc with
    | some x, some l => some (x :: l)
    | _, _ => none) (some [])

def eventText : Event → String
  | .maskedAway => "w"
  | .deprecated => "m"
  | .ignoredNew => "n"
  | .ignoredOld => "o"
  | .combined => "c"
  | .legacyAll => "g"

def valText (v : Val) : String := hexOut v.addr1 ++ "." ++ hexOut v.addr2 ++ "." ++ hexOut v.mask

def shapeText (t : Tree Val) : String :=
  match t with
  | .nil => "~"
  | t => Tree.shape valText t

def bit (b : Bool) : String := if b then "1" else "0"

def handleA (vals probes : String) : String :=
  match parseList parseToken vals, parseList (hexNat 32) probes with
  | some toks, some ps =>
    match parse toks with
    | .selfDestruct => "reject:self-destruct"
    | .dangling => "ub:dangling"
    | .fuel => "model:fuel"
    | .ok acl ev =>
      let evs := if ev.isEmpty then "~" else ",".intercalate (ev.map eventText)
      let r := matchAll acl ps []
      let bits := if r.2.isEmpty then "~" else String.join (r.2.map bit)
      "ok " ++ bit acl.any4 ++ bit acl.any6 ++ " " ++ evs ++ " " ++ shapeText acl.tree ++ " " ++ bits ++ " " ++ shapeText r.1.tree
  | _, _ => "bad-op"

def handleK (op a b : String) : String :=
  match hexNat 32 a, hexNat 32 b with
  | some x, some y =>
    if op == "lt" then bit (lt x y)
    else if op == "le" then bit (le x y)
    else if op == "gt" then bit (gt x y)
    else if op == "ge" then bit (ge x y)
    else if op == "eq" then bit (matchIPAddr x y == 0)
    else if op == "cmp" then toString (matchIPAddr x y)
    else "bad-op"
  | _, _ => "bad-op"

def handleF (a m : String) : String :=
  match hexNat 32 a, hexNat 32 m with
  | some x, some y =>
    let r := applyMask x y
    hexOut r.1 ++ " " ++ bit r.2 ++ " " ++ hexOut (turnMaskedBitsOn x y) ++ " " ++ toString (cidr x) ++ " " ++
      bit (isAnyAddr x) ++ bit (isNoAddr x) ++ bit (isIPv4 x)
  | _, _ => "bad-op"

def handle (line : String) : String :=
  match Driver.words line with
  | ["a", vals, probes] => handleA vals probes
  | ["k", op, a, b] => handleK op a b
  | ["f", a, m] => handleF a m
  | _ => "bad-op"

end Driver.C42

def main : IO UInt32 := Driver.runPure Driver.C42.handle
