import Driver.Loop
import SquidModel.Cc.Parse
open SquidModel SquidModel.Cc

namespace Driver.C29

/-- labels of harness/c29.cc `AllTypes` -/
def labels : List (CcType × String) := [
  (.public_, "public"), (.private_, "private"), (.noCache, "no-cache"), (.noStore, "no-store"),
  (.noTransform, "no-transform"), (.mustRevalidate, "must-revalidate"), (.proxyRevalidate, "proxy-revalidate"),
  (.maxAge, "max-age"), (.sMaxage, "s-maxage"), (.maxStale, "max-stale"), (.minFresh, "min-fresh"),
  (.onlyIfCached, "only-if-cached"), (.staleIfError, "stale-if-error"), (.immutable, "immutable")]

def num (c : Cc) (t : CcType) : String := if c.isSet t then toString (c.getNum t) else "-"

def describe (c : Cc) : String :=
  let fl := (labels.filter (fun l => c.isSet l.1)).map (·.2)
  "ok=" ++ (if c.mask ≠ 0 then "1" else "0") ++
  " flags=" ++ (if fl.isEmpty then "-" else String.intercalate "," fl) ++
  " ma=" ++ num c .maxAge ++ " sm=" ++ num c .sMaxage ++ " ms=" ++ num c .maxStale ++
  " mf=" ++ num c .minFresh ++ " sie=" ++ num c .staleIfError ++
  " priv=" ++ (if c.isSet .private_ then Bytes.toHex c.priv else "~") ++
  " nc=" ++ (if c.isSet .noCache then Bytes.toHex c.noCache else "~") ++
  " other=" ++ Bytes.toHex c.other

def handle (line : String) : String :=
  match Driver.words line with
  | ["p", h] =>
    match Bytes.ofHex h with
    | some s =>
      if s.contains 0 then "reject:nul" else
      let c := parse s
      let packed := pack c
      describe c ++ " pack=" ++ Bytes.toHex packed ++ " || " ++
        (if packed.contains 0 then "packed-nul" else describe (parse packed))
    | none => "bad-op"
  | ["i", h] =>
    match Bytes.ofHex h with
    | some s =>
      if s.contains 0 then "reject:nul" else
      let its := items s
      String.intercalate " " (toString its.length :: its.map (fun it => Bytes.toHex (it.1.take it.2)))
    | none => "bad-op"
  | ["n", h] =>
    match Bytes.ofHex h with
    | some s =>
      if s.contains 0 then "reject:nul" else
      let r := parseInt s
      if r.1 then "ok " ++ toString r.2 else "fail"
    | none => "bad-op"
  | ["q", l, h] =>
    match l.toNat?, Bytes.ofHex h with
    | some len, some s =>
      if s.contains 0 then "reject:nul"
      else if len > s.length then "bad-op" else
      match parseQuoted s len with
      | some v => "ok " ++ Bytes.toHex v
      | none => "fail"
    | _, _ => "bad-op"
  | _ => "bad-op"

end Driver.C29

def main : IO UInt32 := Driver.runPure Driver.C29.handle
