import Driver.Loop
import SquidModel.Log.Quote
open SquidModel SquidModel.Log

namespace Driver.C34

def withBytes (h : String) (f : Bytes → String) : String :=
  match Bytes.ofHex h with
  | some s => if s.contains 0 then "reject:nul" else f s
  | none => "bad-op"

def quotingOf : String → Option Quoting
  | "d" => some .none | "q" => some .quotes | "m" => some .mimeblob | "u" => some .url | "s" => some .shell | "r" => some .raw
  | _ => none

def lit (s : String) : Tok := .text s.toUTF8.toList

/-- the logformat of the end-to-end scenarios (props/C34.py LOGFORMAT), up to and including ` END`:
`BEGIN id=%{X-Id}>h d=%{X-Evil}>h q="%{X-Evil}>h" m=[%{X-Evil}>h] u=%#{X-Evil}>h s=%/{X-Evil}>h qun="%un" mun=[%un] uun=%#un sun=%/un un=%un rm=%rm Hs=%>Hs END` -/
def e2eFormat (id v u method status : Option Bytes) : List Tok :=
  let h := Gen.LogQuoting.requestHeaderAsksQuote
  let n := Gen.LogQuoting.userNameAsksQuote
  [lit "BEGIN id=", .code h .none id, lit " d=", .code h .none v, lit " q=\"", .code h .quotes v, lit "\" m=[", .code h .mimeblob v,
   lit "] u=", .code h .url v, lit " s=", .code h .shell v, lit " qun=\"", .code n .quotes u, lit "\" mun=[", .code n .mimeblob u,
   lit "] uun=", .code n .url u, lit " sun=", .code n .shell u, lit " un=", .code n .none u, lit " rm=", .code Gen.LogQuoting.requestMethodAsksQuote .none method,
   lit " Hs=", .code Gen.LogQuoting.sentStatusAsksQuote .none status, lit " END"]

def opt (h : String) : Option (Option Bytes) :=
  if h == "." then some none else (Bytes.ofHex h).map some

def handle (line : String) : String :=
  match Driver.words line with
  | ["q", h] => withBytes h fun s => Bytes.toHex (quotedString s)
  | ["m", h] => withBytes h fun s => Bytes.toHex (mimeBlob s)
  | ["s", h] => withBytes h fun s => Bytes.toHex (wordQuote s)
  | ["u", h] => withBytes h fun s => Bytes.toHex (urlQuote s)
  | ["n", h] => withBytes h fun s => Bytes.toHex (defaultQuote s)
  | ["p", h] => withBytes h fun s => Bytes.toHex (rfc1738DoEscape Gen.LogQuoting.flagsPart s)
  | ["f", fl, h] => withBytes h fun s => Bytes.toHex (rfc1738DoEscape (fl.toNat! &&& 0x187) s)
  | ["a", q, f, h] =>
    match quotingOf q with
    | some qq =>
      if f == "h" then withBytes h fun s => Bytes.toHex (field Gen.LogQuoting.requestHeaderAsksQuote qq (some s))
      else if f == "n" then withBytes h fun s => Bytes.toHex (field Gen.LogQuoting.userNameAsksQuote qq (some s))
      else "bad-op"
    | none => "bad-op"
  | ["w", _kind, id, v, u, m, st] =>
    match opt id, opt v, opt u, opt m, opt st with
    | some id, some v, some u, some m, some st => "n=1 " ++ Bytes.toHex (assemble (e2eFormat id v u m st))
    | _, _, _, _, _ => "bad-op"
  | _ => "bad-op"

end Driver.C34

def main : IO UInt32 := Driver.runPure Driver.C34.handle
