import Driver.Loop
import SquidModel.SBuf.Alloc
open SquidModel SquidModel.SBuf

/-!
Line driver of the SBuf model.  Input and output formats are those of harness/c48.cc:
`s <K> <alloc> <op> ...` → per op `<result>|<changed contents>|<internals>`.
When the model reaches `ub` the rest of the line is the single token `ub`.
-/
namespace Driver.C48

def num? (s : String) : Option Nat :=
  if s.isEmpty || s.length > 12 || !s.all Char.isDigit then none else s.toNat?

def size? (s : String) : Option Nat := (num? s).bind fun v => if v < W then some v else none
def byte? (s : String) : Option UInt8 := (num? s).bind fun v => if v < 256 then some (UInt8.ofNat v) else none
def bool? (s : String) : Option Bool := (num? s).bind fun v => if v = 0 then some false else if v = 1 then some true else none
def var? (k : Nat) (s : String) : Option Nat := (num? s).bind fun v => if v < k then some v else none
def hexLower? (s : String) : Option Bytes :=
  if s.any Char.isUpper then none else Bytes.ofHex s
def nulFree? (s : String) : Option Bytes := (hexLower? s).bind fun b => if b.contains 0 then none else some b

def decimal (n : Nat) : Bytes := (toString n).toUTF8.toList

/-- the output of vsnprintf for the formats of the harness: (strlen(fmt), output) -/
def format (fi d : Nat) (b : Bytes) : Option (Nat × Bytes) :=
  match fi with
  | 0 => some (0, [])
  | 1 => some (2, b)
  | 2 => some (4, [60] ++ b ++ [62])
  | 3 => some (4, b ++ b)
  | 4 => some (2, [37])
  | 5 => some (5, decimal (d % 100000) ++ [58] ++ b)
  | _ => none

def parseOp (k : Nat) (tok : String) : Option Op :=
  match tok.splitOn "," with
  | ["n", i] => do pure (.fresh (← var? k i))
  | ["A", i, j] => do pure (.assign (← var? k i) (← var? k j))
  | ["ab", i, b] => do pure (.assignBytes (← var? k i) (← hexLower? b))
  | ["ar", i, j, p, n] => do pure (.assignRaw (← var? k i) (← var? k j) (← size? p) (← size? n))
  | ["pb", i, b] => do pure (.appendBytes (← var? k i) (← hexLower? b))
  | ["ps", i, j] => do pure (.appendS (← var? k i) (← var? k j))
  | ["pr", i, j, p, n] => do pure (.appendRaw (← var? k i) (← var? k j) (← size? p) (← size? n))
  | ["pc", i, c] => do pure (.pushBack (← var? k i) (← byte? c))
  | ["cl", i] => do pure (.clear (← var? k i))
  | ["ch", i, p, n] => do pure (.chop (← var? k i) (← size? p) (← size? n))
  | ["ss", i, j, p, n] => do pure (.substr (← var? k i) (← var? k j) (← size? p) (← size? n))
  | ["co", i, j, n] => do pure (.consume (← var? k i) (← var? k j) (← size? n))
  | ["tr", i, j, fl] => do
    let f ← num? fl
    if f > 3 then none else pure (.trim (← var? k i) (← var? k j) (f % 2 == 1) (f / 2 == 1))
  | ["sa", i, p, c] => do pure (.setAt (← var? k i) (← size? p) (← byte? c))
  | ["lo", i] => do pure (.toLower (← var? k i))
  | ["up", i] => do pure (.toUpper (← var? k i))
  | ["cs", i] => do pure (.cStr (← var? k i))
  | ["rs", i, n] => do pure (.reserveSpace (← var? k i) (← size? n))
  | ["rc", i, n] => do pure (.reserveCapacity (← var? k i) (← size? n))
  | ["rv", i, a, b, c, d] => do pure (.reserve (← var? k i) (← size? a) (← size? b) (← size? c) (← bool? d))
  | ["ra", i, n, b] => do
    let bs ← hexLower? b
    let n ← size? n
    if bs.length > n then none else pure (.rawAppend (← var? k i) n bs)
  | ["af", i, fi, d, b] => do
    let (fl, out) ← format (← size? fi) (← size? d) (← nulFree? b)
    pure (.appendf (← var? k i) fl out)
  | ["pf", i, fi, d, b] => do
    let (fl, out) ← format (← size? fi) (← size? d) (← nulFree? b)
    pure (.printf (← var? k i) fl out)
  | ["fa", i, j] => do pure (.appendfS (← var? k i) (← var? k j))
  | ["fp", i, j] => do pure (.printfS (← var? k i) (← var? k j))
  | ["ln", i] => do pure (.length (← var? k i))
  | ["at", i, p] => do pure (.at (← var? k i) (← size? p))
  | ["cm", i, j, cs, n] => do pure (.compare (← var? k i) (← var? k j) (← bool? cs) (← size? n))
  | ["eq", i, j] => do pure (.equal (← var? k i) (← var? k j))
  | ["sw", i, j, cs] => do pure (.startsWith (← var? k i) (← var? k j) (← bool? cs))
  | ["fc", i, c, p] => do pure (.findChar (← var? k i) (← byte? c) (← size? p))
  | ["fs", i, j, p] => do pure (.findS (← var? k i) (← var? k j) (← size? p))
  | ["Rc", i, c, p] => do pure (.rfindChar (← var? k i) (← byte? c) (← size? p))
  | ["Rs", i, j, p] => do pure (.rfindS (← var? k i) (← var? k j) (← size? p))
  | ["ff", i, s, p] => do pure (.findFirstOf (← var? k i) (← hexLower? s) (← size? p))
  | ["fn", i, s, p] => do pure (.findFirstNotOf (← var? k i) (← hexLower? s) (← size? p))
  | ["fl", i, s, p] => do pure (.findLastOf (← var? k i) (← hexLower? s) (← size? p))
  | ["fm", i, s, p] => do pure (.findLastNotOf (← var? k i) (← hexLower? s) (← size? p))
  | ["cp", i, n] => do pure (.copy (← var? k i) (min (← size? n) (2 ^ 20)))
  | ["cc", i, s, cs, n] => do pure (.compareC (← var? k i) (← nulFree? s) (← bool? cs) (← size? n))
  | _ => none

def showRes : Res → String
  | .unit => "ok"
  | .nat n => if n = npos then "npos" else toString n
  | .int z => if z < 0 then "-1" else if z > 0 then "1" else "0"
  | .bool b => if b then "1" else "0"
  | .bytes b => Bytes.toHex b
  | .short room => "short:" ++ toString room
  | .thrown => "throw"

/-- blob numbers by first appearance over the objects; the prototype store is 0 -/
def canon (h : Heap) (k : Nat) : List Nat :=
  (List.range k).foldl (fun acc i => let b := (h.view i).blob; if acc.contains b then acc else acc ++ [b]) [0]

def showInternals (h : Heap) (k : Nat) : String :=
  let order := canon h k
  let vs := (List.range k).map fun i =>
    let v := h.view i
    toString (order.idxOf v.blob) ++ "." ++ toString v.off ++ "." ++ toString v.len
  let bs := order.map fun b =>
    let x := h.blob b
    toString x.size ++ "." ++ toString x.cap ++ "." ++ toString x.refs
  ":".intercalate vs ++ "#" ++ ":".intercalate bs

def allContents (h : Heap) (k : Nat) : Option (List Bytes) := (List.range k).mapM fun i => h.contents i

def showChanges (before after : List Bytes) : String :=
  let idx := (List.range after.length).filter fun i => before.getD i [] != after.getD i []
  ",".intercalate (idx.map fun i => toString i ++ "=" ++ Bytes.toHex (after.getD i []))

def runOps (c : Cfg) (k : Nat) : Heap → List Bytes → List Op → List String → List String
  | _, _, [], acc => acc.reverse
  | h, before, op :: ops, acc =>
    let next (h' : Heap) (r : Res) : List String :=
      match allContents h' k with
      | some after => runOps c k h' after ops ((showRes r ++ "|" ++ showChanges before after ++ "|" ++ showInternals h' k) :: acc)
      | none => ((showRes r ++ "|corrupt|" ++ showInternals h' k) :: acc).reverse
    match step c h op with
    | .ok (h', r) => next h' r
    | .thrown h' => next h' .thrown
    | .ub => ("ub" :: acc).reverse

def handle (line : String) : String :=
  match Driver.words line with
  | "s" :: ks :: mode :: toks =>
    match num? ks with
    | some k =>
      if k < 1 || k > 6 || (mode != "x" && mode != "c") then "bad-op" else
      let c : Cfg := if mode == "c" then classAlloc else exactAlloc
      match toks.mapM (parseOp k) with
      | some ops =>
        if ops.isEmpty then "empty" else
        " ".intercalate (runOps c k (Heap.init c k) (List.replicate k []) ops [])
      | none => "bad-op"
    | none => "bad-op"
  | _ => "bad-op"

end Driver.C48

def main : IO UInt32 := Driver.runPure Driver.C48.handle
