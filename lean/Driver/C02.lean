import Driver.Loop
import Driver.C01
import SquidModel.Relay.Request
import SquidModel.Gen.RelayFlags
open SquidModel SquidModel.Relay.Request

namespace Driver.C02

/-- after every event: deliver what is deliverable (writes, notifications, space) until nothing changes -/
def settle : Nat → Sys → Sys
  | 0, s => s
  | f + 1, s =>
    let s1 := step (step (step s .send) .notify) .space
    if s1.got == s.got && s1.put == s.put && s1.done == s.done && s1.aborted == s.aborted && s1.whole == s.whole then s1
    else settle f s1

def parseCfr (t : String) : Option CFr :=
  if t == "ch" then some .chunked
  else match t.splitOn ":" with
    | ["cl", n] => n.toNat?.map CFr.cl
    | _ => none

/-- line: `<method> <cfr> <seed> <pieces> <cut> <end> <hsplit> <segs> <stall> <expect> <obeh>` -/
def handle (line : String) : String :=
  match Driver.words line with
  | [method, cfr, seed, pieces, cut, fin, _hsplit, segs, _stall, expect, obeh] =>
    match parseCfr cfr, seed.toNat?, Driver.C01.parsePieces pieces, (if cut == "-" then some none else cut.toNat?.map some), Driver.C01.natList segs with
    | some cfr, some seed, some ps, some cut, some segs =>
      if (method != "POST" && method != "PUT") || (fin != "keep" && fin != "fin" && fin != "rst") || (expect != "0" && expect != "1") || obeh != "ok"
         || (cut.isNone && fin != "keep") then "bad-op"
      else
        let wire := Driver.C01.wireOf ps seed
        let sent := match cut with | some k => wire.take k | none => wire
        let segList := Driver.C01.splitAt sent segs
        let fuel := sent.length + 8
        let s0 := Sys.init cfr true Gen.RelayFlags.bodyPipeMax
        -- the first segment arrives with the header (with Expect: 100-continue the header arrives alone); forwarding starts after it
        let first := if expect == "1" then [] else segList.headD []
        let rest := if expect == "1" then segList else segList.drop 1
        let s1 := settle fuel (step (step s0 (.client first)) .start)
        let s2 := rest.foldl (fun s seg => settle fuel (step s (.client seg))) s1
        let s3 := if fin == "keep" then s2 else settle fuel (step s2 .clientGone)
        let body := s3.upBody
        if !s3.started then s!"o: fr=none len=0 fnv={Driver.C01.hex64 (Driver.C01.fnv [])} end=none n=0 | c: st=none"
        else
          let fr := if s3.upChunked then "chunked" else match s3.size with | some n => s!"cl:{n}" | none => "?"
          let e := if s3.upComplete && s3.done then "complete" else if s3.aborted then "eof" else "timeout"
          s!"o: fr={fr} len={body.length} fnv={Driver.C01.hex64 (Driver.C01.fnv body)} end={e} n=1 | c: st=" ++ (if e == "complete" then "200" else "none")
    | _, _, _, _, _ => "bad-op"
  | _ => "bad-op"

end Driver.C02

def main : IO UInt32 := Driver.runPure Driver.C02.handle
