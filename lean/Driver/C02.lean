import Driver.Loop
import SquidModel.Relay.Request
import SquidModel.Gen.RelayFlags
open SquidModel SquidModel.Relay.Request

namespace Driver.C02

def fnv (b : Bytes) : UInt64 :=
  b.foldl (fun h x => (h ^^^ x.toUInt64) * 0x100000001b3) 0xcbf29ce484222325

def hex64 (x : UInt64) : String :=
  String.ofList ((List.range 16).map fun i => Bytes.hexDigit ((x.toNat >>> (4 * (15 - i))) % 16))

/-- the harness's body generator: x' = 1664525 x + 1013904223 mod 2^32, octet = x' >> 24 -/
def genBody (n seed : Nat) : Bytes :=
  let rec go : Nat → UInt32 → List UInt8 → List UInt8
    | 0, _, acc => acc.reverse
    | k + 1, x, acc =>
      let x' := x * 1664525 + 1013904223
      go k x' ((x' >>> 24).toUInt8 :: acc)
  go n (UInt32.ofNat ((seed * 2654435761 + 12345) % 4294967296)) []

inductive Piece
  | d (n : Nat)
  | x (b : Bytes)

def parsePiece (s : String) : Option Piece :=
  match s.toList with
  | 'd' :: r => (String.ofList r).toNat?.map Piece.d
  | 'x' :: r => (Bytes.ofHexChars r).map Piece.x
  | _ => none

def parsePieces (s : String) : Option (List Piece) :=
  if s == "-" then some [] else (s.splitOn ",").mapM parsePiece

def wireOf (ps : List Piece) (seed : Nat) : Bytes :=
  let total := ps.foldl (fun a p => match p with | .d n => a + n | .x _ => a) 0
  let B := genBody total seed
  let rec go : List Piece → Bytes → List Bytes → Bytes
    | [], _, acc => acc.reverse.flatten
    | .d n :: r, b, acc => go r (b.drop n) (b.take n :: acc)
    | .x y :: r, b, acc => go r b (y :: acc)
  go ps B []

def natList (s : String) : Option (List Nat) :=
  if s == "-" then some [] else (s.splitOn ",").mapM String.toNat?

/-- cut `b` at the given increasing offsets -/
def splitAt (b : Bytes) (cuts : List Nat) : List Bytes :=
  let rec go : List Nat → Nat → Bytes → List Bytes → List Bytes
    | [], _, rest, acc => (rest :: acc).reverse
    | c :: cs, pos, rest, acc =>
      if c > pos ∧ c - pos < rest.length then go cs c (rest.drop (c - pos)) (rest.take (c - pos) :: acc)
      else go cs pos rest acc
  go cuts 0 b []


/-- after every event: deliver what is deliverable (writes, notifications, space) until nothing changes -/
def settle : Nat → Sys → Sys
  | 0, s => s
  | f + 1, s =>
    let s1 := step (step (step s .send) .notify) .space
    if s1.got == s.got && s1.put == s.put && s1.done == s.done && s1.aborted == s.aborted && s1.whole == s.whole then s1
    else settle f s1

def parseCfr (t : String) : Option CFr :=
  if t == "ch" then some .chunked
  else match t.splitOn ":" with
    | ["cl", n] => n.toNat?.map CFr.cl
    | _ => none

/-- line: `<method> <cfr> <seed> <pieces> <cut> <end> <hsplit> <segs> <stall> <expect> <obeh>` -/
def handle (line : String) : String :=
  match Driver.words line with
  | [method, cfr, seed, pieces, cut, fin, _hsplit, segs, _stall, expect, obeh] =>
    match parseCfr cfr, seed.toNat?, parsePieces pieces, (if cut == "-" then some none else cut.toNat?.map some), natList segs with
    | some cfr, some seed, some ps, some cut, some segs =>
      if (method != "POST" && method != "PUT") || (fin != "keep" && fin != "fin" && fin != "rst") || (expect != "0" && expect != "1") || obeh != "ok"
         || (cut.isNone && fin != "keep") then "bad-op"
      else if cfr == .cl 0 then
        -- Content-Length: 0: no body is expected, no BodyPipe exists (clientProcessRequest: expectBody = chunked || content_length > 0)
        s!"o: fr=cl:0 len=0 fnv={hex64 (fnv [])} end=complete n=1 | c: st=200"
      else
        let wire := wireOf ps seed
        let sent := match cut with | some k => wire.take k | none => wire
        let segList := splitAt sent segs
        let fuel := sent.length + 8
        let s0 := Sys.init cfr true Gen.RelayFlags.bodyPipeMax
        -- the first segment arrives with the header (with Expect: 100-continue the header arrives alone); forwarding starts after it
        let first := if expect == "1" then [] else segList.headD []
        let rest := if expect == "1" then segList else segList.drop 1
        let s1 := settle fuel (step (step s0 (.client first)) .start)
        let s2 := rest.foldl (fun s seg => settle fuel (step s (.client seg))) s1
        let s3 := if fin == "keep" then s2 else settle fuel (step s2 .clientGone)
        let body := s3.upBody
        if !s3.started then s!"o: fr=none len=0 fnv={hex64 (fnv [])} end=none n=0 | c: st=none"
        else
          let fr := if s3.upChunked then "chunked" else match s3.size with | some n => s!"cl:{n}" | none => "?"
          let e := if s3.upComplete && s3.done then "complete" else if s3.aborted then "eof" else "timeout"
          s!"o: fr={fr} len={body.length} fnv={hex64 (fnv body)} end={e} n=1 | c: st=" ++ (if e == "complete" then "200" else "none")
    | _, _, _, _, _ => "bad-op"
  | _ => "bad-op"

end Driver.C02

def main : IO UInt32 := Driver.runPure Driver.C02.handle
