import Driver.Loop
import SquidModel.Ipc.TypedMsg
open SquidModel SquidModel.Ipc.TypedMsg

namespace Driver.C58

structure Regs where
  s : Msg
  r : Msg

def inInt (v : Int) : Bool := -2147483648 ≤ v && v ≤ 2147483647

def resTok : Res Unit → String
  | .ok _ => "+"
  | .thrown => "!"
  | .oob => "oob"

def outTok (tag : String) : Out → String
  | .done => "+"
  | .thrown => "!"
  | .oob => "oob"
  | .int n => s!"{tag}:{n}"
  | .bytes b => s!"{tag}:{Bytes.toHex b}"
  | .bool b => s!"{tag}:{if b then 1 else 0}"

def received (r : Msg) : String :=
  s!"{if r.hasData then 1 else 0}:{r.type}:{r.size}:{Bytes.toHex (r.raw.take (min r.size maxSize))}"

/-- one op: new registers and the token, or none for a malformed op -/
def doOp (g : Regs) (w : String) : Option (Regs × String) :=
  match w.splitOn "," with
  | ["T", t] => match t.toInt? with
    | some t => if inInt t then let x := setType g.s t; some ({ g with s := x.1 }, resTok x.2) else none
    | none => none
  | ["I", n] => match n.toInt? with
    | some n => if inInt n then let x := putInt g.s n; some ({ g with s := x.1 }, resTok x.2) else none
    | none => none
  | ["S", h] => match Bytes.ofHex h with
    | some b => let x := putString g.s b; some ({ g with s := x.1 }, resTok x.2)
    | none => none
  | ["F", h] => match Bytes.ofHex h with
    | some b => let x := putFixed g.s b; some ({ g with s := x.1 }, resTok x.2)
    | none => none
  | ["x"] => let r := transfer g.s; some ({ g with r := r }, "x:" ++ received r)
  | ["X"] => let r := copy g.s; some ({ g with r := r }, "X:" ++ received r)
  | ["W", h] => match Bytes.ofHex h with
    | some b => if b.length ≤ wireSize then some ({ g with r := receive b }, "+") else none
    | none => none
  | ["w", t, sz, h] => match t.toInt?, sz.toNat?, Bytes.ofHex h with
    | some t, some sz, some b =>
      if inInt t && sz < SIZE_T && b.length ≤ maxSize then some ({ g with r := receive (wireOf t sz b) }, "+") else none
    | _, _, _ => none
  | ["c", t] => match t.toInt? with
    | some t => if inInt t then let x := rstep g.r (.checkType t); some ({ g with r := x.1 }, outTok "c" x.2) else none
    | none => none
  | ["i"] => let x := rstep g.r .getInt; some ({ g with r := x.1 }, outTok "i" x.2)
  | ["s"] => let x := rstep g.r .getString; some ({ g with r := x.1 }, outTok "s" x.2)
  | ["f", n] => match n.toNat? with
    | some n => if n ≤ 70000 then let x := rstep g.r (.getFixed n); some ({ g with r := x.1 }, outTok "f" x.2) else none
    | none => none
  | ["m"] => let x := rstep g.r .more; some (g, outTok "m" x.2)
  | ["y"] => let x := rstep g.r .rawType; some (g, outTok "y" x.2)
  | ["C"] => let x := rstep g.r .copy; some ({ g with r := x.1 }, "+")
  | ["o"] => some (g, s!"o:{g.r.offset}:{g.r.size}")
  | _ => none

def go (g : Regs) : List String → Option (List String)
  | [] => some []
  | w :: ws =>
    match doOp g w with
    | none => none
    | some (g', tok) =>
      match go g' ws with
      | none => none
      | some toks => some (tok :: toks)

def handle (line : String) : String :=
  match go ⟨fresh, prepForReading⟩ (Driver.words line) with
  | none => "bad-op"
  | some toks => if toks.isEmpty then "-" else " ".intercalate toks

end Driver.C58

def main : IO UInt32 := Driver.runPure Driver.C58.handle
