import Driver.Loop
import SquidModel.Base.Bytes
import SquidModel.Fwd.RetryMethods
import SquidModel.Fwd.RetrySim
open SquidModel SquidModel.Fwd.Retry

namespace Driver.C07

def bit (s : String) : Option Bool :=
  if s == "0" then some false else if s == "1" then some true else none

def parseCfg : String → Option Cfg
  | "d" => some defaultCfg
  | "t" => some (cfgOf 2 false false)
  | "p" => some (cfgOf SquidModel.Gen.MethodClasses.forwardMaxTriesDefault false true)
  | "e" => some (cfgOf SquidModel.Gen.MethodClasses.forwardMaxTriesDefault true false)
  | _ => none

def numAfter (s : String) (n : Nat) : Option Nat := ((s.drop n).toString).toNat?

def parseFault (s : String) : Option Fault :=
  if s == "ok" then some .ok
  else if s == "pk" then some .peekClose
  else if s == "hd" then some .headClose
  else if s == "fr" then some .fullClose
  else if s == "rs" then some .fullReset
  else if s.startsWith "hf" then (numAfter s 2).map (Fault.partHead · false)
  else if s.startsWith "hr" then (numAfter s 2).map (Fault.partHead · true)
  else if s.startsWith "bf" then (numAfter s 2).map (Fault.partBody · false)
  else if s.startsWith "br" then (numAfter s 2).map (Fault.partBody · true)
  else if s.startsWith "st" then (numAfter s 2).map Fault.status
  else none

def parseFaults (s : String) : Option (List Fault) :=
  if s == "." then some [] else (s.splitOn ",").mapM parseFault

/-- (hasBody, bodySent) -/
def parseBody (s : String) : Option (Bool × Bool) :=
  if s == "n" || s == "z" then some (false, false)
  else if s.startsWith "b" then (numAfter s 1).map fun k => (decide (k > 0), decide (k > 0))
  else if s.startsWith "c" then (numAfter s 1).map fun k => (true, decide (k > 0))
  else if s.startsWith "w" then (numAfter s 1).map fun k => (decide (k > 0), false)
  else none

def parseAddrs (s : String) : Option (List Nat) :=
  s.toList.mapM fun ch => if '1' ≤ ch ∧ ch ≤ '6' then some (ch.toNat - 48) else none

def showArr (o : List Out) : String :=
  let l := o.filterMap fun
    | .dispatch d reused => some (toString d ++ (if reused then "r" else ""))
    | _ => none
  if l.isEmpty then "." else ",".intercalate l

def b01 (b : Bool) : String := if b then "1" else "0"

def asText (b : Bytes) : String := String.ofList (b.map fun x => Char.ofNat x.toNat)

def handle (line : String) : String :=
  match Driver.words line with
  | ["cls", rel, hex] =>
    match bit rel, Bytes.ofHex hex with
    | some relaxed, some tok =>
      if tok.isEmpty then "bad-op" else
      let m := classify relaxed tok
      s!"id={m.id} safe={b01 m.safe} idem={b01 m.idem} image={Bytes.toHex m.image}"
    | _, _ => "bad-op"
  | ["rfs", on, code] =>
    match bit on, code.toNat? with
    | some onerror, some st => if st > 100000 then "bad-op" else b01 (isReforwardableStatus (cfgOf 25 onerror false) st)
    | _, _ => "bad-op"
  | ["nib", hb, put, take] =>
    match bit hb, put.toNat?, take.toNat? with
    | some hasBody, some p, some t =>
      if p > 4096 || t > 4096 then "bad-op" else
      b01 (bodyNibbled { safe := false, idem := false, hasBody := hasBody } { nibbled := decide (min p t > 0) })
    | _, _, _ => "bad-op"
  | [cfg, method, body, addrs, prime, faults] =>
    match parseCfg cfg, parseBody body, parseAddrs addrs, bit prime, parseFaults faults with
    | some c, some (hasBody, bodySent), some ads, some pr, some fl =>
      let tok := Bytes.ofString method
      let m := classify true tok
      let r : Req := { safe := m.safe, idem := m.idem, hasBody := hasBody }
      let headReq := m.image == [72, 69, 65, 68]
      let (s, o) := scenario c r bodySent headReq ads pr fl
      let seen := if dispatches o == 0 then "-" else asText m.image
      s!"st={finalStatus s} arr={showArr o} m={seen}"
    | _, _, _, _, _ => "bad-op"
  | _ => "bad-op"

end Driver.C07

def main : IO UInt32 := Driver.runPure Driver.C07.handle
