import Driver.Loop
import SquidModel.Acl.HttpEval
open SquidModel SquidModel.Acl SquidModel.Acl.Http

namespace Driver.C45

def bytesOf (s : String) : Bytes := s.toUTF8.toList

/-- `a,b,c;d,e` → lines `a b c`, `d e` -/
def confLines (s : String) : List Bytes :=
  if s == "-" then [] else (s.splitOn ";").map fun l => bytesOf (l.replace "," " ")

def quadOf (s : String) : Option Nat :=
  match quad? (bytesOf s) with
  | some (.val v) => some v
  | _ => none

def ipsOf (s : String) : Option (List Nat) :=
  if s == "-" then some [] else (s.splitOn "+").mapM quadOf

/-- `METHOD|src|host|port|ips|rdns[|xff]` (the optional 7th field is the X-Forwarded-For header the rig adds: with the
default `follow_x_forwarded_for deny all` it has no influence on the decision) -/
def reqOf (s : String) : Option Req :=
  match (s.splitOn "|").take 6 with
  | [m, src, host, port, ips, rdns] =>
    match quadOf src, ipsOf ips with
    | some sv, some iv =>
      let p : Option (Option Nat) := if port == "-" then some none else (canonDec? (bytesOf port)).map some
      match p with
      | some pv =>
        if m.isEmpty || host.isEmpty || (s.splitOn "|").length > 7 then none
        else some (mkReq sv (bytesOf m) (bytesOf host) pv iv (if rdns == "-" then none else some (bytesOf rdns)))
      | none => none
    | _, _ => none
  | _ => none

/-- line: `<conf> <req> <req> ...` -/
def handle (line : String) : String :=
  match Driver.words line with
  | conf :: reqs =>
    match reqs.mapM reqOf with
    | none => "bad-op"
    | some rs =>
      match scenario (confLines conf) rs with
      | .reject r => "reject:" ++ r.token
      | .unmodelled => "unmodelled"
      | .run obs => if obs.isEmpty then "none" else " ".intercalate (obs.map Obs.token)
  | _ => "bad-op"

end Driver.C45

def main : IO UInt32 := Driver.runPure Driver.C45.handle
