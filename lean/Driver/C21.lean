import Driver.Loop
import SquidModel.Http1.Request
open SquidModel SquidModel.Http1

namespace Driver.C21

def stageLetter : Stage → String
  | .none => "N" | .first => "F" | .mime => "M" | .done => "D"

def fields (st : PState) : String :=
  s!"m={Bytes.toHex st.method} g={if st.isGet then 1 else 0} u={Bytes.toHex st.uri} v={st.vmaj}.{st.vmin}"

/-- the detailed line the harness prints for a parser/connection state -/
def showConn (c : Conn) : String :=
  if c.st.stage ≠ .done then s!"more st={stageLetter c.st.stage} c={c.consumed}"
  else if c.st.status = 200 then s!"ok {fields c.st} h={Bytes.toHex c.st.mime} c={c.consumed}"
  else s!"rej s={c.st.status} c={c.consumed}"

def parseSegs : List String → Option (List Bytes)
  | [] => some []
  | h :: t => match Bytes.ofHex h, parseSegs t with
    | some b, some r => some (b :: r)
    | _, _ => none

def handle (line : String) : String :=
  match Driver.words line with
  | "p" :: rel :: lim :: segs =>
    match lim.toNat?, parseSegs segs with
    | some limit, some ss =>
      if rel ≠ "0" ∧ rel ≠ "1" then "bad-op" else
      let cfg : Cfg := { relaxed := rel == "1", limit := limit, fixCr := Gen.Http1Request.fixCr, fixLine := Gen.Http1Request.fixLine }
      showConn (feedAll cfg ss) ++ " | " ++ showConn (feed cfg {} ss.flatten)
    | _, _ => "bad-op"
  | _ => "bad-op"

end Driver.C21

def main : IO UInt32 := Driver.runPure Driver.C21.handle
