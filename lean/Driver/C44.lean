import Driver.Loop
import SquidModel.Acl.TreeSys
open SquidModel SquidModel.Acl.Tree

namespace Driver.C44

abbrev Chars := List Char

def splitC (sep : Char) : Chars → List Chars
  | [] => [[]]
  | c :: rest =>
    if c == sep then [] :: splitC sep rest
    else match splitC sep rest with
      | [] => [[c]]
      | w :: ws => (c :: w) :: ws

def isNumber (cs : Chars) : Bool := !cs.isEmpty && cs.length ≤ 6 && cs.all Char.isDigit

def toNat (cs : Chars) : Nat := cs.foldl (fun n c => n * 10 + (c.toNat - '0'.toNat)) 0

def parseItem (nleaves ngroups : Nat) (cs : Chars) : Option Item :=
  let (neg, cs) := match cs with
    | '!' :: r => (true, r)
    | r => (false, r)
  match cs with
  | 'g' :: num =>
    if isNumber num && toNat num < ngroups then some { neg := neg, isGroup := true, idx := toNat num } else none
  | num =>
    if isNumber num && toNat num < nleaves then some { neg := neg, isGroup := false, idx := toNat num } else none

def parseLine (nleaves ngroups : Nat) (cs : Chars) : Option (List Item) :=
  if cs.isEmpty then some [] else (splitC ',' cs).mapM (parseItem nleaves ngroups)

def parseGroupsAux (nleaves : Nat) : List Chars → Nat → Option (List GroupSpec)
  | [], _ => some []
  | g :: rest, k =>
    match g with
    | t :: '=' :: body =>
      if t != 'a' && t != 'o' then none else
      match (splitC '|' body).mapM (parseLine nleaves k), parseGroupsAux nleaves rest (k + 1) with
      | some lines, some gs => some ({ kind := if t == 'a' then .allOf else .anyOf, lines := lines } :: gs)
      | _, _ => none
    | _ => none

def parseGroupsField (nleaves : Nat) (s : String) : Option (List GroupSpec) :=
  if s == "_" then some [] else parseGroupsAux nleaves (splitC ';' s.toList) 0

def parseRule (nleaves ngroups : Nat) (cs : Chars) : Option (Answer × List Item) :=
  match cs with
  | '+' :: l => (parseLine nleaves ngroups l).map fun it => ({ code := .allowed }, it)
  | '-' :: l => (parseLine nleaves ngroups l).map fun it => ({ code := .denied }, it)
  | _ => none

def parseRulesField (nleaves ngroups : Nat) (s : String) : Option (List (Answer × List Item)) :=
  if s == "_" then some [] else (splitC ';' s.toList).mapM (parseRule nleaves ngroups)

def parseLeaf (cs : Chars) : Option (LeafScript × List Round) :=
  match cs with
  | [] => none
  | v :: rest =>
    let val : Option Val := if v == 't' then some .t else if v == 'f' then some .f
      else if v == 'x' then some (.stop .dunno) else if v == 'y' then some (.stop .authRequired) else none
    match val with
    | none => none
    | some val =>
      let rs := rest.takeWhile (fun c => c == 'd' || c == 'i')
      let tail := rest.dropWhile (fun c => c == 'd' || c == 'i')
      let rounds := rs.map (fun c => if c == 'd' then Round.deferred else Round.immediate)
      match tail with
      | [] => some ({ val := val, styleB := false }, rounds)
      | ['!'] => some ({ val := val, styleB := true }, rounds)
      | _ => none

def parseCheck (nleaves : Nat) (cs : Chars) : Option Check :=
  let head := cs.takeWhile (· != ':')
  let tail := cs.dropWhile (· != ':')
  match head, tail with
  | k :: banned, ':' :: rest =>
    if k != 'n' && k != 'f' then none else
    if !(banned.all (fun c => c == '+' || c == '-')) then none else
    let leaves : Option (List (LeafScript × List Round)) :=
      if rest.isEmpty && nleaves == 0 then some [] else (splitC ',' rest).mapM parseLeaf
    match leaves with
    | none => none
    | some ls =>
      if ls.length != nleaves then none else
      some { kind := if k == 'n' then .nonBlocking else .fast,
             script := ls.map (·.1), rounds := ls.map (·.2),
             banned := banned.map (fun c => ({ code := if c == '+' then Code.allowed else Code.denied } : Answer)) }
  | _, _ => none

def parseChecksField (nleaves : Nat) (s : String) : Option (List Check) :=
  if s == "_" then some [] else (splitC ';' s.toList).mapM (parseCheck nleaves)

def parseSchedule (s : String) : Option (List Nat) :=
  if s == "_" then some [] else
  (splitC ',' s.toList).mapM (fun k => if isNumber k then some (toNat k) else none)

mutual
def shape : Node → String
  | .leaf id => toString id
  | .not c => "![" ++ shape c ++ "]"
  | .and cs => "&[" ++ shapes cs ++ "]"
  | .or cs => "|[" ++ shapes cs ++ "]"
  | .allOf cs => "A[" ++ shapes cs ++ "]"
def shapes : List Node → String
  | [] => ""
  | [c] => shape c
  | c :: rest => shape c ++ "," ++ shapes rest
end

def actionChar (a : Answer) : String :=
  match a.code with
  | .allowed => "+"
  | .denied => "-"
  | _ => "?"

def answerText (a : Answer) : String :=
  (match a.code with
   | .allowed => "A"
   | .denied => "D"
   | .dunno => "U"
   | .authRequired => "R")
  ++ (if a.kind != 0 then "k" ++ toString a.kind else "")
  ++ (if a.implicit then "i" else "")

def faultText (s : CL) : String :=
  match s.fault with
  | none => ""
  | some f => "!fault:" ++ reprStr f

def statusText : Status → String
  | .done a s => answerText a ++ faultText s
  | .paused s => "paused" ++ faultText s
  | .idle => "idle"

def eventText (e : Nat × Nat × Int) : String :=
  toString e.1 ++ "." ++ toString e.2.1 ++ (if e.2.2 == 1 then "+" else if e.2.2 == 0 then "-" else "~")

def handle (line : String) : String :=
  match Driver.words line with
  | [mode, nl, groups, rules, checks, sched] =>
    if mode != "P" && mode != "D" then "bad-op" else
    if !(isNumber nl.toList) || toNat nl.toList > 64 then "bad-op" else
    let nleaves := toNat nl.toList
    match parseGroupsField nleaves groups with
    | none => "bad-op"
    | some gs =>
    match parseRulesField nleaves gs.length rules, parseChecksField nleaves checks, parseSchedule sched with
    | some rs, some cks, some sc =>
      match parseGroups nleaves [] gs with
      | none => "reject:self-destruct"
      | some gnodes =>
      match parseRules nleaves gnodes (mode == "P") rs with
      | none => "reject:self-destruct"
      | some tree =>
        -- aclParseAccessLine creates the Acl::Tree with the first accepted rule; mode D always has one
        let access : Option Rules := if mode == "P" && tree.isEmpty then none else some tree
        let sys := runSched access cks (fuelFor cks) sc (initSys cks)
        "r=" ++ toString tree.length ++ " T[" ++ ",".intercalate (tree.map fun (a, n) => actionChar a ++ shape n) ++ "] "
          ++ (if cks.isEmpty then "_" else ";".intercalate (sys.sts.map statusText)) ++ " "
          ++ (if sys.trace.isEmpty then "_" else ",".intercalate (sys.trace.reverse.map eventText))
    | _, _, _ => "bad-op"
  | _ => "bad-op"

end Driver.C44

def main : IO UInt32 := Driver.runPure Driver.C44.handle
