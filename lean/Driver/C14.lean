import Driver.Loop
import SquidModel.Cache.CondHistory
open SquidModel SquidModel.Cache.Cond

namespace Driver.C14

def hexList (s : String) : Option (Option (List Bytes)) :=
  if s == "n" then some none else ((s.splitOn ",").mapM Bytes.ofHex).map some

def parseVer (s : String) : Option Ver :=
  match s.splitOn "/" with
  | [e, l] =>
    let etag : Option (Option Bytes) := if e == "n" then some none else (Bytes.ofHex e).map some
    let lm : Option (Option Int) := if l == "n" then some none else l.toInt?.map (fun o => some (nowT - o))
    match etag, lm with
    | some e, some l => some ⟨e, l⟩
    | _, _ => none
  | _ => none

def parseIms (s : String) : Option ImsTok :=
  if s == "n" then some .none
  else match s.toList with
    | 'x' :: _ => some .junk
    | c :: rest =>
      if c == 'o' || c == 'p' || c == 'a' then (String.ofList rest).toInt?.map (fun o => .time (nowT - o)) else none
    | [] => none

def parseMode (s : String) : Option OMode :=
  if s == "r" then some .ref
  else if s == "e" then some .err
  else match s.toList with
    | 'c' :: rest => (String.ofList rest).toNat?.map .cl
    | _ => none

def parseStep (nvers : Nat) (s : String) : Option Step :=
  match s.splitOn "/" with
  | [m, inm, im, ims, k, omode, fr] =>
    let meth : Option Method := if m == "G" then some .get else if m == "H" then some .head else none
    let fresh : Option Bool := if fr == "f" then some true else if fr == "s" then some false else none
    match meth, hexList inm, hexList im, parseIms ims, k.toNat?, parseMode omode, fresh with
    | some meth, some inm, some im, some ims, some k, some omode, some fresh =>
      if k < nvers then some { method := meth, inm := inm, im := im, ims := ims, k := k, omode := omode, fresh := fresh } else none
    | _, _, _, _, _, _, _ => none
  | _ => none

def showOpt (f : α → String) : Option α → String
  | some x => f x
  | none => "n"

def showFields : Option (List Bytes) → String
  | none => "n"
  | some l => ",".intercalate (l.map Bytes.toHex)

def showOff (t : Int) : String := toString (nowT - t)

def showIms : ImsTok → String
  | .none => "n"
  | .time t => showOff t
  | .junk => "x"
  | .now => "now"

def showBody (e : Entry) (headOnly : Bool) : String :=
  if headOnly then "-" else
  let len := Gen.CondConsts.bodyBase + e.body
  match e.cl with
  | none => s!"v{e.body}"
  | some n =>
    if n == len then s!"v{e.body}"
    else if n == 0 then "-"
    else if n < len then s!"v{e.body}[{n}]"
    else s!"v{e.body}!"

def showOut : Out → String
  | .full e h => s!"200/{showBody e h}/s{e.xv}/{showOpt Bytes.toHex e.etag}/{showOpt showOff e.lm}"
  | .made304 etag lm => s!"304/-/n/{showOpt Bytes.toHex etag}/{showOpt showOff lm}"
  | .relayed304 i etag lm => s!"304/-/s{i}/{showOpt Bytes.toHex etag}/{showOpt showOff lm}"
  | .err412 => "412/err/n/n/n"
  | .err500 => "500/err/n/n/n"
  | .err504 => "504/err/n/n/n"

def showOrigin : Option (Fwd × OReply) → String
  | none => "-"
  | some (f, r) =>
    let st := match r with | .ok _ => "200" | .notMod _ _ => "304" | .precond => "412" | .error => "500"
    s!"{st}:{showFields f.inm}:{showFields f.im}:{showIms f.ims}"

def showBit (b : Option Bool) : String :=
  match b with | none => "-" | some true => "1" | some false => "0"

/-- in-process line `c <etag> <lm> <ts> <method> <ranged> <inm> <im> <ims>` (see harness/c14.cc) -/
def handleC (w : List String) : String :=
  match w with
  | [et, lm, ts, m, rg, inm, im, ims] =>
    let etag : Option (Option Bytes) := if et == "n" then some none else (Bytes.ofHex et).map some
    let lmv : Option (Option Int) := if lm == "n" then some none else lm.toInt?.map some
    let imsv : Option (Option Int) := if ims == "n" then some none else ims.toInt?.map some
    let meth : Option Method := if m == "G" then some .get else if m == "H" then some .head else if m == "P" then some .other else none
    let ranged : Option Bool := if rg == "0" then some false else if rg == "1" then some true else none
    match etag, lmv, ts.toInt?, meth, ranged, hexList inm, hexList im, imsv with
    | some etag, some lmv, some ts, some meth, some ranged, some inm, some im, some imsv =>
      -- the ETag field went through HttpHeaderEntry::parse: its value is trimmed
      let e : EntryView := { status := 200, etag := etag.map trimValue, lastModified := lmv, timestamp := ts }
      let r : Req := { method := meth, inm := inm, im := im, ims := imsv, ranged := ranged }
      let a := im.map (hasIfMatchEtag e)
      let b := inm.map (hasIfNoneMatchEtag e r)
      let c := imsv.map (modifiedSince e)
      s!"im={showBit a} inm={showBit b} mod={showBit c}"
    | _, _, _, _, _, _, _, _ => "bad-op"
  | _ => "bad-op"

/-- line: `<versions> <steps>` or `c ...` (see props/C14.py) -/
def handle (line : String) : String :=
  match Driver.words line with
  | "c" :: rest => handleC rest
  | [vt, stt] =>
    match (vt.splitOn ";").mapM parseVer with
    | some vers =>
      match (stt.splitOn ";").mapM (parseStep vers.length) with
      | some steps =>
        if steps.isEmpty || steps.length > 40 then "bad-op" else
        ";".intercalate ((run vers 0 steps none).map fun (o, oc) => showOut o ++ "/" ++ showOrigin oc)
      | none => "bad-op"
    | none => "bad-op"
  | _ => "bad-op"

end Driver.C14

def main : IO UInt32 := Driver.runPure Driver.C14.handle
