import Driver.Loop
import SquidModel.Limits.Head
open SquidModel.Limits

namespace Driver.C62

def showV : Verdict → String
  | .needMore => "needmore" | .accept => "forwarded" | .uriTooLong => "rejected 414" | .headerTooLarge => "rejected 431"

/-- `req <L> <F> <M> <arrivals, comma separated>` / `rep <R> <H>` -/
def handle (line : String) : String :=
  match Driver.words line with
  | ["req", l, f, m, ns] =>
    match l.toNat?, f.toNat?, m.toNat?, (ns.splitOn ",").mapM String.toNat? with
    | some L, some F, some M, some arr => showV (firstVerdict L F M (arr ++ [F + M]))
    | _, _, _, _ => "bad-op"
  | ["rep", r, h] =>
    match r.toNat?, h.toNat? with
    | some R, some H => if replyRelayed R H then "relayed" else "error"
    | _, _ => "bad-op"
  | _ => "bad-op"

end Driver.C62

def main : IO UInt32 := Driver.runPure Driver.C62.handle
