import Driver.Loop
import SquidModel.Fwd.Loop
open SquidModel SquidModel.Fwd

namespace Driver.C63

def parseMethod : String → Method
  | "GET" => .get | "HEAD" => .head | "POST" => .post | "OPTIONS" => .options | "TRACE" => .trace | _ => .other

def hexList (s : String) : Option (List Bytes) :=
  if s == "." then some [] else (s.splitOn ",").mapM Bytes.ofHex

def showInts (l : List Int) : String := if l.isEmpty then "." else ",".intercalate (l.map toString)

def run1 (cdnLoop : Bool) (m h a vs ms : String) : String :=
  match Bytes.ofHex h, Bytes.ofHex a, hexList vs, hexList ms with
  | some host, some app, some vias, some mfs =>
    match outcomeWith cdnLoop host app (parseMethod m) vias mfs with
    | .local501 => "local 501"
    | .localTrace => "local 200"
    | .denied => "local 403"
    | .forward outs => "forward " ++ showInts outs
  | _, _, _, _ => "bad-op"

/-- line: `<method> <hex host> <hex app> <via hex list | .> <mf hex list | .> [F|A|C|D]`
F (default) forward-proxy port; A accel port; C accel port + a CDN-Loop member naming this Squid; D forward port + that CDN-Loop -/
def handle (line : String) : String :=
  match Driver.words line with
  | [m, h, a, vs, ms] => run1 false m h a vs ms
  | [m, h, a, vs, ms, mode] =>
    if mode == "F" || mode == "A" || mode == "D" then run1 false m h a vs ms
    else if mode == "C" then run1 true m h a vs ms
    else "bad-op"
  | _ => "bad-op"

end Driver.C63

def main : IO UInt32 := Driver.runPure Driver.C63.handle
