import Driver.Loop
import SquidModel.Fwd.Loop
open SquidModel SquidModel.Fwd

namespace Driver.C63

def parseMethod : String → Method
  | "GET" => .get | "HEAD" => .head | "POST" => .post | "OPTIONS" => .options | "TRACE" => .trace | _ => .other

def hexList (s : String) : Option (List Bytes) :=
  if s == "." then some [] else (s.splitOn ",").mapM Bytes.ofHex

def showInts (l : List Int) : String := if l.isEmpty then "." else ",".intercalate (l.map toString)

/-- line: `<method> <hex host> <hex app> <via hex list | .> <mf hex list | .>` -/
def handle (line : String) : String :=
  match Driver.words line with
  | [m, h, a, vs, ms] =>
    match Bytes.ofHex h, Bytes.ofHex a, hexList vs, hexList ms with
    | some host, some app, some vias, some mfs =>
      match outcome host app (parseMethod m) vias mfs with
      | .local501 => "local 501"
      | .localTrace => "local 200"
      | .denied => "local 403"
      | .forward outs => "forward " ++ showInts outs
    | _, _, _, _ => "bad-op"
  | _ => "bad-op"

end Driver.C63

def main : IO UInt32 := Driver.runPure Driver.C63.handle
