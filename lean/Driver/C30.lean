import Driver.Loop
import SquidModel.Uri.Canon
open SquidModel SquidModel.Uri

namespace Driver.C30

def methodOf (s : String) : Method :=
  if s == "CONNECT" then .connect else if s == "OPTIONS" || s == "TRACE" then .star else .other

def cfgOf (flags : String) (ad : Bytes) : Option Config :=
  match flags.toList with
  | [a, b, c] =>
    if (a == '0' || a == '1') && (b == '0' || b == '1') && '0' ≤ c && c ≤ '4' then
      some { checkHostnames := a == '1', allowUnderscore := b == '1', uriWhitespace := c.toNat - 48, appendDomain := ad }
    else none
  | _ => none

def fields (r : Parsed) (sep : String) (withUi : Bool) : String :=
  "proto=" ++ protoName r.proto ++ sep ++ "img=" ++ Bytes.toHex r.image ++
  (if withUi then sep ++ "ui=" ++ Bytes.toHex r.userInfo else "") ++
  sep ++ "host=" ++ Bytes.toHex r.host ++ sep ++ "num=" ++ (if r.numeric then "1" else "0") ++
  sep ++ "port=" ++ (match r.port with | some p => toString p | none => "none") ++
  sep ++ "path=" ++ Bytes.toHex (pathOut r)

def render (cfg : Config) (m : Method) (url : Bytes) : String :=
  match parse cfg Ip.classify m url with
  | .reject c => "reject:" ++ c
  | .unmodelled w => "unmodelled:" ++ w
  | .ok r =>
    let canon := canonical m r
    "ok " ++ fields r " " true ++ " canon=" ++ Bytes.toHex canon ++ " re=" ++
      (match parse cfg Ip.classify m canon with
       | .reject c => "reject:" ++ c
       | .unmodelled w => "unmodelled:" ++ w
       | .ok r2 => fields r2 "," false)

def handle (line : String) : String :=
  match Driver.words line with
  | ["P", meth, flags, adh, urlh] =>
    match Bytes.ofHex adh, Bytes.ofHex urlh with
    | some ad, some url =>
      if ad.contains 0 then "bad-line"
      else
        match cfgOf flags ad with
        | some cfg => render cfg (methodOf meth) url
        | none => "bad-line"
    | _, _ => "bad-line"
  | ["I", h] =>
    match Bytes.ofHex h with
    | some s =>
      if s.contains 0 then "reject:nul"
      else
        match Ip.classify s with
        | .notIp => "none"
        | .any => "any"
        | .addr t => "ip=" ++ Bytes.toHex t
        | .unknown => "unmodelled:scope-id"
    | none => "bad-line"
  | _ => "bad-line"

end Driver.C30

def main : IO UInt32 := Driver.runPure Driver.C30.handle
