import Driver.Loop
import SquidModel.Fd.Book
open SquidModel.Fd

namespace Driver.C08

/-! `t <maxFD> <op>...` — the descriptor table (src/fd.cc) -/

inductive TOp where
  | tbl (o : Op)
  | high (opening reserved : Int)

def parseInt (s : String) : Option Int :=
  if s.startsWith "-" then (s.drop 1).toString.toNat?.map (fun n => -(n : Int)) else s.toNat?.map (fun n => (n : Int))

def parseTOp (s : String) : Option TOp :=
  let rest := (s.drop 1).toString
  if s.startsWith "o" then rest.toNat?.map (fun n => .tbl (.open_ n))
  else if s.startsWith "c" then rest.toNat?.map (fun n => .tbl (.close n))
  else if s.startsWith "h" then
    match rest.splitOn ":" with
    | [a, b] => match parseInt a, parseInt b with
      | some x, some y => some (.high x y)
      | _, _ => none
    | _ => none
  else none

def parseTOps : List String → Option (List TOp)
  | [] => some []
  | h :: t => match parseTOp h, parseTOps t with
    | some o, some r => some (o :: r)
    | _, _ => none

def showBad : Bad → String
  | .outsideTable => "assert:outsideTable"
  | .closeNotOpen => "assert:closeNotOpen"
  | .closingAboveBiggest => "assert:closingAboveBiggest"
  | .reopeningBiggest => "assert:reopeningBiggest"

def openList (flags : List Bool) : String :=
  let idx := (List.range flags.length).filter (fun i => flags.getD i false)
  if idx.isEmpty then "-" else ",".intercalate (idx.map toString)

def runT : Table → String → List TOp → String
  | t, extra, [] => s!"ok n={t.number} b={t.biggest} open={openList t.flags}{extra}"
  | t, extra, .high o r :: rest => runT t (extra ++ s!" high={if fdUsageHigh t o r then 1 else 0}") rest
  | t, extra, .tbl o :: rest =>
    match apply t o with
    | .error e => showBad e
    | .ok t' => runT t' extra rest

/-! `e <cache> <txn>...` — the bookkeeping trace of an end-to-end scenario: every transaction kind is mapped to the descriptor
events its history consists of (descriptor numbers are the lowest free ones, as the kernel hands them out), then all timeouts expire -/

def lowestFree (t : Table) : Nat := (List.range t.maxFD).find? (fun i => !t.isOpen i) |>.getD t.maxFD

/-- a server connection for the transaction: an idle one when the pool has one, else a new descriptor; returns its number -/
def takeServer (s : St) : St × Nat :=
  match s.pool.list.getLast? with
  | some fd => (step s (.fromPool [fd]), fd)
  | none => let fd := lowestFree s.tbl; (step s (.openNew fd), fd)

def txn (s : St) (kind : String) : Option St :=
  let c := lowestFree s.tbl
  let s1 := step s (.openNew c)
  match kind with
  | "ok" | "okka" | "post" | "hit" =>
    let (s2, sv) := takeServer s1
    some (step (step s2 (.toPool sv)) (.closeBusy c))
  | "cabq" | "cstall" => some (step s1 (.closeBusy c))
  | "cabr" | "crst" =>
    let (s2, sv) := takeServer s1
    some (step (step s2 (.closeBusy c)) (.closeBusy sv))
  | "sclose" | "srst" | "sstall" =>
    let (s2, sv) := takeServer s1
    some (step (step s2 (.closeBusy sv)) (.closeBusy c))
  | _ => none

def runE : St → List String → Option St
  | s, [] => some s
  | s, k :: rest =>
    match txn s ((k.splitOn ":").headD "") with
    | some s' => runE s' rest
    | none => none

def handle (line : String) : String :=
  match Driver.words line with
  | "t" :: m :: ops =>
    match m.toNat?, parseTOps ops with
    | some maxFD, some os => if maxFD < 1 ∨ maxFD > 4096 then "bad-op" else runT (Table.empty maxFD) "" os
    | _, _ => "bad-op"
  | "e" :: _cache :: txns =>
    let s0 : St := ⟨Table.empty 256, 0, [], ⟨[], 2⟩, 0, 20, false, none⟩
    match runE s0 txns with
    | none => "bad-op"
    | some s =>
      let f := expireAll s
      match f.bad with
      | some b => showBad b
      | none => s!"delta={f.tbl.number - (f.base : Int)} mgr={f.tbl.number - (f.base : Int)} idle<={s.pool.list.length}"
  | _ => "bad-op"

end Driver.C08

def main : IO UInt32 := Driver.runPure Driver.C08.handle
